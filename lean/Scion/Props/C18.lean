import Scion.Model.Wire
import Scion.Proofs.Wire
import Scion.Model.WireExt
import Scion.Proofs.WireExt
import Scion.Model.ScmpMsg
import Scion.Proofs.ScmpMsg
import Scion.Gen.Wire
import Scion.Gen.Path
/-!
# C18 — SCION headers round-trip through decoding and serialization

Property theorems only.  Model: `Scion.Model.Wire` (byte-level transcription of
`slayers.SCION.{DecodeFromBytes,SerializeTo}` with the address header and the four path types),
`Scion.Model.WireExt` (HBH/E2E extension headers with TLV options, SCION/UDP, SCMP), tied to
`pkg/slayers` by `harness/cmd/wire`.

The well-formedness predicate `Hdr.WF` (decidable, `Scion/Model/Wire.lean`) is: field widths,
address lengths as declared by the address types, a well-formed path of the declared type and
`HdrLen·4 = 12 + address header + path` (hence ≤ 1020 and a multiple of 4).
-/
namespace Scion.C18
open Scion.Wire Scion.WireExt Scion.ScmpMsg Scion.Util

/-- **value → bytes → value.**  Every well-formed header value serializes, and decoding the
bytes (followed by any payload) yields the same field values and exactly that payload. -/
theorem decode_serialize (h : Hdr) (hw : h.WF) (payload : Bytes) :
    ∃ bytes, encodeSCION h = .ok bytes ∧ bytes.length = h.cmn.hdrLen * 4 ∧
      decodeSCION (bytes ++ payload) = .ok (h, payload) := by
  obtain ⟨hc, ha, hp, hpt, hlen⟩ := hw
  obtain ⟨pb, hpb, hpl, hdp⟩ := decPath_encPath h.path hp
  have h255 : h.cmn.hdrLen < 256 := hc.2.2.2.2.1
  refine ⟨encCmn h.cmn ++ encAddr h.cmn ⟨h.dstIA, h.srcIA, h.rawDst, h.rawSrc⟩ ++ pb, ?_, ?_, ?_⟩
  · unfold encodeSCION
    simp only
    rw [if_neg (by omega), if_neg (by omega), hpb]
  · simp [length_encCmn, length_encAddr, hpl]; omega
  · unfold decodeSCION
    rw [show encCmn h.cmn ++ encAddr h.cmn ⟨h.dstIA, h.srcIA, h.rawDst, h.rawSrc⟩ ++ pb ++ payload =
      encCmn h.cmn ++ (encAddr h.cmn ⟨h.dstIA, h.srcIA, h.rawDst, h.rawSrc⟩ ++ (pb ++ payload)) by simp]
    rw [decCmn_encCmn _ _ hc]
    simp only
    rw [decAddr_encAddr _ _ _ ha]
    simp only
    rw [decPathPart_enc h.cmn h.path pb payload _ hpt hlen hpl hdp
      (by simp [length_encCmn, length_encAddr]; omega)]

/-- **No panic.**  The decoder is total and every slice it takes is in range: the outcome
`Err.panic` (a `takeN` that Go would answer with a slice-bounds panic) is unreachable for every
byte string. -/
theorem decode_no_panic (data : Bytes) : decodeSCION data ≠ .error .panic := by
  unfold decodeSCION
  split
  · simp
  · rename_i c rest hc
    obtain ⟨b0, b1, b2, b3, b4, b5, b6, b7, b8, b9, r0, r1, hdata, _, _⟩ := encCmn_decCmn hc
    have := decAddr_ne_panic c rest
    split
    · rename_i e he; intro hx; cases hx; exact this he
    · rename_i a r4 ha
      obtain ⟨hrest, _⟩ := decAddr_ok ha
      have hl : r4.length + 12 + addrHdrLen c = data.length := by
        rw [hdata, hrest]; simp [length_encAddr]; omega
      have := decPathPart_ne_panic c data.length r4 hl
      split
      · rename_i e he; intro hx; cases hx; exact this he
      · simp

/-- **bytes → value → bytes.**  Whatever byte string the decoder accepts: the decoded value is
well-formed, it re-serializes, and header ‖ payload reproduces the input on all bits except the
reserved ones (`reservedMask`: the RSV bytes 10–11 of the common header, the six reserved bits
of the path meta line, the reserved bits of the one-hop info/hop fields), which come out zero.
In particular the header the decoder consumed is exactly `HdrLen·4` bytes — a `HdrLen` that
declares more than common + address + path need is rejected. -/
theorem serialize_decode (data : Bytes) (h : Hdr) (payload : Bytes)
    (hd : decodeSCION data = .ok (h, payload)) :
    h.WF ∧ ∃ bytes, encodeSCION h = .ok bytes ∧ bytes.length = h.cmn.hdrLen * 4 ∧
      bytes ++ payload = clearBits data (reservedMask h) := by
  unfold decodeSCION at hd
  split at hd
  · cases hd
  · rename_i c rest hc
    obtain ⟨b0, b1, b2, b3, b4, b5, b6, b7, b8, b9, r0, r1, hdata, hec, hcw⟩ := encCmn_decCmn hc
    split at hd
    · cases hd
    · rename_i a r4 ha
      obtain ⟨hrest, haw⟩ := decAddr_ok ha
      split at hd
      · cases hd
      · rename_i p pl hpp
        obtain ⟨pb, hr4, hlen, hdp⟩ := decPathPart_ok hpp
        obtain ⟨hpw, hpt, hpl, hep, hpos⟩ := decPath_ok hdp
        cases hd
        have hwf : Hdr.WF ⟨c, a.dstIA, a.srcIA, a.rawDst, a.rawSrc, p⟩ :=
          ⟨hcw, haw, hpw, hpt.symm, by simp only; omega⟩
        refine ⟨hwf, encCmn c ++ encAddr c a ++ clearBits pb (pathMask p), ?_, ?_, ?_⟩
        · unfold encodeSCION
          have h255 : c.hdrLen < 256 := hcw.2.2.2.2.1
          simp only
          rw [if_neg (by omega), if_neg (by omega), hep]
        · obtain ⟨pb', hpb', hl', _⟩ := decPath_encPath p hpw
          rw [hep] at hpb'
          cases hpb'
          simp [length_encCmn, length_encAddr, hl']; omega
        · have e1 : clearBits data (reservedMask ⟨c, a.dstIA, a.srcIA, a.rawDst, a.rawSrc, p⟩) =
              clearBits (encCmn c ++ (encAddr c a ++ (pb ++ payload)))
                ((pathMask p).map fun (q, k) => (12 + addrHdrLen c + q, k)) := by
            rw [hdata, hrest, hr4, hec]
            simp only [reservedMask, clearBits]
            congr 1
            simp [clr, keepLow_zero]
          rw [e1]
          have e2 := clearBits_append_right (encCmn c ++ encAddr c a) (pb ++ payload) (pathMask p)
          simp only [List.length_append, length_encCmn, length_encAddr, List.append_assoc] at e2
          rw [e2, clearBits_append_left pb payload (pathMask p) hpos]
          simp

/-- **Declared lengths are within the data.**  On acceptance the header is exactly `HdrLen·4`
bytes and header + payload is the whole input … -/
theorem decode_length (data : Bytes) (h : Hdr) (payload : Bytes)
    (hd : decodeSCION data = .ok (h, payload)) :
    data.length = h.cmn.hdrLen * 4 + payload.length := by
  obtain ⟨_, bytes, _, hl, he⟩ := serialize_decode data h payload hd
  have : (bytes ++ payload).length = data.length := by rw [he, length_clearBits]
  simp at this
  omega

/-- … so an input whose common header declares a `HdrLen` beyond the data is rejected, with an
error and never a panic. -/
theorem overlong_hdrLen_rejected (data : Bytes) (c : Cmn) (rest : Bytes)
    (hc : decCmn data = some (c, rest)) (hlong : data.length < c.hdrLen * 4) :
    ∃ e, decodeSCION data = .error e ∧ e ≠ .panic := by
  cases hres : decodeSCION data with
  | error e => exact ⟨e, rfl, fun he => decode_no_panic data (he ▸ hres)⟩
  | ok v =>
    obtain ⟨h, payload⟩ := v
    have hl := decode_length data h payload hres
    unfold decodeSCION at hres
    rw [hc] at hres
    simp only at hres
    split at hres
    · cases hres
    · split at hres
      · cases hres
      · cases hres
        simp only at hl
        omega


/-! ### `scion.Decoded`: the info and hop fields inside a SCION path body -/

/-- the fields of a decoded SCION path serialize to `8·#info + 12·#hops` bytes that decode to the
same fields (`Decoded.SerializeTo` / `Decoded.DecodeFromBytes` loops) -/
theorem path_fields_decode_serialize (is : List Info) (hs : List Hop) (rest : Bytes)
    (hi : ∀ i ∈ is, i.WF) (hh : ∀ h ∈ hs, h.WF) :
    (encInfos is ++ encHops hs).length = is.length * 8 + hs.length * 12 ∧
    decInfos is.length (encInfos is ++ encHops hs ++ rest) = some (is, encHops hs ++ rest) ∧
    decHops hs.length (encHops hs ++ rest) = some (hs, rest) := by
  refine ⟨by simp [length_encInfos, length_encHops], ?_, decHops_encHops hs rest hh⟩
  rw [List.append_assoc]
  exact decInfos_encInfos is _ hi

/-- a single info / hop field: re-encoding a decoded field clears the reserved bits only -/
theorem info_field_serialize_decode (f r s0 s1 t0 t1 t2 t3 : UInt8) (i : Info)
    (h : decInfo [f, r, s0, s1, t0, t1, t2, t3] = some i) :
    encInfo i = [UInt8.ofNat (f.toNat % 4), 0, s0, s1, t0, t1, t2, t3] ∧ i.WF :=
  encInfo_decInfo f r s0 s1 t0 t1 t2 t3 i h

theorem hop_field_serialize_decode (f e i0 i1 e0 e1 m0 m1 m2 m3 m4 m5 : UInt8) (h : Hop)
    (hd : decHop [f, e, i0, i1, e0, e1, m0, m1, m2, m3, m4, m5] = some h) :
    encHop h = [UInt8.ofNat (f.toNat % 4), e, i0, i1, e0, e1, m0, m1, m2, m3, m4, m5] ∧ h.WF :=
  encHop_decHop f e i0 i1 e0 e1 m0 m1 m2 m3 m4 m5 h hd

/-! ### extension headers (HBH / E2E) with TLV options

`decExt chk` is `HopByHopExtn.DecodeFromBytes` for `chk = hbhChk` and
`EndToEndExtn.DecodeFromBytes` for `chk = e2eChk` (`decHBH`, `decE2E` are these instances);
`encExt chk fix` is the corresponding `SerializeTo`. -/

/-- value → bytes → value, as decoded values are re-serialized (no `FixLengths`) -/
theorem ext_decode_serialize (chk : Nat → Bool) (e : Ext) (payload : Bytes) (hw : e.WF)
    (hc : chk e.base.nextHdr = false) :
    ∃ bytes, encExt chk false e = .ok bytes ∧ decExt chk (bytes ++ payload) = .ok (e, payload) :=
  decExt_serialize chk e payload hw hc

/-- value → bytes → value with `FixLengths`, for **arbitrary option lists** (any types, data up
to 255 bytes, any alignment request `x·n+y` with `y < x`): the serializer inserts `Pad1`/`PadN`
options, the result is a multiple of 4 bytes, it decodes, and the decoded options are the given
ones plus padding options only (`contents` drops padding) with the same `NextHdr`.  The bound is
the 8-bit `ExtLen`. -/
theorem ext_decode_serialize_fix (chk : Nat → Bool) (nh el : Nat) (os : List Opt) (payload : Bytes)
    (hnh : nh < 256) (hw : ∀ o ∈ os, o.FixWF) (hc : chk nh = false)
    (hlen : (encOptsFix 2 os).length + 2 ≤ 1024) :
    ∃ bytes x, encExt chk true ⟨⟨nh, el⟩, os⟩ = .ok bytes ∧ bytes.length % 4 = 0 ∧
      decExt chk (bytes ++ payload) = .ok (x, payload) ∧ x.base.nextHdr = nh ∧
      contents x.opts = contents os ∧ (x.base.extLen + 1) * 4 = bytes.length :=
  decExt_serialize_fix chk nh el os payload hnh hw hc hlen

/-- bytes → value → bytes: exact (extension headers have no reserved bits) -/
theorem ext_serialize_decode (chk : Nat → Bool) (data : Bytes) (x : Ext) (payload : Bytes)
    (h : decExt chk data = .ok (x, payload)) :
    x.WF ∧ ∃ bytes, encExt chk false x = .ok bytes ∧ bytes ++ payload = data :=
  serialize_decExt chk data x payload h

/-- over-long `ExtLen` / `OptDataLen` and every other malformed input end in an error, never in
an out-of-range slice -/
theorem ext_decode_no_panic (chk : Nat → Bool) (data : Bytes) : decExt chk data ≠ .error .panic :=
  decExt_ne_panic chk data

/-- an `ExtLen` that declares more than the data holds is rejected -/
theorem overlong_extLen_rejected (chk : Nat → Bool) (nh el : UInt8) (rest : Bytes)
    (h : (nh :: el :: rest).length < (el.toNat + 1) * 4) :
    decExt chk (nh :: el :: rest) = .error .extLen := by
  have hb : decExtBase (nh :: el :: rest) = .error .extLen := by
    simp only [decExtBase]
    rw [if_pos h]
  unfold decExt
  rw [hb]

/-! ### the SPAO option (`pkt_auth.go`): an E2E option of type 2 viewed as SPI / algorithm /
timestamp-or-sequence-number / authenticator -/

/-- params → option (`NewPacketAuthOption`/`Reset`) → params (`ParsePacketAuthOption` + views):
the same values; the option is a legal serializer input (type 2, aligned 4n+2) -/
theorem spao_option_views_decode_serialize (p : AuthParams) (hw : p.WF) :
    ∃ o, encAuthOpt p = .ok o ∧ parseAuthOpt o = .ok p ∧ o.FixWF ∧
      o.data.length = 12 + p.auth.length := parseAuthOpt_enc p hw

/-- option → params → option: whatever option `ParsePacketAuthOption` accepts is reproduced from
its views except for the reserved byte (index 5 of the option data), which comes out zero -/
theorem spao_option_views_serialize_decode (o : Opt) (p : AuthParams) (hl : o.data.length < 256)
    (h : parseAuthOpt o = .ok p) :
    p.WF ∧ ∃ o', encAuthOpt p = .ok o' ∧ o'.typ = o.typ ∧ o'.data = clr 5 0 o.data ∧
      o'.dataLen = o.data.length := encAuthOpt_parse o p hl h

/-- options that are not authenticator options, or carry fewer than the 12 metadata bytes, are
rejected (the views never index out of range) -/
theorem spao_option_short_rejected (o : Opt) (h : o.data.length < 12) :
    ∃ e, parseAuthOpt o = .error e := by
  unfold parseAuthOpt
  split
  · exact ⟨_, rfl⟩
  · split
    · rename_i hd; rw [hd] at h; simp at h; omega
    · exact ⟨_, rfl⟩

/-- **Alignment invariant of the FixLengths serializer**: every option of the input list sits in
the serialized extension header at an offset (from the start of the header) congruent to its
request `y` modulo `x` -/
theorem options_aligned (os : List Opt) (hw : ∀ o ∈ os, o.FixWF) (i : Nat) (hi : i < os.length) :
    ∃ pre post, encOptsFix 2 os = pre ++ optBytes os[i] ++ post ∧
      (os[i].alignX ≠ 0 → (2 + pre.length) % os[i].alignX = os[i].alignY) :=
  encOptsFix_aligned os hw 2 i hi

/-! ### SCION/UDP and SCMP headers -/

theorem udp_decode_serialize (u : UDP) (pl : Bytes) (hw : u.WF) (hl : u.length = 8 + pl.length) :
    decUDP (encUDP u ++ pl) = .ok (u, pl) := decUDP_enc u pl hw hl

theorem udp_serialize_decode (data : Bytes) (u : UDP) (pl : Bytes) (h : decUDP data = .ok (u, pl)) :
    u.WF ∧ encUDP u = data.take 8 ∧ 8 ≤ data.length := encUDP_dec data u pl h

theorem scmp_decode_serialize (h : SCMPHdr) (pl : Bytes) (hw : h.WF) :
    decSCMP (encSCMP h ++ pl) = .ok (h, pl) := decSCMP_enc h pl hw

theorem scmp_serialize_decode (data : Bytes) (h : SCMPHdr) (pl : Bytes)
    (hd : decSCMP data = .ok (h, pl)) : h.WF ∧ encSCMP h ++ pl = data := encSCMP_dec data h pl hd

/-! ### the SCMP message types

`msgSpec typ` is the field layout of the layer `SCMP.NextLayerType` selects (all eight message
layers: destination unreachable, packet too big, parameter problem, external interface down,
internal connectivity down, echo request/reply, traceroute request/reply). -/

/-- value → bytes → value for every SCMP message type -/
theorem scmp_msg_decode_serialize (typ : Nat) (spec : List Field) (vs : List Nat) (rest : Bytes)
    (hs : msgSpec typ = some spec) (hv : ValuesWF spec vs) :
    decMsg spec (encFields spec vs ++ rest) = .ok (vs, rest) := by
  unfold decMsg
  rw [if_neg (by simp [length_encFields]), decFields_encFields spec vs rest (spec_ok typ spec hs) hv]

/-- bytes → value → bytes for every SCMP message type: exact except reserved fields, which come
out zero; a message shorter than its fixed fields is rejected without an out-of-range read -/
theorem scmp_msg_serialize_decode (typ : Nat) (spec : List Field) (data : Bytes) (vs : List Nat)
    (rest : Bytes) (hs : msgSpec typ = some spec) (h : decMsg spec data = .ok (vs, rest)) :
    ValuesWF spec vs ∧ encFields spec vs ++ rest = zeroReserved spec data := by
  unfold decMsg at h
  split at h
  · cases h
  · split at h
    · cases h
    · rename_i r hr
      cases h
      exact encFields_decFields spec data vs rest (spec_ok typ spec hs) hr

theorem scmp_msg_no_panic (spec : List Field) (data : Bytes) : decMsg spec data ≠ .error .panic :=
  decMsg_ne_panic spec data

theorem scmp_msg_short_rejected (spec : List Field) (data : Bytes) (h : data.length < totalLen spec) :
    decMsg spec data = .error .short := by
  unfold decMsg; rw [if_pos h]

/-- layout constants the model uses, re-extracted from the source on every run -/
theorem gen_consts :
    Scion.Gen.Wire.CmnHdrLen = 12 ∧ Scion.Gen.Wire.LineLen = 4 ∧ Scion.Gen.Wire.MaxHdrLen = 1020 ∧
    Scion.Gen.Wire.IABytes = 8 ∧ Scion.Gen.Wire.EmptyPathType = 0 ∧ Scion.Gen.Wire.ScionPathType = 1 ∧
    Scion.Gen.Wire.OneHopPathType = 2 ∧ Scion.Gen.Wire.EpicPathType = 3 ∧
    Scion.Gen.Wire.OneHopPathLen = 32 ∧ Scion.Gen.Wire.EpicMetadataLen = 16 ∧
    Scion.Gen.Path.MetaLen = 4 ∧ Scion.Gen.Path.InfoLen = 8 ∧ Scion.Gen.Path.HopLen = 12 ∧
    Scion.Gen.Path.MaxHops = PathMeta.maxHops := by decide

/-! Non-vacuity: a concrete header (IPv4 destination, IPv6 source, SCION path with two segments
of 2+1 hops, pointers in the middle) is well-formed. -/
def exHdr : Hdr :=
  { cmn := { version := 0, tc := 0xb8, flowID := 0xdead, nextHdr := 17, hdrLen := 26,
             payloadLen := 8, pathType := 1, dstType := 0, srcType := 3 },
    dstIA := 0x0001ff0000000110, srcIA := 0x0002ff0000000220,
    rawDst := [10, 0, 0, 1], rawSrc := [0x20, 1, 0xd, 0xb8, 0, 0, 0, 0, 0, 0, 0, 0, 0, 0, 0, 1],
    path := .scion ⟨1, 2, 2, 1, 0⟩ (List.replicate 52 7) }

example : exHdr.WF := by decide

/-- options with alignment requests as the SPAO (4n+2) and others use them -/
def exOpts : List Opt :=
  [⟨2, 0, [1, 2, 3, 4, 5, 6, 7, 8, 9, 10, 11, 12, 13, 14, 15, 16], 4, 2⟩, ⟨77, 0, [9], 8, 3⟩, ⟨0, 0, [], 0, 0⟩]
example : (∀ o ∈ exOpts, o.FixWF) ∧ (encOptsFix 2 exOpts).length + 2 ≤ 1024 := by decide

end Scion.C18
