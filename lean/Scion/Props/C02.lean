import Scion.Model.Net
import Scion.Proofs.Net
import Scion.Proofs.NetSteps
import Scion.Proofs.NetEdge
import Scion.Proofs.NetSpecEdge
import Scion.Proofs.NetPeerEdge
import Scion.Proofs.NetSibling
import Scion.Proofs.NetMulti7
/-!
# C02 — Paths built from beacons are accepted hop by hop and reach the destination

Model: `Scion.Model.Net` (beacon extender `extend`/`Beaconed`/`Registered`, combinator `pathOf`,
per-router step `routerStep`, end-to-end `run`/`send`).  The per-router step, the reply
construction and the reversal are tied to the real data plane by engine `net` (every real router
invocation is replayed through the model with AES-CMAC as the MAC); the same engine evaluates the
statement itself on random topologies with the real extender, combinator and routers.
-/
namespace Scion.C02
open Scion.Net

/-- **C02 at full strength** (any number of border routers per AS, every edge list the combinator
    may produce — shortcuts and peering included): the packet is delivered in the destination AS
    and crosses exactly the interfaces of the path metadata, in order. -/
def C02_full : Prop :=
  ∀ (mac : MacFn) (net : Net) (now : Nat) (edges : List Edge) (src dst : Nat) (c : Cursor),
    WFNet net → AllUp net → Joinable mac net edges src dst → pathOf edges = some c →
    Unexpired now c →
    ∃ cf, send mac net now src dst c = .delivered dst (pathIfaces edges) cf

/-- **Stage 1 (single segment, up, core or down, whole or from/to a shortcut AS)** — proved for
    networks with one border router per AS (hence `_partial`; sibling hand-over is covered by the
    tie to the real routers only).  By induction over the hops of the segment: the control-plane
    invariant `Chain` (every registered segment carries, hop by hop, the MAC of its AS under the
    accumulator β_j — `registered_chain`) meets the data-plane invariant "the SegID in the packet
    on arrival at hop j is the one that hop was created with" (C22).  The conclusion includes
    stage 4 for these paths: the interfaces crossed are exactly those of the path metadata
    (`trace_eq_metadata`) and the packet is handed to the internal network of `dst`. -/
theorem single_segment_accepted_partial (mac : MacFn) (net : Net) (now : Nat)
    (hWF : WFNet net) (hUp : AllUp net) (hSR : SingleRouter net)
    (e : Edge) (src dst : Nat) (c : Cursor) (hpeer : e.peer = none)
    (hJ : Joinable mac net [e] src dst) (hp : pathOf [e] = some c) (hexp : Unexpired now c) :
    ∃ cf, send mac net now src dst c = .delivered dst (pathIfaces [e]) cf := by
  cases hd : e.down with
  | true =>
    obtain ⟨cf, h, _⟩ := single_down_full mac net now src dst hWF hUp hSR e c hd hpeer hJ hp hexp
    exact ⟨cf, h⟩
  | false =>
    obtain ⟨cf, h, _⟩ := single_up_full mac net now src dst hWF hUp hSR e c hd hpeer hJ hp hexp
    exact ⟨cf, h⟩

/-- stage 4 spelled out: whatever `send` returns for such a path, it is a delivery in `dst` whose
    trace is the metadata's interface list -/
theorem trace_eq_metadata_partial (mac : MacFn) (net : Net) (now : Nat)
    (hWF : WFNet net) (hUp : AllUp net) (hSR : SingleRouter net)
    (e : Edge) (src dst : Nat) (c : Cursor) (hpeer : e.peer = none)
    (hJ : Joinable mac net [e] src dst) (hp : pathOf [e] = some c) (hexp : Unexpired now c)
    (a : Nat) (tr : List (Nat × Nat)) (cf : Cursor)
    (h : send mac net now src dst c = .delivered a tr cf) : a = dst ∧ tr = pathIfaces [e] := by
  obtain ⟨cf', h'⟩ := single_segment_accepted_partial mac net now hWF hUp hSR e src dst c hpeer hJ hp hexp
  rw [h'] at h
  cases h
  exact ⟨rfl, rfl⟩

/-- the control-plane invariant the induction rests on (re-exported): every registered segment is
    a chain of hop entries whose MACs were computed by the right AS under the right accumulator,
    joined by existing links of the right kind, starting with ingress 0 and ending with egress 0 -/
theorem registered_is_chain (mac : MacFn) (net : Net) (core : Bool) (s : PSeg)
    (h : Registered mac net core s) :
    Chain mac net core s.ts s.s0 s.entries ∧
    (∃ first, s.entries.head? = some first ∧ first.hop.cIn = 0) ∧
    (∃ last, s.entries.getLast? = some last ∧ last.hop.cEg = 0) ∧
    2 ≤ s.entries.length := registered_chain mac net core s h

/-- **Stage 2, up segment + down segment** joined at a common AS (the core AS both start from, or —
    child–child shortcut — any AS below it that both pass through), one border router per AS.
    At the joint AS one router validates the last hop of the up segment (SegID after the ingress
    update = β of that hop) and the first hop of the down segment (SegID = `calculateBeta` of the
    down edge), checks the link-type pair and forwards; from there the down segment's induction
    takes over. -/
theorem xover_accepted_partial (mac : MacFn) (net : Net) (now : Nat)
    (hWF : WFNet net) (hUp : AllUp net) (hSR : SingleRouter net)
    (eu ed : Edge) (src dst : Nat) (c : Cursor)
    (hud : eu.down = false) (huc : eu.core = false) (hup : eu.peer = none)
    (hdd : ed.down = true) (hdc : ed.core = false) (hdp : ed.peer = none)
    (hJ : Joinable mac net [eu, ed] src dst) (hp : pathOf [eu, ed] = some c)
    (hexp : Unexpired now c) :
    ∃ cf, send mac net now src dst c = .delivered dst (pathIfaces [eu, ed]) cf :=
  xover_up_down mac net now src dst hWF hUp hSR eu ed c hud huc hup hdd hdc hdp hJ hp hexp

/-- **Stage 2 in general: every path without peering**, any admissible combination of segments
    (up, core, down, up+core, up+down, core+down, up+core+down, and the mirror images that occur
    as reversed paths), whole or cut at shortcut ASes; one border router per AS.  By induction
    over the list of segments (`tail_run`): along a segment the transit induction, at a joint AS
    the cross-over step, which validates the last hop of the old and the first hop of the new
    segment and the link-type pair. -/
theorem nonpeering_accepted_partial (mac : MacFn) (net : Net) (now : Nat)
    (hWF : WFNet net) (hUp : AllUp net) (hSR : SingleRouter net)
    (edges : List Edge) (src dst : Nat) (c : Cursor) (hnp : ∀ e ∈ edges, e.peer = none)
    (hJ : Joinable mac net edges src dst) (hp : pathOf edges = some c) (hexp : Unexpired now c) :
    ∃ cf, send mac net now src dst c = .delivered dst (pathIfaces edges) cf := by
  obtain ⟨s, rest, _, _, _, _, _, _, h⟩ := nonpeer_accepted mac net now src dst hWF hUp hSR edges c hnp hJ hp hexp
  exact ⟨_, h⟩

/-- **Stage 3: peering paths** — an up segment ending in a peer entry, the peering link, a down
    segment starting with the matching peer entry (each side one or more ASes); one border router
    per AS.  The peering hops are validated with the accumulator of the *next* hop in construction
    order and leave the SegID untouched (C22). -/
theorem peering_accepted_partial (mac : MacFn) (net : Net) (now : Nat)
    (hWF : WFNet net) (hUp : AllUp net) (hSR : SingleRouter net)
    (eu ed : Edge) (src dst : Nat) (c : Cursor) (ku kd : Nat)
    (hup : eu.peer = some ku) (hdp : ed.peer = some kd)
    (hJ : Joinable mac net [eu, ed] src dst) (hp : pathOf [eu, ed] = some c)
    (hexp : Unexpired now c) :
    ∃ cf, send mac net now src dst c = .delivered dst (pathIfaces [eu, ed]) cf :=
  peering_accepted mac net now src dst hWF hUp hSR eu ed c ku kd hup hdp hJ hp hexp

/-- **C02 for networks with one border router per AS**: `C02_full` with the additional hypothesis
    `SingleRouter` — every path path combination can build (all segment combinations, shortcuts,
    peering shortcuts) is forwarded by every AS on it through exactly the interfaces of the path
    metadata and delivered in the destination AS. -/
theorem C02_single_router_partial (mac : MacFn) (net : Net) (now : Nat) (edges : List Edge)
    (src dst : Nat) (c : Cursor)
    (hWF : WFNet net) (hUp : AllUp net) (hSR : SingleRouter net)
    (hJ : Joinable mac net edges src dst) (hp : pathOf edges = some c) (hexp : Unexpired now c) :
    ∃ cf, send mac net now src dst c = .delivered dst (pathIfaces edges) cf := by
  by_cases hnp : ∀ e ∈ edges, e.peer = none
  · exact nonpeering_accepted_partial mac net now hWF hUp hSR edges src dst c hnp hJ hp hexp
  · -- some edge peers: then there are exactly two edges and both peer
    have hJ' := hJ
    obtain ⟨_, _, _, hjoints, hpl, _, _, _⟩ := hJ'
    have hex : ∃ e ∈ edges, e.peer.isSome = true := by
      apply Classical.byContradiction
      intro hno
      apply hnp
      intro e he
      cases hpe : e.peer with
      | none => rfl
      | some k => exact absurd ⟨e, he, by simp [hpe]⟩ hno
    obtain ⟨e, he, hpe⟩ := hex
    have hlen := hpl e he hpe
    match edges, hlen with
    | [e1, e2], _ =>
      have hj := hjoints.1
      cases h1 : e1.peer with
      | none =>
        cases h2 : e2.peer with
        | none =>
          simp only [List.mem_cons, List.not_mem_nil, or_false] at he
          rcases he with rfl | rfl
          · simp [h1] at hpe
          · simp [h2] at hpe
        | some k2 => simp [Joint, h1, h2] at hj
      | some k1 =>
        cases h2 : e2.peer with
        | none => simp [Joint, h1, h2] at hj
        | some k2 =>
          exact peering_accepted_partial mac net now hWF hUp hSR e1 e2 src dst c k1 k2 h1 h2 hJ hp hexp

/-- **Several border routers per AS, transit hop** (first step towards dropping `SingleRouter`):
    the router `r1` owning the ingress interface validates the hop, applies the ingress SegID
    update and hands the packet, unchanged otherwise, to the sibling router `r2` owning the egress
    interface; `r2` accepts it only over the sibling link from exactly that router
    (`validateTransitUnderlaySrc`), validates the hop again and sends it out — with exactly the
    SegID and pointers a single router produces (`transit_step`). -/
theorem sibling_handover_partial (mac : MacFn) (net : Net) (now src dst : Nat) (cd : Bool)
    (ts seg a r1 r2 i : Nat) (h : Hop) (done todo : List Hop) (after : List Seg) (fi f : Iface)
    (ha : ∀ s ∈ after, s.hops.length ≠ 1) (hdone : done ≠ []) (htodo : todo ≠ [])
    (hi0 : i ≠ 0) (hi : i = inSide cd h) (hsrc : a ≠ src) (hdst : a ≠ dst)
    (hmac : macOk mac (net a).key ⟨cd, false, usedSeg cd seg h, ts⟩ h = true)
    (hexp : expired now ts h.exp = false) (hia : h.inAlert = false) (hea : h.egAlert = false)
    (hfi : (net a).iface i = some fi) (hfio : fi.owner = r1) (h12 : r1 ≠ r2)
    (hf : (net a).iface (outSide cd h) = some f) (ho0 : outSide cd h ≠ 0) (hup : f.up = true)
    (hown : f.owner = r2) (hlt : ltSame fi.lt f.lt = true) :
    routerStep mac (cfgR net a r1) now (.ext i) (a == src) (a == dst)
        ⟨[], ⟨cd, false, seg, ts⟩, done, h, todo, after⟩ =
      .forward (outSide cd h) ⟨[], ⟨cd, false, usedSeg cd seg h, ts⟩, done, h, todo, after⟩ ∧
    routerStep mac (cfgR net a r2) now (.sibling r1) (a == src) (a == dst)
        ⟨[], ⟨cd, false, usedSeg cd seg h, ts⟩, done, h, todo, after⟩ =
      .forward (outSide cd h)
        (mkCur [] ⟨cd, false, nextSeg cd seg h, ts⟩ (done ++ [h]) todo after) := by
  refine ⟨?_, ?_⟩
  · exact sibling_ingress_step mac net now src dst cd ts seg a r1 i h [] done todo after fi f (by simp) ha
      (by have := List.length_pos_iff.mpr hdone; omega) htodo hi0 hi hsrc hdst hmac hexp hia hea hfi hf ho0
      (by rw [hown]; exact Ne.symm h12) hlt
  · have := sibling_egress_step mac net now src dst cd ts (usedSeg cd seg h) a r1 r2 i h done todo after fi f
      ha hdone htodo hi hsrc hdst hmac hexp hea hia hfi hfio h12 hf ho0 hup hown
    rw [sibling_handover_segid] at this
    exact this

/-- **Several border routers per AS, any kind of hop — the egress router** (transit hop, first hop
    after a segment change, peering hop out of the up segment, peering hop into the down segment:
    `p` and the position of `cm` are arbitrary).  The packet `cm` comes over the sibling link from
    router `r1`; router `r2` accepts it because `r1` owns the ingress interface of the hop
    (`validateTransitUnderlaySrc`; after a segment change that is the interface of the *previous*
    segment's last hop, `ingressInterface`), validates expiry and MAC again, does no segment change
    of its own, and sends the packet out after egress processing. -/
theorem sibling_egress_any_hop (mac : MacFn) (net : Net) (now a r1 r2 : Nat) (sl : Bool) (cm : Cursor)
    (p : Bool) (fi f : Iface) (c' : Cursor)
    (hsing : (!cm.info.peer && cm.hasSingleton) = false)
    (hp : determinePeer cm = some p)
    (hexp : expired now cm.info.ts cm.cur.exp = false)
    (hnf : cm.isFirstHop = false)
    (hfi : (net a).iface (ingressInterface cm p) = some fi) (hr1 : fi.owner = r1) (h12 : r1 ≠ r2)
    (hmac : macOk mac (net a).key cm.info cm.cur = true)
    (hx : (cm.isXover && !p) = false)
    (he0 : egressOf cm ≠ 0) (hf : (net a).iface (egressOf cm) = some f) (hr2 : f.owner = r2)
    (hal : (if cm.info.consDir then cm.cur.egAlert else cm.cur.inAlert) = false)
    (hup : f.up = true) (hinc : (egUpd cm p).incPath = some c') :
    routerStep mac (cfgR net a r2) now (.sibling r1) sl false cm = .forward (egressOf cm) c' :=
  sibling_out_step mac net now a r1 r2 sl cm p fi f c' hsing hp hexp hnf hfi hr1 h12 hmac hx he0 hf hr2
    hal hup hinc

/-- **Crossing an AS with several border routers = crossing it with one.**  `collapse net` is
    `net` with every interface moved to router 0.  For ANY packet `c` (every segment with the same
    Peer flag, not on its very first hop, on the first hop of a later segment only across a
    peering link — what holds for every packet a router sends to a neighbour, `ArrOK`) that the
    single router of the collapsed AS forwards: the router owning the ingress interface either
    does exactly the same, or (cross-over included) hands the packet to the sibling owning the
    egress interface, which sends out exactly the same packet over the same interface; and the
    packet sent out satisfies the same invariants, with fewer hop fields left.  This one lemma
    covers transit hops, segment changes and both peering hops, ingress and egress router. -/
theorem as_crossing_with_siblings (mac : MacFn) (net : Net) (now a i : Nat) (sl dl : Bool) (c : Cursor)
    (e : Nat) (c' : Cursor) (fi : Iface) (hfi : (net a).iface i = some fi) (hi0 : i ≠ 0)
    (hU : Uniform c) (hA : ArrOK c)
    (h : routerStep mac (cfgOf (collapse net) a) now (.ext i) sl dl c = .forward e c') :
    dl = false ∧ ∃ f, (net a).iface e = some f ∧ e ≠ 0 ∧
      ((f.owner = fi.owner ∧
          routerStep mac (cfgR net a fi.owner) now (.ext i) sl false c = .forward e c') ∨
       (f.owner ≠ fi.owner ∧ ∃ cm,
          routerStep mac (cfgR net a fi.owner) now (.ext i) sl false c = .forward e cm ∧
          routerStep mac (cfgR net a f.owner) now (.sibling fi.owner) sl false cm = .forward e c')) ∧
      Uniform c' ∧ ArrOK c' ∧ remaining c' < remaining c :=
  step_sim_ext mac net now a i sl dl c e c' fi hfi hi0 hU hA h

/-- whatever the collapsed network delivers, the network as it is delivers — same trace, same
    final packet (induction over the run with `as_crossing_with_siblings`; the fuel `send` grants,
    two router invocations per hop field, suffices) -/
theorem send_with_siblings (mac : MacFn) (net : Net) (now src dst : Nat) (hWF : WFNet net) (c : Cursor)
    (hU : Uniform c) (hfirst : c.isFirstHop = true) (d : Nat) (tr : List (Nat × Nat)) (cf : Cursor)
    (h : send mac (collapse net) now src dst c = .delivered d tr cf) :
    send mac net now src dst c = .delivered d tr cf :=
  send_sim mac net now src dst hWF c hU hfirst d tr cf h

/-- **C02 at full strength is a theorem**: any number of border routers per AS, every edge list
    the combinator may produce (all segment combinations, shortcuts, peering).  The hypotheses of
    `C02_full` do not depend on which router owns which interface, so they hold for
    `collapse net`; `C02_single_router_partial` delivers the packet there; `send_with_siblings`
    transfers the delivery, trace included, to `net`. -/
theorem C02_holds : C02_full := by
  intro mac net now edges src dst c hWF hUp hJ hp hexp
  obtain ⟨cf, h⟩ := C02_single_router_partial mac (collapse net) now edges src dst c
    (wf_collapse net hWF) (allUp_collapse net hUp) (singleRouter_collapse net)
    (joinable_collapse mac net edges src dst hJ) hp hexp
  obtain ⟨hU, hfirst⟩ := pathOf_uniform mac net edges src dst c hJ hp
  exact ⟨cf, send_sim mac net now src dst hWF c hU hfirst dst _ cf h⟩

/-! Non-vacuity: a two-AS network (core 1 with child 2), the beacon 1→2 with the identity-like MAC
`fun _ inp => inp.length`; the down path is delivered by `send`. -/
def exMac : MacFn := fun k inp => (k ++ inp).foldl (fun a b => (a * 31 + b.toNat) % 281474976710656) 7
def exNet : Net := fun a =>
  if a = 1 then ⟨[1], true, [⟨5, .child, true, 0, 2, 9⟩]⟩
  else if a = 2 then ⟨[2], false, [⟨9, .parent, true, 0, 1, 5⟩]⟩
  else ⟨[], false, []⟩
def exSeg : PSeg :=
  extend exMac exNet (extend exMac exNet ⟨77, 1000, []⟩ 1 63 0 5 []) 2 63 9 0 []

def exDelivered : Bool :=
  match pathOf [⟨exSeg, false, true, 0, none⟩] with
  | some c =>
    (match send exMac exNet 2000000 1 2 c with
     | .delivered a tr _ => a == 2 && tr == [(1, 5), (2, 9)]
     | _ => false)
  | none => false

example : exDelivered = true := by decide +kernel

/-- … and the segment is `Registered` in the sense of the theorems (originated by AS 1 on its
    child interface 5, terminated by AS 2) -/
example : Registered exMac exNet false exSeg :=
  Registered.terminate _ 2 9 63 []
    (Beaconed.originate 1 77 1000 63 5 [] ⟨5, .child, true, 0, 2, 9⟩ (by decide) rfl (by decide)
      (by intro p hp; cases hp))
    (by intro p hp; cases hp)

end Scion.C02
