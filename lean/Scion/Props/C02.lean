import Scion.Model.Net
import Scion.Proofs.Net
import Scion.Proofs.NetSteps
/-!
# C02 — Paths built from beacons are accepted hop by hop and reach the destination

Model: `Scion.Model.Net` (beacon extender `extend`/`Beaconed`/`Registered`, combinator `pathOf`,
per-router step `routerStep`, end-to-end `run`/`send`).  The per-router step, the reply
construction and the reversal are tied to the real data plane by engine `net` (every real router
invocation is replayed through the model with AES-CMAC as the MAC); the same engine evaluates the
statement itself on random topologies with the real extender, combinator and routers.
-/
namespace Scion.C02
open Scion.Net

/-- **C02 at full strength** (any number of border routers per AS, every edge list the combinator
    may produce — shortcuts and peering included): the packet is delivered in the destination AS
    and crosses exactly the interfaces of the path metadata, in order. -/
def C02_full : Prop :=
  ∀ (mac : MacFn) (net : Net) (now : Nat) (edges : List Edge) (src dst : Nat) (c : Cursor),
    WFNet net → AllUp net → Joinable mac net edges src dst → pathOf edges = some c →
    Unexpired now c →
    ∃ cf, send mac net now src dst c = .delivered dst (pathIfaces edges) cf

end Scion.C02
