import Scion.Model.BeaconPolicy
import Scion.Proofs.BeaconPolicy
import Scion.Gen.Beacon
/-!
# C25 — Only valid, policy-conforming beacons are stored and propagated

Property theorems only.  Model: `Scion.Model.BeaconPolicy` (`Handler.HandleBeacon`,
`validateASEntry`, `baseStore.PreFilter/InsertBeacon`, `Policies.Filter/Usage`, `Filter.Apply`,
`FilterLoop`, `Propagator.shouldIgnore`), tied to the code by `harness/cmd/beacon` (real handler,
real stores, real propagator).
-/
namespace Scion.C25
open Scion.BeaconPolicy

/-- the hop list `buildHops` of a beacon given as `(Local, Next)` entries -/
abbrev hopsOf (entries : List (IA × IA)) : List IA := entries.map (·.1)

/-- **stored only if / stored iff.** A received beacon reaches the database exactly when it
arrived on a known interface whose link is parent or core, its last AS entry is the neighbour of
that interface and names the local AS as next hop, all signatures verify, and at least one policy
accepts it; the usage it is stored with is that of the accepting policies. -/
theorem stored_iff (loc : IA) (ps : Policies) (intf : Option Intf) (entries : List (IA × IA))
    (sigOk : Bool) (u : List PolicyTag) :
    handle loc ps intf entries sigOk = .stored u ↔
      ∃ i, intf = some i ∧ (i.lt = .parent ∨ i.lt = .core) ∧
        entries.getLast? = some (i.ia, loc) ∧ sigOk = true ∧
        u = usage ps (hopsOf entries) ∧ u ≠ [] := by
  unfold handle
  cases intf with
  | none => simp
  | some i =>
    simp only [Option.some.injEq, exists_eq_left']
    by_cases hpf : preFilterOk ps (hopsOf entries) = true
    · have hne := (preFilterOk_iff_usage ps _).1 hpf
      simp only [hpf, Bool.not_true, Bool.false_eq_true, if_false]
      unfold validateASEntry
      by_cases hlt : i.lt ≠ .parent ∧ i.lt ≠ .core
      · rw [if_pos hlt]
        refine ⟨(fun h => by cases h), ?_⟩
        rintro ⟨h, _⟩
        rcases h with h | h
        · exact (hlt.1 h).elim
        · exact (hlt.2 h).elim
      · rw [if_neg hlt]
        have hlt' : i.lt = .parent ∨ i.lt = .core := by
          by_cases h : i.lt = .parent
          · exact Or.inl h
          · by_cases h' : i.lt = .core
            · exact Or.inr h'
            · exact absurd ⟨h, h'⟩ hlt
        cases hl : entries.getLast? with
        | none => simp
        | some last =>
          obtain ⟨l, n⟩ := last
          dsimp only
          by_cases h1 : l ≠ i.ia
          · rw [if_pos h1]
            refine ⟨(fun h => by cases h), ?_⟩
            rintro ⟨_, h, _⟩
            simp only [Option.some.injEq, Prod.mk.injEq] at h
            exact (h1 h.1).elim
          · rw [if_neg h1]
            by_cases h2 : n ≠ loc
            · rw [if_pos h2]
              refine ⟨(fun h => by cases h), ?_⟩
              rintro ⟨_, h, _⟩
              simp only [Option.some.injEq, Prod.mk.injEq] at h
              exact (h2 h.2).elim
            · rw [if_neg h2]
              have h1' : l = i.ia := by simpa using h1
              have h2' : n = loc := by simpa using h2
              subst h1' h2'
              cases sigOk with
              | false => simp
              | true =>
                simp only [Bool.not_true, Bool.false_eq_true, if_false]
                cases hu : usage ps (hopsOf entries) with
                | nil => exact absurd hu hne
                | cons t ts =>
                  simp only [Outcome.stored.injEq]
                  constructor
                  · intro h; subst h
                    exact ⟨hlt', by simp, by simp⟩
                  · rintro ⟨_, _, _, h, _⟩
                    exact h.symm
    · have hpf' : preFilterOk ps (hopsOf entries) = false := by simpa using hpf
      simp only [hpf', Bool.not_false, if_true]
      refine ⟨(fun h => by cases h), ?_⟩
      rintro ⟨_, _, _, hu, hne⟩
      have := (preFilterOk_iff_usage ps (hopsOf entries)).2 (hu ▸ hne)
      rw [this] at hpf'
      cases hpf'

/-- **exactly the usages of the accepting policies**: a usage is recorded iff the policy with
that tag accepts the beacon -/
theorem stored_usage_eq_accepting_policies (loc : IA) (ps : Policies) (intf : Option Intf)
    (entries : List (IA × IA)) (sigOk : Bool) (u : List PolicyTag)
    (h : handle loc ps intf entries sigOk = .stored u) (t : PolicyTag) :
    t ∈ u ↔ ∃ f, (t, f) ∈ ps ∧ f.accepts (hopsOf entries) = true := by
  obtain ⟨_, _, _, _, _, hu, _⟩ := (stored_iff loc ps intf entries sigOk u).1 h
  rw [hu]
  exact mem_usage ps _ t

/-- **no stored beacon exceeds a policy's maximum length or contains a blocked AS or ISD for the
usages it is stored with** (policies have distinct tags, as in `Policies`/`CorePolicies`);
it is also free of AS loops, and of ISD loops where the policy disallows them -/
theorem stored_respects_filters (loc : IA) (ps : Policies) (intf : Option Intf)
    (entries : List (IA × IA)) (sigOk : Bool) (u : List PolicyTag)
    (hnd : (ps.map (·.1)).Nodup)
    (h : handle loc ps intf entries sigOk = .stored u)
    (t : PolicyTag) (f : Filter) (hm : (t, f) ∈ ps) (ht : t ∈ u) :
    ((hopsOf entries).length : Int) ≤ f.maxHops ∧
    (∀ ia ∈ hopsOf entries, ia.as ∉ f.asBlack ∧ ia.isd ∉ f.isdBlack) ∧
    asLoop (hopsOf entries) = false ∧
    (f.allowIsdLoop = false → isdLoop (hopsOf entries) = false) := by
  obtain ⟨f', hm', ha⟩ := (stored_usage_eq_accepting_policies loc ps intf entries sigOk u h t).1 ht
  have hff : f' = f := by
    -- distinct tags: the policy carrying tag `t` is unique
    clear h ht ha
    induction ps with
    | nil => cases hm
    | cons p rest ih =>
      rw [List.map_cons, List.nodup_cons] at hnd
      rcases List.mem_cons.1 hm with h1 | h1 <;> rcases List.mem_cons.1 hm' with h2 | h2
      · rw [← h1] at h2; exact (Prod.mk.inj h2).2
      · exfalso; apply hnd.1
        rw [← h1]; exact List.mem_map.2 ⟨(t, f'), h2, rfl⟩
      · exfalso; apply hnd.1
        rw [← h2]; exact List.mem_map.2 ⟨(t, f), h1, rfl⟩
      · exact ih hnd.2 h1 h2
  subst hff
  obtain ⟨hl, hloop, hb⟩ := (accepts_iff f' _).1 ha
  obtain ⟨h1, h2⟩ := (hasLoop_false_iff _ _).1 hloop
  exact ⟨hl, hb, h1, h2⟩

/-- the two policy sets of the real stores have distinct tags -/
example (a b c : Filter) : (([(.prop, a), (.upReg, b), (.downReg, c)] : Policies).map (·.1)).Nodup := by
  simp
example (a b : Filter) : (([(.prop, a), (.coreReg, b)] : Policies).map (·.1)).Nodup := by simp

/-! ### propagation -/

/-- The propagation clause at full strength: whenever `shouldIgnore` lets a beacon pass on an
interface, the path the beacon is sent with — its entries, then the local AS (appended by the
extender), then the neighbour behind the egress interface — has no AS loop, and no ISD loop
(as `filterIsdLoop` defines it, DESIGN §7a) unless ISD loops are allowed. -/
def NeverPropagateLoop : Prop :=
  ∀ (loc next : IA) (allow : Bool) (hops : List IA), next ≠ (0, 0) →
    shouldIgnore loc allow hops next = false →
      asLoop (hops ++ [loc] ++ [next]) = false ∧
      (allow = false → isdLoop (hops ++ [loc] ++ [next]) = false)

theorem never_propagate_loop : NeverPropagateLoop := by
  intro loc next allow hops hnz h
  unfold shouldIgnore filterLoop at h
  rw [if_neg hnz] at h
  exact (hasLoop_false_iff _ _).1 h

/-- **No beacon is propagated over an interface where it would create an AS loop**, in plain
terms: the path sent visits no AS twice — in particular the beacon does not already contain the
local AS (the loop repaired by 2734f5b) nor the neighbour.  (No wildcard `0-0` among the ASes.) -/
theorem never_propagate_as_loop (loc next : IA) (allow : Bool) (hops : List IA)
    (hz : (0, 0) ∉ hops) (hlz : loc ≠ (0, 0)) (hnz : next ≠ (0, 0))
    (h : shouldIgnore loc allow hops next = false) :
    (hops ++ [loc] ++ [next]).Nodup ∧ loc ∉ hops ∧ next ∉ hops ∧ next ≠ loc := by
  have has := (never_propagate_loop loc next allow hops hnz h).1
  have hz' : (0, 0) ∉ hops ++ [loc] ++ [next] := by
    simp only [List.mem_append, List.mem_singleton, not_or]
    exact ⟨⟨hz, fun e => hlz e.symm⟩, fun e => hnz e.symm⟩
  have hnd := (asLoop_false_iff_nodup _ hz').1 has
  refine ⟨hnd, ?_, ?_, ?_⟩
  · intro hm
    rw [List.append_assoc, List.nodup_append] at hnd
    exact hnd.2.2 loc hm loc (by simp) rfl
  · intro hm
    rw [List.append_assoc, List.nodup_append] at hnd
    exact hnd.2.2 next hm next (by simp) rfl
  · intro e
    rw [List.nodup_append] at hnd
    exact hnd.2.2 loc (by simp) next (by simp) e.symm

/-- **… or an ISD loop when those are disallowed** (the clause repaired after this check found
`1-100 → 2-100 → 1-101` being propagated): the ISD test sees the local AS. -/
theorem never_propagate_isd_loop (loc next : IA) (hops : List IA) (hnz : next ≠ (0, 0))
    (h : shouldIgnore loc false hops next = false) :
    isdLoop (hops ++ [loc] ++ [next]) = false :=
  (never_propagate_loop loc next false hops hnz h).2 rfl

/-- the same in plain terms: merging consecutive hops of one ISD, the ISD sequence of the path
sent never returns to an ISD it has left (no ISD 0 among the hops) -/
theorem never_propagate_isd_reentry (loc next : IA) (hops : List IA) (hnz : next ≠ (0, 0))
    (h0 : ∀ ia ∈ hops ++ [loc] ++ [next], ia.isd ≠ 0)
    (h : shouldIgnore loc false hops next = false) :
    (runsFrom 0 ((hops ++ [loc] ++ [next]).map IA.isd)).Nodup :=
  (isdLoop_false_iff _ h0).1 (never_propagate_isd_loop loc next hops hnz h)

/-- the input on which the unrepaired code propagated into an ISD loop is now ignored -/
example : shouldIgnore (2, 100) false [(1, 100)] (1, 101) = true := by decide
/-- and a beacon that already contains the local AS is ignored whatever the switch -/
example : shouldIgnore (1, 120) true [(1, 100), (1, 120), (1, 110)] (1, 130) = true := by decide

/-! ### regenerated facts -/

theorem gen_consts :
    (Scion.Gen.Beacon.DefaultMaxHopsLength : Int) = defaultMaxHopsLength ∧
    Scion.Gen.Beacon.UsageUpReg = PolicyTag.upReg.bit ∧
    Scion.Gen.Beacon.UsageDownReg = PolicyTag.downReg.bit ∧
    Scion.Gen.Beacon.UsageCoreReg = PolicyTag.coreReg.bit ∧
    Scion.Gen.Beacon.UsageProp = PolicyTag.prop.bit := by decide

/-! ### non-vacuity -/

/-- a two-entry beacon from `1-100` via the parent `1-110`, received by `1-120`, accepted by the
propagation and the up-registration policy but not by the down-registration policy (which
blocks AS 100): stored with usage prop + upReg = 9 -/
example :
    handle (1, 120)
      [(.prop, ⟨10, [], [], true⟩), (.upReg, ⟨10, [], [], true⟩), (.downReg, ⟨10, [100], [], true⟩)]
      (some ⟨(1, 110), .parent⟩) [((1, 100), (1, 110)), ((1, 110), (1, 120))] true
      = .stored [.prop, .upReg] := by decide

/-- the link check is an allow-list: an interface whose link type is unset (or any other value)
never lets a beacon in -/
example (lt : LinkType) (hlt : lt ≠ .parent ∧ lt ≠ .core) (ps : Policies) (es : List (IA × IA)) (u : List PolicyTag) :
    handle (1, 120) ps (some ⟨(1, 110), lt⟩) es true ≠ .stored u := by
  intro h
  obtain ⟨i, hi, hl, _⟩ := (stored_iff _ _ _ _ _ _).1 h
  cases hi
  rcases hl with hl | hl
  · exact hlt.1 hl
  · exact hlt.2 hl

example : shouldIgnore (1, 120) false [(1, 100), (1, 110)] (1, 130) = false := by decide
example : isdLoop [(1, 100), (2, 100), (1, 101)] = true ∧ isdLoop [(1, 100), (1, 101), (2, 100)] = false := by
  decide

end Scion.C25
