import Scion.Proofs.Scmp
import Scion.Gen.Scmp
/-! C08 (stub, being filled) -/
namespace Scion.C08
open Scion.Scmp
theorem gen_consts : bufSize = Scion.Gen.Scmp.bufSize := by decide
end Scion.C08
