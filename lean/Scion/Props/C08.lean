import Scion.Proofs.Scmp
import Scion.Gen.Scmp
import Scion.Gen.Stun
/-!
# C08 — router packet processing never crashes and never forwards malformed packets

Statement (properties.jsonl): for every byte string received on an external, sibling or internal
link (including STUN messages on the internal link), the router's fast-path and slow-path processing
terminate without panicking.  Every packet the router forwards, delivers or emits decodes as a SCION
packet whose header length, payload length and path pointers are consistent.

What is a theorem here (the part of C08 that is logic):

* `output_consistent` — everything the model of the slow path (`Scion.Scmp.processPacket`) emits
  has `HdrLen·4 = 12 + address header + path`, `PayloadLen =` the bytes after the header, fits the
  16-bit/8-bit fields, lies inside the packet buffer, and its path pointers designate an existing hop
  of the right segment (`CurrHF < NumHops`, `CurrINF = infIndexForHF(CurrHF)`).
* `slow_path_guarded` — in the model every slice/index expression that the Go code does not guard
  itself (`InfoFields[CurrINF]`, `HopFields[CurrHF]`, `RawPacket[:quoteLen]`,
  `buffer[0:quoteLen+headroom]`, the prepends into the headroom / into the end of the buffer, the
  `panic("unsupported slow-path type")`) is in range / unreachable, for every packet whose pointers
  are consistent — which is what `parsePath` (fast path) establishes before anything can reach the
  slow path — every request the fast path can make, every headroom the packet pool can give.
* `computeProcID_guarded` — the model of `udpip.computeProcID` indexes only inside the datagram and
  returns a queue number below the number of queues, for every byte string.
* `stun_guarded` — the model of `stun.Is`/`ParseBindingRequest`/`foreachAttr` (the internal link's
  branch for non-SCION datagrams) slices only inside the datagram, for every byte string.

What is **not** a theorem (and cannot be one in this technique): memory safety / absence of panics of
the *real* Go code (fast path `processPkt`, decoders, `stun`, BFD, the slow path).  That is tied by
T1 only: the engine `scmp` pushes six input streams through the real `Link.receive → computeProcID →
processPkt → slow path` on all link kinds with `recover()`, and re-decodes every forwarded, delivered
or emitted packet with the real decoder and an independent length computation (partial).
-/
namespace Scion.C08
open Scion.Scmp Scion.PathMeta Scion.Util

/-- the full statement over the model, kept visible: the first conjunct (no panic for *all* byte
strings through fast and slow path) is only partially a theorem — see `slow_path_guarded`,
`computeProcID_guarded` for the modelled parts; the fast path is a black box tied by T1. -/
def Statement : Prop :=
  (∀ cfg scope headroom o rq b, WellFormed o b → Consistent b → o.raw.length + headroom ≤ bufSize →
      headroom + maxSCMPPacketLen ≤ bufSize →
      (rq.spType = -1 ∨ rq.spType = -2 ∨ rq.spType = 1 ∨ rq.spType = 4 ∨ rq.spType = 5 ∨ rq.spType = 6) →
      ∀ w, processPacket cfg scope headroom o rq ≠ .panic w) ∧
  (∀ data n seed, 0 < n → computeProcID data n seed ≠ .panic) ∧
  (∀ data, stunParse data ≠ .panic)

/-- Consistency of a packet as a receiver's decoder needs it. -/
def OutputConsistent (r : Reply) : Prop :=
  r.hdrLenField * lineLen = cmnHdrLen + addrHdrLen r.dstType r.srcType + pathLen r.numINF r.numHops ∧
  r.hdrLenField ≤ 255 ∧
  r.payloadLen + r.hdrLenField * lineLen = r.total ∧
  r.payloadLen < 65536 ∧
  r.pm.currHF < r.numHops ∧
  r.pm.currINF = infIdx r.pm r.pm.currHF ∧
  r.numINF = Scion.C19.nonEmptySegs r.pm ∧ r.numHops = sumHops r.pm ∧ Scion.C19.Shape r.pm ∧
  r.off + r.total ≤ bufSize

/-- **Every packet the slow-path model emits is consistent**, given the offending packet's path
pointers were (fast-path guarantee). -/
theorem output_consistent (cfg : Cfg) (scope : Scope) (headroom : Nat) (o : Offender) (rq : Request)
    (b : Base) (hw : WellFormed o b) (hc : Consistent b)
    (r : Reply) (h : processPacket cfg scope headroom o rq = .emit r) : OutputConsistent r := by
  have key : ∀ t code e i, prepareSCMP cfg scope headroom o rq t code e i = .emit r →
      (t = 1 ∨ t = 4 ∨ t = 5 ∨ t = 6 ∨ t = 131) → OutputConsistent r := by
    intro t code e i hp ht
    obtain ⟨rp0, peering, rp, sz, hrev, hext, hpl, hfin⟩ := prepare_emit _ _ _ _ _ _ _ _ _ _ hp
    rcases reversePath_ok o b hw hc with ⟨w, hd⟩ | ⟨rp0', peering', hrev', hc0, hn0, hh0, hil0, hhl0, h12⟩
    · rw [hd] at hrev; cases hrev
    · rw [hrev'] at hrev
      injection hrev with hrev; injection hrev with e1 e2; subst e1; subst e2
      rcases externalStep_ok scope rp0' peering' hc0 (by omega) (by omega) h12 with ⟨w, hd⟩ | ⟨rp', hext', hc1, _, _⟩
      · rw [hd] at hext; cases hext
      · rw [hext'] at hext; injection hext with hext; subst hext
        obtain ⟨hoff, hE, hN⟩ := placement_ok _ _ _ _ _ _ _ _ _ _ _ hpl
        obtain ⟨f1, f2, f3, f4, f5, f6, f7, f8, f9, f10, f11, f12, f13, f14, f15, f16, f17, f18, f19, f20, f21, f22, f23⟩ :=
          finish_emit _ _ _ _ _ _ _ _ _ _ _ hfin
        obtain ⟨hs, hni, hnh, hcur, hidx⟩ := hc1
        have hlt := consistent_currINF_lt rp'.b ⟨hs, hni, hnh, hcur, hidx⟩
        have hact := actual_eq_predicted o.srcType cfg.hostType rp'.b.numINF rp'.b.numHops t
          (needsAuth cfg o t e) ht
        have hge : cmnHdrLen + addrHdrLen o.srcType cfg.hostType + pathLen rp'.b.numINF rp'.b.numHops ≤
            actualHdrLen o.srcType cfg.hostType rp'.b.numINF rp'.b.numHops t (needsAuth cfg o t e) := by
          unfold actualHdrLen; omega
        have hb := hdrLen_le o.srcType cfg.hostType rp'.b.numINF rp'.b.numHops t (needsAuth cfg o t e)
          (by omega) (by omega)
        have htot : actualHdrLen o.srcType cfg.hostType rp'.b.numINF rp'.b.numHops t (needsAuth cfg o t e) ≤ sz.total ∧
            sz.total ≤ 1232 := by
          cases e
          · obtain ⟨g1, _⟩ := hN rfl; omega
          · obtain ⟨g0, g1, _⟩ := hE rfl
            have hq := quoteLen_le o.raw.length (hdrLen o.srcType cfg.hostType rp'.b.numINF rp'.b.numHops t (needsAuth cfg o t true))
            unfold maxSCMPPacketLen at g0 hq; omega
        have hmx : maxHdrLen = 1020 := rfl
        have hll : lineLen = 4 := rfl
        unfold OutputConsistent
        rw [f10, f13, f14, f15, f16, f4, f7, f3]
        simp only [lineLen] at f2 ⊢
        refine ⟨f2, by omega, by omega, by omega, hcur, hidx, hni, hnh, hs, by omega⟩
  rcases processPacket_emit cfg scope headroom o rq r h with ⟨t, ht, _, _, hp⟩ | ⟨trIf, p, _, _, hp⟩
  · exact key t rq.code true 0 hp (by omega)
  · exact key 131 0 false trIf hp (by omega)

/-- **Guardedness of the slow path**: no unguarded index or slice of `prepareSCMP` /
`processPacket` is out of range (the model's `panic` outcome is unreachable) for packets with
consistent pointers, requests the fast path makes, and a packet that lies in its buffer behind a
headroom that leaves room for a maximal SCMP message (the pool's headroom is 512). -/
theorem slow_path_guarded (cfg : Cfg) (scope : Scope) (headroom : Nat) (o : Offender) (rq : Request)
    (b : Base) (hw : WellFormed o b) (hc : Consistent b)
    (hbuf : o.raw.length + headroom ≤ bufSize) (hroom : headroom + maxSCMPPacketLen ≤ bufSize)
    (hrq : rq.spType = -1 ∨ rq.spType = -2 ∨ rq.spType = 1 ∨ rq.spType = 4 ∨ rq.spType = 5 ∨ rq.spType = 6) :
    ∀ w, processPacket cfg scope headroom o rq ≠ .panic w := by
  have key : ∀ t code e i w, (t = 1 ∨ t = 4 ∨ t = 5 ∨ t = 6 ∨ t = 131) →
      prepareSCMP cfg scope headroom o rq t code e i ≠ .panic w := by
    intro t code e i w ht hp
    unfold prepareSCMP at hp
    rcases reversePath_ok o b hw hc with ⟨w', hd⟩ | ⟨rp0, peering, hrev, hc0, hn0, hh0, hil0, hhl0, h12⟩
    · rw [hd] at hp; cases hp
    · rw [hrev] at hp
      dsimp only at hp
      rcases externalStep_ok scope rp0 peering hc0 (by omega) (by omega) h12 with ⟨w', hd⟩ | ⟨rp, hext, hc1, _, _⟩
      · rw [hd] at hp; cases hp
      · rw [hext] at hp
        dsimp only at hp
        have hlt := consistent_currINF_lt rp.b hc1
        have hact := actual_eq_predicted o.srcType cfg.hostType rp.b.numINF rp.b.numHops t
          (needsAuth cfg o t e) ht
        have hb := hdrLen_le o.srcType cfg.hostType rp.b.numINF rp.b.numHops t (needsAuth cfg o t e)
          (by omega) (by omega)
        have hq := quoteLen_le o.raw.length (hdrLen o.srcType cfg.hostType rp.b.numINF rp.b.numHops t (needsAuth cfg o t e))
        have hbs : bufSize = 9000 := rfl
        have hms : maxSCMPPacketLen = 1232 := rfl
        -- placement cannot panic
        have hpl : ∀ w', placement cfg headroom o.raw o.srcType cfg.hostType rp.b.numINF rp.b.numHops t
            (needsAuth cfg o t e) e ≠ .panic w' := by
          intro w' hpp
          unfold placement at hpp
          dsimp only at hpp
          cases e
          · simp only [Bool.false_eq_true, if_false] at hpp
            split at hpp
            · omega
            · cases hpp
          · simp only [if_true] at hpp
            split at hpp
            · omega
            · split at hpp
              · split at hpp
                · omega
                · cases hpp
              · split at hpp
                · omega
                · split at hpp
                  · omega
                  · cases hpp
        split at hp
        · cases hp
        · rename_i w' hpp; exact hpl w' hpp
        · unfold finish at hp
          split at hp
          · cases hp
          · split at hp
            · cases hp
            · split at hp
              · cases hp
              · cases hp
  intro w hp
  unfold processPacket at hp
  have pk : ∀ t code e i w, (t = 1 ∨ t = 4 ∨ t = 5 ∨ t = 6 ∨ t = 131) →
      packSCMP cfg scope headroom o rq t code e i ≠ .panic w := by
    intro t code e i w ht hpk
    unfold packSCMP at hpk
    split at hpk
    · cases hpk
    · split at hpk
      · cases hpk
      · exact key t code e i w ht hpk
    · exact key t code e i w ht hpk
  have tr : ∀ i w, traceroute cfg scope headroom o rq i ≠ .panic w := by
    intro i w ht
    unfold traceroute at ht
    split at ht
    · cases ht
    · cases ht
    · split at ht
      · cases ht
      · split at ht
        · cases ht
        · exact pk 131 0 false i w (by omega) ht
  split at hp
  · cases hp
  · split at hp
    · exact tr _ _ hp
    · split at hp
      · exact tr _ _ hp
      · rename_i hn1 hn2
        dsimp only at hp
        split at hp
        · rename_i ht
          exact pk rq.spType.toNat rq.code true 0 w (by omega) hp
        · rename_i ht
          omega

/-- **`computeProcID` is total and guarded**: for every byte string it either rejects or returns a
queue number `< n`; no index is out of range (and no division by zero when there is at least one
processor queue). -/
theorem computeProcID_guarded (data : Bytes) (n seed : Nat) (hn : 0 < n) :
    computeProcID data n seed ≠ .panic ∧ ∀ id, computeProcID data n seed = .ok id → id < n := by
  unfold computeProcID
  split
  · exact ⟨by simp, by intro id h; cases h⟩
  · rename_i hlen
    have hl : 12 ≤ data.length := by unfold cmnHdrLen at hlen; omega
    have h4 : 4 < data.length := by omega
    have h9 : 9 < data.length := by omega
    have h1 : 1 < data.length := by omega
    rw [List.getElem?_eq_getElem h4, List.getElem?_eq_getElem h9, List.getElem?_eq_getElem h1]
    dsimp only
    split
    · exact ⟨by simp, by intro id h; cases h⟩
    · split
      · exact ⟨by simp, by intro id h; cases h⟩
      · rename_i hl2
        have hflow : ((data.drop 2).take 2).length = 2 := by
          rw [List.length_take, List.length_drop]; omega
        have haddr : ((data.drop cmnHdrLen).take
            (2 * iaBytes + addrTypeLen (data[9].toNat / 16 % 16) + addrTypeLen (data[9].toNat % 16))).length =
            2 * iaBytes + addrTypeLen (data[9].toNat / 16 % 16) + addrTypeLen (data[9].toNat % 16) := by
          rw [List.length_take, List.length_drop]; omega
        have hne : ¬ n = 0 := by omega
        simp only [hflow, haddr, hne, ne_eq, not_true_eq_false, or_self, if_false]
        refine ⟨by simp, ?_⟩
        intro id h
        injection h with h
        rw [← h]
        exact Nat.mod_lt _ hn

/-- **The STUN branch of the internal link is guarded**: `stun.Is` / `ParseBindingRequest` /
`foreachAttr` slice only inside the datagram, for every byte string (attribute lengths up to 65535,
padding, truncated attribute headers). -/
theorem stun_guarded (b : Bytes) : stunParse b ≠ .panic := by
  unfold stunParse
  split
  · simp
  · rename_i his
    have hl := stunIs_len b (by simpa using his)
    obtain ⟨ty, hty, _⟩ := slice?_some b 0 2 (by omega)
    rw [hty]
    dsimp only
    split
    · simp
    · obtain ⟨tx, htx, _⟩ := slice?_some b 8 20 (by omega)
      obtain ⟨at', hat, _⟩ := slice?_some b stunHeaderLen b.length (by unfold stunHeaderLen; omega)
      rw [htx, hat]
      dsimp only
      split
      · rename_i hp; exact absurd hp (stunAttrs_no_panic _ _ _)
      · simp
      · split
        · simp
        · obtain ⟨pre, hpre, _⟩ := slice?_some b 0 (b.length - 8) (by omega)
          rw [hpre]; simp

/-- The guards, length computations and slice expressions of `stun.foreachAttr` / `stun.Is` that
`stunAttrs` / `stunIs` transcribe are the ones in the source (regenerated): in particular the bound
check compares the **padded** length with the rest, and the cursor advances by the padded length. -/
theorem stun_source_guards :
    Scion.Gen.Stun.foreachAttr_conds = ["for len(b) > 0", "len(b) < 4", "attrLenWithPad > len(b)", "err != nil"] ∧
    Scion.Gen.Stun.foreachAttr_slices = ["b[:2]", "b[2:4]", "b[4:]", "b[:attrLen]", "b[attrLenWithPad:]"] ∧
    Scion.Gen.Stun.foreachAttr_assigns =
      ["attrLen := int(binary.BigEndian.Uint16(b[2:4]))", "attrLenWithPad := (attrLen + 3) &^ 3"] ∧
    Scion.Gen.Stun.Is_conds =
      ["return len(b) >= headerLen && b[0]&0b11000000 == 0 && string(b[4:8]) == magicCookie"] ∧
    Scion.Gen.Stun.headerLen = stunHeaderLen ∧ Scion.Gen.Stun.attrNumFingerprint = stunFingerprintAttr ∧
    Scion.Gen.Stun.lenFingerprint = 8 :=
  ⟨rfl, rfl, rfl, rfl, rfl, rfl, rfl⟩

/-- Why the padded length matters: the slice `b[attrLenWithPad:]` of the model is out of range as
soon as only the unpadded value fits — a last attribute of length 1 followed by its value byte but
not by its three padding bytes.  (With the guard `attrLen > len(b)` this input would reach it.) -/
example : slice? [0x78] ((1 + 3) / 4 * 4) 1 = none ∧ slice? [0x78] 0 1 = some [0x78] := by decide

/-- and the model refuses that datagram as malformed instead -/
example : stunParse ([0, 1, 0, 5, 0x21, 0x12, 0xa4, 0x42] ++ List.replicate 12 7 ++ [0x80, 0x22, 0, 1, 0x78]) =
    .malformed := by decide

/-- the halves of `Statement` that are about modelled code hold -/
theorem statement_partial : Statement :=
  ⟨fun cfg scope headroom o rq b hw hc hb hr hq => slow_path_guarded cfg scope headroom o rq b hw hc hb hr hq,
   fun data n seed hn => (computeProcID_guarded data n seed hn).1, stun_guarded⟩

/-- the packet pool's headroom (`minHeadroom`, udpip's underlay headroom is 0) satisfies the
hypothesis of `slow_path_guarded`, and the buffer is the one of the source -/
theorem gen_consts :
    bufSize = Scion.Gen.Scmp.bufSize ∧ Scion.Gen.Scmp.minHeadroom + maxSCMPPacketLen ≤ bufSize ∧
    Scion.Gen.Scmp.MaxSCMPHeaderSize ≤ Scion.Gen.Scmp.minHeadroom ∧
    maxSCMPPacketLen = Scion.Gen.Scmp.MaxSCMPPacketLen ∧ cmnHdrLen = Scion.Gen.Scmp.CmnHdrLen := by decide

/-! ## non-vacuity -/

def exOffender : Offender :=
  { raw := List.replicate 100 0, pathType := 1, flowID := 5, tc := 0, srcIA := 2, srcType := 0,
    rawSrc := [10, 0, 0, 7], pmWord := 1 * 2^24 + 3 * 2^12,
    infos := [⟨true, false, 9, 1000⟩],
    hops := [List.replicate 12 1, List.replicate 12 2, List.replicate 12 3],
    l4 := .other, trID := 0, trSeq := 0, reqAuthValid := false }

/-- a 3-hop, one-segment packet at hop 1 meets the hypotheses -/
example : WellFormed exOffender ⟨⟨0, 1, 3, 0, 0⟩, 1, 3⟩ ∧ Consistent ⟨⟨0, 1, 3, 0, 0⟩, 1, 3⟩ := by
  refine ⟨⟨by decide, rfl, rfl, ?_⟩, by simp [Consistent, Scion.C19.Shape, Scion.C19.nonEmptySegs, sumHops, infIdx]⟩
  intro h hm
  simp [exOffender] at hm
  rcases hm with rfl | rfl | rfl <;> rfl

example : computeProcID [0, 0, 0, 1, 17, 9, 0, 0, 1, 0, 0, 0] 4 99 = .reject := by decide

/-- a binding request whose single attribute announces 65535 bytes is refused, not sliced -/
example : stunParse ([0, 1, 0, 8, 0x21, 0x12, 0xa4, 0x42] ++ List.replicate 12 7 ++ [0x80, 0x28, 0xff, 0xff, 1, 2, 3, 4]) =
    .malformed := by decide

end Scion.C08
