import Scion.Model.SegVerify
import Scion.Props.C38
import Scion.Proofs.SegBinding
import Scion.Gen.SegVerify
/-!
# C24 — Segment verification detects any alteration of signed content

Property theorems only.  Model: `Scion.Model.SegVerify` on top of `Scion.Model.Signed` (tied to
`pkg/segment`, `private/segment/segverifier`, `private/trust/verifier.go` by
`harness/cmd/segverify`).  Signatures are symbolic: the hypotheses `C38.Ideal` / `C38.Complete`
(and, for the mutation theorem, `SigPrefixFree`) are about the primitive, everything else is proved.
-/
namespace Scion.C24
open Scion.Signed Scion.SegVerify Scion.Util Scion.C38

/-! ## What the loop of `VerifySegment` computes -/

/-- the loop accepts iff every entry verifies against the entries before it -/
theorem verifyFrom_none_iff {SK PK : Type} (P : Parsers) (S : Scheme SK PK) (certs : List (Cert PK))
    (info : Bytes) (ts : Int) (es : List RawEntry) : ∀ earlier : List RawEntry,
    verifyFrom P S certs info ts earlier es = none ↔
      ∀ a e b, es = a ++ e :: b → verifyEntry P S certs info ts (earlier ++ a) e = true := by
  induction es with
  | nil =>
    intro earlier
    simp [verifyFrom]
  | cons x t ih =>
    intro earlier
    simp only [verifyFrom]
    constructor
    · intro h a e b hsplit
      split at h
      · rename_i hx
        cases a with
        | nil =>
          simp only [List.nil_append, List.cons.injEq] at hsplit
          obtain ⟨rfl, _⟩ := hsplit
          simpa using hx
        | cons y a' =>
          simp only [List.cons_append, List.cons.injEq] at hsplit
          obtain ⟨rfl, ht⟩ := hsplit
          have := (ih (earlier ++ [x])).mp h a' e b ht
          simpa [List.append_assoc] using this
      · cases h
    · intro h
      have hx : verifyEntry P S certs info ts earlier x = true := by
        simpa using h [] x t rfl
      rw [if_pos hx]
      apply (ih (earlier ++ [x])).mpr
      intro a e b hsplit
      have := h (x :: a) e b (by simp [hsplit])
      simpa [List.append_assoc] using this

/-- the failing index reported is the first entry that does not verify -/
theorem verifyFrom_some {SK PK : Type} (P : Parsers) (S : Scheme SK PK) (certs : List (Cert PK))
    (info : Bytes) (ts : Int) (es : List RawEntry) : ∀ (earlier : List RawEntry) (i : Nat),
    verifyFrom P S certs info ts earlier es = some i →
      ∃ a e b, es = a ++ e :: b ∧ i = earlier.length + a.length ∧
        verifyEntry P S certs info ts (earlier ++ a) e = false ∧
        verifyFrom P S certs info ts earlier a = none := by
  induction es with
  | nil => intro earlier i h; simp [verifyFrom] at h
  | cons x t ih =>
    intro earlier i h
    simp only [verifyFrom] at h
    split at h
    · rename_i hx
      obtain ⟨a, e, b, hs, hi, hf, hp⟩ := ih (earlier ++ [x]) i h
      refine ⟨x :: a, e, b, by simp [hs], by simp [hi]; omega, by simpa [List.append_assoc] using hf, ?_⟩
      simp only [verifyFrom, hx, if_true]
      exact hp
    · rename_i hx
      cases h
      exact ⟨[], x, t, rfl, by simp, by simpa using hx, by simp [verifyFrom]⟩

/-- **`verifySegment_iff` (decision logic).**  A segment verifies iff its info and all entries
parse and every AS entry `e` passes `Verifier.Verify` bound to that entry's ISD-AS and to the
validity `[ts, ts + lifetime(exp)]`, with the associated data `info, hb₀, sig₀, …` of all earlier
entries. -/
theorem verifySegment_iff {SK PK : Type} (P : Parsers) (S : Scheme SK PK) (certs : List (Cert PK))
    (seg : RawSeg) :
    verifySegment P S certs seg = .ok ↔
      ∃ ts, P.info seg.info = some ts ∧ (∀ e ∈ seg.entries, (entryView P e).isSome = true) ∧
        ∀ a e b, seg.entries = a ++ e :: b → verifyEntry P S certs seg.info ts a e = true := by
  unfold verifySegment
  cases hi : P.info seg.info with
  | none => simp
  | some ts =>
    simp only [Option.some.injEq, exists_eq_left']
    by_cases hall : (seg.entries.all fun e => (entryView P e).isSome) = true
    · rw [if_pos hall]
      have hall' : ∀ e ∈ seg.entries, (entryView P e).isSome = true := by
        simpa [List.all_eq_true] using hall
      cases hv : verifyFrom P S certs seg.info ts [] seg.entries with
      | none =>
        have := (verifyFrom_none_iff P S certs seg.info ts seg.entries []).mp hv
        simp only [List.nil_append] at this
        simp only [true_iff]
        exact ⟨hall', this⟩
      | some i =>
        simp only [reduceCtorEq, false_iff, not_and]
        intro _ hcontra
        have := (verifyFrom_none_iff P S certs seg.info ts seg.entries []).mpr (by simpa using hcontra)
        rw [hv] at this; cases this
    · rw [if_neg hall]
      simp only [reduceCtorEq, false_iff, not_and]
      intro hcontra
      exact absurd (by simpa [List.all_eq_true] using hcontra) hall

/-- what the verifier establishes for one entry: the guards of `Verifier.Verify` and of
`signed.Verify` -/
theorem verifyEntry_true {SK PK : Type} (P : Parsers) (S : Scheme SK PK) (certs : List (Cert PK))
    (info : Bytes) (ts : Int) (earlier : List RawEntry) (e : RawEntry)
    (hv : verifyEntry P S certs info ts earlier e = true) :
    ∃ h b ia exp k c, extract P.F e.hb = some (h, b) ∧ P.body b = some (ia, exp) ∧
      P.keyId h.keyId = some k ∧ k.skid ≠ [] ∧ (ia = 0 ∨ k.ia = ia) ∧ isWildcard k.ia = false ∧
      c ∈ certs ∧ c.ia = k.ia ∧ c.skid = k.skid ∧
      c.nb ≤ ts * 1000000000 ∧ ts * 1000000000 + expDur exp ≤ c.na ∧
      verifyMsg P.F S e.msg (some c.pk) (assocData info earlier) = .ok (h, b) := by
  unfold verifyEntry entryView at hv
  cases hx : extract P.F e.hb with
  | none => simp [hx] at hv
  | some hb =>
    obtain ⟨h, b⟩ := hb
    simp only [hx] at hv
    cases hbody : P.body b with
    | none => simp [hbody] at hv
    | some v =>
      obtain ⟨ia, exp⟩ := v
      simp only [hbody, verifierVerify, RawEntry.msg, hx] at hv
      cases hk : P.keyId h.keyId with
      | none => simp [hk] at hv
      | some k =>
        simp only [hk] at hv
        split at hv
        · cases hv
        · rename_i hsk
          split at hv
          · cases hv
          · rename_i hbound
            split at hv
            · cases hv
            · rename_i hw
              rw [List.any_eq_true] at hv
              obtain ⟨c, hc, hok⟩ := hv
              simp only [chains, List.mem_filter, Bool.and_eq_true, beq_iff_eq, decide_eq_true_eq] at hc
              obtain ⟨hmem, ⟨⟨hia, hskid⟩, hnb⟩, hna⟩ := hc
              have hmsg : verifyMsg P.F S ⟨e.hb, e.sig⟩ (some c.pk) (assocData info earlier) = .ok (h, b) := by
                cases hr : verifyMsg P.F S ⟨e.hb, e.sig⟩ (some c.pk) (assocData info earlier) with
                | error err => rw [hr] at hok; simp [isOk] at hok
                | ok v =>
                  obtain ⟨h', b'⟩ := v
                  obtain ⟨e', u', po, ph, _⟩ := verifyMsg_ok P.F S _ c.pk _ h' b' hr
                  simp only [extract, po, ph, Option.some.injEq, Prod.mk.injEq] at hx
                  rw [hx.1, hx.2]
              refine ⟨h, b, ia, exp, k, c, rfl, hbody, hk, ?_, ?_, by simpa using hw, hmem, hia, hskid,
                hnb, hna, hmsg⟩
              · intro hnil; simp [hnil] at hsk
              · by_cases h0 : ia = 0
                · exact Or.inl h0
                · right
                  have : ¬ (ia ≠ 0 ∧ ia ≠ k.ia) := hbound
                  simp only [not_and, ne_eq, Decidable.not_not] at this
                  exact (this h0).symm

/-- `ASEntryFromPB` rejects wildcard (in particular zero) local ISD-AS values: an assumption on
the parser (checked by the engine on every parsed entry) -/
def BodyNoWildcard (P : Parsers) : Prop :=
  ∀ b ia exp, P.body b = some (ia, exp) → isWildcard ia = false

theorem isWildcard_zero : isWildcard 0 = true := by decide

/-- **`verifySegment_sound` — the "only if" of the statement.**  Under ideal signatures, if a
segment verifies then every AS entry was signed — by the private key of a certificate in the trust
DB that is issued for exactly the ISD-AS named in that (signed) entry and whose validity covers
`[ts, ts + lifetime(exp)]` of that entry's hop field — over exactly: the entry (header `h`, body
`b`), the segment info, and all earlier entries' `HeaderAndBody ‖ Signature`. -/
theorem verifySegment_sound {SK PK : Type} (P : Parsers) (S : Scheme SK PK) (certs : List (Cert PK))
    (hist : List (Call SK)) (hE : EmptyHdrUnknown P.F) (hF : ∀ c ∈ hist, SoundFor P.F c.h c.body)
    (hI : Ideal S hist) (hW : BodyNoWildcard P) (seg : RawSeg)
    (hv : verifySegment P S certs seg = .ok) :
    ∃ ts, P.info seg.info = some ts ∧
      ∀ a e b, seg.entries = a ++ e :: b →
        ∃ h body ia exp c, e.hb = enc h body ∧ P.body body = some (ia, exp) ∧
          c ∈ certs ∧ c.ia = ia ∧ c.nb ≤ ts * 1000000000 ∧ ts * 1000000000 + expDur exp ≤ c.na ∧
          SignedBy S hist c.pk h body (assocData seg.info a).flatten := by
  obtain ⟨ts, hts, _, hall⟩ := (verifySegment_iff P S certs seg).mp hv
  refine ⟨ts, hts, ?_⟩
  intro a e b hsplit
  obtain ⟨h, body, ia, exp, k, c, _, hbody, _, _, hbound, _, hc, hcia, _, hnb, hna, hmsg⟩ :=
    verifyEntry_true P S certs seg.info ts a e (hall a e b hsplit)
  obtain ⟨hsigned, hhb⟩ := verify_returns_signed P.F S hist hE hF hI e.msg c.pk _ h body hmsg
  have hia : k.ia = ia := by
    rcases hbound with h0 | h1
    · have := hW body ia exp hbody
      rw [h0, isWildcard_zero] at this; cases this
    · exact h1
  exact ⟨h, body, ia, exp, c, hhb, hbody, hc, by rw [hcia, hia], hnb, hna, hsigned⟩

/-- **`prefix_verifies`.**  Dropping trailing entries leaves a verifiable prefix. -/
theorem prefix_verifies {SK PK : Type} (P : Parsers) (S : Scheme SK PK) (certs : List (Cert PK))
    (info : Bytes) (es : List RawEntry) (n : Nat)
    (hv : verifySegment P S certs ⟨info, es⟩ = .ok) :
    verifySegment P S certs ⟨info, es.take n⟩ = .ok := by
  obtain ⟨ts, hts, hparse, hall⟩ := (verifySegment_iff P S certs ⟨info, es⟩).mp hv
  apply (verifySegment_iff P S certs ⟨info, es.take n⟩).mpr
  refine ⟨ts, hts, fun e he => hparse e (List.mem_of_mem_take he), ?_⟩
  intro a e b hsplit
  apply hall a e (b ++ es.drop n)
  have : es = es.take n ++ es.drop n := (List.take_append_drop n es).symm
  simp only at hsplit
  rw [hsplit] at this
  simpa [List.append_assoc] using this

/-! ## Honestly built segments and the mutation clauses -/

/-- `PathSegment.AddASEntry` repeated: the `i`-th call signs with the associated data of the entries
added so far, and entry `i` is its result.  `earlier` are the entries already in the segment. -/
def BuiltFrom {SK PK : Type} (S : Scheme SK PK) (info : Bytes) :
    List RawEntry → List (Call SK) → List RawEntry → Prop
  | _, [], [] => True
  | earlier, c :: cs, e :: es =>
    c.ad = assocData info earlier ∧ c.run S = .ok e.msg ∧ BuiltFrom S info (earlier ++ [e]) cs es
  | _, _, _ => False

theorem built_call {SK PK : Type} (S : Scheme SK PK) (info : Bytes) :
    ∀ (cs : List (Call SK)) (es earlier : List RawEntry), BuiltFrom S info earlier cs es →
      ∀ c ∈ cs, ∃ a e b, es = a ++ e :: b ∧ c.ad = assocData info (earlier ++ a) ∧
        c.run S = .ok e.msg := by
  intro cs
  induction cs with
  | nil => intro es earlier _ c hc; cases hc
  | cons c0 cs ih =>
    intro es earlier hb c hc
    cases es with
    | nil => simp [BuiltFrom] at hb
    | cons e0 es =>
      obtain ⟨h1, h2, h3⟩ := hb
      rcases List.mem_cons.mp hc with rfl | hc'
      · exact ⟨[], e0, es, rfl, by simpa using h1, h2⟩
      · obtain ⟨a, e, b, hs, had, hrun⟩ := ih es (earlier ++ [e0]) h3 c hc'
        exact ⟨e0 :: a, e, b, by simp [hs], by simpa [List.append_assoc] using had, hrun⟩

theorem built_entry {SK PK : Type} (S : Scheme SK PK) (info : Bytes) :
    ∀ (cs : List (Call SK)) (es earlier : List RawEntry), BuiltFrom S info earlier cs es →
      ∀ e ∈ es, ∃ c ∈ cs, c.run S = .ok e.msg := by
  intro cs
  induction cs with
  | nil =>
    intro es earlier hb e he
    cases es with
    | nil => cases he
    | cons _ _ => simp [BuiltFrom] at hb
  | cons c0 cs ih =>
    intro es earlier hb e he
    cases es with
    | nil => cases he
    | cons e0 es =>
      obtain ⟨_, h2, h3⟩ := hb
      rcases List.mem_cons.mp he with rfl | he'
      · exact ⟨c0, by simp, h2⟩
      · obtain ⟨c, hc, hrun⟩ := ih es (earlier ++ [e0]) h3 e he'
        exact ⟨c, by simp [hc], hrun⟩


theorem built_split {SK PK : Type} (S : Scheme SK PK) (info : Bytes) :
    ∀ (cs : List (Call SK)) (es earlier : List RawEntry), BuiltFrom S info earlier cs es →
      ∀ a e b, es = a ++ e :: b →
        ∃ c ∈ cs, c.ad = assocData info (earlier ++ a) ∧ c.run S = .ok e.msg := by
  intro cs
  induction cs with
  | nil =>
    intro es earlier hb a e b hs
    cases es with
    | nil => simp at hs
    | cons _ _ => simp [BuiltFrom] at hb
  | cons c0 cs ih =>
    intro es earlier hb a e b hs
    cases es with
    | nil => simp at hs
    | cons e0 es =>
      obtain ⟨h1, h2, h3⟩ := hb
      cases a with
      | nil =>
        simp only [List.nil_append, List.cons.injEq] at hs
        obtain ⟨rfl, _⟩ := hs
        exact ⟨c0, by simp, by simpa using h1, h2⟩
      | cons y a' =>
        simp only [List.cons_append, List.cons.injEq] at hs
        obtain ⟨rfl, ht⟩ := hs
        obtain ⟨c, hc, had, hrun⟩ := ih es (earlier ++ [e0]) h3 a' e b ht
        exact ⟨c, by simp [hc], by simpa [List.append_assoc] using had, hrun⟩

/-- what makes a signing call acceptable to the verifier: its key id names a certificate in the
trust DB for the ISD-AS in the signed body, covering the hop field's lifetime, with the signer's
public key -/
def Certified {SK PK : Type} (P : Parsers) (S : Scheme SK PK) (certs : List (Cert PK)) (ts : Int)
    (c : Call SK) : Prop :=
  ∃ k ia exp cert, P.keyId c.h.keyId = some k ∧ k.skid ≠ [] ∧ P.body c.body = some (ia, exp) ∧
    k.ia = ia ∧ isWildcard ia = false ∧ cert ∈ certs ∧ cert.ia = ia ∧ cert.skid = k.skid ∧
    cert.nb ≤ ts * 1000000000 ∧ ts * 1000000000 + expDur exp ≤ cert.na ∧ cert.pk = S.pub c.sk

/-- **`verifySegment_complete` — the "if" of the statement.**  A segment built by `AddASEntry`
calls whose signers are certified for the entry's ISD-AS with a covering certificate verifies. -/
theorem verifySegment_complete {SK PK : Type} (P : Parsers) (S : Scheme SK PK)
    (certs : List (Cert PK)) (cs : List (Call SK)) (info : Bytes) (es : List RawEntry) (ts : Int)
    (hbuilt : BuiltFrom S info [] cs es) (hF : ∀ c ∈ cs, SoundFor P.F c.h c.body)
    (hC : Complete S cs) (hts : P.info info = some ts)
    (hcert : ∀ c ∈ cs, Certified P S certs ts c) :
    verifySegment P S certs ⟨info, es⟩ = .ok := by
  apply (verifySegment_iff P S certs ⟨info, es⟩).mpr
  have key : ∀ a e b, es = a ++ e :: b →
      (entryView P e).isSome = true ∧ verifyEntry P S certs info ts a e = true := by
    intro a e b hs
    obtain ⟨c, hc, had, hrun⟩ := built_split S info cs es [] hbuilt a e b hs
    simp only [List.nil_append] at had
    obtain ⟨k, ia, exp, cert, hk, hsk, hbody, hkia, hw, hmem, hcia, hcsk, hnb, hna, hpk⟩ := hcert c hc
    obtain ⟨hhb, _⟩ := signMsg_ok S c.h c.body c.sk c.rnd c.ad e.msg hrun
    have hhb' : e.hb = enc c.h c.body := hhb
    have hex : extract P.F e.hb = some (c.h, c.body) := by
      simp [extract, hhb', (hF c hc).outer, (hF c hc).hdr]
    have hview : entryView P e = some (ia, exp) := by simp [entryView, hex, hbody]
    have hmsg := sign_then_verify P.F S cs hC c hc (hF c hc) e.msg hrun (assocData info a)
      (by rw [had])
    refine ⟨by simp [hview], ?_⟩
    have hchain : cert ∈ chains certs k (ts * 1000000000) (ts * 1000000000 + expDur exp) := by
      simp [chains, hmem, hcia, hkia, hcsk, hnb, hna]
    have hkw : isWildcard k.ia = false := by rw [hkia]; exact hw
    have hskE : k.skid.isEmpty = false := by
      cases hh : k.skid with
      | nil => exact absurd hh hsk
      | cons _ _ => rfl
    simp only [verifyEntry, hview, verifierVerify, RawEntry.msg, hex, hk, hskE, hkia]
    simp only [Bool.false_eq_true, if_false, ne_eq, not_true_eq_false, and_false, hw]
    rw [List.any_eq_true]
    refine ⟨cert, hchain, ?_⟩
    rw [hpk]
    have : (⟨e.hb, e.sig⟩ : SignedMessage) = e.msg := rfl
    rw [this, hmsg]; rfl
  refine ⟨ts, hts, ?_, fun a e b hs => (key a e b hs).2⟩
  intro e he
  obtain ⟨a, b, hs⟩ := List.append_of_mem he
  exact (key a e b hs).1

theorem enc_ne_nil (h : Header) (b : Bytes) (hk : algoKnown h.algo = true) : enc h b ≠ [] := by
  have := encHeader_ne_nil h hk
  simp [enc, encHdrAndBody, lenDelim_of_ne_nil _ this]

/-- DER-encoded ECDSA signatures are self-delimiting (`ecdsa.VerifyASN1` rejects trailing bytes):
an accepted signature is never a proper prefix of another accepted signature.  An assumption on the
primitive, like `Ideal`. -/
def SigPrefixFree {SK PK : Type} (S : Scheme SK PK) : Prop :=
  ∀ pk a m σ pk' a' m' x, S.verify pk a m σ = true → S.verify pk' a' m' (σ ++ x) = true → x = []

/-- **The mutation theorem.**  Let `(info, es)` be a segment built honestly by the calls `cs`, and
let these be all the signatures the key holders ever made (ideal signatures).  If ANY segment
`(info', es')` verifies, then `es'` is a contiguous run of `es` — same entries in the same order,
nothing altered, removed from the middle, inserted or reordered, every signature but the last one
identical — and `info'` is `info` followed by the bytes of the entries before the run. -/
theorem verified_is_run_of_signed {SK PK : Type} (P : Parsers) (S : Scheme SK PK)
    (certs : List (Cert PK)) (cs : List (Call SK)) (info : Bytes) (es : List RawEntry)
    (hbuilt : BuiltFrom S info [] cs es)
    (hE : EmptyHdrUnknown P.F) (hF : ∀ c ∈ cs, SoundFor P.F c.h c.body)
    (hI : Ideal S cs) (hC : Complete S cs) (hPF : SigPrefixFree S)
    (info' : Bytes) (es' : List RawEntry) (hne' : es' ≠ [])
    (hv : verifySegment P S certs ⟨info', es'⟩ = .ok) :
    ∃ a m b, es = a ++ m ++ b ∧ info' = info ++ flatE a ∧ Agree es' m := by
  let V : Bytes → Prop := fun σ => ∃ pk algo m, S.verify pk algo m σ = true
  have PF : ∀ σ x, V σ → V (σ ++ x) → x = [] := by
    rintro σ x ⟨pk, a, m, h1⟩ ⟨pk', a', m', h2⟩
    exact hPF pk a m σ pk' a' m' x h1 h2
  have hne : ∀ x ∈ es, x.hb ≠ [] := by
    intro x hx
    obtain ⟨c, _, hrun⟩ := built_entry S info cs es [] hbuilt x hx
    obtain ⟨hhb, _, _, hk, _⟩ := signMsg_ok S c.h c.body c.sk c.rnd c.ad x.msg hrun
    have : x.hb = enc c.h c.body := hhb
    rw [this]
    exact enc_ne_nil _ _ hk
  have hV : ∀ x ∈ es, V x.sig := by
    intro x hx
    obtain ⟨c, hc, hrun⟩ := built_entry S info cs es [] hbuilt x hx
    exact ⟨_, _, _, hC c hc x.msg hrun⟩
  obtain ⟨ts, _, _, hall⟩ := (verifySegment_iff P S certs ⟨info', es'⟩).mp hv
  have hB : Bound V info es info' es' := by
    intro a' e' b' hsplit
    obtain ⟨h, body, _, _, _, c, _, _, _, _, _, _, _, _, _, _, _, hmsg⟩ :=
      verifyEntry_true P S certs info' ts a' e' (hall a' e' b' hsplit)
    obtain ⟨_, _, _, _, _, _, _, _, hsig⟩ := verifyMsg_ok P.F S e'.msg c.pk _ h body hmsg
    refine ⟨⟨_, _, _, hsig⟩, ?_⟩
    obtain ⟨⟨call, hcall, msg, _, hh, hb, had, hrun⟩, hhb⟩ :=
      verify_returns_signed P.F S cs hE hF hI e'.msg c.pk _ h body hmsg
    obtain ⟨a, e, b, hs, hcad, hrun'⟩ := built_call S info cs es [] hbuilt call hcall
    obtain ⟨hehb, _⟩ := signMsg_ok S call.h call.body call.sk call.rnd call.ad e.msg hrun'
    refine ⟨a, e, b, hs, ?_, ?_⟩
    · have h1 : e'.hb = enc h body := hhb
      have h2 : e.hb = enc call.h call.body := hehb
      rw [h1, h2, hh, hb]
    · rw [hcad] at had
      simp only [List.nil_append, assocData_flatten] at had
      exact had.symm
  exact bound_is_run PF hne hV es' info' hne' hB

/-- **Same segment info ⇒ a prefix.**  With the segment info untouched, whatever verifies is a
prefix of the signed segment: the signed `HeaderAndBody` of the entries form a prefix of the
original ones, and all entries but the last (signatures included) are the original entries.
Hence altering, reordering, removing (other than trailing) or inserting an entry, or altering an
earlier signature, makes verification fail. -/
theorem verified_same_info_is_prefix {SK PK : Type} (P : Parsers) (S : Scheme SK PK)
    (certs : List (Cert PK)) (cs : List (Call SK)) (info : Bytes) (es : List RawEntry)
    (hbuilt : BuiltFrom S info [] cs es)
    (hE : EmptyHdrUnknown P.F) (hF : ∀ c ∈ cs, SoundFor P.F c.h c.body)
    (hI : Ideal S cs) (hC : Complete S cs) (hPF : SigPrefixFree S)
    (es' : List RawEntry) (hv : verifySegment P S certs ⟨info, es'⟩ = .ok) :
    es'.map (·.hb) <+: es.map (·.hb) ∧ es'.dropLast <+: es := by
  by_cases hne' : es' = []
  · subst hne'; simp
  obtain ⟨a, m, b, hes, hinfo, hag⟩ := verified_is_run_of_signed P S certs cs info es hbuilt hE hF hI
    hC hPF info es' hne' hv
  have hne : ∀ x ∈ es, x.hb ≠ [] := by
    intro x hx
    obtain ⟨c, _, hrun⟩ := built_entry S info cs es [] hbuilt x hx
    obtain ⟨hhb, _, _, hk, _⟩ := signMsg_ok S c.h c.body c.sk c.rnd c.ad x.msg hrun
    have : x.hb = enc c.h c.body := hhb
    rw [this]
    exact enc_ne_nil _ _ hk
  have ha : a = [] := by
    have : flatE a = [] := by
      have := congrArg List.length hinfo
      simp only [List.length_append] at this
      exact List.eq_nil_of_length_eq_zero (by omega)
    exact flatE_eq_nil (fun x hx => hne x (by rw [hes]; simp [hx])) this
  subst ha
  obtain ⟨h1, h2⟩ := hag.map_hb
  simp only [List.nil_append] at hes
  constructor
  · rw [h1, hes, List.map_append]; exact List.prefix_append _ _
  · rw [h2, hes]
    exact (List.dropLast_prefix m).trans (List.prefix_append _ _)

/-- **Altering an entry is detected**: if the candidate has the original info and, at some
position, an entry whose signed bytes differ from the original entry at that position, it does not
verify. -/
theorem altered_entry_rejected {SK PK : Type} (P : Parsers) (S : Scheme SK PK)
    (certs : List (Cert PK)) (cs : List (Call SK)) (info : Bytes) (es : List RawEntry)
    (hbuilt : BuiltFrom S info [] cs es)
    (hE : EmptyHdrUnknown P.F) (hF : ∀ c ∈ cs, SoundFor P.F c.h c.body)
    (hI : Ideal S cs) (hC : Complete S cs) (hPF : SigPrefixFree S)
    (a : List RawEntry) (x x' : RawEntry) (b b' : List RawEntry) (hes : es = a ++ x :: b)
    (halt : x'.hb ≠ x.hb) :
    verifySegment P S certs ⟨info, a ++ x' :: b'⟩ ≠ .ok := by
  intro hv
  obtain ⟨hp, _⟩ := verified_same_info_is_prefix P S certs cs info es hbuilt hE hF hI hC hPF _ hv
  rw [hes] at hp
  simp only [List.map_append, List.map_cons] at hp
  have := (List.prefix_append_right_inj _).mp hp
  exact halt (List.cons_prefix_cons.mp this).1

/-- **Altering an earlier signature is detected**: same signed bytes, but a different signature on
an entry that is followed by at least one more entry. -/
theorem altered_earlier_signature_rejected {SK PK : Type} (P : Parsers) (S : Scheme SK PK)
    (certs : List (Cert PK)) (cs : List (Call SK)) (info : Bytes) (es : List RawEntry)
    (hbuilt : BuiltFrom S info [] cs es)
    (hE : EmptyHdrUnknown P.F) (hF : ∀ c ∈ cs, SoundFor P.F c.h c.body)
    (hI : Ideal S cs) (hC : Complete S cs) (hPF : SigPrefixFree S)
    (a : List RawEntry) (x x' y : RawEntry) (b b' : List RawEntry) (hes : es = a ++ x :: b)
    (halt : x' ≠ x) :
    verifySegment P S certs ⟨info, a ++ x' :: y :: b'⟩ ≠ .ok := by
  intro hv
  obtain ⟨_, hp⟩ := verified_same_info_is_prefix P S certs cs info es hbuilt hE hF hI hC hPF _ hv
  have hdl : (a ++ x' :: y :: b').dropLast = a ++ x' :: (y :: b').dropLast := by
    rw [List.dropLast_append_of_ne_nil (by simp)]
    simp
  rw [hdl, hes] at hp
  have := (List.prefix_append_right_inj _).mp hp
  exact halt (List.cons_prefix_cons.mp this).1

/-- **Altering the segment information is detected** (any change that does not extend the info by
exactly the bytes of leading entries — in particular any change of the timestamp or segment id in
place, or any shorter or equally long info). -/
theorem altered_info_rejected {SK PK : Type} (P : Parsers) (S : Scheme SK PK)
    (certs : List (Cert PK)) (cs : List (Call SK)) (info : Bytes) (es : List RawEntry)
    (hbuilt : BuiltFrom S info [] cs es)
    (hE : EmptyHdrUnknown P.F) (hF : ∀ c ∈ cs, SoundFor P.F c.h c.body)
    (hI : Ideal S cs) (hC : Complete S cs) (hPF : SigPrefixFree S)
    (info' : Bytes) (es' : List RawEntry) (hne' : es' ≠ []) (halt : info' ≠ info)
    (hlen : info'.length ≤ info.length) :
    verifySegment P S certs ⟨info', es'⟩ ≠ .ok := by
  intro hv
  obtain ⟨a, m, b, _, hinfo, _⟩ := verified_is_run_of_signed P S certs cs info es hbuilt hE hF hI
    hC hPF info' es' hne' hv
  have hl := congrArg List.length hinfo
  simp only [List.length_append] at hl
  have : flatE a = [] := List.eq_nil_of_length_eq_zero (by omega)
  rw [this, List.append_nil] at hinfo
  exact halt hinfo

/-! ## Non-vacuity: a two-entry segment that meets every hypothesis above -/

namespace Toy

def ia0 : Nat := 2^48 + 1
def ia1 : Nat := 2^48 + 2
def info : Bytes := [0x08, 0x05]
def b0 : Bytes := [0xaa]
def b1 : Bytes := [0xbb]
def h0 : Header := ⟨1, [1], zeroSec, 0, [], ((assocData info []).flatten.length : Int)⟩
def e0 : RawEntry := ⟨enc h0 b0, [1]⟩
def h1 : Header := ⟨2, [2], zeroSec, 0, [], ((assocData info [e0]).flatten.length : Int)⟩
def e1 : RawEntry := ⟨enc h1 b1, [2]⟩
def c0 : Call Nat := ⟨1, 0, h0, b0, assocData info []⟩
def c1 : Call Nat := ⟨2, 0, h1, b1, assocData info [e0]⟩

/-- key `k` signs with the one-byte signature `[k]`; the primitive accepts exactly the two
signatures that were made -/
def S : Scheme Nat Nat :=
  { pub := id, kind := fun _ => .ecdsa, sign := fun sk _ _ _ => [UInt8.ofNat sk]
    verify := fun pk algo m σ =>
      (pk == 1 && algo == 1 && m == preimage e0.hb c0.ad && σ == [1]) ||
      (pk == 2 && algo == 2 && m == preimage e1.hb c1.ad && σ == [2]) }

theorem varint_one : varint 1 = [1] := by rw [varint]; simp
theorem varint_two : varint 2 = [2] := by rw [varint]; simp

theorem hdr_ne : encHeader h0 ≠ encHeader h1 := by
  simp [encHeader, varField, algoToPB, h0, h1, varint_one, varint_two]

theorem enc_ne : enc h0 b0 ≠ enc h1 b1 := by
  intro h
  have k0 : encHeader h0 ≠ [] := encHeader_ne_nil h0 (by decide)
  have k1 : encHeader h1 ≠ [] := encHeader_ne_nil h1 (by decide)
  have := frame_PR (r := lenDelim 0x12 b0) (r' := lenDelim 0x12 b1) k0 k1
    (Or.inl (by unfold enc encHdrAndBody at h; rw [h]; exact List.prefix_refl _))
  exact hdr_ne this.1

def F : Framing :=
  { parseHdr := fun e => if e = encHeader h0 then some h0 else if e = encHeader h1 then some h1 else none
    parseOuter := fun x =>
      if x = enc h0 b0 then some (encHeader h0, b0, [])
      else if x = enc h1 b1 then some (encHeader h1, b1, []) else none }

def P : Parsers :=
  { F := F
    keyId := fun k => if k = [1] then some ⟨ia0, [7]⟩ else if k = [2] then some ⟨ia1, [8]⟩ else none
    body := fun b => if b = b0 then some (ia0, 63) else if b = b1 then some (ia1, 63) else none
    info := fun _ => some 1700000000 }

def certs : List (Cert Nat) :=
  [⟨ia0, [7], 0, 10^19, 1⟩, ⟨ia1, [8], 0, 10^19, 2⟩]

theorem run0 : c0.run S = .ok e0.msg := by
  have : (adLenOf (assocData info []) : Int) = h0.adLen := by
    rw [adLenOf_eq_length_flatten]; rfl
  simp [Call.run, signMsg, signInput, c0, this, checkPubKeyAlgo, algoKnown, h0, S, e0, RawEntry.msg]

theorem run1 : c1.run S = .ok e1.msg := by
  have : (adLenOf (assocData info [e0]) : Int) = h1.adLen := by
    rw [adLenOf_eq_length_flatten]; rfl
  simp [Call.run, signMsg, signInput, c1, this, checkPubKeyAlgo, algoKnown, h1, S, e1, RawEntry.msg]

theorem built : BuiltFrom S info [] [c0, c1] [e0, e1] :=
  ⟨rfl, run0, rfl, run1, trivial⟩

theorem sound : ∀ c ∈ [c0, c1], SoundFor P.F c.h c.body := by
  intro c hc
  simp only [List.mem_cons, List.not_mem_nil, or_false] at hc
  rcases hc with rfl | rfl
  · exact ⟨by simp [P, F, c0], by simp [P, F, c0]⟩
  · exact ⟨by simp [P, F, c1, enc_ne.symm], by simp [P, F, c1, hdr_ne.symm]⟩

theorem emptyUnknown : EmptyHdrUnknown P.F := by
  intro h hh
  have k0 : ([] : Bytes) ≠ encHeader h0 := fun e => encHeader_ne_nil h0 (by decide) e.symm
  have k1 : ([] : Bytes) ≠ encHeader h1 := fun e => encHeader_ne_nil h1 (by decide) e.symm
  simp [P, F, k0, k1] at hh

theorem ideal : Ideal S [c0, c1] := by
  intro pk algo m σ hv
  simp only [S, Bool.or_eq_true, Bool.and_eq_true, beq_iff_eq] at hv
  rcases hv with ⟨⟨⟨h1, h2⟩, h3⟩, _⟩ | ⟨⟨⟨h1, h2⟩, h3⟩, _⟩
  · exact ⟨c0, by simp, _, h1.symm, h2.symm, run0, h3⟩
  · exact ⟨c1, by simp, _, h1.symm, h2.symm, run1, h3⟩

theorem complete : Complete S [c0, c1] := by
  intro c hc msg hrun
  simp only [List.mem_cons, List.not_mem_nil, or_false] at hc
  rcases hc with rfl | rfl
  · rw [run0] at hrun; cases hrun
    simp [S, c0, h0, e0, RawEntry.msg]
  · rw [run1] at hrun; cases hrun
    simp [S, c1, h1, e1, RawEntry.msg]

theorem prefixFree : SigPrefixFree S := by
  intro pk a m σ pk' a' m' x h1 h2
  simp only [S, Bool.or_eq_true, Bool.and_eq_true, beq_iff_eq] at h1 h2
  rcases h1 with ⟨_, rfl⟩ | ⟨_, rfl⟩ <;> rcases h2 with ⟨_, h⟩ | ⟨_, h⟩ <;> simp at h <;> exact h

theorem certified : ∀ c ∈ [c0, c1], Certified P S certs 1700000000 c := by
  intro c hc
  simp only [List.mem_cons, List.not_mem_nil, or_false] at hc
  rcases hc with rfl | rfl
  · exact ⟨⟨ia0, [7]⟩, ia0, 63, ⟨ia0, [7], 0, 10^19, 1⟩, by simp [P, c0, h0], by simp,
      by simp [P, c0], rfl, by decide, by simp [certs], rfl, rfl, by decide, by decide, rfl⟩
  · exact ⟨⟨ia1, [8]⟩, ia1, 63, ⟨ia1, [8], 0, 10^19, 2⟩, by simp [P, c1, h1], by simp,
      by simp [P, c1, b0, b1], rfl, by decide, by simp [certs], rfl, rfl, by decide, by decide, rfl⟩

end Toy

/-- the honestly built toy segment verifies (so the hypotheses of the theorems of this file are
jointly satisfiable with a non-trivial conclusion) … -/
example : verifySegment Toy.P Toy.S Toy.certs ⟨Toy.info, [Toy.e0, Toy.e1]⟩ = .ok :=
  verifySegment_complete Toy.P Toy.S Toy.certs [Toy.c0, Toy.c1] Toy.info [Toy.e0, Toy.e1] 1700000000
    Toy.built Toy.sound Toy.complete rfl Toy.certified

/-- … and, by the mutation theorem, the same two entries in the opposite order do not. -/
example : verifySegment Toy.P Toy.S Toy.certs ⟨Toy.info, [Toy.e1, Toy.e0]⟩ ≠ .ok := by
  have hne : Toy.e1.hb ≠ Toy.e0.hb := fun h => Toy.enc_ne h.symm
  exact altered_entry_rejected Toy.P Toy.S Toy.certs [Toy.c0, Toy.c1] Toy.info [Toy.e0, Toy.e1]
    Toy.built Toy.emptyUnknown Toy.sound Toy.ideal Toy.complete Toy.prefixFree
    [] Toy.e0 Toy.e1 [Toy.e1] [Toy.e0] rfl hne

/-! ## Facts regenerated from the source on every run (T3) -/

/-- What the model hard-codes, re-read from the source: `associatedData(idx)` is the raw info
followed by `HeaderAndBody`, `Signature` of the entries `0 … idx-1`; `VerifyASEntry` hands exactly
that to the verifier; `VerifySegment` loops over all entries, binds the verifier to the entry's
`Local` ISD-AS and to `[Info.Timestamp, Info.Timestamp + ExpTimeToDuration(ExpTime)]` and verifies
entry `i`; `trust.Verifier.Verify` runs its guards in the modelled order, skips chains whose AS
certificate does not cover the bound validity (whatever the cache or the DB query returned) and
verifies with the first certificate of each remaining chain. -/
theorem gen_facts :
    Gen.SegVerify.assocDataAppends = ["append ps.Info.Raw", "range idx",
      "append ps.ASEntries[i].Signed.HeaderAndBody", "append ps.ASEntries[i].Signed.Signature"] ∧
    Gen.SegVerify.verifyASEntryArgs = ["ctx", "ps.ASEntries[idx].Signed", "ps.associatedData(idx)..."] ∧
    Gen.SegVerify.verifySegmentBind = ["range segment.ASEntries", "NotBefore segment.Info.Timestamp",
      "NotAfter segment.Info.Timestamp.Add( path.ExpTimeToDuration(asEntry.HopEntry.HopField.ExpTime), )",
      "WithIA asEntry.Local", "WithValidity validity", "VerifyASEntry ctx, verifier, i"] ∧
    Gen.SegVerify.verifierCalls = ["signed.ExtractUnverifiedHeader", "proto.Unmarshal", "ia.IsWildcard",
      "v.notifyTRC", "v.getChains", "signed.Verify"] ∧
    Gen.SegVerify.verifierGuards = ["err != nil", "len(keyID.SubjectKeyId) == 0",
      "!v.BoundIA.IsZero() && !v.BoundIA.Equal(ia)", "ia.IsWildcard()", "v.Engine == nil",
      "err != nil", "!v.BoundValidity.IsZero() && !chainValidity(c).Covers(v.BoundValidity)",
      "err == nil"] ∧
    Gen.SegVerify.verifierVerifyArgs = ["signedMsg", "c[0].PublicKey", "associatedData..."] :=
  ⟨rfl, rfl, rfl, rfl, rfl, rfl⟩

end Scion.C24
