import Scion.Model.SegVerify
import Scion.Props.C38
import Scion.Proofs.SegBinding
/-!
# C24 — Segment verification detects any alteration of signed content

Property theorems only.  Model: `Scion.Model.SegVerify` on top of `Scion.Model.Signed` (tied to
`pkg/segment`, `private/segment/segverifier`, `private/trust/verifier.go` by
`harness/cmd/segverify`).  Signatures are symbolic: the hypotheses `C38.Ideal` / `C38.Complete`
(and, for the mutation theorem, `SigPrefixFree`) are about the primitive, everything else is proved.
-/
namespace Scion.C24
open Scion.Signed Scion.SegVerify Scion.Util Scion.C38

/-! ## What the loop of `VerifySegment` computes -/

/-- the loop accepts iff every entry verifies against the entries before it -/
theorem verifyFrom_none_iff {SK PK : Type} (P : Parsers) (S : Scheme SK PK) (certs : List (Cert PK))
    (info : Bytes) (ts : Int) (es : List RawEntry) : ∀ earlier : List RawEntry,
    verifyFrom P S certs info ts earlier es = none ↔
      ∀ a e b, es = a ++ e :: b → verifyEntry P S certs info ts (earlier ++ a) e = true := by
  induction es with
  | nil =>
    intro earlier
    simp [verifyFrom]
  | cons x t ih =>
    intro earlier
    simp only [verifyFrom]
    constructor
    · intro h a e b hsplit
      split at h
      · rename_i hx
        cases a with
        | nil =>
          simp only [List.nil_append, List.cons.injEq] at hsplit
          obtain ⟨rfl, _⟩ := hsplit
          simpa using hx
        | cons y a' =>
          simp only [List.cons_append, List.cons.injEq] at hsplit
          obtain ⟨rfl, ht⟩ := hsplit
          have := (ih (earlier ++ [x])).mp h a' e b ht
          simpa [List.append_assoc] using this
      · cases h
    · intro h
      have hx : verifyEntry P S certs info ts earlier x = true := by
        simpa using h [] x t rfl
      rw [if_pos hx]
      apply (ih (earlier ++ [x])).mpr
      intro a e b hsplit
      have := h (x :: a) e b (by simp [hsplit])
      simpa [List.append_assoc] using this

/-- the failing index reported is the first entry that does not verify -/
theorem verifyFrom_some {SK PK : Type} (P : Parsers) (S : Scheme SK PK) (certs : List (Cert PK))
    (info : Bytes) (ts : Int) (es : List RawEntry) : ∀ (earlier : List RawEntry) (i : Nat),
    verifyFrom P S certs info ts earlier es = some i →
      ∃ a e b, es = a ++ e :: b ∧ i = earlier.length + a.length ∧
        verifyEntry P S certs info ts (earlier ++ a) e = false ∧
        verifyFrom P S certs info ts earlier a = none := by
  induction es with
  | nil => intro earlier i h; simp [verifyFrom] at h
  | cons x t ih =>
    intro earlier i h
    simp only [verifyFrom] at h
    split at h
    · rename_i hx
      obtain ⟨a, e, b, hs, hi, hf, hp⟩ := ih (earlier ++ [x]) i h
      refine ⟨x :: a, e, b, by simp [hs], by simp [hi]; omega, by simpa [List.append_assoc] using hf, ?_⟩
      simp only [verifyFrom, hx, if_true]
      exact hp
    · rename_i hx
      cases h
      exact ⟨[], x, t, rfl, by simp, by simpa using hx, by simp [verifyFrom]⟩

/-- **`verifySegment_iff` (decision logic).**  A segment verifies iff its info and all entries
parse and every AS entry `e` passes `Verifier.Verify` bound to that entry's ISD-AS and to the
validity `[ts, ts + lifetime(exp)]`, with the associated data `info, hb₀, sig₀, …` of all earlier
entries. -/
theorem verifySegment_iff {SK PK : Type} (P : Parsers) (S : Scheme SK PK) (certs : List (Cert PK))
    (seg : RawSeg) :
    verifySegment P S certs seg = .ok ↔
      ∃ ts, P.info seg.info = some ts ∧ (∀ e ∈ seg.entries, (entryView P e).isSome = true) ∧
        ∀ a e b, seg.entries = a ++ e :: b → verifyEntry P S certs seg.info ts a e = true := by
  unfold verifySegment
  cases hi : P.info seg.info with
  | none => simp
  | some ts =>
    simp only [Option.some.injEq, exists_eq_left']
    by_cases hall : (seg.entries.all fun e => (entryView P e).isSome) = true
    · rw [if_pos hall]
      have hall' : ∀ e ∈ seg.entries, (entryView P e).isSome = true := by
        simpa [List.all_eq_true] using hall
      cases hv : verifyFrom P S certs seg.info ts [] seg.entries with
      | none =>
        have := (verifyFrom_none_iff P S certs seg.info ts seg.entries []).mp hv
        simp only [List.nil_append] at this
        simp only [true_iff]
        exact ⟨hall', this⟩
      | some i =>
        simp only [reduceCtorEq, false_iff, not_and]
        intro _ hcontra
        have := (verifyFrom_none_iff P S certs seg.info ts seg.entries []).mpr (by simpa using hcontra)
        rw [hv] at this; cases this
    · rw [if_neg hall]
      simp only [reduceCtorEq, false_iff, not_and]
      intro hcontra
      exact absurd (by simpa [List.all_eq_true] using hcontra) hall

/-- what the verifier establishes for one entry: the guards of `Verifier.Verify` and of
`signed.Verify` -/
theorem verifyEntry_true {SK PK : Type} (P : Parsers) (S : Scheme SK PK) (certs : List (Cert PK))
    (info : Bytes) (ts : Int) (earlier : List RawEntry) (e : RawEntry)
    (hv : verifyEntry P S certs info ts earlier e = true) :
    ∃ h b ia exp k c, extract P.F e.hb = some (h, b) ∧ P.body b = some (ia, exp) ∧
      P.keyId h.keyId = some k ∧ k.skid ≠ [] ∧ (ia = 0 ∨ k.ia = ia) ∧ isWildcard k.ia = false ∧
      c ∈ certs ∧ c.ia = k.ia ∧ c.skid = k.skid ∧
      c.nb ≤ ts * 1000000000 ∧ ts * 1000000000 + expDur exp ≤ c.na ∧
      verifyMsg P.F S e.msg (some c.pk) (assocData info earlier) = .ok (h, b) := by
  unfold verifyEntry entryView at hv
  cases hx : extract P.F e.hb with
  | none => simp [hx] at hv
  | some hb =>
    obtain ⟨h, b⟩ := hb
    simp only [hx] at hv
    cases hbody : P.body b with
    | none => simp [hbody] at hv
    | some v =>
      obtain ⟨ia, exp⟩ := v
      simp only [hbody, verifierVerify, RawEntry.msg, hx] at hv
      cases hk : P.keyId h.keyId with
      | none => simp [hk] at hv
      | some k =>
        simp only [hk] at hv
        split at hv
        · cases hv
        · rename_i hsk
          split at hv
          · cases hv
          · rename_i hbound
            split at hv
            · cases hv
            · rename_i hw
              rw [List.any_eq_true] at hv
              obtain ⟨c, hc, hok⟩ := hv
              simp only [chains, List.mem_filter, Bool.and_eq_true, beq_iff_eq, decide_eq_true_eq] at hc
              obtain ⟨hmem, ⟨⟨hia, hskid⟩, hnb⟩, hna⟩ := hc
              have hmsg : verifyMsg P.F S ⟨e.hb, e.sig⟩ (some c.pk) (assocData info earlier) = .ok (h, b) := by
                cases hr : verifyMsg P.F S ⟨e.hb, e.sig⟩ (some c.pk) (assocData info earlier) with
                | error err => rw [hr] at hok; simp [isOk] at hok
                | ok v =>
                  obtain ⟨h', b'⟩ := v
                  obtain ⟨e', u', po, ph, _⟩ := verifyMsg_ok P.F S _ c.pk _ h' b' hr
                  simp only [extract, po, ph, Option.some.injEq, Prod.mk.injEq] at hx
                  rw [hx.1, hx.2]
              refine ⟨h, b, ia, exp, k, c, rfl, hbody, hk, ?_, ?_, by simpa using hw, hmem, hia, hskid,
                hnb, hna, hmsg⟩
              · intro hnil; simp [hnil] at hsk
              · by_cases h0 : ia = 0
                · exact Or.inl h0
                · right
                  have : ¬ (ia ≠ 0 ∧ ia ≠ k.ia) := hbound
                  simp only [not_and, ne_eq, Decidable.not_not] at this
                  exact (this h0).symm

/-- `ASEntryFromPB` rejects wildcard (in particular zero) local ISD-AS values: an assumption on
the parser (checked by the engine on every parsed entry) -/
def BodyNoWildcard (P : Parsers) : Prop :=
  ∀ b ia exp, P.body b = some (ia, exp) → isWildcard ia = false

theorem isWildcard_zero : isWildcard 0 = true := by decide

/-- **`verifySegment_sound` — the "only if" of the statement.**  Under ideal signatures, if a
segment verifies then every AS entry was signed — by the private key of a certificate in the trust
DB that is issued for exactly the ISD-AS named in that (signed) entry and whose validity covers
`[ts, ts + lifetime(exp)]` of that entry's hop field — over exactly: the entry (header `h`, body
`b`), the segment info, and all earlier entries' `HeaderAndBody ‖ Signature`. -/
theorem verifySegment_sound {SK PK : Type} (P : Parsers) (S : Scheme SK PK) (certs : List (Cert PK))
    (hist : List (Call SK)) (hE : EmptyHdrUnknown P.F) (hF : ∀ c ∈ hist, SoundFor P.F c.h c.body)
    (hI : Ideal S hist) (hW : BodyNoWildcard P) (seg : RawSeg)
    (hv : verifySegment P S certs seg = .ok) :
    ∃ ts, P.info seg.info = some ts ∧
      ∀ a e b, seg.entries = a ++ e :: b →
        ∃ h body ia exp c, e.hb = enc h body ∧ P.body body = some (ia, exp) ∧
          c ∈ certs ∧ c.ia = ia ∧ c.nb ≤ ts * 1000000000 ∧ ts * 1000000000 + expDur exp ≤ c.na ∧
          SignedBy S hist c.pk h body (assocData seg.info a).flatten := by
  obtain ⟨ts, hts, _, hall⟩ := (verifySegment_iff P S certs seg).mp hv
  refine ⟨ts, hts, ?_⟩
  intro a e b hsplit
  obtain ⟨h, body, ia, exp, k, c, _, hbody, _, _, hbound, _, hc, hcia, _, hnb, hna, hmsg⟩ :=
    verifyEntry_true P S certs seg.info ts a e (hall a e b hsplit)
  obtain ⟨hsigned, hhb⟩ := verify_returns_signed P.F S hist hE hF hI e.msg c.pk _ h body hmsg
  have hia : k.ia = ia := by
    rcases hbound with h0 | h1
    · have := hW body ia exp hbody
      rw [h0, isWildcard_zero] at this; cases this
    · exact h1
  exact ⟨h, body, ia, exp, c, hhb, hbody, hc, by rw [hcia, hia], hnb, hna, hsigned⟩

/-- **`prefix_verifies`.**  Dropping trailing entries leaves a verifiable prefix. -/
theorem prefix_verifies {SK PK : Type} (P : Parsers) (S : Scheme SK PK) (certs : List (Cert PK))
    (info : Bytes) (es : List RawEntry) (n : Nat)
    (hv : verifySegment P S certs ⟨info, es⟩ = .ok) :
    verifySegment P S certs ⟨info, es.take n⟩ = .ok := by
  obtain ⟨ts, hts, hparse, hall⟩ := (verifySegment_iff P S certs ⟨info, es⟩).mp hv
  apply (verifySegment_iff P S certs ⟨info, es.take n⟩).mpr
  refine ⟨ts, hts, fun e he => hparse e (List.mem_of_mem_take he), ?_⟩
  intro a e b hsplit
  apply hall a e (b ++ es.drop n)
  have : es = es.take n ++ es.drop n := (List.take_append_drop n es).symm
  simp only at hsplit
  rw [hsplit] at this
  simpa [List.append_assoc] using this

/-! ## Honestly built segments and the mutation clauses -/

/-- `PathSegment.AddASEntry` repeated: the `i`-th call signs with the associated data of the entries
added so far, and entry `i` is its result.  `earlier` are the entries already in the segment. -/
def BuiltFrom {SK PK : Type} (S : Scheme SK PK) (info : Bytes) :
    List RawEntry → List (Call SK) → List RawEntry → Prop
  | _, [], [] => True
  | earlier, c :: cs, e :: es =>
    c.ad = assocData info earlier ∧ c.run S = .ok e.msg ∧ BuiltFrom S info (earlier ++ [e]) cs es
  | _, _, _ => False

theorem built_call {SK PK : Type} (S : Scheme SK PK) (info : Bytes) :
    ∀ (cs : List (Call SK)) (es earlier : List RawEntry), BuiltFrom S info earlier cs es →
      ∀ c ∈ cs, ∃ a e b, es = a ++ e :: b ∧ c.ad = assocData info (earlier ++ a) ∧
        c.run S = .ok e.msg := by
  intro cs
  induction cs with
  | nil => intro es earlier _ c hc; cases hc
  | cons c0 cs ih =>
    intro es earlier hb c hc
    cases es with
    | nil => simp [BuiltFrom] at hb
    | cons e0 es =>
      obtain ⟨h1, h2, h3⟩ := hb
      rcases List.mem_cons.mp hc with rfl | hc'
      · exact ⟨[], e0, es, rfl, by simpa using h1, h2⟩
      · obtain ⟨a, e, b, hs, had, hrun⟩ := ih es (earlier ++ [e0]) h3 c hc'
        exact ⟨e0 :: a, e, b, by simp [hs], by simpa [List.append_assoc] using had, hrun⟩

theorem built_entry {SK PK : Type} (S : Scheme SK PK) (info : Bytes) :
    ∀ (cs : List (Call SK)) (es earlier : List RawEntry), BuiltFrom S info earlier cs es →
      ∀ e ∈ es, ∃ c ∈ cs, c.run S = .ok e.msg := by
  intro cs
  induction cs with
  | nil =>
    intro es earlier hb e he
    cases es with
    | nil => cases he
    | cons _ _ => simp [BuiltFrom] at hb
  | cons c0 cs ih =>
    intro es earlier hb e he
    cases es with
    | nil => cases he
    | cons e0 es =>
      obtain ⟨_, h2, h3⟩ := hb
      rcases List.mem_cons.mp he with rfl | he'
      · exact ⟨c0, by simp, h2⟩
      · obtain ⟨c, hc, hrun⟩ := ih es (earlier ++ [e0]) h3 e he'
        exact ⟨c, by simp [hc], hrun⟩

theorem enc_ne_nil (h : Header) (b : Bytes) (hk : algoKnown h.algo = true) : enc h b ≠ [] := by
  have := encHeader_ne_nil h hk
  simp [enc, encHdrAndBody, lenDelim_of_ne_nil _ this]

/-- DER-encoded ECDSA signatures are self-delimiting (`ecdsa.VerifyASN1` rejects trailing bytes):
an accepted signature is never a proper prefix of another accepted signature.  An assumption on the
primitive, like `Ideal`. -/
def SigPrefixFree {SK PK : Type} (S : Scheme SK PK) : Prop :=
  ∀ pk a m σ pk' a' m' x, S.verify pk a m σ = true → S.verify pk' a' m' (σ ++ x) = true → x = []

/-- **The mutation theorem.**  Let `(info, es)` be a segment built honestly by the calls `cs`, and
let these be all the signatures the key holders ever made (ideal signatures).  If ANY segment
`(info', es')` verifies, then `es'` is a contiguous run of `es` — same entries in the same order,
nothing altered, removed from the middle, inserted or reordered, every signature but the last one
identical — and `info'` is `info` followed by the bytes of the entries before the run. -/
theorem verified_is_run_of_signed {SK PK : Type} (P : Parsers) (S : Scheme SK PK)
    (certs : List (Cert PK)) (cs : List (Call SK)) (info : Bytes) (es : List RawEntry)
    (hbuilt : BuiltFrom S info [] cs es)
    (hE : EmptyHdrUnknown P.F) (hF : ∀ c ∈ cs, SoundFor P.F c.h c.body)
    (hI : Ideal S cs) (hC : Complete S cs) (hPF : SigPrefixFree S)
    (info' : Bytes) (es' : List RawEntry) (hne' : es' ≠ [])
    (hv : verifySegment P S certs ⟨info', es'⟩ = .ok) :
    ∃ a m b, es = a ++ m ++ b ∧ info' = info ++ flatE a ∧ Agree es' m := by
  let V : Bytes → Prop := fun σ => ∃ pk algo m, S.verify pk algo m σ = true
  have PF : ∀ σ x, V σ → V (σ ++ x) → x = [] := by
    rintro σ x ⟨pk, a, m, h1⟩ ⟨pk', a', m', h2⟩
    exact hPF pk a m σ pk' a' m' x h1 h2
  have hne : ∀ x ∈ es, x.hb ≠ [] := by
    intro x hx
    obtain ⟨c, _, hrun⟩ := built_entry S info cs es [] hbuilt x hx
    obtain ⟨hhb, _, _, hk, _⟩ := signMsg_ok S c.h c.body c.sk c.rnd c.ad x.msg hrun
    have : x.hb = enc c.h c.body := hhb
    rw [this]
    exact enc_ne_nil _ _ hk
  have hV : ∀ x ∈ es, V x.sig := by
    intro x hx
    obtain ⟨c, hc, hrun⟩ := built_entry S info cs es [] hbuilt x hx
    exact ⟨_, _, _, hC c hc x.msg hrun⟩
  obtain ⟨ts, _, _, hall⟩ := (verifySegment_iff P S certs ⟨info', es'⟩).mp hv
  have hB : Bound V info es info' es' := by
    intro a' e' b' hsplit
    obtain ⟨h, body, _, _, _, c, _, _, _, _, _, _, _, _, _, _, _, hmsg⟩ :=
      verifyEntry_true P S certs info' ts a' e' (hall a' e' b' hsplit)
    obtain ⟨_, _, _, _, _, _, _, _, hsig⟩ := verifyMsg_ok P.F S e'.msg c.pk _ h body hmsg
    refine ⟨⟨_, _, _, hsig⟩, ?_⟩
    obtain ⟨⟨call, hcall, msg, _, hh, hb, had, hrun⟩, hhb⟩ :=
      verify_returns_signed P.F S cs hE hF hI e'.msg c.pk _ h body hmsg
    obtain ⟨a, e, b, hs, hcad, hrun'⟩ := built_call S info cs es [] hbuilt call hcall
    obtain ⟨hehb, _⟩ := signMsg_ok S call.h call.body call.sk call.rnd call.ad e.msg hrun'
    refine ⟨a, e, b, hs, ?_, ?_⟩
    · have h1 : e'.hb = enc h body := hhb
      have h2 : e.hb = enc call.h call.body := hehb
      rw [h1, h2, hh, hb]
    · rw [hcad] at had
      simp only [List.nil_append, assocData_flatten] at had
      exact had.symm
  exact bound_is_run PF hne hV es' info' hne' hB

theorem Agree.map_hb : ∀ {l' l : List RawEntry}, Agree l' l →
    l'.map (·.hb) = l.map (·.hb) ∧ l'.dropLast = l.dropLast
  | [], [], _ => ⟨rfl, rfl⟩
  | [_], [_], h => ⟨by simpa [Agree] using h, rfl⟩
  | e' :: x' :: t', e :: x :: t, h => by
    obtain ⟨h1, h2⟩ := h
    obtain ⟨i1, i2⟩ := Agree.map_hb (l' := x' :: t') (l := x :: t) h2
    subst h1
    exact ⟨by simp only [List.map_cons] at i1 ⊢; rw [i1], by
      simp only [List.dropLast_cons₂] at i2 ⊢; rw [i2]⟩
  | [], _ :: _, h => by simp [Agree] at h
  | [_], [], h => by simp [Agree] at h
  | [_], _ :: _ :: _, h => by simp [Agree] at h
  | _ :: _ :: _, [], h => by simp [Agree] at h
  | _ :: _ :: _, [_], h => by simp [Agree] at h

/-- **Same segment info ⇒ a prefix.**  With the segment info untouched, whatever verifies is a
prefix of the signed segment: the signed `HeaderAndBody` of the entries form a prefix of the
original ones, and all entries but the last (signatures included) are the original entries.
Hence altering, reordering, removing (other than trailing) or inserting an entry, or altering an
earlier signature, makes verification fail. -/
theorem verified_same_info_is_prefix {SK PK : Type} (P : Parsers) (S : Scheme SK PK)
    (certs : List (Cert PK)) (cs : List (Call SK)) (info : Bytes) (es : List RawEntry)
    (hbuilt : BuiltFrom S info [] cs es)
    (hE : EmptyHdrUnknown P.F) (hF : ∀ c ∈ cs, SoundFor P.F c.h c.body)
    (hI : Ideal S cs) (hC : Complete S cs) (hPF : SigPrefixFree S)
    (es' : List RawEntry) (hv : verifySegment P S certs ⟨info, es'⟩ = .ok) :
    es'.map (·.hb) <+: es.map (·.hb) ∧ es'.dropLast <+: es := by
  by_cases hne' : es' = []
  · subst hne'; simp
  obtain ⟨a, m, b, hes, hinfo, hag⟩ := verified_is_run_of_signed P S certs cs info es hbuilt hE hF hI
    hC hPF info es' hne' hv
  have hne : ∀ x ∈ es, x.hb ≠ [] := by
    intro x hx
    obtain ⟨c, _, hrun⟩ := built_entry S info cs es [] hbuilt x hx
    obtain ⟨hhb, _, _, hk, _⟩ := signMsg_ok S c.h c.body c.sk c.rnd c.ad x.msg hrun
    have : x.hb = enc c.h c.body := hhb
    rw [this]
    exact enc_ne_nil _ _ hk
  have ha : a = [] := by
    have : flatE a = [] := by
      have := congrArg List.length hinfo
      simp only [List.length_append] at this
      exact List.eq_nil_of_length_eq_zero (by omega)
    exact flatE_eq_nil (fun x hx => hne x (by rw [hes]; simp [hx])) this
  subst ha
  obtain ⟨h1, h2⟩ := hag.map_hb
  simp only [List.nil_append] at hes
  constructor
  · rw [h1, hes, List.map_append]; exact List.prefix_append _ _
  · rw [h2, hes]
    exact (List.dropLast_prefix m).trans (List.prefix_append _ _)

/-- **Altering an entry is detected**: if the candidate has the original info and, at some
position, an entry whose signed bytes differ from the original entry at that position, it does not
verify. -/
theorem altered_entry_rejected {SK PK : Type} (P : Parsers) (S : Scheme SK PK)
    (certs : List (Cert PK)) (cs : List (Call SK)) (info : Bytes) (es : List RawEntry)
    (hbuilt : BuiltFrom S info [] cs es)
    (hE : EmptyHdrUnknown P.F) (hF : ∀ c ∈ cs, SoundFor P.F c.h c.body)
    (hI : Ideal S cs) (hC : Complete S cs) (hPF : SigPrefixFree S)
    (a : List RawEntry) (x x' : RawEntry) (b b' : List RawEntry) (hes : es = a ++ x :: b)
    (halt : x'.hb ≠ x.hb) :
    verifySegment P S certs ⟨info, a ++ x' :: b'⟩ ≠ .ok := by
  intro hv
  obtain ⟨hp, _⟩ := verified_same_info_is_prefix P S certs cs info es hbuilt hE hF hI hC hPF _ hv
  rw [hes] at hp
  simp only [List.map_append, List.map_cons] at hp
  have := (List.prefix_append_right_inj _).mp hp
  exact halt (List.cons_prefix_cons.mp this).1

/-- **Altering an earlier signature is detected**: same signed bytes, but a different signature on
an entry that is followed by at least one more entry. -/
theorem altered_earlier_signature_rejected {SK PK : Type} (P : Parsers) (S : Scheme SK PK)
    (certs : List (Cert PK)) (cs : List (Call SK)) (info : Bytes) (es : List RawEntry)
    (hbuilt : BuiltFrom S info [] cs es)
    (hE : EmptyHdrUnknown P.F) (hF : ∀ c ∈ cs, SoundFor P.F c.h c.body)
    (hI : Ideal S cs) (hC : Complete S cs) (hPF : SigPrefixFree S)
    (a : List RawEntry) (x x' y : RawEntry) (b b' : List RawEntry) (hes : es = a ++ x :: b)
    (halt : x' ≠ x) :
    verifySegment P S certs ⟨info, a ++ x' :: y :: b'⟩ ≠ .ok := by
  intro hv
  obtain ⟨_, hp⟩ := verified_same_info_is_prefix P S certs cs info es hbuilt hE hF hI hC hPF _ hv
  have hdl : (a ++ x' :: y :: b').dropLast = a ++ x' :: (y :: b').dropLast := by
    rw [List.dropLast_append_of_ne_nil (by simp)]
    simp [List.dropLast_cons₂]
  rw [hdl, hes] at hp
  have := (List.prefix_append_right_inj _).mp hp
  exact halt (List.cons_prefix_cons.mp this).1

/-- **Altering the segment information is detected** (any change that does not extend the info by
exactly the bytes of leading entries — in particular any change of the timestamp or segment id in
place, or any shorter or equally long info). -/
theorem altered_info_rejected {SK PK : Type} (P : Parsers) (S : Scheme SK PK)
    (certs : List (Cert PK)) (cs : List (Call SK)) (info : Bytes) (es : List RawEntry)
    (hbuilt : BuiltFrom S info [] cs es)
    (hE : EmptyHdrUnknown P.F) (hF : ∀ c ∈ cs, SoundFor P.F c.h c.body)
    (hI : Ideal S cs) (hC : Complete S cs) (hPF : SigPrefixFree S)
    (info' : Bytes) (es' : List RawEntry) (hne' : es' ≠ []) (halt : info' ≠ info)
    (hlen : info'.length ≤ info.length) :
    verifySegment P S certs ⟨info', es'⟩ ≠ .ok := by
  intro hv
  obtain ⟨a, m, b, _, hinfo, _⟩ := verified_is_run_of_signed P S certs cs info es hbuilt hE hF hI
    hC hPF info' es' hne' hv
  have hl := congrArg List.length hinfo
  simp only [List.length_append] at hl
  have : flatE a = [] := List.eq_nil_of_length_eq_zero (by omega)
  rw [this, List.append_nil] at hinfo
  exact halt hinfo

end Scion.C24
