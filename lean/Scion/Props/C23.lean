import Scion.Model.Extend
import Scion.Proofs.Extend
import Scion.Gen.Beacon
/-!
# C23 — Beacon extension produces verifiable, correctly bounded AS entries

Property theorems only.  Model: `Scion.Model.Extend` (`DefaultExtender.Extend` and helpers,
`extractBeta`, `path.MACInput`, `ExpTimeToDuration/FromDuration`, `trust.LastExpiring`,
`PathSegment.Validate`, `associatedData`), tied to the code by `harness/cmd/extend` (real
`DefaultExtender` on chains of ASes; every theorem holds for **all** MAC functions `c.mac`).
-/
namespace Scion.C23
open Scion.Extend

/-! ### expiry encoding -/

/-- `ExpTimeFromDuration` is the floor: the encoded lifetime never exceeds the duration and is
less than one unit below it; the value fits 8 bits (the `uint8` conversion loses nothing). -/
theorem toDuration_fromDuration_le (d : Int) (e : Nat) (h : expTimeFromDuration d = some e) :
    expTimeToDuration e ≤ d ∧ d < expTimeToDuration e + expTimeUnit ∧ e ≤ 255 := by
  unfold expTimeFromDuration at h
  split at h
  · cases h
  · split at h
    · cases h
    · rename_i h1 h2
      cases h
      unfold expTimeToDuration expTimeUnit maxTTL at *
      omega

/-- and it is defined exactly on `[unit, MaxTTL]` -/
theorem fromDuration_defined_iff (d : Int) :
    (∃ e, expTimeFromDuration d = some e) ↔ expTimeUnit ≤ d ∧ d ≤ maxTTL := by
  unfold expTimeFromDuration
  constructor
  · rintro ⟨e, h⟩
    split at h
    · cases h
    · split at h
      · cases h
      · omega
  · rintro ⟨h1, h2⟩
    rw [if_neg (by omega), if_neg (by omega)]
    exact ⟨_, rfl⟩

/-- the relative expiry chosen by `Extend`: never above the configured maximum, and the hop
never outlives the signer -/
theorem hopExpTime_bounds (maxExp : Nat) (tsNs signerExp : Int) (e : Nat)
    (h : hopExpTime maxExp tsNs signerExp = some e) :
    e ≤ maxExp ∧ tsNs + expTimeToDuration e ≤ signerExp := by
  unfold hopExpTime at h
  split at h
  · rename_i hgt
    obtain ⟨h1, _, _⟩ := toDuration_fromDuration_le _ _ h
    refine ⟨?_, by omega⟩
    unfold expTimeToDuration expTimeUnit at *
    omega
  · cases h
    omega

/-! ### the produced entry -/

/-- **names the local AS and the neighbour behind the egress interface** (`0-0` iff the beacon
is terminated, i.e. egress = 0; a wildcard neighbour is refused) -/
theorem entry_ias (c : Cfg) (s : Seg) (ingress egress : Nat) (peers : List Nat)
    (signers : List Signer) (now : Int) (e : ASEntry) (s' : Seg) (sg : Signer)
    (h : extend c s ingress egress peers signers now = .ok e s' sg) :
    e.loc = c.ia ∧ e.mtu = c.mtu ∧
    (egress = 0 → e.next = IA.zero) ∧
    (egress ≠ 0 → ∃ i, (egress, i) ∈ c.ifs ∧ c.ifs.lookup egress = some i ∧ e.next = i.ia ∧
      i.ia.isWildcard = false) ∧
    s'.entries = s.entries ++ [e] ∧ s'.segID = s.segID ∧ s'.ts = s.ts := by
  obtain ⟨_, _, _, _, exp, inMtu, hop, next, _, _, _, hnext, he, hs', _⟩ :=
    extend_ok_inv c s ingress egress peers signers now e s' sg h
  subst he hs'
  refine ⟨rfl, rfl, ?_, ?_, rfl, rfl, rfl⟩
  · intro h0
    unfold remoteIA at hnext
    rw [if_pos h0] at hnext
    cases hnext; rfl
  · intro h0
    unfold remoteIA at hnext
    rw [if_neg h0] at hnext
    split at hnext
    · cases hnext
    · rename_i i hl
      split at hnext
      · cases hnext
      · rename_i hw
        cases hnext
        exact ⟨i, lookup_mem _ _ _ hl, hl, rfl, by simpa using hw⟩

/-- **hop field and peer hop fields carry MACs computed under the AS key with the accumulated
segment identifier**: the hop MAC is `mac(MACInput(β, ts, exp, ingress, egress))[:6]` with
`β = extractBeta` of the segment so far; every peer hop field has the same egress and expiry,
its ingress is one of the requested peer interfaces, which is described by the entry, and its
MAC uses `extractBeta` of the *extended* segment, i.e. `β ⊕ hopMAC[:2]` — the accumulator value
of the next AS (`extractBeta_step`).  (`0 ∉ peers`: interface id 0 is not an interface.) -/
theorem hop_mac_chain (c : Cfg) (s : Seg) (ingress egress : Nat) (peers : List Nat)
    (signers : List Signer) (now : Int) (e : ASEntry) (s' : Seg) (sg : Signer)
    (hp0 : 0 ∉ peers)
    (h : extend c s ingress egress peers signers now = .ok e s' sg) :
    e.hop.inIf = ingress ∧ e.hop.egIf = egress ∧
    e.hop.mac = (c.mac (macInput (extractBeta s) s.ts e.hop.expTime ingress egress)).take 6 ∧
    (∀ p ∈ e.peers,
      p.hop.egIf = egress ∧ p.hop.expTime = e.hop.expTime ∧ p.hop.inIf ∈ peers ∧
      p.hop.mac = (c.mac (macInput (extractBeta s') s.ts e.hop.expTime p.hop.inIf egress)).take 6 ∧
      ∃ i, c.ifs.lookup p.hop.inIf = some i ∧ p.peer = i.ia ∧ p.peerIf = i.remoteID ∧
        p.peerMtu = i.mtu ∧ i.remoteID ≠ 0 ∧ i.ia.isWildcard = false) := by
  obtain ⟨_, _, _, _, exp, inMtu, hop, next, _, _, hhop, _, he, hs', _⟩ :=
    extend_ok_inv c s ingress egress peers signers now e s' sg h
  obtain ⟨hx, hi, heg, hm⟩ := createHopF_spec _ _ _ _ _ _ _ hhop
  have hbeta : extractBeta s' = extractBeta s ^^^ sigma hop.mac := by
    rw [hs', extractBeta_append, he]
  subst he
  dsimp only at *
  refine ⟨hi, heg, by rw [hm, hx], ?_⟩
  intro p hp
  unfold createPeerEntries at hp
  rw [List.mem_filterMap] at hp
  obtain ⟨pi, hpi, hcp⟩ := hp
  have hpi0 : pi ≠ 0 := fun h0 => hp0 (h0 ▸ hpi)
  unfold createPeerEntry at hcp
  split at hcp
  · cases hcp
  · rename_i ia rid mtu hri
    split at hcp
    · cases hcp
    · rename_i ph hph
      cases hcp
      obtain ⟨px, pii, peg, pm⟩ := createHopF_spec _ _ _ _ _ _ _ hph
      dsimp only
      refine ⟨peg, by rw [px, hx], by rw [pii]; exact hpi, ?_, ?_⟩
      · rw [pm, hbeta, pii, hx]
      · unfold remoteInfo at hri
        rw [if_neg hpi0] at hri
        split at hri
        · cases hri
        · rename_i i hl
          split at hri
          · cases hri
          · rename_i hr
            split at hri
            · cases hri
            · rename_i hw
              cases hri
              exact ⟨i, by rw [pii]; exact hl, rfl, rfl, rfl, hr, by simpa using hw⟩

/-- the accumulator one AS further: what the next extender (and the routers) will use -/
theorem extractBeta_step (s : Seg) (e : ASEntry) :
    extractBeta { s with entries := s.entries ++ [e] } = extractBeta s ^^^ sigma e.hop.mac :=
  extractBeta_append s e

/-- **Hop expiry never exceeds the configured maximum or the expiry of the signer used**; the
signer used is one of the configured signers, covers `[segment timestamp, now]`, and is the
last-expiring such signer; peer hop fields carry the same expiry. -/
theorem expiry_bounds (c : Cfg) (s : Seg) (ingress egress : Nat) (peers : List Nat)
    (signers : List Signer) (now : Int) (e : ASEntry) (s' : Seg) (sg : Signer)
    (h : extend c s ingress egress peers signers now = .ok e s' sg) :
    e.hop.expTime ≤ c.maxExp ∧
    (s.ts : Int) * nsPerSec + expTimeToDuration e.hop.expTime ≤ sg.notAfter ∧
    sg ∈ signers ∧ sg.covers ((s.ts : Int) * nsPerSec) now = true ∧
    (∀ x ∈ signers, x.covers ((s.ts : Int) * nsPerSec) now = true → x.notAfter ≤ sg.notAfter) := by
  obtain ⟨_, _, _, hsg, exp, inMtu, hop, next, hexp, _, hhop, _, he, _, _⟩ :=
    extend_ok_inv c s ingress egress peers signers now e s' sg h
  obtain ⟨hx, _, _, _⟩ := createHopF_spec _ _ _ _ _ _ _ hhop
  obtain ⟨hb1, hb2⟩ := hopExpTime_bounds _ _ _ _ hexp
  obtain ⟨hm, hc, hall⟩ := lastExpiring_spec _ _ _ _ hsg
  subst he
  dsimp only
  rw [hx]
  exact ⟨hb1, hb2, hm, hc, hall⟩

/-- **extension fails when ingress/egress are inconsistent with the entry's position**: success
implies ingress = 0 exactly for the first entry, not both interfaces 0, an MTU is configured, and
the extended segment passes `Validate` (beacon rules if egress ≠ 0, terminated-segment rules
otherwise: in particular the previous entry's next AS is the local AS). -/
theorem position_errors (c : Cfg) (s : Seg) (ingress egress : Nat) (peers : List Nat)
    (signers : List Signer) (now : Int) (e : ASEntry) (s' : Seg) (sg : Signer)
    (h : extend c s ingress egress peers signers now = .ok e s' sg) :
    (ingress = 0 ↔ s.entries = []) ∧ ¬ (ingress = 0 ∧ egress = 0) ∧ c.mtu ≠ 0 ∧
    validate (egress != 0) s'.entries = true := by
  obtain ⟨hm, hi, hb, _, _, _, _, _, _, _, _, _, _, _, hv⟩ :=
    extend_ok_inv c s ingress egress peers signers now e s' sg h
  exact ⟨hi, hb, hm, hv⟩

/-- contrapositive form: the three position errors -/
theorem position_errors_fail (c : Cfg) (s : Seg) (ingress egress : Nat) (peers : List Nat)
    (signers : List Signer) (now : Int)
    (hbad : (ingress = 0 ∧ s.entries ≠ []) ∨ (ingress ≠ 0 ∧ s.entries = []) ∨
            (ingress = 0 ∧ egress = 0)) :
    ∀ e s' sg, extend c s ingress egress peers signers now ≠ .ok e s' sg := by
  intro e s' sg h
  obtain ⟨hi, hb, _, _⟩ := position_errors c s ingress egress peers signers now e s' sg h
  rcases hbad with ⟨h1, h2⟩ | ⟨h1, h2⟩ | h3
  · exact h2 (hi.1 h1)
  · exact h1 (hi.2 h2)
  · exact hb h3

/-! ### what is signed -/

/-- **signed over the segment information and all earlier entries and signatures**: the
associated data of entry `idx` determines the segment info and the body and signature of every
earlier entry (so, for a signature scheme that binds its input, none of them can be changed). -/
theorem associatedData_injective (info info' : Bytes) (es es' : List SignedEntry) (idx : Nat)
    (hl : idx ≤ es.length) (hl' : idx ≤ es'.length)
    (h : associatedData info es idx = associatedData info' es' idx) :
    info = info' ∧ es.take idx = es'.take idx := by
  unfold associatedData at h
  simp only [List.cons.injEq] at h
  refine ⟨h.1, ?_⟩
  have h2 := h.2
  clear h
  induction idx generalizing es es' with
  | zero => simp
  | succ n ih =>
    cases es with
    | nil => simp at hl
    | cons a t =>
      cases es' with
      | nil => simp at hl'
      | cons a' t' =>
        simp only [List.take_succ_cons, List.flatMap_cons, List.cons_append, List.nil_append,
          List.cons.injEq] at h2
        obtain ⟨hb, hs, hrest⟩ := h2
        have := ih t t' (by simpa using hl) (by simpa using hl') hrest
        simp only [List.take_succ_cons, List.cons.injEq]
        refine ⟨?_, this⟩
        cases a; cases a'; simp_all

theorem associatedData_length (info : Bytes) (es : List SignedEntry) (idx : Nat)
    (hl : idx ≤ es.length) : (associatedData info es idx).length = 1 + 2 * idx := by
  unfold associatedData
  have hsum : ∀ l : List SignedEntry,
      (l.flatMap fun e => [e.hdrBody, e.signature]).length = 2 * l.length := by
    intro l
    induction l with
    | nil => rfl
    | cons a t ih =>
      simp only [List.flatMap_cons, List.length_append, List.length_cons, List.length_nil, ih]
      omega
  rw [List.length_cons, hsum, List.length_take]
  omega

/-! ### regenerated facts (T3) -/

/-- the constants and the arithmetic of the expiry encoding and the MAC input layout, as they
stand in `pkg/slayers/path` now, are the ones the model uses: `MaxTTL = 24 h`,
`expTimeUnit = MaxTTL/256`, `(expTime+1)·unit`, guards `d < unit`, `d > MaxTTL`, value
`(d·256)/MaxTTL − 1`; 6-byte MACs over a 16-byte input laid out as in `macInput`. -/
theorem gen_consts :
    Scion.Gen.Beacon.MaxTTLExpr = "24 * time.Hour" ∧
    Scion.Gen.Beacon.expTimeUnitExpr = "MaxTTL / 256" ∧
    maxTTL = 24 * 3600 * 1000000000 ∧ expTimeUnit = maxTTL / 256 ∧
    Scion.Gen.Beacon.ExpTimeToDurationGuards = [] ∧
    Scion.Gen.Beacon.ExpTimeToDurationReturn = "return (time.Duration(expTime) + 1) * expTimeUnit" ∧
    Scion.Gen.Beacon.ExpTimeFromDurationGuards = ["d < expTimeUnit", "d > MaxTTL"] ∧
    Scion.Gen.Beacon.ExpTimeFromDurationReturn = "return uint8((d*256)/MaxTTL - 1), nil" ∧
    Scion.Gen.Beacon.MacLen = 6 ∧ Scion.Gen.Beacon.MACBufferSize = 16 ∧
    (macInput 0 0 0 0 0).length = Scion.Gen.Beacon.MACBufferSize ∧
    Scion.Gen.Beacon.MACInputBody =
      ["binary.BigEndian.PutUint16(buffer[0:2], 0)", "binary.BigEndian.PutUint16(buffer[2:4], segID)",
       "binary.BigEndian.PutUint32(buffer[4:8], timestamp)", "buffer[8] = 0", "buffer[9] = expTime",
       "binary.BigEndian.PutUint16(buffer[10:12], consIngress)",
       "binary.BigEndian.PutUint16(buffer[12:14], consEgress)",
       "binary.BigEndian.PutUint16(buffer[14:16], 0)"] := by
  decide

/-! ### non-vacuity -/

def exCfg : Cfg :=
  { ia := (1, 110), mtu := 1400, maxExp := 63,
    ifs := [(1, ⟨(1, 111), 5, 1500⟩), (2, ⟨(1, 120), 7, 1472⟩)],
    mac := fun x => x }

/-- origination on interface 1 with a peer on interface 2, signer expiring 1000 s after the
timestamp: the expiry is shortened from 63 to 1 (2·337.5 s ≤ 1000 s < 3·337.5 s) -/
example :
    (match extend exCfg ⟨7, 1000, []⟩ 0 1 [2] [⟨0, 2000 * nsPerSec⟩] (1500 * nsPerSec) with
     | .ok e _ _ => (e.loc, e.next, e.hop.expTime, e.peers.map (·.peer))
     | _ => ((0, 0), (0, 0), 0, [])) = ((1, 110), (1, 111), 1, [(1, 120)]) := by decide

example : expTimeFromDuration 1000000000000 = some 1 := by decide

end Scion.C23
