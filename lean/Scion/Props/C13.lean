import Scion.Model.Epic
import Scion.Gen.Epic
import Scion.Proofs.R2EpicInput
/-! C13 — EPIC packets need fresh timestamps and valid hop validation fields.
    Theorems about `Scion.Epic.process` (model of `processEPIC`) for every key/MAC function, PRF, clock
    value and packet.  The disposition of the embedded SCION processing is the parameter `inner`. -/
namespace Scion.C13
open Scion.Epic Scion.Util
open Scion.Ohp (Mac Info Hop macInput updateSegID)

/-- the freshness window in integers (ns): sender time not more than the clock skew ahead of `now`, and
    `now` not more than lifetime + skew after it -/
def Fresh (ts0 pktTs now : Nat) : Prop :=
  tsSender ts0 pktTs ≤ now + maxClockSkew ∧ now ≤ tsSender ts0 pktTs + maxPacketLifetime + maxClockSkew

theorem fresh_iff (ts0 pktTs now : Nat) : fresh ts0 pktTs now = true ↔ Fresh ts0 pktTs now := by
  unfold fresh Fresh
  generalize tsSender ts0 pktTs = s
  generalize maxClockSkew = k
  generalize maxPacketLifetime = l
  simp only [Bool.and_eq_true, Bool.not_eq_true', decide_eq_false_iff_not, Nat.not_lt, gt_iff_lt]

/-- sender time: 21 µs units after the info-field timestamp (ns) -/
theorem tsSender_eq (ts0 pktTs : Nat) : tsSender ts0 pktTs = ts0 * 1000000000 + (pktTs + 1) * 21000 := rfl

/-- window arithmetic spelled out: 1 s skew ahead, 2 s lifetime + 1 s skew behind -/
theorem fresh_window (ts0 pktTs now : Nat) :
    Fresh ts0 pktTs now ↔
      tsSender ts0 pktTs ≤ now + 1000000000 ∧ now ≤ tsSender ts0 pktTs + 3000000000 := by
  unfold Fresh
  generalize tsSender ts0 pktTs = a
  unfold maxClockSkew maxPacketLifetime
  omega

/-- the hop validation field that is checked at the hop validated last -/
def hvfOf (p : Pkt) (v : Validated) : Bytes := if isLast v then p.lhvf else p.phvf

/-- **Acceptance.** An EPIC packet whose embedded SCION processing forwards is accepted (treated as
    that processing decided) exactly when the hop validated last in this AS is neither the penultimate
    nor the last hop of the path, or the timestamp is fresh and the PHVF (penultimate) resp. LHVF (last)
    equals the first four bytes of the PRF keyed with that hop's full MAC over the EPIC MAC input. -/
theorem epic_accept_iff (localIA : Nat) (mac : Mac) (prf : Prf) (now : Nat) (p : Pkt) :
    process localIA mac prf now .fwd p = .asInner ↔
      ∃ v, validated localIA mac p = some v ∧
        ((isPenultimate v = false ∧ isLast v = false) ∨
         (Fresh v.ts0 p.pktTs now ∧ hvfOf p v = calcMac prf v.auth p v.ts0)) := by
  unfold process
  cases hv : validated localIA mac p with
  | none => simp
  | some v =>
    simp only [Option.some.injEq, exists_eq_left']
    unfold epicChecks hvfOf
    cases hp : isPenultimate v <;> cases hl : isLast v <;>
      simp [← fresh_iff] <;> cases hf : fresh v.ts0 p.pktTs now <;> simp

/-- **Rejection is a discard.** Whenever the embedded processing forwards and the packet is not accepted,
    the packet is dropped (no other disposition exists). -/
theorem epic_reject_drops (localIA : Nat) (mac : Mac) (prf : Prf) (now : Nat) (p : Pkt) :
    process localIA mac prf now .fwd p = .asInner ∨ process localIA mac prf now .fwd p = .drop := by
  cases h : process localIA mac prf now .fwd p <;> simp

/-- **Every other hop = plain SCION processing.** If the embedded processing does not forward, or the hop
    validated last is neither penultimate nor last, EPIC processing adds nothing. -/
theorem epic_other_hops_eq_scion (localIA : Nat) (mac : Mac) (prf : Prf) (now : Nat) (inner : Inner) (p : Pkt)
    (h : inner = .other ∨ ∃ v, validated localIA mac p = some v ∧ isPenultimate v = false ∧ isLast v = false) :
    process localIA mac prf now inner p = .asInner := by
  cases inner with
  | other => rfl
  | fwd =>
    rcases h with h | ⟨v, hv, hp, hl⟩
    · cases h
    · exact (epic_accept_iff localIA mac prf now p).mpr ⟨v, hv, Or.inl ⟨hp, hl⟩⟩

/-- at the penultimate and last hop a stale timestamp or a wrong HVF is never accepted -/
theorem epic_checked_at_last_two (localIA : Nat) (mac : Mac) (prf : Prf) (now : Nat) (p : Pkt) (v : Validated)
    (hv : validated localIA mac p = some v) (hpl : isPenultimate v = true ∨ isLast v = true)
    (hacc : process localIA mac prf now .fwd p = .asInner) :
    Fresh v.ts0 p.pktTs now ∧ hvfOf p v = calcMac prf v.auth p v.ts0 := by
  obtain ⟨v', hv', h⟩ := (epic_accept_iff localIA mac prf now p).mp hacc
  rw [hv] at hv'; cases hv'
  rcases h with ⟨h1, h2⟩ | h
  · rcases hpl with h | h <;> simp_all
  · exact h

/-- an effective cross-over: the packet is not for the local AS, the arrival hop ends its segment, and
    the hop is not a peering hop -/
def EffXover (localIA : Nat) (p : Pkt) (b : PathMeta.Base) (inf : Info) : Prop :=
  p.dstIA ≠ localIA ∧ PathMeta.isXover b = true ∧ determinePeer b.pm inf = some false

/-- **Which hop decides** (the repaired defect: previously the arrival index was used). The hop whose
    position selects PHVF/LHVF and whose full MAC keys the PRF is the hop validated LAST in this AS:
    the arrival hop, or after an effective cross-over the hop after it (first hop of the next segment,
    with that segment's info field). Its MAC is computed over the SegID that `verifyCurrentMAC` saw. -/
theorem validated_spec (localIA : Nat) (mac : Mac) (p : Pkt) (v : Validated)
    (hv : validated localIA mac p = some v) :
    ∃ b inf hop inf0, parseBase p.scionPath = some b ∧
      infoAt p.scionPath b b.pm.currINF = some inf ∧ hopAt p.scionPath b b.pm.currHF = some hop ∧
      infoAt p.scionPath b 0 = some inf0 ∧ v.numHops = b.numHops ∧ v.ts0 = inf0.ts ∧
      ((EffXover localIA p b inf ∧ v.idx = b.pm.currHF + 1 ∧
          ∃ inf' hop', infoAt p.scionPath b (PathMeta.infIdx b.pm (b.pm.currHF + 1)) = some inf' ∧
            hopAt p.scionPath b (b.pm.currHF + 1) = some hop' ∧
            v.auth = mac (macInput inf'.segID inf'.ts hop'.exp hop'.consIngress hop'.consEgress)) ∨
       (¬ EffXover localIA p b inf ∧ v.idx = b.pm.currHF ∧
          ∃ peering, determinePeer b.pm inf = some peering ∧
            v.auth = mac (macInput
              (if inf.consDir = false ∧ p.ingress ≠ 0 ∧ peering = false then (updateSegID inf hop.mac).segID else inf.segID)
              inf.ts hop.exp hop.consIngress hop.consEgress))) := by
  unfold validated at hv
  cases hb : parseBase p.scionPath with
  | none => simp [hb] at hv
  | some b =>
    simp only [hb] at hv
    cases hi : infoAt p.scionPath b b.pm.currINF with
    | none => simp [hi] at hv
    | some inf =>
      cases hh : hopAt p.scionPath b b.pm.currHF with
      | none => simp [hi, hh] at hv
      | some hop =>
        cases h0 : infoAt p.scionPath b 0 with
        | none => simp [hi, hh, h0] at hv
        | some inf0 =>
          simp only [hi, hh, h0] at hv
          cases hp : determinePeer b.pm inf with
          | none => simp [hp] at hv
          | some peering =>
            simp only [hp] at hv
            refine ⟨b, inf, hop, inf0, rfl, hi, hh, h0, ?_⟩
            split at hv
            · rename_i hx
              cases hi' : infoAt p.scionPath b (PathMeta.infIdx b.pm (b.pm.currHF + 1)) with
              | none => simp [hi'] at hv
              | some inf' =>
                cases hh' : hopAt p.scionPath b (b.pm.currHF + 1) with
                | none => simp [hi', hh'] at hv
                | some hop' =>
                  simp only [hi', hh', Option.some.injEq] at hv
                  subst hv
                  refine ⟨rfl, rfl, Or.inl ⟨⟨hx.1, hx.2.1, by rw [hp, hx.2.2]⟩, rfl, inf', hop', rfl, rfl, rfl⟩⟩
            · rename_i hx
              simp only [Option.some.injEq] at hv
              subst hv
              refine ⟨rfl, rfl, Or.inr ⟨?_, rfl, peering, hp, ?_⟩⟩
              · intro ⟨h1, h2, h3⟩
                apply hx
                refine ⟨h1, h2, ?_⟩
                rw [hp] at h3
                simpa using h3
              · split <;> rfl

/-- **Tamper evidence of the MAC input.** For a PRF that is injective in its input (the modelling
    assumption for the untruncated CBC-MAC; e.g. `fun _ m => m` satisfies it), two packets validated with
    the same hop MAC produce the same EPIC MAC only if they agree on the info-field timestamp, the packet
    id (timestamp and counter), the source ISD-AS, the source host address and the payload length:
    changing any of them changes the MAC. (The 32-bit truncation to the HVF is outside the model.) -/
theorem epic_mac_binds_fields (prf : Prf) (hinj : ∀ k a b, prf k a = prf k b → a = b) (auth : Bytes)
    (p q : Pkt) (ts ts' : Nat) (hp : Scion.R2EpicInput.WF p ts) (hq : Scion.R2EpicInput.WF q ts')
    (h : prf auth (macInputEpic p ts) = prf auth (macInputEpic q ts')) :
    ts = ts' ∧ p.pktTs = q.pktTs ∧ p.pktCtr = q.pktCtr ∧ p.srcIA = q.srcIA ∧
      p.srcLenBits = q.srcLenBits ∧ p.srcAddr = q.srcAddr ∧ p.payloadLen = q.payloadLen :=
  Scion.R2EpicInput.macInputEpic_injective p q ts ts' hp hq (hinj _ _ _ h)

/-- the hypothesis of `epic_mac_binds_fields` is satisfiable -/
example : ∀ (k a b : Bytes), (fun (_ m : Bytes) => m) k a = (fun (_ m : Bytes) => m) k b → a = b :=
  fun _ _ _ h => h

/-- T3: the model's time constants are the ones in pkg/experimental/epic (regenerated from the source). -/
theorem gen_consts :
    maxClockSkew = Scion.Gen.Epic.MaxClockSkew ∧ maxPacketLifetime = Scion.Gen.Epic.MaxPacketLifetime ∧
    timestampResolution = Scion.Gen.Epic.TimestampResolution ∧ Scion.Gen.Epic.HVFLen = 4 ∧
    Scion.Gen.Epic.AuthLen = 16 ∧ Scion.Gen.Epic.MetadataLen = 16 := by
  refine ⟨rfl, rfl, rfl, rfl, rfl, rfl⟩

/-- the statement sequence of `processEPIC` the model was written against: the hop index is read before
    `process()`, incremented after it when an effective cross-over took place, and only then compared
    with `NumHops-2` / `NumHops-1` -/
def expectedProcessEPIC : List String :=
  ["epicPath, ok := p.scionLayer.Path.(*epic.Path)", "if !ok", "p.path = epicPath.ScionPath",
   "if p.path == nil", "currHF := int(p.path.PathMeta.CurrHF)", "disp := p.process()",
   "if disp != pForward", "if p.effectiveXover", "isPenultimate := currHF == p.path.NumHops-2",
   "isLast := currHF == p.path.NumHops-1", "if isPenultimate || isLast", "return pForward"]

/-- T3: `processEPIC` still has that shape. -/
theorem gen_processEPIC_shape : Scion.Gen.Epic.processEPICStmts = expectedProcessEPIC := by decide

/-- T3: `VerifyTimestamp` computes the offset as `(time.Duration(epicTS) + 1) * TimestampResolution`, i.e. the
    `+ 1` happens AFTER widening the 32-bit packet timestamp to 64 bits, as in the model (`(pktTs + 1)` in
    `Nat`, no wrap at `0xFFFFFFFF`), and compares against skew resp. lifetime + skew -/
theorem gen_verifyTimestamp_shape :
    Scion.Gen.Epic.verifyTimestampStmts =
      ["diff := (time.Duration(epicTS) + 1) * TimestampResolution", "tsSender := timestamp.Add(diff)",
       "if tsSender.After(now.Add(MaxClockSkew))",
       "if now.After(tsSender.Add(MaxPacketLifetime).Add(MaxClockSkew))", "return nil"] := by decide

/-- the largest packet timestamp lies more than 25 hours after the segment timestamp: with a segment
    created at `now` it is never fresh (no 32-bit wrap-around of `pktTs + 1`) -/
theorem max_pktTs_not_fresh (ts0 : Nat) : fresh ts0 4294967295 (ts0 * 1000000000) = false := by
  have h : ¬ Fresh ts0 4294967295 (ts0 * 1000000000) := by
    rw [fresh_window, tsSender_eq]
    omega
  cases hf : fresh ts0 4294967295 (ts0 * 1000000000)
  · rfl
  · exact absurd ((fresh_iff _ _ _).mp hf) h

/-! Non-vacuity: a one-segment path of two hops at its first hop (the penultimate one), packet from the
    internal network, identity "MAC" and a PRF that returns its key: the PHVF must be the first four bytes
    of the hop's MAC input, i.e. `00 00` and the SegID `00 05`. -/
def exPath : Bytes :=
  [0, 0, 0x20, 0] ++ [1, 0, 0, 5, 0, 0, 0, 100] ++
  [0, 63, 0, 0, 0, 2, 9, 9, 9, 9, 9, 9] ++ [0, 63, 0, 7, 0, 0, 8, 8, 8, 8, 8, 8]
def exPkt (phvf : Bytes) : Pkt :=
  { ingress := 0, srcIA := 1, dstIA := 2, srcLenBits := 0, srcAddr := [10, 0, 0, 1], payloadLen := 8,
    pktTs := 0, pktCtr := 1, phvf := phvf, lhvf := [0, 0, 0, 0], scionPath := exPath }

example : process 1 id (fun k _ => k) 100000000000 .fwd (exPkt [0, 0, 0, 5]) = .asInner := by decide
example : process 1 id (fun k _ => k) 100000000000 .fwd (exPkt [0, 0, 0, 6]) = .drop := by decide
-- same packet four seconds later: expired
example : process 1 id (fun k _ => k) 104000000000 .fwd (exPkt [0, 0, 0, 5]) = .drop := by decide

end Scion.C13
