import Scion.Model.Addr
import Scion.Proofs.AddrDigits
import Scion.Proofs.AddrParse
import Scion.Proofs.AddrRoundTrip
import Scion.Proofs.AddrSplitMulti
import Scion.Gen.AddrText
import Scion.Gen.AddrFmt
/-!
# C46 — ISD-AS and address text formats round-trip

Property theorems only.  The model (`Scion.Model.Addr`) is tied to `pkg/addr` by
`harness/cmd/addrtext` (T1) and the constants by `Scion.Gen.AddrText` (T3).
-/
namespace Scion.C46
open Scion.Addr

/-! ## Separators -/

/-- what the round trip needs of a single-character separator: it is not '-' (which separates
    ISD and AS) and not one of the sixteen characters the formatter prints for digits -/
def SepOK (c : Char) : Prop := c ≠ '-' ∧ ∀ d, d < 16 → c ≠ digitChar d

/-- the class named in the statement's guard (DESIGN §7a): any character outside
    `[0-9a-fA-F-]`, i.e. not '-' and not a hexadecimal digit for `strconv.ParseUint` -/
def OutsideHexDash (c : Char) : Prop := c ≠ '-' ∧ ∀ d, digitVal c = some d → 16 ≤ d

theorem sepOK_of_outsideHexDash (c : Char) (h : OutsideHexDash c) : SepOK c := by
  refine ⟨h.1, ?_⟩
  intro d hd heq
  have := h.2 d (by rw [heq]; exact digitVal_digitChar d hd)
  omega

/-- a sanctioned way to build the options: prefix flag and an optional `WithSeparator` whose
    argument is empty or a single admissible character -/
def SepArgOK : Option Str → Prop
  | none => True
  | some [] => True
  | some [c] => SepOK c
  | some (_ :: _ :: _) => False

/-! ## ISD, AS, ISD-AS with the default separator -/

/-- every ISD prints to text that parses back to it -/
theorem parse_format_isd (isd : Nat) (h : isd < 2 ^ 16) : parseISD (fmtISD isd) = .ok isd :=
  parseUint_toDigits 10 16 isd (by omega) (by omega) h

/-- every AS number prints (decimal up to 2^32-1, three hex groups above) to text that parses
    back to it, for every single-character separator that is not a lower-case hex digit -/
theorem parse_format_as_sep (c : Char) (hc : ∀ d, d < 16 → c ≠ digitChar d) (as : Nat)
    (h : as < 2 ^ 48) : parseAS [c] (fmtAS [c] as) = .ok as :=
  parseAS_fmtAS c hc as h


/-- `ParseAS(AS.String())` -/
theorem parse_format_as (as : Nat) (h : as < 2 ^ 48) : parseAS [':'] (fmtAS [':'] as) = .ok as :=
  parse_format_as_sep ':' colon_ne_digit as h

/-- the AS text is decimal up to 2^32-1 and three 16-bit hex groups above -/
theorem fmtAS_form (sep : Str) (as : Nat) (h : as < 2 ^ 48) :
    (as ≤ 2 ^ 32 - 1 → fmtAS sep as = toDigits 10 as) ∧
    (2 ^ 32 ≤ as → fmtAS sep as = toDigits 16 (as / 2 ^ 32 % 2 ^ 16) ++ sep ++
      toDigits 16 (as / 2 ^ 16 % 2 ^ 16) ++ sep ++ toDigits 16 (as % 2 ^ 16)) := by
  have h1 : ¬ maxAS < as := by simp only [maxAS]; omega
  unfold fmtAS
  simp only [h1, if_false, maxBGPAS]
  constructor
  · intro h2; simp [h2]
  · intro h2
    have : ¬ as ≤ 2 ^ 32 - 1 := by omega
    simp [this]

private theorem dash_notin_fmtAS (sep : Str) (hsep : '-' ∉ sep) (as : Nat) (h : as < 2 ^ 48) :
    '-' ∉ fmtAS sep as := by
  have h1 : ¬ maxAS < as := by simp only [maxAS]; omega
  have hd := fun b hb hb' n => notin_toDigits '-' dash_ne_digit b hb hb' n
  unfold fmtAS
  simp only [h1, if_false]
  split
  · exact hd 10 (by omega) (by omega) as
  · simp only [List.mem_append, not_or]
    exact ⟨⟨⟨⟨hd 16 (by omega) (by omega) _, hsep⟩, hd 16 (by omega) (by omega) _⟩, hsep⟩,
      hd 16 (by omega) (by omega) _⟩

private theorem iaFrom_parts (ia : Nat) : iaFrom (iaISD ia) (iaAS ia) = ia := by
  simp only [iaFrom, iaISD, iaAS]
  omega

/-- every ISD-AS prints to text that parses back to it -/
theorem parse_format_ia (ia : Nat) (h : ia < 2 ^ 64) : parseIA (fmtIA ia) = .ok ia := by
  have hisd : iaISD ia < 2 ^ 16 := by simp only [iaISD]; omega
  have has : iaAS ia < 2 ^ 48 := by simp only [iaAS]; omega
  unfold parseIA fmtIA fmtISD
  have e : toDigits 10 (iaISD ia) ++ ['-'] ++ fmtAS [':'] (iaAS ia) =
      toDigits 10 (iaISD ia) ++ '-' :: fmtAS [':'] (iaAS ia) := by simp
  rw [e, split_single_append '-' _ _ (notin_toDigits '-' dash_ne_digit 10 (by omega) (by omega) _),
    split_single_notin '-' _ (dash_notin_fmtAS [':'] (by decide) _ has)]
  have e1 := parse_format_isd _ hisd
  unfold fmtISD at e1
  simp only [e1, parse_format_as _ has, iaFrom_parts]

/-! ## With the optional 'ISD'/'AS' prefixes and a custom separator -/

private theorem trimPrefix_isd (s : Str) : trimPrefix? isdPrefix (isdPrefix ++ s) = some s := by
  simp [trimPrefix?, isdPrefix, List.isPrefixOf]

private theorem trimPrefix_as (s : Str) : trimPrefix? asPrefix (asPrefix ++ s) = some s := by
  simp [trimPrefix?, asPrefix, List.isPrefixOf]

theorem parse_format_formatted_isd (o : Opts) (isd : Nat) (h : isd < 2 ^ 16) :
    parseFormattedISD o (formatISD o isd) = .ok isd := by
  have e1 := parse_format_isd _ h
  unfold fmtISD at e1
  unfold parseFormattedISD formatISD
  cases o.pfx <;> simp [trimPrefix_isd, e1]

theorem parse_format_formatted_as (p : Bool) (c : Char) (hc : ∀ d, d < 16 → c ≠ digitChar d)
    (as : Nat) (h : as < 2 ^ 48) :
    parseFormattedAS ⟨p, [c]⟩ (formatAS ⟨p, [c]⟩ as) = .ok as := by
  unfold parseFormattedAS formatAS
  cases p <;> simp [trimPrefix_as, parse_format_as_sep c hc as h]

/-- `ParseFormattedIA(FormatIA(ia, opts), opts) = ia` for options with a single-character
    separator that is admissible -/
theorem parse_format_formatted_ia_char (p : Bool) (c : Char) (hc : SepOK c) (ia : Nat)
    (h : ia < 2 ^ 64) : parseFormattedIA ⟨p, [c]⟩ (formatIA ⟨p, [c]⟩ ia) = .ok ia := by
  have hisd : iaISD ia < 2 ^ 16 := by simp only [iaISD]; omega
  have has : iaAS ia < 2 ^ 48 := by simp only [iaAS]; omega
  have hsep : '-' ∉ [c] := by
    simp only [List.mem_singleton]; exact fun e => hc.1 e.symm
  have hdig := notin_toDigits '-' dash_ne_digit 10 (by omega) (by omega) (iaISD ia)
  have hasn := dash_notin_fmtAS [c] hsep _ has
  have e1 := parse_format_formatted_isd ⟨p, [c]⟩ _ hisd
  have e2 := parse_format_formatted_as p c hc.2 _ has
  unfold parseFormattedIA formatIA
  cases p
  · have e : toDigits 10 (iaISD ia) ++ ['-'] ++ fmtAS [c] (iaAS ia) =
        toDigits 10 (iaISD ia) ++ '-' :: fmtAS [c] (iaAS ia) := by simp
    simp only [Bool.false_eq_true, if_false]
    rw [e, split_single_append '-' _ _ hdig, split_single_notin '-' _ hasn]
    simp only [formatISD, formatAS, Bool.false_eq_true, if_false] at e1 e2
    simp only [e1, e2, iaFrom_parts]
  · have e : isdPrefix ++ toDigits 10 (iaISD ia) ++ ['-'] ++ asPrefix ++ fmtAS [c] (iaAS ia) =
        (isdPrefix ++ toDigits 10 (iaISD ia)) ++ '-' :: (asPrefix ++ fmtAS [c] (iaAS ia)) := by simp
    have hA : '-' ∉ isdPrefix ++ toDigits 10 (iaISD ia) := by
      simp only [List.mem_append, not_or]; exact ⟨by decide, hdig⟩
    have hB : '-' ∉ asPrefix ++ fmtAS [c] (iaAS ia) := by
      simp only [List.mem_append, not_or]; exact ⟨by decide, hasn⟩
    simp only [if_true]
    rw [e, split_single_append '-' _ _ hA, split_single_notin '-' _ hB]
    simp only [formatISD, formatAS, if_true] at e1 e2
    simp only [e1, e2, iaFrom_parts]

/-- "an empty separator falls back to ':' as documented" -/
theorem empty_separator_is_colon (p : Bool) : mkOpts p (some []) = mkOpts p (some [':']) := rfl

theorem default_separator_is_colon (p : Bool) : mkOpts p none = mkOpts p (some [':']) := by
  cases p <;> rfl

private theorem sepOK_colon : SepOK ':' := ⟨by decide, colon_ne_digit⟩

/-- **Round trip with options**: for every ISD-AS, with or without the prefixes, with no
    separator option, the empty separator or any admissible single-character separator, the
    formatted text parses back to the same value under the same options. -/
theorem parse_format_formatted_ia (p : Bool) (s : Option Str) (hs : SepArgOK s) (ia : Nat)
    (h : ia < 2 ^ 64) : parseFormattedIA (mkOpts p s) (formatIA (mkOpts p s) ia) = .ok ia := by
  match s, hs with
  | none, _ =>
    rw [default_separator_is_colon]
    have := parse_format_formatted_ia_char p ':' sepOK_colon ia h
    cases p <;> exact this
  | some [], _ =>
    rw [empty_separator_is_colon]
    have := parse_format_formatted_ia_char p ':' sepOK_colon ia h
    cases p <;> exact this
  | some [c], hc =>
    have := parse_format_formatted_ia_char p c hc ia h
    cases p <;> exact this

/-- the empty separator prints exactly what ':' prints -/
theorem format_empty_separator (p : Bool) (ia : Nat) :
    formatIA (mkOpts p (some [])) ia = formatIA (mkOpts p (some [':'])) ia := by
  rw [empty_separator_is_colon]

/-- default options print `IA.String()` -/
theorem format_default (ia : Nat) : formatIA (mkOpts false none) ia = fmtIA ia := by
  simp [formatIA, mkOpts, defaultOpts, fmtIA, fmtISD]

/-! ## Service addresses -/

/-- the named services, anycast and multicast -/
def NamedSVC (h : Nat) : Prop :=
  h = svcDS ∨ h = svcCS ∨ h = svcWildcard ∨
  h = svcDS + svcMcast ∨ h = svcCS + svcMcast ∨ h = svcWildcard + svcMcast

theorem parse_format_svc (h : Nat) (hn : NamedSVC h) : parseSVC (fmtSVC h) = .ok h := by
  rcases hn with rfl | rfl | rfl | rfl | rfl | rfl <;> decide

/-- the `_A` spelling of an anycast service address is accepted on input -/
theorem parse_svc_anycast_suffix (h : Nat) (hn : h = svcDS ∨ h = svcCS ∨ h = svcWildcard) :
    parseSVC (fmtSVC h ++ sufA) = .ok h := by
  rcases hn with rfl | rfl | rfl <;> decide

private theorem svcOpen_eq : "<SVC:0x".toList = ['<', 'S', 'V', 'C', ':', '0', 'x'] := by decide
private theorem nameWildcard_eq : nameWildcard = ['W', 'i', 'l', 'd', 'c', 'a', 'r', 'd'] := by decide

private theorem parse_unnamed_text (a b c d : Char) :
    parseSVC (['<', 'S', 'V', 'C', ':', '0', 'x'] ++ [a, b, c, d] ++ ['>']) = .error .form ∧
    parseSVC (['<', 'S', 'V', 'C', ':', '0', 'x'] ++ [a, b, c, d] ++ ['>'] ++ sufM) = .error .form := by
  constructor <;>
  simp [parseSVC, trimSuffix?, List.isSuffixOf, List.isPrefixOf, sufA, sufM, parseSVCBase, nameDS, nameCS,
    nameWildcard_eq]

/-- every other 16-bit value prints as `<SVC:0x….>` (`_M` appended when the multicast bit is
    set) … -/
theorem fmt_unnamed_svc (h : Nat) (hn : ¬ NamedSVC h) :
    fmtSVC h = "<SVC:0x".toList ++ hex4 h ++ ['>'] ++ (if svcIsMulticast h then sufM else []) := by
  have hb : svcBase h ≠ svcDS ∧ svcBase h ≠ svcCS ∧ svcBase h ≠ svcWildcard := by
    simp only [NamedSVC, svcDS, svcCS, svcWildcard, svcMcast] at hn
    simp only [svcBase, svcIsMulticast, svcDS, svcCS, svcWildcard, svcMcast]
    by_cases hm : h / 32768 % 2 = 1
    · simp only [hm, decide_true, if_true]; omega
    · simp only [hm, decide_false, Bool.false_eq_true, if_false]; omega
  unfold fmtSVC svcBaseString
  simp only [hb.1, hb.2.1, hb.2.2, if_false]
  split <;> simp

/-- … which `ParseSVC` rejects (by design there is no round trip for unnamed services) -/
theorem parse_unnamed_svc_rejected (h : Nat) (hn : ¬ NamedSVC h) :
    parseSVC (fmtSVC h) = .error .form := by
  rw [fmt_unnamed_svc h hn, svcOpen_eq]
  have := parse_unnamed_text (digitChar (h / 4096 % 16)) (digitChar (h / 256 % 16))
    (digitChar (h / 16 % 16)) (digitChar (h % 16))
  split
  · exact this.2
  · simpa [hex4] using this.1


/-- `ParseSVC` accepts exactly `NAME`, `NAME_A` (anycast) and `NAME_M` (multicast) for the three
    names, and returns the named value -/
theorem parseSVC_ok_iff (s : Str) (v : Nat) :
    parseSVC s = .ok v ↔
      ∃ n base, (n = nameDS ∧ base = svcDS ∨ n = nameCS ∧ base = svcCS ∨
                 n = nameWildcard ∧ base = svcWildcard) ∧
        (s = n ∧ v = base ∨ s = n ++ sufA ∧ v = base ∨ s = n ++ sufM ∧ v = base + svcMcast) :=
  Scion.Addr.parseSVC_ok_iff s v

/-! ## Parsing rejects out-of-range numbers and malformed text instead of returning a different value

Exact characterisations of what is accepted, against an independent denotation of digit strings
(`ofDigits`): a parser returns `v` only for text that denotes `v`; everything else is an error. -/

/-- `s` is a non-empty string of base-`b` digits (either letter case) whose value `v` fits `bits` bits -/
def Denotes (b bits : Nat) (s : Str) (v : Nat) : Prop :=
  s ≠ [] ∧ (∀ c ∈ s, IsDigit b c) ∧ ofDigits b s = v ∧ v < 2 ^ bits

theorem parseISD_ok_iff (s : Str) (v : Nat) : parseISD s = .ok v ↔ Denotes 10 16 s v :=
  parseUint_ok_iff 10 16 (by omega) s v

theorem parseAS_ok_iff (c : Char) (s : Str) (v : Nat) :
    parseAS [c] s = .ok v ↔
      (c ∉ s ∧ Denotes 10 32 s v) ∨
      ∃ a b d x y z, s = a ++ c :: (b ++ c :: d) ∧ c ∉ a ∧ c ∉ b ∧ c ∉ d ∧
        Denotes 16 16 a x ∧ Denotes 16 16 b y ∧ Denotes 16 16 d z ∧
        v = x * 2 ^ 32 + y * 2 ^ 16 + z := by
  obtain ⟨hj, hno⟩ := split_single_spec c s
  constructor
  · intro h
    unfold parseAS at h
    split at h
    · rename_i p hp
      rw [hp] at hj hno
      simp only [joinWith] at hj
      subst hj
      exact Or.inl ⟨hno p (by simp), (parseUint_ok_iff 10 32 (by omega) p v).1 h⟩
    · rename_i a b d hp
      rw [hp] at hj hno
      simp only [joinWith] at hj
      right
      simp only [asPartBase, asPartBits] at h
      split at h
      · cases h
      · rename_i x hx
        split at h
        · cases h
        · rename_i y hy
          split at h
          · cases h
          · rename_i z hz
            have dx := (parseUint_ok_iff 16 16 (by omega) a x).1 hx
            have dy := (parseUint_ok_iff 16 16 (by omega) b y).1 hy
            have dz := (parseUint_ok_iff 16 16 (by omega) d z).1 hz
            split at h
            · cases h
            · cases h
              refine ⟨a, b, d, x, y, z, hj.symm, hno a (by simp), hno b (by simp), hno d (by simp),
                dx, dy, dz, ?_⟩
              have := dx.2.2.2; have := dy.2.2.2; have := dz.2.2.2
              omega
    · cases h
  · rintro (⟨hc, hd⟩ | ⟨a, b, d, x, y, z, rfl, ha, hb, hd, dx, dy, dz, rfl⟩)
    · unfold parseAS
      rw [split_single_notin c s hc]
      exact (parseUint_ok_iff 10 32 (by omega) s v).2 hd
    · unfold parseAS
      rw [split_single_append c a _ ha, split_single_append c b _ hb, split_single_notin c d hd]
      simp only [asPartBase, asPartBits]
      rw [(parseUint_ok_iff 16 16 (by omega) a x).2 dx, (parseUint_ok_iff 16 16 (by omega) b y).2 dy,
        (parseUint_ok_iff 16 16 (by omega) d z).2 dz]
      have := dx.2.2.2; have := dy.2.2.2; have := dz.2.2.2
      have h1 : ¬ maxAS < (x * 2 ^ 16 + y) * 2 ^ 16 + z := by simp only [maxAS]; omega
      have e : (x * 2 ^ 16 + y) * 2 ^ 16 + z = x * 2 ^ 32 + y * 2 ^ 16 + z := by omega
      rw [e] at h1
      simp only [e, h1, if_false]

theorem parseIA_ok_iff (s : Str) (v : Nat) :
    parseIA s = .ok v ↔
      ∃ a b i as, s = a ++ '-' :: b ∧ '-' ∉ a ∧ '-' ∉ b ∧ parseISD a = .ok i ∧
        parseAS [':'] b = .ok as ∧ v = i * 2 ^ 48 + as := by
  obtain ⟨hj, hno⟩ := split_single_spec '-' s
  constructor
  · intro h
    unfold parseIA at h
    split at h
    · rename_i a b hp
      rw [hp] at hj hno
      simp only [joinWith] at hj
      split at h
      · cases h
      · rename_i i hi
        split at h
        · cases h
        · rename_i as has
          cases h
          refine ⟨a, b, i, as, hj.symm, hno a (by simp), hno b (by simp), hi, has, ?_⟩
          have : as < 2 ^ 48 := by
            rcases (parseAS_ok_iff ':' b as).1 has with ⟨_, h⟩ | ⟨_, _, _, x, y, z, _, _, _, _, dx, dy, dz, rfl⟩
            · have := h.2.2.2; omega
            · have := dx.2.2.2; have := dy.2.2.2; have := dz.2.2.2; omega
          simp only [iaFrom]
          omega
    · cases h
  · rintro ⟨a, b, i, as, rfl, ha, hb, hi, has, rfl⟩
    unfold parseIA
    rw [split_single_append '-' a _ ha, split_single_notin '-' b hb]
    have : as < 2 ^ 48 := by
      rcases (parseAS_ok_iff ':' b as).1 has with ⟨_, h⟩ | ⟨_, _, _, x, y, z, _, _, _, _, dx, dy, dz, rfl⟩
      · have := h.2.2.2; omega
      · have := dx.2.2.2; have := dy.2.2.2; have := dz.2.2.2; omega
    have e : as % 2 ^ 48 = as := Nat.mod_eq_of_lt this
    simp only [hi, has, iaFrom, e]

/-- normalising an AS text (`ParseAS` then `String`, as the path-policy listener does) keeps the
    value: the normal form parses to the same AS -/
theorem format_parse_canonical (s : Str) (v : Nat) (h : parseAS [':'] s = .ok v) :
    parseAS [':'] (fmtAS [':'] v) = .ok v :=
  parse_format_as v (parseAS_lt _ _ _ h)

/-- two texts denote the same AS iff their normal forms are equal -/
theorem normal_form_eq_iff (s₁ s₂ : Str) (v₁ v₂ : Nat) (h₁ : parseAS [':'] s₁ = .ok v₁)
    (h₂ : parseAS [':'] s₂ = .ok v₂) : fmtAS [':'] v₁ = fmtAS [':'] v₂ ↔ v₁ = v₂ :=
  ⟨fmtAS_inj v₁ v₂ (parseAS_lt _ _ _ h₁) (parseAS_lt _ _ _ h₂), fun e => by rw [e]⟩

/-! ## Host addresses and full SCION addresses -/

/-- what is assumed of Go's `net/netip` text form (tied by T1 through the engine's oracle) -/
structure IPCodecOK {IP : Type} (k : IPCodec IP) : Prop where
  /-- `netip.ParseAddr(ip.String()) = ip` -/
  roundtrip : ∀ a, k.parse (k.fmt a) = some a
  /-- an IP literal is not a service name -/
  notSVC : ∀ a v, parseSVC (k.fmt a) ≠ .ok v
  /-- needed for `[…]:port` only: no brackets inside the literal (zones are the caller's business) -/
  noBracket : ∀ a, '[' ∉ k.fmt a ∧ ']' ∉ k.fmt a

/-- hosts with a text form that parses: IP addresses and the named services -/
def HostOK {IP : Type} : Host IP → Prop
  | .none => False
  | .ip _ => True
  | .svc s => NamedSVC s

theorem parse_format_host {IP : Type} (k : IPCodec IP) (hk : IPCodecOK k) (h : Host IP)
    (hh : HostOK h) : parseHost k (fmtHost k h) = .ok h := by
  cases h with
  | none => exact absurd hh (by simp [HostOK])
  | ip a =>
    unfold parseHost fmtHost
    cases hp : parseSVC (k.fmt a) with
    | ok v => exact absurd hp (hk.notSVC a v)
    | error e => simp [hk.roundtrip a]
  | svc s =>
    unfold parseHost fmtHost
    simp [parse_format_svc s hh]

private theorem fmtSVC_named_chars (s : Nat) (hs : NamedSVC s) :
    ',' ∉ fmtSVC s ∧ '[' ∉ fmtSVC s ∧ ']' ∉ fmtSVC s := by
  rcases hs with rfl | rfl | rfl | rfl | rfl | rfl <;> decide

theorem parse_format_addr {IP : Type} (k : IPCodec IP) (hk : IPCodecOK k) (ia : Nat)
    (hia : ia < 2 ^ 64) (h : Host IP) (hh : HostOK h) :
    parseAddr k (fmtAddr k ia h) = .ok (ia, h) := by
  have hc : ',' ∉ fmtIA ia := fun hm => not_IAChar_comma (mem_fmtIA ia ',' hm)
  unfold parseAddr fmtAddr
  have e : fmtIA ia ++ [','] ++ fmtHost k h = fmtIA ia ++ ',' :: fmtHost k h := by simp
  rw [e, splitFirst_append ',' _ _ hc]
  simp [parse_format_ia ia hia, parse_format_host k hk h hh]

private theorem fmtHost_noBracket {IP : Type} (k : IPCodec IP) (hk : IPCodecOK k) (h : Host IP)
    (hh : HostOK h) : '[' ∉ fmtHost k h ∧ ']' ∉ fmtHost k h := by
  cases h with
  | none => exact absurd hh (by simp [HostOK])
  | ip a => exact hk.noBracket a
  | svc s => exact (fmtSVC_named_chars s hh).2

private theorem colon_bracket_notin_digits (n : Nat) :
    ':' ∉ toDigits 10 n ∧ '[' ∉ toDigits 10 n ∧ ']' ∉ toDigits 10 n := by
  refine ⟨?_, ?_, ?_⟩ <;> intro hm <;> obtain ⟨d, hd, h⟩ := mem_toDigits 10 (by omega) n _ hm <;>
    (have hd' : d < 16 := by omega) <;> revert d <;> decide

/-- `ParseAddrPort(FormatAddrPort(a, port)) = (a, port)` -/
theorem parse_format_addrPort {IP : Type} (k : IPCodec IP) (hk : IPCodecOK k) (ia : Nat)
    (hia : ia < 2 ^ 64) (h : Host IP) (hh : HostOK h) (port : Nat) (hp : port < 2 ^ 16) :
    parseAddrPort k (fmtAddrPort k ia h port) = .ok ((ia, h), port) := by
  have hb := fmtHost_noBracket k hk h hh
  have hA1 : '[' ∉ fmtAddr k ia h := by
    unfold fmtAddr
    simp only [List.mem_append, List.mem_singleton, not_or]
    exact ⟨⟨fun hm => not_IAChar_lbr (mem_fmtIA ia _ hm), by decide⟩, hb.1⟩
  have hA2 : ']' ∉ fmtAddr k ia h := by
    unfold fmtAddr
    simp only [List.mem_append, List.mem_singleton, not_or]
    exact ⟨⟨fun hm => not_IAChar_rbr (mem_fmtIA ia _ hm), by decide⟩, hb.2⟩
  obtain ⟨hP1, hP2, hP3⟩ := colon_bracket_notin_digits port
  -- the text is  '[' :: A ++ ']' :: ':' :: P
  have e : fmtAddrPort k ia h port = '[' :: (fmtAddr k ia h ++ ']' :: ':' :: toDigits 10 port) := by
    simp [fmtAddrPort]
  have e2 : '[' :: (fmtAddr k ia h ++ ']' :: ':' :: toDigits 10 port) =
      ('[' :: fmtAddr k ia h ++ [']']) ++ ':' :: toDigits 10 port := by simp
  have hlast : lastIndex ':' ('[' :: (fmtAddr k ia h ++ ']' :: ':' :: toDigits 10 port)) =
      some ((fmtAddr k ia h).length + 2) := by
    rw [e2, lastIndex_append ':' _ _ hP1]; simp
  have e3 : '[' :: (fmtAddr k ia h ++ ']' :: ':' :: toDigits 10 port) =
      ('[' :: fmtAddr k ia h) ++ ']' :: (':' :: toDigits 10 port) := by simp
  have hfirst : firstIndex ']' ('[' :: (fmtAddr k ia h ++ ']' :: ':' :: toDigits 10 port)) =
      some ((fmtAddr k ia h).length + 1) := by
    rw [e3, firstIndex_append ']' _ _ (by simp only [List.mem_cons, not_or]; exact ⟨by decide, hA2⟩)]
    simp
  have hsplit : splitHostPort ('[' :: (fmtAddr k ia h ++ ']' :: ':' :: toDigits 10 port)) =
      some (fmtAddr k ia h, toDigits 10 port) := by
    unfold splitHostPort
    rw [hlast]
    simp only [hfirst]
    generalize fmtAddr k ia h = A at hA1 hA2
    generalize toDigits 10 port = P at hP1 hP2 hP3
    have l1 : ¬ (A.length + 1 + 1 = ('[' :: (A ++ ']' :: ':' :: P)).length) := by
      simp only [List.length_cons, List.length_append]; omega
    have d1 : List.drop 1 ('[' :: (A ++ ']' :: ':' :: P)) = A ++ ']' :: ':' :: P := rfl
    have d2 : List.drop (A.length + 1 + 1) ('[' :: (A ++ ']' :: ':' :: P)) = ':' :: P := by
      simp
    have d3 : List.drop (A.length + 2 + 1) ('[' :: (A ++ ']' :: ':' :: P)) = P := by
      simp
    have t1 : List.drop 1 (List.take (A.length + 1) ('[' :: (A ++ ']' :: ':' :: P))) = A := by
      simp
    rw [d1, d2, d3, t1]
    simp [hA1, hP2, hP3]
  unfold parseAddrPort
  rw [e, hsplit]
  simp [parse_format_addr k hk ia hia h hh, parseUint_toDigits 10 16 port (by omega) (by omega) hp]

/-! ## Separators of more than one character -/

/-- separator strings for which the round trip holds: no '-' and at least one character the
    formatter never prints for a digit (a separator made of digit characters only, or containing
    '-', cannot work: `ff00` + `0` + `110` with separator "0" is ambiguous) -/
def SepStrOK (sep : Str) : Prop := '-' ∉ sep ∧ ∃ c ∈ sep, ∀ d, d < 16 → c ≠ digitChar d

theorem parse_format_as_sepstr (sep : Str) (hX : ∃ c ∈ sep, ∀ d, d < 16 → c ≠ digitChar d)
    (as : Nat) (h : as < 2 ^ 48) : parseAS sep (fmtAS sep as) = .ok as := by
  obtain ⟨c, hc, hn⟩ := hX
  exact parseAS_fmtAS_str sep ⟨c, hc, fun ⟨d, hd, e⟩ => hn d hd e⟩ as h

/-- **any custom separator**: `ParseFormattedIA(FormatIA(ia, opts), opts) = ia` for every
    separator string of any length that contains no '-' and at least one non-digit character
    (the separator cannot start inside a digit group, so `strings.Split` cuts where the
    formatter joined) -/
theorem parse_format_formatted_ia_anysep (p : Bool) (sep : Str) (hs : SepStrOK sep) (ia : Nat)
    (h : ia < 2 ^ 64) : parseFormattedIA ⟨p, sep⟩ (formatIA ⟨p, sep⟩ ia) = .ok ia := by
  have hisd : iaISD ia < 2 ^ 16 := by simp only [iaISD]; omega
  have has : iaAS ia < 2 ^ 48 := by simp only [iaAS]; omega
  have hdig := notin_toDigits '-' dash_ne_digit 10 (by omega) (by omega) (iaISD ia)
  have hasn := dash_notin_fmtAS sep hs.1 _ has
  have e1 := parse_format_formatted_isd ⟨p, sep⟩ _ hisd
  have e2 : parseFormattedAS ⟨p, sep⟩ (formatAS ⟨p, sep⟩ (iaAS ia)) = .ok (iaAS ia) := by
    unfold parseFormattedAS formatAS
    cases p <;> simp [trimPrefix_as, parse_format_as_sepstr sep hs.2 _ has]
  unfold parseFormattedIA formatIA
  cases p
  · have e : toDigits 10 (iaISD ia) ++ ['-'] ++ fmtAS sep (iaAS ia) =
        toDigits 10 (iaISD ia) ++ '-' :: fmtAS sep (iaAS ia) := by simp
    simp only [Bool.false_eq_true, if_false]
    rw [e, split_single_append '-' _ _ hdig, split_single_notin '-' _ hasn]
    simp only [formatISD, formatAS, Bool.false_eq_true, if_false] at e1 e2
    simp only [e1, e2, iaFrom_parts]
  · have e : isdPrefix ++ toDigits 10 (iaISD ia) ++ ['-'] ++ asPrefix ++ fmtAS sep (iaAS ia) =
        (isdPrefix ++ toDigits 10 (iaISD ia)) ++ '-' :: (asPrefix ++ fmtAS sep (iaAS ia)) := by simp
    have hA : '-' ∉ isdPrefix ++ toDigits 10 (iaISD ia) := by
      simp only [List.mem_append, not_or]; exact ⟨by decide, hdig⟩
    have hB : '-' ∉ asPrefix ++ fmtAS sep (iaAS ia) := by
      simp only [List.mem_append, not_or]; exact ⟨by decide, hasn⟩
    simp only [if_true]
    rw [e, split_single_append '-' _ _ hA, split_single_notin '-' _ hB]
    simp only [formatISD, formatAS, if_true] at e1 e2
    simp only [e1, e2, iaFrom_parts]

/-- … in particular through the public options: `WithSeparator(sep)` for any such string -/
theorem parse_format_formatted_ia_withSeparator (p : Bool) (sep : Str) (hs : SepStrOK sep)
    (ia : Nat) (h : ia < 2 ^ 64) :
    parseFormattedIA (mkOpts p (some sep)) (formatIA (mkOpts p (some sep)) ia) = .ok ia := by
  have hne : sep ≠ [] := by
    intro e; subst e; obtain ⟨_, c, hc, _⟩ := hs; simp at hc
  have : mkOpts p (some sep) = ⟨p, sep⟩ := by
    cases sep with
    | nil => exact absurd rfl hne
    | cons x xs => cases p <;> rfl
  rw [this]
  exact parse_format_formatted_ia_anysep p sep hs ia h

/-! ## Non-vacuity -/

-- a (toy) IP codec meeting the assumptions: one address, written 1.2.3.4
def toyCodec : IPCodec Unit := ⟨fun s => if s = "1.2.3.4".toList then some () else none, fun _ => "1.2.3.4".toList⟩
example : IPCodecOK toyCodec where
  roundtrip := by intro a; cases a; decide
  notSVC := by
    intro a v h
    have e : parseSVC "1.2.3.4".toList = .error .form := by decide
    simp only [toyCodec] at h
    rw [e] at h
    cases h
  noBracket := by intro a; cases a; decide
example : fmtAddrPort toyCodec 0x0001ff0000000110 (.svc (svcCS + svcMcast)) 80 =
    "[1-ff00:0:110,CS_M]:80".toList := by decide
example : SepStrOK "_x_".toList := ⟨by decide, '_', by decide, by decide⟩
example : SepOK '_' := ⟨by decide, by decide⟩
example : OutsideHexDash '_' := ⟨by decide, by decide⟩
example : SepArgOK (some ['_']) := ⟨by decide, by decide⟩
-- 1-ff00:0:110 = 0x0001_ff00_0000_0110
example : formatIA (mkOpts true (some ['_'])) 0x0001ff0000000110 = "ISD1-ASff00_0_110".toList := by
  decide
example : parseFormattedIA (mkOpts true (some ['_'])) "ISD1-ASff00_0_110".toList =
    .ok 0x0001ff0000000110 := by decide
example : fmtIA 0x0001ff0000000110 = "1-ff00:0:110".toList := by decide
example : fmtAS [':'] (2 ^ 32 - 1) = "4294967295".toList ∧ fmtAS [':'] (2 ^ 32) = "1:0:0".toList := by
  decide
example : parseAS [':'] "4294967296".toList = .error .range ∧
    parseAS [':'] "1:0:10000".toList = .error .range ∧ parseISD "65536".toList = .error .range ∧
    parseIA "1-ff00:0".toList = .error .form := by decide
example : fmtSVC (svcCS + svcMcast) = "CS_M".toList ∧ fmtSVC 3 = "<SVC:0x0003>".toList := by decide

end Scion.C46

/-! Constants regenerated from the source (T3) agree with the ones the model was written for. -/
namespace Scion.C46
open Scion.Gen.AddrText in
theorem gen_consts :
    ISDBits = Scion.Addr.isdBits ∧ ASBits = Scion.Addr.asBits ∧ BGPASBits = Scion.Addr.bgpASBits ∧
    MaxISD = Scion.Addr.maxISD ∧ MaxAS = Scion.Addr.maxAS ∧ MaxBGPAS = Scion.Addr.maxBGPAS ∧
    asPartBits = Scion.Addr.asPartBits ∧ asPartBase = Scion.Addr.asPartBase ∧ asParts = 3 ∧
    SvcDS = Scion.Addr.svcDS ∧ SvcCS = Scion.Addr.svcCS ∧ SvcWildcard = Scion.Addr.svcWildcard ∧
    SvcNone = Scion.Addr.svcNone ∧ SVCMcast = Scion.Addr.svcMcast := by decide

/-- the layouts the formatters print, regenerated from the source (T3): `ISD%d-AS%s` / `%d-%s`,
    `<SVC:0x%04x>`, `%s,%s`, `[%s]:%d` — the shapes `formatIA`, `fmtIA`, `svcBaseString`, `fmtAddr`,
    `fmtAddrPort` were written for -/
theorem gen_formats :
    Scion.Gen.AddrFmt.FormatIA = ["ISD%d-AS%s|ia.ISD(),as", "%d-%s|ia.ISD(),as"] ∧
    Scion.Gen.AddrFmt.FormatISD = ["ISD%d|isd"] ∧
    Scion.Gen.AddrFmt.IA_String = ["%d-%s|ia.ISD(),ia.AS()"] ∧
    Scion.Gen.AddrFmt.SVC_BaseString = ["<SVC:0x%04x>|uint16(h)"] ∧
    Scion.Gen.AddrFmt.Addr_String = ["%s,%s|a.IA,a.Host"] ∧
    Scion.Gen.AddrFmt.FormatAddrPort = ["[%s]:%d|a,port"] := by decide
end Scion.C46
