import Scion.Model.Addr
import Scion.Proofs.AddrDigits
import Scion.Gen.AddrText
/-!
# C46 — ISD-AS and address text formats round-trip

Property theorems only.  The model (`Scion.Model.Addr`) is tied to `pkg/addr` by
`harness/cmd/addrtext` (T1) and the constants by `Scion.Gen.AddrText` (T3).
-/
namespace Scion.C46
open Scion.Addr

/-! ## Separators -/

/-- what the round trip needs of a single-character separator: it is not '-' (which separates
    ISD and AS) and not one of the sixteen characters the formatter prints for digits -/
def SepOK (c : Char) : Prop := c ≠ '-' ∧ ∀ d, d < 16 → c ≠ digitChar d

/-- the class named in the statement's guard (DESIGN §7a): any character outside
    `[0-9a-fA-F-]`, i.e. not '-' and not a hexadecimal digit for `strconv.ParseUint` -/
def OutsideHexDash (c : Char) : Prop := c ≠ '-' ∧ ∀ d, digitVal c = some d → 16 ≤ d

theorem sepOK_of_outsideHexDash (c : Char) (h : OutsideHexDash c) : SepOK c := by
  refine ⟨h.1, ?_⟩
  intro d hd heq
  have := h.2 d (by rw [heq]; exact digitVal_digitChar d hd)
  omega

/-- a sanctioned way to build the options: prefix flag and an optional `WithSeparator` whose
    argument is empty or a single admissible character -/
def SepArgOK : Option Str → Prop
  | none => True
  | some [] => True
  | some [c] => SepOK c
  | some (_ :: _ :: _) => False

/-! ## ISD, AS, ISD-AS with the default separator -/

/-- every ISD prints to text that parses back to it -/
theorem parse_format_isd (isd : Nat) (h : isd < 2 ^ 16) : parseISD (fmtISD isd) = .ok isd :=
  parseUint_toDigits 10 16 isd (by omega) (by omega) h

private theorem notin_toDigits (c : Char) (hc : ∀ d, d < 16 → c ≠ digitChar d) (b : Nat) (hb : 2 ≤ b)
    (hb' : b ≤ 16) (n : Nat) : c ∉ toDigits b n := by
  intro hm
  obtain ⟨d, hd, rfl⟩ := mem_toDigits b hb n c hm
  exact hc d (by omega) rfl

/-- every AS number prints (decimal up to 2^32-1, three hex groups above) to text that parses
    back to it, for every single-character separator that is not a lower-case hex digit -/
theorem parse_format_as_sep (c : Char) (hc : ∀ d, d < 16 → c ≠ digitChar d) (as : Nat)
    (h : as < 2 ^ 48) : parseAS [c] (fmtAS [c] as) = .ok as := by
  have h1 : ¬ maxAS < as := by simp only [maxAS]; omega
  unfold fmtAS
  simp only [h1, if_false]
  split
  · rename_i hle
    have hlt : as < 2 ^ 32 := by simp only [maxBGPAS] at hle; omega
    unfold parseAS
    rw [split_single_notin c _ (notin_toDigits c hc 10 (by omega) (by omega) as)]
    exact parseUint_toDigits 10 32 as (by omega) (by omega) hlt
  · have e : toDigits 16 (as / 2 ^ 32 % 2 ^ 16) ++ [c] ++ toDigits 16 (as / 2 ^ 16 % 2 ^ 16) ++ [c] ++
        toDigits 16 (as % 2 ^ 16) =
        toDigits 16 (as / 2 ^ 32 % 2 ^ 16) ++ c :: (toDigits 16 (as / 2 ^ 16 % 2 ^ 16) ++ c ::
        toDigits 16 (as % 2 ^ 16)) := by simp
    unfold parseAS
    rw [e, split_single_append c _ _ (notin_toDigits c hc 16 (by omega) (by omega) _),
      split_single_append c _ _ (notin_toDigits c hc 16 (by omega) (by omega) _),
      split_single_notin c _ (notin_toDigits c hc 16 (by omega) (by omega) _)]
    simp only [asPartBase, asPartBits]
    rw [parseUint_toDigits 16 16 _ (by omega) (by omega) (Nat.mod_lt _ (by omega)),
      parseUint_toDigits 16 16 _ (by omega) (by omega) (Nat.mod_lt _ (by omega)),
      parseUint_toDigits 16 16 _ (by omega) (by omega) (Nat.mod_lt _ (by omega))]
    have hv : (as / 2 ^ 32 % 2 ^ 16 * 2 ^ 16 + as / 2 ^ 16 % 2 ^ 16) * 2 ^ 16 + as % 2 ^ 16 = as := by
      omega
    simp only [hv, h1, if_false]

private theorem colon_ne_digit : ∀ d, d < 16 → ':' ≠ digitChar d := by decide
private theorem dash_ne_digit : ∀ d, d < 16 → '-' ≠ digitChar d := by decide

/-- `ParseAS(AS.String())` -/
theorem parse_format_as (as : Nat) (h : as < 2 ^ 48) : parseAS [':'] (fmtAS [':'] as) = .ok as :=
  parse_format_as_sep ':' colon_ne_digit as h

/-- the AS text is decimal up to 2^32-1 and three 16-bit hex groups above -/
theorem fmtAS_form (sep : Str) (as : Nat) (h : as < 2 ^ 48) :
    (as ≤ 2 ^ 32 - 1 → fmtAS sep as = toDigits 10 as) ∧
    (2 ^ 32 ≤ as → fmtAS sep as = toDigits 16 (as / 2 ^ 32 % 2 ^ 16) ++ sep ++
      toDigits 16 (as / 2 ^ 16 % 2 ^ 16) ++ sep ++ toDigits 16 (as % 2 ^ 16)) := by
  have h1 : ¬ maxAS < as := by simp only [maxAS]; omega
  unfold fmtAS
  simp only [h1, if_false, maxBGPAS]
  constructor
  · intro h2; simp [h2]
  · intro h2
    have : ¬ as ≤ 2 ^ 32 - 1 := by omega
    simp [this]

private theorem dash_notin_fmtAS (sep : Str) (hsep : '-' ∉ sep) (as : Nat) (h : as < 2 ^ 48) :
    '-' ∉ fmtAS sep as := by
  have h1 : ¬ maxAS < as := by simp only [maxAS]; omega
  have hd := fun b hb hb' n => notin_toDigits '-' dash_ne_digit b hb hb' n
  unfold fmtAS
  simp only [h1, if_false]
  split
  · exact hd 10 (by omega) (by omega) as
  · simp only [List.mem_append, not_or]
    exact ⟨⟨⟨⟨hd 16 (by omega) (by omega) _, hsep⟩, hd 16 (by omega) (by omega) _⟩, hsep⟩,
      hd 16 (by omega) (by omega) _⟩

private theorem iaFrom_parts (ia : Nat) : iaFrom (iaISD ia) (iaAS ia) = ia := by
  simp only [iaFrom, iaISD, iaAS]
  omega

/-- every ISD-AS prints to text that parses back to it -/
theorem parse_format_ia (ia : Nat) (h : ia < 2 ^ 64) : parseIA (fmtIA ia) = .ok ia := by
  have hisd : iaISD ia < 2 ^ 16 := by simp only [iaISD]; omega
  have has : iaAS ia < 2 ^ 48 := by simp only [iaAS]; omega
  unfold parseIA fmtIA fmtISD
  have e : toDigits 10 (iaISD ia) ++ ['-'] ++ fmtAS [':'] (iaAS ia) =
      toDigits 10 (iaISD ia) ++ '-' :: fmtAS [':'] (iaAS ia) := by simp
  rw [e, split_single_append '-' _ _ (notin_toDigits '-' dash_ne_digit 10 (by omega) (by omega) _),
    split_single_notin '-' _ (dash_notin_fmtAS [':'] (by decide) _ has)]
  have e1 := parse_format_isd _ hisd
  unfold fmtISD at e1
  simp only [e1, parse_format_as _ has, iaFrom_parts]

/-! ## With the optional 'ISD'/'AS' prefixes and a custom separator -/

private theorem trimPrefix_isd (s : Str) : trimPrefix? isdPrefix (isdPrefix ++ s) = some s := by
  simp [trimPrefix?, isdPrefix, List.isPrefixOf]

private theorem trimPrefix_as (s : Str) : trimPrefix? asPrefix (asPrefix ++ s) = some s := by
  simp [trimPrefix?, asPrefix, List.isPrefixOf]

theorem parse_format_formatted_isd (o : Opts) (isd : Nat) (h : isd < 2 ^ 16) :
    parseFormattedISD o (formatISD o isd) = .ok isd := by
  have e1 := parse_format_isd _ h
  unfold fmtISD at e1
  unfold parseFormattedISD formatISD
  cases o.pfx <;> simp [trimPrefix_isd, e1]

theorem parse_format_formatted_as (p : Bool) (c : Char) (hc : ∀ d, d < 16 → c ≠ digitChar d)
    (as : Nat) (h : as < 2 ^ 48) :
    parseFormattedAS ⟨p, [c]⟩ (formatAS ⟨p, [c]⟩ as) = .ok as := by
  unfold parseFormattedAS formatAS
  cases p <;> simp [trimPrefix_as, parse_format_as_sep c hc as h]

/-- `ParseFormattedIA(FormatIA(ia, opts), opts) = ia` for options with a single-character
    separator that is admissible -/
theorem parse_format_formatted_ia_char (p : Bool) (c : Char) (hc : SepOK c) (ia : Nat)
    (h : ia < 2 ^ 64) : parseFormattedIA ⟨p, [c]⟩ (formatIA ⟨p, [c]⟩ ia) = .ok ia := by
  have hisd : iaISD ia < 2 ^ 16 := by simp only [iaISD]; omega
  have has : iaAS ia < 2 ^ 48 := by simp only [iaAS]; omega
  have hsep : '-' ∉ [c] := by
    simp only [List.mem_singleton]; exact fun e => hc.1 e.symm
  have hdig := notin_toDigits '-' dash_ne_digit 10 (by omega) (by omega) (iaISD ia)
  have hasn := dash_notin_fmtAS [c] hsep _ has
  have e1 := parse_format_formatted_isd ⟨p, [c]⟩ _ hisd
  have e2 := parse_format_formatted_as p c hc.2 _ has
  unfold parseFormattedIA formatIA
  cases p
  · have e : toDigits 10 (iaISD ia) ++ ['-'] ++ fmtAS [c] (iaAS ia) =
        toDigits 10 (iaISD ia) ++ '-' :: fmtAS [c] (iaAS ia) := by simp
    simp only [Bool.false_eq_true, if_false]
    rw [e, split_single_append '-' _ _ hdig, split_single_notin '-' _ hasn]
    simp only [formatISD, formatAS, Bool.false_eq_true, if_false] at e1 e2
    simp only [e1, e2, iaFrom_parts]
  · have e : isdPrefix ++ toDigits 10 (iaISD ia) ++ ['-'] ++ asPrefix ++ fmtAS [c] (iaAS ia) =
        (isdPrefix ++ toDigits 10 (iaISD ia)) ++ '-' :: (asPrefix ++ fmtAS [c] (iaAS ia)) := by simp
    have hA : '-' ∉ isdPrefix ++ toDigits 10 (iaISD ia) := by
      simp only [List.mem_append, not_or]; exact ⟨by decide, hdig⟩
    have hB : '-' ∉ asPrefix ++ fmtAS [c] (iaAS ia) := by
      simp only [List.mem_append, not_or]; exact ⟨by decide, hasn⟩
    simp only [if_true]
    rw [e, split_single_append '-' _ _ hA, split_single_notin '-' _ hB]
    simp only [formatISD, formatAS, if_true] at e1 e2
    simp only [e1, e2, iaFrom_parts]

/-- "an empty separator falls back to ':' as documented" -/
theorem empty_separator_is_colon (p : Bool) : mkOpts p (some []) = mkOpts p (some [':']) := rfl

theorem default_separator_is_colon (p : Bool) : mkOpts p none = mkOpts p (some [':']) := by
  cases p <;> rfl

private theorem sepOK_colon : SepOK ':' := ⟨by decide, colon_ne_digit⟩

/-- **Round trip with options**: for every ISD-AS, with or without the prefixes, with no
    separator option, the empty separator or any admissible single-character separator, the
    formatted text parses back to the same value under the same options. -/
theorem parse_format_formatted_ia (p : Bool) (s : Option Str) (hs : SepArgOK s) (ia : Nat)
    (h : ia < 2 ^ 64) : parseFormattedIA (mkOpts p s) (formatIA (mkOpts p s) ia) = .ok ia := by
  match s, hs with
  | none, _ =>
    rw [default_separator_is_colon]
    have := parse_format_formatted_ia_char p ':' sepOK_colon ia h
    cases p <;> exact this
  | some [], _ =>
    rw [empty_separator_is_colon]
    have := parse_format_formatted_ia_char p ':' sepOK_colon ia h
    cases p <;> exact this
  | some [c], hc =>
    have := parse_format_formatted_ia_char p c hc ia h
    cases p <;> exact this

/-- the empty separator prints exactly what ':' prints -/
theorem format_empty_separator (p : Bool) (ia : Nat) :
    formatIA (mkOpts p (some [])) ia = formatIA (mkOpts p (some [':'])) ia := by
  rw [empty_separator_is_colon]

/-- default options print `IA.String()` -/
theorem format_default (ia : Nat) : formatIA (mkOpts false none) ia = fmtIA ia := by
  simp [formatIA, mkOpts, defaultOpts, fmtIA, fmtISD]

/-! ## Service addresses -/

/-- the named services, anycast and multicast -/
def NamedSVC (h : Nat) : Prop :=
  h = svcDS ∨ h = svcCS ∨ h = svcWildcard ∨
  h = svcDS + svcMcast ∨ h = svcCS + svcMcast ∨ h = svcWildcard + svcMcast

theorem parse_format_svc (h : Nat) (hn : NamedSVC h) : parseSVC (fmtSVC h) = .ok h := by
  rcases hn with rfl | rfl | rfl | rfl | rfl | rfl <;> decide

/-- the `_A` spelling of an anycast service address is accepted on input -/
theorem parse_svc_anycast_suffix (h : Nat) (hn : h = svcDS ∨ h = svcCS ∨ h = svcWildcard) :
    parseSVC (fmtSVC h ++ sufA) = .ok h := by
  rcases hn with rfl | rfl | rfl <;> decide

/-! ## Non-vacuity -/

example : SepOK '_' := ⟨by decide, by decide⟩
example : OutsideHexDash '_' := ⟨by decide, by decide⟩
example : SepArgOK (some ['_']) := ⟨by decide, by decide⟩
-- 1-ff00:0:110 = 0x0001_ff00_0000_0110
example : formatIA (mkOpts true (some ['_'])) 0x0001ff0000000110 = "ISD1-ASff00_0_110".toList := by
  decide
example : parseFormattedIA (mkOpts true (some ['_'])) "ISD1-ASff00_0_110".toList =
    .ok 0x0001ff0000000110 := by decide
example : fmtIA 0x0001ff0000000110 = "1-ff00:0:110".toList := by decide
example : fmtAS [':'] (2 ^ 32 - 1) = "4294967295".toList ∧ fmtAS [':'] (2 ^ 32) = "1:0:0".toList := by
  decide
example : parseAS [':'] "4294967296".toList = .error .range ∧
    parseAS [':'] "1:0:10000".toList = .error .range ∧ parseISD "65536".toList = .error .range ∧
    parseIA "1-ff00:0".toList = .error .form := by decide
example : fmtSVC (svcCS + svcMcast) = "CS_M".toList ∧ fmtSVC 3 = "<SVC:0x0003>".toList := by decide

end Scion.C46

/-! Constants regenerated from the source (T3) agree with the ones the model was written for. -/
namespace Scion.C46
open Scion.Gen.AddrText in
theorem gen_consts :
    ISDBits = Scion.Addr.isdBits ∧ ASBits = Scion.Addr.asBits ∧ BGPASBits = Scion.Addr.bgpASBits ∧
    MaxISD = Scion.Addr.maxISD ∧ MaxAS = Scion.Addr.maxAS ∧ MaxBGPAS = Scion.Addr.maxBGPAS ∧
    asPartBits = Scion.Addr.asPartBits ∧ asPartBase = Scion.Addr.asPartBase ∧ asParts = 3 ∧
    SvcDS = Scion.Addr.svcDS ∧ SvcCS = Scion.Addr.svcCS ∧ SvcWildcard = Scion.Addr.svcWildcard ∧
    SvcNone = Scion.Addr.svcNone ∧ SVCMcast = Scion.Addr.svcMcast := by decide
end Scion.C46
