import Scion.Model.Trc
import Scion.Proofs.Trc
import Scion.Gen.Pki1Trc
/-!
# C33 — TRC payloads are validated (and encoded) faithfully

Property theorems only.  The model `Scion.Trc.validate` mirrors `cppki.TRC.Validate` check by
check; it is tied to the real code by `harness/cmd/trc` (real certificates, real `Validate`,
real `Encode`/`DecodeTRC`).  The ASN.1 round trip itself (`DecodeTRC (Encode t) = t`) is not a
Lean statement: ASN.1/X.509 are not modelled (DESIGN §3); it is checked on the real code for
every generated payload by the engine.
-/
namespace Scion.C33
open Scion.Trc

/-- The rules of the statement, written declaratively over the facts of a payload. -/
structure Rules (t : TRC) : Prop where
  /-- the version is the supported one -/
  version : t.version = 1
  /-- non-wildcard ISD and `1 ≤ base ≤ serial` -/
  isd : t.isd ≠ 0
  base_pos : 1 ≤ t.base
  base_le_serial : t.base ≤ t.serial
  /-- the validity period is non-empty -/
  validity : t.nb < t.na
  /-- a base TRC has neither grace period nor votes -/
  base_no_grace : t.serial = t.base → t.grace = 0
  base_no_votes : t.serial = t.base → t.votes = []
  /-- the quorum is between 1 and 255 … -/
  quorum_lo : 1 ≤ t.quorum
  quorum_hi : t.quorum ≤ 255
  /-- … and at most the number of sensitive and of regular voters -/
  quorum_sens : t.quorum ≤ (countCls .sens t.certs : Int)
  quorum_reg : t.quorum ≤ (countCls .reg t.certs : Int)
  /-- core and authoritative AS lists are non-empty, without wildcards or duplicates -/
  core_nonempty : t.core ≠ []
  core_no_wildcard : 0 ∉ t.core
  core_nodup : t.core.Nodup
  auth_nonempty : t.auth ≠ []
  auth_no_wildcard : 0 ∉ t.auth
  auth_nodup : t.auth.Nodup
  /-- all certificates are classifiable (sensitive voting, regular voting or root) -/
  classifiable : ∀ c ∈ t.certs, c.cls = .sens ∨ c.cls = .reg ∨ c.cls = .root
  /-- … belong to the ISD (when they name an ISD-AS at all) -/
  ia_parsable : ∀ c ∈ t.certs, c.iaKind ≠ 0
  same_isd : ∀ c ∈ t.certs, c.iaKind = 2 → c.isd = t.isd
  /-- … cover the TRC validity -/
  covers : ∀ c ∈ t.certs, c.nb ≤ t.nb ∧ t.na ≤ c.na
  /-- … are unique by issuer and serial number -/
  issuer_serial_unique :
    t.certs.Pairwise (fun a b => ¬ (a.serial = b.serial ∧ a.issN = b.issN))
  /-- … and by subject within their class -/
  subject_unique : ∀ k : Cls, k = .sens ∨ k = .reg ∨ k = .root →
    ((t.certs.filter (fun c => c.cls = k)).map (fun c => c.subj)).Nodup

/-- **C33, validation clause.** `Validate` accepts a payload exactly when every rule of the
statement holds. -/
theorem validate_iff_rules (t : TRC) : validate t = .ok () ↔ Rules t := by
  unfold validate
  rw [andThen_ok_iff, andThen_ok_iff, andThen_ok_iff, checkHead_ok_iff, asSeq_ok_iff,
    asSeq_ok_iff, checkBody_ok_iff]
  constructor
  · rintro ⟨⟨h1, ⟨h2, h3, h4⟩, h5, h6, h7, h8, h9⟩, ⟨c1, c2, c3⟩, ⟨a1, a2, a3⟩,
      b1, b2, b3, b4, b5, b6, b7, b8⟩
    exact
      { version := h1, isd := h2, base_pos := h4, base_le_serial := h3, validity := h5
        base_no_grace := h6, base_no_votes := h7, quorum_lo := h8, quorum_hi := h9
        quorum_sens := b2, quorum_reg := b3
        core_nonempty := c1, core_no_wildcard := c2, core_nodup := c3
        auth_nonempty := a1, auth_no_wildcard := a2, auth_nodup := a3
        classifiable := b1
        ia_parsable := fun c hc => (b4 c hc).1
        same_isd := fun c hc => (b4 c hc).2.1
        covers := fun c hc => (b4 c hc).2.2
        issuer_serial_unique := b5
        subject_unique := by
          intro k hk
          rcases hk with rfl | rfl | rfl
          · exact b6
          · exact b7
          · exact b8 }
  · intro r
    exact ⟨⟨r.version, ⟨r.isd, r.base_le_serial, r.base_pos⟩, r.validity, r.base_no_grace,
      r.base_no_votes, r.quorum_lo, r.quorum_hi⟩,
      ⟨r.core_nonempty, r.core_no_wildcard, r.core_nodup⟩,
      ⟨r.auth_nonempty, r.auth_no_wildcard, r.auth_nodup⟩,
      r.classifiable, r.quorum_sens, r.quorum_reg,
      fun c hc => ⟨r.ia_parsable c hc, r.same_isd c hc, r.covers c hc⟩,
      r.issuer_serial_unique,
      r.subject_unique .sens (Or.inl rfl), r.subject_unique .reg (Or.inr (Or.inl rfl)),
      r.subject_unique .root (Or.inr (Or.inr rfl))⟩

/-- The quorum clause on its own (the clause the unrepaired tree got wrong for negative
values): an accepted payload has `1 ≤ quorum ≤ 255`, and the quorum does not exceed the
number of sensitive nor of regular voters. -/
theorem accept_imp_quorum (t : TRC) (h : validate t = .ok ()) :
    1 ≤ t.quorum ∧ t.quorum ≤ 255 ∧
    t.quorum ≤ (countCls .sens t.certs : Int) ∧ t.quorum ≤ (countCls .reg t.certs : Int) := by
  have r := (validate_iff_rules t).mp h
  exact ⟨r.quorum_lo, r.quorum_hi, r.quorum_sens, r.quorum_reg⟩

/-- No payload with a quorum outside `1..255` is accepted — whatever the rest looks like. -/
theorem bad_quorum_rejected (t : TRC) (h : t.quorum < 1 ∨ 255 < t.quorum) :
    validate t ≠ .ok () := by
  intro hv
  have := accept_imp_quorum t hv
  omega

/-- An accepted payload has at least one sensitive and one regular voter, hence at least two
certificates. -/
theorem accept_imp_voters (t : TRC) (h : validate t = .ok ()) :
    1 ≤ countCls .sens t.certs ∧ 1 ≤ countCls .reg t.certs := by
  have := accept_imp_quorum t h
  omega

/-- Every certificate of an accepted payload covers the TRC validity — whether or not its
subject carries an ISD-AS attribute (`iaKind = 1`: voting certificates may omit it).  The
ISD check and the coverage check are independent. -/
theorem accept_imp_covers (t : TRC) (h : validate t = .ok ()) :
    ∀ c ∈ t.certs, c.nb ≤ t.nb ∧ t.na ≤ c.na :=
  ((validate_iff_rules t).mp h).covers

/-- A payload with a certificate that does not cover the TRC validity is rejected, in
particular when that certificate has no ISD-AS attribute. -/
theorem uncovered_cert_rejected (t : TRC) (c : Cert) (hc : c ∈ t.certs)
    (hn : ¬ (c.nb ≤ t.nb ∧ t.na ≤ c.na)) : validate t ≠ .ok () :=
  fun h => hn (accept_imp_covers t h c hc)

/-- The checks are applied in the order of the code: the error reported is that of the first
failing stage (head checks, core ASes, authoritative ASes, certificates). -/
theorem validate_error_order (t : TRC) (e : Err) :
    validate t = .error e ↔
      checkHead t = .error e ∨
      (checkHead t = .ok () ∧ asSeq t.core = .error e) ∨
      (checkHead t = .ok () ∧ asSeq t.core = .ok () ∧ asSeq t.auth = .error e) ∨
      (checkHead t = .ok () ∧ asSeq t.core = .ok () ∧ asSeq t.auth = .ok () ∧
        checkBody t = .error e) := by
  unfold validate
  simp only [andThen_error_iff]
  grind

/-- **T3.** The checks of `TRC.Validate`, `TRCID.Validate` and `validateASSequence` appear in the
source in the order the model applies them (regenerated from `/repo` on every run), and the
quorum / voter-count conditions are the modelled ones. -/
theorem gen_validate_order :
    Gen.Pki1Trc.validateSentinels =
      ["ErrInvalidTRCVersion", "ErrInvalidID", "ErrGracePeriodNonZero", "ErrVotesOnBaseTRC",
       "ErrInvalidQuorumSize", "ErrNotEnoughVoters", "ErrNotEnoughVoters", "ErrCertForOtherISD",
       "ErrTRCValidityNotCovered", "ErrDuplicate"] ∧
    Gen.Pki1Trc.idSentinels = ["ErrWildcardISD", "ErrSerialBeforeBase", "ErrReservedNumber"] ∧
    Gen.Pki1Trc.asSeqSentinels = ["ErrNoASes", "ErrWildcardAS", "ErrDuplicateAS"] ∧
    Gen.Pki1Trc.quorumCond = "trc.Quorum < 1 || trc.Quorum > 255" ∧
    Gen.Pki1Trc.votersCond = "len(cl.Sensitive) < trc.Quorum" := by
  refine ⟨by decide, by decide, by decide, by decide, by decide⟩

/-! ### Non-vacuity: a concrete payload that meets every rule, and single-rule violations -/

def exCert (id : Nat) (k : Cls) : Cert :=
  { id := id, cls := k, subj := id, issN := id, issR := id, serial := 1, ski := some id,
    iaKind := 2, isd := 1, nb := 0, na := 1000 }

def exTRC : TRC :=
  { version := 1, isd := 1, base := 1, serial := 1, nb := 10, na := 900, grace := 0,
    noTrustReset := false, votes := [], quorum := 2, core := [0xff00_0000_0110, 0xff00_0000_0111],
    auth := [0xff00_0000_0110],
    certs := [exCert 1 .sens, exCert 2 .sens, exCert 3 .reg, exCert 4 .reg, exCert 5 .root] }

example : validate exTRC = .ok () := by rfl
example : Rules exTRC := (validate_iff_rules exTRC).mp (by rfl)
example : validate { exTRC with quorum := -1 } = .error .quorum := by rfl
example : validate { exTRC with quorum := 3 } = .error .voters := by rfl
example : validate { exTRC with core := [5, 5] } = .error .dupAS := by rfl
example : validate { exTRC with serial := 2, grace := 5, votes := [0, 1] } = .ok () := by rfl
-- a voter WITHOUT ISD-AS (`iaKind = 1`) that covers the validity is fine; one that does not is refused
example : validate { exTRC with certs := exTRC.certs ++ [{ exCert 6 .reg with iaKind := 1, isd := 0 }] }
    = .ok () := by rfl
example : validate { exTRC with certs := exTRC.certs ++
    [{ exCert 6 .reg with iaKind := 1, isd := 0, nb := 11 }] } = .error .notCovered := by rfl
example : validate { exTRC with certs := exTRC.certs ++ [exCert 1 .root] } = .error .dup := by
  rfl

end Scion.C33
