import Scion.Model.Chain
import Scion.Proofs.Chain
import Scion.Gen.Pki2
/-!
# C34 — Only properly formed chains rooted in an active TRC are trusted

Property theorems only.  The model (`Scion.Model.Chain`) is the decision logic of
`cppki.ValidateCert/ValidateChain/VerifyChain` and of the trust provider's TRC selection
(`activeTRCs`, `filterVerifiableChains`, `GetChains`) over certificate *facts*; it is tied to the
real functions by `harness/cmd/chain` on real certificates generated in-process.

Signature checking and X.509 path validation are oracles: `asByCa` ("`certs[0]` carries a valid
signature of `certs[1]`'s key", `CheckSignatureFrom`) and `x509ok` (Go's `Verify`).  What the
statement of C34 needs from the latter is the hypothesis `X509Sound` below ("`Verify` succeeded"
implies: the CA certificate is signed by a root of the TRC, and AS, CA and that root certificate
are inside their validity at the verification time).  The harness evaluates this implication,
and the whole statement, on the real objects of every accepted case.

History: before the repair of finding `C34/accepted-not-issued-by-ca`, `verifyChain` had no
`asByCa` check and passed `certs[1]` to `Verify` merely as an optional intermediate, so an AS
certificate issued directly by a TRC root was accepted next to any CA certificate.
-/
namespace Scion.C34
open Scion.Chain

/-! ## First sentence: which chains are accepted against a TRC -/

/-- the AS profile as the statement words it: SCION key usages, constraints, ISD-AS attributes -/
structure ASProfile (a : Cert) : Prop where
  version : a.version = 3
  serial : a.hasSerial = true
  sigAlg : a.sigAlg = 10 ∨ a.sigAlg = 11 ∨ a.sigAlg = 12
  skid : a.skidEmpty = false
  skidNotCritical : a.skidExt ≠ some true
  akidNotCritical : a.akidExt ≠ some true
  digitalSignature : a.keyUsage % 2 = 1
  noCertSign : a.keyUsage / 32 % 2 = 0
  notCA : ¬ (a.bcValid = true ∧ a.isCA = true)
  issuerIA : ∃ ia, a.issuerIA = .ok ia
  subjectIA : ∃ ia, a.subjectIA = .ok ia
  akid : a.akid ≠ 0
  timeStamping : 8 ∈ a.eku

/-- the CA profile -/
structure CAProfile (c : Cert) : Prop where
  version : c.version = 3
  serial : c.hasSerial = true
  sigAlg : c.sigAlg = 10 ∨ c.sigAlg = 11 ∨ c.sigAlg = 12
  skid : c.skidEmpty = false
  skidNotCritical : c.skidExt ≠ some true
  akidNotCritical : c.akidExt ≠ some true
  certSign : c.keyUsage / 32 % 2 = 1
  noDigitalSignature : c.keyUsage % 2 = 0
  noClientAuth : 2 ∉ c.eku
  noServerAuth : 1 ∉ c.eku
  bcCritical : c.bcExt ≠ some false
  isCA : c.bcValid = true ∧ c.isCA = true
  pathLen : c.maxPathLen = 0
  issuerIA : ∃ ia, c.issuerIA = .ok ia
  subjectIA : ∃ ia, c.subjectIA = .ok ia
  akid : c.akid ≠ 0
  /-- not one of the TRC certificate classes -/
  noScionEKU : classifyUeku c.ueku = none

/-- `ValidateCert` says "AS certificate, valid" exactly for the AS profile -/
theorem validateCert_as_iff (a : Cert) :
    validateCert (some a) = (.as, true) ↔ (classifyUeku a.ueku = none ∧ ASProfile a) := by
  rw [validateCert_as, classify_as_iff, asOk_iff, generalOk_iff, iaSetOk_iff, certSign_false,
    digSig_true]
  constructor
  · rintro ⟨⟨hu, hcs, hds⟩, ⟨g1, g2, g3, g4, g5, g6⟩, _, _, nca, ⟨i1, i2⟩, ak, ts⟩
    exact ⟨hu, ⟨g1, g2, g3, g4, g5, g6, hds, hcs, nca, i1, i2, ak, ts⟩⟩
  · rintro ⟨hu, p⟩
    exact ⟨⟨hu, p.noCertSign, p.digitalSignature⟩,
      ⟨p.version, p.serial, p.sigAlg, p.skid, p.skidNotCritical, p.akidNotCritical⟩,
      p.noCertSign, p.digitalSignature, p.notCA, ⟨p.issuerIA, p.subjectIA⟩, p.akid, p.timeStamping⟩

/-- `ValidateCert` says "CA certificate, valid" exactly for the CA profile -/
theorem validateCert_ca_iff (c : Cert) :
    validateCert (some c) = (.ca, true) ↔ CAProfile c := by
  rw [validateCert_ca, classify_ca_iff, caOk_iff, generalOk_iff, iaSetOk_iff, certSign_true,
    digSig_false]
  constructor
  · rintro ⟨⟨hu, hcs⟩, ⟨g1, g2, g3, g4, g5, g6⟩, _, nd, nc, ns, bcx, bv, ic, pl, ⟨i1, i2⟩, ak⟩
    exact ⟨g1, g2, g3, g4, g5, g6, hcs, nd, nc, ns, bcx, ⟨bv, ic⟩, pl, i1, i2, ak, hu⟩
  · intro p
    exact ⟨⟨p.noScionEKU, p.certSign⟩,
      ⟨p.version, p.serial, p.sigAlg, p.skid, p.skidNotCritical, p.akidNotCritical⟩,
      p.certSign, p.noDigitalSignature, p.noClientAuth, p.noServerAuth, p.bcCritical, p.isCA.1,
      p.isCA.2, p.pathLen, ⟨p.issuerIA, p.subjectIA⟩, p.akid⟩

/-- **`ValidateChain` accepts exactly**: two certificates, a valid AS certificate followed by a
valid CA certificate whose validity covers the AS certificate's. -/
theorem validateChain_ok_iff (certs : List (Option Cert)) (a c : Cert) :
    validateChain certs = .ok (a, c) ↔
      certs = [some a, some c] ∧ validateCert (some a) = (.as, true) ∧
      validateCert (some c) = (.ca, true) ∧
      c.notBefore ≤ a.notBefore ∧ a.notAfter ≤ c.notAfter := by
  constructor
  · intro h
    unfold validateChain at h
    split at h
    · rename_i c0 c1
      split at h
      · cases h
      · rename_i t0 h0
        split at h
        · cases h
        · rename_i ht0
          split at h
          · cases h
          · rename_i t1 h1
            split at h
            · cases h
            · rename_i ht1
              split at h
              · rename_i a' c'
                split at h
                · rename_i hcov
                  injection h with h; injection h with ha hc; subst ha; subst hc
                  have e0 : t0 = .as := by simpa using ht0
                  have e1 : t1 = .ca := by simpa using ht1
                  subst e0; subst e1
                  simp only [covers, Bool.and_eq_true, decide_eq_true_eq] at hcov
                  exact ⟨rfl, h0, h1, hcov.1, hcov.2⟩
                · cases h
              · cases h
    · cases h
  · rintro ⟨rfl, h0, h1, hb, ha⟩
    simp [validateChain, h0, h1, covers, hb, ha]

/-- chains of any other length are rejected (length 0, 1, 3, …) -/
theorem validateChain_length (certs : List (Option Cert)) (h : certs.length ≠ 2) :
    validateChain certs = .error .length := by
  match certs, h with
  | [], _ => rfl
  | [_], _ => rfl
  | [_, _], h => exact absurd rfl h
  | _ :: _ :: _ :: _, _ => rfl

/-- **`verifyChain` accepts iff** the chain validates, a (non-zero) TRC is given, the AS
certificate carries a valid signature of the CA certificate, the TRC's certificates all classify
as voting/root certificates with at least one root, and X.509 path validation of the AS
certificate through the CA certificate to the TRC's roots succeeds at the given time. -/
theorem chain_accept_iff (certs : List (Option Cert)) (trc : TrcArg) (s x : Bool) :
    verifyChain certs trc s x = .ok () ↔
      (∃ a c, validateChain certs = .ok (a, c)) ∧
      (∃ tc, trc = .trc tc ∧ rootPoolOk tc = true) ∧ s = true ∧ x = true := by
  unfold verifyChain
  split
  · simp_all
  · rename_i p hp
    obtain ⟨a, c⟩ := p
    cases trc with
    | nil => simp
    | zero => simp
    | trc tc =>
      cases hr : rootPoolOk tc <;> cases x <;> cases s <;> simp [hp, hr]

/-- a chain is accepted by `VerifyChain` iff it is accepted against one of the listed TRCs -/
theorem verifyAny_iff (certs : List (Option Cert)) (s : Bool) (ts : List (TrcArg × Bool)) :
    verifyAny certs s ts = true ↔ ∃ p ∈ ts, verifyChain certs p.1 s p.2 = .ok () := by
  induction ts with
  | nil => simp [verifyAny]
  | cons p r ih =>
    obtain ⟨t, x⟩ := p
    unfold verifyAny
    split
    · rename_i h
      simp only [verifyOk] at h
      split at h
      · rename_i u hu; cases u; simp [hu]
      · cases h
    · rename_i h
      have hne : verifyChain certs t s x ≠ .ok () := by
        intro he; simp [verifyOk, he] at h
      simp [ih, hne]

/-- the root pool of an accepted TRC consists of certificates that validate as roots, and
every certificate of the TRC is a valid sensitive, regular or root certificate -/
theorem trcCertsOk_iff (tc : List (Option Cert)) :
    trcCertsOk tc = true ↔
      ∀ c ∈ tc, validateCert c = (.sensitive, true) ∨ validateCert c = (.regular, true) ∨
        validateCert c = (.root, true) := by
  induction tc with
  | nil => simp [trcCertsOk]
  | cons c r ih =>
    unfold trcCertsOk
    split
    · rename_i h; simp [ih, h]
    · rename_i h; simp [ih, h]
    · rename_i h; simp [ih, h]
    · rename_i h1 h2 h3
      simp only [List.mem_cons, forall_eq_or_imp, Bool.false_eq_true, false_iff, not_and]
      intro h
      rcases h with h | h | h
      · exact absurd h (h1)
      · exact absurd h (h2)
      · exact absurd h (h3)

/-- What the property needs from Go's path validation (see the header). -/
def X509Sound (a c : Cert) (f : X509Facts) (t : Int) (x : Bool) : Prop :=
  x = true → x509Necessary a c f t = true

/-- **C34, first sentence.**  If `verifyChain` accepts and path validation is sound, then the
chain is an AS certificate followed by the CA certificate that issued it (`s`), both in the SCION
profile (key usages, constraints, ISD-AS attributes), the CA validity covers the AS validity,
and the CA certificate is signed by a root certificate of that TRC which — like the CA and AS
certificates — is valid at the verification time. -/
theorem chain_accept_statement (certs : List (Option Cert)) (trc : TrcArg) (s x : Bool)
    (f : X509Facts) (t : Int)
    (hsound : ∀ a c, validateChain certs = .ok (a, c) → X509Sound a c f t x)
    (h : verifyChain certs trc s x = .ok ()) :
    ∃ a c, certs = [some a, some c] ∧ ASProfile a ∧ CAProfile c ∧
      c.notBefore ≤ a.notBefore ∧ a.notAfter ≤ c.notAfter ∧
      s = true ∧
      (a.notBefore ≤ t ∧ t ≤ a.notAfter) ∧ (c.notBefore ≤ t ∧ t ≤ c.notAfter) ∧
      (∃ tc, trc = .trc tc ∧ rootPoolOk tc = true) ∧
      ∃ r ∈ f.roots, r.1 = true ∧ r.2.1 ≤ t ∧ t ≤ r.2.2 := by
  obtain ⟨⟨a, c, hv⟩, htrc, hs, hx⟩ := (chain_accept_iff certs trc s x).1 h
  have hn := hsound a c hv hx
  obtain ⟨hc, ha, hca, hb, hna⟩ := (validateChain_ok_iff certs a c).1 hv
  simp only [x509Necessary, contains, Bool.and_eq_true, decide_eq_true_eq, List.any_eq_true] at hn
  obtain ⟨⟨h2, h3⟩, r, hr, h4⟩ := hn
  exact ⟨a, c, hc, ((validateCert_as_iff a).1 ha).2, (validateCert_ca_iff c).1 hca, hb, hna, hs,
    h2, h3, htrc, r, hr, h4.1, h4.2.1, h4.2.2⟩

/-- a chain whose first certificate was not signed by its second certificate is never accepted,
whatever path validation says (the repaired defect) -/
theorem not_issued_by_ca_rejected (certs : List (Option Cert)) (trc : TrcArg) (x : Bool) :
    verifyChain certs trc false x ≠ .ok () := by
  intro h
  have := (chain_accept_iff certs trc false x).1 h
  simp at this

/-! ## Second sentence: which TRCs the provider uses, and which chains it hands out -/

theorem contains_iff (nb na t : Int) : contains nb na t = true ↔ nb ≤ t ∧ t ≤ na := by
  simp [contains]

theorem inGrace_iff (t : TrcInfo) (now : Int) :
    t.inGrace now = true ↔ t.base ≠ t.serial ∧ t.notBefore ≤ now ∧ now ≤ t.notBefore + t.grace := by
  unfold TrcInfo.inGrace TrcInfo.isBase
  by_cases h : t.base = t.serial <;> simp [h, contains]

theorem newer_irrefl (t : TrcInfo) : newer t t = false := by simp [newer]

theorem newer_trans' (u t m : TrcInfo) (h1 : newer t m = true) (h2 : newer u m = false) :
    newer u t = false := by
  simp only [newer, Bool.or_eq_true, decide_eq_true_eq, Bool.and_eq_true, beq_iff_eq,
    Bool.or_eq_false_iff, decide_eq_false_iff_not, Bool.and_eq_false_iff, beq_eq_false_iff_ne,
    ne_eq] at *
  omega

/-- the DB's "latest" is an element of the store that no other element is newer than -/
theorem latest_is_max (s : Store) (m : TrcInfo) (h : s.latest = some m) :
    m ∈ s ∧ ∀ t ∈ s, newer t m = false := by
  induction s generalizing m with
  | nil => simp [Store.latest] at h
  | cons t r ih =>
    unfold Store.latest at h
    split at h
    · rename_i hr
      injection h with h; subst h
      cases r with
      | nil => simp [newer_irrefl]
      | cons u r' =>
        exfalso
        unfold Store.latest at hr
        split at hr
        · cases hr
        · split at hr <;> cases hr
    · rename_i m' hr
      obtain ⟨hm, hall⟩ := ih m' hr
      split at h
      · rename_i hn
        injection h with h; subst h
        refine ⟨by simp, ?_⟩
        intro u hu
        rcases List.mem_cons.1 hu with rfl | hu
        · exact newer_irrefl _
        · exact newer_trans' u t m' hn (hall u hu)
      · rename_i hn
        injection h with h; subst h
        refine ⟨by simp [hm], ?_⟩
        intro u hu
        rcases List.mem_cons.1 hu with rfl | hu
        · simpa using hn
        · exact hall u hu

/-- **C34, second sentence (selection).**  Every TRC that `activeTRCs` selects is either the
ISD's latest TRC, selected only while it is valid, or the predecessor answer of the DB, selected
only while the latest TRC is valid *and* inside its grace period. -/
theorem provider_active_trc_rule (latest pred : Lookup) (now : Int) (t : TrcInfo)
    (h : t ∈ (activeTRCs latest pred now).trcs) :
    ∃ L, latest = .found L ∧ (L.notBefore ≤ now ∧ now ≤ L.notAfter) ∧
      (t = L ∨ (pred = .found t ∧ L.base ≠ L.serial ∧ L.notBefore ≤ now ∧
                now ≤ L.notBefore + L.grace)) := by
  unfold activeTRCs at h
  split at h
  · simp [ActiveRes.trcs] at h
  · simp [ActiveRes.trcs] at h
  · rename_i L
    split at h
    · simp [ActiveRes.trcs] at h
    · rename_i hv
      have hv' : L.notBefore ≤ now ∧ now ≤ L.notAfter := by
        simpa [contains] using hv
      split at h
      · simp only [ActiveRes.trcs, List.mem_singleton] at h
        exact ⟨L, rfl, hv', Or.inl h⟩
      · rename_i hg
        have hg' := (inGrace_iff L now).1 (by simpa using hg)
        split at h
        · simp [ActiveRes.trcs] at h
        · simp [ActiveRes.trcs] at h
        · rename_i g
          simp only [ActiveRes.trcs, List.mem_cons, List.not_mem_nil, or_false] at h
          rcases h with h | h
          · exact ⟨L, rfl, hv', Or.inl h⟩
          · subst h; exact ⟨L, rfl, hv', Or.inr ⟨rfl, hg'⟩⟩

/-- … and over the abstract store the latest is the maximal `(base, serial)` and the second
one, if any, is its immediate predecessor `(base, serial − 1)`. -/
theorem provider_active_of_store (s : Store) (fl fp : Bool) (now : Int) (t : TrcInfo)
    (h : t ∈ (activeOfStore s fl fp now).trcs) :
    ∃ L, s.latest = some L ∧ (∀ u ∈ s, newer u L = false) ∧
      (L.notBefore ≤ now ∧ now ≤ L.notAfter) ∧
      (t = L ∨ (s.find L.base (L.serial - 1) = some t ∧ L.base ≠ L.serial ∧
                L.notBefore ≤ now ∧ now ≤ L.notBefore + L.grace)) := by
  unfold activeOfStore at h
  obtain ⟨L, hL, hv, hor⟩ := provider_active_trc_rule _ _ now t h
  cases hs : s.latest with
  | none => simp [hs, lookupOf] at hL; split at hL <;> cases hL
  | some L' =>
    have hLL : L = L' := by
      simp only [hs, lookupOf] at hL
      split at hL
      · cases hL
      · injection hL with hL; exact hL.symm
    subst hLL
    refine ⟨L, rfl, (latest_is_max s L hs).2, hv, ?_⟩
    rcases hor with h1 | ⟨hp, hrest⟩
    · exact Or.inl h1
    · refine Or.inr ⟨?_, hrest⟩
      simp only [hs, lookupOf] at hp
      split at hp
      · cases hp
      · split at hp
        · cases hp
        · rename_i g hg; injection hp with hp; subst hp; exact hg

theorem filterVerifiable_mem (n : Nat) (chains : List Nat) (ok : Nat → Nat → Bool) (c : Nat)
    (h : c ∈ filterVerifiable n chains ok) : c ∈ chains ∧ ∃ k, k < n ∧ ok c k = true := by
  simp only [filterVerifiable, List.mem_filter, List.any_eq_true, List.mem_range] at h
  exact h

/-- **C34, second sentence (hand-out).**  Without the explicit `AllowInactive` opt-out, every
chain `GetChains` hands out (from the DB or freshly fetched) verifies against one of the
selected TRCs. -/
theorem getChainsActive_mem (i : GetIn) (chains : List Nat) (n : Nat) (l : List Nat)
    (h : getChainsActive i chains n = .ok l) : ∀ c ∈ l, ∃ k, k < n ∧ i.ok c k = true := by
  intro c hc
  unfold getChainsActive at h
  split at h
  · injection h with h; subst h
    exact (filterVerifiable_mem _ _ _ c hc).2
  · split at h
    · cases h
    · split at h
      · cases h
      · split at h
        · cases h
        · injection h with h; subst h
          exact (filterVerifiable_mem _ _ _ c hc).2

theorem provider_hands_out_only_verifiable (i : GetIn) (l : List Nat)
    (hai : i.allowInactive = false) (h : getChains i = .ok l) :
    ∀ c ∈ l, ∃ k, k < i.active.trcs.length ∧ i.ok c k = true := by
  unfold getChains at h
  split at h
  · cases h
  · split at h
    · cases h
    · rename_i chains _
      simp only [hai, Bool.false_and, Bool.false_eq_true, if_false] at h
      split at h
      · cases h
      · cases h
      · cases h
      · exact getChainsActive_mem i chains _ l h

/-- hence a chain is handed out only if it verifies against the latest TRC while that TRC is
valid, or against the predecessor inside the latest TRC's grace period -/
theorem provider_chain_rule (i : GetIn) (latest pred : Lookup) (now : Int) (l : List Nat)
    (hact : i.active = activeTRCs latest pred now)
    (hai : i.allowInactive = false) (h : getChains i = .ok l) :
    ∀ c ∈ l, ∃ L, latest = .found L ∧ (L.notBefore ≤ now ∧ now ≤ L.notAfter) ∧
      (i.ok c 0 = true ∨
        (i.ok c 1 = true ∧ (∃ g, pred = .found g) ∧ L.base ≠ L.serial ∧ L.notBefore ≤ now ∧
          now ≤ L.notBefore + L.grace)) := by
  intro c hc
  obtain ⟨k, hk, hok⟩ := provider_hands_out_only_verifiable i l hai h c hc
  rw [hact] at hk
  have key : ∀ t ∈ (activeTRCs latest pred now).trcs, _ :=
    fun t ht => provider_active_trc_rule latest pred now t ht
  cases hres : activeTRCs latest pred now with
  | dbErr => simp [hres, ActiveRes.trcs] at hk
  | notFound => simp [hres, ActiveRes.trcs] at hk
  | inactive => simp [hres, ActiveRes.trcs] at hk
  | one t =>
    simp only [hres, ActiveRes.trcs, List.length_singleton, Nat.lt_one_iff] at hk
    subst hk
    obtain ⟨L, hL, hv, _⟩ := key t (by simp [hres, ActiveRes.trcs])
    exact ⟨L, hL, hv, Or.inl hok⟩
  | two t g =>
    simp only [hres, ActiveRes.trcs, List.length_cons, List.length_nil] at hk
    obtain ⟨L, hL, hv, hor⟩ := key g (by simp [hres, ActiveRes.trcs])
    have hk' : k = 0 ∨ k = 1 := by omega
    rcases hk' with rfl | rfl
    · exact ⟨L, hL, hv, Or.inl hok⟩
    · -- the second TRC is only present in the grace period
      have hg : pred = .found g ∧ L.base ≠ L.serial ∧ L.notBefore ≤ now ∧
          now ≤ L.notBefore + L.grace := by
        unfold activeTRCs at hres
        rw [hL] at hres
        simp only at hres
        split at hres
        · cases hres
        · split at hres
          · cases hres
          · rename_i hgr
            have hg' := (inGrace_iff L now).1 (by simpa using hgr)
            split at hres
            · cases hres
            · cases hres
            · rename_i g' ; injection hres with h1 h2; subst h2
              exact ⟨rfl, hg'⟩
      exact ⟨L, hL, hv, Or.inr ⟨hok, ⟨g, hg.1⟩, hg.2⟩⟩

/-! ## `LoadChains`: the same rule at the second entry point, independent of file order -/

/-- a chain file is inserted into the trust DB iff it is a readable, valid chain inside its
validity that verifies against one of the TRCs `activeTRCs` selected (and the DB takes it) -/
theorem loadFile_loaded_iff (f : FileIn) :
    loadFile f = .loaded ↔
      f.readable = true ∧ f.chainValid = true ∧ f.inValidity = true ∧
      ((∃ t, f.active = .one t ∧ f.ok0 = true) ∨
       (∃ t g, f.active = .two t g ∧ (f.ok0 = true ∨ f.ok1 = true))) ∧
      f.insertFails = false ∧ f.duplicate = false := by
  unfold loadFile FileIn.verified
  cases f.readable <;> cases f.chainValid <;> cases f.inValidity <;> simp
  cases f.active <;> cases f.ok0 <;> cases f.ok1 <;> cases f.insertFails <;> cases f.duplicate <;> simp

/-- the decision taken for the file at position `i` is `loadFile` of that file alone: it does
not depend on which files were processed (or loaded) before it -/
theorem loadChains_order_independent (fs : List FileIn) (i : Nat) (r : FileRes)
    (h : (loadChains fs)[i]? = some r) : ∃ f, fs[i]? = some f ∧ r = loadFile f := by
  induction fs generalizing i with
  | nil => simp [loadChains] at h
  | cons f rest ih =>
    unfold loadChains at h
    split at h
    · rename_i hab
      cases i with
      | zero => simp at h; exact ⟨f, by simp, by rw [hab]; exact h.symm⟩
      | succ n => simp at h
    · rename_i x hx
      cases i with
      | zero => simp at h; exact ⟨f, by simp, h.symm⟩
      | succ n =>
        simp only [List.getElem?_cons_succ] at h ⊢
        exact ih n h

/-- hence every file reported as loaded verifies against the latest TRC while it is valid or
against the predecessor inside the grace period (with `provider_active_trc_rule`) -/
theorem loadChains_loaded_verified (fs : List FileIn) (i : Nat)
    (h : (loadChains fs)[i]? = some .loaded) :
    ∃ f, fs[i]? = some f ∧ f.chainValid = true ∧ f.inValidity = true ∧
      ((∃ t, f.active = .one t ∧ f.ok0 = true) ∨
       (∃ t g, f.active = .two t g ∧ (f.ok0 = true ∨ f.ok1 = true))) := by
  obtain ⟨f, hf, hr⟩ := loadChains_order_independent fs i _ h
  have := (loadFile_loaded_iff f).1 hr.symm
  exact ⟨f, hf, this.2.1, this.2.2.1, this.2.2.2.1⟩

/-! ## Facts regenerated from the source (T3) -/

/-- the numbering of `cppki.CertType`, the X.509 version, the chain length constant and the list
of accepted signature algorithms are the ones the model uses -/
theorem gen_consts :
    Gen.Pki2.certTypeInvalid = CertType.invalid.toNat ∧
    Gen.Pki2.certTypeSensitive = CertType.sensitive.toNat ∧
    Gen.Pki2.certTypeRegular = CertType.regular.toNat ∧
    Gen.Pki2.certTypeRoot = CertType.root.toNat ∧
    Gen.Pki2.certTypeCA = CertType.ca.toNat ∧
    Gen.Pki2.certTypeAS = CertType.as.toNat ∧
    Gen.Pki2.certVersion = 3 ∧ Gen.Pki2.chainLen = 2 ∧
    Gen.Pki2.validSigAlgs = ["x509.ECDSAWithSHA256", "x509.ECDSAWithSHA384", "x509.ECDSAWithSHA512"] := by
  decide

/-- the staged checks appear in the source in the order the model applies them -/
theorem gen_call_order :
    Gen.Pki2.verifyChainCalls = ["ValidateChain", "IsZero", "CheckSignatureFrom", "RootPool", "Verify"] ∧
    Gen.Pki2.validateChainCalls = ["ValidateCert", "ValidateCert", "Covers"] ∧
    Gen.Pki2.activeTRCsCalls =
      ["SignedTRC", "IsZero", "Contains", "InGracePeriod", "SignedTRC", "IsZero"] := by
  decide

/-! ## Non-vacuity -/

def exAS : Cert :=
  { version := 3, hasSerial := true, sigAlg := 10, skidEmpty := false, akid := 1,
    skidExt := some false, akidExt := some false, bcExt := none, keyUsage := 1,
    eku := [1, 2, 8], ueku := [], bcValid := false, isCA := false, maxPathLen := -1,
    issuerIA := .ok 0x1ff0000000110, subjectIA := .ok 0x1ff0000000111,
    notBefore := -7200, notAfter := 7200, keyId := 7 }

def exCA : Cert :=
  { version := 3, hasSerial := true, sigAlg := 10, skidEmpty := false, akid := 1,
    skidExt := some false, akidExt := some false, bcExt := some true, keyUsage := 96,
    eku := [], ueku := [], bcValid := true, isCA := true, maxPathLen := 0,
    issuerIA := .ok 0x1ff0000000110, subjectIA := .ok 0x1ff0000000110,
    notBefore := -18000, notAfter := 18000, keyId := 3 }

def exRoot : Cert :=
  { exCA with akid := 2, keyUsage := 96, eku := [8], ueku := [3], maxPathLen := 1,
              notBefore := -36000, notAfter := 36000, keyId := 1 }

example : verifyChain [some exAS, some exCA] (.trc [some exRoot]) true true = .ok () := by rfl
example : verifyChain [some exAS, some exCA] (.trc [some exRoot]) true false = .error .x509 := by
  rfl
example : verifyChain [some exAS, some exCA] (.trc [some exRoot]) false true =
    .error .notIssuedByCA := by rfl
example : verifyChain [some exCA, some exAS] (.trc [some exRoot]) true true =
    .error (.chain .firstType) := by rfl
example : verifyChain [some exAS, some exCA] (.trc [some exCA]) true true = .error .rootPool := by
  rfl
example : X509Sound exAS exCA ⟨[(true, -36000, 36000)]⟩ 0 true := fun _ => by decide

/-- a store with an update in its grace period selects both TRCs; after the grace period only
the latest -/
example : (activeOfStore [⟨1, 1, -100, 100, 0⟩, ⟨1, 2, -10, 200, 20⟩] false false 0).trcs =
    [⟨1, 2, -10, 200, 20⟩, ⟨1, 1, -100, 100, 0⟩] := by decide
example : (activeOfStore [⟨1, 1, -100, 100, 0⟩, ⟨1, 2, -10, 200, 5⟩] false false 0).trcs =
    [⟨1, 2, -10, 200, 5⟩] := by decide
example : activeOfStore [⟨1, 1, -100, 100, 0⟩, ⟨1, 2, 10, 200, 5⟩] false false 0 = .inactive := by
  decide

end Scion.C34
