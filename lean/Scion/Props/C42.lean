import Scion.Model.GwRouting
import Scion.Proofs.GwRouting
import Scion.Model.GwPolicyText
import Scion.Proofs.GwPolicyText
import Scion.Gen.Gateway
/-!
# C42 — Gateway routing picks the most specific prefix and applies policies in order

Property theorems only; helper lemmas are in `Scion.Proofs.GwRouting`.  The model
(`Scion.Model.GwRouting`) is tied to `gateway/dataplane` (`RoutingTable`, `IPForwarder`) and
`gateway/routing` (`Policy`, `AdvertiseList`, text form) by `harness/cmd/gwrouting`.
-/
namespace Scion.C42
open Scion.GwRouting

variable {C P : Type}

/-! ## Routing table -/

/-- the table has distinct prefixes: entries that denote the same network are the same entry -/
def Distinct (tbl : List (Entry C)) : Prop :=
  ∀ e₁ ∈ tbl, ∀ e₂ ∈ tbl, e₁.pfx.same e₂.pfx = true → e₁ = e₂

/-- `e` is a most specific configured prefix containing `dst` -/
def MostSpecific (tbl : List (Entry C)) (dst : Addr) (e : Entry C) : Prop :=
  e ∈ tbl ∧ e.pfx.contains dst = true ∧
    ∀ e' ∈ tbl, e'.pfx.contains dst = true → e'.pfx.len ≤ e.pfx.len

/-- `entry.route` hands out the session of the FIRST traffic class that matches (none if no class
matches or that class has no session) -/
theorem entryRoute_first_match (ev : C → Bool) (t : List (SubEntry C)) :
    entryRoute ev t =
      match t.find? (fun s => ev s.cls) with
      | some s => s.sess
      | none => none :=
  Proofs.GwRouting.entryRoute_find ev t

/-- positional form: the session comes from sub-entry `i`, all earlier classes do not match -/
theorem entryRoute_some_iff (ev : C → Bool) (t : List (SubEntry C)) (s : Nat) :
    entryRoute ev t = some s ↔
      ∃ pre se post, t = pre ++ se :: post ∧ (∀ x ∈ pre, ev x.cls = false) ∧
        ev se.cls = true ∧ se.sess = some s :=
  Proofs.GwRouting.entryRoute_some_iff ev t s

/-- no configured prefix contains the destination ⇒ no session -/
theorem route_no_prefix (ev : C → Bool) (tbl : List (Entry C)) (dst : Addr)
    (h : ∀ e ∈ tbl, e.pfx.contains dst = false) : route ev tbl dst = none :=
  Proofs.GwRouting.route_no_prefix ev tbl dst h

/-- with distinct prefixes the decision is the one of the most specific prefix containing the
destination (and of nothing else: a less specific prefix is never consulted as a fall-back) -/
theorem route_most_specific (ev : C → Bool) (tbl : List (Entry C)) (dst : Addr) (e : Entry C)
    (hd : Distinct tbl) (hm : MostSpecific tbl dst e) :
    route ev tbl dst = entryRoute ev e.table :=
  Proofs.GwRouting.route_most_specific ev tbl dst e hd hm.1 hm.2.1 hm.2.2

/-- a most specific prefix exists whenever some prefix contains the destination -/
theorem mostSpecific_exists (tbl : List (Entry C)) (dst : Addr)
    (h : ∃ e ∈ tbl, e.pfx.contains dst = true) : ∃ e, MostSpecific tbl dst e :=
  Proofs.GwRouting.mostSpecific_exists tbl dst h

/-- **Routing clause of C42.**  For a table with distinct prefixes `route` returns session `s`
iff the most specific prefix containing the destination exists and the first of its traffic
classes that matches the packet carries session `s`. -/
theorem route_spec (ev : C → Bool) (tbl : List (Entry C)) (dst : Addr) (s : Nat)
    (hd : Distinct tbl) :
    route ev tbl dst = some s ↔
      ∃ e, MostSpecific tbl dst e ∧
        ∃ pre se post, e.table = pre ++ se :: post ∧ (∀ x ∈ pre, ev x.cls = false) ∧
          ev se.cls = true ∧ se.sess = some s := by
  constructor
  · intro h
    by_cases hc : ∃ e ∈ tbl, e.pfx.contains dst = true
    · obtain ⟨e, he⟩ := mostSpecific_exists tbl dst hc
      refine ⟨e, he, ?_⟩
      rw [route_most_specific ev tbl dst e hd he] at h
      exact (entryRoute_some_iff ev e.table s).1 h
    · have : ∀ e ∈ tbl, e.pfx.contains dst = false := by
        intro e he
        cases hh : e.pfx.contains dst
        · rfl
        · exact absurd ⟨e, he, hh⟩ hc
      rw [route_no_prefix ev tbl dst this] at h
      cases h
  · rintro ⟨e, he, hx⟩
    rw [route_most_specific ev tbl dst e hd he]
    exact (entryRoute_some_iff ev e.table s).2 hx

/-- **Forwarder clause of C42.**  A packet from the local network is handed to session `s` iff
it decoded, is not an IPv4 fragment, and the routing table returns `s` for its destination;
otherwise it is dropped (as invalid, fragment or no-route). -/
theorem forward_spec (ev : C → P → Bool) (tbl : List (Entry C)) (i : Input P) (s : Nat) :
    forward ev tbl i = .session s ↔
      (∃ dst pkt, i = .v4 dst false pkt ∧ route (fun c => ev c pkt) tbl ⟨.v4, dst⟩ = some s) ∨
      (∃ dst pkt, i = .v6 dst pkt ∧ route (fun c => ev c pkt) tbl ⟨.v6, dst⟩ = some s) :=
  Proofs.GwRouting.forward_spec ev tbl i s

/-- IPv4 fragments are never forwarded -/
theorem forward_fragment (ev : C → P → Bool) (tbl : List (Entry C)) (dst : Nat) (pkt : P) :
    forward ev tbl (.v4 dst true pkt) = .fragment := rfl

/-! ## Routing policy -/

/-- rule `r` is decisive for the query: it has an accept or reject action, its ISD-AS matchers
match the pair and its network contains the address -/
def Decisive (src dst : IA) (a : Addr) (r : Rule) : Bool :=
  (r.action == .accept || r.action == .reject) &&
    r.src.matches src && r.dst.matches dst && r.network.mem a

/-- the verdict of the FIRST decisive rule, if there is one -/
def firstDecision (src dst : IA) (a : Addr) : List Rule → Option Bool
  | [] => none
  | r :: rs =>
    if Decisive src dst a r then some (r.action == .accept) else firstDecision src dst a rs

/-- **Policy clause of C42.**  The right-to-left add/remove construction of `Policy.Match`
accepts exactly the addresses of the query prefix for which the first decisive rule accepts —
or, if no rule is decisive, the default action is accept. -/
theorem policy_match_first_rule (p : Policy) (src dst : IA) (q : Prefix) (a : Addr) :
    p.matchMem src dst q a =
      (q.contains a &&
        match firstDecision src dst a p.rules with
        | some b => b
        | none => p.dflt == .accept) := by
  unfold Policy.matchMem
  rw [Bool.and_comm]
  congr 1
  generalize p.rules = rs
  induction rs with
  | nil => rfl
  | cons r rs ih =>
    simp only [List.foldr_cons, firstDecision, applyRule, Decisive]
    rw [ih]
    obtain ⟨act, s, d, n⟩ := r
    generalize firstDecision src dst a rs = fd
    by_cases h1 : s.matches src = true <;> by_cases h2 : d.matches dst = true <;>
      by_cases h3 : n.mem a = true <;> cases act <;> cases fd <;> simp [h1, h2, h3]

/-- positional reading of `firstDecision`: rule number `pre.length` is decisive and no earlier
one is -/
theorem firstDecision_some_iff (src dst : IA) (a : Addr) (rs : List Rule) (b : Bool) :
    firstDecision src dst a rs = some b ↔
      ∃ pre r post, rs = pre ++ r :: post ∧ (∀ x ∈ pre, Decisive src dst a x = false) ∧
        Decisive src dst a r = true ∧ b = (r.action == .accept) := by
  have h : ∀ rs, firstDecision src dst a rs =
      Proofs.GwRouting.firstOf (Decisive src dst a) (fun r => r.action == .accept) rs := by
    intro rs
    induction rs with
    | nil => rfl
    | cons r rs ih => simp only [firstDecision, Proofs.GwRouting.firstOf, ih]
  rw [h]
  exact Proofs.GwRouting.firstOf_some_iff _ _ rs b

theorem firstDecision_none_iff (src dst : IA) (a : Addr) (rs : List Rule) :
    firstDecision src dst a rs = none ↔ ∀ x ∈ rs, Decisive src dst a x = false := by
  induction rs with
  | nil => simp [firstDecision]
  | cons r rs ih =>
    simp only [firstDecision, List.mem_cons, forall_eq_or_imp]
    cases h : Decisive src dst a r <;> simp [ih]

/-- `AdvertiseList` returns, in rule order, the networks of the non-negated advertise rules whose
matchers match the ISD-AS pair — and nothing else -/
theorem advertise_spec (p : Policy) (src dst : IA) (x : Prefix) :
    x ∈ advertiseList p src dst ↔
      ∃ r ∈ p.rules, r.action = .advertise ∧ r.src.matches src = true ∧
        r.dst.matches dst = true ∧ r.network.negated = false ∧ x ∈ r.network.allowed := by
  unfold advertiseList
  simp only [List.mem_flatMap]
  constructor
  · rintro ⟨r, hr, hx⟩
    refine ⟨r, hr, ?_⟩
    cases h1 : r.src.matches src <;> cases h2 : r.dst.matches dst <;>
      cases h3 : r.network.negated <;> cases h4 : r.action <;> simp_all
  · rintro ⟨r, hr, h1, h2, h3, h4, hx⟩
    exact ⟨r, hr, by simp [h1, h2, h3, h4, hx]⟩

/-- the zero ISD-AS is a wildcard -/
theorem wildcard_matches_all (ia : IA) : (IAMatcher.single ⟨0, 0⟩).matches ia = true := by
  simp [IAMatcher.matches]

/-! ## Text form -/

section Text
open Scion.GwPolicyText Scion.Proofs.GwPolicyText

/-- **Text clause of C42.**  For every policy the text form can express (`ruleOK`: atoms are
words, a flag for the negation, non-empty network lists, a next hop only on advertise rules,
single-line comments without leading/trailing blank — the generator-guarded class of DESIGN §7a)
`UnmarshalText (MarshalText p)` yields exactly the rules of `p`: action, both ISD-AS matchers,
the network list with its negation, next hop and comment — hence the same decisions and the same
advertised prefixes (which depend on action, matchers and networks only).  The line format
(tabwriter column alignment with padding 4, `# comment`, trailing blanks stripped; `bytes.Fields`,
first `#`, `!`, `,`) is modelled; the atoms' own codecs (`addr.IA`, `netip.Prefix`, `net.IP`) are
opaque words and tied by T1, where the real `MarshalText` output is compared with `marshal`
byte for byte. -/
theorem policy_text_roundtrip (rs : List TRule) (h : ∀ r ∈ rs, ruleOK r = true) :
    unmarshal (marshal rs) = some rs :=
  unmarshal_marshal rs h

/-- every printed line has the five columns in order, whatever the column widths -/
theorem policy_line_roundtrip (w : Nat → Nat) (r : TRule) (h : ruleOK r = true)
    (hw : WidthsOK w r) : parseRule (trimRight (printLine w r)) = some r :=
  (parseRule_printLine w r (ruleFacts r h) hw).1

private def tr1 : TRule :=
  ⟨.accept, false, "1-ff00:0:110".toList, true, "0-0".toList, true,
    ["10.0.0.0/8".toList, "::/0".toList], [], "hello # x".toList⟩
private def tr2 : TRule :=
  ⟨.advertise, false, "0-0".toList, false, "2-0".toList, false, ["1.2.3.4/32".toList],
    "10.0.0.1".toList, []⟩

example : ruleOK tr1 = true ∧ ruleOK tr2 = true := by decide
example : unmarshal (marshal [tr1, tr2]) = some [tr1, tr2] :=
  policy_text_roundtrip _ (by decide)

end Text

/-- facts regenerated from the source: the numbering of `routing.Action` used by the harness
and the gateway constants -/
theorem gen_consts :
    Scion.Gen.Gateway.UnknownAction = 0 ∧ Scion.Gen.Gateway.Accept = 1 ∧
    Scion.Gen.Gateway.Reject = 2 ∧ Scion.Gen.Gateway.Advertise = 3 ∧
    Scion.Gen.Gateway.RedistributeBGP = 4 := by decide

/-- the source facts the model relies on: `Policy.Match` walks the rules from the last to the
first and `RoutingTable.route` skips an entry only when its mask is strictly shorter -/
theorem gen_syntax :
    Scion.Gen.Gateway.policyMatchLoop = "for i := len(p.Rules) - 1; i >= 0; i--" ∧
    Scion.Gen.Gateway.routeSkipCond = "m < highestMask" := by decide

/-! ## Non-vacuity -/

private def p8 : Prefix := ⟨.v4, 0x0a000000, 8⟩
private def p16 : Prefix := ⟨.v4, 0x0a010000, 16⟩
private def tbl : List (Entry Bool) :=
  [⟨p16, [⟨false, some 1⟩, ⟨true, some 2⟩]⟩, ⟨p8, [⟨true, some 3⟩]⟩]

example : route id tbl ⟨.v4, 0x0a010203⟩ = some 2 := by decide
example : route id tbl ⟨.v4, 0x0a020203⟩ = some 3 := by decide
example : route id tbl ⟨.v4, 0x0b020203⟩ = none := by decide
example : MostSpecific tbl ⟨.v4, 0x0a010203⟩ ⟨p16, [⟨false, some 1⟩, ⟨true, some 2⟩]⟩ := by
  refine ⟨by simp [tbl], by decide, ?_⟩
  intro e he _
  simp [tbl] at he
  rcases he with rfl | rfl <;> decide

private def pol : Policy :=
  { rules := [⟨.reject, .single ⟨1, 0⟩, .neg (.single ⟨2, 5⟩), ⟨[p16], false⟩⟩,
              ⟨.accept, .single ⟨0, 0⟩, .single ⟨0, 0⟩, ⟨[p8], false⟩⟩],
    dflt := .reject }

example : pol.matchMem ⟨1, 7⟩ ⟨2, 6⟩ ⟨.v4, 0, 0⟩ ⟨.v4, 0x0a010203⟩ = false := by decide
example : pol.matchMem ⟨1, 7⟩ ⟨2, 5⟩ ⟨.v4, 0, 0⟩ ⟨.v4, 0x0a010203⟩ = true := by decide
example : firstDecision ⟨1, 7⟩ ⟨2, 6⟩ ⟨.v4, 0x0a010203⟩ pol.rules = some false := by decide

end Scion.C42
