import Scion.Model.Plumb
import Scion.Gen.Plumb
/-!
# C17 — configured socket buffer sizes reach the matching socket option

*Statement.* For every router configuration, the configured receive buffer size is requested as
the receive buffer and the configured send buffer size as the send buffer of every underlay
socket the router opens (internal, sibling and external links).

Two layers:

* `Scion.Plumb` is the hand-written model (tied to the running code by engine `rcfg`: a spy
  `ConnOpener` records the `conn.Config` of every socket of every link kind for all three
  provider-factory call sites and for the real start-up path);
* `Scion.Gen.Plumb` is **regenerated from the Go AST on every run**: the `RunConfig` literal of
  `NewConnector`, the positional arguments of each provider-factory call in `dataplane.go`, the
  parameter list and struct literal of `udpip.newProvider`, the `conn.Config` literal at each
  `connOpener.Open` call and the `Set{Read,Write}Buffer` calls of `initConnUDP`.  The theorems
  `gen_*` below are statements about *that* text, so a reordering anywhere along the chain makes
  the kernel reject them.
-/
namespace Scion.C17

/-! ### the model -/
section Model
open Scion.Plumb

/-- every socket, whichever factory call site created its provider and whichever `Open` call
created it, is opened with exactly the configured sizes, each in its own field -/
theorem plumb_correct (s : Site) (o : OpenSite) (rc : RunConfig) :
    (plumb s o rc).receiveBufferSize = rc.rcv ∧ (plumb s o rc).sendBufferSize = rc.snd := by
  cases s <;> cases o <;> exact ⟨rfl, rfl⟩

/-- and the kernel is asked for them under the matching option (a size of 0 leaves the system
default untouched, as documented for the configuration keys) -/
theorem sockopts_correct (s : Site) (o : OpenSite) (rc : RunConfig) :
    (sockOpts (plumb s o rc)).soRcvBuf = (if rc.rcv ≠ 0 then some rc.rcv else none) ∧
    (sockOpts (plumb s o rc)).soSndBuf = (if rc.snd ≠ 0 then some rc.snd else none) := by
  cases s <;> cases o <;> exact ⟨rfl, rfl⟩

/-- the batch size does not leak into either buffer size -/
theorem plumb_ignores_batch (s : Site) (o : OpenSite) (rc : RunConfig) (b : Int) :
    plumb s o { rc with batch := b } = plumb s o rc := by
  cases s <;> cases o <;> rfl

end Model

/-! ### the same, about the text of the source (T3) -/

namespace Gen
open Scion.Gen.Plumb

/-- apply the factory to the positional arguments of a call site -/
def applyFactory : List Int → Option Provider
  | [a, b, c] => some (newProvider a b c)
  | _ => none

/-- the chain from the router configuration to the two socket options, through call site `site`
and `Open` call `open_` -/
def effective (site : RunConfig → List Int) (open_ : Provider → ConnConfig) (config : RouterConfig) :
    Option (Option Int × Option Int) :=
  (applyFactory (site (newConnectorRunConfig config))).map
    (fun u => (soRcvBuf (open_ u), soSndBuf (open_ u)))

/-- what C17 demands of it -/
def Spec (config : RouterConfig) : Option (Option Int × Option Int) :=
  some (if config.ReceiveBufferSize ≠ 0 then some config.ReceiveBufferSize else none,
        if config.SendBufferSize ≠ 0 then some config.SendBufferSize else none)

end Gen

open Scion.Gen.Plumb in
/-- **T3.** For every provider-factory call site and every `Open` call found in the current
source, the configured receive size is what `SetReadBuffer` gets and the configured send size is
what `SetWriteBuffer` gets. -/
theorem gen_plumb_correct (config : RouterConfig) :
    ∀ site ∈ sites, ∀ o ∈ opens, Gen.effective site o config = Gen.Spec config := by
  intro site hs o ho
  simp only [sites, opens, List.mem_cons, List.not_mem_nil, or_false] at hs ho
  rcases hs with rfl | rfl | rfl <;> rcases ho with rfl | rfl <;>
    (simp only [Gen.effective, Gen.Spec, Gen.applyFactory, Option.map, soRcvBuf, soSndBuf, requested,
      site0_makeDataPlane, site1_AddExternalInterface, site2_AddNextHop, open_newConnectedLink,
      open_NewInternalLink, newProvider, newConnectorRunConfig]
     by_cases hr : config.ReceiveBufferSize = 0 <;> by_cases hs : config.SendBufferSize = 0 <;>
       simp [hr, hs])

/-- the direction of a buffer-size socket option -/
def optIsReceive : String → Option Bool
  | "SO_RCVBUF" => some true
  | "SO_RCVBUFFORCE" => some true
  | "SO_SNDBUF" => some false
  | "SO_SNDBUFFORCE" => some false
  | _ => none

open Scion.Gen.Plumb in
/-- **T3.** Every call of `initConnUDP` that sets a buffer-size option (plain, forced, retried …)
sets a *receive* option from `cfg.ReceiveBufferSize` inside the `cfg.ReceiveBufferSize != 0`
block, or a *send* option from `cfg.SendBufferSize` inside the `cfg.SendBufferSize != 0` block;
and both directions are set at least once. -/
theorem gen_sockopt_calls :
    bufSetCalls.all (fun (g, _, opt, field) =>
      g == field &&
      (optIsReceive opt == some (field == "ReceiveBufferSize")) &&
      (field == "ReceiveBufferSize" || field == "SendBufferSize")) = true ∧
    bufSetCalls.any (fun (_, _, opt, _) => optIsReceive opt == some true) = true ∧
    bufSetCalls.any (fun (_, _, opt, _) => optIsReceive opt == some false) = true := by
  decide

open Scion.Gen.Plumb in
/-- **T3.** The shape the model was written against: three call sites (construction, external
interface, next hop), two `Open` calls, the factory is what `udpip` registers, and the default
opener hands the configuration on untouched. -/
theorem gen_shape :
    siteNames = ["makeDataPlane", "AddExternalInterface", "AddNextHop"] ∧
    openNames = ["newConnectedLink", "NewInternalLink"] ∧
    newProviderParams = ["batchSize", "receiveBufferSize", "sendBufferSize"] ∧
    registrations = [["router.AddUnderlay", "\"udpip\"", "newProvider"]] ∧
    defaultOpenerParams = ["l", "r", "c"] ∧
    defaultOpenerCalls = [["conn.New", "l", "r", "c"]] := by
  decide

open Scion.Gen.Plumb in
/-- **T3 ↔ model.** The generated chain and the hand-written model agree on every configuration
(so the T1 tie of the model is a tie of the generated text as well). -/
theorem gen_eq_model (config : RouterConfig) (s : Plumb.Site) (o : Plumb.OpenSite) :
    ∀ site ∈ sites, ∀ op ∈ opens,
      Gen.effective site op config =
        some ((Plumb.sockOpts (Plumb.plumb s o ⟨config.BatchSize, config.ReceiveBufferSize,
                  config.SendBufferSize⟩)).soRcvBuf,
              (Plumb.sockOpts (Plumb.plumb s o ⟨config.BatchSize, config.ReceiveBufferSize,
                  config.SendBufferSize⟩)).soSndBuf) := by
  intro site hs op ho
  simp only [sites, opens, List.mem_cons, List.not_mem_nil, or_false] at hs ho
  rcases hs with rfl | rfl | rfl <;> rcases ho with rfl | rfl <;> cases s <;> cases o <;>
    (simp only [Gen.effective, Gen.applyFactory, Option.map, soRcvBuf, soSndBuf, requested,
      site0_makeDataPlane, site1_AddExternalInterface, site2_AddNextHop, open_newConnectedLink,
      open_NewInternalLink, newProvider, newConnectorRunConfig, Plumb.sockOpts, Plumb.plumb,
      Plumb.siteArgs, Plumb.openConfig, Plumb.newProvider]
     by_cases hr : config.ReceiveBufferSize = 0 <;> by_cases hs : config.SendBufferSize = 0 <;>
       simp [hr, hs])

/-! ### non-vacuity -/

/-- distinct sizes tell the two fields apart (`ConnConfig` lists send first): receive 1111 and
send 2222 arrive as receive 1111 and send 2222 -/
example : (Plumb.plumb .addNextHop .connectedLink ⟨64, 1111, 2222⟩) = ⟨2222, 1111⟩ := rfl

example : Gen.effective Scion.Gen.Plumb.site0_makeDataPlane Scion.Gen.Plumb.open_NewInternalLink
    ⟨1, 1, 64, 1111, 0⟩ = some (some 1111, none) := by decide

end Scion.C17
