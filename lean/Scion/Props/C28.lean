import Scion.Proofs.CombGraph
import Scion.Gen.Comb
/-!
# C28 — Combined paths are well-formed and their metadata is accurate

Property theorems only, about `Scion.Model.Combinator` (`pathOf` = `pathSolution.Path`,
`filterLongPaths`, `filterDuplicates`, `allJoins`/`getPaths` = the solutions).  The model is tied
to `private/path/combinator` by `harness/cmd/comb`: real `Combine` on random topologies and
perturbed segment sets, compared path by path (segment lengths, info and hop fields, interface
metadata, MTU, expiry, weight order) with `combineSpec`.
-/
namespace Scion.C28
open Scion.Combinator

/-! ### at most one up, one core, one down segment, in that order -/

/-- every join of the specification uses one of the seven admissible kind sequences -/
theorem joins_kind_order {ups cores downs : List Seg} {src dst : Nat} {es : List Edge}
    (h : es ∈ allJoins ups cores downs src dst) : es.map (·.kind) ∈ kindShapes :=
  allJoins_kinds h

/-! ### segment lengths, info fields and hop fields -/

/-- `pathOf` yields one output segment per edge (at most three), each the `edgeOut` of its edge -/
theorem segs_of_edges {es : List Edge} {p : Path} (h : pathOf es = .ok p) :
    p.segs.length ≤ 3 ∧ Rel2 (fun e s => ∃ a b, edgeOut a e = .ok (s, b)) es p.segs := by
  unfold pathOf at h
  split at h
  · cases h
  · next segs mtu hl =>
    split at h
    · cases h
    · next hlen => cases h; exact ⟨by simpa using hlen, pathLoop_forall2 hl⟩

/-- the segment lengths written into the path header are the hop counts of the segments and add
up to the number of hop fields -/
theorem segLens_consistent (p : Path) :
    p.segLens.sum = p.hopFields.length ∧ p.segLens.length = p.infos.length := by
  unfold Path.segLens Path.hopFields Path.infos
  refine ⟨?_, by simp⟩
  generalize p.segs = l
  induction l with
  | nil => rfl
  | cons s ss ih =>
    simp only [List.map_cons, List.sum_cons, List.flatMap_cons, List.length_append, ih]

/-- the hop fields of an output segment are copies of the input segment's hop fields from the
shortcut index to the end (the peer entry's hop field at a peering shortcut), in construction order
for a down segment and reversed for up and core segments -/
theorem hops_are_copies {mtu : Nat} {e : Edge} {s : SegOut} {m : Nat}
    (h : edgeOut mtu e = .ok (s, m)) :
    consHops e.seg.ents e.sc e.peer =
      some (if e.kind = .down then s.hops else s.hops.reverse) :=
  edgeOut_hops h

/-- the info field: the segment's timestamp, `ConsDir` exactly for down segments, `Peer` exactly
when a peer entry is used, `SegID` the accumulator value of `calculateBeta` -/
theorem info_is_copy {mtu : Nat} {e : Edge} {s : SegOut} {m : Nat}
    (h : edgeOut mtu e = .ok (s, m)) :
    s.info.ts = e.seg.ts ∧ (s.info.consDir = true ↔ e.kind = .down) ∧
      (s.info.peer = true ↔ e.peer ≠ 0) ∧ s.info.segId = calculateBeta e := by
  rw [edgeOut_info h]
  cases e.kind <;> simp

/-- number of hop fields of a segment = number of AS entries from the shortcut index on -/
theorem segLen_eq {mtu : Nat} {e : Edge} {s : SegOut} {m : Nat}
    (h : edgeOut mtu e = .ok (s, m)) : s.hops.length = e.seg.ents.length - e.sc := by
  have h1 := edgeOut_hops h
  unfold consHops at h1
  split at h1
  · next hd =>
    have : e.seg.ents.length - e.sc = 0 := by
      have := congrArg List.length hd; simpa using this
    split at h1 <;> simp at h1 <;> simp [← h1, this]
  · next hh tl hd =>
    have hl : e.seg.ents.length - e.sc = tl.length + 1 := by
      have := congrArg List.length hd; simpa using this
    cases hx : headHop hh e.peer with
    | none => simp [hx] at h1
    | some x =>
      simp only [hx, Option.map_some, Option.some.injEq] at h1
      have := congrArg List.length h1
      split at this <;> simp at this <;> omega

/-! ### interface metadata -/

/-- the interfaces listed for a segment are exactly the non-zero interfaces of its hop fields in
traversal order (ingress, egress per hop in construction direction; the whole list reversed for
up and core segments), minus the unused ingress of a non-peer shortcut entry -/
theorem interfaces_of_segment {mtu : Nat} {e : Edge} {s : SegOut} {m : Nat}
    (h : edgeOut mtu e = .ok (s, m)) :
    consIfaces e.seg.ents e.sc e.peer =
      some (if e.kind = .down then s.intfs else s.intfs.reverse) :=
  edgeOut_intfs h

/-- the metadata interface list is the concatenation over the segments in path order -/
theorem interfaces_concat {es : List Edge} {p : Path} (h : pathOf es = .ok p) :
    p.intfs = p.segs.flatMap (·.intfs) := by
  unfold pathOf at h
  split at h
  · cases h
  · split at h <;> cases h; rfl

/-! ### MTU and expiry -/

/-- the MTU is a lower bound of every AS-internal MTU, announced ingress-link MTU and peering-link
MTU along the traversed part (`allMtuTerms`) … -/
theorem mtu_le {es : List Edge} {p : Path} (h : pathOf es = .ok p) :
    p.mtu ≤ 65535 ∧ ∀ t ∈ allMtuTerms es, p.mtu ≤ t := by
  unfold pathOf at h
  split at h
  · cases h
  · next segs mtu hl =>
    split at h
    · cases h
    · cases h
      dsimp only
      rw [pathLoop_mtu hl]
      exact ⟨foldl_min_le_init _ _, fun t ht => foldl_min_le_mem _ _ _ ht⟩

/-- … and is one of them (or the initial 65535): it is their minimum -/
theorem mtu_attained {es : List Edge} {p : Path} (h : pathOf es = .ok p) :
    p.mtu = 65535 ∨ p.mtu ∈ allMtuTerms es := by
  unfold pathOf at h
  split at h
  · cases h
  · next segs mtu hl =>
    split at h
    · cases h
    · cases h
      dsimp only
      rw [pathLoop_mtu hl]
      exact foldl_min_mem _ _

/-- expiry of one hop field of an output segment, in ms -/
def hopExpiry (s : SegOut) (hf : HopF) : Nat := s.info.ts * 1000 + expToMs hf.exp

/-- the reported expiry is not later than the expiry of any hop field on the path … -/
theorem expiry_le {es : List Edge} {p : Path} (h : pathOf es = .ok p) :
    ∀ s ∈ p.segs, ∀ hf ∈ s.hops, p.expiry ≤ hopExpiry s hf := by
  intro s hs hf hhf
  have he : p.expiry = computeExpTime p.segs := by
    unfold pathOf at h
    split at h
    · cases h
    · split at h <;> cases h; rfl
  rw [he, computeExpTime_eq]
  refine Nat.le_trans (foldl_min_le_mem _ _ (segExpiry s) (List.mem_map.2 ⟨s, hs, rfl⟩)) ?_
  unfold segExpiry hopExpiry
  rw [hopsTTL_eq]
  exact Nat.add_le_add_left (foldl_min_le_mem _ _ _ (List.mem_map.2 ⟨hf, hhf, rfl⟩)) _

/-- well-formed field ranges: `ExpTime` is a uint8, the timestamp a uint32 -/
def FieldsInRange (p : Path) : Prop :=
  ∀ s ∈ p.segs, s.info.ts ≤ 4294967295 ∧ s.hops ≠ [] ∧ ∀ hf ∈ s.hops, hf.exp ≤ 255

/-- … and it is the expiry of one of them: the earliest hop-field expiry -/
theorem expiry_attained {es : List Edge} {p : Path} (h : pathOf es = .ok p) (hne : p.segs ≠ [])
    (hr : FieldsInRange p) : ∃ s ∈ p.segs, ∃ hf ∈ s.hops, p.expiry = hopExpiry s hf := by
  have he : p.expiry = computeExpTime p.segs := by
    unfold pathOf at h
    split at h
    · cases h
    · split at h <;> cases h; rfl
  -- per segment: the segment expiry is the expiry of one of its hops and below the global bound
  have hseg : ∀ s ∈ p.segs, (∃ hf ∈ s.hops, segExpiry s = hopExpiry s hf) ∧
      segExpiry s ≤ maxExpiration := by
    intro s hs
    obtain ⟨hts, hnh, hexp⟩ := hr s hs
    have hm := foldl_min_mem (s.hops.map fun h => expToMs h.exp) maxTTL
    have hle : hopsTTL s.hops ≤ maxTTL := by rw [hopsTTL_eq]; exact foldl_min_le_init _ _
    rw [← hopsTTL_eq] at hm
    have hone : ∃ hf ∈ s.hops, hopsTTL s.hops = expToMs hf.exp := by
      rcases hm with hm | hm
      · -- the initial value: then every hop has the maximal TTL; take the first
        cases hh : s.hops with
        | nil => exact absurd hh hnh
        | cons h0 t =>
          refine ⟨h0, List.mem_cons_self, ?_⟩
          have h1 : hopsTTL s.hops ≤ expToMs h0.exp := by
            rw [hopsTTL_eq]
            exact foldl_min_le_mem _ _ _ (List.mem_map.2 ⟨h0, by simp [hh], rfl⟩)
          have h2 : h0.exp ≤ 255 := hexp h0 (by simp [hh])
          rw [← hh]
          unfold expToMs maxTTL at *
          omega
      · obtain ⟨hf, hhf, heq⟩ := List.mem_map.1 hm
        exact ⟨hf, hhf, heq.symm⟩
    obtain ⟨hf, hhf, heq⟩ := hone
    refine ⟨⟨hf, hhf, by unfold segExpiry hopExpiry; rw [heq]⟩, ?_⟩
    unfold segExpiry maxExpiration expToMs maxTTL at *
    omega
  rw [he, computeExpTime_eq]
  rcases foldl_min_mem (p.segs.map segExpiry) maxExpiration with hm | hm
  · cases hs : p.segs with
    | nil => exact absurd hs hne
    | cons s0 t =>
      have hs0 : s0 ∈ p.segs := by simp [hs]
      obtain ⟨⟨hf, hhf, heq⟩, hle⟩ := hseg s0 hs0
      refine ⟨s0, List.mem_cons_self, hf, hhf, ?_⟩
      have h1 := foldl_min_le_mem (p.segs.map segExpiry) maxExpiration (segExpiry s0)
        (List.mem_map.2 ⟨s0, hs0, rfl⟩)
      rw [← hs, ← heq]
      omega
  · obtain ⟨s, hs, heq⟩ := List.mem_map.1 hm
    obtain ⟨⟨hf, hhf, heq2⟩, _⟩ := hseg s hs
    exact ⟨s, hs, hf, hhf, by rw [← heq, heq2]⟩

/-! ### `filterLongPaths`: no AS more than twice -/

/-- "passes AS `ia` at most twice" as the code understands it: at most two interface entries -/
def AtMostTwice (p : Path) : Prop := ∀ ia, (p.intfs.map (·.ia)).count ia ≤ 2

theorem isLong_false_iff (p : Path) : isLong p.intfs = false ↔ AtMostTwice p := by
  unfold isLong AtMostTwice
  rw [List.any_eq_false]
  constructor
  · intro h ia
    by_cases hm : ia ∈ p.intfs.map (·.ia)
    · obtain ⟨i, hi, rfl⟩ := List.mem_map.1 hm
      have := h i hi
      simp at this
      exact this
    · rw [List.count_eq_zero_of_not_mem hm]; omega
  · intro h i _
    have := h i.ia
    simp
    exact this

/-- `filterLongPaths` keeps exactly the paths passing no AS more than twice … -/
theorem filterLong_mem (ps : List Path) (p : Path) :
    p ∈ filterLongPaths ps ↔ p ∈ ps ∧ AtMostTwice p := by
  unfold filterLongPaths
  rw [List.mem_filter, ← isLong_false_iff]
  cases isLong p.intfs <;> simp

/-- … in their original order -/
theorem filterLong_sublist (ps : List Path) : (filterLongPaths ps).Sublist ps :=
  List.filter_sublist

/-! ### `filterDuplicates`: one path per interface sequence, the latest expiry kept -/

/-- no two returned paths share an interface sequence -/
theorem dedup_unique (ps : List Path) :
    (filterDuplicates ps).Pairwise fun a b => a.intfs ≠ b.intfs :=
  filterDuplicates_unique ps

/-- every interface sequence of the input is still represented, by a path expiring no earlier -/
theorem dedup_covers (ps : List Path) (p : Path) (hp : p ∈ ps) :
    ∃ q ∈ filterDuplicates ps, q.intfs = p.intfs ∧ p.expiry ≤ q.expiry :=
  filterDuplicates_covers ps p hp

/-- the one kept has the latest expiry among the paths with its interface sequence -/
theorem dedup_latest (ps : List Path) (q : Path) (hq : q ∈ filterDuplicates ps)
    (p : Path) (hp : p ∈ ps) (hfp : p.intfs = q.intfs) : p.expiry ≤ q.expiry :=
  filterDuplicates_latest ps q hq p hp hfp

/-- the kept paths are input paths, in their original order -/
theorem dedup_sublist (ps : List Path) : (filterDuplicates ps).Sublist ps :=
  filterDuplicates_sublist ps

/-- unless identical paths are requested, no two paths returned by `Combine` share an interface
sequence -/
theorem combine_unique (ups cores downs : List Seg) (src dst : Nat) :
    (combineSpec ups cores downs src dst false).Pairwise fun a b => a.intfs ≠ b.intfs := by
  unfold combineSpec
  simp only [Bool.false_eq_true, if_false]
  exact filterDuplicates_unique _

/-- soundness of modelling the SHA-256 fingerprint by the interface list itself: the code's
`filterDuplicates`, keyed by any fingerprint function `fp` that is injective on the interface
lists of the paths at hand (no hash collision among them), returns exactly the model's result -/
theorem fingerprint_sound {F : Type} [DecidableEq F] (fp : List Iface → F) (ps : List Path)
    (hinj : ∀ p ∈ ps, ∀ q ∈ ps, fp p.intfs = fp q.intfs → p.intfs = q.intfs) :
    filterDuplicatesF fp ps = filterDuplicates ps :=
  filterDuplicatesF_eq fp ps hinj

/-! ### order of the result -/

/-- the result of `Combine` (either mode) is ordered by non-decreasing weight -/
theorem combine_sorted (ups cores downs : List Seg) (src dst : Nat) (all : Bool) :
    (combineSpec ups cores downs src dst all).Pairwise fun a b => a.weight ≤ b.weight := by
  unfold combineSpec
  dsimp only
  have h1 := (sortByWeight_sorted (pathsOf (allJoins ups cores downs src dst))).sublist
    (filterLong_sublist _)
  split
  · exact h1
  · exact h1.sublist (filterDuplicates_sublist _)

/-- every returned path passes no AS more than twice and is the `pathOf` of a join -/
theorem combine_mem (ups cores downs : List Seg) (src dst : Nat) (all : Bool) (p : Path)
    (h : p ∈ combineSpec ups cores downs src dst all) :
    AtMostTwice p ∧ ∃ es ∈ allJoins ups cores downs src dst, pathOf es = .ok p := by
  unfold combineSpec at h
  dsimp only at h
  have h2 : p ∈ filterLongPaths (sortByWeight (pathsOf (allJoins ups cores downs src dst))) := by
    split at h
    · exact h
    · exact (filterDuplicates_sublist _).subset h
  rw [filterLong_mem] at h2
  refine ⟨h2.2, ?_⟩
  have h3 := (sortByWeight_perm _).mem_iff.1 h2.1
  unfold pathsOf at h3
  rw [List.mem_filterMap] at h3
  obtain ⟨es, hes, hp⟩ := h3
  refine ⟨es, hes, ?_⟩
  split at hp
  · next q hq => cases hp; exact hq
  · cases hp

/-! ### the same for `Combine` over the model of the multigraph search of graph.go -/

/-- every path returned by the graph version passes no AS more than twice and is the `Path` of a
join of the specification (in particular: at most one up, one core, one down segment in order) -/
theorem combineDMG_mem (ups cores downs : List Seg) (src dst : Nat) (all : Bool) (ps : List Path)
    (p : Path) (hc : combineDMG ups cores downs src dst all = some ps) (h : p ∈ ps) :
    AtMostTwice p ∧ ∃ es ∈ allJoins ups cores downs src dst,
      pathOf es = .ok p ∧ es.map (·.kind) ∈ kindShapes := by
  unfold combineDMG at hc
  split at hc
  · cases hc
  · next g hg =>
    simp only [Option.some.injEq] at hc
    subst hc
    have h2 : p ∈ filterLongPaths (sortByWeight (pathsOf (getPaths g src dst))) := by
      split at h
      · exact h
      · exact (filterDuplicates_sublist _).subset h
    rw [filterLong_mem] at h2
    refine ⟨h2.2, ?_⟩
    have h3 := (sortByWeight_perm _).mem_iff.1 h2.1
    unfold pathsOf at h3
    rw [List.mem_filterMap] at h3
    obtain ⟨es, hes, hp⟩ := h3
    have hj : es ∈ allJoins ups cores downs src dst := by
      obtain ⟨c, hch, rfl⟩ := getPaths_iff_chain.1 hes
      exact (Scion.Combinator.allJoins_iff ..).2
        (chain_to_join (fun x hx => dmg_sound hg hx) hch).isJoin
    refine ⟨es, hj, ?_, allJoins_kinds hj⟩
    split at hp
    · next q hq => cases hp; exact hq
    · cases hp

/-- … ordered by non-decreasing weight, and without two paths of the same interface sequence
unless identical paths are requested -/
theorem combineDMG_sorted_unique (ups cores downs : List Seg) (src dst : Nat) (all : Bool)
    (ps : List Path) (hc : combineDMG ups cores downs src dst all = some ps) :
    ps.Pairwise (fun a b => a.weight ≤ b.weight) ∧
      (all = false → ps.Pairwise fun a b => a.intfs ≠ b.intfs) := by
  unfold combineDMG at hc
  split at hc
  · cases hc
  · next g hg =>
    simp only [Option.some.injEq] at hc
    subst hc
    have h1 := (sortByWeight_sorted (pathsOf (getPaths g src dst))).sublist (filterLong_sublist _)
    cases all with
    | true => exact ⟨by simpa using h1, by simp⟩
    | false =>
      simp only [Bool.false_eq_true, if_false]
      exact ⟨h1.sublist (filterDuplicates_sublist _), fun _ => filterDuplicates_unique _⟩

/-! ### facts regenerated from the source (T3) -/

def kindName : Kind → String
  | .up => "up" | .core => "core" | .down => "down"

/-- the model's `validNextSeg` is the table read off the `switch` in graph.go -/
theorem gen_validNext (a b : Kind) :
    validNextSeg (some a) b = ((Scion.Gen.Comb.validNext.lookup (kindName a)).getD []).contains (kindName b)
    ∧ validNextSeg none b = true ∧ Scion.Gen.Comb.firstSegAny = "true" := by
  cases a <;> cases b <;> decide

/-- the bound of `filterLongPaths` in combinator.go is the model's: more than two entries -/
theorem gen_long_bound (intfs : List Iface) :
    Scion.Gen.Comb.longOp = ">" ∧
    isLong intfs = intfs.any fun i => decide ((intfs.map (·.ia)).count i.ia > Scion.Gen.Comb.longBound) := by
  exact ⟨by decide, rfl⟩

/-! ### non-vacuity: a two-level topology with a shortcut and a peering link

core `1` —(1:1)— `2` —(2:1)— `3` and `2` —(3:1)— `4`; peering link `3`#9 — `4`#8.
Up segment 1→2→3, down segment 1→2→4: joined at the core, by the shortcut at `2`, and over the
peering link. -/
def exUp : Seg := ⟨100, 7, [⟨1, ⟨0, 1, 63, 2 ^ 32⟩, 0, 1500, []⟩, ⟨2, ⟨1, 2, 63, 2 ^ 33⟩, 1400, 1500, []⟩,
  ⟨3, ⟨1, 0, 10, 5⟩, 1300, 1500, [⟨⟨9, 0, 63, 6⟩, 4, 8, 1200⟩]⟩]⟩
def exDown : Seg := ⟨200, 9, [⟨1, ⟨0, 1, 63, 1⟩, 0, 1500, []⟩, ⟨2, ⟨1, 3, 63, 2⟩, 1400, 1500, []⟩,
  ⟨4, ⟨1, 0, 63, 3⟩, 1350, 1500, [⟨⟨8, 0, 20, 4⟩, 3, 9, 1200⟩]⟩]⟩

example : (allJoins [exUp] [] [exDown] 3 4).map (fun es => es.map fun e => (e.kind, e.sc, e.peer)) =
    [[(.up, 0, 0), (.down, 0, 0)], [(.up, 1, 0), (.down, 1, 0)], [(.up, 2, 1), (.down, 2, 1)]] := by
  decide

/-- the shortcut path: segment lengths 2+2, interfaces without the unused ingress of AS 2, MTU
the minimum over the two traversed links and the AS MTUs, expiry of hop (ts 100, exp 10) -/
example : (pathOf [⟨exUp, .up, 1, 0⟩, ⟨exDown, .down, 1, 0⟩]).toOption =
    some ⟨[⟨⟨100, 7 ^^^ 1 ^^^ 2, false, false⟩, [⟨1, 0, 10, 5⟩, ⟨1, 2, 63, 2 ^ 33⟩], [⟨3, 1⟩, ⟨2, 2⟩]⟩,
          ⟨⟨200, 9, true, false⟩, [⟨1, 3, 63, 2⟩, ⟨1, 0, 63, 3⟩], [⟨2, 3⟩, ⟨4, 1⟩]⟩],
         [⟨3, 1⟩, ⟨2, 2⟩, ⟨2, 3⟩, ⟨4, 1⟩], 1300, 100 * 1000 + 11 * 337500, 2⟩ := by
  decide +kernel

/-- duplicates (the up segment supplied twice) are returned with `findAllIdentical` and removed
without; the join at the core passes AS 2 four times and is filtered in both modes -/
example : ((combineSpec [exUp, exUp] [] [exDown] 3 4 true).map (·.weight),
           (combineSpec [exUp, exUp] [] [exDown] 3 4 false).map (·.weight)) =
    ([1, 1, 2, 2], [1, 2]) := by
  decide

end Scion.C28
