import Scion.Model.SegID
import Scion.Proofs.SegID
/-!
# C22 — Segment-ID accumulator updates give every hop its construction-time value

Property theorems only.  The model (`Scion.Model.SegID`) is tied to `extractBeta` / `Extend`
(control/beaconing), `calculateBeta` (private/path/combinator) and `InfoField.UpdateSegID` by
`harness/cmd/segid`; the three router rules are tied by `harness/cmd/net` (real routers, per-AS
steps).  All statements are for **every** segment length (no bound 64), every entry/exit position
and arbitrary MAC prefixes σ.
-/
namespace Scion.C22
open Scion.SegID

/-- 16-bit values stay 16-bit: the `Nat` model of `uint16 ^ uint16` never leaves the range -/
theorem xor_closed (a b : Nat) (ha : a < 65536) (hb : b < 65536) : updateSegID a b < 65536 := by
  have : (65536 : Nat) = 2 ^ 16 := by decide
  rw [this] at *
  exact Nat.xor_lt_two_pow ha hb

theorem extractBeta_closed (s0 : Nat) (σ : List Nat) (h0 : s0 < 65536)
    (hσ : ∀ x ∈ σ, x < 65536) : extractBeta s0 σ < 65536 := by
  induction σ generalizing s0 with
  | nil => simpa [extractBeta] using h0
  | cons x xs ih =>
    have hx : x < 65536 := hσ x (by simp)
    have := ih (updateSegID s0 x) (xor_closed _ _ h0 hx) (fun y hy => hσ y (by simp [hy]))
    simpa [extractBeta] using this

/-- the extender gives the regular hop of the `i`-th AS the accumulator β_i and all of its peer
    entries β_{i+1} -/
theorem extender_betas (s0 : Nat) (σ : List Nat) (i : Nat) (h : i < σ.length) :
    hopBeta s0 (σ.take i) = beta s0 σ i ∧
    peerBeta s0 (σ.take i) σ[i] = beta s0 σ (i + 1) := by
  refine ⟨rfl, ?_⟩
  simp only [peerBeta, hopBeta, beta]
  rw [List.take_succ_eq_append_getElem h, extractBeta_append]
  simp [extractBeta]

/-- the accumulators are chained: β_{i+1} = β_i ⊕ σ_i -/
theorem beta_succ (s0 : Nat) (σ : List Nat) (i : Nat) (h : i < σ.length) :
    beta s0 σ (i + 1) = updateSegID (beta s0 σ i) σ[i] := by
  simp only [beta]
  rw [List.take_succ_eq_append_getElem h, extractBeta_append]
  simp [extractBeta]

/-- what path combination puts into the info field: down (construction direction) segments start
    with β_shortcut (β_{shortcut+1} when entering over a peering link), up/core segments with
    β_{n-1} (β_n when the source AS itself is the peering AS) -/
theorem calculateBeta_spec (down : Bool) (s : Nat) (peer : Bool) (s0 : Nat) (σ : List Nat)
    (hs : s < σ.length) :
    calculateBeta down s peer s0 σ =
      some (beta s0 σ (if down then (if peer then s + 1 else s)
                       else (if σ.length - 1 = s ∧ peer = true then σ.length
                             else σ.length - 1))) := by
  have hn : ¬ σ.length = 0 := by omega
  unfold calculateBeta betaIndex beta
  cases down <;> cases peer <;> simp [hn] <;> (try split) <;> (try simp) <;> omega

/-- **construction direction** (down segments, core segments used in construction direction):
    entering at AS `s` (`peer`: over its peering link, with the peer hop field of MAC prefix `pm`),
    the routers validate the hop fields of ASes `s, s+1, …, n-1` with exactly the accumulators the
    beaconing ASes used -/
theorem down_sync (s0 : Nat) (σ : List Nat) (s : Nat) (peer : Bool) (pm : Nat)
    (hs : s < σ.length) :
    ∃ b, calculateBeta true s peer s0 σ = some b ∧
      runHops true b (downCtx σ s peer pm) = expected s0 σ s peer := by
  refine ⟨_, calculateBeta_spec true s peer s0 σ hs, ?_⟩
  obtain ⟨pre, L, rfl, rfl⟩ : ∃ pre L, σ = pre ++ L ∧ s = pre.length :=
    ⟨σ.take s, σ.drop s, by simp, by simp; omega⟩
  cases L with
  | nil => simp at hs
  | cons x rest =>
    have hd : (pre ++ x :: rest).drop pre.length = x :: rest := by simp
    have hb : beta s0 (pre ++ x :: rest) pre.length = extractBeta s0 pre := by simp [beta]
    have hb1 : beta s0 (pre ++ x :: rest) (pre.length + 1) = updateSegID (extractBeta s0 pre) x := by
      have : (pre ++ x :: rest).take (pre.length + 1) = pre ++ [x] := by
        rw [take_len_add]; simp
      simp [beta, this, extractBeta]
    have hdrop1 : (betas s0 (pre ++ x :: rest)).drop (pre.length + 1)
        = betas (updateSegID (extractBeta s0 pre) x) rest := by
      have := betas_drop s0 (pre ++ [x]) rest
      simp only [List.append_assoc, List.singleton_append, List.length_append,
        List.length_singleton] at this
      rw [this, extractBeta_append]
      simp [extractBeta]
    cases peer with
    | false =>
      simp only [Bool.false_eq_true, if_false, if_true, downCtx, hd, expected, hb, runHops,
        ingressUpdate, egressUpdate]
      rw [betas_drop]
      simp only [betas, Bool.not_true, Bool.and_false, Bool.and_true, Bool.not_false]
      cases rest with
      | nil => simp [tailCtx, runHops, betas]
      | cons y r => simp [run_tailCtx]
    | true =>
      simp only [if_true, downCtx, hd, expected, hb1, runHops, ingressUpdate, egressUpdate, hs,
        hdrop1]
      simp [run_tailCtx]

/-- **against construction direction** (up segments, core segments): starting at the last AS
    `n-1` and leaving at AS `s` (`peer`: over its peering link), the routers validate the hop
    fields of ASes `n-1, …, s` with exactly the accumulators the beaconing ASes used -/
theorem up_sync (s0 : Nat) (σ : List Nat) (s : Nat) (peer : Bool) (pm : Nat)
    (hs : s < σ.length) :
    ∃ b, calculateBeta false s peer s0 σ = some b ∧
      runHops false b (upCtx σ s peer pm) = (expected s0 σ s peer).reverse := by
  refine ⟨_, calculateBeta_spec false s peer s0 σ hs, ?_⟩
  obtain ⟨pre, L, rfl, rfl⟩ : ∃ pre L, σ = pre ++ L ∧ s = pre.length :=
    ⟨σ.take s, σ.drop s, by simp, by simp; omega⟩
  cases L with
  | nil => simp at hs
  | cons x rest =>
    have hd : (pre ++ x :: rest).drop pre.length = x :: rest := by simp
    have hb1 : beta s0 (pre ++ x :: rest) (pre.length + 1) = updateSegID (extractBeta s0 pre) x := by
      have : (pre ++ x :: rest).take (pre.length + 1) = pre ++ [x] := by
        rw [take_len_add]; simp
      simp [beta, this, extractBeta]
    have hdrop1 : (betas s0 (pre ++ x :: rest)).drop (pre.length + 1)
        = betas (updateSegID (extractBeta s0 pre) x) rest := by
      have := betas_drop s0 (pre ++ [x]) rest
      simp only [List.append_assoc, List.singleton_append, List.length_append,
        List.length_singleton] at this
      rw [this, extractBeta_append]
      simp [extractBeta]
    have hexp : (expected s0 (pre ++ x :: rest) pre.length peer).reverse =
        (betas (updateSegID (extractBeta s0 pre) x) rest).reverse ++
          [if peer then updateSegID (extractBeta s0 pre) x else extractBeta s0 pre] := by
      cases peer with
      | false =>
        simp only [expected, Bool.false_eq_true, if_false]
        rw [betas_drop]; simp [betas]
      | true =>
        simp only [expected, if_true, hs, hb1, hdrop1]; simp
    rw [hexp]
    cases hr : rest.reverse with
    | nil =>
      have hrest : rest = [] := by simpa using hr
      subst hrest
      have htk : (pre ++ [x]).take pre.length = pre := by
        simpa using take_len_add pre [x] 0
      have htk1 : (pre ++ [x]).take (pre.length + 1) = pre ++ [x] :=
        List.take_of_length_le (by simp)
      cases peer <;>
        simp [upCtx, upBody, runHops, ingressUpdate, betas, beta, extractBeta, updateSegID, htk,
          htk1]
    | cons y r' =>
      have hrest : rest = r'.reverse ++ [y] := by
        have := congrArg List.reverse hr; simpa using this
      subst hrest
      -- the SegID put into the info field is β_{n-1}
      have hidx : ¬ ((pre ++ x :: (r'.reverse ++ [y])).length - 1 = pre.length ∧ peer = true) := by
        intro h; have h1 := h.1; simp at h1
      have hstart : beta s0 (pre ++ x :: (r'.reverse ++ [y]))
          ((pre ++ x :: (r'.reverse ++ [y])).length - 1)
          = updateSegID (extractBeta s0 pre) x ^^^ xorAll r'.reverse := by
        have h1 : (pre ++ x :: (r'.reverse ++ [y])).length - 1 = pre.length + (1 + r'.length) := by
          simp; omega
        have h2 : (pre ++ x :: (r'.reverse ++ [y])).take (pre.length + (1 + r'.length))
            = pre ++ x :: r'.reverse := by
          rw [take_len_add]
          have : (x :: (r'.reverse ++ [y])).take (1 + r'.length) = x :: r'.reverse := by
            rw [Nat.add_comm, List.take_succ_cons]
            have := List.take_left (l₁ := r'.reverse) (l₂ := [y])
            simp only [List.length_reverse] at this
            rw [this]
          rw [this]
        rw [h1, beta, h2]
        have : pre ++ x :: r'.reverse = pre ++ [x] ++ r'.reverse := by simp
        rw [this, extractBeta_append, extractBeta_append, extractBeta_eq _ r'.reverse]
        simp [extractBeta]
      simp only [Bool.false_eq_true, if_false, hidx, hstart]
      have hall := run_upBody_all (updateSegID (extractBeta s0 pre) x) (r'.reverse ++ [y])
      simp only [List.reverse_append, List.reverse_reverse, List.reverse_cons, List.reverse_nil,
        List.nil_append, List.singleton_append, upBody, runHops, ingressUpdate, egressUpdate,
        Bool.not_false, Bool.and_self, Bool.false_and, if_true, if_false, Bool.false_eq_true,
        xorAll_append, xorAll, Nat.xor_zero] at hall
      have hy : (updateSegID (extractBeta s0 pre) x ^^^ (xorAll r'.reverse ^^^ y)) ^^^ y
          = updateSegID (extractBeta s0 pre) x ^^^ xorAll r'.reverse := by
        rw [← Nat.xor_assoc, xor_cancel]
      simp only [updateSegID] at hall hy ⊢
      rw [hy] at hall
      simp only [upCtx, List.drop_left' rfl, hd, List.reverse_append, List.reverse_reverse,
        List.reverse_cons, List.reverse_nil, List.nil_append, List.singleton_append, upBody,
        List.cons_append, runHops, ingressUpdate, egressUpdate, Bool.not_true, Bool.and_false,
        Bool.false_and, if_false, Bool.false_eq_true, runHops_append, final_upBody_false,
        Bool.not_false, updateSegID]
      rw [← List.cons_append, hall]
      congr 1
      cases peer <;> simp [xorAll_reverse, xor_cancel, runHops, ingressUpdate, updateSegID]

/-- traversal of the entries `s … n-1` of a segment in either direction -/
def ctx (down : Bool) (σ : List Nat) (s : Nat) (peer : Bool) (pm : Nat) : List HopCtx :=
  if down then downCtx σ s peer pm else upCtx σ s peer pm

/-- **C22**, list form: for every segment (any length), direction, entry/exit AS `s`, with or
    without peering there, and arbitrary MAC prefixes: given the initial value `calculateBeta`
    puts into the info field, the SegID values the routers use for MAC validation are, hop for
    hop, the accumulators the beaconing ASes used when creating those hop fields. -/
theorem segid_sync (down : Bool) (s0 : Nat) (σ : List Nat) (s : Nat) (peer : Bool) (pm : Nat)
    (hs : s < σ.length) :
    ∃ b, calculateBeta down s peer s0 σ = some b ∧
      runHops down b (ctx down σ s peer pm) =
        (if down then expected s0 σ s peer else (expected s0 σ s peer).reverse) := by
  cases down with
  | true => simpa [ctx] using down_sync s0 σ s peer pm hs
  | false => simpa [ctx] using up_sync s0 σ s peer pm hs

theorem expected_length (s0 : Nat) (σ : List Nat) (s : Nat) (peer : Bool) (hs : s < σ.length) :
    (expected s0 σ s peer).length = σ.length - s := by
  cases peer <;> simp [expected, hs, betas_length] <;> omega

/-- the construction-time accumulator of the hop field of AS entry `j` as it appears on the path:
    β_j for a regular hop entry, β_{j+1} for a peer entry (only possible at `j = s`) -/
theorem expected_getElem? (s0 : Nat) (σ : List Nat) (s : Nat) (peer : Bool) (j : Nat)
    (hs : s ≤ j) (hj : j < σ.length) :
    (expected s0 σ s peer)[j - s]? =
      some (if peer = true ∧ j = s then beta s0 σ (j + 1) else beta s0 σ j) := by
  cases peer with
  | false =>
    simp only [expected, Bool.false_eq_true, if_false, false_and, List.getElem?_drop]
    rw [show s + (j - s) = j by omega]
    exact betas_getElem? s0 σ j hj
  | true =>
    have hs' : s < σ.length := by omega
    simp only [expected, if_true, hs', true_and]
    by_cases hjs : j = s
    · subst hjs; simp
    · obtain ⟨k, hk⟩ : ∃ k, j - s = k + 1 := ⟨j - s - 1, by omega⟩
      rw [hk, List.getElem?_cons_succ, List.getElem?_drop, show s + 1 + k = j by omega]
      simp only [hjs, if_false]
      exact betas_getElem? s0 σ j hj

/-- **C22**, pointwise form (construction direction): the `(j-s)`-th router on the traversed part
    validates AS entry `j` with the accumulator its creator used -/
theorem segid_sync_hop_down (s0 : Nat) (σ : List Nat) (s : Nat) (peer : Bool) (pm j : Nat)
    (hs : s ≤ j) (hj : j < σ.length) :
    ∃ b, calculateBeta true s peer s0 σ = some b ∧
      (runHops true b (downCtx σ s peer pm))[j - s]? =
        some (if peer = true ∧ j = s then beta s0 σ (j + 1) else beta s0 σ j) := by
  obtain ⟨b, hb, hr⟩ := down_sync s0 σ s peer pm (by omega)
  exact ⟨b, hb, by rw [hr]; exact expected_getElem? s0 σ s peer j hs hj⟩

/-- **C22**, pointwise form (against construction direction): the `(n-1-j)`-th router on the
    traversed part validates AS entry `j` with the accumulator its creator used -/
theorem segid_sync_hop_up (s0 : Nat) (σ : List Nat) (s : Nat) (peer : Bool) (pm j : Nat)
    (hs : s ≤ j) (hj : j < σ.length) :
    ∃ b, calculateBeta false s peer s0 σ = some b ∧
      (runHops false b (upCtx σ s peer pm))[σ.length - 1 - j]? =
        some (if peer = true ∧ j = s then beta s0 σ (j + 1) else beta s0 σ j) := by
  obtain ⟨b, hb, hr⟩ := up_sync s0 σ s peer pm (by omega)
  refine ⟨b, hb, ?_⟩
  have hl := expected_length s0 σ s peer (by omega)
  rw [hr, List.getElem?_reverse (by omega), hl,
    show σ.length - s - 1 - (σ.length - 1 - j) = j - s by omega]
  exact expected_getElem? s0 σ s peer j hs hj

/-! ### The rules that never apply -/

/-- in construction direction the ingress rule never fires, whatever link the packet came in on -/
theorem ingress_noop_consdir (h : HopCtx) (seg : Nat) : ingressUpdate true h seg = seg := by
  simp [ingressUpdate]

/-- against construction direction the egress rule never fires -/
theorem egress_noop_nonconsdir (h : HopCtx) (seg : Nat) : egressUpdate false h seg = seg := by
  simp [egressUpdate]

/-- no update of any kind on a peering hop -/
theorem peering_noop (c : Bool) (h : HopCtx) (seg : Nat) (hp : h.peering = true) :
    ingressUpdate c h seg = seg ∧ egressUpdate c h seg = seg := by
  simp [ingressUpdate, egressUpdate, hp]

/-! ### What is left in the info field (used by C03: replies over the reversed path) -/

/-- after a traversal in construction direction the info field holds exactly the value path
    combination would have chosen for the same part of the segment in the opposite direction -/
theorem down_final_is_up_start (s0 : Nat) (σ : List Nat) (s : Nat) (peer : Bool) (pm : Nat)
    (hs : s < σ.length) :
    ∃ b, calculateBeta true s peer s0 σ = some b ∧
      calculateBeta false s peer s0 σ = some (finalSeg true b (downCtx σ s peer pm)) := by
  obtain ⟨pre, L, rfl, rfl⟩ : ∃ pre L, σ = pre ++ L ∧ s = pre.length :=
    ⟨σ.take s, σ.drop s, by simp, by simp; omega⟩
  cases L with
  | nil => simp at hs
  | cons x rest =>
    refine ⟨_, calc_down s0 pre x rest peer, ?_⟩
    have hd : (pre ++ x :: rest).drop pre.length = x :: rest := by simp
    cases hr : rest.reverse with
    | nil =>
      have hrest : rest = [] := by simpa using hr
      subst hrest
      rw [calc_up_single]
      cases peer <;> simp [downCtx, finalSeg, tailCtx, ingressUpdate, egressUpdate]
    | cons y r' =>
      have hrest : rest = r'.reverse ++ [y] := by
        have := congrArg List.reverse hr; simpa using this
      subst hrest
      rw [calc_up_multi]
      have hdl : (r'.reverse ++ [y]).dropLast = r'.reverse := by simp
      cases peer <;>
        simp [downCtx, hd, finalSeg, ingressUpdate, egressUpdate, final_tailCtx, hdl,
          extractBeta_eq, updateSegID]

/-- … and after a traversal against construction direction it holds the value path combination
    would have chosen for the construction direction -/
theorem up_final_is_down_start (s0 : Nat) (σ : List Nat) (s : Nat) (peer : Bool) (pm : Nat)
    (hs : s < σ.length) :
    ∃ b, calculateBeta false s peer s0 σ = some b ∧
      calculateBeta true s peer s0 σ = some (finalSeg false b (upCtx σ s peer pm)) := by
  obtain ⟨pre, L, rfl, rfl⟩ : ∃ pre L, σ = pre ++ L ∧ s = pre.length :=
    ⟨σ.take s, σ.drop s, by simp, by simp; omega⟩
  cases L with
  | nil => simp at hs
  | cons x rest =>
    have hd : (pre ++ x :: rest).drop pre.length = x :: rest := by simp
    rw [calc_down]
    cases hr : rest.reverse with
    | nil =>
      have hrest : rest = [] := by simpa using hr
      subst hrest
      refine ⟨_, calc_up_single s0 pre x peer, ?_⟩
      cases peer <;> simp [upCtx, upBody, finalSeg, ingressUpdate, egressUpdate]
    | cons y r' =>
      have hrest : rest = r'.reverse ++ [y] := by
        have := congrArg List.reverse hr; simpa using this
      subst hrest
      refine ⟨_, calc_up_multi s0 pre x y r'.reverse peer, ?_⟩
      cases peer <;>
        simp [upCtx, hd, upBody, finalSeg, finalSeg_append, final_upBody_false, ingressUpdate,
          egressUpdate, xorAll_reverse, xor_cancel, updateSegID]

/-! ### Non-vacuity and sensitivity

A 4-AS segment with concrete MAC prefixes; entering at AS 1 over its peering link.  The routers
use β₂ (for the peer entry), β₂, β₃; a router that updated the accumulator on the peering hop, or
a combinator that started from β₁, would present a different value to AS 1. -/
example :
    let σ := [0x1234, 0xabcd, 0x0f0f, 0x8001]
    calculateBeta true 1 true 0x5555 σ = some (0x5555 ^^^ 0x1234 ^^^ 0xabcd) ∧
    runHops true (0x5555 ^^^ 0x1234 ^^^ 0xabcd) (downCtx σ 1 true 0x7777) =
      [beta 0x5555 σ 2, beta 0x5555 σ 2, beta 0x5555 σ 3] ∧
    beta 0x5555 σ 1 ≠ beta 0x5555 σ 2 ∧
    runHops false (beta 0x5555 σ 3) (upCtx σ 1 true 0x7777) =
      [beta 0x5555 σ 3, beta 0x5555 σ 2, beta 0x5555 σ 2] := by
  decide

end Scion.C22
