import Scion.Model.Renewal
import Scion.Proofs.Chain
import Scion.Props.C34
import Scion.Gen.Pki2
/-!
# C37 — Certificate renewal is granted only to the certified AS itself

Property theorems only.  The model (`Scion.Model.Renewal`) mirrors
`RequestVerifier.VerifyCMSSignedRenewalRequest` (with `ExtractChain`, `VerifySignature`,
`verifyClientChain`, `verifyWithGraceTRC`, `verifySignerInfo`, `processCSR`) and
`CAPolicy.CreateChain`; it is tied to the real functions by `harness/cmd/renewal` on real CMS
messages, CSRs and certificates built per case.  CMS/X.509/ECDSA are oracles (facts obtained by
calling the primitives); the meaning of "the chain verifies against a TRC" is C34.
-/
namespace Scion.C37
open Scion.Chain Scion.Renewal

/-- `ExtractChain` succeeds exactly on two certificates that are, in either order, a valid AS
certificate and a valid CA certificate forming a valid chain (`swapped` says the CA came first) -/
theorem extractChain_ok_iff (certsOk : Bool) (certs : List (Option Cert)) (a c : Cert) (sw : Bool) :
    extractChain certsOk certs = .ok (a, c, sw) ↔
      certsOk = true ∧ certs = (if sw then [some c, some a] else [some a, some c]) ∧
      validateChain [some a, some c] = .ok (a, c) := by
  constructor
  · intro h
    unfold extractChain at h
    split at h
    · cases h
    · rename_i hok
      have hok' : certsOk = true := by simpa using hok
      split at h
      · rename_i c0 c1
        split at h
        · cases h
        · rename_i t ht
          split at h
          · rename_i hca
            split at h
            · rename_i a' c' hv
              injection h with h; injection h with h1 h2; injection h2 with h2 h3
              subst h1; subst h2; subst h3
              obtain ⟨hc, _⟩ := (C34.validateChain_ok_iff _ _ _).1 hv
              injection hc with e1 e2; injection e2 with e2 _
              subst e1; subst e2
              exact ⟨hok', by simp, hv⟩
            · cases h
          · split at h
            · rename_i a' c' hv
              injection h with h; injection h with h1 h2; injection h2 with h2 h3
              subst h1; subst h2; subst h3
              obtain ⟨hc, _⟩ := (C34.validateChain_ok_iff _ _ _).1 hv
              injection hc with e1 e2; injection e2 with e2 _
              subst e1; subst e2
              exact ⟨hok', by simp, hv⟩
            · cases h
      · cases h
  · rintro ⟨hok, hc, hv⟩
    obtain ⟨_, hva, hvc, _, _⟩ := (C34.validateChain_ok_iff _ _ _).1 hv
    cases sw
    · simp only [Bool.false_eq_true, ↓reduceIte] at hc
      subst hc
      simp [extractChain, hok, hva, hv]
    · simp only [↓reduceIte] at hc
      subst hc
      simp [extractChain, hok, hvc, hv]

/-- **TRC condition.**  The client chain is accepted iff the ISD's latest TRC is currently valid
and the chain verifies against it — or, failing that, the current time is not after the latest
TRC's grace-period end, the predecessor TRC exists, is itself currently valid, and the chain
verifies against the predecessor. -/
theorem verifyClientChain_ok_iff (a : Cert) (f : TrcFacts) :
    verifyClientChain a f = .ok () ↔
      (∃ ia, a.subjectIA = .ok ia) ∧
      ∃ L, f.latest = .found L ∧ (L.notBefore ≤ f.now ∧ f.now ≤ L.notAfter) ∧
        (f.okLatest = true ∨
          (f.now ≤ L.graceEnd f.zeroTime ∧
            ∃ g, f.pred = .found g ∧ (g.notBefore ≤ f.now ∧ f.now ≤ g.notAfter) ∧
              f.okPred = true)) := by
  unfold verifyClientChain verifyWithGrace
  rw [← isOk_iff]
  cases hia : a.subjectIA.isOk
  · simp
  · cases hl : f.latest with
    | err => simp
    | zero => simp
    | found L =>
      simp only [Bool.not_true, Bool.false_eq_true, ↓reduceIte, Lookup.found.injEq,
        exists_eq_left', true_and]
      cases hc : contains L.notBefore L.notAfter f.now
      · have : ¬ (L.notBefore ≤ f.now ∧ f.now ≤ L.notAfter) := by
          intro h; rw [(C34.contains_iff _ _ _).2 h] at hc; cases hc
        simp [this]
      · have hv := (C34.contains_iff _ _ _).1 hc
        simp only [Bool.not_true, Bool.false_eq_true, ↓reduceIte, hv, and_self, true_and]
        cases hok : f.okLatest
        · simp only [Bool.false_eq_true, ↓reduceIte, false_or]
          by_cases hg : f.now > L.graceEnd f.zeroTime
          · have : ¬ f.now ≤ L.graceEnd f.zeroTime := by omega
            simp [hg, this]
          · have hle : f.now ≤ L.graceEnd f.zeroTime := by omega
            simp only [hg, ↓reduceIte, hle, true_and]
            cases hp : f.pred with
            | err => simp
            | zero => simp
            | found g =>
              simp only [Lookup.found.injEq, exists_eq_left']
              cases hcg : contains g.notBefore g.notAfter f.now
              · have : ¬ (g.notBefore ≤ f.now ∧ f.now ≤ g.notAfter) := by
                  intro h; rw [(C34.contains_iff _ _ _).2 h] at hcg; cases hcg
                simp [this]
              · have hgv := (C34.contains_iff _ _ _).1 hcg
                cases hop : f.okPred <;> simp [hgv]
        · simp

/-- **CMS condition.**  `VerifySignature` accepts iff the SignedData has version 1, exactly one
signer info whose signer identifier selects the AS certificate of the chain, the chain passes
the TRC condition, the content is of type data, the signed message-digest attribute equals the
digest of the payload and the signature over the signed attributes checks against the AS
certificate's key. -/
theorem verifySignature_ok_iff (a : Cert) (s : SigFacts) (f : TrcFacts) :
    verifySignature a s f = .ok () ↔
      s.sdVersion = 1 ∧ s.nSignerInfos = 1 ∧ s.signerIdx = some 0 ∧
      verifyClientChain a f = .ok () ∧ s.isTypeData = true ∧ s.econtentOk = true ∧
      s.digestMatch = true ∧ s.sigOk = true := by
  unfold verifySignature
  by_cases hv : s.sdVersion = 1
  · by_cases hn : s.nSignerInfos = 1
    · cases hi : s.signerIdx with
      | none => simp [hv, hn]
      | some i =>
        by_cases h0 : i = 0
        · subst h0
          cases hc : verifyClientChain a f with
          | error e => simp [hv, hn]
          | ok u =>
            cases u
            cases s.isTypeData <;> cases s.econtentOk <;> cases s.digestMatch <;> cases s.sigOk <;>
              simp [hv, hn]
        · simp [hv, hn, h0]
    · simp [hv, hn]
  · simp [hv]

/-- **`renewal_accept_iff`.**  A renewal request is accepted (and `(a, c)` is its client chain)
iff the CMS envelope parses, it carries exactly the chain `a`, `c` (AS + issuing-CA profile,
either order), `VerifySignature` accepts, the payload parses as a CSR whose subject ISD-AS equals
the subject ISD-AS of the AS certificate `a`, and the CSR's self-signature is valid. -/
theorem renewal_accept_iff (r : Request) (a c : Cert) :
    verifyRequest r = .ok (a, c) ↔
      r.parseOk = true ∧ (∃ sw, extractChain r.certsOk r.certs = .ok (a, c, sw)) ∧
      verifySignature a r.sig r.trc = .ok () ∧ r.csr.parseOk = true ∧
      (∃ ia, r.csr.subjectIA = .ok ia ∧ a.subjectIA = .ok ia) ∧ r.csr.sigOk = true := by
  unfold verifyRequest
  cases hp : r.parseOk
  · simp
  · simp only [Bool.not_true, Bool.false_eq_true, ↓reduceIte, true_and]
    cases hx : extractChain r.certsOk r.certs with
    | error e => simp
    | ok p =>
      obtain ⟨a', c', sw⟩ := p
      simp only
      cases hs : verifySignature a' r.sig r.trc with
      | error e =>
        simp only [reduceCtorEq, false_iff, not_and, forall_exists_index]
        intro sw' h; injection h with h; injection h with h1 h2; subst h1
        simp [hs]
      | ok u =>
        cases u
        have hec : r.sig.econtentOk = true := ((verifySignature_ok_iff _ _ _).1 hs).2.2.2.2.2.1
        simp only [hec, Bool.not_true, Bool.false_eq_true, ↓reduceIte]
        cases hcp : r.csr.parseOk
        · simp
        · simp only [Bool.not_true, Bool.false_eq_true, ↓reduceIte, true_and]
          unfold processCSR
          cases hci : r.csr.subjectIA with
          | notFound => simp
          | malformed => simp
          | ok cia =>
            cases hai : a'.subjectIA with
            | notFound =>
              simp only [Except.ok.injEq, Prod.mk.injEq, exists_and_left, exists_eq', and_true,
                IARes.ok.injEq, exists_eq_left']
              constructor
              · intro h; cases h
              · rintro ⟨⟨h1, _⟩, _, h3, _⟩; subst h1; rw [hai] at h3; cases h3
            | malformed =>
              simp only [Except.ok.injEq, Prod.mk.injEq, exists_and_left, exists_eq', and_true,
                IARes.ok.injEq, exists_eq_left']
              constructor
              · intro h; cases h
              · rintro ⟨⟨h1, _⟩, _, h3, _⟩; subst h1; rw [hai] at h3; cases h3
            | ok aia =>
              simp only [Except.ok.injEq, Prod.mk.injEq, exists_and_left, exists_eq', and_true,
                IARes.ok.injEq, exists_eq_left']
              by_cases hne : cia = aia
              · subst hne
                cases hsg : r.csr.sigOk
                · simp
                · simp only [ne_eq, not_true_eq_false, ↓reduceIte, Bool.not_true,
                    Bool.false_eq_true, Except.ok.injEq, Prod.mk.injEq, and_true]
                  constructor
                  · rintro ⟨h1, h2⟩; subst h1; subst h2; exact ⟨⟨rfl, rfl⟩, hs, hai⟩
                  · rintro ⟨⟨h1, h2⟩, _, _⟩; exact ⟨h1, h2⟩
              · simp only [ne_eq, hne, not_false_eq_true, ↓reduceIte, reduceCtorEq, false_iff,
                  not_and]
                rintro ⟨h1, _⟩ _ h3; subst h1; rw [hai] at h3; injection h3 with h3
                exact absurd h3.symm hne

/-- **C37, first sentence.**  An accepted request is a CMS message with a single signer whose
certificate is the AS certificate of the included (valid) chain; that chain verifies against the
ISD's currently valid latest TRC, or against its currently valid predecessor no later than the
grace-period end; the signature covers the request; the request's subject ISD-AS equals the
chain's; and the request's own signature is valid. -/
theorem renewal_accept_statement (r : Request) (a c : Cert) (h : verifyRequest r = .ok (a, c)) :
    r.sig.nSignerInfos = 1 ∧ r.sig.signerIdx = some 0 ∧
    validateChain [some a, some c] = .ok (a, c) ∧
    (∃ L, r.trc.latest = .found L ∧ (L.notBefore ≤ r.trc.now ∧ r.trc.now ≤ L.notAfter) ∧
      (r.trc.okLatest = true ∨
        (r.trc.now ≤ L.graceEnd r.trc.zeroTime ∧
          ∃ g, r.trc.pred = .found g ∧ (g.notBefore ≤ r.trc.now ∧ r.trc.now ≤ g.notAfter) ∧
            r.trc.okPred = true))) ∧
    (r.sig.digestMatch = true ∧ r.sig.sigOk = true) ∧
    (∃ ia, r.csr.subjectIA = .ok ia ∧ a.subjectIA = .ok ia) ∧ r.csr.sigOk = true := by
  obtain ⟨_, ⟨sw, hx⟩, hs, _, hia, hcs⟩ := (renewal_accept_iff r a c).1 h
  obtain ⟨_, hn, hi, hc, _, _, hd, hsg⟩ := (verifySignature_ok_iff _ _ _).1 hs
  obtain ⟨_, _, hv⟩ := (extractChain_ok_iff _ _ _ _ _).1 hx
  exact ⟨hn, hi, hv, ((verifyClientChain_ok_iff _ _).1 hc).2, ⟨hd, hsg⟩, hia, hcs⟩

/-- a request whose CSR names another ISD-AS than the signing chain's AS certificate is never
accepted: renewal is granted only to the certified AS itself -/
theorem other_as_rejected (r : Request) (a c : Cert) (x y : Nat)
    (hx : r.csr.subjectIA = .ok x) (hy : a.subjectIA = .ok y) (hne : x ≠ y) :
    verifyRequest r ≠ .ok (a, c) := by
  intro h
  obtain ⟨_, _, _, _, ⟨ia, h1, h2⟩, _⟩ := (renewal_accept_iff r a c).1 h
  rw [hx] at h1; rw [hy] at h2
  injection h1 with h1; injection h2 with h2
  omega

/-- under a base TRC (no grace period) the chain must verify against the latest TRC itself -/
theorem base_trc_no_grace (a : Cert) (f : TrcFacts) (L : TrcInfo) (hL : f.latest = .found L)
    (hb : L.base = L.serial) (hz : f.zeroTime < f.now) (h : verifyClientChain a f = .ok ()) :
    f.okLatest = true := by
  obtain ⟨_, L', hL', _, hor⟩ := (verifyClientChain_ok_iff a f).1 h
  rw [hL] at hL'; injection hL' with hL'; subst hL'
  rcases hor with h1 | ⟨h2, _⟩
  · exact h1
  · simp only [TrcInfo.graceEnd, TrcInfo.isBase, hb, beq_self_eq_true, ↓reduceIte] at h2
    omega

/-! ## Second sentence: chains issued by the CA -/

theorem truncSec_le (t : Int) : truncSec t ≤ t := by unfold truncSec; omega

/-- **`issued_chain_props`.**  A chain issued by `CreateChain` consists of the policy's CA
certificate and a new AS certificate that carries the requested key and subject ISD-AS, forms a
valid chain with the CA certificate (AS/CA profiles, CA validity covers it), starts at the
signing time and ends no later than signing time + policy validity, and never outlives the CA
certificate. -/
theorem issued_chain_props (i : IssueIn) (a c : Cert) (h : createChain i = .ok (a, c)) :
    c = i.ca ∧ a.keyId = i.csrKeyId ∧ a.subjectIA = i.csrSubjectIA ∧
    validateChain [some a, some c] = .ok (a, c) ∧
    a.notAfter ≤ c.notAfter ∧ c.notBefore ≤ a.notBefore ∧
    a.notBefore = truncSec i.now ∧ a.notAfter = truncSec (i.now + i.validity) ∧
    a.notAfter ≤ i.now + i.validity ∧ i.now + i.validity ≤ c.notAfter ∧ c.notBefore ≤ i.now := by
  unfold createChain at h
  split at h
  · cases h
  · rename_i hcov
    split at h
    · cases h
    · split at h
      · cases h
      · split at h
        · rename_i p hv
          injection h with h; subst h
          obtain ⟨hc, _, _, hb, hna⟩ := (C34.validateChain_ok_iff _ _ _).1 hv
          injection hc with e1 e2; injection e2 with e2 _
          injection e1 with e1; injection e2 with e2
          have hcov' : i.ca.notBefore ≤ i.now ∧ i.now + i.validity ≤ i.ca.notAfter := by
            simpa [covers] using hcov
          subst e1; subst e2
          refine ⟨rfl, rfl, rfl, hv, hna, hb, rfl, rfl, ?_, hcov'.2, hcov'.1⟩
          exact truncSec_le _
        · cases h

/-- the issued certificate is in the AS profile (so it is usable for the next renewal) -/
theorem issued_is_as_profile (i : IssueIn) (a c : Cert) (h : createChain i = .ok (a, c)) :
    C34.ASProfile a ∧ C34.CAProfile c := by
  obtain ⟨_, _, _, hv, _⟩ := issued_chain_props i a c h
  obtain ⟨_, ha, hc, _, _⟩ := (C34.validateChain_ok_iff _ _ _).1 hv
  exact ⟨((C34.validateCert_as_iff a).1 ha).2, (C34.validateCert_ca_iff c).1 hc⟩

/-! ## Facts regenerated from the source (T3) -/

theorem gen_call_order :
    Gen.Pki2.verifyRequestCalls =
      ["ParseContentInfo", "SignedDataContent", "ExtractChain", "VerifySignature", "EContentValue",
       "ParseCertificateRequest", "processCSR"] ∧
    Gen.Pki2.extractChainCalls = ["X509Certificates", "ValidateCert", "ValidateChain"] ∧
    Gen.Pki2.verifySignatureCalls =
      ["FindCertificate", "verifyClientChain", "IsTypeData", "EContentValue", "verifySignerInfo"] ∧
    Gen.Pki2.verifyClientChainCalls =
      ["ExtractIA", "SignedTRC", "IsZero", "Contains", "VerifyChain", "GracePeriodEnd",
       "verifyWithGraceTRC"] ∧
    Gen.Pki2.verifyWithGraceCalls = ["SignedTRC", "IsZero", "Contains", "VerifyChain"] ∧
    Gen.Pki2.processCSRCalls = ["ExtractIA", "ExtractIA", "Equal", "CheckSignature"] ∧
    Gen.Pki2.createChainCalls =
      ["Covers", "SubjectKeyID", "CreateCertificate", "ParseCertificate", "ValidateChain"] := by
  decide

/-! ## Non-vacuity -/

def exTrc : TrcFacts :=
  { latest := .found ⟨1, 2, -10, 1000, 60⟩, pred := .found ⟨1, 1, -5000, 500, 0⟩, now := 1,
    zeroTime := -1000000, okLatest := false, okPred := true }

def exSig : SigFacts :=
  { sdVersion := 1, nSignerInfos := 1, signerIdx := some 0, isTypeData := true,
    econtentOk := true, digestMatch := true, sigOk := true }

def exReq : Request :=
  { parseOk := true, certsOk := true, certs := [some C34.exCA, some C34.exAS], sig := exSig,
    trc := exTrc, csr := ⟨true, .ok 0x1ff0000000111, true, 9⟩ }

/-- accepted through the predecessor TRC inside the grace period, CA certificate listed first -/
example : verifyRequest exReq = .ok (C34.exAS, C34.exCA) := by rfl
/-- the same request for another subject is refused -/
example : verifyRequest { exReq with csr := ⟨true, .ok 0x1ff0000000112, true, 9⟩ } =
    .error .subjectMismatch := by rfl
/-- … and after the grace period as well -/
example : verifyRequest { exReq with trc := { exTrc with now := 100 } } =
    .error (.sig (.client .verifyAfterGrace)) := by rfl

def exIssue : IssueIn :=
  { ca := C34.exCA, validity := 3600500000000, now := 1500000000, csrSubjectIA := .ok 0x1ff0000000111,
    csrKeyId := 9, skidOk := true, createOk := true, sigAlg := 10, caSkidEmpty := false,
    caSkidIsNew := false }

def exCAns : Cert := { C34.exCA with notBefore := -18000000000000, notAfter := 18000000000000 }

example : (createChain { exIssue with ca := exCAns }).toOption.map
    (fun p => (p.1.notBefore, p.1.notAfter)) = some (1000000000, 3602000000000) := by rfl

end Scion.C37
