import Scion.Proofs.RingMon
import Scion.Gen.Ring
/-! # C48 — the ring buffer is a linearizable bounded FIFO queue

Model: `Scion.Model.Ring` (state and index arithmetic of `private/ringbuf.Ring` as in the code;
`Fifo` = the abstract bounded FIFO of the statement; `Mon` = mutex + two condition variables).
Lemmas: `Scion.Proofs.Ring`, `Scion.Proofs.RingMon`. Facts regenerated from the source:
`Scion.Gen.Ring`. The model is tied to the code by engine `ring` (sequential differential
streams incl. the index fields, and linearisations of real concurrent histories). -/
namespace Scion.C48
open Scion.Ring

/-! ### Representation invariant -/

/-- `writable + readable = count`, both indices within `[0, count]`, and
`readIndex + readable ≡ writeIndex (mod count)` -/
theorem inv_init_empty (count : Nat) (h : 0 < count) : Inv (newEmpty count) := inv_newEmpty count h

theorem inv_init_full (es : List Nat) (h : es ≠ []) : Inv (newFull es) := inv_newFull es h

/-- the invariant is preserved by every operation (Write, Read, Close; blocking or not) -/
theorem inv_preserved (s : State) (o : Op) (s' : State) (out : Out)
    (h : step s o = some (s', out)) (hI : Inv s) : Inv s' := step_inv s o s' out h hI

theorem inv_history (os : List Op) (s s' : State) (outs : List Out)
    (h : runOps s os = some (s', outs)) (hI : Inv s) : Inv s' := run_inv os s s' outs h hI

/-- **Cells outside the live window are nil.** Every slot of `entries` that is not one of the
`readable` entries starting at `readIndex` holds nil: initially, and after every operation
(`Ring.read` clears what it hands out, `Ring.write` only fills free slots) — so an entry is
referenced by the ring only while it is stored, and a read can never hand out a stale entry. -/
theorem clean_init_empty (count : Nat) : Clean (newEmpty count) := clean_newEmpty count

theorem clean_init_full (es : List Nat) : Clean (newFull es) := clean_newFull es

theorem clean_preserved (s : State) (o : Op) (s' : State) (out : Out)
    (h : step s o = some (s', out)) (hI : Inv s) (hC : Clean s) : Clean s' :=
  step_clean s o s' out h hI hC

theorem clean_history (os : List Op) : ∀ (s s' : State) (outs : List Out),
    runOps s os = some (s', outs) → Inv s → Clean s → Inv s' ∧ Clean s' := by
  induction os with
  | nil => intro s s' outs h hI hC; simp only [runOps] at h; cases h; exact ⟨hI, hC⟩
  | cons o os ih =>
    intro s s' outs h hI hC
    simp only [runOps] at h
    cases hs : step s o with
    | none => rw [hs] at h; cases h
    | some p =>
      rw [hs] at h
      dsimp only at h
      cases hr : runOps p.1 os with
      | none => rw [hr] at h; cases h
      | some q =>
        rw [hr] at h; cases h
        exact ih p.1 q.1 q.2 hr (step_inv s o p.1 p.2 hs hI) (step_clean s o p.1 p.2 hs hI hC)

/-! ### Refinement of the bounded FIFO -/

/-- `Write` refines the FIFO's write: same enabledness (would block ⇔ queue full, not closed,
something to write, blocking call), same returned count (0 when full and non-blocking, −1 after
close, otherwise `min(space, len)`), and the abstract queue grows by exactly the first `n`
entries, in order. -/
theorem write_refines (s : State) (es : List Nat) (b : Bool) (hI : Inv s) :
    (write s es b).map (fun p => (absF p.1, p.2)) = (absF s).write es b :=
  Scion.Ring.write_refines s es b hI

/-- `Read` refines the FIFO's read: same enabledness, same count (−1 only after close *and*
drained), the cells handed out are the first `n` of the queue in order and are removed. -/
theorem read_refines (s : State) (len : Nat) (b : Bool) (hI : Inv s) :
    (read s len b).map (fun p => (absF p.1, p.2.1, p.2.2)) = (absF s).read len b :=
  Scion.Ring.read_refines s len b hI

theorem close_refines (s : State) : absF (close s) = (absF s).close := rfl

/-- **Every sequential history** (= every order of critical sections, see `linearizable`) of the
ring is, operation by operation and output by output, a history of the bounded FIFO. -/
theorem history_refines (os : List Op) (s : State) (hI : Inv s) :
    (runOps s os).map (fun p => (absF p.1, p.2)) = (absF s).runOps os := run_refines os s hI

/-! ### What the bounded FIFO guarantees (the clauses of the statement) -/

/-- no call transfers more than the capacity / the stored amount / its own batch allows -/
theorem write_bounds (f : Fifo) (es : List Nat) (b : Bool) (f' : Fifo) (n : Int)
    (h : f.write es b = some (f', n)) (hq : f.q.length ≤ f.cap) :
    n ≤ es.length ∧ n ≤ f.cap - f.q.length ∧ f'.q.length ≤ f'.cap ∧ f'.cap = f.cap := by
  unfold Fifo.write at h
  split at h
  · split at h
    · cases h
    · cases h; omega
  · split at h
    · cases h; omega
    · cases h
      simp only [List.length_append, List.length_map, List.length_take]
      have h1 : min (f.cap - f.q.length) es.length ≤ f.cap - f.q.length := Nat.min_le_left _ _
      have h2 : min (f.cap - f.q.length) es.length ≤ es.length := Nat.min_le_right _ _
      generalize min (f.cap - f.q.length) es.length = m at *
      have h3 : min m es.length ≤ m := Nat.min_le_left _ _
      refine ⟨by omega, by omega, by omega, trivial⟩

theorem read_bounds (f : Fifo) (len : Nat) (b : Bool) (f' : Fifo) (n : Int) (c : List Cell)
    (h : f.read len b = some (f', n, c)) :
    n ≤ len ∧ n ≤ f.q.length ∧ (0 ≤ n → c.length = n) := by
  unfold Fifo.read at h
  split at h
  · split at h
    · cases h
    · cases h; simp
  · split at h
    · cases h; simp
    · cases h
      simp only [List.length_take]
      have h1 : min f.q.length len ≤ f.q.length := Nat.min_le_left _ _
      have h2 : min f.q.length len ≤ len := Nat.min_le_right _ _
      generalize min f.q.length len = m at *
      omega

/-- **FIFO order, at most once, none lost.** For every history: initial content followed by
everything the writes accepted (in call order) equals everything the reads handed out (in call
order) followed by what is still stored. -/
theorem fifo_conservation (os : List Op) (f f' : Fifo) (outs : List Out)
    (h : Fifo.runOps f os = some (f', outs)) :
    f.q ++ writtenCells os outs = readCells outs ++ f'.q := fifo_conservation_aux os f f' outs h

/-- the same for the ring itself -/
theorem ring_conservation (os : List Op) (s s' : State) (outs : List Out) (hI : Inv s)
    (h : runOps s os = some (s', outs)) :
    abs s ++ writtenCells os outs = readCells outs ++ abs s' := by
  have hr := history_refines os s hI
  rw [h] at hr
  simp only [Option.map_some] at hr
  exact fifo_conservation os (absF s) (absF s') outs hr.symm

/-- after close writes fail … -/
theorem write_after_close (s : State) (es : List Nat) (b : Bool) (hc : s.closed = true) :
    write s es b = some (s, -1) := by
  unfold write
  rw [if_neg (by simp [hc]), if_pos hc]

/-- … and reads return the remaining entries before reporting closure -/
theorem read_after_close (s : State) (len : Nat) (b : Bool) (hc : s.closed = true) :
    ∃ s' n out, Scion.Ring.read s len b = some (s', n, out) ∧ (n = -1 ↔ s.readable = 0) := by
  unfold Scion.Ring.read
  rw [if_neg (by simp [hc])]
  by_cases hz : s.readable = 0
  · rw [if_pos ⟨hc, hz⟩]; exact ⟨_, _, _, rfl, by simp [hz]⟩
  · rw [if_neg (by simp [hz])]
    refine ⟨_, _, _, rfl, ?_⟩
    constructor
    · intro h; omega
    · intro h; exact absurd h hz

/-- a blocking call waits only when it can do nothing useful: Write when full, Read when empty,
and never after close -/
theorem blocks_iff_write (s : State) (es : List Nat) :
    write s es true = none ↔ (0 < es.length ∧ s.writable = 0 ∧ s.closed = false) := by
  unfold write
  constructor
  · intro h
    split at h
    · assumption
    · split at h <;> cases h
  · intro h; rw [if_pos h]; rfl

theorem blocks_iff_read (s : State) (len : Nat) :
    Scion.Ring.read s len true = none ↔ (0 < len ∧ s.readable = 0 ∧ s.closed = false) := by
  unfold Scion.Ring.read
  constructor
  · intro h
    split at h
    · assumption
    · split at h <;> cases h
  · intro h; rw [if_pos h]; rfl

/-- non-blocking calls never wait -/
theorem nonblocking_enabled (s : State) (o : Op)
    (h : match o with | .write _ b => b = false | .read _ b => b = false | .close => True) :
    (step s o).isSome = true := by
  cases o with
  | write es b =>
    subst h
    simp only [step, write]
    split
    · rfl
    · split <;> rfl
  | read len b =>
    subst h
    simp only [step, Scion.Ring.read]
    split
    · rfl
    · split <;> rfl
  | close => rfl

/-! ### Concurrency: monitor with condition variables -/

/-- the broadcasts the source performs (T3, regenerated from ringbuf.go on every run) -/
def codeCfg : Cfg :=
  ⟨Scion.Gen.Ring.writeWakesReaders, Scion.Gen.Ring.readWakesWriters,
   Scion.Gen.Ring.closeWakesWriters, Scion.Gen.Ring.closeWakesReaders⟩

/-- T3: every method body is one critical section of the ring's mutex, every state change is
followed by the broadcast that its waiters need, and each `Wait` sits in a loop re-checking
exactly the condition the model uses for "not enabled". -/
theorem gen_monitor_facts :
    codeCfg = allWake ∧
    Scion.Gen.Ring.writeLocked = true ∧ Scion.Gen.Ring.readLocked = true ∧
    Scion.Gen.Ring.closeLocked = true ∧
    Scion.Gen.Ring.writeWaitCond = "r.writable == 0 && !r.closed" ∧
    Scion.Gen.Ring.writeWaitOn = "writableC" ∧ Scion.Gen.Ring.writeWaits = 1 ∧
    Scion.Gen.Ring.readWaitCond = "r.readable == 0 && !r.closed" ∧
    Scion.Gen.Ring.readWaitOn = "readableC" ∧ Scion.Gen.Ring.readWaits = 1 := by decide

def startMon (s : State) : Mon := ⟨s, [], []⟩

/-- **No lost wake-up.** In every reachable state of the monitor (any interleaving of callers
parking, and of Write/Read/Close bodies, with the broadcasts the source performs) a caller is
parked on `readableC` only while `readable = 0 ∧ ¬closed`, and on `writableC` only while
`writable = 0 ∧ ¬closed`: blocked callers are released by data, space or close. -/
theorem no_lost_wakeup (s : State) (steps : List MStep) (m : Mon)
    (h : mrun codeCfg (startMon s) steps = some m) : NoLost m := by
  rw [gen_monitor_facts.1] at h
  exact mrun_noLost steps (startMon s) m h ⟨fun hne => absurd rfl hne, fun hne => absurd rfl hne⟩

/-- **Linearizability (of the monitor model).** Whatever the interleaving, the bodies executed
under the mutex form, in the order of their critical sections, a sequential history of the ring —
hence (by `history_refines`) of the bounded FIFO. -/
theorem linearizable (c : Cfg) (s : State) (hI : Inv s) (steps : List MStep) (m : Mon)
    (h : mrun c (startMon s) steps = some m) :
    ∃ outs, runOps s (steps.filterMap MStep.op?) = some (m.ring, outs) ∧
      (absF s).runOps (steps.filterMap MStep.op?) = some (absF m.ring, outs) := by
  obtain ⟨outs, ho⟩ := mrun_is_history c steps (startMon s) m h
  refine ⟨outs, ho, ?_⟩
  have hr := history_refines (steps.filterMap MStep.op?) s hI
  have ho' : runOps s (steps.filterMap MStep.op?) = some (m.ring, outs) := ho
  rw [ho'] at hr
  exact hr.symm

/-- without the broadcast in Write the invariant fails (the T3 fact is necessary): a reader
parks on the empty ring, a write stores an entry, the reader is still parked. -/
theorem broadcast_needed :
    ∃ m, mrun ⟨false, true, true, true⟩ (startMon (newEmpty 2)) [.parkR 1 1, .doWrite [7] false] = some m ∧
      ¬ NoLost m := by
  refine ⟨_, rfl, ?_⟩
  intro h
  have := h.1 (by decide)
  exact absurd this.1 (by decide)

/-! ### Non-vacuity -/

example : Inv (newEmpty 3) := inv_newEmpty 3 (by decide)
/-- wrap-around: capacity 3, write 2, read 2, write 3 (wraps), read 3 — FIFO order kept -/
example : (runOps (newEmpty 3) [.write [1, 2] false, .read 2 false, .write [3, 4, 5, 6] false,
    .read 5 true, .close, .read 1 true, .write [9] true]).map (·.2) =
    some [.wrote 2, .got 2 [some 1, some 2], .wrote 3, .got 3 [some 3, some 4, some 5], .closed,
          .got (-1) [], .wrote (-1)] := by decide
example : step (newEmpty 1) (.read 1 true) = none := by decide
example : (mrun allWake (startMon (newEmpty 2)) [.parkR 1 1, .doWrite [7] false, .doRead 1 true]).isSome := by
  decide

end Scion.C48
