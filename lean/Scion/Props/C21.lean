import Scion.Model.Spao
import Scion.Proofs.Spao
import Scion.Gen.Wire
import Scion.Gen.Spao
/-!
# C21 — Packet authenticators cover exactly the immutable packet fields

Property theorems only.  Model: `Scion.Model.Spao` — a transcription of
`spao.serializeAuthenticatedData` / `zeroOutMutablePath` **as the code is**, i.e. with the
traffic class masked by `0x3f`.  The tag is `AES-CMAC(key, macInput)`; what the code controls is
`macInput`, so "the tag is unchanged" is `macInput a = macInput b` and "the tag changes" follows
from `macInput a ≠ macInput b` for every MAC that is injective on its input
(`tag_changes_of_input_ne`; 128-bit collisions of AES-CMAC are outside the model).

`ImmutEq tcf a b` (`Scion/Model/Spao.lean`) says `a` and `b` agree on every covered field, with
`tcf` the projection of the traffic class that counts.  The specification's projection is
`specTC` (six DSCP bits); the code's is `codeTC` (`& 0x3f`).

**KNOWN FINDING `C21/tc-mask-0x3f`.**  The property at full strength (`AuthIgnoresMutable`,
`AuthCoversImmutable`, with `specTC`) is FALSE of the code: `tc_ecn_bits_are_authenticated` and
`tc_top_dscp_bits_not_authenticated` prove the negations with concrete packets.  Everything
except the traffic-class clause is proved (`…_partial`, with `codeTC` in place of `specTC`: all
other clauses are literally the same).  `pkg/spao/mac_test.go` pins the current bytes, so the
code is not repaired.
-/
namespace Scion.C21
open Scion.Spao Scion.Wire Scion.Util Scion

/-- FULL STATEMENT, clause 1: packets (same SPI kind) that agree on all covered fields — i.e.
differ only in pointers, SegIDs, router-alert flags, **ECN bits**, NextHdr, PayloadLen, extension
headers, excluded addresses — have the same authenticator input. -/
def AuthIgnoresMutable : Prop :=
  ∀ a b : AuthIn, a.WF → b.WF → SameClass a b → ImmutEq specTC a b → macInput a = macInput b

/-- FULL STATEMENT, clause 2: the input is injective in the covered fields, **the six DSCP bits
included**. -/
def AuthCoversImmutable : Prop :=
  ∀ a b : AuthIn, a.WF → b.WF → SameClass a b → macInput a = macInput b → ImmutEq specTC a b

/-- clause 1 for everything except the traffic-class clause (what is missing: `codeTC` = low six
bits instead of `specTC` = high six bits) -/
theorem auth_ignores_mutable_partial (a b : AuthIn) (ha : a.WF) (hb : b.WF) (hc : SameClass a b)
    (h : ImmutEq codeTC a b) : macInput a = macInput b :=
  (macInput_eq_iff a b ha hb hc).mpr h

/-- clause 2 for everything except the traffic-class clause -/
theorem auth_covers_immutable_partial (a b : AuthIn) (ha : a.WF) (hb : b.WF) (hc : SameClass a b)
    (h : macInput a = macInput b) : ImmutEq codeTC a b :=
  (macInput_eq_iff a b ha hb hc).mp h

/-- both directions at once: the authenticator input is a complete invariant of `ImmutEq codeTC` -/
theorem auth_covers_exactly_partial (a b : AuthIn) (ha : a.WF) (hb : b.WF) (hc : SameClass a b) :
    macInput a = macInput b ↔ ImmutEq codeTC a b := macInput_eq_iff a b ha hb hc

/-- for well-formed input the authenticator input is defined -/
theorem macInput_defined (a : AuthIn) (ha : a.WF) : ∃ d, macInput a = .ok d := by
  obtain ⟨z, _, _, _, e⟩ := macInput_ok a ha
  exact ⟨_, e⟩

/-- `NextHdr`, `PayloadLen` and the `HdrLen` field never enter the input (extension headers are
not even an argument of `ComputeAuthCMAC`): replacing the common header by any other that agrees
on version, traffic class, flow id, path type and address types leaves the input unchanged -/
theorem auth_ignores_nexthdr_payloadlen (a : AuthIn) (c : Cmn)
    (h1 : c.version = a.hdr.cmn.version) (h2 : c.tc = a.hdr.cmn.tc) (h3 : c.flowID = a.hdr.cmn.flowID)
    (h4 : c.pathType = a.hdr.cmn.pathType) (h5 : c.dstType = a.hdr.cmn.dstType)
    (h6 : c.srcType = a.hdr.cmn.srcType) :
    macInput { a with hdr := { a.hdr with cmn := c } } = macInput a := by
  unfold macInput authData fixedPart addrPart addrHdrLen
  simp only [h1, h2, h3, h4, h5, h6]

/-- with a MAC that is injective on its input, different inputs give different tags -/
theorem tag_changes_of_input_ne (mac : Bytes → Bytes) (hinj : ∀ x y, mac x = mac y → x = y)
    (x y : Bytes) (h : x ≠ y) : mac x ≠ mac y := fun e => h (hinj x y e)

/-! ### which path fields `ImmutEq` (through `zeroPath`) ignores and which it covers -/

/-- current info/hop pointers are ignored -/
theorem path_ignores_pointers (m : PathMeta.Hdr) (body : Bytes) (x y : Nat) :
    zeroPath (.scion { m with currINF := x, currHF := y } body) = zeroPath (.scion m body) :=
  zeroRaw_ignores_pointers m body x y

/-- on a SCION path with info fields `is` and hop fields `hs`: the authenticated bytes are the meta
line without its pointer byte, the info fields with SegID cleared, the hop fields with the
router-alert flags cleared — so SegIDs and alert flags are ignored and every other field
(segment lengths, Peer/ConsDir flags, timestamps, expiry, interfaces, MACs) is covered verbatim -/
theorem path_fields_covered (m : PathMeta.Hdr) (b : PathMeta.Base) (is : List Info) (hs : List Hop)
    (hb : PathMeta.baseDecode m = some b) (hi : is.length = b.numINF) (hh : hs.length = b.numHops) :
    zeroPath (.scion m (encInfos is ++ encHops hs)) =
      some (0 :: (natBE 4 (PathMeta.encode m)).drop 1 ++
        (encInfos (is.map clearSegID) ++ encHops (hs.map clearAlerts))) :=
  zeroRaw_fields m b is hs hb hi hh

/-- one-hop path: SegID, the first hop's router-alert flags and the whole second hop are ignored -/
theorem onehop_ignores_mutable (i : Info) (h1 h2 h2' : Hop) (s : Nat) (a b : Bool) :
    zeroPath (.onehop { i with segID := s } { h1 with inAlert := a, egAlert := b } h2') =
      zeroPath (.onehop i h1 h2) := zeroPath_onehop_ignores i h1 h2 h2' s a b

/-- EPIC: PktID, PHVF and LHVF are covered, the embedded path is treated as a SCION path -/
theorem epic_covers_metadata (ts ctr : Nat) (p l : Bytes) (m : PathMeta.Hdr) (body : Bytes)
    (hp : p.length = 4) (hl : l.length = 4) :
    zeroPath (.epic ts ctr p l m body) =
      (zeroRaw m body).map fun z => natBE 4 ts ++ natBE 4 ctr ++ p ++ l ++ z :=
  zeroPath_epic ts ctr p l m body hp hl

/-! ### extension headers: where the upper layer starts -/

/-- **Extension headers are not authenticated.**  Take a packet `header ‖ L4` (upper layer of
protocol `nh`) and the packet obtained by inserting an E2E extension header (for instance the one
carrying the authenticator option itself) or an HBH extension header in front of the upper layer —
which changes `NextHdr` and `PayloadLen` of the SCION header: both have the same authenticator
input.  `upperLayer` (the walk the callers of `ComputeAuthCMAC` perform) finds the same upper
layer type and bytes behind the extension. -/
theorem extension_headers_not_authenticated (h : Hdr) (nh el pl spi alg ts : Nat) (body l4 : Bytes)
    (h1 : nh < 256) (h2 : el < 256) (hl : body.length + 2 = (el + 1) * 4)
    (hn : nh ≠ 200 ∧ nh ≠ 201) (cls : Nat) (hc : cls = 200 ∨ cls = 201) :
    ∃ a b, packetAuthIn (withNext h nh l4.length) l4 spi alg ts = some a ∧
      packetAuthIn (withNext h cls pl) (UInt8.ofNat nh :: UInt8.ofNat el :: (body ++ l4)) spi alg ts = some b ∧
      macInput a = macInput b := by
  have e1 : upperLayer nh l4 = some (nh, l4) := upperLayer_plain nh l4 hn
  have e2 : upperLayer cls (UInt8.ofNat nh :: UInt8.ofNat el :: (body ++ l4)) = some (nh, l4) := by
    rcases hc with rfl | rfl
    · exact upperLayer_wrap_hbh nh el body l4 h1 h2 hl hn
    · exact upperLayer_wrap_e2e nh el body l4 h1 h2 hl hn
  refine ⟨⟨withNext h nh l4.length, spi, alg, ts, nh, l4⟩, ⟨withNext h cls pl, spi, alg, ts, nh, l4⟩, ?_, ?_, ?_⟩
  · simp only [packetAuthIn, withNext, e1]
  · simp only [packetAuthIn, withNext, e2]
  · rw [macInput_withNext, macInput_withNext]

/-! ### the timestamp / sequence number (replay protection) -/

/-- **Replay-relevant field.**  Two inputs that differ in the option's timestamp / sequence
number — whatever else they share or not — have different authenticator inputs (so, for every
MAC that is injective on its input, different tags): a captured packet cannot be replayed under a
new timestamp/sequence number without recomputing the MAC. -/
theorem timestamp_change_changes_input (a b : AuthIn) (ha : a.WF) (hb : b.WF) (hc : SameClass a b)
    (hts : a.ts ≠ b.ts) : macInput a ≠ macInput b := by
  intro h
  have := (macInput_eq_iff a b ha hb hc).mp h
  exact hts this.2.2.2.2.2.2.2.2.2.2.2.2.2

theorem timestamp_change_changes_tag (mac : Bytes → Bytes) (hinj : ∀ x y, mac x = mac y → x = y)
    (a b : AuthIn) (da db : Bytes) (ha : a.WF) (hb : b.WF) (hc : SameClass a b) (hts : a.ts ≠ b.ts)
    (ea : macInput a = .ok da) (eb : macInput b = .ok db) : mac da ≠ mac db := by
  apply tag_changes_of_input_ne mac hinj
  intro e
  apply timestamp_change_changes_input a b ha hb hc hts
  rw [ea, eb, e]

/-- the same for the algorithm identifier -/
theorem algorithm_change_changes_input (a b : AuthIn) (ha : a.WF) (hb : b.WF) (hc : SameClass a b)
    (hal : a.alg ≠ b.alg) : macInput a ≠ macInput b := by
  intro h
  have := (macInput_eq_iff a b ha hb hc).mp h
  exact hal this.2.2.2.2.2.2.2.2.2.2.2.2.1

/-! ### the traffic-class clause fails (known finding `C21/tc-mask-0x3f`) -/

def exHdr (tc : Nat) : Hdr :=
  { cmn := { version := 0, tc := tc, flowID := 0x12345, nextHdr := 17, hdrLen := 9,
             payloadLen := 8, pathType := 0, dstType := 0, srcType := 0 },
    dstIA := 0x0001ff0000000110, srcIA := 0x0002ff0000000220,
    rawDst := [10, 0, 0, 1], rawSrc := [10, 0, 0, 2], path := .empty }

def exIn (tc : Nat) : AuthIn :=
  { hdr := exHdr tc, spi := 0x10001, alg := 0, ts := 0x123456789a, pldType := 17,
    pld := [1, 2, 3, 4, 5, 6, 7, 8] }

/-- TC 0x00 vs 0x01 differ in an ECN bit only (equal on all covered fields per the
specification), yet the authenticator inputs differ -/
theorem tc_ecn_bits_are_authenticated : ¬ AuthIgnoresMutable := by
  intro h
  have := h (exIn 0) (exIn 1) (by decide) (by decide) (by decide) (by decide)
  revert this
  decide

/-- TC 0x00 vs 0x40 differ in a DSCP bit, yet the authenticator inputs are equal -/
theorem tc_top_dscp_bits_not_authenticated : ¬ AuthCoversImmutable := by
  intro h
  have := h (exIn 0) (exIn 0x40) (by decide) (by decide) (by decide) (by decide)
  revert this
  unfold ImmutEq specTC
  decide

/-- constants of the layout, re-extracted from the source on every run (`tcMask` is the literal
in `TrafficClass&…` of `serializeAuthenticatedData`) -/
theorem gen_consts :
    Scion.Gen.Spao.tcMask = 0x3f ∧ Scion.Gen.Spao.MACBufferSize = 1032 ∧
    Scion.Gen.Wire.PacketAuthOptionMetadataLen = 12 ∧ Scion.Gen.Wire.CmnHdrLen = 12 ∧
    Scion.Gen.Wire.LineLen = 4 ∧ Scion.Gen.Wire.MaxHdrLen = 1020 ∧ Scion.Gen.Wire.EpicMetadataLen = 16 := by
  decide

/-- the model's mask is the extracted one -/
theorem codeTC_is_extracted_mask (tc : Nat) : codeTC tc = tc % (Scion.Gen.Spao.tcMask + 1) := rfl

/-! Non-vacuity: the concrete inputs above are well-formed, of the same class, and the partial
theorems apply to them non-trivially (a DRKey AS-host SPI, receiver side: destination host covered). -/
example : (exIn 0).WF ∧ SameClass (exIn 0) (exIn 1) ∧ inclDst (exIn 0).spi = true ∧
    inclSrc (exIn 0).spi = false ∧ inclIA (exIn 0).spi = false := by decide

end Scion.C21
