import Scion.Model.TrcUpdate
import Scion.Proofs.TrcUpdate
import Scion.Props.C33
import Scion.Gen.Pki1Trc
/-!
# C32 — TRC updates are accepted only with the required votes and signatures

Property theorems only.  "Accepted" is `SignedTRC.Verify(predecessor) = nil`, modelled by
`Scion.Trc.verify`, tied to the real code by `harness/cmd/trc` (real certificates, keys and CMS
signatures; the signer table `okUnder` is filled by really verifying).  Certificates are
identified by their position in the payload (`ICert = index × facts`), which is what a Go
`*x509.Certificate` taken from `TRC.Certificates` is.
-/
namespace Scion.C32
open Scion.Trc

/-- the signer infos contain a verifying signature of entry `c` of the list `certs` the code
looked it up in -/
def SignedBy (sis : List Signer) (certs : List ICert) (c : ICert) : Prop :=
  ∃ si ∈ sis, findCert si certs = .some c ∧ c.2.id ∈ si.okUnder

/-- acceptance of a non-base TRC `t` as successor of `p`, with the classification `u` -/
def Accepts (sis : List Signer) (t p : TRC) (u : Update) : Prop :=
  t.isBase = false ∧ verify sis t (some p) = .ok (some u)

theorem accepts_inv {sis : List Signer} {t p : TRC} {u : Update} (h : Accepts sis t p u) :
    validateUpdate t (some p) = .ok u ∧ verifyAll sis u.newVoters = true ∧
    verifyAll sis u.acks = true ∧ verifyAll sis u.votes = true := by
  obtain ⟨hb, h⟩ := h
  unfold verify at h
  simp only [hb, if_true] at h
  split at h
  · cases h
  · rename_i u' hu
    split at h; · cases h
    split at h; · cases h
    split at h; · cases h
    rename_i h1 h2 h3
    cases h
    exact ⟨hu, by simpa using h1, by simpa using h2, by simpa using h3⟩

/-- **Valid payload.** An accepted successor has a valid payload (every rule of C33). -/
theorem update_accept_imp_valid {sis t p u} (h : Accepts sis t p u) : C33.Rules t :=
  (C33.validate_iff_rules t).mp (validateUpdate_ok (accepts_inv h).1).1

/-- **Same ISD and base number, next serial number, same trust-reset flag.**  (`serial` and
`base` are `uint64` in the code; the successor's serial is the exact successor.) -/
theorem update_accept_imp_link {sis t p u} (h : Accepts sis t p u) (hp : p.serial < 2^64) :
    t.isd = p.isd ∧ t.base = p.base ∧ t.serial = p.serial + 1 ∧
    t.noTrustReset = p.noTrustReset := by
  obtain ⟨hval, p', hp', hl, _, _⟩ := validateUpdate_ok (accepts_inv h).1
  cases hp'
  have l := checkLink_ok hl
  have r := (C33.validate_iff_rules t).mp hval
  have h1 := r.base_pos
  have h2 := r.base_le_serial
  refine ⟨l.1.symm, l.2.1.symm, ?_, l.2.2.2.1.symm⟩
  have := l.2.2.1
  omega

/-- a TRC with another base number is never accepted as successor -/
theorem other_base_rejected (sis : List Signer) (t p : TRC) (hb : t.base ≠ p.base) :
    ∀ u, ¬ Accepts sis t p u := by
  intro u h
  obtain ⟨_, p', hp', hl, _, _⟩ := validateUpdate_ok (accepts_inv h).1
  cases hp'
  exact hb (checkLink_ok hl).2.1.symm

/-- the class of certificates that votes in an update of the given type -/
def votingClass : UpdType → Cls
  | .sensitive => .sens
  | .regular => .reg

theorem votes_of_shape {t p : TRC} {u : Update} (s : UpdShape t p u) :
    castVotes (ofCls (votingClass u.type) p.certs) t.votes = some u.votes := by
  cases s with
  | sensitive v0 rest hv hfirst hvotes hty hacks hnew => rw [hty]; exact hvotes
  | regular v0 rest hv x hfirst hreg hty hnew => rw [hty]; exact (validateRegular_ok hreg).votes

/-- **Votes.** In an accepted update the vote list consists of indices into the predecessor's
certificates, each naming a sensitive (sensitive update) resp. regular (regular update) voting
certificate of the predecessor; there are at least `quorum(predecessor)` of them; they are
pairwise DISTINCT; and each of these certificates has a verifying signature on the TRC. -/
theorem update_accept_imp_votes {sis t p u} (h : Accepts sis t p u) :
    u.votes.map (fun v => (v.1 : Int)) = t.votes ∧
    p.quorum ≤ (u.votes.length : Int) ∧
    (u.votes.map (·.1)).Nodup ∧
    (∀ v ∈ u.votes, p.certs[v.1]? = some v.2 ∧ v.2.cls = votingClass u.type) ∧
    (∀ v ∈ u.votes, SignedBy sis u.votes v) := by
  obtain ⟨hu, _, _, hsig⟩ := accepts_inv h
  obtain ⟨_, p', hp', hl, _, shape⟩ := validateUpdate_ok hu
  cases hp'
  have hc := votes_of_shape shape
  have hv := castVotes_some hc
  have hlen := castVotes_length hc
  have hva := verifyAll_true hsig
  refine ⟨hv.1, ?_, hva.1, ?_, ?_⟩
  · have := (checkLink_ok hl).2.2.2.2
    omega
  · intro v hvm
    exact ofCls_mem (hv.2 v hvm)
  · intro v hvm
    exact signedIdx_entry hva.1 hvm (hva.2 v hvm)

/-- **Quorum of distinct voters (both update types).**  There is a set of pairwise distinct
voting certificates of the predecessor, all of the class required by the update type, at least
as many as the predecessor's quorum, each of which signed the TRC.  For `u.type = .sensitive`
this is `sensitive_quorum_distinct` of DESIGN §5.7: duplicate votes cannot make up a quorum. -/
theorem sensitive_quorum_distinct {sis t p u} (h : Accepts sis t p u) :
    ∃ voters : List ICert,
      (voters.map (·.1)).Nodup ∧ p.quorum ≤ (voters.length : Int) ∧
      (∀ v ∈ voters, p.certs[v.1]? = some v.2 ∧ v.2.cls = votingClass u.type ∧
        SignedBy sis voters v) :=
  let ⟨_, h2, h3, h4, h5⟩ := update_accept_imp_votes h
  ⟨u.votes, h3, h2, fun v hv => ⟨(h4 v hv).1, (h4 v hv).2, h5 v hv⟩⟩

/-- **Classification.** The update is regular exactly when the first vote names a regular
voting certificate of the predecessor (otherwise it must pass as a sensitive update). -/
theorem update_type_iff {sis t p u} (h : Accepts sis t p u) :
    u.type = .regular ↔
      ∃ v0 rest, t.votes = v0 :: rest ∧ (lookup (ofCls .reg p.certs) v0).isSome := by
  obtain ⟨_, p', hp', _, _, shape⟩ := validateUpdate_ok (accepts_inv h).1
  cases hp'
  cases shape with
  | sensitive v0 rest hv hfirst hvotes hty hacks hnew =>
    rw [hty]
    constructor
    · intro hh; cases hh
    · rintro ⟨v0', rest', hv', hs⟩
      rw [hv] at hv'; cases hv'
      rw [hfirst] at hs; cases hs
  | regular v0 rest hv x hfirst hreg hty hnew =>
    rw [hty]
    exact ⟨fun _ => ⟨v0, rest, hv, by simp [hfirst]⟩, fun _ => rfl⟩

/-- **Regular update restrictions.**  In an accepted regular update: quorum, core and
authoritative ASes are unchanged; every sensitive voting certificate is byte-identical to one of
the predecessor (and their number is unchanged); the numbers of root and of regular voting
certificates are unchanged and each of them has a predecessor certificate with the same subject
(none added, none removed); every replaced regular voting certificate cast a vote; every
replaced root certificate acknowledged the update with a verifying signature. -/
theorem regular_accept_imp_restrictions {sis t p u} (h : Accepts sis t p u)
    (hty : u.type = .regular) :
    p.quorum = t.quorum ∧ p.core = t.core ∧ p.auth = t.auth ∧
    (ofCls .sens p.certs).length = (ofCls .sens t.certs).length ∧
    (∀ c ∈ ofCls .sens t.certs, ∃ q ∈ ofCls .sens p.certs, q.2.subj = c.2.subj ∧ q.2.id = c.2.id) ∧
    (ofCls .root p.certs).length = (ofCls .root t.certs).length ∧
    (ofCls .reg p.certs).length = (ofCls .reg t.certs).length ∧
    (∀ c ∈ ofCls .reg t.certs, ∃ q ∈ ofCls .reg p.certs, q.2.subj = c.2.subj ∧
      (q.2.id ≠ c.2.id → (q.1 : Int) ∈ t.votes)) ∧
    (∀ c ∈ ofCls .root t.certs, ∃ q ∈ ofCls .root p.certs, q.2.subj = c.2.subj ∧
      (q.2.id ≠ c.2.id → SignedBy sis u.acks q)) := by
  obtain ⟨hu, _, hack, _⟩ := accepts_inv h
  obtain ⟨_, p', hp', _, _, shape⟩ := validateUpdate_ok hu
  cases hp'
  cases shape with
  | sensitive v0 rest hv hfirst hvotes hty' hacks hnew => rw [hty'] at hty; cases hty
  | regular v0 rest hv x hfirst hreg hty' hnew =>
    have f := validateRegular_ok hreg
    have hva := verifyAll_true hack
    refine ⟨f.quorum, f.core, f.auth, f.sensCount, ?_, f.rootCount, f.regCount, ?_, ?_⟩
    · intro c hc
      exact unchangedIn_true (f.sensSame c hc)
    · intro c hc
      obtain ⟨q, hq, hin⟩ := f.regKept c hc
      exact ⟨q, (findSubj_some hq).1, (findSubj_some hq).2, hin⟩
    · intro c hc
      obtain ⟨q, hq, hin⟩ := f.rootKept c hc
      refine ⟨q, (findSubj_some hq).1, (findSubj_some hq).2, ?_⟩
      intro hne
      have hm := hin hne
      exact signedIdx_entry hva.1 hm (hva.2 q hm)

/-- **None removed.**  In an accepted regular update every root and every regular voting
certificate of the predecessor still has a certificate with the same subject in the successor
(together with `regular_accept_imp_restrictions`: the two subject sets coincide — nothing
added, nothing removed).  Pigeonhole: the successor's subjects are pairwise distinct (C33),
each occurs in the predecessor, and the numbers are equal. -/
theorem regular_accept_none_removed {sis t p u} (h : Accepts sis t p u) (hty : u.type = .regular)
    (k : Cls) (hk : k = .reg ∨ k = .root) :
    ∀ q ∈ ofCls k p.certs, ∃ c ∈ ofCls k t.certs, c.2.subj = q.2.subj := by
  obtain ⟨_, _, _, _, _, hrc, hgc, hreg, hroot⟩ := regular_accept_imp_restrictions h hty
  have rules := update_accept_imp_valid h
  have hnd : ((ofCls k t.certs).map (fun p => p.2.subj)).Nodup := by
    rw [ofCls_subjects]
    exact rules.subject_unique k (by rcases hk with rfl | rfl <;> simp)
  have hsub : (ofCls k t.certs).map (fun p => p.2.subj) ⊆ (ofCls k p.certs).map (fun p => p.2.subj) := by
    intro s hs
    obtain ⟨c, hc, rfl⟩ := List.mem_map.mp hs
    rcases hk with rfl | rfl
    · obtain ⟨q, hq, hsq, _⟩ := hreg c hc
      exact List.mem_map.mpr ⟨q, hq, hsq⟩
    · obtain ⟨q, hq, hsq, _⟩ := hroot c hc
      exact List.mem_map.mpr ⟨q, hq, hsq⟩
  have hlen : ((ofCls k p.certs).map (fun p => p.2.subj)).length ≤
      ((ofCls k t.certs).map (fun p => p.2.subj)).length := by
    rcases hk with rfl | rfl <;> simp <;> omega
  have hc := nodup_of_cover _ _ hnd hsub hlen
  intro q hq
  have : q.2.subj ∈ (ofCls k t.certs).map (fun p => p.2.subj) :=
    hc.2 (List.mem_map.mpr ⟨q, hq, rfl⟩)
  obtain ⟨c, hc', hs⟩ := List.mem_map.mp this
  exact ⟨c, hc', hs⟩

/-- **Proof of possession.**  Every voting certificate of the successor that is not
byte-identical to the predecessor's certificate of the same class and subject — newly
introduced or re-issued, sensitive or regular, in either update type — signed the TRC. -/
theorem new_voters_signed {sis t p u} (h : Accepts sis t p u) (k : Cls)
    (hk : k = .sens ∨ k = .reg) (c : ICert) (hc : c ∈ ofCls k t.certs)
    (hnew : unchangedIn (ofCls k p.certs) c.2 = false) :
    SignedBy sis u.newVoters c := by
  obtain ⟨hu, hnv, _, _⟩ := accepts_inv h
  obtain ⟨_, p', hp', _, _, shape⟩ := validateUpdate_ok hu
  cases hp'
  have hn : u.newVoters = newVoters p.certs t.certs := by
    cases shape with
    | sensitive v0 rest hv hfirst hvotes hty hacks hnew => exact hnew
    | regular v0 rest hv x hfirst hreg hty hnew => exact hnew
  have hva := verifyAll_true hnv
  have hm : c ∈ u.newVoters := by
    rw [hn]
    unfold newVoters
    rw [List.mem_append, List.mem_filter, List.mem_filter]
    rcases hk with rfl | rfl
    · exact Or.inl ⟨hc, by simp [hnew]⟩
    · exact Or.inr ⟨hc, by simp [hnew]⟩
  exact signedIdx_entry hva.1 hm (hva.2 c hm)

/-- **Base TRC.**  A base TRC is accepted exactly when no predecessor is supplied, its payload
is valid and `verifyAll` succeeds for all its voting certificates … -/
theorem base_accept_iff (sis : List Signer) (t : TRC) (p : Option TRC) (hb : t.isBase = true) :
    verify sis t p = .ok none ↔
      p = none ∧ validate t = .ok () ∧ verifyAll sis (newVoters [] t.certs) = true := by
  unfold verify
  simp only [hb, Bool.true_eq_false, if_false]
  cases p with
  | some p' => simp
  | none =>
    cases hv : validate t with
    | error e => simp
    | ok u => cases hvv : verifyAll sis (newVoters [] t.certs) <;> simp

/-- … which implies that every sensitive and every regular voting certificate of the base TRC
signed it. -/
theorem base_accept_imp_all_voters_signed (sis : List Signer) (t : TRC) (p : Option TRC)
    (hb : t.isBase = true) (h : verify sis t p = .ok none) (k : Cls) (hk : k = .sens ∨ k = .reg)
    (c : ICert) (hc : c ∈ ofCls k t.certs) :
    C33.Rules t ∧ SignedBy sis (newVoters [] t.certs) c := by
  obtain ⟨_, hval, hall⟩ := (base_accept_iff sis t p hb).mp h
  refine ⟨(C33.validate_iff_rules t).mp hval, ?_⟩
  have hva := verifyAll_true hall
  have hm : c ∈ newVoters [] t.certs := by
    unfold newVoters
    rw [List.mem_append, List.mem_filter, List.mem_filter]
    have : ∀ k', unchangedIn (ofCls k' ([] : List Cert)) c.2 = false := by
      intro k'; simp [unchangedIn, findSubj, ofCls, withIdx]
    rcases hk with rfl | rfl
    · exact Or.inl ⟨hc, by simp [this]⟩
    · exact Or.inr ⟨hc, by simp [this]⟩
  exact signedIdx_entry hva.1 hm (hva.2 c hm)

/-- a non-base TRC is never accepted without predecessor -/
theorem update_needs_predecessor (sis : List Signer) (t : TRC) (hb : t.isBase = false) :
    ∀ r, verify sis t none ≠ .ok r := by
  intro r h
  unfold verify at h
  simp only [hb, if_true] at h
  split at h
  · cases h
  · rename_i u hu
    obtain ⟨_, p', hp', _⟩ := validateUpdate_ok hu
    cases hp'

/-- **T3.** `verifyUpdate` validates the update and then hands exactly the new voters, the root
acknowledgments and the votes to `verifyAll`; `verifyAll` compares the number of distinct
verified certificates with the number of certificates it was given (the pigeonhole step of
`sensitive_quorum_distinct`); `ValidateUpdate` makes the ID / flag / vote-count comparisons of
`checkLink` in this order (regenerated from `/repo` on every run). -/
theorem gen_update_facts :
    Gen.Pki1Trc.verifyUpdateCalls =
      ["ValidateUpdate(predecessor)", "verifyAll(update.NewVoters)",
       "verifyAll(update.RootAcknowledgments)", "verifyAll(update.Votes)"] ∧
    Gen.Pki1Trc.verifyAllCountCond = ["len(seen) != len(certs)"] ∧
    Gen.Pki1Trc.updateConds =
      ["predecessor == nil", "predecessor.ID.ISD != trc.ID.ISD", "predecessor.ID.Base != trc.ID.Base",
       "predecessor.ID.Serial+1 != trc.ID.Serial", "predecessor.NoTrustReset != trc.NoTrustReset",
       "len(trc.Votes) < predecessor.Quorum"] := by
  refine ⟨by decide, by decide, by decide⟩

/-! ### Non-vacuity -/

def exP : TRC := C33.exTRC
/-- regular update: voters 2 and 3 (the two regular certificates) vote -/
def exT : TRC := { C33.exTRC with serial := 2, votes := [3, 2], grace := 5 }
def sigOf (c : Cert) : Signer := { kind := 1, iss := c.issR, serial := c.serial, ski := 0, okUnder := [c.id] }
def exSis : List Signer := [sigOf (C33.exCert 3 .reg), sigOf (C33.exCert 4 .reg)]

example : ∃ u, Accepts exSis exT exP u ∧ u.type = .regular := by
  refine ⟨{ type := .regular, newVoters := [], votes := [(3, C33.exCert 4 .reg), (2, C33.exCert 3 .reg)],
            acks := [] }, ⟨rfl, ?_⟩, rfl⟩
  rfl
-- a duplicate vote does not make up the quorum
example : verify exSis { exT with votes := [3, 3] } (some exP) = .error .sigVote := by rfl
-- nor does a vote without signature
example : verify [sigOf (C33.exCert 3 .reg)] exT (some exP) = .error .sigVote := by rfl
-- a sensitive voter's index in a regular update is refused
example : verify exSis { exT with votes := [3, 0] } (some exP) = .error (.upd .regVote) := by rfl

end Scion.C32
