import Scion.Model.Pktcls
import Scion.Model.PktclsSyntax
import Scion.Proofs.Pktcls
import Scion.Proofs.PktclsLex
/-!
# C43 — Traffic-class expressions evaluate as written and survive printing

Property theorems only; helper lemmas are in `Scion.Proofs.Pktcls`.  The models
(`Scion.Model.Pktcls`: trees, predicates, `eval`; `Scion.Model.PktclsSyntax`: tokens, `print`,
`parse`, lexer) are tied to `gateway/pktcls` (`Cond.Eval`, `String()`, `BuildClassTree` with the
ANTLR lexer/parser) by `harness/cmd/pktcls`.
-/
namespace Scion.C43
open Scion.Pktcls

/-! ## Evaluation is the boolean value of the expression -/

/-- `all(c₁,…,cₙ)` is the conjunction -/
theorem eval_all (cs : List Cond) (p : Pkt) :
    eval (.all cs) p = cs.all (fun c => eval c p) := by
  rw [eval]; exact Proofs.Pktcls.evalAll_eq cs p

/-- `any(c₁,…,cₙ)`, n ≥ 1, is the disjunction -/
theorem eval_any (cs : List Cond) (p : Pkt) (h : cs ≠ []) :
    eval (.any cs) p = cs.any (fun c => eval c p) := by
  cases cs with
  | nil => exact absurd rfl h
  | cons c cs => rw [eval]; simp [Proofs.Pktcls.evalAny_eq]

/-- the code's convention for the empty disjunction (`len(c) == 0 ⇒ true`); the grammar cannot
produce it, see `parsed_wf` -/
theorem eval_any_empty (p : Pkt) : eval (.any []) p = true := by
  rw [eval]

theorem eval_not (c : Cond) (p : Pkt) : eval (.not c) p = !eval c p := by
  rw [eval]

theorem eval_bool (b : Bool) (p : Pkt) : eval (.bool b) p = b := by
  rw [eval]

/-! ### predicates -/

/-- address predicates: the address agrees with the network on its first `len` bits -/
theorem eval_src (n : Net) (q : V4) :
    eval (.src n) (.v4 q) = true ↔ q.src / 2 ^ (32 - n.len) = n.bits / 2 ^ (32 - n.len) := by
  rw [eval]; simp [evalV4, Net.contains]

theorem eval_dst (n : Net) (q : V4) :
    eval (.dst n) (.v4 q) = true ↔ q.dst / 2 ^ (32 - n.len) = n.bits / 2 ^ (32 - n.len) := by
  rw [eval]; simp [evalV4, Net.contains]

/-- DSCP is the upper six bits of TOS -/
theorem eval_dscp (v : Nat) (q : V4) : eval (.dscp v) (.v4 q) = true ↔ v = q.tos / 4 := by
  rw [eval]; simp [evalV4]

theorem eval_tos (v : Nat) (q : V4) : eval (.tos v) (.v4 q) = true ↔ v = q.tos := by
  rw [eval]; simp [evalV4]

theorem eval_proto (v : Nat) (q : V4) : eval (.proto v) (.v4 q) = true ↔ v = q.proto := by
  rw [eval]; simp [evalV4]

/-- port ranges are inclusive and only apply when ports are visible -/
theorem eval_sport (lo hi : Nat) (q : V4) :
    eval (.sport lo hi) (.v4 q) = true ↔ ∃ s d, ports q = some (s, d) ∧ lo ≤ s ∧ s ≤ hi := by
  rw [eval]
  simp only [evalPorts]
  cases h : ports q with
  | none => simp
  | some sd => obtain ⟨s, d⟩ := sd; simp

theorem eval_dport (lo hi : Nat) (q : V4) :
    eval (.dport lo hi) (.v4 q) = true ↔ ∃ s d, ports q = some (s, d) ∧ lo ≤ d ∧ d ≤ hi := by
  rw [eval]
  simp only [evalPorts]
  cases h : ports q with
  | none => simp
  | some sd =>
    obtain ⟨s, d⟩ := sd
    simp only [ge_iff_le, Bool.and_eq_true, decide_eq_true_eq, Option.some.injEq, Prod.mk.injEq]
    constructor
    · intro hh; exact ⟨s, d, ⟨rfl, rfl⟩, hh⟩
    · rintro ⟨s', d', ⟨rfl, rfl⟩, hh⟩; exact hh

/-- ports are visible only on unfragmented UDP or TCP packets -/
theorem ports_some (q : V4) (sd : Nat × Nat) (h : ports q = some sd) :
    q.frag = false ∧ (q.proto = 17 ∨ q.proto = 6) := by
  unfold ports at h
  cases hf : q.frag
  · simp only [hf, Bool.false_eq_true, if_false] at h
    refine ⟨rfl, ?_⟩
    by_cases h17 : q.proto = 17
    · exact Or.inl h17
    · by_cases h6 : q.proto = 6
      · exact Or.inr h6
      · simp [h17, h6] at h
  · simp [hf] at h

/-- on a well-formed UDP header the ports are the first two 16-bit words -/
theorem udpPorts_spec (s0 s1 d0 d1 l0 l1 c0 c1 : UInt8) (rest : Scion.Util.Bytes)
    (h : be16 l0 l1 ≥ 8 ∨ be16 l0 l1 = 0) :
    udpPorts (s0 :: s1 :: d0 :: d1 :: l0 :: l1 :: c0 :: c1 :: rest) = some (be16 s0 s1, be16 d0 d1) := by
  simp [udpPorts, h]

/-- IPv4 and port predicates are false on anything that is not an IPv4 layer; `cls=` is always
false -/
theorem eval_other (c : Cond) (h : ∃ n, c = .src n ∨ c = .dst n) : eval c .other = false := by
  obtain ⟨n, rfl | rfl⟩ := h <;> (rw [eval]; rfl)

theorem eval_cls (n : Nat) (p : Pkt) : eval (.cls n) p = false := by
  rw [eval]

/-! ## Printing and parsing -/

/-- everything the parser returns is well-formed: non-empty `all`/`any`, masked networks, 8-bit
DSCP/TOS, 16-bit ports, protocols whose name parses back -/
theorem parsed_wf (ts : List Tok) (e : Cond) (h : parse ts = some e) : e.wf = true :=
  Proofs.Pktcls.parse_wf ts e h

/-- the parser inverts the printer on well-formed trees -/
theorem parse_print (e : Cond) (h : e.wf = true) : parse (print e) = some e :=
  Proofs.Pktcls.parse_print e h

/-- the lexer inverts the rendering of a printed well-formed tree: the text `String()` produces
lexes back to exactly the printed tokens (maximal munch never merges or splits them) -/
theorem lex_render_print (e : Cond) (h : e.wf = true) : lex (render (print e)) = print e :=
  Proofs.PktclsLex.lex_render_print e h

/-- **Round-trip clause of C43, full statement**: on the text level, with the lexer. -/
def TextRoundTrip : Prop :=
  ∀ (s : List Char) (e : Cond), parse (lex s) = some e →
    ∃ e', parse (lex (render (print e))) = some e' ∧ ∀ p, eval e' p = eval e p

/-- **Round-trip clause of C43**: an expression parsed from any text, printed and parsed again
(lexer included) is the same expression, hence has the same value on every packet.  `lex`/`parse`
are the Lean lexer and parser; the ANTLR-generated ones are tied to them by T1 on every generated
input (`harness/cmd/pktcls`: real `BuildClassTree` vs `parse ∘ lex`, real `String()` vs
`render ∘ print`). -/
theorem text_round_trip : TextRoundTrip := by
  intro s e h
  have hw := parsed_wf (lex s) e h
  exact ⟨e, by rw [lex_render_print e hw]; exact parse_print e hw, fun _ => rfl⟩

/-- the same on the token level -/
theorem reparse_same_value (ts : List Tok) (e : Cond) (h : parse ts = some e) :
    ∃ e', parse (print e) = some e' ∧ ∀ p, eval e' p = eval e p :=
  ⟨e, parse_print e (parsed_wf ts e h), fun _ => rfl⟩

/-- the protocol names that can be parsed are exactly the letter-only names of the table, and
each of them parses back to its own number -/
theorem proto_names_roundtrip :
    ∀ e ∈ protoTable, lettersOnly e.2 = true → protoNum (protoName e.1) = some e.1 := by
  intro e he hl
  have := Proofs.Pktcls.proto_table_wf e he hl
  simpa [wfProto] using this

/-- 8-bit values survive `%#x` and `ParseUint(·, 16, 8)` whichever token class the digits lex to -/
theorem hex_roundtrip (v : Nat) (h : v < 256) : hexTokValue (hexTok v) = some v :=
  Proofs.Pktcls.hexTok_value v h

/-! ## Non-vacuity -/

private def ex : Cond :=
  .any [.all [.dst ⟨0x0a000000, 8⟩, .dscp 0x2e, .not (.sport 80 443)], .proto 6, .bool false]

private def udp : Pkt :=
  .v4 { src := 0xc0a80001, dst := 0x0a010203, tos := 0xb8, proto := 17, frag := false,
        payload := [0, 53, 0, 53, 0, 8, 0, 0] }

example : ex.wf = true := by decide
example : eval ex udp = true := by decide
example : eval ex (.v4 { src := 1, dst := 2, tos := 0, proto := 17, frag := false, payload := [] })
    = false := by decide
example : parse (print ex) = some ex := parse_print ex (by decide)
example : parse (lex (render (print ex))) = some ex := by
  rw [lex_render_print ex (by decide)]; exact parse_print ex (by decide)
example : parse [.kAny, .lpar, .kDscp, .eq0x, .digits 10, .comma, .kSrcport, .eq, .digits 80, .rpar]
    = some (.any [.dscp 16, .sport 80 80]) := by rfl
example : parse [.kAny, .lpar, .rpar] = none := by rfl

end Scion.C43
