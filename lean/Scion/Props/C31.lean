import Scion.Model.RevCache
import Scion.Proofs.RevCache
import Scion.Gen.StoresFacts
/-!
# C31 — The revocation cache keeps the newest live revocation per interface

Property theorems only.  `Scion.Model.RevCache` mirrors `memRevCache.Insert/Get/GetAll/
DeleteExpired` over the `zcache` item map (lazy expiry, explicit clean-up); it is tied to
`private/revcache/memrevcache` by `harness/cmd/revcache` (random histories against the real cache
with the real wall clock).  `Reachable` = produced from the empty cache by any op sequence.
-/
namespace Scion.C31
open Scion.RevCache

/-- every state the cache can be in: the result of some history from the empty cache -/
def Reachable (s : State) : Prop := ∃ ops, s = (run empty ops).1

theorem reachable_wf {s : State} (h : Reachable s) : WF s := by
  obtain ⟨ops, rfl⟩ := h
  exact wf_run ops empty wf_empty

/-- **acceptance rule** (any state, any clock value): a revocation is accepted iff it is
    unexpired and there is no live revocation for its interface or the live one is strictly
    older. -/
theorem insert_accept_iff (s : State) (now : Nat) (r : Rev) :
    (insert s now r).2 = true ↔
      now < expMs r ∧
        (getLive s now r.key = none ∨ ∃ v, getLive s now r.key = some v ∧ v.ts < r.ts) := by
  unfold RevCache.insert
  by_cases hx : expMs r ≤ now
  · simp only [hx, if_true]
    constructor
    · intro h; cases h
    · intro h; omega
  · simp only [hx, if_false]
    cases hv : getLive s now r.key with
    | none => simp; omega
    | some v =>
      simp only [tsMs]
      by_cases hts : v.ts < r.ts
      · have : v.ts * 1000 < r.ts * 1000 := by omega
        simp [this, hts]; omega
      · have : ¬ v.ts * 1000 < r.ts * 1000 := by omega
        simp [this, hts]

/-- an accepted revocation is what lookups of its interface return exactly until it expires … -/
theorem insert_accepted_effect (s : State) (now t : Nat) (r : Rev)
    (h : (insert s now r).2 = true) :
    getLive (insert s now r).1 t r.key = if t ≤ expMs r then some r else none := by
  have hx : ¬ expMs r ≤ now := by
    have := (insert_accept_iff s now r).mp h; omega
  have hset : (insert s now r).1 = set s r.key ⟨r, now + (expMs r - now)⟩ := by
    unfold RevCache.insert at h ⊢
    simp only [hx, if_false] at h ⊢
    split
    · rfl
    · rename_i v hv
      simp only [hv] at h
      split
      · rfl
      · rename_i hn; simp [hn] at h
  rw [hset, getLive_set]
  simp only [if_true, Item.expired]
  by_cases ht : t ≤ expMs r
  · have : ¬ t > now + (expMs r - now) := by omega
    simp [this, ht]
  · have : t > now + (expMs r - now) := by omega
    simp [this, ht]

/-- … other interfaces are untouched, and a rejected insertion changes nothing at all -/
theorem insert_other_key (s : State) (now t : Nat) (r : Rev) (k : Key) (hk : k ≠ r.key) :
    getLive (insert s now r).1 t k = getLive s t k := by
  have hk' : ¬ r.key = k := fun e => hk e.symm
  unfold RevCache.insert
  split
  · rfl
  · dsimp only
    split
    · rw [getLive_set]; simp [hk']
    · split
      · rw [getLive_set]; simp [hk']
      · rfl

theorem insert_rejected_noop (s : State) (now : Nat) (r : Rev)
    (h : (insert s now r).2 = false) : (insert s now r).1 = s := by
  unfold RevCache.insert at h ⊢
  split
  · rfl
  · rename_i hx
    simp only [hx, if_false] at h
    dsimp only at h ⊢
    split
    · rename_i hv; simp [hv] at h
    · rename_i v hv
      simp only [hv] at h
      split
      · rename_i hn; simp [hn] at h
      · rfl

/-- **expired revocations are never returned**, in any reachable state, at any clock value -/
theorem never_returns_expired {s : State} (hs : Reachable s) (now : Nat) (k : Key) (r : Rev)
    (h : getLive s now k = some r) : r.key = k ∧ now ≤ expMs r := by
  have hwf := reachable_wf hs
  unfold getLive at h
  cases hl : lookup s k with
  | none => simp [hl] at h
  | some it =>
    simp only [hl] at h
    obtain ⟨hk, he⟩ := wf_lookup s k it hwf hl
    by_cases hexp : it.expired now = true
    · simp [hexp] at h
    · simp only [hexp] at h
      cases h
      refine ⟨hk, ?_⟩
      simp only [Item.expired, decide_eq_true_eq] at hexp
      omega

/-- the same for the enumeration: `GetAll` lists only unexpired revocations -/
theorem getAll_unexpired {s : State} (hs : Reachable s) (now : Nat) (r : Rev)
    (h : r ∈ getAll s now) : now ≤ expMs r := by
  have hwf := reachable_wf hs
  unfold getAll at h
  obtain ⟨p, hp, rfl⟩ := List.mem_map.mp h
  obtain ⟨hmem, hq⟩ := List.mem_filter.mp hp
  have := (hwf.2 p hmem).2
  simp only [Item.expired, Bool.not_eq_true', decide_eq_false_iff_not] at hq
  omega

/-- **an older (or equally old) revocation never replaces a newer live one**: it is rejected and
    the cache is unchanged -/
theorem older_never_replaces_newer_live (s : State) (now : Nat) (r v : Rev)
    (hv : getLive s now r.key = some v) (hold : r.ts ≤ v.ts) :
    insert s now r = (s, false) := by
  unfold RevCache.insert
  split
  · rfl
  · simp only [hv, tsMs]
    have : ¬ v.ts * 1000 < r.ts * 1000 := by omega
    simp [this]

/-- consequently the timestamp of the live revocation of an interface never decreases across
    any single operation: what is live before the step and still there after it is at least as
    new -/
theorem live_timestamp_monotone (s : State) (op : Op) (k : Key) (v v' : Rev)
    (hs : WF s) (hv : getLive s op.time k = some v)
    (hv' : getLive (step s op).1 op.time k = some v') : v.ts ≤ v'.ts := by
  cases op with
  | get now k' => simp only [step] at hv'; rw [hv] at hv'; cases hv'; exact Nat.le_refl _
  | getAll now => simp only [step] at hv'; rw [hv] at hv'; cases hv'; exact Nat.le_refl _
  | delExp now =>
    simp only [step, Op.time] at hv hv'
    rw [getLive_deleteExpired s now now k hs (Nat.le_refl _), hv] at hv'
    cases hv'; exact Nat.le_refl _
  | insert now r =>
    simp only [step, Op.time] at hv hv'
    by_cases hk : k = r.key
    · subst hk
      cases hacc : (insert s now r).2 with
      | false =>
        rw [insert_rejected_noop s now r hacc, hv] at hv'
        cases hv'; exact Nat.le_refl _
      | true =>
        rw [insert_accepted_effect s now now r hacc] at hv'
        split at hv'
        · have e : r = v' := Option.some.inj hv'
          rcases ((insert_accept_iff s now r).mp hacc).2 with hn | ⟨w, hw, hlt⟩
          · rw [hv] at hn; cases hn
          · rw [hv] at hw
            have e2 : v = w := Option.some.inj hw
            rw [← e, e2]; omega
        · cases hv'
    · rw [insert_other_key s now now r k hk, hv] at hv'
      cases hv'; exact Nat.le_refl _

/-- **lookup specification over all histories.**  For every history with a non-decreasing
    clock, the cache — with its lazy expiry and explicit clean-ups at arbitrary points — answers
    every insertion and every lookup exactly like the abstract store of the statement: a map
    that remembers per interface the last accepted revocation, accepts iff "unexpired and newer
    than the live stored one", and returns the stored revocation as long as it is unexpired and
    nothing otherwise. -/
theorem get_spec (ops : List Op) (hm : Mono 0 ops) :
    Agree (run empty ops).2 (Spec.run (fun _ => none) ops).2 :=
  (refines_run ops 0 empty _ refines_empty hm).1

/-- … and the state reached keeps answering like the abstract store at every later instant -/
theorem get_spec_after (ops : List Op) (hm : Mono 0 ops) :
    ∃ hi, Mono 0 (ops ++ [.getAll hi]) ∧ ∀ k t, hi ≤ t →
      getLive (run empty ops).1 t k = (Spec.run (fun _ => none) ops).1.get t k := by
  obtain ⟨_, hi, _, hR, hM⟩ := refines_run ops 0 empty _ refines_empty hm
  exact ⟨hi, hM [.getAll hi] ⟨Nat.le_refl _, trivial⟩, hR.2⟩

/-- clean-up removes exactly the expired entries: the count is the number of expired items, and
    no lookup at or after the clean-up instant can tell that it happened -/
theorem cleanup_exact {s : State} (hs : Reachable s) (now : Nat) :
    (deleteExpired s now).2 = (s.filter (fun p => p.2.expired now)).length ∧
      (∀ p ∈ (deleteExpired s now).1, p ∈ s ∧ p.2.expired now = false) ∧
      ∀ k t, now ≤ t → getLive (deleteExpired s now).1 t k = getLive s t k := by
  refine ⟨?_, ?_, ?_⟩
  · simp [deleteExpired, List.countP_eq_length_filter]
  · intro p hp
    have := List.mem_filter.mp hp
    exact ⟨this.1, by simpa using this.2⟩
  · intro k t ht
    exact getLive_deleteExpired s now t k (reachable_wf hs) ht

/-- **enumeration = lookups**: in every reachable state `GetAll` lists exactly the revocations that
    a `Get` of their own interface returns at the same instant -/
theorem mem_getAll_iff {s : State} (hr : Reachable s) (now : Nat) (r : Rev) :
    r ∈ getAll s now ↔ getLive s now r.key = some r := by
  have hs := reachable_wf hr
  constructor
  · intro h
    unfold getAll at h
    obtain ⟨p, hp, rfl⟩ := List.mem_map.mp h
    obtain ⟨hmem, hq⟩ := List.mem_filter.mp hp
    have hk := (hs.2 p hmem).1
    have hl := lookup_of_mem s p hs.1 hmem
    unfold getLive
    rw [← hk, hl]
    simp only [Bool.not_eq_true'] at hq
    simp [hq]
  · intro h
    unfold getLive at h
    cases hl : lookup s r.key with
    | none => simp [hl] at h
    | some it =>
      simp only [hl] at h
      by_cases hexp : it.expired now = true
      · simp [hexp] at h
      · simp only [hexp] at h
        have e : it.rev = r := Option.some.inj h
        unfold getAll
        refine List.mem_map.mpr ⟨(r.key, it), List.mem_filter.mpr ⟨lookup_mem s r.key it hl, ?_⟩, e⟩
        simpa using hexp

/-- … and lists at most one revocation per interface -/
theorem getAll_keys_distinct {s : State} (hr : Reachable s) (now : Nat) :
    (getAll s now).Pairwise (fun a b => a.key ≠ b.key) := by
  have hs := reachable_wf hr
  unfold getAll
  have hf : NoDup (s.filter (fun p => !p.2.expired now)) := noDup_filter s _ hs.1
  have hw : ∀ p ∈ s.filter (fun p => !p.2.expired now), p.1 = p.2.rev.key :=
    fun p hp => (hs.2 p (List.mem_filter.mp hp).1).1
  generalize s.filter (fun p => !p.2.expired now) = l at hf hw
  induction l with
  | nil => exact List.Pairwise.nil
  | cons q rest ih =>
    have hf' := List.pairwise_cons.mp hf
    simp only [List.map_cons]
    refine List.pairwise_cons.mpr ⟨?_, ih hf'.2 (fun p hp => hw p (List.mem_cons_of_mem _ hp))⟩
    intro b hb
    obtain ⟨p, hp, rfl⟩ := List.mem_map.mp hb
    have := hf'.1 p hp
    rw [hw q (List.mem_cons_self), hw p (List.mem_cons_of_mem _ hp)] at this
    exact this

private theorem run_snoc (s : State) (ops : List Op) (op : Op) :
    (run s (ops ++ [op])).1 = (step (run s ops).1 op).1 := by
  induction ops generalizing s with
  | nil => simp [run]
  | cons o rest ih => simp only [List.cons_append, run]; exact ih _

/-- reachability is closed under every operation -/
theorem reachable_step {s : State} (hr : Reachable s) (op : Op) : Reachable (step s op).1 := by
  obtain ⟨ops, rfl⟩ := hr
  exact ⟨ops ++ [op], (run_snoc empty ops op).symm⟩

/-- an accepted revocation is listed by every enumeration until it expires, and once it has
    expired by none -/
theorem accepted_listed_iff {s : State} (hr : Reachable s) (now t : Nat) (r : Rev)
    (h : (insert s now r).2 = true) :
    r ∈ getAll (insert s now r).1 t ↔ t ≤ expMs r := by
  have hr' : Reachable (insert s now r).1 := reachable_step hr (.insert now r)
  rw [mem_getAll_iff hr' t r, insert_accepted_effect s now t r h]
  by_cases ht : t ≤ expMs r <;> simp [ht]

/-- T3: the decisions of `memRevCache.Insert` as they stand in the source (regenerated on every
    run) are the three the model transcribes, in this order: reject when the remaining lifetime
    is not positive, store when nothing live is cached, replace only when strictly newer -/
theorem gen_insert_decisions :
    Scion.Gen.StoresFacts.revInsertConds =
      ["ttl <= 0", "!ok", "rev.Timestamp().After(val.Timestamp())"] := by decide

/-! ## Non-vacuity -/

private def k1 : Key := ⟨0x1ff0000000110, 5⟩
private def rA : Rev := ⟨k1, 1, 100, 20⟩   -- issued 100 s, expires 120 s
private def rB : Rev := ⟨k1, 1, 105, 60⟩   -- newer
private def rC : Rev := ⟨k1, 1, 90, 500⟩   -- older but long-lived

/-- accepted, replaced by a newer one, older one refused while the newer is live, and accepted
    once the newer one has expired; lookups follow -/
example :
    (run empty [.insert 101000 rA, .get 110000 k1, .insert 111000 rB, .insert 112000 rC,
                .insert 112500 rA, .get 113000 k1, .delExp 170000, .get 171000 k1,
                .insert 172000 rC, .get 173000 k1, .insert 600000 rC]).2 =
      [.accepted true, .got (some rA), .accepted true, .accepted false, .accepted false,
       .got (some rB), .deleted 1, .got none, .accepted true, .got (some rC),
       .accepted false] := by decide +kernel

example : Mono 0 [.insert 101000 rA, .get 110000 k1, .delExp 170000] := by
  simp [Mono, Op.time]

example : Reachable (insert empty 101000 rA).1 := ⟨[.insert 101000 rA], rfl⟩

/-- the enumeration of a two-interface cache: one entry per interface, expired one left out -/
example :
    (run empty [.insert 101000 rA, .insert 101500 ⟨⟨0x1ff0000000110, 6⟩, 1, 100, 300⟩,
                .getAll 102000, .getAll 130000]).2 =
      [.accepted true, .accepted true,
       .all [⟨⟨0x1ff0000000110, 6⟩, 1, 100, 300⟩, rA], .all [⟨⟨0x1ff0000000110, 6⟩, 1, 100, 300⟩]] := by
  decide +kernel

end Scion.C31
