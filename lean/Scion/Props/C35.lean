import Scion.Model.TrustStore
import Scion.Proofs.TrustStore
import Scion.Gen.Pki1Trc
/-!
# C35 — The trust store only advances along verified TRC successions

Property theorems only.  Model: `Scion.TrustStore` (`NotifyTRC`, `loadTRCs`, the TRC table);
tied to the real `trust.FetchingProvider`, `trust.LoadTRCs` and the SQLite trust DB by
`harness/cmd/truststore`.  `Ver pred fetched` stands for `fetched.Verify(&pred.TRC) == nil`
(C32); theorems that need to know what verification implies about IDs take `VerLinks Ver`,
which C32 proves of the verification model (`update_accept_imp_link`, and a base TRC is never
accepted with a predecessor).  All theorems hold for every table, every notification, every
fetcher script (errors and wrong TRCs at any step) and every history.
-/
namespace Scion.C35
open Scion.TrustStore

/-- the result of a notification in terms of the TRC that was latest before it -/
theorem notify_eq (Ver : Rec → Rec → Bool) (db : DB) (isd base serial : Nat) (allow : Bool)
    (script : List Fetch) (cur : Rec) (hl : latest db isd = some cur) (hb : cur.base = base)
    (hs : cur.serial < serial) (ha : allow = true) :
    notify Ver db isd base serial allow script =
      (let r := loop Ver (serial - cur.serial) db cur script
       ⟨r.db, r.chain, r.fetches, .loop r.stop⟩) := by
  unfold notify
  simp only [hl]
  have h1 : ¬ cur.base ≠ base := by simpa using hb
  have h2 : ¬ serial ≤ cur.serial := by omega
  simp [h1, h2, ha]

/-- a notification leaves the table alone unless the fetch loop runs -/
theorem notify_noop (Ver : Rec → Rec → Bool) (db : DB) (isd base serial : Nat) (allow : Bool)
    (script : List Fetch)
    (h : latest db isd = none ∨ (∃ cur, latest db isd = some cur ∧
      (cur.base ≠ base ∨ serial ≤ cur.serial ∨ allow = false))) :
    (notify Ver db isd base serial allow script).db = db ∧
    (notify Ver db isd base serial allow script).fetches = 0 := by
  unfold notify
  rcases h with h | ⟨cur, h, hc⟩
  · simp [h]
  · simp only [h]
    by_cases h1 : cur.base ≠ base
    · simp [h1]
    · by_cases h2 : serial ≤ cur.serial
      · simp [h1, h2]
      · rcases hc with hc | hc | hc
        · exact absurd hc h1
        · exact absurd hc h2
        · simp [h1, h2, hc]

/-- **A TRC with another base number is never accepted this way**: a notification whose base
number differs from the latest stored TRC's fails, fetches nothing and stores nothing. -/
theorem base_mismatch_rejected (Ver : Rec → Rec → Bool) (db : DB) (isd base serial : Nat)
    (allow : Bool) (script : List Fetch) (cur : Rec) (hl : latest db isd = some cur)
    (hb : cur.base ≠ base) :
    let r := notify Ver db isd base serial allow script
    r.db = db ∧ r.fetches = 0 ∧ r.out = .baseMismatch ∧ r.out.isOk = false := by
  unfold notify
  simp [hl, hb, Out.isOk]

/-- the part of C35 about one notification -/
structure NotifySpec (Ver : Rec → Rec → Bool) (db : DB) (isd serial : Nat) (script : List Fetch)
    (r : NotifyRes) : Prop where
  /-- nothing is removed -/
  grows : ∀ x ∈ db, x ∈ r.db
  /-- what is new is exactly the chain … -/
  added : ∀ x ∈ r.db, x ∈ db ∨ x ∈ r.chain
  stored : ∀ x ∈ r.chain, x ∈ r.db
  /-- … which consists of the fetcher's first responses, in order (so: stored strictly in order) -/
  in_order : script.take r.chain.length = r.chain.map Fetch.trc
  /-- at most one request beyond what was stored: it stops at the first failure -/
  stops : r.fetches ≤ r.chain.length + 1
  /-- success means every missing TRC was stored -/
  complete : ∀ cur, latest db isd = some cur → r.out.isOk = true → cur.serial < serial →
    r.chain.length = serial - cur.serial
  /-- each stored TRC was verified against the previously latest one -/
  verified : ∀ cur, latest db isd = some cur → Chain Ver cur r.chain

/-- the two ways a notification can go: nothing happens, or the fetch loop runs from the
latest stored TRC -/
theorem notify_cases (Ver : Rec → Rec → Bool) (db : DB) (isd base serial : Nat) (allow : Bool)
    (script : List Fetch) :
    (∃ o, notify Ver db isd base serial allow script = ⟨db, [], 0, o⟩ ∧
      (o.isOk = true → ∀ cur, latest db isd = some cur → ¬ cur.serial < serial)) ∨
    (∃ cur, latest db isd = some cur ∧ cur.base = base ∧ cur.serial < serial ∧
      notify Ver db isd base serial allow script =
        ⟨(loop Ver (serial - cur.serial) db cur script).db,
         (loop Ver (serial - cur.serial) db cur script).chain,
         (loop Ver (serial - cur.serial) db cur script).fetches,
         .loop (loop Ver (serial - cur.serial) db cur script).stop⟩) := by
  cases hl : latest db isd with
  | none => left; exact ⟨.notFound, by simp [notify, hl], by simp [Out.isOk]⟩
  | some cur =>
    by_cases h1 : cur.base ≠ base
    · left; exact ⟨.baseMismatch, by simp [notify, hl, h1], by simp [Out.isOk]⟩
    · by_cases h2 : serial ≤ cur.serial
      · left
        refine ⟨.upToDate, by simp [notify, hl, h1, h2], ?_⟩
        intro _ c hc
        cases hc; omega
      · by_cases h3 : allow = false
        · left; exact ⟨.notAllowed, by simp [notify, hl, h1, h2, h3], by simp [Out.isOk]⟩
        · right
          refine ⟨cur, rfl, by simpa using h1, by omega, ?_⟩
          simp [notify, hl, h1, h2, h3]

/-- **Stored in order, each verified, stop at the first failure** — for every table, target ID
and fetcher script. -/
theorem stored_in_order_each_verified (Ver : Rec → Rec → Bool) (db : DB) (isd base serial : Nat)
    (allow : Bool) (script : List Fetch) :
    NotifySpec Ver db isd serial script (notify Ver db isd base serial allow script) := by
  rcases notify_cases Ver db isd base serial allow script with ⟨o, heq, ho⟩ | ⟨cur, hl, _, _, heq⟩
  · rw [heq]
    exact { grows := fun x h => h, added := fun x h => Or.inl h, stored := by simp,
            in_order := by simp, stops := by simp,
            complete := fun cur hc hok hlt => absurd hlt (ho hok cur hc),
            verified := fun _ _ => trivial }
  · rw [heq]
    have s := loop_spec Ver (serial - cur.serial) db cur script
    exact
      { grows := s.sub, added := s.added, stored := s.stored, in_order := s.prefix_
        stops := by
          by_cases hd : (loop Ver (serial - cur.serial) db cur script).stop = .done
          · have := s.done hd; simp only; omega
          · by_cases he : (loop Ver (serial - cur.serial) db cur script).stop = .scriptEnd
            · have := s.scriptEnd he; simp only; omega
            · have := s.failFetches hd he; simp only; omega
        complete := by
          intro c hc hok _
          rw [hl] at hc; cases hc
          have : (loop Ver (serial - cur.serial) db cur script).stop = .done := by
            cases hst : (loop Ver (serial - cur.serial) db cur script).stop <;>
              simp [Out.isOk, hst] at hok ⊢
          exact (s.done this).1
        verified := by intro c hc; rw [hl] at hc; cases hc; exact s.chain }

/-- **What stops the loop.**  If the loop ran and did not store all missing TRCs, the response
to the last request was an error, a TRC that does not verify against the last accepted one, or
a TRC whose ID is already taken by a different TRC in the table. -/
theorem stops_at_first_failure (Ver : Rec → Rec → Bool) (db : DB) (isd base serial : Nat)
    (script : List Fetch) (cur : Rec) (hl : latest db isd = some cur) (hb : cur.base = base)
    (hs : cur.serial < serial) :
    let r := notify Ver db isd base serial true script
    r.chain.length < serial - cur.serial →
      r.out.isOk = false ∧
      (script[r.chain.length]? = none ∨
       script[r.chain.length]? = some .err ∨
       ∃ f, script[r.chain.length]? = some (.trc f) ∧
         (Ver (lastOf cur r.chain) f = false ∨
          ∃ x ∈ r.db, x.isd = f.isd ∧ x.base = f.base ∧ x.serial = f.serial ∧ x.fp ≠ f.fp)) := by
  rw [notify_eq Ver db isd base serial true script cur hl hb hs rfl]
  have s := loop_spec Ver (serial - cur.serial) db cur script
  intro r hlt
  cases hst : (loop Ver (serial - cur.serial) db cur script).stop with
  | done => have := s.done hst; simp only [r] at hlt; omega
  | fetchErr => exact ⟨by simp [r, Out.isOk, hst], Or.inr (Or.inl (s.fetchErr hst))⟩
  | verifyErr =>
    obtain ⟨f, h1, h2⟩ := s.verifyErr hst
    exact ⟨by simp [r, Out.isOk, hst], Or.inr (Or.inr ⟨f, h1, Or.inl h2⟩)⟩
  | insertErr =>
    obtain ⟨f, h1, _, h3⟩ := s.insertErr hst
    exact ⟨by simp [r, Out.isOk, hst], Or.inr (Or.inr ⟨f, h1, Or.inr h3⟩)⟩
  | scriptEnd =>
    have := (s.scriptEnd hst).1
    exact ⟨by simp [r, Out.isOk, hst], Or.inl (by simp only [r]; rw [List.getElem?_eq_none]; omega)⟩

/-- **IDs of what is stored.**  Given what verification guarantees (C32), the TRCs a
notification stores carry the ISD and base number of the previously latest TRC and the serial
numbers `latest+1, latest+2, …` without gap — in particular never another base number and never
beyond the notified serial. -/
theorem stored_ids (Ver : Rec → Rec → Bool) (hV : VerLinks Ver) (db : DB) (isd base serial : Nat)
    (allow : Bool) (script : List Fetch) (cur : Rec) (hl : latest db isd = some cur) :
    let r := notify Ver db isd base serial allow script
    ∀ i (hi : i < r.chain.length), r.chain[i].isd = isd ∧ r.chain[i].base = cur.base ∧
      r.chain[i].serial = cur.serial + i + 1 ∧ r.chain[i].serial ≤ serial := by
  intro r i hi
  have sp := stored_in_order_each_verified Ver db isd base serial allow script
  have ids := chain_ids hV (sp.verified cur hl) i hi
  have hisd := (latest_some hl).2.1
  refine ⟨by rw [ids.1, hisd], ids.2.1, ids.2.2, ?_⟩
  -- the chain is never longer than the number of missing TRCs
  have hlen : r.chain.length ≤ serial - cur.serial := by
    show (notify Ver db isd base serial allow script).chain.length ≤ _
    unfold notify
    simp only [hl]
    split
    · simp
    · split
      · simp
      · split
        · simp
        · exact (loop_spec Ver (serial - cur.serial) db cur script).len
  rw [ids.2.2]
  omega

/-! ### histories -/

theorem step_grows (Ver : Rec → Rec → Bool) (s : State) (op : Op) :
    ∀ x ∈ s.db, x ∈ (step Ver s op).db := by
  cases op with
  | notify isd base serial allow script =>
    exact (stored_in_order_each_verified Ver s.db isd base serial allow script).grows
  | load files => exact (load_spec s.db files).1

theorem run_grows (Ver : Rec → Rec → Bool) (s : State) (ops : List Op) :
    ∀ x ∈ s.db, x ∈ (run Ver s ops).db := by
  induction ops generalizing s with
  | nil => intro x h; exact h
  | cons op ops ih =>
    intro x h
    exact ih (step Ver s op) x (step_grows Ver s op x h)

/-- **The latest stored TRC never regresses**, over every history of notifications and loads
(with arbitrary fetch failures and wrong TRCs): whatever was the latest TRC of an ISD, the latest
TRC afterwards is not older (`ORDER BY base, serial`). -/
theorem latest_monotone (Ver : Rec → Rec → Bool) (s : State) (ops : List Op) (isd : Nat) (a : Rec)
    (h : latest s.db isd = some a) :
    ∃ b, latest (run Ver s ops).db isd = some b ∧ newer a b = false :=
  latest_mono (run_grows Ver s ops) h

/-- every stored TRC either came from the local directory or was verified against a TRC that is
in the store -/
def Grounded (Ver : Rec → Rec → Bool) (s : State) : Prop :=
  ∀ r ∈ s.db, r ∈ s.loaded ∨ ∃ p ∈ s.db, Ver p r = true

theorem chain_grounded {Ver : Rec → Rec → Bool} {cur : Rec} {chain : List Rec}
    (h : Chain Ver cur chain) : ∀ r ∈ chain, ∃ p, (p = cur ∨ p ∈ chain) ∧ Ver p r = true := by
  induction chain generalizing cur with
  | nil => intro r hr; cases hr
  | cons f fs ih =>
    intro r hr
    rcases List.mem_cons.mp hr with rfl | hr
    · exact ⟨cur, Or.inl rfl, h.1⟩
    · obtain ⟨p, hp, hv⟩ := ih h.2 r hr
      rcases hp with rfl | hp
      · exact ⟨p, Or.inr List.mem_cons_self, hv⟩
      · exact ⟨p, Or.inr (List.mem_cons_of_mem _ hp), hv⟩

theorem step_grounded (Ver : Rec → Rec → Bool) (s : State) (op : Op) (h : Grounded Ver s) :
    Grounded Ver (step Ver s op) := by
  cases op with
  | notify isd base serial allow script =>
    have sp := stored_in_order_each_verified Ver s.db isd base serial allow script
    intro r hr
    rcases sp.added r hr with hold | hnew
    · rcases h r hold with h1 | ⟨p, hp, hv⟩
      · exact Or.inl h1
      · exact Or.inr ⟨p, sp.grows p hp, hv⟩
    · -- a new TRC: the loop ran, so there was a latest TRC
      cases hl : latest s.db isd with
      | none =>
        have := (notify_noop Ver s.db isd base serial allow script (Or.inl hl))
        have hc : (notify Ver s.db isd base serial allow script).chain = [] := by
          unfold notify; simp [hl]
        rw [hc] at hnew; cases hnew
      | some cur =>
        obtain ⟨p, hp, hv⟩ := chain_grounded (sp.verified cur hl) r hnew
        refine Or.inr ⟨p, ?_, hv⟩
        rcases hp with rfl | hp
        · exact sp.grows p (latest_some hl).1
        · exact sp.stored p hp
  | load files =>
    have ls := load_spec s.db files
    intro r hr
    rcases ls.2.1 r hr with hold | hnew
    · rcases h r hold with h1 | ⟨p, hp, hv⟩
      · exact Or.inl (List.mem_append_left _ h1)
      · exact Or.inr ⟨p, ls.1 p hp, hv⟩
    · exact Or.inl (List.mem_append_right _ hnew)

/-- **Only verified successions, over all histories.**  Starting from an empty store, after any
history every stored TRC was either loaded from the local directory or verified as successor of
a TRC in the store. -/
theorem grounded_run (Ver : Rec → Rec → Bool) (s : State) (ops : List Op) (h : Grounded Ver s) :
    Grounded Ver (run Ver s ops) := by
  induction ops generalizing s with
  | nil => exact h
  | cons op ops ih => exact ih (step Ver s op) (step_grounded Ver s op h)

theorem grounded_from_empty (Ver : Rec → Rec → Bool) (ops : List Op) :
    Grounded Ver (run Ver ⟨[], []⟩ ops) :=
  grounded_run Ver _ ops (by intro r hr; cases hr)

/-- **TRCs loaded from disk whose validity starts in the future are ignored**: whatever
`loadTRCs` adds to the table comes from a file that is not in the future; nothing is removed. -/
theorem loadTRCs_ignores_future (db : DB) (files : List File) :
    (∀ x ∈ db, x ∈ (load db files).db) ∧
    (∀ x ∈ (load db files).db, x ∈ db ∨ File.trc x false ∈ files) := by
  have ls := load_spec db files
  refine ⟨ls.1, ?_⟩
  intro x hx
  rcases ls.2.1 x hx with h | h
  · exact Or.inl h
  · exact Or.inr (ls.2.2 x h)

/-- **T3.** The fetch loop of `NotifyTRC` runs over `latest+1 … id.Serial`, and in each round
fetches, verifies against the current TRC, inserts and only then advances the current TRC;
`loadTRCs` skips a file iff now is before the TRC's `NotBefore` (regenerated from `/repo`). -/
theorem gen_notify_loop :
    Gen.Pki1Trc.notifyLoop = ["serial := trc.TRC.ID.Serial + 1", "serial <= id.Serial", "serial++"] ∧
    Gen.Pki1Trc.notifyLoopCalls = ["TRC(o.server)", "Verify(&trc.TRC)", "InsertTRC(fetched)"] ∧
    Gen.Pki1Trc.notifyLoopAssigns =
      ["toFetch := cppki.TRCID{ISD: id.ISD, Base: id.Base, Serial: serial}",
       "fetched, err := p.Fetcher.TRC(ctx, toFetch, o.server)", "trc = fetched"] ∧
    Gen.Pki1Trc.loadFutureCond = "time.Now().Before(trc.TRC.Validity.NotBefore)" := by
  refine ⟨by decide, by decide, by decide, by decide⟩

/-! ### Non-vacuity -/

def r1 : Rec := ⟨1, 1, 1, 10⟩
def r2 : Rec := ⟨1, 1, 2, 20⟩
def r3 : Rec := ⟨1, 1, 3, 30⟩
def r3bad : Rec := ⟨1, 1, 3, 31⟩
def exVer : Rec → Rec → Bool := fun p f =>
  f.isd == p.isd && f.base == p.base && f.serial == p.serial + 1 &&
    ((p.fp, f.fp) == (10, 20) || (p.fp, f.fp) == (20, 30))

example : VerLinks exVer := by
  intro p f h
  simp only [exVer, Bool.and_eq_true, beq_iff_eq] at h
  exact ⟨h.1.1.1, h.1.1.2, h.1.2⟩

-- two missing TRCs fetched, verified and stored in order
example : (notify exVer [r1] 1 1 3 true [.trc r2, .trc r3]).db = [r1, r2, r3] := by rfl
-- a wrong TRC at the second step: the first is kept, the loop stops, the result is an error
example : (notify exVer [r1] 1 1 3 true [.trc r2, .trc r3bad]).db = [r1, r2] ∧
    (notify exVer [r1] 1 1 3 true [.trc r2, .trc r3bad]).out = .loop .verifyErr ∧
    (notify exVer [r1] 1 1 3 true [.trc r2, .trc r3bad, .trc r3]).fetches = 2 := by
  refine ⟨rfl, rfl, rfl⟩
-- a fetch error at the first step: nothing stored
example : (notify exVer [r1] 1 1 3 true [.err, .trc r2]).db = [r1] := by rfl
-- another base number
example : (notify exVer [r1] 1 2 3 true [.trc r2]).out = .baseMismatch := by rfl
-- a future TRC on disk is ignored, a current one is loaded
example : (load [] [.trc r2 true, .trc r1 false]).db = [r1] := by rfl

end Scion.C35
