import Scion.Model.Trc
/-! Stage lemmas for `Scion.Trc.validate`: each stage accepts iff its rule holds. -/
namespace Scion.Trc

theorem andThen_ok_iff (a b : Except Err Unit) :
    andThen a b = .ok () ↔ a = .ok () ∧ b = .ok () := by
  unfold andThen
  cases a <;> simp

theorem andThen_error_iff (a b : Except Err Unit) (e : Err) :
    andThen a b = .error e ↔ a = .error e ∨ (a = .ok () ∧ b = .error e) := by
  unfold andThen
  cases a <;> simp

theorem checkID_ok_iff (t : TRC) :
    checkID t = .ok () ↔ t.isd ≠ 0 ∧ t.base ≤ t.serial ∧ 1 ≤ t.base := by
  unfold checkID
  grind

theorem checkHead_ok_iff (t : TRC) :
    checkHead t = .ok () ↔
      t.version = 1 ∧ (t.isd ≠ 0 ∧ t.base ≤ t.serial ∧ 1 ≤ t.base) ∧ t.nb < t.na ∧
      (t.serial = t.base → t.grace = 0) ∧ (t.serial = t.base → t.votes = []) ∧
      1 ≤ t.quorum ∧ t.quorum ≤ 255 := by
  rw [← checkID_ok_iff]
  unfold checkHead TRC.isBase
  grind [andThen_ok_iff]

theorem asSeqLoop_ok_iff (l : List Nat) : asSeqLoop l = .ok () ↔ 0 ∉ l ∧ l.Nodup := by
  induction l with
  | nil => simp [asSeqLoop]
  | cons a rest ih =>
    unfold asSeqLoop
    simp only [List.mem_cons, not_or, List.nodup_cons]
    grind

theorem asSeq_ok_iff (l : List Nat) : asSeq l = .ok () ↔ l ≠ [] ∧ 0 ∉ l ∧ l.Nodup := by
  unfold asSeq
  rw [← asSeqLoop_ok_iff]
  grind

/-- the certificate is classifiable as one of the three kinds a TRC may carry -/
def Cert.votingOrRoot (c : Cert) : Prop := c.cls = .sens ∨ c.cls = .reg ∨ c.cls = .root

theorem classify_ok_iff (cs : List Cert) :
    classify cs = .ok () ↔ ∀ c ∈ cs, c.votingOrRoot := by
  induction cs with
  | nil => simp [classify]
  | cons c cs ih =>
    unfold classify
    simp only [List.mem_cons, forall_eq_or_imp, Cert.votingOrRoot]
    cases h : c.cls <;> simp [ih, Cert.votingOrRoot]

/-- the certificate belongs to the TRC's ISD and covers the TRC's validity -/
def Cert.okFor (t : TRC) (c : Cert) : Prop :=
  c.iaKind ≠ 0 ∧ (c.iaKind = 2 → c.isd = t.isd) ∧ c.nb ≤ t.nb ∧ t.na ≤ c.na

theorem checkCerts_ok_iff (t : TRC) (cs : List Cert) :
    checkCerts t cs = .ok () ↔ ∀ c ∈ cs, c.okFor t := by
  induction cs with
  | nil => simp [checkCerts]
  | cons c cs ih =>
    unfold checkCerts
    simp only [List.mem_cons, forall_eq_or_imp]
    rw [← ih]
    unfold Cert.okFor
    grind

/-- two certificates clash on issuer + serial number -/
def Cert.clash (a b : Cert) : Prop := a.serial = b.serial ∧ a.issN = b.issN

theorem sameIssuerSerial_iff (a b : Cert) : sameIssuerSerial a b = true ↔ a.clash b := by
  simp [sameIssuerSerial, Cert.clash]

theorem issSerialUnique_ok_iff (cs : List Cert) :
    issSerialUnique cs = .ok () ↔ cs.Pairwise (fun a b => ¬ a.clash b) := by
  induction cs with
  | nil => simp [issSerialUnique]
  | cons a rest ih =>
    unfold issSerialUnique
    rw [List.pairwise_cons, ← ih]
    have : rest.any (sameIssuerSerial a) = true ↔ ∃ b ∈ rest, a.clash b := by
      rw [List.any_eq_true]; simp only [sameIssuerSerial_iff]
    grind

theorem subjUniqueLoop_ok_iff (l : List Nat) : subjUniqueLoop l = .ok () ↔ l.Nodup := by
  induction l with
  | nil => simp [subjUniqueLoop]
  | cons a rest ih =>
    unfold subjUniqueLoop
    rw [List.nodup_cons, ← ih]
    grind

theorem checkBody_ok_iff (t : TRC) :
    checkBody t = .ok () ↔
      (∀ c ∈ t.certs, c.votingOrRoot) ∧
      t.quorum ≤ (countCls .sens t.certs : Int) ∧ t.quorum ≤ (countCls .reg t.certs : Int) ∧
      (∀ c ∈ t.certs, c.okFor t) ∧
      t.certs.Pairwise (fun a b => ¬ a.clash b) ∧
      (subjectsOf .sens t.certs).Nodup ∧ (subjectsOf .reg t.certs).Nodup ∧
      (subjectsOf .root t.certs).Nodup := by
  unfold checkBody
  rw [← classify_ok_iff, ← checkCerts_ok_iff, ← issSerialUnique_ok_iff,
    ← subjUniqueLoop_ok_iff, ← subjUniqueLoop_ok_iff, ← subjUniqueLoop_ok_iff]
  grind [andThen_ok_iff]

end Scion.Trc
