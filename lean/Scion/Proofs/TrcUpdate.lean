import Scion.Model.TrcUpdate
import Scion.Proofs.Trc
import Batteries.Data.List.Perm
/-! Lemmas about the update / signature model (`Scion.Model.TrcUpdate`). -/
namespace Scion.Trc

/-! ### indexed certificate maps -/

theorem withIdx_mem {n : Nat} {cs : List Cert} {p : ICert} (h : p ∈ withIdx n cs) :
    n ≤ p.1 ∧ cs[p.1 - n]? = some p.2 := by
  induction cs generalizing n with
  | nil => simp [withIdx] at h
  | cons c cs ih =>
    simp only [withIdx, List.mem_cons] at h
    rcases h with rfl | h
    · simp
    · have := ih h
      refine ⟨by omega, ?_⟩
      have e : p.1 - n = (p.1 - (n + 1)) + 1 := by omega
      rw [e, List.getElem?_cons_succ]
      exact this.2

theorem withIdx_lt {n : Nat} {cs : List Cert} {p : ICert} (h : p ∈ withIdx (n + 1) cs) :
    p.1 ≠ n := by
  have := (withIdx_mem h).1
  omega

theorem withIdx_nodup (n : Nat) (cs : List Cert) : ((withIdx n cs).map (·.1)).Nodup := by
  induction cs generalizing n with
  | nil => simp [withIdx]
  | cons c cs ih =>
    simp only [withIdx, List.map_cons, List.nodup_cons, List.mem_map, not_exists, not_and]
    refine ⟨?_, ih (n + 1)⟩
    intro p hp e
    exact withIdx_lt hp e

theorem ofCls_mem {k : Cls} {cs : List Cert} {p : ICert} (h : p ∈ ofCls k cs) :
    cs[p.1]? = some p.2 ∧ p.2.cls = k := by
  unfold ofCls at h
  rw [List.mem_filter] at h
  have := withIdx_mem h.1
  exact ⟨by simpa using this.2, by simpa using h.2⟩

theorem ofCls_nodup (k : Cls) (cs : List Cert) : ((ofCls k cs).map (·.1)).Nodup := by
  unfold ofCls
  exact List.Nodup.sublist (List.Sublist.map _ List.filter_sublist) (withIdx_nodup 0 cs)

theorem lookup_some {m : List ICert} {v : Int} {p : ICert} (h : lookup m v = some p) :
    p ∈ m ∧ (p.1 : Int) = v := by
  unfold lookup at h
  have h1 := List.mem_of_find?_eq_some h
  have h2 := List.find?_some h
  exact ⟨h1, by simpa using h2⟩

theorem findSubj_some {m : List ICert} {c : Cert} {p : ICert} (h : findSubj m c = some p) :
    p ∈ m ∧ p.2.subj = c.subj := by
  unfold findSubj at h
  exact ⟨List.mem_of_find?_eq_some h, by simpa using List.find?_some h⟩

theorem unchangedIn_true {m : List ICert} {c : Cert} (h : unchangedIn m c = true) :
    ∃ p ∈ m, p.2.subj = c.subj ∧ p.2.id = c.id := by
  unfold unchangedIn at h
  split at h
  · rename_i p hp
    have := findSubj_some hp
    exact ⟨p, this.1, this.2, by simpa using h⟩
  · cases h

/-! ### votes -/

theorem castVotes_some {m : List ICert} {vs : List Int} {r : List ICert}
    (h : castVotes m vs = some r) :
    r.map (fun p => (p.1 : Int)) = vs ∧ ∀ p ∈ r, p ∈ m := by
  induction vs generalizing r with
  | nil => simp [castVotes] at h; subst h; simp
  | cons v vs ih =>
    unfold castVotes at h
    split at h
    · cases h
    · rename_i c hc
      split at h
      · cases h
      · rename_i r' hr'
        cases h
        have h1 := lookup_some hc
        have h2 := ih hr'
        refine ⟨by simp [h1.2, h2.1], ?_⟩
        intro p hp
        rcases List.mem_cons.mp hp with rfl | hp
        · exact h1.1
        · exact h2.2 p hp

theorem castVotes_length {m : List ICert} {vs : List Int} {r : List ICert}
    (h : castVotes m vs = some r) : r.length = vs.length := by
  have := (castVotes_some h).1
  rw [← this]; simp

/-! ### signatures -/

theorem findCert_some {si : Signer} {certs : List ICert} {p : ICert}
    (h : findCert si certs = .some p) : p ∈ certs := by
  unfold findCert at h
  split at h
  · split at h
    · rename_i q hq; cases h; exact List.mem_of_find?_eq_some hq
    · cases h
  · split at h
    · split at h
      · rename_i q hq; cases h; exact List.mem_of_find?_eq_some hq
      · cases h
    · cases h

/-- `i` was verified: some signer info names the certificate with payload index `i` and its
signature verifies under that certificate -/
def SignedIdx (sis : List Signer) (certs : List ICert) (i : Nat) : Prop :=
  ∃ si ∈ sis, ∃ p, findCert si certs = .some p ∧ p.1 = i ∧ p.2.id ∈ si.okUnder

theorem verifyLoop_inv {certs : List ICert} {sis : List Signer} {seen seen' : List Nat}
    (h : verifyLoop certs sis seen = some seen') (hn : seen.Nodup) :
    seen'.Nodup ∧ ∀ i ∈ seen', i ∈ seen ∨ (i ∈ certs.map (·.1) ∧ SignedIdx sis certs i) := by
  induction sis generalizing seen with
  | nil =>
    simp only [verifyLoop, Option.some.injEq] at h
    subst h
    exact ⟨hn, fun i hi => Or.inl hi⟩
  | cons si sis ih =>
    unfold verifyLoop at h
    split at h
    · cases h
    · have := ih h hn
      refine ⟨this.1, ?_⟩
      intro i hi
      rcases this.2 i hi with h1 | ⟨h1, s, hs, hh⟩
      · exact Or.inl h1
      · exact Or.inr ⟨h1, s, List.mem_cons_of_mem _ hs, hh⟩
    · rename_i p hp
      split at h
      · rename_i hok
        have hn' : (if p.1 ∈ seen then seen else p.1 :: seen).Nodup := by
          split
          · exact hn
          · rename_i hni; exact List.nodup_cons.mpr ⟨hni, hn⟩
        have := ih h hn'
        refine ⟨this.1, ?_⟩
        intro i hi
        rcases this.2 i hi with h1 | ⟨h1, s, hs, hh⟩
        · by_cases hps : p.1 ∈ seen
          · simp only [hps, if_true] at h1; exact Or.inl h1
          · simp only [hps, if_false, List.mem_cons] at h1
            rcases h1 with rfl | h1
            · refine Or.inr ⟨List.mem_map.mpr ⟨p, findCert_some hp, rfl⟩, si, List.mem_cons_self, p, hp, rfl, hok⟩
            · exact Or.inl h1
        · exact Or.inr ⟨h1, s, List.mem_cons_of_mem _ hs, hh⟩
      · cases h

theorem nodup_of_cover {α} (seen l : List α) (hn : seen.Nodup) (hs : seen ⊆ l)
    (hl : l.length ≤ seen.length) : l.Nodup ∧ l ⊆ seen := by
  classical
  have h1 := List.subperm_of_subset hn hs
  have h2 := h1.perm_of_length_le hl
  exact ⟨(h2.nodup_iff).mp hn, fun x hx => h2.symm.subset hx⟩

/-- `verifyAll` succeeds only if the certificates are pairwise distinct (as payload entries) and
each of them has a verifying signer info. -/
theorem verifyAll_true {sis : List Signer} {certs : List ICert} (h : verifyAll sis certs = true) :
    (certs.map (·.1)).Nodup ∧ ∀ p ∈ certs, SignedIdx sis certs p.1 := by
  unfold verifyAll at h
  split at h
  · cases h
  · rename_i seen hs
    have hlen : seen.length = certs.length := by simpa using h
    have inv := verifyLoop_inv hs List.nodup_nil
    have hsub : seen ⊆ certs.map (·.1) := by
      intro i hi
      rcases inv.2 i hi with h1 | h1
      · cases h1
      · exact h1.1
    have hc := nodup_of_cover seen (certs.map (·.1)) inv.1 hsub (by simp [hlen])
    refine ⟨hc.1, ?_⟩
    intro p hp
    have : p.1 ∈ seen := hc.2 (List.mem_map.mpr ⟨p, hp, rfl⟩)
    rcases inv.2 p.1 this with h1 | h1
    · cases h1
    · exact h1.2

theorem nodup_map_inj {α β} {f : α → β} {l : List α} (hn : (l.map f).Nodup) {a b : α}
    (ha : a ∈ l) (hb : b ∈ l) (h : f a = f b) : a = b := by
  induction l with
  | nil => cases ha
  | cons x xs ih =>
    simp only [List.map_cons, List.nodup_cons, List.mem_map, not_exists, not_and] at hn
    rcases List.mem_cons.mp ha with rfl | ha' <;> rcases List.mem_cons.mp hb with rfl | hb'
    · rfl
    · exact absurd h.symm (hn.1 b hb')
    · exact absurd h (hn.1 a ha')
    · exact ih hn.2 ha' hb'

/-- with pairwise distinct indices, the signer's certificate is the entry itself -/
theorem signedIdx_entry {sis : List Signer} {certs : List ICert}
    (hn : (certs.map (·.1)).Nodup) {p : ICert} (hp : p ∈ certs) (h : SignedIdx sis certs p.1) :
    ∃ si ∈ sis, findCert si certs = .some p ∧ p.2.id ∈ si.okUnder := by
  obtain ⟨si, hsi, q, hq, hi, hok⟩ := h
  have hqm := findCert_some hq
  have : q = p := by
    exact nodup_map_inj hn hqm hp hi
  subst this
  exact ⟨si, hsi, hq, hok⟩

end Scion.Trc

namespace Scion.Trc

/-! ### inversion of `validateUpdate` / `validateRegular` / `verify` -/

theorem checkLink_ok {t p : TRC} (h : checkLink t p = .ok ()) :
    p.isd = t.isd ∧ p.base = t.base ∧ (p.serial + 1) % 2^64 = t.serial ∧
    p.noTrustReset = t.noTrustReset ∧ p.quorum ≤ (t.votes.length : Int) := by
  unfold checkLink at h
  grind

/-- the two ways `ValidateUpdate` can succeed -/
inductive UpdShape (t p : TRC) (u : Update) : Prop where
  | sensitive (v0 : Int) (rest : List Int) (hv : t.votes = v0 :: rest)
      (hfirst : lookup (ofCls .reg p.certs) v0 = none)
      (hvotes : castVotes (ofCls .sens p.certs) t.votes = some u.votes)
      (hty : u.type = .sensitive) (hacks : u.acks = [])
      (hnew : u.newVoters = newVoters p.certs t.certs)
  | regular (v0 : Int) (rest : List Int) (hv : t.votes = v0 :: rest) (x : ICert)
      (hfirst : lookup (ofCls .reg p.certs) v0 = some x)
      (hreg : validateRegular t p = .ok (u.votes, u.acks))
      (hty : u.type = .regular)
      (hnew : u.newVoters = newVoters p.certs t.certs)

theorem validateUpdate_ok {t : TRC} {p : Option TRC} {u : Update}
    (h : validateUpdate t p = .ok u) :
    validate t = .ok () ∧ ∃ p', p = some p' ∧ checkLink t p' = .ok () ∧
      classify p'.certs = .ok () ∧ UpdShape t p' u := by
  unfold validateUpdate at h
  split at h
  · cases h
  · rename_i hval
    refine ⟨hval, ?_⟩
    split at h
    · cases h
    · rename_i p'
      refine ⟨p', rfl, ?_⟩
      split at h
      · cases h
      · rename_i hl
        refine ⟨hl, ?_⟩
        split at h
        · cases h
        · rename_i hc
          refine ⟨hc, ?_⟩
          split at h
          · cases h
          · rename_i v0 rest hv
            split at h
            · rename_i hf
              split at h
              · cases h
              · rename_i voters hcv
                cases h
                exact .sensitive v0 rest hv hf (by rw [hv] at hcv ⊢; exact hcv) rfl rfl rfl
            · rename_i x hf
              split at h
              · cases h
              · rename_i voters acks hr
                cases h
                exact .regular v0 rest hv x hf hr rfl rfl

theorem changedOf_some {pm : List ICert} {l r : List ICert} (h : changedOf pm l = some r) :
    (∀ c ∈ l, ∃ q, findSubj pm c.2 = some q ∧ (q.2.id ≠ c.2.id → q ∈ r)) ∧
    (∀ q ∈ r, q ∈ pm) := by
  induction l generalizing r with
  | nil => simp only [changedOf, Option.some.injEq] at h; subst h; simp
  | cons c cs ih =>
    unfold changedOf at h
    split at h
    · cases h
    · rename_i q hq
      split at h
      · cases h
      · rename_i r' hr'
        have ih' := ih hr'
        simp only [Option.some.injEq] at h
        subst h
        constructor
        · intro c' hc'
          rcases List.mem_cons.mp hc' with rfl | hc'
          · refine ⟨q, hq, ?_⟩
            intro hne
            have : (q.2.id == c'.2.id) = false := by simpa using hne
            simp [this]
          · obtain ⟨q', hq', hin⟩ := ih'.1 c' hc'
            refine ⟨q', hq', ?_⟩
            intro hne
            have := hin hne
            split
            · exact this
            · exact List.mem_cons_of_mem _ this
        · intro q' hq'
          split at hq'
          · exact ih'.2 q' hq'
          · rcases List.mem_cons.mp hq' with rfl | hq'
            · exact (findSubj_some hq).1
            · exact ih'.2 q' hq'

theorem allUnchanged_true {pm l : List ICert} (h : allUnchanged pm l = true) :
    ∀ c ∈ l, unchangedIn pm c.2 = true := by
  induction l with
  | nil => simp
  | cons c cs ih =>
    simp only [allUnchanged, Bool.and_eq_true] at h
    intro c' hc'
    rcases List.mem_cons.mp hc' with rfl | hc'
    · exact h.1
    · exact ih h.2 c' hc'

/-- what `validateRegular` establishes -/
structure RegularFacts (t p : TRC) (voters acks : List ICert) : Prop where
  quorum : p.quorum = t.quorum
  core : p.core = t.core
  auth : p.auth = t.auth
  sensCount : (ofCls .sens p.certs).length = (ofCls .sens t.certs).length
  sensSame : ∀ c ∈ ofCls .sens t.certs, unchangedIn (ofCls .sens p.certs) c.2 = true
  rootCount : (ofCls .root p.certs).length = (ofCls .root t.certs).length
  rootKept : ∀ c ∈ ofCls .root t.certs, ∃ q, findSubj (ofCls .root p.certs) c.2 = some q ∧
    (q.2.id ≠ c.2.id → q ∈ acks)
  acksRoots : ∀ q ∈ acks, q ∈ ofCls .root p.certs
  regCount : (ofCls .reg p.certs).length = (ofCls .reg t.certs).length
  regKept : ∀ c ∈ ofCls .reg t.certs, ∃ q, findSubj (ofCls .reg p.certs) c.2 = some q ∧
    (q.2.id ≠ c.2.id → (q.1 : Int) ∈ t.votes)
  votes : castVotes (ofCls .reg p.certs) t.votes = some voters

theorem validateRegular_ok {t p : TRC} {voters acks : List ICert}
    (h : validateRegular t p = .ok (voters, acks)) : RegularFacts t p voters acks := by
  unfold validateRegular at h
  split at h; · cases h
  split at h; · cases h
  split at h; · cases h
  split at h; · cases h
  split at h; · cases h
  split at h; · cases h
  rename_i h1 h2 h3 h4 h5 h6
  split at h
  · cases h
  · rename_i acks' hacks
    split at h; · cases h
    rename_i h7
    split at h
    · cases h
    · rename_i expected hexp
      split at h
      · cases h
      · rename_i voters' hvot
        split at h
        · rename_i hall
          cases h
          have hr := changedOf_some hacks
          have he := changedOf_some hexp
          exact
            { quorum := by simpa using h1
              core := by simpa using h2
              auth := by simpa using h3
              sensCount := by simpa using h4
              sensSame := allUnchanged_true (by simpa using h5)
              rootCount := by simpa using h6
              rootKept := hr.1
              acksRoots := hr.2
              regCount := by simpa using h7
              regKept := by
                intro c hc
                obtain ⟨q, hq, hin⟩ := he.1 c hc
                refine ⟨q, hq, ?_⟩
                intro hne
                have := List.all_eq_true.mp hall q (hin hne)
                simpa using this
              votes := hvot }
        · cases h

end Scion.Trc

namespace Scion.Trc

theorem withIdx_map_snd (n : Nat) (cs : List Cert) : (withIdx n cs).map (·.2) = cs := by
  induction cs generalizing n with
  | nil => rfl
  | cons c cs ih => simp [withIdx, ih]

theorem ofCls_map_snd (k : Cls) (cs : List Cert) :
    (ofCls k cs).map (·.2) = cs.filter (fun c => c.cls = k) := by
  unfold ofCls
  have : ∀ n, ((withIdx n cs).filter (fun p => p.2.cls = k)).map (·.2) =
      cs.filter (fun c => c.cls = k) := by
    intro n
    induction cs generalizing n with
    | nil => rfl
    | cons c cs ih =>
      simp only [withIdx, List.filter_cons]
      by_cases h : c.cls = k <;> simp [h, ih]
  exact this 0

theorem ofCls_subjects (k : Cls) (cs : List Cert) :
    (ofCls k cs).map (fun p => p.2.subj) = subjectsOf k cs := by
  unfold subjectsOf
  rw [← ofCls_map_snd, List.map_map]
  rfl

end Scion.Trc
