import Scion.Model.Router
/-! Byte-level lemmas for the router model: `slice`, `writeAt`, and the footprint of the three
in-place edits (`setMeta`, `setInfo`, `setHop`). -/
namespace Scion.Router
open Scion.Util Scion.PathMeta

theorem slice_getElem? (b : Bytes) (off n i : Nat) :
    (slice b off n)[i]? = if i < n then b[off + i]? else none := by
  unfold slice
  rw [List.getElem?_take]
  split
  · rw [List.getElem?_drop]
  · rfl

theorem length_slice (b : Bytes) (off n : Nat) : (slice b off n).length = min n (b.length - off) := by
  unfold slice; simp

theorem length_writeAt (b : Bytes) (off : Nat) (new : Bytes) (h : off + new.length ≤ b.length) :
    (writeAt b off new).length = b.length := by
  unfold writeAt
  simp
  omega

theorem writeAt_getElem? (b : Bytes) (off : Nat) (new : Bytes) (h : off + new.length ≤ b.length)
    (i : Nat) :
    (writeAt b off new)[i]? =
      if i < off then b[i]? else if i < off + new.length then new[i - off]? else b[i]? := by
  unfold writeAt
  have hl : (List.take off b).length = off := by simp; omega
  by_cases h1 : i < off
  · simp only [h1, if_true]
    rw [List.append_assoc, List.getElem?_append_left (by omega)]
    rw [List.getElem?_take]; simp [h1]
  · simp only [h1, if_false]
    rw [List.append_assoc, List.getElem?_append_right (by omega), hl]
    by_cases h2 : i < off + new.length
    · simp only [h2, if_true]
      rw [List.getElem?_append_left (by omega)]
    · simp only [h2, if_false]
      rw [List.getElem?_append_right (by omega), List.getElem?_drop]
      congr 1
      omega

/-- a write does not change bytes outside `[off, off + len)` -/
theorem writeAt_getElem?_out (b : Bytes) (off : Nat) (new : Bytes) (h : off + new.length ≤ b.length)
    (i : Nat) (ho : i < off ∨ off + new.length ≤ i) : (writeAt b off new)[i]? = b[i]? := by
  rw [writeAt_getElem? b off new h]
  rcases ho with ho | ho
  · simp [ho]
  · have : ¬ i < off := by omega
    have : ¬ i < off + new.length := by omega
    simp [*]

/-- a slice disjoint from the written range is unchanged -/
theorem slice_writeAt_disj (b : Bytes) (off : Nat) (new : Bytes) (h : off + new.length ≤ b.length)
    (off2 n : Nat) (hd : off2 + n ≤ off ∨ off + new.length ≤ off2) :
    slice (writeAt b off new) off2 n = slice b off2 n := by
  apply List.ext_getElem?
  intro i
  rw [slice_getElem?, slice_getElem?]
  split
  · apply writeAt_getElem?_out b off new h
    omega
  · rfl

/-- reading back what was written -/
theorem slice_writeAt_same (b : Bytes) (off : Nat) (new : Bytes) (h : off + new.length ≤ b.length) :
    slice (writeAt b off new) off new.length = new := by
  apply List.ext_getElem?
  intro i
  rw [slice_getElem?]
  split
  · rename_i hi
    rw [writeAt_getElem? b off new h]
    have : ¬ off + i < off := by omega
    have : off + i < off + new.length := by omega
    simp [*]
  · rename_i hi
    rw [List.getElem?_eq_none (by omega)]

theorem length_encodeInfo (i : Info) : (encodeInfo i).length = 8 := by
  simp [encodeInfo, natBE]

theorem length_natBE (k n : Nat) : (natBE k n).length = k := by
  induction k generalizing n with
  | zero => simp [natBE]
  | succ k ih => simp [natBE, ih]

theorem length_encodeHop (x : Hop) (hm : x.mac.length = 6) : (encodeHop x).length = 12 := by
  simp [encodeHop, natBE, hm]

theorem decodeInfo_some_length {b : Bytes} {i : Info} (h : decodeInfo b = some i) : b.length = 8 := by
  unfold decodeInfo at h
  split at h
  · rfl
  · cases h

theorem decodeHop_some {b : Bytes} {x : Hop} (h : decodeHop b = some x) :
    b.length = 12 ∧ x.mac.length = 6 := by
  unfold decodeHop at h
  split at h
  · cases h; exact ⟨rfl, rfl⟩
  · cases h

/-- a successful info-field read lies inside the buffer -/
theorem getInfo_some_bound {h : Hd} {buf : Bytes} {idx : Nat} {i : Info}
    (e : getInfo h buf idx = some i) : idx < h.numINF ∧ infoOff h idx + 8 ≤ buf.length := by
  unfold getInfo at e
  split at e
  · rename_i hi
    have := decodeInfo_some_length e
    rw [length_slice] at this
    exact ⟨hi, by omega⟩
  · cases e

theorem getHop_some_bound {h : Hd} {buf : Bytes} {idx : Nat} {x : Hop}
    (e : getHop h buf idx = some x) :
    idx < h.numHops ∧ hopOff h idx + 12 ≤ buf.length ∧ x.mac.length = 6 := by
  unfold getHop at e
  split at e
  · rename_i hi
    have := decodeHop_some e
    rw [length_slice] at this
    exact ⟨hi, by omega, this.2⟩
  · cases e

/-- the whole path lies inside the buffer -/
def InBuf (h : Hd) (buf : Bytes) : Prop := hopOff h h.numHops ≤ buf.length

theorem infoOff_le_hopOff (h : Hd) (i j : Nat) (hi : i < h.numINF) : infoOff h i + 8 ≤ hopOff h j := by
  unfold infoOff hopOff MetaLen InfoLen HopLen
  have : 8 * (i + 1) ≤ 8 * h.numINF := Nat.mul_le_mul_left 8 hi
  omega

theorem hopOff_mono (h : Hd) (i j : Nat) (hij : i < j) : hopOff h i + 12 ≤ hopOff h j := by
  unfold hopOff HopLen
  have : 12 * (i + 1) ≤ 12 * j := Nat.mul_le_mul_left 12 hij
  omega

theorem infoOff_mono (h : Hd) (i j : Nat) (hij : i < j) : infoOff h i + 8 ≤ infoOff h j := by
  unfold infoOff InfoLen
  have : 8 * (i + 1) ≤ 8 * j := Nat.mul_le_mul_left 8 hij
  omega

theorem pathOff_le_infoOff (h : Hd) (i : Nat) : h.pathOff + 4 ≤ infoOff h i := by
  unfold infoOff MetaLen; omega

/-! ### the three edits: length and footprint -/

theorem length_setMeta (h : Hd) (buf : Bytes) (pm : Hdr) (hb : h.pathOff + 4 ≤ buf.length) :
    (setMeta h buf pm).length = buf.length := by
  unfold setMeta
  apply length_writeAt
  rw [length_natBE]; exact hb

theorem length_setInfo (h : Hd) (buf : Bytes) (idx : Nat) (i : Info)
    (hb : infoOff h idx + 8 ≤ buf.length) : (setInfo h buf idx i).length = buf.length := by
  unfold setInfo
  apply length_writeAt
  rw [length_encodeInfo]; exact hb

theorem length_setHop (h : Hd) (buf : Bytes) (idx : Nat) (x : Hop) (hm : x.mac.length = 6)
    (hb : hopOff h idx + 12 ≤ buf.length) : (setHop h buf idx x).length = buf.length := by
  unfold setHop
  apply length_writeAt
  rw [length_encodeHop x hm]; exact hb

theorem setMeta_getElem?_out (h : Hd) (buf : Bytes) (pm : Hdr) (hb : h.pathOff + 4 ≤ buf.length)
    (i : Nat) (ho : i < h.pathOff ∨ h.pathOff + 4 ≤ i) : (setMeta h buf pm)[i]? = buf[i]? := by
  unfold setMeta
  apply writeAt_getElem?_out
  · rw [length_natBE]; exact hb
  · rw [length_natBE]; exact ho

theorem setInfo_getElem?_out (h : Hd) (buf : Bytes) (idx : Nat) (inf : Info)
    (hb : infoOff h idx + 8 ≤ buf.length)
    (i : Nat) (ho : i < infoOff h idx ∨ infoOff h idx + 8 ≤ i) :
    (setInfo h buf idx inf)[i]? = buf[i]? := by
  unfold setInfo
  apply writeAt_getElem?_out
  · rw [length_encodeInfo]; exact hb
  · rw [length_encodeInfo]; exact ho

/-- rewriting the meta line does not disturb any info or hop field -/
theorem getInfo_setMeta (h : Hd) (buf : Bytes) (pm : Hdr) (hb : h.pathOff + 4 ≤ buf.length)
    (idx : Nat) : getInfo h (setMeta h buf pm) idx = getInfo h buf idx := by
  unfold getInfo setMeta
  split
  · rw [slice_writeAt_disj]
    · rw [length_natBE]; exact hb
    · rw [length_natBE]; right; exact pathOff_le_infoOff h idx
  · rfl

theorem getHop_setMeta (h : Hd) (buf : Bytes) (pm : Hdr) (hb : h.pathOff + 4 ≤ buf.length)
    (idx : Nat) : getHop h (setMeta h buf pm) idx = getHop h buf idx := by
  unfold getHop setMeta
  split
  · rw [slice_writeAt_disj]
    · rw [length_natBE]; exact hb
    · rw [length_natBE]; right; unfold hopOff MetaLen; omega
  · rfl

/-- rewriting info field `j` does not disturb another info field or any hop field -/
theorem getInfo_setInfo_ne (h : Hd) (buf : Bytes) (j : Nat) (inf : Info)
    (hb : infoOff h j + 8 ≤ buf.length) (idx : Nat) (hne : idx ≠ j) :
    getInfo h (setInfo h buf j inf) idx = getInfo h buf idx := by
  unfold getInfo setInfo
  split
  · rw [slice_writeAt_disj]
    · rw [length_encodeInfo]; exact hb
    · rw [length_encodeInfo]
      rcases Nat.lt_or_gt_of_ne hne with hlt | hgt
      · left; exact infoOff_mono h idx j hlt
      · right; exact infoOff_mono h j idx hgt
  · rfl

theorem getHop_setInfo (h : Hd) (buf : Bytes) (j : Nat) (inf : Info) (hj : j < h.numINF)
    (hb : infoOff h j + 8 ≤ buf.length) (idx : Nat) :
    getHop h (setInfo h buf j inf) idx = getHop h buf idx := by
  unfold getHop setInfo
  split
  · rw [slice_writeAt_disj]
    · rw [length_encodeInfo]; exact hb
    · rw [length_encodeInfo]; right; exact infoOff_le_hopOff h j idx hj
  · rfl

end Scion.Router
