import Scion.Model.GwFrames
import Scion.Proofs.GwFramesTrace
import Scion.Proofs.GwFramesDec
/-! C41 helper lemmas, part 5: the receiver on a well-formed trace — in order (exact output) and
under arbitrary loss, duplication and reordering (output ⊆ packets completed by the trace). -/
namespace Scion.Proofs.GwFrames
open Scion.GwFrames Scion.Util

/-! ### the worker's per-epoch lists -/

theorem getRlist_setRlist (w : Worker) (e : Nat) (l : List FB) : getRlist (setRlist w e l) e = l := by
  induction w with
  | nil => simp [setRlist, getRlist]
  | cons a w ih =>
    obtain ⟨e', l'⟩ := a
    by_cases h : e' = e
    · simp [setRlist, getRlist, h]
    · simp [setRlist, getRlist, h, ih]

theorem getRlist_setRlist_ne (w : Worker) (e e' : Nat) (l : List FB) (h : e' ≠ e) :
    getRlist (setRlist w e l) e' = getRlist w e' := by
  induction w with
  | nil => simp [setRlist, getRlist, Ne.symm h]
  | cons a w ih =>
    obtain ⟨e'', l'⟩ := a
    by_cases h1 : e'' = e
    · subst h1; simp [setRlist, getRlist, Ne.symm h]
    · by_cases h2 : e'' = e'
      · subst h2; simp [setRlist, getRlist, h1]
      · simp [setRlist, getRlist, h1, h2, ih]

/-! ### the frame buffer of a step -/

theorem genFB_of_step (pre : Pend) (qs : List Bytes) (h : Bytes) (cur : Option Bytes) (f : Frame)
    (hq : ∀ x ∈ qs, validPkt x = true) (hh : HeadOK h cur)
    (hpl : f.payload = tailOf pre ++ qs.flatten ++ h)
    (hidx : f.index = (if qs = [] ∧ cur = none then noIndex else (tailOf pre).length))
    (hb : (qs ≠ [] ∨ cur ≠ none) → (tailOf pre).length < noIndex) :
    GenFB (newFB f) (tailOf pre) qs h cur :=
  ⟨hq, hh, hpl, hidx, hb, rfl, rfl⟩

/-- `Insert` when the list is not continued by the frame -/
theorem insert_other (start : FB) (mids : List FB) (fb : FB) (s0 : Nat)
    (hs : SeqFrom s0 (start :: mids)) :
    (fb.seq ≤ s0 + mids.length → GwFrames.insert (start :: mids) fb = (start :: mids, [])) ∧
    ((s0 + mids.length + 1 < fb.seq ∨
        (fb.seq = s0 + mids.length + 1 ∧ (start :: mids).length = listCap)) →
      GwFrames.insert (start :: mids) fb = insertFirst fb) := by
  have hl := lastSeq_seqFrom s0 (start :: mids) hs (by simp)
  have h0 : start.seq = s0 := hs.1
  simp only [List.length_cons] at hl
  constructor
  · intro h
    unfold GwFrames.insert
    simp only
    by_cases h1 : fb.seq < start.seq
    · rw [if_pos h1]
    · rw [if_neg h1, if_pos (by omega)]
  · intro h
    unfold GwFrames.insert
    simp only
    rcases h with h | ⟨h, hc⟩
    · rw [if_neg (by omega), if_neg (by omega), if_pos (by omega)]
    · rw [if_neg (by omega), if_neg (by omega), if_neg (by omega), if_pos hc]

/-! ### in-order, loss-free delivery -/

/-- the reassembly list before a step, in in-order delivery -/
def LState (mtu : Nat) (pre : Pend) (L : List FB) (s : Nat) : Prop :=
  match pre with
  | none => L = []
  | some (p, c) => ∃ start mids s0, L = start :: mids ∧ Sync start mids p c s0 ∧
      s0 + mids.length + 1 = s ∧ mids.length * (mtu - hdrLen) < c

theorem lstate_after (mtu : Nat) (L' : List FB) (h : Bytes) (cur : Option Bytes) (s : Nat)
    (hh : HeadOK h cur) (ha : After L' h cur s) : LState mtu (postOf h cur) L' (s + 1) := by
  cases cur with
  | none => exact ha
  | some p' =>
    obtain ⟨st', rfl, hs⟩ := ha
    obtain ⟨_, k, rfl, hk, hlt⟩ := hh
    have hkl : (p'.take k).length = k := by simp [List.length_take]; omega
    exact ⟨st', [], s, rfl, hs, by simp, by simp only [List.length_nil, Nat.zero_mul]; omega⟩

theorem decode_trace (mtu ep : Nat) : ∀ (tr : List Step) (s : Nat) (pre : Pend)
    (w : Worker), TraceOK mtu ep s pre tr → LState mtu pre (getRlist w ep) s →
    (∀ st ∈ tr, ∀ p c, st.pre = some (p, c) → p.length ≤ 99 * (mtu - hdrLen)) →
    decodeFrom w (tr.map (·.f)) = tr.flatMap Step.done := by
  intro tr
  induction tr with
  | nil => intro s pre w _ _ _; rfl
  | cons a tr ih =>
    intro s pre w ht hl hbig
    obtain ⟨h1, h2, h3, h4, h5⟩ := ht
    have hbig' : ∀ st ∈ tr, ∀ p c, st.pre = some (p, c) → p.length ≤ 99 * (mtu - hdrLen) :=
      fun st hst => hbig st (List.mem_cons_of_mem _ hst)
    simp only [List.map_cons, decodeFrom, processFrame, List.flatMap_cons]
    rw [h3]
    subst h1
    cases h4 with
    | middle p c f hv hc hlt hpl hidx =>
      obtain ⟨start, mids, s0, hL, hsync, hs0, hcnt⟩ := hl
      have hbp := hbig _ List.mem_cons_self p c rfl
      have hcap : (start :: mids).length ≠ listCap := by
        have := hsync.clt
        simp only [List.length_cons, listCap, hdrLen] at *
        intro he
        have h99 : mids.length = 99 := by omega
        rw [h99] at hcnt
        omega
      obtain ⟨hi, hsy⟩ := insert_middle start mids p c s0 (mtu - hdrLen) (newFB f) hsync hcap
        (by simp only [newFB]; simp only at h2; omega) hidx rfl
        (by simp only [newFB, hidx, beq_self_eq_true]) hpl hlt
      rw [hL, hi]
      have key := ih (s + 1) _ (setRlist w ep (start :: (mids ++ [newFB f]))) h5
        (by
          rw [getRlist_setRlist]
          refine ⟨start, mids ++ [newFB f], s0, rfl, hsy,
            by simp only [List.length_append, List.length_singleton]; omega, ?_⟩
          simp only [List.length_append, List.length_singleton, Nat.succ_mul]
          omega) hbig'
      simp only
      rw [key]
      simp [Step.done]
    | general pre qs h cur f hp hq hh hpl hidx hb =>
      have g := genFB_of_step pre qs h cur f hq hh hpl hidx hb
      cases pre with
      | none =>
        simp only [LState] at hl
        rw [hl]
        obtain ⟨L', hi, ha⟩ := insertFirst_gen (newFB f) (tailOf none) qs h cur g
        have : GwFrames.insert [] (newFB f) = insertFirst (newFB f) := rfl
        rw [this, hi]
        have hsq : (newFB f).seq = s := h2
        rw [hsq] at ha
        have key := ih (s + 1) _ (setRlist w ep L') h5
          (by rw [getRlist_setRlist]; exact lstate_after mtu L' h cur s hh ha) hbig'
        simp only
        rw [key]
        simp [Step.done, Pend.pkt]
      | some pc =>
        obtain ⟨p, c⟩ := pc
        obtain ⟨start, mids, s0, hL, hsync, hs0, hcnt⟩ := hl
        have hbp := hbig _ List.mem_cons_self p c rfl
        have hcap : (start :: mids).length ≠ listCap := by
          have := hsync.clt
          simp only [List.length_cons, listCap, hdrLen] at *
          intro he
          have h99 : mids.length = 99 := by omega
          rw [h99] at hcnt
          omega
        obtain ⟨L', hi, ha⟩ := insert_general start mids p c s0 (newFB f) qs h cur hsync hcap
          (by simp only [newFB]; simp only at h2; omega) g
        rw [hL, hi]
        have hsq : (newFB f).seq = s := h2
        rw [hsq] at ha
        have key := ih (s + 1) _ (setRlist w ep L') h5
          (by rw [getRlist_setRlist]; exact lstate_after mtu L' h cur s hh ha) hbig'
        simp only
        rw [key]
        simp [Step.done, Pend.pkt]


/-! ### arbitrary loss, duplication and reordering of the frames of one stream -/

/-- the reassembly list of the stream's epoch at any time: empty, or in sync with the packet in
progress after frame `j` of the trace -/
def Inv (tr : List Step) (L : List FB) : Prop :=
  L = [] ∨ ∃ start mids p c s0 j, ∃ hj : j < tr.length, L = start :: mids ∧
    Sync start mids p c s0 ∧ s0 + mids.length = j ∧ (tr[j]).post = some (p, c)

theorem inv_after (tr : List Step) (k : Nat) (hk : k < tr.length) (L' : List FB) (h : Bytes)
    (cur : Option Bytes) (ha : After L' h cur k) (hpost : (tr[k]).post = postOf h cur) :
    Inv tr L' := by
  cases cur with
  | none => exact Or.inl ha
  | some p' =>
    obtain ⟨st', rfl, hs⟩ := ha
    exact Or.inr ⟨st', [], p', h.length, k, k, hk, rfl, hs, by simp, hpost⟩

/-- a frame of the trace hits an empty list (or evicts the list) -/
theorem insertFirst_trace (mtu ep : Nat) (tr : List Step) (ht : TraceOK mtu ep 0 none tr)
    (k : Nat) (hk : k < tr.length) :
    ∃ L' out, insertFirst (newFB (tr[k]).f) = (L', out) ∧ (∀ x ∈ out, x ∈ (tr[k]).done) ∧
      Inv tr L' := by
  obtain ⟨hseq, _, hok, _⟩ := trace_get mtu ep tr 0 none ht k hk
  generalize hst : tr[k] = st at hok hseq
  cases hok with
  | middle p c f hv hc hlt hpl hidx =>
    refine ⟨[], [], insertFirst_noIndex _ hidx rfl, (by intro x hx; cases hx), Or.inl rfl⟩
  | general pre qs h cur f hp hq hh hpl hidx hb =>
    have g := genFB_of_step pre qs h cur f hq hh hpl hidx hb
    obtain ⟨L', hi, ha⟩ := insertFirst_gen (newFB f) (tailOf pre) qs h cur g
    refine ⟨L', qs, hi, ?_, ?_⟩
    · intro x hx; simp only [Step.done]; exact List.mem_append_right _ hx
    · have hsq : (newFB f).seq = k := by simp only [newFB]; simp only at hseq; omega
      rw [hsq] at ha
      exact inv_after tr k hk L' h cur ha (by rw [hst])

theorem insert_trace (mtu ep : Nat) (tr : List Step) (ht : TraceOK mtu ep 0 none tr)
    (L : List FB) (hinv : Inv tr L) (k : Nat) (hk : k < tr.length) :
    ∃ L' out, GwFrames.insert L (newFB (tr[k]).f) = (L', out) ∧
      (∀ x ∈ out, x ∈ (tr[k]).done) ∧ Inv tr L' := by
  obtain ⟨hseq, _, hok, _⟩ := trace_get mtu ep tr 0 none ht k hk
  have hsq : (newFB (tr[k]).f).seq = k := by simp only [newFB]; omega
  rcases hinv with rfl | ⟨start, mids, p, c, s0, j, hj, rfl, hsync, hj0, hpost⟩
  · exact insertFirst_trace mtu ep tr ht k hk
  · obtain ⟨ho1, ho2⟩ := insert_other start mids (newFB (tr[k]).f) s0 hsync.seqs
    by_cases h1 : k ≤ j
    · -- too old or duplicate
      refine ⟨start :: mids, [], ho1 (by omega), (by intro x hx; cases hx), ?_⟩
      exact Or.inr ⟨start, mids, p, c, s0, j, hj, rfl, hsync, hj0, hpost⟩
    · by_cases h2 : j + 1 < k ∨ (start :: mids).length = listCap
      · -- gap or capacity: evict and start over
        rw [ho2 (by rcases h2 with h2 | h2
                    · left; omega
                    · by_cases h3 : j + 1 < k
                      · left; omega
                      · right; exact ⟨by omega, h2⟩)]
        exact insertFirst_trace mtu ep tr ht k hk
      · -- the next frame, in sync
        have hkj : k = j + 1 := by omega
        have hcap : (start :: mids).length ≠ listCap := fun hc => h2 (Or.inr hc)
        subst hkj
        have hpre : (tr[j + 1]).pre = some (p, c) := by
          rw [(trace_get mtu ep tr 0 none ht j hj).2.2.2 hk, hpost]
        generalize hst : tr[j + 1] = st at hok hseq hsq hpre ⊢
        cases hok with
        | middle p' c' f hv hc hlt hpl hidx =>
          simp only [Option.some.injEq, Prod.mk.injEq] at hpre
          obtain ⟨rfl, rfl⟩ := hpre
          obtain ⟨hi, hsy⟩ := insert_middle start mids p' c' s0 (mtu - hdrLen) (newFB f) hsync hcap
            (by rw [hsq]; omega) hidx rfl (by simp only [newFB, hidx, beq_self_eq_true]) hpl hlt
          refine ⟨_, [], hi, (by intro x hx; cases hx), ?_⟩
          exact Or.inr ⟨start, mids ++ [newFB f], p', c' + (mtu - hdrLen), s0, j + 1, hk, rfl, hsy,
            by simp only [List.length_append, List.length_singleton]; omega, by rw [hst]⟩
        | general pre qs h cur f hp hq hh hpl hidx hb =>
          simp only at hpre
          subst hpre
          have g := genFB_of_step (some (p, c)) qs h cur f hq hh hpl hidx hb
          obtain ⟨L', hi, ha⟩ := insert_general start mids p c s0 (newFB f) qs h cur hsync hcap
            (by rw [hsq]; omega) g
          refine ⟨L', p :: qs, hi, ?_, ?_⟩
          · intro x hx; simpa [Step.done, Pend.pkt] using hx
          · rw [hsq] at ha
            exact inv_after tr (j + 1) hk L' h cur ha (by rw [hst])

/-- **every packet the receiver writes was completed by the trace**, whatever subset of the
stream's frames arrives, in whatever order, however often -/
theorem decode_subset (mtu ep : Nat) (tr : List Step) (ht : TraceOK mtu ep 0 none tr) :
    ∀ (ds : List Frame) (w : Worker), Inv tr (getRlist w ep) →
      (∀ d ∈ ds, ∃ k, ∃ hk : k < tr.length, d = (tr[k]).f) →
      ∀ x ∈ decodeFrom w ds, x ∈ tr.flatMap Step.done := by
  intro ds
  induction ds with
  | nil => intro w _ _ x hx; cases hx
  | cons d ds ih =>
    intro w hinv hd x hx
    obtain ⟨k, hk, rfl⟩ := hd d List.mem_cons_self
    have hep : (tr[k]).f.epoch = ep := (trace_get mtu ep tr 0 none ht k hk).2.1
    obtain ⟨L', out, hi, hout, hinv'⟩ := insert_trace mtu ep tr ht _ hinv k hk
    simp only [decodeFrom, processFrame, hep, hi] at hx
    rcases List.mem_append.1 hx with hx | hx
    · exact List.mem_flatMap.2 ⟨tr[k], List.getElem_mem hk, hout x hx⟩
    · exact ih (setRlist w ep L') (by rw [getRlist_setRlist]; exact hinv')
        (fun d' hd' => hd d' (List.mem_cons_of_mem _ hd')) x hx


/-! ### several streams (distinct epochs) interleaved -/

/-- a stream: its frame size, epoch and trace -/
structure Stream where
  mtu : Nat
  ep : Nat
  tr : List Step
  ok : TraceOK mtu ep 0 none tr

theorem decode_subset_multi (streams : List Stream)
    (hdist : ∀ s ∈ streams, ∀ s' ∈ streams, s.ep = s'.ep → s = s') :
    ∀ (ds : List Frame) (w : Worker), (∀ s ∈ streams, Inv s.tr (getRlist w s.ep)) →
      (∀ d ∈ ds, ∃ s ∈ streams, ∃ k, ∃ hk : k < s.tr.length, d = (s.tr[k]).f) →
      ∀ x ∈ decodeFrom w ds, ∃ s ∈ streams, x ∈ s.tr.flatMap Step.done := by
  intro ds
  induction ds with
  | nil => intro w _ _ x hx; cases hx
  | cons d ds ih =>
    intro w hinv hd x hx
    obtain ⟨s, hs, k, hk, rfl⟩ := hd d List.mem_cons_self
    have hep : (s.tr[k]).f.epoch = s.ep := (trace_get s.mtu s.ep s.tr 0 none s.ok k hk).2.1
    obtain ⟨L', out, hi, hout, hinv'⟩ := insert_trace s.mtu s.ep s.tr s.ok _ (hinv s hs) k hk
    simp only [decodeFrom, processFrame, hep, hi] at hx
    rcases List.mem_append.1 hx with hx | hx
    · exact ⟨s, hs, List.mem_flatMap.2 ⟨s.tr[k], List.getElem_mem hk, hout x hx⟩⟩
    · refine ih (setRlist w s.ep L') ?_ (fun d' hd' => hd d' (List.mem_cons_of_mem _ hd')) x hx
      intro s' hs'
      by_cases he : s'.ep = s.ep
      · have := hdist s' hs' s hs he
        subst this
        rw [getRlist_setRlist]; exact hinv'
      · rw [getRlist_setRlist_ne _ _ _ _ he]; exact hinv s' hs'

end Scion.Proofs.GwFrames
