import Scion.Proofs.NetScmp2
import Scion.Proofs.NetPeer
/-! C10 on peering paths: an SCMP error raised by an AS of the first (Peer-flagged) segment that is
not the peering AS; the reply travels back to the sender.  Core Lean only. -/
namespace Scion.Net
open Scion.SegID (updateSegID extractBeta xorAll)

section
variable (mac : MacFn) (net : Net) (now src dst : Nat) (core cd : Bool) (ts : Nat)
variable (hUp : AllUp net) (hSR : SingleRouter net)
include hUp hSR

/-- `segment_prefix_run` on the first segment of a peering path -/
theorem segment_prefix_run_pr (seg0 : Nat) (e0 : ASE) (m1 : List ASE) (ek : ASE) (h' t0 : Hop)
    (tlh : List Hop) (sD : Seg)
    (hFL : FL mac net core cd ts seg0 (e0 :: (m1 ++ [ek])))
    (hsrc : src = e0.ia) (hsd : src ≠ dst)
    (hmid : ∀ e ∈ m1, e.ia ≠ src ∧ e.ia ≠ dst ∧ expired now ts e.hop.exp = false)
    (hexp0 : expired now ts e0.hop.exp = false) (fuel : Nat) :
    run mac net now src dst (fuel + 1 + m1.length) src 0 .host
        ⟨[], ⟨cd, true, usedAt cd seg0 e0, ts⟩, [], hopOf e0.hop,
          (m1.map fun e => hopOf e.hop) ++ h' :: t0 :: tlh, [sD]⟩ [] =
      run mac net now src dst fuel ek.ia 0 (.ext (inF cd ek))
        ⟨[], ⟨cd, true, extractBeta (updateSegID seg0 (pfx e0.hop.mac)) (sig m1), ts⟩,
          hopOf e0.hop :: m1.map (fun e => hopOf e.hop), h', t0 :: tlh, [sD]⟩
        ((e0.ia, outF cd e0) :: ((firstOf m1 ek).ia, inF cd (firstOf m1 ek)) :: fTrace cd m1 ek) := by
  have hne : m1 ++ [ek] = firstOf m1 ek :: (m1 ++ [ek]).tail := by
    cases m1 <;> simp [firstOf]
  have hFL' := hFL
  rw [hne] at hFL'
  simp only [FL] at hFL'
  obtain ⟨hm, ⟨f, g, hf, hout, hfn, hfi, hg, _, _, _, _, _⟩, _⟩ := hFL'
  have hstep := first_step_pr mac net now src dst cd true ts (usedAt cd seg0 e0) (hopOf e0.hop)
    ((m1.map fun e => hopOf e.hop) ++ h' :: t0 :: tlh) [sD] f rfl (by simp) (by simp) hsd
    (by rw [hsrc]; exact macOk_of_macAt mac net ts _ e0 cd true hm)
    (by simpa [hopOf] using hexp0) rfl rfl
    (by rw [hsrc, outSide_hopOf]; exact hf) (by rw [outSide_hopOf]; exact hout)
    (hUp _ _ _ hf) (hSR _ _ _ hf)
  have hf' : (net src).iface (outSide cd (hopOf e0.hop)) = some f := by
    rw [hsrc, outSide_hopOf]; exact hf
  have hg' : (net f.nbr).iface f.nbrIf = some g := by rw [hfn, hfi]; exact hg
  have h1 : fuel + 1 + m1.length = (fuel + m1.length) + 1 := by omega
  rw [h1, run_forward_ext mac net now src dst _ src 0 .host _ _ [] (outSide cd (hopOf e0.hop)) f g
    hstep hf' (hSR _ _ _ hf) hg', hSR _ _ _ hg, hfn, hfi, egSeg_usedAt]
  have hT := fl_transits mac net now src dst true core cd ts hUp hSR m1 e0 ek seg0 hFL hmid
  have hrun := run_transits_pr hT [] [sD] rfl (by simp) [hopOf e0.hop] h' (t0 :: tlh) fuel
    ([] ++ [(src, outSide cd (hopOf e0.hop)), ((firstOf m1 ek).ia, inF cd (firstOf m1 ek))])
    (by simp)
  simp only [List.length_map] at hrun
  rw [hrun]
  simp [mkCur, outSide_hopOf, hsrc]

/-- `fl_tail_run` on the last segment of a peering path (one segment, `s`, lies behind) -/
theorem fl_tail_run_pr (s : Seg) (prevE : ASE) (mid : List ASE) (last : ASE) (seg : Nat)
    (hFL : FL mac net core cd ts seg (prevE :: (mid ++ [last])))
    (hdst : dst = last.ia) (hsd : src ≠ dst)
    (hmid : ∀ e ∈ mid, e.ia ≠ src ∧ e.ia ≠ dst ∧ expired now ts e.hop.exp = false)
    (hexpl : expired now ts last.hop.exp = false)
    (done : List Hop) (hdone : done ≠ []) (fuel : Nat) (tr0 : List (Nat × Nat)) :
    ∃ cf, run mac net now src dst (fuel + 1 + mid.length) (firstOf mid last).ia 0
        (.ext (inF cd (firstOf mid last)))
        (mkCur [s] ⟨cd, true, updateSegID seg (pfx prevE.hop.mac), ts⟩ done
          ((mid.map fun e => hopOf e.hop) ++ [hopOf last.hop]) []) tr0 =
      .delivered dst (tr0 ++ fTrace cd mid last) cf := by
  have hT := fl_transits mac net now src dst true core cd ts hUp hSR mid prevE last seg hFL hmid
  have hrun := run_transits_pr hT [s] [] rfl (by simp) done (hopOf last.hop) [] (fuel + 1) tr0
    (fun _ _ => hdone)
  simp only [List.length_map] at hrun
  rw [hrun]
  obtain ⟨hml, hin0, _⟩ := fl_last mac net core cd ts mid prevE last seg hFL
  have hstep := last_step_pr mac net now src dst cd true false ts
    (extractBeta (updateSegID seg (pfx prevE.hop.mac)) (sig mid)) (inF cd last) (hopOf last.hop) [s]
    (done ++ mid.map fun e => hopOf e.hop) rfl
    (by cases done <;> simp_all [determinePeer]) hsd hin0 (inSide_hopOf cd last).symm
    (by rw [lastSeg_hopOf, hdst]; exact macOk_of_macAt mac net ts _ last cd true hml)
    (by simpa [hopOf] using hexpl) rfl rfl
  rw [hdst] at hstep ⊢
  simp only [mkCur]
  rw [run_deliver mac net now src last.ia fuel last.ia 0 _ _ _ _ hstep]
  exact ⟨_, rfl⟩

/-- **C10 on peering paths, an SCMP error raised by the ingress checks at an AS of the first
    segment that is not the peering AS** (so at least one more hop field, `t0`, follows in the
    segment).  Forwarding order: `e0` (source), `m1`, `ek`; `sD` is the second segment.  The reply
    — reversed path, SegID re-adjusted with the guard `determinePeer` (the hop of `ek` is not a
    peering hop although the segment carries the Peer flag) — is accepted by every AS on the way
    back and delivered in the source AS. -/
theorem peer_slow_reply_run (seg0 : Nat) (e0 : ASE) (m1 : List ASE) (ek : ASE) (h' : Hop) (t k : Nat)
    (t0 : Hop) (tlh : List Hop) (sD : Seg)
    (hFL : FL mac net core cd ts seg0 (e0 :: (m1 ++ [ek])))
    (hsrc : src = e0.ia) (hsd : src ≠ dst)
    (hnd : ((e0 :: (m1 ++ [ek])).map (·.ia)).Nodup)
    (hmidd : ∀ e ∈ m1, e.ia ≠ dst)
    (hexpU : ∀ e ∈ e0 :: m1, expired now ts e.hop.exp = false)
    (hstop : routerStep mac (cfgOf net ek.ia) now (.ext (inF cd ek)) (ek.ia == src) (ek.ia == dst)
        ⟨[], ⟨cd, true, extractBeta (updateSegID seg0 (pfx e0.hop.mac)) (sig m1), ts⟩,
          hopOf e0.hop :: m1.map (fun e => hopOf e.hop), h', t0 :: tlh, [sD]⟩ =
      .slow t k 0 ⟨[], ⟨cd, true, usedSeg cd (extractBeta (updateSegID seg0 (pfx e0.hop.mac)) (sig m1)) h', ts⟩,
          hopOf e0.hop :: m1.map (fun e => hopOf e.hop), h', t0 :: tlh, [sD]⟩) (fuel : Nat) :
    ∃ tr c1 rc trr cr,
      run mac net now src dst (fuel + 2 + m1.length) src 0 .host
        ⟨[], ⟨cd, true, usedAt cd seg0 e0, ts⟩, [], hopOf e0.hop,
          (m1.map fun e => hopOf e.hop) ++ h' :: t0 :: tlh, [sD]⟩ [] =
        .stopped ek.ia 0 (.ext (inF cd ek)) (.slow t k 0 c1) tr ∧
      replyOf (.slow t k 0 c1) (.ext (inF cd ek)) = some rc ∧
      followReply mac net now src ek.ia 0 (.ext (inF cd ek)) rc = .delivered src trr cr := by
  obtain ⟨h0k, hmid1⟩ := nd_facts e0 m1 ek hnd
  have hpre := segment_prefix_run_pr mac net now src dst core cd ts hUp hSR seg0 e0 m1 ek
    h' t0 tlh sD hFL hsrc hsd
    (fun e he => ⟨by rw [hsrc]; exact (hmid1 e he).1, hmidd e he, hexpU e (by simp [he])⟩)
    (hexpU e0 (by simp)) (fuel + 1)
  rw [show fuel + 2 + m1.length = fuel + 1 + 1 + m1.length by omega, hpre]
  obtain ⟨_, hin0, _⟩ := fl_last mac net core cd ts m1 e0 ek seg0 hFL
  rw [run_stopped_slow mac net now src dst fuel ek.ia 0 _ _ _ _ t k 0 hstop]
  have hrl : (m1.map fun e => hopOf e.hop).reverse ++ [hopOf e0.hop] ≠ [] := by simp
  have hreply : replyOf (.slow t k 0 ⟨[], ⟨cd, true,
          usedSeg cd (extractBeta (updateSegID seg0 (pfx e0.hop.mac)) (sig m1)) h', ts⟩,
        hopOf e0.hop :: m1.map (fun e => hopOf e.hop), h', t0 :: tlh, [sD]⟩)
        (.ext (inF cd ek)) =
      some (mkCur [revSeg sD] ⟨!cd, true, extractBeta (updateSegID seg0 (pfx e0.hop.mac)) (sig m1), ts⟩
        ((t0 :: tlh).reverse ++ [h'])
        ((m1.reverse.map fun e => hopOf e.hop) ++ [hopOf e0.hop]) []) := by
    have hinc := incPath_mkCur [revSeg sD]
      ⟨!cd, true, extractBeta (updateSegID seg0 (pfx e0.hop.mac)) (sig m1), ts⟩
      (t0 :: tlh).reverse h'
      ((m1.map fun e => hopOf e.hop).reverse ++ [hopOf e0.hop]) [] hrl
    rw [← List.map_reverse] at hinc
    rw [← hinc]
    cases cd <;>
      simp [replyOf, scmpPrepare, reverseCursor, determinePeer, flipInfo, Cursor.isXover, egUpd,
        Arrival.ifid, hin0, usedSeg, updateSegID, Scion.SegID.xor_cancel, List.map_reverse]
  have hFLm := fl_mirror mac net core cd ts _ seg0 hFL
  have hrev : (e0 :: (m1 ++ [ek])).reverse = ek :: (m1.reverse ++ [e0]) := by simp
  rw [hrev] at hFLm
  have hsegm : updateSegID (extractBeta seg0 (sig (e0 :: (m1 ++ [ek])))) (pfx ek.hop.mac) =
      extractBeta (updateSegID seg0 (pfx e0.hop.mac)) (sig m1) := by
    have : extractBeta seg0 (sig (e0 :: (m1 ++ [ek]))) =
        updateSegID (extractBeta (updateSegID seg0 (pfx e0.hop.mac)) (sig m1)) (pfx ek.hop.mac) := by
      simp [sig, extractBeta, List.foldl_append]
    rw [this]; simp [updateSegID, Scion.SegID.xor_cancel]
  have hne : m1.reverse ++ [e0] = firstOf m1.reverse e0 :: (m1.reverse ++ [e0]).tail := by
    cases m1.reverse <;> simp [firstOf]
  have hFLm' := hFLm
  rw [hne] at hFLm'
  simp only [FL] at hFLm'
  obtain ⟨_, ⟨f, g, hf, _, hfn, hfi, hg, _, _, _, _, _⟩, _⟩ := hFLm'
  have hout : outF (!cd) ek = inF cd ek := by cases cd <;> rfl
  rw [hout] at hf
  obtain ⟨cf, htail⟩ := fl_tail_run_pr mac net now ek.ia src core (!cd) ts hUp hSR (revSeg sD) ek
    m1.reverse e0 _ hFLm
    hsrc (by rw [hsrc]; exact Ne.symm h0k)
    (fun e he => ⟨(hmid1 e (by simpa using he)).2, by rw [hsrc]; exact (hmid1 e (by simpa using he)).1,
      hexpU e (by simp at he; simp [he])⟩)
    (hexpU e0 (by simp)) ((t0 :: tlh).reverse ++ [h']) (by simp)
    (m1.length + 2 * tlh.length + 2 * sD.hops.length + 7) [(ek.ia, inF cd ek), (f.nbr, f.nbrIf)]
  rw [hsegm] at htail
  have hfuel : fuelFor (mkCur [revSeg sD] ⟨!cd, true, extractBeta (updateSegID seg0 (pfx e0.hop.mac)) (sig m1), ts⟩
        ((t0 :: tlh).reverse ++ [h'])
        ((m1.reverse.map fun e => hopOf e.hop) ++ [hopOf e0.hop]) []) =
      m1.length + 2 * tlh.length + 2 * sD.hops.length + 7 + 1 + m1.reverse.length := by
    cases hr : m1.reverse.map (fun e => hopOf e.hop) with
    | nil =>
      have : m1.length = 0 := by
        have := congrArg List.length hr; simpa using this
      simp [mkCur, fuelFor, toFlat, Cursor.segs, Cursor.curSeg, revSeg, this]; omega
    | cons y ys =>
      have hl : m1.length = ys.length + 1 := by
        have := congrArg List.length hr; simpa using this
      simp [mkCur, fuelFor, toFlat, Cursor.segs, Cursor.curSeg, revSeg, hl]; omega
  have hfollow : followReply mac net now src ek.ia 0 (.ext (inF cd ek))
      (mkCur [revSeg sD] ⟨!cd, true, extractBeta (updateSegID seg0 (pfx e0.hop.mac)) (sig m1), ts⟩
        ((t0 :: tlh).reverse ++ [h'])
        ((m1.reverse.map fun e => hopOf e.hop) ++ [hopOf e0.hop]) []) =
      .delivered src ([(ek.ia, inF cd ek), (f.nbr, f.nbrIf)] ++ fTrace (!cd) m1.reverse e0) cf := by
    unfold followReply
    simp only [hf, hg, hfn, hfi, hSR _ _ _ hg, hfuel]
    rw [hfn, hfi] at htail
    exact htail
  exact ⟨_, _, _, _, _, rfl, hreply, hfollow⟩

end

end Scion.Net
