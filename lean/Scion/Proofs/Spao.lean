import Scion.Model.Spao
import Scion.Proofs.Wire
import Scion.Proofs.WireExt
/-! Helper lemmas for C21 (SPAO authenticated data). -/
namespace Scion.Spao
open Scion.Util Scion.Wire Scion.WireExt Scion

theorem ofNat_inj_mod {x y : Nat} (h : UInt8.ofNat x = UInt8.ofNat y) : x % 256 = y % 256 := by
  have := congrArg UInt8.toNat h
  simpa using this

theorem ofNat_inj_lt {x y : Nat} (hx : x < 256) (hy : y < 256) (h : UInt8.ofNat x = UInt8.ofNat y) :
    x = y := by
  have := ofNat_inj_mod h; omega

theorem beNat_natBE6 (n : Nat) : beNat (natBE 6 n) = n % 2^48 := by
  simp [beNat, natBE]; omega

theorem natBE2_inj {x y : Nat} (hx : x < 65536) (hy : y < 65536) (h : natBE 2 x = natBE 2 y) : x = y := by
  have := congrArg beNat h
  rw [beNat_natBE2, beNat_natBE2] at this; omega
theorem natBE4_inj {x y : Nat} (hx : x < 2^32) (hy : y < 2^32) (h : natBE 4 x = natBE 4 y) : x = y := by
  have := congrArg beNat h
  rw [beNat_natBE4, beNat_natBE4] at this; omega
theorem natBE6_inj {x y : Nat} (hx : x < 2^48) (hy : y < 2^48) (h : natBE 6 x = natBE 6 y) : x = y := by
  have := congrArg beNat h
  rw [beNat_natBE6, beNat_natBE6] at this; omega
theorem natBE8_inj {x y : Nat} (hx : x < 2^64) (hy : y < 2^64) (h : natBE 8 x = natBE 8 y) : x = y := by
  have := congrArg beNat h
  rw [beNat_natBE8, beNat_natBE8] at this; omega

theorem length_fixedPart (a : AuthIn) : (fixedPart a).length = 20 := by
  simp [fixedPart, length_natBE]

/-- the first line of the common header as the authenticator sees it -/
def line1 (c : Cmn) : Nat := c.version % 16 * 2^28 + c.tc % 64 * 2^20 + c.flowID % 2^20

theorem fixedPart_eq (a : AuthIn) :
    fixedPart a = [UInt8.ofNat ((12 + addrHdrLen a.hdr.cmn + pathLen a.hdr.path) / 4), UInt8.ofNat a.pldType] ++
      (natBE 2 a.pld.length ++ ([UInt8.ofNat a.alg, 0] ++ (natBE 6 a.ts ++ (natBE 4 (line1 a.hdr.cmn) ++
      [UInt8.ofNat a.hdr.cmn.pathType, UInt8.ofNat (a.hdr.cmn.dstType % 16 * 16 + a.hdr.cmn.srcType % 16), 0, 0])))) := by
  simp [fixedPart, line1]

/-- the fixed part determines every field it is built from (for in-range values) -/
theorem fixedPart_inj (a b : AuthIn) (ha : a.WF) (hb : b.WF)
    (hma : (12 + addrHdrLen a.hdr.cmn + pathLen a.hdr.path) % 4 = 0)
    (hmb : (12 + addrHdrLen b.hdr.cmn + pathLen b.hdr.path) % 4 = 0)
    (h : fixedPart a = fixedPart b) :
    12 + addrHdrLen a.hdr.cmn + pathLen a.hdr.path = 12 + addrHdrLen b.hdr.cmn + pathLen b.hdr.path ∧
    a.pldType = b.pldType ∧ a.pld.length = b.pld.length ∧ a.alg = b.alg ∧ a.ts = b.ts ∧
    a.hdr.cmn.version = b.hdr.cmn.version ∧ a.hdr.cmn.tc % 64 = b.hdr.cmn.tc % 64 ∧
    a.hdr.cmn.flowID = b.hdr.cmn.flowID ∧ a.hdr.cmn.pathType = b.hdr.cmn.pathType ∧
    a.hdr.cmn.dstType = b.hdr.cmn.dstType ∧ a.hdr.cmn.srcType = b.hdr.cmn.srcType := by
  obtain ⟨a1, a2, a3, a4, a5, a6, _, _, _, a10, a11, a12, a13, a14⟩ := ha
  obtain ⟨b1, b2, b3, b4, b5, b6, _, _, _, b10, b11, b12, b13, b14⟩ := hb
  rw [fixedPart_eq, fixedPart_eq] at h
  obtain ⟨e0, h⟩ := List.append_inj h (by simp)
  obtain ⟨e1, h⟩ := List.append_inj h (by simp [length_natBE])
  obtain ⟨e2, h⟩ := List.append_inj h (by simp)
  obtain ⟨e3, h⟩ := List.append_inj h (by simp [length_natBE])
  obtain ⟨e4, e5⟩ := List.append_inj h (by simp [length_natBE])
  simp only [List.cons.injEq, and_true] at e0 e2 e5
  have f0 := ofNat_inj_lt (by omega) (by omega) e0.1
  have f1 := ofNat_inj_lt a12 b12 e0.2
  have f2 := natBE2_inj a13 b13 e1
  have f3 := ofNat_inj_lt a10 b10 e2
  have f4 := natBE6_inj a11 b11 e3
  have f5 := natBE4_inj (by unfold line1; omega) (by unfold line1; omega) e4
  have f6 := ofNat_inj_lt a4 b4 e5.1
  have f7 := ofNat_inj_lt (by omega) (by omega) e5.2
  unfold line1 at f5
  refine ⟨?_, f1, f2, f3, f4, ?_, ?_, ?_, f6, ?_, ?_⟩ <;> omega

theorem split8 {l : Bytes} (h : 8 ≤ l.length) :
    ∃ a b c d e f g k rest, l = a :: b :: c :: d :: e :: f :: g :: k :: rest := by
  have hl : (l.take 8).length = 8 := by simp; omega
  obtain ⟨a, b, c, d, e, f, g, k, ht⟩ := length8 hl
  refine ⟨a, b, c, d, e, f, g, k, l.drop 8, ?_⟩
  have := List.take_append_drop 8 l
  rw [ht] at this
  exact this.symm

theorem split12 {l : Bytes} (h : 12 ≤ l.length) :
    ∃ a b c d e f g k x y z w rest, l = a :: b :: c :: d :: e :: f :: g :: k :: x :: y :: z :: w :: rest := by
  have hl : (l.take 12).length = 12 := by simp; omega
  obtain ⟨a, b, c, d, e, f, g, k, x, y, z, w, ht⟩ := length12 hl
  refine ⟨a, b, c, d, e, f, g, k, x, y, z, w, l.drop 12, ?_⟩
  have := List.take_append_drop 12 l
  rw [ht] at this
  exact this.symm

theorem zeroSegIDs_some (n : Nat) (l : Bytes) (h : n * 8 ≤ l.length) :
    ∃ z, zeroSegIDs n l = some z ∧ z.length = l.length := by
  induction n generalizing l with
  | zero => exact ⟨l, rfl, rfl⟩
  | succ n ih =>
    obtain ⟨f, r, s0, s1, t0, t1, t2, t3, rest, rfl⟩ := split8 (l := l) (by omega)
    simp only [List.length_cons] at h
    obtain ⟨z, hz, hl⟩ := ih rest (by omega)
    refine ⟨f :: r :: 0 :: 0 :: t0 :: t1 :: t2 :: t3 :: z, ?_, ?_⟩
    · simp [zeroSegIDs, hz]
    · simp [hl]

theorem zeroHopFlags_some (n : Nat) (l : Bytes) (h : n * 12 ≤ l.length) :
    ∃ z, zeroHopFlags n l = some z ∧ z.length = l.length := by
  induction n generalizing l with
  | zero => exact ⟨l, rfl, rfl⟩
  | succ n ih =>
    obtain ⟨f, e, i0, i1, e0, e1, m0, m1, m2, m3, m4, m5, rest, rfl⟩ := split12 (l := l) (by omega)
    simp only [List.length_cons] at h
    obtain ⟨z, hz, hl⟩ := ih rest (by omega)
    refine ⟨0 :: e :: i0 :: i1 :: e0 :: e1 :: m0 :: m1 :: m2 :: m3 :: m4 :: m5 :: z, ?_, ?_⟩
    · simp [zeroHopFlags, hz]
    · simp [hl]

theorem zeroRaw_some (m : PathMeta.Hdr) (body : Bytes) (hw : RawWF m body) :
    ∃ z, zeroRaw m body = some z ∧ z.length = 4 + body.length := by
  obtain ⟨_, b, hb, hl⟩ := rawWF_elim hw
  unfold zeroRaw
  rw [hb]
  simp only [natBE]
  have hle : b.numINF * 8 ≤ body.length := by rw [hl]; unfold bodyLen; omega
  rw [takeN_isSome hle]
  simp only
  obtain ⟨zi, hzi, hli⟩ := zeroSegIDs_some b.numINF (body.take (b.numINF * 8)) (by simp; omega)
  obtain ⟨zh, hzh, hlh⟩ := zeroHopFlags_some b.numHops (body.drop (b.numINF * 8))
    (by simp; rw [hl]; unfold bodyLen; omega)
  rw [hzi, hzh]
  refine ⟨_, rfl, ?_⟩
  simp [hli, hlh]; omega

theorem zeroPath_some (p : PathV) (hw : PathWF p) :
    ∃ z, zeroPath p = some z ∧ z.length = pathLen p ∧ pathLen p % 4 = 0 := by
  cases p with
  | empty => exact ⟨[], rfl, rfl, rfl⟩
  | scion m body =>
    obtain ⟨z, hz, hl⟩ := zeroRaw_some m body hw
    obtain ⟨_, b, hb, hlb⟩ := rawWF_elim hw
    refine ⟨z, hz, ?_, ?_⟩
    · simp [pathLen, hb, hl, hlb]
    · simp [pathLen, hb, bodyLen]; omega
  | onehop i h1 h2 =>
    simp only [zeroPath, encInfo, encHop, natBE, List.cons_append, List.nil_append]
    refine ⟨_, rfl, ?_, by simp [pathLen]⟩
    simp [pathLen, length_fit]
  | epic ts ctr phvf lhvf m body =>
    obtain ⟨_, _, h3, h4, hr⟩ := hw
    obtain ⟨z, hz, hl⟩ := zeroRaw_some m body hr
    obtain ⟨_, b, hb, hlb⟩ := rawWF_elim hr
    refine ⟨natBE 4 ts ++ natBE 4 ctr ++ phvf ++ lhvf ++ z, ?_, ?_, ?_⟩
    · simp [zeroPath, h3, h4, hz]
    · simp [pathLen, hb, hl, hlb, length_natBE, h3, h4]; omega
    · simp [pathLen, hb, bodyLen]; omega

theorem addrHdrLen_mod4 (c : Cmn) : addrHdrLen c % 4 = 0 := by
  unfold addrHdrLen addrLen; omega

/-- for well-formed input the MAC input is defined and is the concatenation of the four parts -/
theorem macInput_ok (a : AuthIn) (ha : a.WF) :
    ∃ z, zeroPath a.hdr.path = some z ∧ z.length = pathLen a.hdr.path ∧
      pathLen a.hdr.path % 4 = 0 ∧
      macInput a = .ok (fixedPart a ++ addrPart a ++ z ++ a.pld) := by
  obtain ⟨_, _, _, _, _, _, _, hp, _, _, _, _, _, hlen⟩ := ha
  obtain ⟨z, hz, hl, hm⟩ := zeroPath_some a.hdr.path hp
  refine ⟨z, hz, hl, hm, ?_⟩
  have := addrHdrLen_mod4 a.hdr.cmn
  unfold macInput authData
  simp only
  rw [if_neg (by omega), if_neg (by omega), hz]

theorem fixedPart_congr (a b : AuthIn)
    (hl : pathLen a.hdr.path = pathLen b.hdr.path)
    (h1 : a.hdr.cmn.version = b.hdr.cmn.version) (h2 : a.hdr.cmn.tc % 64 = b.hdr.cmn.tc % 64)
    (h3 : a.hdr.cmn.flowID = b.hdr.cmn.flowID) (h4 : a.hdr.cmn.pathType = b.hdr.cmn.pathType)
    (h5 : a.hdr.cmn.dstType = b.hdr.cmn.dstType) (h6 : a.hdr.cmn.srcType = b.hdr.cmn.srcType)
    (h7 : a.pldType = b.pldType) (h8 : a.pld = b.pld) (h9 : a.alg = b.alg) (h10 : a.ts = b.ts) :
    fixedPart a = fixedPart b := by
  unfold fixedPart addrHdrLen
  simp only [hl, h1, h2, h3, h4, h5, h6, h7, h8, h9, h10]

theorem addrPart_congr (a b : AuthIn) (hc : SameClass a b)
    (h7 : inclIA a.spi = true → a.hdr.dstIA = b.hdr.dstIA ∧ a.hdr.srcIA = b.hdr.srcIA)
    (h8 : inclDst a.spi = true → a.hdr.rawDst = b.hdr.rawDst)
    (h9 : inclSrc a.spi = true → a.hdr.rawSrc = b.hdr.rawSrc) : addrPart a = addrPart b := by
  obtain ⟨c1, c2, c3⟩ := hc
  unfold addrPart
  rw [← c1, ← c2, ← c3]
  cases e1 : inclIA a.spi <;> cases e2 : inclDst a.spi <;> cases e3 : inclSrc a.spi <;>
    simp_all

theorem addrPart_length (a : AuthIn) (ha : a.WF) :
    (addrPart a).length = (if inclIA a.spi then 16 else 0) +
      (if inclDst a.spi then addrLen a.hdr.cmn.dstType else 0) +
      (if inclSrc a.spi then addrLen a.hdr.cmn.srcType else 0) := by
  obtain ⟨_, _, _, _, _, _, ⟨_, _, hd, hs⟩, _⟩ := ha
  simp only at hd hs
  unfold addrPart
  cases inclIA a.spi <;> cases inclDst a.spi <;> cases inclSrc a.spi <;>
    simp [length_natBE, hd, hs] <;> omega

theorem addrPart_inj (a b : AuthIn) (ha : a.WF) (hb : b.WF) (hc : SameClass a b)
    (hdt : a.hdr.cmn.dstType = b.hdr.cmn.dstType) (hst : a.hdr.cmn.srcType = b.hdr.cmn.srcType)
    (h : addrPart a = addrPart b) :
    (inclIA a.spi = true → a.hdr.dstIA = b.hdr.dstIA ∧ a.hdr.srcIA = b.hdr.srcIA) ∧
    (inclDst a.spi = true → a.hdr.rawDst = b.hdr.rawDst) ∧
    (inclSrc a.spi = true → a.hdr.rawSrc = b.hdr.rawSrc) := by
  obtain ⟨c1, c2, c3⟩ := hc
  obtain ⟨_, _, _, _, _, _, ⟨ia1, ia2, ad, as⟩, _⟩ := ha
  obtain ⟨_, _, _, _, _, _, ⟨ib1, ib2, bd, bs⟩, _⟩ := hb
  simp only at ia1 ia2 ad as ib1 ib2 bd bs
  have hdl : a.hdr.rawDst.length = b.hdr.rawDst.length := by rw [ad, bd, hdt]
  have hsl : a.hdr.rawSrc.length = b.hdr.rawSrc.length := by rw [as, bs, hst]
  unfold addrPart at h
  rw [← c1, ← c2, ← c3] at h
  -- split the three optional parts
  have key : (if inclIA a.spi = true then natBE 8 a.hdr.dstIA ++ natBE 8 a.hdr.srcIA else []) =
        (if inclIA a.spi = true then natBE 8 b.hdr.dstIA ++ natBE 8 b.hdr.srcIA else []) ∧
      (if inclDst a.spi = true then a.hdr.rawDst else []) = (if inclDst a.spi = true then b.hdr.rawDst else []) ∧
      (if inclSrc a.spi = true then a.hdr.rawSrc else []) = (if inclSrc a.spi = true then b.hdr.rawSrc else []) := by
    obtain ⟨e12, e3⟩ := List.append_inj h (by
      simp only [List.length_append]
      cases inclIA a.spi <;> cases inclDst a.spi <;> simp [length_natBE, hdl])
    obtain ⟨e1, e2⟩ := List.append_inj e12 (by cases inclIA a.spi <;> simp [length_natBE])
    exact ⟨e1, e2, e3⟩
  obtain ⟨k1, k2, k3⟩ := key
  refine ⟨?_, ?_, ?_⟩
  · intro hi
    rw [if_pos hi, if_pos hi] at k1
    obtain ⟨e1, e2⟩ := List.append_inj k1 (by simp [length_natBE])
    exact ⟨natBE8_inj ia1 ib1 e1, natBE8_inj ia2 ib2 e2⟩
  · intro hi
    rw [if_pos hi, if_pos hi] at k2
    exact k2
  · intro hi
    rw [if_pos hi, if_pos hi] at k3
    exact k3

/-- **The authenticator input covers exactly `ImmutEq (· % 64)`.** -/
theorem macInput_eq_iff (a b : AuthIn) (ha : a.WF) (hb : b.WF) (hc : SameClass a b) :
    macInput a = macInput b ↔ ImmutEq codeTC a b := by
  obtain ⟨za, hza, hla, hma, ea⟩ := macInput_ok a ha
  obtain ⟨zb, hzb, hlb, hmb, eb⟩ := macInput_ok b hb
  have hmoda := addrHdrLen_mod4 a.hdr.cmn
  have hmodb := addrHdrLen_mod4 b.hdr.cmn
  constructor
  · intro h
    rw [ea, eb] at h
    injection h with h
    simp only [List.append_assoc] at h
    obtain ⟨hf, h⟩ := List.append_inj h (by simp [length_fixedPart])
    obtain ⟨f0, f1, f2, f3, f4, f5, f6, f7, f8, f9, f10⟩ :=
      fixedPart_inj a b ha hb (by omega) (by omega) hf
    have hal : (addrPart a).length = (addrPart b).length := by
      rw [addrPart_length a ha, addrPart_length b hb, hc.1, hc.2.1, hc.2.2, f9, f10]
    obtain ⟨hadr, h⟩ := List.append_inj h hal
    have hpl : pathLen a.hdr.path = pathLen b.hdr.path := by
      unfold addrHdrLen at f0; rw [f9, f10] at f0; omega
    obtain ⟨hz, hp⟩ := List.append_inj h (by omega)
    obtain ⟨g1, g2, g3⟩ := addrPart_inj a b ha hb hc f9 f10 hadr
    exact ⟨f5, f6, f7, f8, f9, f10, g1, g2, g3, by rw [hza, hzb, hz], f1, hp, f3, f4⟩
  · intro h
    obtain ⟨h1, h2, h3, h4, h5, h6, h7, h8, h9, hz, h11, h12, h13, h14⟩ := h
    rw [ea, eb]
    have hzz : za = zb := by rw [hza, hzb] at hz; injection hz
    have hpl : pathLen a.hdr.path = pathLen b.hdr.path := by rw [← hla, ← hlb, hzz]
    rw [fixedPart_congr a b hpl h1 h2 h3 h4 h5 h6 h11 h12 h13 h14,
      addrPart_congr a b hc h7 h8 h9, hzz, h12]

/-! ### what `zeroOutMutablePath` drops, field by field -/

theorem zeroSegIDs_encInfos (is : List Info) (rest : Bytes) :
    zeroSegIDs is.length (encInfos is ++ rest) = some (encInfos (is.map clearSegID) ++ rest) := by
  induction is with
  | nil => simp [encInfos, zeroSegIDs]
  | cons i is ih =>
    show zeroSegIDs (is.length + 1) (encInfo i ++ encInfos is ++ rest) =
      some (encInfo (clearSegID i) ++ encInfos (is.map clearSegID) ++ rest)
    simp only [encInfo, natBE, List.cons_append, List.nil_append, List.append_assoc, zeroSegIDs,
      clearSegID]
    rw [ih]
    simp

theorem zeroHopFlags_encHops (hs : List Hop) (rest : Bytes) :
    zeroHopFlags hs.length (encHops hs ++ rest) = some (encHops (hs.map clearAlerts) ++ rest) := by
  induction hs with
  | nil => simp [encHops, zeroHopFlags]
  | cons h hs ih =>
    show zeroHopFlags (hs.length + 1) (encHop h ++ encHops hs ++ rest) =
      some (encHop (clearAlerts h) ++ encHops (hs.map clearAlerts) ++ rest)
    have hf : ∃ a b c d e f, fit 6 h.mac = [a, b, c, d, e, f] := by
      have hl := length_fit 6 h.mac
      match fit 6 h.mac, hl with
      | [a, b, c, d, e, f], _ => exact ⟨a, b, c, d, e, f, rfl⟩
    obtain ⟨a, b, c, d, e, f, hm⟩ := hf
    simp only [encHop, natBE, List.cons_append, List.nil_append, List.append_assoc, clearAlerts, hm,
      zeroHopFlags]
    rw [ih]
    simp [b2n]

/-- **Structured view of `zeroOutWithBase`**: on a path whose body is the encoding of info fields
`is` and hop fields `hs` (as many as the meta header announces), the authenticated path bytes are
the meta line with its first byte (CurrINF, CurrHF) zeroed, the info fields with SegID := 0 and
the hop fields with both router-alert flags cleared — every other field is kept as it is. -/
theorem zeroRaw_fields (m : PathMeta.Hdr) (b : PathMeta.Base) (is : List Info) (hs : List Hop)
    (hb : PathMeta.baseDecode m = some b) (hi : is.length = b.numINF) (hh : hs.length = b.numHops) :
    zeroRaw m (encInfos is ++ encHops hs) =
      some (0 :: (natBE 4 (PathMeta.encode m)).drop 1 ++
        (encInfos (is.map clearSegID) ++ encHops (hs.map clearAlerts))) := by
  unfold zeroRaw
  rw [hb]
  simp only [natBE]
  have hl : (encInfos is).length = b.numINF * 8 := by rw [length_encInfos, hi]
  rw [takeN_append' _ _ _ hl]
  simp only
  have h1 := zeroSegIDs_encInfos is []
  have h2 := zeroHopFlags_encHops hs []
  simp only [List.append_nil] at h1 h2
  rw [← hi, ← hh, h1, h2]
  simp

theorem baseDecode_pointers (m : PathMeta.Hdr) (x y : Nat) :
    PathMeta.baseDecode { m with currINF := x, currHF := y } =
      (PathMeta.baseDecode m).map fun b => { b with pm := { m with currINF := x, currHF := y } } := by
  have hs : ∀ i, PathMeta.segLen { m with currINF := x, currHF := y } i = PathMeta.segLen m i := by
    intro i; unfold PathMeta.segLen; split <;> rfl
  have hstep : ∀ st i, PathMeta.baseStep { m with currINF := x, currHF := y } st i = PathMeta.baseStep m st i := by
    intro st i; unfold PathMeta.baseStep; simp only [hs]
  unfold PathMeta.baseDecode
  simp only [List.foldl, hstep]
  split <;> simp
  split <;> simp

/-- the current info/hop pointers do not enter the authenticated path -/
theorem zeroRaw_ignores_pointers (m : PathMeta.Hdr) (body : Bytes) (x y : Nat) :
    zeroRaw { m with currINF := x, currHF := y } body = zeroRaw m body := by
  unfold zeroRaw
  rw [baseDecode_pointers]
  cases hb : PathMeta.baseDecode m with
  | none => rfl
  | some b =>
    simp only [Option.map_some, natBE]
    have e1 : PathMeta.encode { m with currINF := x, currHF := y } / 256 ^ 2 % 256 =
        PathMeta.encode m / 256 ^ 2 % 256 := by
      simp only [PathMeta.encode]; omega
    have e2 : PathMeta.encode { m with currINF := x, currHF := y } / 256 ^ 1 % 256 =
        PathMeta.encode m / 256 ^ 1 % 256 := by
      simp only [PathMeta.encode]; omega
    have e3 : PathMeta.encode { m with currINF := x, currHF := y } / 256 ^ 0 % 256 =
        PathMeta.encode m / 256 ^ 0 % 256 := by
      simp only [PathMeta.encode]; omega
    rw [e1, e2, e3]

/-- one-hop path: SegID, the first hop's router-alert flags and the whole second hop do not enter
the authenticated path -/
theorem zeroPath_onehop_ignores (i : Info) (h1 h2 h2' : Hop) (s : Nat) (a b : Bool) :
    zeroPath (.onehop { i with segID := s } { h1 with inAlert := a, egAlert := b } h2') =
      zeroPath (.onehop i h1 h2) := by
  simp only [zeroPath, encInfo, encHop, natBE, List.cons_append, List.nil_append]

/-- EPIC: the embedded SCION path is treated as a SCION path; PktID, PHVF, LHVF are covered -/
theorem zeroPath_epic (ts ctr : Nat) (p l : Bytes) (m : PathMeta.Hdr) (body : Bytes)
    (hp : p.length = 4) (hl : l.length = 4) :
    zeroPath (.epic ts ctr p l m body) =
      (zeroRaw m body).map fun z => natBE 4 ts ++ natBE 4 ctr ++ p ++ l ++ z := by
  simp only [zeroPath, hp, hl]
  cases zeroRaw m body <;> simp

/-! ### extension headers and the upper layer -/

/-- an extension header of protocol class `cls` wrapped around an upper layer -/
theorem upperLayer_wrap_e2e (nh el : Nat) (body l4 : Bytes) (h1 : nh < 256) (h2 : el < 256)
    (hl : body.length + 2 = (el + 1) * 4) (hn : nh ≠ 200 ∧ nh ≠ 201) :
    upperLayer 201 (UInt8.ofNat nh :: UInt8.ofNat el :: (body ++ l4)) = some (nh, l4) := by
  unfold upperLayer
  rw [if_neg (by decide), if_pos rfl, decExtBase_enc nh el body l4 h1 h2 hl]
  simp only
  rw [if_neg (by omega)]

theorem upperLayer_wrap_hbh (nh el : Nat) (body l4 : Bytes) (h1 : nh < 256) (h2 : el < 256)
    (hl : body.length + 2 = (el + 1) * 4) (hn : nh ≠ 200 ∧ nh ≠ 201) :
    upperLayer 200 (UInt8.ofNat nh :: UInt8.ofNat el :: (body ++ l4)) = some (nh, l4) := by
  unfold upperLayer
  rw [if_pos rfl, decExtBase_enc nh el body l4 h1 h2 hl]
  simp only
  rw [if_neg (by omega), if_neg (by omega)]

theorem upperLayer_plain (nh : Nat) (l4 : Bytes) (hn : nh ≠ 200 ∧ nh ≠ 201) :
    upperLayer nh l4 = some (nh, l4) := by
  unfold upperLayer
  rw [if_neg (by omega), if_neg (by omega)]

/-- the header with another `NextHdr`/`PayloadLen` (what inserting an extension header changes) -/
def withNext (h : Hdr) (nh pl : Nat) : Hdr :=
  { h with cmn := ⟨h.cmn.version, h.cmn.tc, h.cmn.flowID, nh, h.cmn.hdrLen, pl, h.cmn.pathType,
                   h.cmn.dstType, h.cmn.srcType⟩ }

theorem macInput_withNext (h : Hdr) (nh pl spi alg ts t : Nat) (l4 : Bytes) :
    macInput ⟨withNext h nh pl, spi, alg, ts, t, l4⟩ = macInput ⟨h, spi, alg, ts, t, l4⟩ := by
  unfold macInput authData fixedPart addrPart addrHdrLen withNext
  rfl

end Scion.Spao
