import Scion.Model.Net
/-! Stage lemmas for the per-router step of `Scion.Model.Net` (core Lean only). -/
namespace Scion.Net
open Scion.SegID (updateSegID)

theorem stChecks_err (mac : MacFn) (cfg : RCfg) (now : Nat) (arr : Arrival) (sl dl : Bool)
    (c1 : Cursor) (p : Bool) (o : Out) (h : stChecks mac cfg now arr sl dl c1 p = .error o) :
    o.accepting = false := by
  unfold stChecks at h
  repeat' split at h
  all_goals (first | (cases h; rfl) | (simp at h))

/-- everything the ingress checks establish -/
theorem stChecks_ok (mac : MacFn) (cfg : RCfg) (now : Nat) (arr : Arrival) (sl dl : Bool)
    (c1 : Cursor) (p : Bool) (s : StIn) (h : stChecks mac cfg now arr sl dl c1 p = .ok s) :
    s = ⟨c1, p⟩ ∧
    expired now c1.info.ts c1.cur.exp = false ∧
    (arr.ifid ≠ 0 → arr.ifid = (if c1.info.consDir then c1.cur.cIn else c1.cur.cEg)) ∧
    (arr.ifid ≠ 0 → sl = false ∧ c1.isLastHop = dl) ∧
    (arr.ifid = 0 → dl = false ∧ (c1.isFirstHop = true → sl = true)) ∧
    macOk mac cfg.key c1.info c1.cur = true := by
  unfold stChecks at h
  repeat' split at h
  all_goals (first | (cases h; done) | skip)
  all_goals (cases h)
  all_goals simp_all

theorem stIngress_err (mac : MacFn) (cfg : RCfg) (now : Nat) (arr : Arrival) (sl dl : Bool)
    (c : Cursor) (o : Out) (h : stIngress mac cfg now arr sl dl c = .error o) :
    o.accepting = false := by
  unfold stIngress at h
  split at h
  · cases h; rfl
  · split at h
    · cases h; rfl
    · exact stChecks_err _ _ _ _ _ _ _ _ _ h

theorem stIngress_ok (mac : MacFn) (cfg : RCfg) (now : Nat) (arr : Arrival) (sl dl : Bool)
    (c : Cursor) (s : StIn) (h : stIngress mac cfg now arr sl dl c = .ok s) :
    determinePeer c = some s.peering ∧ s.c = ingUpd c arr s.peering ∧
    (c.info.peer = false → c.hasSingleton = false) ∧
    stChecks mac cfg now arr sl dl (ingUpd c arr s.peering) s.peering = .ok s := by
  unfold stIngress at h
  split at h
  · cases h
  · rename_i hs
    split at h
    · cases h
    · rename_i p hp
      have := stChecks_ok _ _ _ _ _ _ _ _ _ h
      obtain ⟨rfl, _⟩ := this
      refine ⟨hp, rfl, ?_, h⟩
      intro hpeer
      simp [hpeer] at hs
      exact hs

theorem stXover_err (mac : MacFn) (cfg : RCfg) (now : Nat) (s : StIn) (o : Out)
    (h : stXover mac cfg now s = .error o) : o.accepting = false := by
  unfold stXover at h
  repeat' split at h
  all_goals (first | (cases h; rfl) | (simp at h))

theorem stXover_ok (mac : MacFn) (cfg : RCfg) (now : Nat) (s : StIn) (x : StX)
    (h : stXover mac cfg now s = .ok x) :
    x.peering = s.peering ∧
    ((x.xover = false ∧ x.c = s.c ∧ (s.c.isXover && !s.peering) = false) ∨
     (x.xover = true ∧ (s.c.isXover && !s.peering) = true ∧ s.c.incPath = some x.c ∧
        expired now x.c.info.ts x.c.cur.exp = false ∧ macOk mac cfg.key x.c.info x.c.cur = true)) := by
  unfold stXover at h
  repeat' split at h
  all_goals (first | (cases h; done) | skip)
  all_goals (cases h)
  all_goals simp_all

/-- a router only lets a packet continue when the MAC of the current hop field verifies under the
    SegID as updated at ingress (and, at a cross-over, also the MAC of the next segment's first
    hop field) -/
theorem routerStep_accepting (mac : MacFn) (cfg : RCfg) (now : Nat) (arr : Arrival) (sl dl : Bool)
    (c : Cursor) (h : (routerStep mac cfg now arr sl dl c).accepting = true) :
    ∃ p, determinePeer c = some p ∧
      macOk mac cfg.key (ingUpd c arr p).info (ingUpd c arr p).cur = true ∧
      expired now (ingUpd c arr p).info.ts (ingUpd c arr p).cur.exp = false := by
  unfold routerStep at h
  split at h
  · rename_i o ho
    rw [stIngress_err _ _ _ _ _ _ _ _ ho] at h
    cases h
  · rename_i s hs
    obtain ⟨hp, hc, _, hk⟩ := stIngress_ok _ _ _ _ _ _ _ _ hs
    obtain ⟨_, he, _, _, _, hm⟩ := stChecks_ok _ _ _ _ _ _ _ _ _ hk
    exact ⟨s.peering, hp, hm, he⟩

end Scion.Net
