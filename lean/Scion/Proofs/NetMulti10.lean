import Scion.Proofs.NetMulti9
import Scion.Proofs.NetScmp2
/-! C10 with several border routers per AS: SCMP "expired hop" / "bad MAC" at any position of a
single-segment path; the reply is delivered in the source AS.  Core Lean only. -/
namespace Scion.Net
open Scion.SegID (updateSegID extractBeta)

section
variable (mac : MacFn) (net : Net) (now src dst : Nat) (core cd : Bool) (ts : Nat)
variable (hWF : WFNet net) (hUp : AllUp net)
include hWF hUp

/-- `slow_reply_run` for SCMP 4/51 and 4/52 without `SingleRouter`: the run in the collapsed
    network (`slow_reply_run` there) transfers to the network as it is — the packet is stopped by
    the router of the AS of `ek` that owns the ingress interface, the reply goes back through
    ASes whose ingress and egress interfaces may belong to different routers -/
theorem slow_reply_run_multi (seg0 : Nat) (e0 : ASE) (m1 : List ASE) (ek : ASE) (h' : Hop) (k : Nat)
    (tlh : List Hop) (hk : k = 51 ∨ k = 52)
    (hFL : FL mac net core cd ts seg0 (e0 :: (m1 ++ [ek])))
    (hsrc : src = e0.ia) (hsd : src ≠ dst)
    (hnd : ((e0 :: (m1 ++ [ek])).map (·.ia)).Nodup)
    (hmidd : ∀ e ∈ m1, e.ia ≠ dst)
    (hexpU : ∀ e ∈ e0 :: m1, expired now ts e.hop.exp = false)
    (hstop : routerStep mac (cfgOf (collapse net) ek.ia) now (.ext (inF cd ek)) (ek.ia == src) (ek.ia == dst)
        ⟨[], ⟨cd, false, extractBeta (updateSegID seg0 (pfx e0.hop.mac)) (sig m1), ts⟩,
          hopOf e0.hop :: m1.map (fun e => hopOf e.hop), h', tlh, []⟩ =
      .slow 4 k 0 ⟨[], ⟨cd, false, usedSeg cd (extractBeta (updateSegID seg0 (pfx e0.hop.mac)) (sig m1)) h', ts⟩,
          hopOf e0.hop :: m1.map (fun e => hopOf e.hop), h', tlh, []⟩) :
    ∃ r tr c1 rc trr cr,
      send mac net now src dst
        ⟨[], ⟨cd, false, usedAt cd seg0 e0, ts⟩, [], hopOf e0.hop,
          (m1.map fun e => hopOf e.hop) ++ h' :: tlh, []⟩ =
        .stopped ek.ia r (.ext (inF cd ek)) (.slow 4 k 0 c1) tr ∧
      replyOf (.slow 4 k 0 c1) (.ext (inF cd ek)) = some rc ∧
      followReply mac net now src ek.ia r (.ext (inF cd ek)) rc = .delivered src trr cr := by
  have hUpc := allUp_collapse net hUp
  have hSRc := singleRouter_collapse net
  have hFLc := fl_collapse mac net core cd ts _ seg0 hFL
  obtain ⟨tr, c1, rc, trr, cr, h1, h2, h3⟩ := slow_reply_run mac (collapse net) now src dst core cd ts hUpc hSRc
    seg0 e0 m1 ek h' 4 k tlh hFLc hsrc hsd hnd hmidd hexpU hstop 0
  obtain ⟨h0k, hmid1⟩ := nd_facts e0 m1 ek hnd
  obtain ⟨_, hin0, _⟩ := fl_last mac net core cd ts m1 e0 ek seg0 hFL
  -- the stopped packet is the one `hstop` names
  have hpre := segment_prefix_run mac (collapse net) now src dst core cd ts hUpc hSRc seg0 e0 m1 ek
    h' tlh hFLc hsrc hsd
    (fun e he => ⟨by rw [hsrc]; exact (hmid1 e he).1, hmidd e he, hexpU e (by simp [he])⟩)
    (hexpU e0 (by simp)) (0 + 1)
  have h1' := h1
  rw [show 0 + 2 + m1.length = 0 + 1 + 1 + m1.length by omega, hpre,
    run_stopped_slow mac (collapse net) now src dst 0 ek.ia 0 _ _ _ _ 4 k 0 hstop] at h1'
  simp only [Result.stopped.injEq, Out.slow.injEq, true_and] at h1'
  obtain ⟨hc1, _⟩ := h1'
  -- `send` in the collapsed network
  have hfirst : (⟨[], ⟨cd, false, usedAt cd seg0 e0, ts⟩, [], hopOf e0.hop,
      (m1.map fun e => hopOf e.hop) ++ h' :: tlh, []⟩ : Cursor).isFirstHop = true := rfl
  have hU : Uniform (⟨[], ⟨cd, false, usedAt cd seg0 e0, ts⟩, [], hopOf e0.hop,
      (m1.map fun e => hopOf e.hop) ++ h' :: tlh, []⟩ : Cursor) :=
    ⟨(by intro s hs; cases hs), (by intro s hs; cases hs)⟩
  have hsendC : send mac (collapse net) now src dst
      ⟨[], ⟨cd, false, usedAt cd seg0 e0, ts⟩, [], hopOf e0.hop,
        (m1.map fun e => hopOf e.hop) ++ h' :: tlh, []⟩ =
      .stopped ek.ia 0 (.ext (inF cd ek)) (.slow 4 k 0 c1) tr := by
    unfold send
    rw [entryRouter_collapse, fuelFor_first _ hfirst]
    obtain ⟨j, hj⟩ : ∃ j, 2 * remaining (⟨[], ⟨cd, false, usedAt cd seg0 e0, ts⟩, [], hopOf e0.hop,
        (m1.map fun e => hopOf e.hop) ++ h' :: tlh, []⟩ : Cursor) + 1 + 1 = (0 + 2 + m1.length) + j :=
      ⟨2 * remaining (⟨[], ⟨cd, false, usedAt cd seg0 e0, ts⟩, [], hopOf e0.hop,
        (m1.map fun e => hopOf e.hop) ++ h' :: tlh, []⟩ : Cursor) - m1.length, by
        simp [remaining]; omega⟩
    rw [hj]
    exact run_mono_slow mac (collapse net) now src dst _ _ _ _ _ _ _ _ _ _ _ _ _ _ h1 j
  obtain ⟨r', hreal⟩ := send_sim_slow mac net now src dst hWF k hk _ hU hfirst _ _ _ _ _ hsendC
  have hrc : Uniform rc ∧ ArrOK rc := by
    have h2' := h2
    simp only [replyOf, Arrival.ifid] at h2'
    have hne : (inF cd ek != 0) = true := by simp [hin0]
    rw [hne, ← hc1] at h2'
    exact scmpPrepare_single _ rc rfl rfl h2'
  exact ⟨r', tr, c1, rc, trr, cr, hreal, h2,
    followReply_sim mac net now src hWF ek.ia r' 0 (inF cd ek) rc hrc.1 hrc.2 src trr cr h3⟩

/-- instance: an expired hop field (SCMP 4/52), any number of border routers per AS -/
theorem expired_reply_run_multi (seg0 : Nat) (e0 : ASE) (m1 : List ASE) (ek : ASE) (exp' : Nat)
    (tlh : List Hop)
    (hFL : FL mac net core cd ts seg0 (e0 :: (m1 ++ [ek])))
    (hsrc : src = e0.ia) (hsd : src ≠ dst)
    (hnd : ((e0 :: (m1 ++ [ek])).map (·.ia)).Nodup)
    (hmidd : ∀ e ∈ m1, e.ia ≠ dst)
    (hexpU : ∀ e ∈ e0 :: m1, expired now ts e.hop.exp = false)
    (hexp' : expired now ts exp' = true) :
    ∃ r tr c1 rc trr cr,
      send mac net now src dst
        ⟨[], ⟨cd, false, usedAt cd seg0 e0, ts⟩, [], hopOf e0.hop,
          (m1.map fun e => hopOf e.hop) ++ { hopOf ek.hop with exp := exp' } :: tlh, []⟩ =
        .stopped ek.ia r (.ext (inF cd ek)) (.slow 4 52 0 c1) tr ∧
      replyOf (.slow 4 52 0 c1) (.ext (inF cd ek)) = some rc ∧
      followReply mac net now src ek.ia r (.ext (inF cd ek)) rc = .delivered src trr cr := by
  obtain ⟨_, hin0, _⟩ := fl_last mac net core cd ts m1 e0 ek seg0 hFL
  have hes := expired_step mac (collapse net) now src dst cd ts
    (extractBeta (updateSegID seg0 (pfx e0.hop.mac)) (sig m1)) ek.ia (inF cd ek)
    { hopOf ek.hop with exp := exp' } [] (hopOf e0.hop :: m1.map fun e => hopOf e.hop) tlh []
    (by simp) (by simp) (by simp; omega) hin0 (by simpa using hexp')
  exact slow_reply_run_multi mac net now src dst core cd ts hWF hUp seg0 e0 m1 ek _ 52 tlh (Or.inr rfl) hFL
    hsrc hsd hnd hmidd hexpU hes

/-- instance: a hop field whose MAC no longer verifies (SCMP 4/51), any number of border routers
    per AS -/
theorem badmac_reply_run_multi (seg0 : Nat) (e0 : ASE) (m1 : List ASE) (ek : ASE) (mac' : Nat)
    (tlh : List Hop)
    (hFL : FL mac net core cd ts seg0 (e0 :: (m1 ++ [ek])))
    (hsrc : src = e0.ia) (hsd : src ≠ dst)
    (hnd : ((e0 :: (m1 ++ [ek])).map (·.ia)).Nodup)
    (hmidd : ∀ e ∈ m1, e.ia ≠ dst)
    (hexpU : ∀ e ∈ e0 :: (m1 ++ [ek]), expired now ts e.hop.exp = false)
    (hdl : tlh.isEmpty = (ek.ia == dst))
    (hbad : macOk mac (net ek.ia).key
      ⟨cd, false, usedSeg cd (extractBeta (updateSegID seg0 (pfx e0.hop.mac)) (sig m1))
        { hopOf ek.hop with mac := mac' }, ts⟩ { hopOf ek.hop with mac := mac' } = false) :
    ∃ r tr c1 rc trr cr,
      send mac net now src dst
        ⟨[], ⟨cd, false, usedAt cd seg0 e0, ts⟩, [], hopOf e0.hop,
          (m1.map fun e => hopOf e.hop) ++ { hopOf ek.hop with mac := mac' } :: tlh, []⟩ =
        .stopped ek.ia r (.ext (inF cd ek)) (.slow 4 51 0 c1) tr ∧
      replyOf (.slow 4 51 0 c1) (.ext (inF cd ek)) = some rc ∧
      followReply mac net now src ek.ia r (.ext (inF cd ek)) rc = .delivered src trr cr := by
  obtain ⟨_, hin0, _⟩ := fl_last mac net core cd ts m1 e0 ek seg0 hFL
  obtain ⟨h0k, _⟩ := nd_facts e0 m1 ek hnd
  have hbs := badmac_step mac (collapse net) now src dst cd ts
    (extractBeta (updateSegID seg0 (pfx e0.hop.mac)) (sig m1)) ek.ia (inF cd ek)
    { hopOf ek.hop with mac := mac' } [] (hopOf e0.hop :: m1.map fun e => hopOf e.hop) tlh []
    (by simp) (by simp) (by simp; omega) hin0 (by cases cd <;> rfl)
    (by rw [hsrc]; exact Ne.symm h0k) (by simpa using hdl)
    (by simpa [hopOf] using hexpU ek (by simp)) hbad
  exact slow_reply_run_multi mac net now src dst core cd ts hWF hUp seg0 e0 m1 ek _ 51 tlh (Or.inl rfl) hFL
    hsrc hsd hnd hmidd
    (fun e he => hexpU e (by simp at he ⊢; rcases he with rfl | he; exact Or.inl rfl; exact Or.inr (Or.inl he)))
    hbs

end

end Scion.Net
