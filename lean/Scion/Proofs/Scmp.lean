import Scion.Model.Scmp
import Scion.Props.C19
/-! Helper lemmas about `Scion.Scmp` (slow-path model): sizes, path pointers of the reply,
stage lemmas of `prepareSCMP`. -/
namespace Scion.Scmp
open Scion.Util Scion.PathMeta Scion.C19

theorem addrTypeLen_le (t : Nat) : addrTypeLen t ≤ 16 ∧ 4 ≤ addrTypeLen t ∧ addrTypeLen t % 4 = 0 := by
  unfold addrTypeLen lineLen; omega

theorem scmpHeaderSize_le (t : Nat) : scmpHeaderSize t ≤ 28 ∧ 8 ≤ scmpHeaderSize t := by
  unfold scmpHeaderSize; (repeat' split) <;> omega

theorem infoBlockLen_le (t : Nat) : infoBlockLen t ≤ 24 := by
  unfold infoBlockLen; (repeat' split) <;> omega

/-- for the message types the router emits the size used for the quote computation is the size
that is really serialised -/
theorem actual_eq_predicted (dstT srcT ni nh t : Nat) (a : Bool)
    (ht : t = 1 ∨ t = 4 ∨ t = 5 ∨ t = 6 ∨ t = 131) :
    actualHdrLen dstT srcT ni nh t a = hdrLen dstT srcT ni nh t a := by
  unfold actualHdrLen hdrLen scmpHeaderSize infoBlockLen
  rcases ht with h | h | h | h | h <;> subst h <;> simp

theorem hdrLen_le (dstT srcT ni nh t : Nat) (a : Bool) (hi : ni ≤ 3) (hh : nh ≤ 64) :
    hdrLen dstT srcT ni nh t a ≤ 916 := by
  have h1 := addrTypeLen_le dstT
  have h2 := addrTypeLen_le srcT
  have h3 := scmpHeaderSize_le t
  unfold hdrLen addrHdrLen pathLen cmnHdrLen iaBytes metaLen infoLen hopLen e2eAuthHdrLen
  split <;> omega

/-- what `baseDecode` guarantees -/
theorem baseDecode_bounds (m : Hdr) (b : Base) (h : baseDecode m = some b) :
    b.pm = m ∧ b.numINF ≤ 3 ∧ b.numHops ≤ 64 ∧ b.numHops = sumHops m ∧
    b.numINF = Scion.C19.nonEmptySegs m ∧ Scion.C19.Shape m := by
  have hv := Scion.C19.accept_values m b h
  have hs : Scion.C19.Shape m := (Scion.C19.accept_iff m).1 ⟨b, h⟩
  obtain ⟨h1, h2, h3⟩ := hv
  refine ⟨h1, ?_, ?_, h3, h2, hs⟩
  · rw [h2]; unfold Scion.C19.nonEmptySegs; (repeat' split) <;> omega
  · rw [h3]; unfold sumHops; unfold Scion.C19.Shape at hs; omega


/-! ### stage lemmas of `prepareSCMP` -/

theorem quoteLen_le (len hl : Nat) : quoteLen len hl ≤ len ∧ quoteLen len hl ≤ maxSCMPPacketLen - hl := by
  unfold quoteLen; omega

/-- facts about a successful `placement` -/
theorem placement_ok (cfg : Cfg) (headroom : Nat) (raw : Bytes) (dstT srcT ni nh typ : Nat)
    (na isErr : Bool) (sz : Sizes)
    (h : placement cfg headroom raw dstT srcT ni nh typ na isErr = .ok sz) :
    sz.off + sz.total ≤ bufSize ∧
    (isErr = true →
      hdrLen dstT srcT ni nh typ na ≤ maxSCMPPacketLen ∧
      sz.total = actualHdrLen dstT srcT ni nh typ na + quoteLen raw.length (hdrLen dstT srcT ni nh typ na) ∧
      sz.quote = raw.take (quoteLen raw.length (hdrLen dstT srcT ni nh typ na)) ∧
      (sz.front = true ↔ ¬ hdrLen dstT srcT ni nh typ na + cfg.underlayHeadroom > headroom) ∧
      (sz.front = true → sz.off + actualHdrLen dstT srcT ni nh typ na = headroom) ∧
      (sz.front = false → sz.off + sz.total = bufSize ∧ headroom ≤ sz.off)) ∧
    (isErr = false →
      sz.total = actualHdrLen dstT srcT ni nh typ na ∧ sz.quote = [] ∧ sz.front = false ∧
      sz.off + sz.total = bufSize ∧ headroom ≤ sz.off) := by
  unfold placement at h
  dsimp only at h
  have hq := quoteLen_le raw.length (hdrLen dstT srcT ni nh typ na)
  have hb : bufSize = 9000 := rfl
  have ha : 12 ≤ actualHdrLen dstT srcT ni nh typ na := by
    unfold actualHdrLen cmnHdrLen; omega
  cases isErr
  · simp only [Bool.false_eq_true, if_false] at h
    split at h
    · cases h
    · injection h with h; subst h
      refine ⟨by dsimp only; omega, by simp, fun _ => ⟨rfl, rfl, rfl, by dsimp only; omega, by dsimp only; omega⟩⟩
  · simp only [if_true] at h
    split at h
    · cases h
    · split at h
      · split at h
        · cases h
        · injection h with h; subst h
          refine ⟨by dsimp only; omega, fun _ => ⟨by omega, rfl, rfl, ?_, ?_, ?_⟩, by simp⟩
          · simp; omega
          · simp
          · intro _; dsimp only; omega
      · split at h
        · cases h
        · split at h
          · cases h
          · injection h with h; subst h
            refine ⟨by dsimp only; omega, fun _ => ⟨by omega, rfl, rfl, ?_, ?_, ?_⟩, by simp⟩
            · simp; omega
            · intro _; dsimp only; omega
            · simp

/-- facts about an emitted reply (`finish`) -/
theorem finish_emit (cfg : Cfg) (o : Offender) (rq : Request) (rp : RevPath) (typ code : Nat)
    (isErr na : Bool) (trIf : Nat) (sz : Sizes) (r : Reply)
    (h : finish cfg o rq rp typ code isErr na trIf sz = .emit r) :
    cmnHdrLen + addrHdrLen o.srcType cfg.hostType + pathLen rp.b.numINF rp.b.numHops ≤ maxHdrLen ∧
    r.hdrLenField * lineLen = cmnHdrLen + addrHdrLen o.srcType cfg.hostType + pathLen rp.b.numINF rp.b.numHops ∧
    r.payloadLen = sz.total - (cmnHdrLen + addrHdrLen o.srcType cfg.hostType + pathLen rp.b.numINF rp.b.numHops) ∧
    r.total = sz.total ∧ r.quote = sz.quote ∧ r.front = sz.front ∧ r.off = sz.off ∧
    r.dstIA = o.srcIA ∧ r.rawDst = o.rawSrc ∧ r.dstType = o.srcType ∧
    r.srcIA = cfg.localIA ∧ r.rawSrc = cfg.rawHost ∧ r.srcType = cfg.hostType ∧
    r.numINF = rp.b.numINF ∧ r.numHops = rp.b.numHops ∧ r.pm = rp.b.pm ∧
    r.isError = isErr ∧ r.auth = na ∧ r.scmpType = typ ∧ r.scmpCode = code ∧ r.pathType = 1 ∧
    r.nextHdr = (bif na then l4E2E else l4SCMP) ∧ (na = true → addrParsable o.srcType = true) := by
  unfold finish at h
  split at h
  · cases h
  · split at h
    · cases h
    · split at h
      · cases h
      · rename_i h1 h2 h3
        injection h with h; subst h
        have hl : lineLen = 4 := rfl
        refine ⟨by omega, ?_, rfl, rfl, rfl, rfl, rfl, rfl, rfl, rfl, rfl, rfl, rfl, rfl, rfl, rfl, rfl,
          rfl, rfl, rfl, rfl, rfl, ?_⟩
        · simp only [lineLen] at *; omega
        · intro hna; subst hna; simpa using h1

/-! ### path pointers of the reply -/

/-- what the fast path (`parsePath`, `IncPath`) guarantees about the path the slow path decodes:
a decodable shape and pointers that designate an existing hop of the right segment -/
def Consistent (b : Base) : Prop :=
  Shape b.pm ∧ b.numINF = nonEmptySegs b.pm ∧ b.numHops = sumHops b.pm ∧
  b.pm.currHF < b.numHops ∧ b.pm.currINF = infIdx b.pm b.pm.currHF

theorem consistent_currINF_lt (b : Base) (h : Consistent b) : b.pm.currINF < b.numINF ∧ 0 < b.numINF ∧
    b.numINF ≤ 3 ∧ b.numHops ≤ 64 := by
  obtain ⟨hs, hn, hh, hc, hi⟩ := h
  unfold Shape at hs
  unfold nonEmptySegs at hn
  unfold sumHops at hh
  unfold infIdx at hi
  refine ⟨?_, ?_, ?_, ?_⟩ <;> (repeat' split at hn) <;> (repeat' split at hi) <;> omega

theorem reverseMeta_consistent (b : Base) (h : Consistent b) :
    ∃ rb, reverseMeta b = some rb ∧ Consistent rb ∧ rb.numINF = b.numINF ∧ rb.numHops = b.numHops := by
  have hb := consistent_currINF_lt b h
  obtain ⟨hs, hn, hh, hc, hi⟩ := h
  obtain ⟨m, ninf, nh⟩ := b
  obtain ⟨ci, ch, s0, s1, s2⟩ := m
  simp only [Shape, nonEmptySegs, sumHops, infIdx] at *
  unfold reverseMeta
  simp only
  have h0 : ¬ ninf = 0 := by omega
  simp only [h0, if_false]
  refine ⟨_, rfl, ?_, rfl, rfl⟩
  unfold Consistent Shape nonEmptySegs sumHops infIdx
  simp only
  have : ninf = 1 ∨ ninf = 2 ∨ ninf = 3 := by omega
  rcases this with h1 | h1 | h1 <;> subst h1 <;> simp <;>
    (repeat' split at hn) <;> (repeat' split at hi) <;> (repeat' split) <;> omega

theorem incPath_consistent (b b' : Base) (h : Consistent b) (hi : incPath b = .ok b') :
    Consistent b' ∧ b'.numINF = b.numINF ∧ b'.numHops = b.numHops := by
  obtain ⟨hs, hn, hh, hc, hi'⟩ := h
  unfold incPath at hi
  split at hi
  · cases hi
  · split at hi
    · cases hi
    · injection hi with hi; subst hi
      refine ⟨⟨hs, hn, hh, ?_, rfl⟩, rfl, rfl⟩
      dsimp only; omega

/-- the offender as `Decoded.DecodeFromBytes` delivers it: as many info and hop fields as the meta
line announces, hop fields of 12 bytes -/
def WellFormed (o : Offender) (b : Base) : Prop :=
  baseDecode (decode o.pmWord) = some b ∧ o.infos.length = b.numINF ∧ o.hops.length = b.numHops ∧
  ∀ h ∈ o.hops, h.length = 12

theorem baseDecode_consistent_of (m : Hdr) (b : Base) (h : baseDecode m = some b)
    (hc : b.pm.currHF < b.numHops) (hi : b.pm.currINF = infIdx b.pm b.pm.currHF) : Consistent b := by
  obtain ⟨h1, _, _, h4, h5, h6⟩ := baseDecode_bounds m b h
  exact ⟨h1 ▸ h6, h1 ▸ h5, h1 ▸ h4, hc, hi⟩

theorem reversePath_ok (o : Offender) (b : Base) (hw : WellFormed o b) (hc : Consistent b) :
    (∃ w, reversePath o = .drop w) ∨
    ∃ rp peering, reversePath o = .ok (rp, peering) ∧ Consistent rp.b ∧ rp.b.numINF = b.numINF ∧
      rp.b.numHops = b.numHops ∧ rp.infos.length = b.numINF ∧ rp.hops.length = b.numHops ∧
      (∀ h ∈ rp.hops, h.length = 12) := by
  obtain ⟨hd, hil, hhl, h12⟩ := hw
  obtain ⟨rb, hr, hrc, hri, hrh⟩ := reverseMeta_consistent b hc
  have hlt := consistent_currINF_lt rb hrc
  unfold reversePath
  rw [hd]; dsimp only; rw [hr]; dsimp only
  have hlen : ((o.infos.reverse).map flipInfo).length = b.numINF := by simp [hil]
  have hidx : rb.pm.currINF < ((o.infos.reverse).map flipInfo).length := by omega
  rw [List.getElem?_eq_getElem hidx]
  dsimp only
  split
  · exact Or.inl ⟨_, rfl⟩
  · split
    · split
      · exact Or.inl ⟨_, rfl⟩
      · rename_i rb' hinc
        obtain ⟨hc', hn', hh'⟩ := incPath_consistent rb rb' hrc hinc
        refine Or.inr ⟨_, _, rfl, hc', by dsimp only; omega, by dsimp only; omega, hlen, by simp [hhl], ?_⟩
        intro h hm; exact h12 h (by simpa using hm)
    · refine Or.inr ⟨_, _, rfl, hrc, hri, hrh, hlen, by simp [hhl], ?_⟩
      intro h hm; exact h12 h (by simpa using hm)

theorem be16_drop6 (h : Bytes) (hl : h.length = 12) : ∃ m, be16 (h.drop 6) = some m := by
  match h, hl with
  | [_, _, _, _, _, _, a, b, _, _, _, _], _ => exact ⟨_, rfl⟩

theorem updSegID_ok (rp : RevPath) (inf : InfoF) (peering : Bool)
    (hh : rp.b.pm.currHF < rp.hops.length) (h12 : ∀ h ∈ rp.hops, h.length = 12) :
    ∃ infos', updSegID rp inf peering = .ok infos' := by
  unfold updSegID
  split
  · rw [List.getElem?_eq_getElem hh]
    dsimp only
    obtain ⟨m, hm⟩ := be16_drop6 rp.hops[rp.b.pm.currHF] (h12 _ (List.getElem_mem hh))
    rw [hm]
    exact ⟨_, rfl⟩
  · exact ⟨_, rfl⟩

theorem externalStep_ok (scope : Scope) (rp : RevPath) (peering : Bool) (hc : Consistent rp.b)
    (hil : rp.infos.length = rp.b.numINF) (hhl : rp.hops.length = rp.b.numHops)
    (h12 : ∀ h ∈ rp.hops, h.length = 12) :
    (∃ w, externalStep scope rp peering = .drop w) ∨
    ∃ rp', externalStep scope rp peering = .ok rp' ∧ Consistent rp'.b ∧ rp'.b.numINF = rp.b.numINF ∧
      rp'.b.numHops = rp.b.numHops := by
  have hlt := consistent_currINF_lt rp.b hc
  unfold externalStep
  split
  · exact Or.inr ⟨rp, rfl, hc, rfl, rfl⟩
  · have hidx : rp.b.pm.currINF < rp.infos.length := by omega
    rw [List.getElem?_eq_getElem hidx]
    dsimp only
    have hh : rp.b.pm.currHF < rp.hops.length := by have := hc.2.2.2.1; omega
    obtain ⟨infos', hu⟩ := updSegID_ok rp rp.infos[rp.b.pm.currINF] peering hh h12
    rw [hu]
    dsimp only
    split
    · exact Or.inl ⟨_, rfl⟩
    · rename_i b' hinc
      obtain ⟨hc', hn', hh'⟩ := incPath_consistent rp.b b' hc hinc
      exact Or.inr ⟨_, rfl, hc', hn', hh'⟩

/-! ### unconditional facts: counts are those of the decoded meta line -/

theorem incPath_counts (b b' : Base) (h : incPath b = .ok b') :
    b'.numINF = b.numINF ∧ b'.numHops = b.numHops := by
  unfold incPath at h
  split at h
  · cases h
  · split at h
    · cases h
    · injection h with h; subst h; exact ⟨rfl, rfl⟩

theorem reverseMeta_counts (b rb : Base) (h : reverseMeta b = some rb) :
    rb.numINF = b.numINF ∧ rb.numHops = b.numHops := by
  unfold reverseMeta at h
  split at h
  · cases h
  · injection h with h; subst h; exact ⟨rfl, rfl⟩

theorem reversePath_counts (o : Offender) (rp : RevPath) (peering : Bool)
    (h : reversePath o = .ok (rp, peering)) : rp.b.numINF ≤ 3 ∧ rp.b.numHops ≤ 64 := by
  unfold reversePath at h
  split at h
  · cases h
  · rename_i b hb
    obtain ⟨_, h2, h3, _⟩ := baseDecode_bounds _ b hb
    split at h
    · cases h
    · rename_i rb hr
      obtain ⟨c1, c2⟩ := reverseMeta_counts b rb hr
      dsimp only at h
      split at h
      · cases h
      · split at h
        · cases h
        · split at h
          · split at h
            · cases h
            · rename_i rb' hi
              obtain ⟨d1, d2⟩ := incPath_counts rb rb' hi
              injection h with h; injection h with h1 h2'; subst h1
              dsimp only; omega
          · injection h with h; injection h with h1 h2'; subst h1
            dsimp only; omega

theorem externalStep_counts (scope : Scope) (rp rp' : RevPath) (peering : Bool)
    (h : externalStep scope rp peering = .ok rp') :
    rp'.b.numINF = rp.b.numINF ∧ rp'.b.numHops = rp.b.numHops := by
  unfold externalStep at h
  split at h
  · injection h with h; subst h; exact ⟨rfl, rfl⟩
  · split at h
    · cases h
    · split at h
      · cases h
      · cases h
      · split at h
        · cases h
        · rename_i b' hi
          obtain ⟨d1, d2⟩ := incPath_counts rp.b b' hi
          injection h with h; subst h; exact ⟨d1, d2⟩

/-- an emitted reply went through all four stages -/
theorem prepare_emit (cfg : Cfg) (scope : Scope) (headroom : Nat) (o : Offender) (rq : Request)
    (typ code : Nat) (isErr : Bool) (trIf : Nat) (r : Reply)
    (h : prepareSCMP cfg scope headroom o rq typ code isErr trIf = .emit r) :
    ∃ rp0 peering rp sz, reversePath o = .ok (rp0, peering) ∧ externalStep scope rp0 peering = .ok rp ∧
      placement cfg headroom o.raw o.srcType cfg.hostType rp.b.numINF rp.b.numHops typ
        (needsAuth cfg o typ isErr) isErr = .ok sz ∧
      finish cfg o rq rp typ code isErr (needsAuth cfg o typ isErr) trIf sz = .emit r := by
  unfold prepareSCMP at h
  split at h
  · cases h
  · cases h
  · rename_i rp0 peering hrev
    split at h
    · cases h
    · cases h
    · rename_i rp hext
      split at h
      · cases h
      · cases h
      · rename_i sz hpl
        exact ⟨rp0, peering, rp, sz, hrev, hext, hpl, h⟩

/-- which `prepareSCMP` call produced an emitted reply -/
theorem processPacket_emit (cfg : Cfg) (scope : Scope) (headroom : Nat) (o : Offender) (rq : Request)
    (r : Reply) (h : processPacket cfg scope headroom o rq = .emit r) :
    (∃ t : Nat, (t = 1 ∨ t = 4 ∨ t = 5 ∨ t = 6) ∧ rq.spType = (t : Int) ∧
        (∀ t' c p, o.l4 = .scmp t' c p → 128 ≤ t') ∧
        prepareSCMP cfg scope headroom o rq t rq.code true 0 = .emit r) ∨
    (∃ trIf p, (rq.spType = -1 ∨ rq.spType = -2) ∧ o.l4 = .scmp 130 0 p ∧
        prepareSCMP cfg scope headroom o rq 131 0 false trIf = .emit r) := by
  unfold processPacket at h
  split at h
  · cases h
  · have tr : ∀ ifID, traceroute cfg scope headroom o rq ifID = .emit r →
        ∃ p, o.l4 = .scmp 130 0 p ∧ prepareSCMP cfg scope headroom o rq 131 0 false ifID = .emit r := by
      intro ifID ht
      unfold traceroute at ht
      split at ht
      · cases ht
      · cases ht
      · rename_i t c plen hl4
        split at ht
        · cases ht
        · split at ht
          · cases ht
          · rename_i hne _
            have h130 : t = 130 ∧ c = 0 := by omega
            obtain ⟨h1, h2⟩ := h130
            subst h1; subst h2
            unfold packSCMP at ht
            rw [hl4] at ht
            simp only at ht
            split at ht
            · omega
            · exact ⟨plen, hl4, ht⟩
    split at h
    · rename_i h1
      obtain ⟨p, hp, hq⟩ := tr _ h
      exact Or.inr ⟨_, p, Or.inl h1, hp, hq⟩
    · split at h
      · rename_i h2
        obtain ⟨p, hp, hq⟩ := tr _ h
        exact Or.inr ⟨_, p, Or.inr h2, hp, hq⟩
      · rename_i hn1 hn2
        dsimp only at h
        split at h
        · rename_i ht
          have hnn : 0 ≤ rq.spType := by
            rcases ht with ht | ht | ht | ht <;> omega
          refine Or.inl ⟨rq.spType.toNat, by omega, by omega, ?_, ?_⟩
          · intro t' c p hl4
            unfold packSCMP at h
            rw [hl4] at h
            simp only at h
            split at h
            · cases h
            · omega
          · unfold packSCMP at h
            split at h
            · cases h
            · split at h
              · cases h
              · exact h
            · exact h
        · cases h

/-! ### STUN branch -/

theorem slice?_some (b : Bytes) (i j : Nat) (h : i ≤ j ∧ j ≤ b.length) :
    ∃ s, slice? b i j = some s ∧ s.length = j - i := by
  unfold slice?
  rw [if_pos h]
  refine ⟨_, rfl, ?_⟩
  rw [List.length_take, List.length_drop]; omega

theorem stunAttrs_no_panic : ∀ fuel b last, stunAttrs fuel b last ≠ none := by
  intro fuel
  induction fuel with
  | zero => intro b last h; simp [stunAttrs] at h
  | succ n ih =>
    intro b last h
    unfold stunAttrs at h
    split at h
    · cases h
    · split at h
      · cases h
      · rename_i h0 h4
        obtain ⟨ty, hty, _⟩ := slice?_some b 0 2 (by omega)
        obtain ⟨ln, hln, _⟩ := slice?_some b 2 4 (by omega)
        obtain ⟨b', hb', hb'l⟩ := slice?_some b 4 b.length (by omega)
        rw [hty, hln] at h
        dsimp only at h
        rw [hb'] at h
        dsimp only at h
        split at h
        · cases h
        · rename_i hpad
          obtain ⟨a, ha, _⟩ := slice?_some b' 0 (beNat ln) (by omega)
          obtain ⟨rest, hrest, _⟩ := slice?_some b' ((beNat ln + 3) / 4 * 4) b'.length (by omega)
          rw [ha, hrest] at h
          exact ih _ _ h

theorem stunIs_len (b : Bytes) (h : stunIs b = true) : 20 ≤ b.length := by
  unfold stunIs stunHeaderLen at h
  simp at h
  omega

end Scion.Scmp
