import Scion.Model.Signer
/-! Helper lemmas about `Scion.Model.Signer` (loop invariants of `bestChain`, `collect`,
`lastExpiring`).  Used by `Scion.Props.C36`. -/
namespace Scion.Signer
open Scion.Chain

theorem bestStep_none (ok : ChainInfo → Bool) (acc : Option ChainInfo) (x : ChainInfo) :
    bestStep ok acc x = none ↔ acc = none ∧ ok x = false := by
  unfold bestStep
  cases hx : ok x <;> cases acc <;> simp
  split <;> simp

theorem bestStep_some (ok : ChainInfo → Bool) (acc : Option ChainInfo) (x b : ChainInfo)
    (h : bestStep ok acc x = some b) :
    (acc = some b ∨ (b = x ∧ ok x = true)) ∧ (∀ a, acc = some a → a.notAfter ≤ b.notAfter) ∧
      (ok x = true → x.notAfter ≤ b.notAfter) := by
  unfold bestStep at h
  cases hx : ok x
  · simp only [hx, Bool.not_false, ↓reduceIte] at h
    subst h
    refine ⟨Or.inl rfl, ?_, by simp⟩
    intro a ha; injection ha with ha; subst ha; exact Int.le_refl _
  · simp only [hx, Bool.not_true, Bool.false_eq_true, ↓reduceIte] at h
    cases acc with
    | none =>
      simp only at h; injection h with h; subst h
      exact ⟨Or.inr ⟨rfl, rfl⟩, (by intro a ha; cases ha), fun _ => Int.le_refl _⟩
    | some a =>
      simp only at h
      split at h
      · injection h with h; subst h
        refine ⟨Or.inl rfl, ?_, fun _ => by omega⟩
        intro a' ha'; injection ha' with ha'; subst ha'; exact Int.le_refl _
      · injection h with h; subst h
        refine ⟨Or.inr ⟨rfl, rfl⟩, ?_, fun _ => Int.le_refl _⟩
        intro a' ha'; injection ha' with ha'; subst ha'; omega

theorem foldl_bestStep_none (ok : ChainInfo → Bool) (cs : List ChainInfo) (acc : Option ChainInfo) :
    cs.foldl (bestStep ok) acc = none ↔ acc = none ∧ ∀ c ∈ cs, ok c = false := by
  induction cs generalizing acc with
  | nil => simp
  | cons x r ih =>
    simp only [List.foldl_cons, ih, bestStep_none, List.mem_cons, forall_eq_or_imp]
    constructor
    · rintro ⟨⟨h1, h2⟩, h3⟩; exact ⟨h1, h2, h3⟩
    · rintro ⟨h1, h2, h3⟩; exact ⟨⟨h1, h2⟩, h3⟩

theorem foldl_bestStep_some (ok : ChainInfo → Bool) (cs : List ChainInfo) (acc : Option ChainInfo)
    (b : ChainInfo) (h : cs.foldl (bestStep ok) acc = some b) :
      (acc = some b ∨ (b ∈ cs ∧ ok b = true)) ∧
      (∀ a, acc = some a → a.notAfter ≤ b.notAfter) ∧
      (∀ c ∈ cs, ok c = true → c.notAfter ≤ b.notAfter) := by
  induction cs generalizing acc with
  | nil =>
    simp only [List.foldl_nil] at h
    subst h
    refine ⟨Or.inl rfl, ?_, by simp⟩
    intro a ha; injection ha with ha; subst ha; exact Int.le_refl _
  | cons x r ih =>
    simp only [List.foldl_cons] at h
    obtain ⟨h1, h2, h3⟩ := ih _ h
    refine ⟨?_, ?_, ?_⟩
    · rcases h1 with h1 | h1
      · obtain ⟨s1, _, _⟩ := bestStep_some ok acc x b h1
        rcases s1 with s1 | ⟨rfl, hx⟩
        · exact Or.inl s1
        · exact Or.inr ⟨by simp, hx⟩
      · exact Or.inr ⟨List.mem_cons_of_mem _ h1.1, h1.2⟩
    · intro a ha
      cases hs : bestStep ok acc x with
      | none =>
        have := (bestStep_none ok acc x).1 hs
        rw [this.1] at ha; cases ha
      | some m =>
        obtain ⟨_, s2, _⟩ := bestStep_some ok acc x m hs
        have := s2 a ha
        have := h2 m hs
        omega
    · intro c hc hok
      rcases List.mem_cons.1 hc with rfl | hc
      · cases hs : bestStep ok acc c with
        | none =>
          have := (bestStep_none ok acc c).1 hs
          rw [this.2] at hok; cases hok
        | some m =>
          obtain ⟨_, _, s3⟩ := bestStep_some ok acc c m hs
          have := s3 hok
          have := h2 m hs
          omega
      · exact h3 c hc hok

theorem bestChain_some (ok : ChainInfo → Bool) (cs : List ChainInfo) (b : ChainInfo)
    (h : bestChain ok cs = some b) :
    b ∈ cs ∧ ok b = true ∧ ∀ c ∈ cs, ok c = true → c.notAfter ≤ b.notAfter := by
  obtain ⟨h1, _, h3⟩ := foldl_bestStep_some ok cs none b h
  rcases h1 with h1 | h1
  · cases h1
  · exact ⟨h1.1, h1.2, h3⟩

theorem bestChain_none (ok : ChainInfo → Bool) (cs : List ChainInfo) :
    bestChain ok cs = none ↔ ∀ c ∈ cs, ok c = false := by
  have := foldl_bestStep_none ok cs none
  simpa [bestChain] using this

theorem minT_le_left (a b : Int) : minT a b ≤ a := by unfold minT; split <;> omega
theorem minT_le_right (a b : Int) : minT a b ≤ b := by unfold minT; split <;> omega
theorem minT_eq (a b : Int) : minT a b = a ∨ minT a b = b := by unfold minT; split <;> simp
theorem le_minT (a b c : Int) (h1 : c ≤ a) (h2 : c ≤ b) : c ≤ minT a b := by
  unfold minT; split <;> omega

/-- every signer returned by the key loop is the `bestForKey` result of one of the keys -/
theorem collect_mem (act : ActiveRes) (want : Nat) (z : Int) (ks : List KeyIn)
    (l : List SignerOut) (h : collect act want z ks = .ok l) :
    ∀ s ∈ l, ∃ k ∈ ks, bestForKey act want z k = .signer s := by
  induction ks generalizing l with
  | nil => simp [collect] at h; subst h; simp
  | cons k r ih =>
    unfold collect at h
    split at h
    · cases h
    · cases h
    · intro s hs
      obtain ⟨k', hk', hb⟩ := ih l h s hs
      exact ⟨k', List.mem_cons_of_mem _ hk', hb⟩
    · rename_i s0 hs0
      split at h
      · rename_i l' hl'
        injection h with h; subst h
        intro s hs
        rcases List.mem_cons.1 hs with rfl | hs
        · exact ⟨k, by simp, hs0⟩
        · obtain ⟨k', hk', hb⟩ := ih l' hl' s hs
          exact ⟨k', List.mem_cons_of_mem _ hk', hb⟩
      · cases h

/-- invariant of the `LastExpiring` loop -/
theorem foldl_lastStep (r : List (Int × Int)) (c : Int × Int) :
    (r.foldl lastStep c = c ∨ r.foldl lastStep c ∈ r) ∧ c.2 ≤ (r.foldl lastStep c).2 ∧
      ∀ s ∈ r, s.2 ≤ (r.foldl lastStep c).2 := by
  induction r generalizing c with
  | nil => simp
  | cons x r ih =>
    simp only [List.foldl_cons]
    obtain ⟨h1, h2, h3⟩ := ih (lastStep c x)
    have hc : c.2 ≤ (lastStep c x).2 ∧ x.2 ≤ (lastStep c x).2 ∧
        (lastStep c x = c ∨ lastStep c x = x) := by
      unfold lastStep; split <;> simp <;> omega
    refine ⟨?_, by omega, ?_⟩
    · rcases h1 with h1 | h1
      · rcases hc.2.2 with h | h
        · left; rw [h1, h]
        · right; rw [h1, h]; simp
      · right; exact List.mem_cons_of_mem _ h1
    · intro s hs
      rcases List.mem_cons.1 hs with rfl | hs
      · omega
      · exact h3 s hs

end Scion.Signer
