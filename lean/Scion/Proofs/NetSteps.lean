import Scion.Proofs.Net
/-! Success lemmas for one router step of `Scion.Model.Net`: explicit conditions under which a packet
is forwarded / delivered / carried over a segment change.  Core Lean only. -/
namespace Scion.Net
open Scion.SegID (updateSegID)

/-- the ingress checks pass -/
theorem stIngress_pass (mac : MacFn) (cfg : RCfg) (now : Nat) (arr : Arrival) (sl dl : Bool)
    (c : Cursor) (p : Bool)
    (hsing : (!c.info.peer && c.hasSingleton) = false)
    (hp : determinePeer c = some p)
    (hexp : expired now (ingUpd c arr p).info.ts (ingUpd c arr p).cur.exp = false)
    (hin : arr.ifid ≠ 0 → arr.ifid =
      (if (ingUpd c arr p).info.consDir then (ingUpd c arr p).cur.cIn else (ingUpd c arr p).cur.cEg))
    (htr : ((ingUpd c arr p).isFirstHop || arr.ifid != 0) = true)
    (hsrc : (if arr.ifid == 0 then (ingUpd c arr p).isFirstHop && !sl else sl) = false)
    (hdst : (if arr.ifid == 0 then dl else (ingUpd c arr p).isLastHop != dl) = false)
    (hmac : macOk mac cfg.key (ingUpd c arr p).info (ingUpd c arr p).cur = true)
    (hal : (arr.ifid != 0 && (if (ingUpd c arr p).info.consDir then (ingUpd c arr p).cur.inAlert
              else (ingUpd c arr p).cur.egAlert)) = false) :
    stIngress mac cfg now arr sl dl c = .ok ⟨ingUpd c arr p, p⟩ := by
  unfold stIngress
  rw [hsing, hp]
  simp only [Bool.false_eq_true, if_false]
  unfold stChecks
  rw [hexp, htr, hsrc, hdst, hmac, hal]
  have h2 : (arr.ifid != 0 && arr.ifid !=
      (if (ingUpd c arr p).info.consDir then (ingUpd c arr p).cur.cIn else (ingUpd c arr p).cur.cEg)) = false := by
    by_cases h0 : arr.ifid = 0
    · simp [h0]
    · have := hin h0
      simp [← this]
  rw [h2]
  simp

/-- delivery in the destination AS -/
theorem routerStep_deliver (mac : MacFn) (cfg : RCfg) (now : Nat) (arr : Arrival) (sl : Bool)
    (c : Cursor) (p : Bool)
    (hi : stIngress mac cfg now arr sl true c = .ok ⟨ingUpd c arr p, p⟩) :
    routerStep mac cfg now arr sl true c = .deliver (ingUpd c arr p) := by
  unfold routerStep
  rw [hi]
  simp

/-- forwarding over an external link of this router, no segment change -/
theorem routerStep_forward (mac : MacFn) (cfg : RCfg) (now : Nat) (arr : Arrival) (sl : Bool)
    (c : Cursor) (p : Bool) (eg : Iface) (c2 : Cursor)
    (hi : stIngress mac cfg now arr sl false c = .ok ⟨ingUpd c arr p, p⟩)
    (hx : ((ingUpd c arr p).isXover && !p) = false)
    (heg : egressIface cfg (egressOf (ingUpd c arr p)) = some eg)
    (hown : eg.owner = cfg.self)
    (hlt : arr.ifid = 0 ∨ ltSame (ingressLT cfg arr.ifid) eg.lt = true)
    (hal : (if (ingUpd c arr p).info.consDir then (ingUpd c arr p).cur.egAlert
            else (ingUpd c arr p).cur.inAlert) = false)
    (hup : eg.up = true)
    (hinc : (egUpd (ingUpd c arr p) p).incPath = some c2) :
    routerStep mac cfg now arr sl false c = .forward (egressOf (ingUpd c arr p)) c2 := by
  unfold routerStep
  rw [hi]
  simp only [Bool.false_eq_true, if_false]
  unfold stXover
  simp only [hx, Bool.false_eq_true, if_false]
  unfold stEgress
  simp only [heg, hown, beq_self_eq_true, Bool.not_true, Bool.and_false, if_false, hal, hup,
    Bool.false_and, Bool.false_eq_true, Bool.not_false, Bool.true_and, hinc, if_true]
  rcases hlt with h0 | hl
  · simp [h0]
  · simp [hl]

/-- an effective cross-over: the last hop of a segment and the first hop of the next one are both
    validated, the packet leaves over an external link of this router -/
theorem routerStep_xover (mac : MacFn) (cfg : RCfg) (now : Nat) (arr : Arrival) (sl : Bool)
    (c : Cursor) (cx : Cursor) (eg : Iface) (c2 : Cursor)
    (hi : stIngress mac cfg now arr sl false c = .ok ⟨ingUpd c arr false, false⟩)
    (hx : (ingUpd c arr false).isXover = true)
    (hinc : (ingUpd c arr false).incPath = some cx)
    (hexp : expired now cx.info.ts cx.cur.exp = false)
    (hmac : macOk mac cfg.key cx.info cx.cur = true)
    (heg : egressIface cfg (egressOf cx) = some eg)
    (hown : eg.owner = cfg.self)
    (harr : arr.ifid ≠ 0)
    (hlt : ltXover (ingressLT cfg arr.ifid) eg.lt = true)
    (hal : (if cx.info.consDir then cx.cur.egAlert else cx.cur.inAlert) = false)
    (hup : eg.up = true)
    (hinc2 : (egUpd cx false).incPath = some c2) :
    routerStep mac cfg now arr sl false c = .forward (egressOf cx) c2 := by
  unfold routerStep
  rw [hi]
  simp only [Bool.false_eq_true, if_false]
  unfold stXover
  simp only [hx, Bool.not_false, Bool.and_self, if_true, hinc, hexp, hmac, Bool.false_eq_true,
    if_false, Bool.not_true]
  unfold stEgress
  have h0 : (arr.ifid == 0) = false := by simp [harr]
  simp only [heg, hown, beq_self_eq_true, Bool.not_true, Bool.and_false, if_false, hal, hup,
    Bool.false_and, Bool.false_eq_true, Bool.not_false, Bool.true_and, hinc2, if_true, hlt, h0]

end Scion.Net
