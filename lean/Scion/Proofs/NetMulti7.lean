import Scion.Proofs.NetMulti6
import Scion.Proofs.NetSpecEdge
/-! Several border routers per AS: what holds for every delivered packet (needed to send it back:
C03), any network.  Core Lean only. -/
namespace Scion.Net
open Scion.SegID (updateSegID)

theorem uniform_ingUpd (c : Cursor) (arr : Arrival) (p : Bool) (h : Uniform c) : Uniform (ingUpd c arr p) := by
  obtain ⟨sid, hs⟩ := ingUpd_setSeg c arr p
  rw [hs]; exact uniform_setSeg c sid h

/-- forwarding keeps the Peer flags -/
theorem routerStep_forward_uniform (mac : MacFn) (cfg : RCfg) (now : Nat) (arr : Arrival) (sl dl : Bool)
    (c : Cursor) (e : Nat) (c' : Cursor) (hU : Uniform c)
    (h : routerStep mac cfg now arr sl dl c = .forward e c') : Uniform c' := by
  obtain ⟨s, x, hs, _, hx, heg⟩ := routerStep_forward_inv _ _ _ _ _ _ _ _ _ h
  obtain ⟨_, hsc, _, _⟩ := stIngress_ok _ _ _ _ _ _ _ _ hs
  obtain ⟨_, hxc⟩ := stXover_ok _ _ _ _ _ hx
  have hUs : Uniform s.c := by rw [hsc]; exact uniform_ingUpd c arr _ hU
  have hUx : Uniform x.c := by
    rcases hxc with ⟨_, h1, _⟩ | ⟨_, _, h1, _⟩
    · rw [h1]; exact hUs
    · exact incPath_uniform _ _ h1 hUs
  obtain ⟨_, eg, _, _, _, _, _, _, hown, hnot⟩ := stEgress_forward_inv _ _ _ _ _ heg
  cases ho : (eg.owner == cfg.self) with
  | true =>
    have hinc := hown ho
    obtain ⟨sid, hsid⟩ := egUpd_setSeg x.c x.peering
    rw [hsid] at hinc
    exact incPath_uniform _ _ hinc (uniform_setSeg _ _ hUx)
  | false => rw [hnot ho]; exact hUx

/-- a delivered packet sits on its last hop -/
theorem routerStep_deliver_facts (mac : MacFn) (cfg : RCfg) (now : Nat) (arr : Arrival) (sl dl : Bool)
    (c cf : Cursor) (hU : Uniform c)
    (h : routerStep mac cfg now arr sl dl c = .deliver cf) : Uniform cf ∧ cf.isLastHop = true := by
  obtain ⟨s, hs, hdl, rfl⟩ := routerStep_deliver_inv _ _ _ _ _ _ _ _ h
  obtain ⟨_, hsc, _, hchk⟩ := stIngress_ok _ _ _ _ _ _ _ _ hs
  obtain ⟨_, _, _, h1, h2, _⟩ := stChecks_ok _ _ _ _ _ _ _ _ _ hchk
  refine ⟨by rw [hsc]; exact uniform_ingUpd c arr _ hU, ?_⟩
  by_cases h0 : arr.ifid = 0
  · have := (h2 h0).1; rw [hdl] at this; cases this
  · rw [hsc, (h1 h0).2, hdl]

theorem run_delivered_facts (mac : MacFn) (net : Net) (now src dst : Nat) :
    ∀ (n a r : Nat) (arr : Arrival) (c : Cursor) (tr : List (Nat × Nat)) (d : Nat)
      (tr' : List (Nat × Nat)) (cf : Cursor), Uniform c →
      run mac net now src dst n a r arr c tr = .delivered d tr' cf →
      Uniform cf ∧ cf.isLastHop = true := by
  intro n
  induction n with
  | zero => intro a r arr c tr d tr' cf _ h; simp [run] at h
  | succ n ih =>
    intro a r arr c tr d tr' cf hU h
    rcases run_delivered_inv mac net now src dst n a r arr c tr d tr' cf h with
      ⟨hst, _, _⟩ | ⟨e, c', f, hst, hf, ⟨_, g, _, hrun⟩ | ⟨_, hrun⟩⟩
    · exact routerStep_deliver_facts _ _ _ _ _ _ _ _ hU hst
    · exact ih _ _ _ _ _ _ _ _ (routerStep_forward_uniform _ _ _ _ _ _ _ _ _ hU hst) hrun
    · exact ih _ _ _ _ _ _ _ _ (routerStep_forward_uniform _ _ _ _ _ _ _ _ _ hU hst) hrun

/-- the delivered packet, reversed, is a packet on its first hop with uniform Peer flags -/
theorem reverse_delivered (mac : MacFn) (net : Net) (now src dst : Nat) (c cf : Cursor) (d : Nat)
    (tr : List (Nat × Nat)) (hU : Uniform c)
    (h : send mac net now src dst c = .delivered d tr cf) :
    Uniform (reverseCursor cf) ∧ (reverseCursor cf).isFirstHop = true := by
  obtain ⟨⟨hb, ha⟩, hl⟩ := run_delivered_facts mac net now src dst _ _ _ _ _ _ _ _ _ hU h
  refine ⟨⟨?_, ?_⟩, ?_⟩
  · intro s hs
    simp only [reverseCursor, List.mem_map, List.mem_reverse] at hs
    obtain ⟨s0, hs0, rfl⟩ := hs
    exact ha s0 hs0
  · intro s hs
    simp only [reverseCursor, List.mem_map, List.mem_reverse] at hs
    obtain ⟨s0, hs0, rfl⟩ := hs
    exact hb s0 hs0
  · simp only [Cursor.isLastHop] at hl
    simp only [reverseCursor, Cursor.isFirstHop, List.isEmpty_map, List.isEmpty_reverse]
    rw [Bool.and_comm]; exact hl

/-- C02 for networks with one border router per AS, all path shapes -/
theorem C02_single_router (mac : MacFn) (net : Net) (now : Nat) (edges : List Edge)
    (src dst : Nat) (c : Cursor)
    (hWF : WFNet net) (hUp : AllUp net) (hSR : SingleRouter net)
    (hJ : Joinable mac net edges src dst) (hp : pathOf edges = some c) (hexp : Unexpired now c) :
    ∃ cf, send mac net now src dst c = .delivered dst (pathIfaces edges) cf := by
  rcases joinable_cases mac net edges src dst hJ with hnp | ⟨e1, e2, k1, k2, rfl, h1, h2⟩
  · obtain ⟨s, rest, _, _, _, _, _, _, h⟩ :=
      nonpeer_accepted mac net now src dst hWF hUp hSR edges c hnp hJ hp hexp
    exact ⟨_, h⟩
  · exact peering_accepted mac net now src dst hWF hUp hSR e1 e2 c k1 k2 h1 h2 hJ hp hexp

end Scion.Net
