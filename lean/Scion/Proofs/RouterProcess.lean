import Scion.Proofs.RouterStages
import Scion.Proofs.RouterBytes
/-! Inversion lemmas: what must have happened when `process` / `outbound` accept a packet. -/
namespace Scion.Router
open Scion.Util Scion.PathMeta

/-- the tail of `process` after the six checking stages -/
def tail (cfg : Cfg) (mac : Mac) (resolve : Cfg → Hd → ResolveOut) (now : Nat) (ing : Ingress)
    (h : Hd) (s : St) : Disp × Bytes :=
  if h.dstIA == cfg.localIA then inbound (resolve cfg h) s else outbound cfg mac h now ing s

/-- all six checking stages passed, ending in state `s1` (stages 3–6 do not change the state) -/
structure Passed (cfg : Cfg) (mac : Mac) (now : Nat) (ing : Ingress) (h : Hd) (pm : Hdr)
    (raw : Bytes) (s0 s1 : St) : Prop where
  parse : stParse h pm raw = .ok s0
  segid : stSegID h ing s0 = .ok s1
  val : stValidate1 h now ing s1 = .ok s1
  transit : stTransit cfg h ing s1 = .ok s1
  srcdst : stSrcDst cfg h ing s1 = .ok s1
  macst : stMac cfg mac h ing s1 = .ok s1

theorem process_of_passed {cfg mac resolve now ing h pm raw s0 s1}
    (p : Passed cfg mac now ing h pm raw s0 s1) :
    process cfg mac resolve now ing h pm raw = tail cfg mac resolve now ing h s1 := by
  unfold process tail
  simp only [p.parse, p.segid, p.val, p.transit, p.srcdst, p.macst]

theorem process_accepting_inv {cfg mac resolve now ing h pm raw}
    (hacc : (process cfg mac resolve now ing h pm raw).1.accepting = true) :
    ∃ s0 s1, Passed cfg mac now ing h pm raw s0 s1 := by
  unfold process at hacc
  cases e0 : stParse h pm raw with
  | error r => simp only [e0] at hacc; simp [(stParse_err e0).1] at hacc
  | ok s0 =>
    simp only [e0] at hacc
    cases e1 : stSegID h ing s0 with
    | error r => simp only [e1] at hacc; simp [stSegID_err e1] at hacc
    | ok s1 =>
      simp only [e1] at hacc
      cases e2 : stValidate1 h now ing s1 with
      | error r => simp only [e2] at hacc; simp [(stValidate1_err e2).1] at hacc
      | ok s2 =>
        have h2 := (stValidate1_ok e2).1; subst h2
        simp only [e2] at hacc
        cases e3 : stTransit cfg h ing s2 with
        | error r => simp only [e3] at hacc; simp [(stTransit_err e3).1] at hacc
        | ok s3 =>
          have h3 := (stTransit_ok e3).1; subst h3
          simp only [e3] at hacc
          cases e4 : stSrcDst cfg h ing s3 with
          | error r => simp only [e4] at hacc; simp [(stSrcDst_err e4).1] at hacc
          | ok s4 =>
            have h4 := (stSrcDst_ok e4).1; subst h4
            simp only [e4] at hacc
            cases e5 : stMac cfg mac h ing s4 with
            | error r => simp only [e5] at hacc; simp [stMac_err e5] at hacc
            | ok s5 =>
              have h5 := (stMac_ok e5).1; subst h5
              exact ⟨s0, s5, e0, e1, e2, e3, e4, e5⟩

/-- what `outbound` did when it accepted -/
structure OutOk (cfg : Cfg) (mac : Mac) (h : Hd) (now : Nat) (ing : Ingress) (s s5 : St) (l : Iface)
    (r : Disp × Bytes) : Prop where
  xo : stXover cfg mac h now s = .ok s5
  egid : stEgressID cfg h ing s5 = .ok l
  up : stEgressAlertUp h l s5 = .ok s5
  disp : r.1 = .forward (egressOf s5)
  buf : (l.scope = .external ∧ ∃ s7, stProcessEgress h s5 = .ok s7 ∧ r.2 = s7.buf) ∨
        (l.scope ≠ .external ∧ r.2 = s5.buf)

theorem outbound_accepting_inv' {cfg mac h now ing s} (r : Disp × Bytes)
    (hr : outbound cfg mac h now ing s = r) (hacc : r.1.accepting = true) :
    ∃ s5 l, OutOk cfg mac h now ing s s5 l r := by
  unfold outbound at hr
  cases e0 : stXover cfg mac h now s with
  | error r' => simp only [e0] at hr; subst hr; simp [stXover_err e0] at hacc
  | ok s5 =>
    simp only [e0] at hr
    cases e1 : stEgressID cfg h ing s5 with
    | error r' => simp only [e1] at hr; subst hr; simp [(stEgressID_err e1).1] at hacc
    | ok l =>
      simp only [e1] at hr
      cases e2 : stEgressAlertUp h l s5 with
      | error r' => simp only [e2] at hr; subst hr; simp [stEgressAlertUp_err e2] at hacc
      | ok s6 =>
        have h6 := (stEgressAlertUp_ok e2).1; subst h6
        simp only [e2] at hr
        by_cases hs : l.scope = .external
        · simp only [hs, beq_self_eq_true, if_true] at hr
          cases e3 : stProcessEgress h s6 with
          | error r' =>
            simp only [e3] at hr; subst hr
            simp [stProcessEgress_err e3] at hacc
          | ok s7 =>
            simp only [e3] at hr; subst hr
            exact ⟨s6, l, e0, e1, e2, rfl, Or.inl ⟨hs, s7, e3, rfl⟩⟩
        · have hb : (l.scope == Scope.external) = false := by simpa using hs
          simp only [hb] at hr
          subst hr
          exact ⟨s6, l, e0, e1, e2, rfl, Or.inr ⟨hs, rfl⟩⟩

theorem outbound_accepting_inv {cfg mac h now ing s}
    (hacc : (outbound cfg mac h now ing s).1.accepting = true) :
    ∃ s5 l, OutOk cfg mac h now ing s s5 l (outbound cfg mac h now ing s) :=
  outbound_accepting_inv' _ rfl hacc

theorem tail_cases {cfg mac resolve now ing h s} :
    (h.dstIA = cfg.localIA ∧ tail cfg mac resolve now ing h s = inbound (resolve cfg h) s) ∨
    (h.dstIA ≠ cfg.localIA ∧ tail cfg mac resolve now ing h s = outbound cfg mac h now ing s) := by
  unfold tail
  by_cases hd : h.dstIA = cfg.localIA
  · left; simp [hd]
  · right; simp [hd]

end Scion.Router
