import Scion.Model.Bfd
/-! C16, asynchronous exchange: two sessions over two lossless FIFO channels with packets in
flight. Invariant of the configurations that arise from a clean start, monotonicity of the
states, and the UNITY-style progress rule used for the liveness proof. Core Lean only. -/
namespace Scion.Bfd

/-- rank of a state: AdminDown 0 < Down 1 < Init 2 < Up 3 -/
abbrev rk (s : St) : Nat := s.toNat

theorem rk_le_three (s : St) : rk s ≤ 3 := by cases s <;> decide

theorem eq_up_of_rk (s : St) (h : 3 ≤ rk s) : s = .up := by
  cases s <;> simp_all [rk, St.toNat]

/-! ### facts about `recvStep` -/

theorem recv_mono (l x : St) (hl : 1 ≤ rk l) (hx : 1 ≤ rk x) (h : l = .up → 2 ≤ rk x) :
    rk l ≤ rk (recvStep l x) := by
  cases l <;> cases x <;> simp_all [rk, St.toNat, recvStep, transition, eventOf, norm]

theorem recv_new_up (l x : St) (hl : l ≠ .up) (h : recvStep l x = .up) : 2 ≤ rk x := by
  cases l <;> cases x <;> simp_all [rk, St.toNat, recvStep, transition, eventOf, norm]

/-- a session that is Down is raised by a Down or an Init packet -/
theorem recv_raises_down (x : St) (h1 : 1 ≤ rk x) (h2 : rk x ≤ 2) : 2 ≤ rk (recvStep .down x) := by
  cases x <;> simp_all [rk, St.toNat, recvStep, transition, eventOf, norm]

/-- a session that is Init comes Up on an Init or Up packet and stays Init on a Down packet -/
theorem recv_init_up (x : St) (h : 2 ≤ rk x) : recvStep .init x = .up := by
  cases x <;> simp_all [rk, St.toNat, recvStep, transition, eventOf, norm]

theorem recv_init_down : recvStep .init .down = .init := rfl

/-! ### symmetry -/

def ACfg.swap (c : ACfg) : ACfg := ⟨c.b, c.a, c.qba, c.qab⟩

def Act.swap : Act → Act
  | .sendA => .sendB | .sendB => .sendA | .recvA => .recvB | .recvB => .recvA

theorem swap_swap (c : ACfg) : c.swap.swap = c := rfl

theorem act_swap_swap (x : Act) : x.swap.swap = x := by cases x <;> rfl

theorem astep_swap (c : ACfg) (x : Act) : astep c.swap x.swap = (astep c x).swap := by
  obtain ⟨a, b, qab, qba⟩ := c
  cases x
  · rfl
  · rfl
  · cases qba <;> rfl
  · cases qab <;> rfl

theorem acfgAt_swap (sched : Nat → Act) (c0 : ACfg) (n : Nat) :
    acfgAt (fun i => (sched i).swap) c0.swap n = (acfgAt sched c0 n).swap := by
  induction n with
  | zero => rfl
  | succ n ih => simp only [acfgAt]; rw [ih, astep_swap]

/-! ### invariant -/

/-- what holds of every configuration that arises from a clean start by sends and lossless
in-order deliveries: no AdminDown anywhere, each channel is sorted and bounded by its sender's
state (states only move Down → Init → Up), and a session that is Up has nothing below Init
coming towards it -/
structure AInv (c : ACfg) : Prop where
  a1 : 1 ≤ rk c.a
  b1 : 1 ≤ rk c.b
  qab1 : ∀ x ∈ c.qab, 1 ≤ rk x ∧ rk x ≤ rk c.a
  qba1 : ∀ x ∈ c.qba, 1 ≤ rk x ∧ rk x ≤ rk c.b
  upB : c.b = .up → 2 ≤ rk c.a ∧ ∀ x ∈ c.qab, 2 ≤ rk x
  upA : c.a = .up → 2 ≤ rk c.b ∧ ∀ x ∈ c.qba, 2 ≤ rk x
  sortA : c.qab.Pairwise (fun x y => rk x ≤ rk y)
  sortB : c.qba.Pairwise (fun x y => rk x ≤ rk y)

theorem ainv_init : AInv aInit := by
  constructor <;> simp [aInit, rk, St.toNat]

theorem ainv_swap (c : ACfg) (h : AInv c) : AInv c.swap :=
  ⟨h.b1, h.a1, h.qba1, h.qab1, h.upA, h.upB, h.sortB, h.sortA⟩

theorem ainv_sendA (c : ACfg) (h : AInv c) : AInv (astep c .sendA) := by
  obtain ⟨a1, b1, qab1, qba1, upB, upA, sortA, sortB⟩ := h
  refine ⟨a1, b1, ?_, qba1, ?_, upA, ?_, sortB⟩
  · intro x hx
    simp only [astep, List.mem_append, List.mem_cons, List.mem_nil_iff, or_false] at hx
    rcases hx with hx | rfl
    · exact qab1 x hx
    · exact ⟨a1, Nat.le_refl _⟩
  · intro hb
    refine ⟨(upB hb).1, ?_⟩
    intro x hx
    simp only [astep, List.mem_append, List.mem_cons, List.mem_nil_iff, or_false] at hx
    rcases hx with hx | rfl
    · exact (upB hb).2 x hx
    · exact (upB hb).1
  · simp only [astep]
    rw [List.pairwise_append]
    refine ⟨sortA, List.pairwise_singleton _ _, ?_⟩
    intro x hx y hy
    simp only [List.mem_cons, List.mem_nil_iff, or_false] at hy
    rw [hy]; exact (qab1 x hx).2

theorem ainv_recvA (c : ACfg) (h : AInv c) : AInv (astep c .recvA) := by
  obtain ⟨a1, b1, qab1, qba1, upB, upA, sortA, sortB⟩ := h
  cases hq : c.qba with
  | nil =>
    have : astep c .recvA = c := by simp only [astep, hq]
    rw [this]
    exact ⟨a1, b1, qab1, qba1, upB, upA, sortA, sortB⟩
  | cons x r =>
    have hs : astep c .recvA = { c with a := recvStep c.a x, qba := r } := by
      simp only [astep, hq]
    rw [hs]
    have hxin : x ∈ c.qba := by rw [hq]; exact List.mem_cons_self
    have hx := qba1 x hxin
    have hsort : (x :: r).Pairwise (fun x y => rk x ≤ rk y) := by rw [← hq]; exact sortB
    have hmono : rk c.a ≤ rk (recvStep c.a x) :=
      recv_mono c.a x a1 hx.1 (fun hu => (upA hu).2 x hxin)
    have hr : ∀ y ∈ r, y ∈ c.qba := fun y hy => by rw [hq]; exact List.mem_cons_of_mem _ hy
    refine ⟨by dsimp only; omega, b1, ?_, ?_, ?_, ?_, sortA, ?_⟩
    · intro y hy
      have := qab1 y hy
      dsimp only; exact ⟨this.1, by omega⟩
    · intro y hy
      exact qba1 y (hr y hy)
    · intro hb
      have := upB hb
      dsimp only at hb ⊢
      exact ⟨by omega, this.2⟩
    · intro hu
      dsimp only at hu ⊢
      by_cases hau : c.a = .up
      · exact ⟨(upA hau).1, fun y hy => (upA hau).2 y (hr y hy)⟩
      · have hx2 := recv_new_up c.a x hau hu
        refine ⟨by omega, fun y hy => ?_⟩
        have := (List.pairwise_cons.mp hsort).1 y hy
        omega
    · exact (List.pairwise_cons.mp hsort).2

theorem ainv_step (c : ACfg) (x : Act) (h : AInv c) : AInv (astep c x) := by
  cases x with
  | sendA => exact ainv_sendA c h
  | recvA => exact ainv_recvA c h
  | sendB =>
    have := ainv_sendA c.swap (ainv_swap c h)
    have e : astep c.swap Act.sendA = (astep c .sendB).swap := astep_swap c .sendB
    rw [e] at this
    exact ainv_swap _ this
  | recvB =>
    have := ainv_recvA c.swap (ainv_swap c h)
    have e : astep c.swap Act.recvA = (astep c .recvB).swap := astep_swap c .recvB
    rw [e] at this
    exact ainv_swap _ this

theorem ainv_at (sched : Nat → Act) (c0 : ACfg) (h : AInv c0) (n : Nat) :
    AInv (acfgAt sched c0 n) := by
  induction n with
  | zero => exact h
  | succ n ih => exact ainv_step _ _ ih

/-! ### the states never go back -/

theorem a_mono_step (c : ACfg) (x : Act) (h : AInv c) : rk c.a ≤ rk (astep c x).a := by
  cases x with
  | sendA => exact Nat.le_refl _
  | sendB => exact Nat.le_refl _
  | recvB =>
    simp only [astep]
    cases c.qab <;> exact Nat.le_refl _
  | recvA =>
    simp only [astep]
    cases hq : c.qba with
    | nil => exact Nat.le_refl _
    | cons y r =>
      have hyin : y ∈ c.qba := by rw [hq]; exact List.mem_cons_self
      exact recv_mono c.a y h.a1 (h.qba1 y hyin).1 (fun hu => (h.upA hu).2 y hyin)

theorem b_mono_step (c : ACfg) (x : Act) (h : AInv c) : rk c.b ≤ rk (astep c x).b := by
  have := a_mono_step c.swap x.swap (ainv_swap c h)
  rw [astep_swap] at this
  exact this

theorem a_mono (sched : Nat → Act) (c0 : ACfg) (h : AInv c0) (n k : Nat) :
    rk (acfgAt sched c0 n).a ≤ rk (acfgAt sched c0 (n + k)).a := by
  induction k with
  | zero => exact Nat.le_refl _
  | succ k ih =>
    have := a_mono_step (acfgAt sched c0 (n + k)) (sched (n + k)) (ainv_at sched c0 h (n + k))
    have e : acfgAt sched c0 (n + (k + 1)) = astep (acfgAt sched c0 (n + k)) (sched (n + k)) := rfl
    rw [e]; omega

theorem b_mono (sched : Nat → Act) (c0 : ACfg) (h : AInv c0) (n k : Nat) :
    rk (acfgAt sched c0 n).b ≤ rk (acfgAt sched c0 (n + k)).b := by
  induction k with
  | zero => exact Nat.le_refl _
  | succ k ih =>
    have := b_mono_step (acfgAt sched c0 (n + k)) (sched (n + k)) (ainv_at sched c0 h (n + k))
    have e : acfgAt sched c0 (n + (k + 1)) = astep (acfgAt sched c0 (n + k)) (sched (n + k)) := rfl
    rw [e]; omega

/-! ### fairness and the progress rule -/

/-- every action is taken again and again (sessions keep sending, channels keep delivering) -/
def AFair (sched : Nat → Act) : Prop := ∀ n x, ∃ m, n ≤ m ∧ sched m = x

theorem afair_swap (sched : Nat → Act) (hf : AFair sched) : AFair (fun i => (sched i).swap) := by
  intro n x
  obtain ⟨m, hm, hs⟩ := hf n x.swap
  exact ⟨m, hm, by simp only [hs, act_swap_swap]⟩

/-- "P ensures Q": P is kept by every action until Q holds, and action `act` establishes Q -/
theorem ensures (sched : Nat → Act) (hf : AFair sched) (c0 : ACfg) (h0 : AInv c0)
    (P Q : ACfg → Prop) (act : Act)
    (hstab : ∀ c x, AInv c → P c → P (astep c x) ∨ Q (astep c x))
    (hact : ∀ c, AInv c → P c → Q (astep c act)) :
    ∀ n, P (acfgAt sched c0 n) → ∃ m, n ≤ m ∧ Q (acfgAt sched c0 m) := by
  have key : ∀ k n, sched (n + k) = act → P (acfgAt sched c0 n) →
      ∃ m, n ≤ m ∧ Q (acfgAt sched c0 m) := by
    intro k
    induction k with
    | zero =>
      intro n hs hp
      refine ⟨n + 1, by omega, ?_⟩
      have e : acfgAt sched c0 (n + 1) = astep (acfgAt sched c0 n) (sched n) := rfl
      have hs' : sched n = act := hs
      rw [e, hs']
      exact hact _ (ainv_at sched c0 h0 n) hp
    | succ k ih =>
      intro n hs hp
      have e : acfgAt sched c0 (n + 1) = astep (acfgAt sched c0 n) (sched n) := rfl
      rcases hstab _ (sched n) (ainv_at sched c0 h0 n) hp with hp' | hq
      · have hs2 : sched ((n + 1) + k) = act := by
          have : n + 1 + k = n + (k + 1) := by omega
          rw [this]; exact hs
        rw [← e] at hp'
        obtain ⟨m, hm, hq⟩ := ih (n + 1) hs2 hp'
        exact ⟨m, by omega, hq⟩
      · rw [← e] at hq
        exact ⟨n + 1, by omega, hq⟩
  intro n hp
  obtain ⟨m, hm, hs⟩ := hf n act
  obtain ⟨k, rfl⟩ : ∃ k, m = n + k := ⟨m - n, by omega⟩
  exact key k n hs hp

/-! ### progress lemmas -/

theorem rk_ge_two_of_ne_down (s : St) (h1 : 1 ≤ rk s) (h : s ≠ .down) : 2 ≤ rk s := by
  cases s <;> simp_all [rk, St.toNat]

theorem down_of_rk_one (s : St) (h1 : 1 ≤ rk s) (h : rk s ≤ 1) : s = .down := by
  cases s <;> simp_all [rk, St.toNat]

/-- effect of an action on `a` and `qba`, by cases -/
theorem astep_a_qba (c : ACfg) (x : Act) :
    ((astep c x).a = c.a ∧ ((astep c x).qba = c.qba ∨ (astep c x).qba = c.qba ++ [c.b])) ∨
    (x = .recvA ∧ ∃ y r, c.qba = y :: r ∧ (astep c x).a = recvStep c.a y ∧ (astep c x).qba = r) := by
  cases x with
  | sendA => exact Or.inl ⟨rfl, Or.inl rfl⟩
  | sendB => exact Or.inl ⟨rfl, Or.inr rfl⟩
  | recvB =>
    left
    simp only [astep]
    cases c.qab <;> exact ⟨rfl, Or.inl rfl⟩
  | recvA =>
    cases hq : c.qba with
    | nil =>
      left
      have : astep c .recvA = c := by simp only [astep, hq]
      rw [this, hq]; exact ⟨rfl, Or.inl rfl⟩
    | cons y r => right; exact ⟨rfl, y, r, rfl, by simp only [astep, hq], by simp only [astep, hq]⟩

theorem astep_recvA_cons (c : ACfg) (y : St) (r : List St) (hq : c.qba = y :: r) :
    (astep c .recvA).a = recvStep c.a y ∧ (astep c .recvA).qba = r := by
  simp only [astep, hq]; exact ⟨trivial, trivial⟩

/-- a session that is Down leaves Down -/
theorem down_leads_up (sched : Nat → Act) (hf : AFair sched) (c0 : ACfg) (h0 : AInv c0) (n : Nat)
    (hd : (acfgAt sched c0 n).a = .down) : ∃ m, n ≤ m ∧ 2 ≤ rk (acfgAt sched c0 m).a := by
  -- phase 1: B sends, so that something is in flight towards A
  have ph1 := ensures sched hf c0 h0 (fun c => c.a = .down)
    (fun c => 2 ≤ rk c.a ∨ (c.a = .down ∧ c.qba ≠ [])) .sendB
    (by
      intro c x hi hp
      by_cases hn : (astep c x).a = .down
      · exact Or.inl hn
      · exact Or.inr (Or.inl (rk_ge_two_of_ne_down _ (ainv_step c x hi).a1 hn)))
    (by
      intro c _ hp
      refine Or.inr ⟨hp, ?_⟩
      simp [astep])
    n hd
  obtain ⟨m1, hm1, hq1⟩ := ph1
  rcases hq1 with hdone | ⟨hd1, hne1⟩
  · exact ⟨m1, hm1, hdone⟩
  -- phase 2: A receives
  have ph2 := ensures sched hf c0 h0 (fun c => c.a = .down ∧ c.qba ≠ [])
    (fun c => 2 ≤ rk c.a) .recvA
    (by
      intro c x hi hp
      rcases astep_a_qba c x with ⟨ha, hq⟩ | ⟨_, y, r, hq, ha, _⟩
      · left
        refine ⟨by rw [ha]; exact hp.1, ?_⟩
        rcases hq with hq | hq
        · rw [hq]; exact hp.2
        · rw [hq]; simp
      · right
        have hyin : y ∈ c.qba := by rw [hq]; exact List.mem_cons_self
        have hy := hi.qba1 y hyin
        have hb : rk c.b ≤ 2 := by
          have h3 := rk_le_three c.b
          by_cases hbu : c.b = .up
          · have := (hi.upB hbu).1
            rw [hp.1] at this
            exact absurd this (by decide)
          · cases hcb : c.b <;> simp_all [rk, St.toNat]
        rw [ha, hp.1]
        exact recv_raises_down y hy.1 (by omega))
    (by
      intro c hi hp
      cases hq : c.qba with
      | nil => exact absurd hq hp.2
      | cons y r =>
        have ha := (astep_recvA_cons c y r hq).1
        have hyin : y ∈ c.qba := by rw [hq]; exact List.mem_cons_self
        have hy := hi.qba1 y hyin
        have hb : rk c.b ≤ 2 := by
          by_cases hbu : c.b = .up
          · have := (hi.upB hbu).1
            rw [hp.1] at this
            exact absurd this (by decide)
          · cases hcb : c.b <;> simp_all [rk, St.toNat]
        show 2 ≤ rk (astep c .recvA).a
        rw [ha, hp.1]
        exact recv_raises_down y hy.1 (by omega))
    m1 ⟨hd1, hne1⟩
  obtain ⟨m2, hm2, hq2⟩ := ph2
  exact ⟨m2, by omega, hq2⟩

/-- number of packets below Init in a channel -/
def lowCount (l : List St) : Nat := l.countP (fun x => decide (rk x ≤ 1))

theorem lowCount_append_high (l : List St) (s : St) (h : 2 ≤ rk s) :
    lowCount (l ++ [s]) = lowCount l := by
  unfold lowCount
  rw [List.countP_append]
  have : List.countP (fun x => decide (rk x ≤ 1)) [s] = 0 := by
    rw [List.countP_cons_of_neg (by simp; omega)]; rfl
  omega

theorem lowCount_cons (y : St) (r : List St) :
    lowCount (y :: r) = lowCount r + (if rk y ≤ 1 then 1 else 0) := by
  unfold lowCount
  by_cases h : rk y ≤ 1
  · rw [List.countP_cons_of_pos (by simpa using h), if_pos h]
  · rw [List.countP_cons_of_neg (by simpa using h), if_neg h]; rfl

/-- the situation in which A waits in Init: B is at least Init, `k` stale Down packets ahead -/
def InitWait (k : Nat) (c : ACfg) : Prop := c.a = .init ∧ 2 ≤ rk c.b ∧ lowCount c.qba = k

/-- one action keeps `InitWait k` or makes progress (A Up, or fewer stale packets) -/
theorem initWait_step (k : Nat) (c : ACfg) (x : Act) (hi : AInv c) (hp : InitWait k c) :
    InitWait k (astep c x) ∨ (astep c x).a = .up ∨ ∃ j, j < k ∧ InitWait j (astep c x) := by
  obtain ⟨ha, hb, hk⟩ := hp
  have hb' : 2 ≤ rk (astep c x).b := by
    have := b_mono_step c x hi; omega
  rcases astep_a_qba c x with ⟨ha', hq⟩ | ⟨_, y, r, hq, ha', hq'⟩
  · left
    refine ⟨by rw [ha']; exact ha, hb', ?_⟩
    rcases hq with hq | hq
    · rw [hq]; exact hk
    · rw [hq, lowCount_append_high _ _ hb]; exact hk
  · right
    by_cases hy : rk y ≤ 1
    · right
      have hyin : y ∈ c.qba := by rw [hq]; exact List.mem_cons_self
      have hyd := down_of_rk_one y (hi.qba1 y hyin).1 hy
      have hc : lowCount c.qba = lowCount r + 1 := by rw [hq, lowCount_cons, if_pos hy]
      refine ⟨lowCount r, by omega, ?_, hb', by rw [hq']⟩
      rw [ha', ha, hyd]; rfl
    · left
      rw [ha', ha]
      exact recv_init_up y (by omega)

/-- a session waiting in Init whose peer is at least Init comes Up -/
theorem init_leads_up (sched : Nat → Act) (hf : AFair sched) (c0 : ACfg) (h0 : AInv c0) :
    ∀ k n, InitWait k (acfgAt sched c0 n) → ∃ m, n ≤ m ∧ (acfgAt sched c0 m).a = .up := by
  intro k
  induction k using Nat.strongRecOn with
  | _ k ih =>
    intro n hp
    cases k with
    | zero =>
      -- phase 1: B sends (at least Init), phase 2: A receives it
      have ph1 := ensures sched hf c0 h0 (InitWait 0)
        (fun c => c.a = .up ∨ (InitWait 0 c ∧ c.qba ≠ [])) .sendB
        (by
          intro c x hi hp
          rcases initWait_step 0 c x hi hp with h | h | ⟨j, hj, _⟩
          · exact Or.inl h
          · exact Or.inr (Or.inl h)
          · omega)
        (by
          intro c hi hp
          rcases initWait_step 0 c .sendB hi hp with h | h | ⟨j, hj, _⟩
          · exact Or.inr ⟨h, by simp [astep]⟩
          · exact Or.inl h
          · omega)
        n hp
      obtain ⟨m1, hm1, hq1⟩ := ph1
      rcases hq1 with hup | hw
      · exact ⟨m1, hm1, hup⟩
      have ph2 := ensures sched hf c0 h0 (fun c => InitWait 0 c ∧ c.qba ≠ [])
        (fun c => c.a = .up) .recvA
        (by
          intro c x hi hp
          rcases initWait_step 0 c x hi hp.1 with h | h | ⟨j, hj, _⟩
          · rcases astep_a_qba c x with ⟨_, hq⟩ | ⟨_, y, r, hq, ha', _⟩
            · left
              refine ⟨h, ?_⟩
              rcases hq with hq | hq
              · rw [hq]; exact hp.2
              · rw [hq]; simp
            · right
              have hl : lowCount c.qba = 0 := hp.1.2.2
              rw [hq, lowCount_cons] at hl
              have hy : ¬ rk y ≤ 1 := by intro hy; rw [if_pos hy] at hl; omega
              rw [ha', hp.1.1]; exact recv_init_up y (by omega)
          · exact Or.inr h
          · omega)
        (by
          intro c hi hp
          cases hq : c.qba with
          | nil => exact absurd hq hp.2
          | cons y r =>
            have ha' := (astep_recvA_cons c y r hq).1
            have hl : lowCount c.qba = 0 := hp.1.2.2
            rw [hq, lowCount_cons] at hl
            have hy : ¬ rk y ≤ 1 := by intro hy; rw [if_pos hy] at hl; omega
            show (astep c .recvA).a = .up
            rw [ha', hp.1.1]; exact recv_init_up y (by omega))
        m1 hw
      obtain ⟨m2, hm2, hq2⟩ := ph2
      exact ⟨m2, by omega, hq2⟩
    | succ k =>
      have ph := ensures sched hf c0 h0 (InitWait (k + 1))
        (fun c => c.a = .up ∨ ∃ j, j < k + 1 ∧ InitWait j c) .recvA
        (by
          intro c x hi hp
          rcases initWait_step (k + 1) c x hi hp with h | h | h
          · exact Or.inl h
          · exact Or.inr (Or.inl h)
          · exact Or.inr (Or.inr h))
        (by
          intro c hi hp
          have hl : lowCount c.qba = k + 1 := hp.2.2
          cases hq : c.qba with
          | nil => rw [hq] at hl; simp [lowCount] at hl
          | cons y r =>
            obtain ⟨ha', hq'⟩ := astep_recvA_cons c y r hq
            rcases initWait_step (k + 1) c .recvA hi hp with h | h | h
            · exfalso
              have h1 : lowCount (astep c .recvA).qba = k + 1 := h.2.2
              rw [hq'] at h1
              rw [hq, lowCount_cons] at hl
              by_cases hy : rk y ≤ 1
              · rw [if_pos hy] at hl; omega
              · have : (astep c .recvA).a = .up := by
                  rw [ha', hp.1]; exact recv_init_up y (by omega)
                rw [h.1] at this; cases this
            · exact Or.inl h
            · exact Or.inr h)
        n hp
      obtain ⟨m1, hm1, hq1⟩ := ph
      rcases hq1 with hup | ⟨j, hj, hw⟩
      · exact ⟨m1, hm1, hup⟩
      · obtain ⟨m2, hm2, hq2⟩ := ih j hj m1 hw
        exact ⟨m2, by omega, hq2⟩

/-- **Asynchronous convergence.** From every configuration satisfying the clean-start
invariant, under every fair schedule of sends and in-order lossless deliveries, both sessions
are Up from some point on, for ever. -/
theorem async_converges (sched : Nat → Act) (hf : AFair sched) (c0 : ACfg) (h0 : AInv c0) :
    ∃ N, ∀ n, N ≤ n → (acfgAt sched c0 n).a = .up ∧ (acfgAt sched c0 n).b = .up := by
  -- mirrored system
  have hfs := afair_swap sched hf
  have h0s := ainv_swap c0 h0
  have hsw : ∀ n, acfgAt (fun i => (sched i).swap) c0.swap n = (acfgAt sched c0 n).swap :=
    acfgAt_swap sched c0
  -- stage 1: A leaves Down
  have s1 : ∃ m1, 2 ≤ rk (acfgAt sched c0 m1).a := by
    by_cases hd : (acfgAt sched c0 0).a = .down
    · obtain ⟨m, _, h⟩ := down_leads_up sched hf c0 h0 0 hd; exact ⟨m, h⟩
    · exact ⟨0, rk_ge_two_of_ne_down _ (ainv_at sched c0 h0 0).a1 hd⟩
  obtain ⟨m1, ha1⟩ := s1
  -- stage 2: B leaves Down
  have s2 : ∃ m2, m1 ≤ m2 ∧ 2 ≤ rk (acfgAt sched c0 m2).b := by
    by_cases hd : (acfgAt sched c0 m1).b = .down
    · have hd' : (acfgAt (fun i => (sched i).swap) c0.swap m1).a = .down := by rw [hsw]; exact hd
      obtain ⟨m, hm, h⟩ := down_leads_up _ hfs c0.swap h0s m1 hd'
      rw [hsw] at h
      exact ⟨m, hm, h⟩
    · exact ⟨m1, Nat.le_refl _, rk_ge_two_of_ne_down _ (ainv_at sched c0 h0 m1).b1 hd⟩
  obtain ⟨m2, hm12, hb2⟩ := s2
  have ha2 : 2 ≤ rk (acfgAt sched c0 m2).a := by
    obtain ⟨k, rfl⟩ : ∃ k, m2 = m1 + k := ⟨m2 - m1, by omega⟩
    have := a_mono sched c0 h0 m1 k; omega
  -- stage 3: A comes Up
  have s3 : ∃ m3, m2 ≤ m3 ∧ (acfgAt sched c0 m3).a = .up := by
    by_cases hu : (acfgAt sched c0 m2).a = .up
    · exact ⟨m2, Nat.le_refl _, hu⟩
    · have hi : (acfgAt sched c0 m2).a = .init := by
        cases hc : (acfgAt sched c0 m2).a <;> simp_all [rk, St.toNat]
      exact init_leads_up sched hf c0 h0 _ m2 ⟨hi, hb2, rfl⟩
  obtain ⟨m3, hm23, ha3⟩ := s3
  have hb3 : 2 ≤ rk (acfgAt sched c0 m3).b := by
    obtain ⟨k, rfl⟩ : ∃ k, m3 = m2 + k := ⟨m3 - m2, by omega⟩
    have := b_mono sched c0 h0 m2 k; omega
  -- stage 4: B comes Up
  have s4 : ∃ m4, m3 ≤ m4 ∧ (acfgAt sched c0 m4).b = .up := by
    by_cases hu : (acfgAt sched c0 m3).b = .up
    · exact ⟨m3, Nat.le_refl _, hu⟩
    · have hi : (acfgAt sched c0 m3).b = .init := by
        cases hc : (acfgAt sched c0 m3).b <;> simp_all [rk, St.toNat]
      have hw : InitWait (lowCount (acfgAt sched c0 m3).qab)
          (acfgAt (fun i => (sched i).swap) c0.swap m3) := by
        rw [hsw]
        refine ⟨hi, ?_, rfl⟩
        show 2 ≤ rk (acfgAt sched c0 m3).a
        rw [ha3]; decide
      obtain ⟨m, hm, h⟩ := init_leads_up _ hfs c0.swap h0s _ m3 hw
      rw [hsw] at h
      exact ⟨m, hm, h⟩
  obtain ⟨m4, hm34, hb4⟩ := s4
  refine ⟨m4, fun n hn => ?_⟩
  obtain ⟨k, rfl⟩ : ∃ k, n = m4 + k := ⟨n - m4, by omega⟩
  obtain ⟨k3, hk3⟩ : ∃ k3, m4 + k = m3 + k3 := ⟨m4 + k - m3, by omega⟩
  have hA := a_mono sched c0 h0 m3 k3
  have hB := b_mono sched c0 h0 m4 k
  rw [← hk3] at hA
  rw [ha3] at hA
  rw [hb4] at hB
  exact ⟨eq_up_of_rk _ (by simpa [rk, St.toNat] using hA), eq_up_of_rk _ (by simpa [rk, St.toNat] using hB)⟩

end Scion.Bfd
