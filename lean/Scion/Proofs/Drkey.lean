import Scion.Model.Drkey
/-! Helper lemmas for C39: injectivity of the big-endian encoder and of zero padding. -/
namespace Scion.Drkey
open Scion.Util

theorem u8_ofNat_inj {x y : Nat} (hx : x < 256) (hy : y < 256)
    (h : UInt8.ofNat x = UInt8.ofNat y) : x = y := by
  have := congrArg UInt8.toNat h
  simp only [UInt8.toNat_ofNat'] at this
  omega

theorem natBE_length (k n : Nat) : (natBE k n).length = k := by
  induction k with
  | zero => simp [natBE]
  | succ k ih => simp [natBE, ih]

/-- the encoder determines the value modulo `256^k` -/
theorem natBE_mod {k a b : Nat} (h : natBE k a = natBE k b) : a % 256 ^ k = b % 256 ^ k := by
  induction k with
  | zero => simp [Nat.mod_one]
  | succ k ih =>
    simp only [natBE, List.cons.injEq] at h
    obtain ⟨hh, ht⟩ := h
    have h1 := u8_ofNat_inj (Nat.mod_lt _ (by decide)) (Nat.mod_lt _ (by decide)) hh
    have h2 := ih ht
    rw [Nat.pow_succ, Nat.mod_mul, Nat.mod_mul, h1, h2]

theorem natBE_inj {k a b : Nat} (ha : a < 256 ^ k) (hb : b < 256 ^ k)
    (h : natBE k a = natBE k b) : a = b := by
  have := natBE_mod h
  rwa [Nat.mod_eq_of_lt ha, Nat.mod_eq_of_lt hb] at this

/-- zero padding can be undone when the body length is known -/
theorem zeroPad_inj {a b : Bytes} {n m : Nat} (hl : a.length = b.length)
    (h : zeroPad a n = zeroPad b m) : a = b := by
  unfold zeroPad at h
  exact (List.append_inj h hl).1

theorem zeroPad_head (x : UInt8) (xs : Bytes) (n : Nat) : (zeroPad (x :: xs) n).head? = some x := by
  simp [zeroPad]

theorem zeroPad_length {a : Bytes} {n : Nat} (h : a.length ≤ n) : (zeroPad a n).length = n := by
  simp [zeroPad]; omega

/-- the test of one `case` of the selection `switch`, as inequalities -/
theorem ok_iff (i : WinIn) (e : Nat × Nat) :
    i.ok e = true ↔
      (i.awBegin ≤ absTime e.1 i.ts ∧ absTime e.1 i.ts ≤ i.awEnd) ∧
      ((e.1 : Int) * nsPerSec ≤ absTime e.1 i.ts ∧
       absTime e.1 i.ts ≤ (e.2 : Int) * nsPerSec + gracePeriodNs) := by
  simp only [WinIn.ok, contains, withinGrace, Bool.and_eq_true, decide_eq_true_eq]

/-- away from the uint32 wrap (year 2106) the three candidate epochs are the aligned intervals
    around the receiver's clock -/
theorem epochs_nowrap (i : WinIn) (hD : 0 < i.duration)
    (hidx : 1 ≤ i.idx) (hwrap : (i.idx + 2) * i.duration < 4294967296) :
    ∃ P : Int, 0 ≤ P - i.duration ∧ P + 2 * i.duration < 4294967296 ∧
      i.epoch (-1) = ((P - i.duration).toNat, P.toNat) ∧
      i.epoch 0 = (P.toNat, (P + i.duration).toNat) ∧
      i.epoch 1 = ((P + i.duration).toNat, (P + 2 * i.duration).toNat) := by
  have e1 : (i.idx + 2) * i.duration = i.idx * i.duration + 2 * i.duration := by rw [Int.add_mul]
  have hpos : 0 ≤ (i.idx - 1) * i.duration := Int.mul_nonneg (by omega) (by omega)
  have e0 : (i.idx - 1) * i.duration = i.idx * i.duration - i.duration := by rw [Int.sub_mul, Int.one_mul]
  have a : (i.idx + -1) * i.duration = i.idx * i.duration - i.duration := by
    rw [Int.add_mul]; omega
  have c : (i.idx + 1) * i.duration = i.idx * i.duration + i.duration := by
    rw [Int.add_mul, Int.one_mul]
  refine ⟨i.idx * i.duration, by omega, by omega, ?_, ?_, ?_⟩
  · unfold WinIn.epoch newEpoch u32
    rw [a]
    generalize i.idx * i.duration = P at *
    generalize i.duration = D at *
    simp only [Prod.mk.injEq]
    omega
  · unfold WinIn.epoch newEpoch u32
    rw [Int.add_zero]
    generalize i.idx * i.duration = P at *
    generalize i.duration = D at *
    simp only [Prod.mk.injEq]
    omega
  · unfold WinIn.epoch newEpoch u32
    rw [c]
    generalize i.idx * i.duration = P at *
    generalize i.duration = D at *
    simp only [Prod.mk.injEq]
    omega

end Scion.Drkey
