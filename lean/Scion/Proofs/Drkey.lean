import Scion.Model.Drkey
/-! Helper lemmas for C39: injectivity of the big-endian encoder and of zero padding. -/
namespace Scion.Drkey
open Scion.Util

theorem u8_ofNat_inj {x y : Nat} (hx : x < 256) (hy : y < 256)
    (h : UInt8.ofNat x = UInt8.ofNat y) : x = y := by
  have := congrArg UInt8.toNat h
  simp only [UInt8.toNat_ofNat'] at this
  omega

theorem natBE_length (k n : Nat) : (natBE k n).length = k := by
  induction k with
  | zero => simp [natBE]
  | succ k ih => simp [natBE, ih]

/-- the encoder determines the value modulo `256^k` -/
theorem natBE_mod {k a b : Nat} (h : natBE k a = natBE k b) : a % 256 ^ k = b % 256 ^ k := by
  induction k with
  | zero => simp [Nat.mod_one]
  | succ k ih =>
    simp only [natBE, List.cons.injEq] at h
    obtain ⟨hh, ht⟩ := h
    have h1 := u8_ofNat_inj (Nat.mod_lt _ (by decide)) (Nat.mod_lt _ (by decide)) hh
    have h2 := ih ht
    rw [Nat.pow_succ, Nat.mod_mul, Nat.mod_mul, h1, h2]

theorem natBE_inj {k a b : Nat} (ha : a < 256 ^ k) (hb : b < 256 ^ k)
    (h : natBE k a = natBE k b) : a = b := by
  have := natBE_mod h
  rwa [Nat.mod_eq_of_lt ha, Nat.mod_eq_of_lt hb] at this

/-- zero padding can be undone when the body length is known -/
theorem zeroPad_inj {a b : Bytes} {n m : Nat} (hl : a.length = b.length)
    (h : zeroPad a n = zeroPad b m) : a = b := by
  unfold zeroPad at h
  exact (List.append_inj h hl).1

theorem zeroPad_head (x : UInt8) (xs : Bytes) (n : Nat) : (zeroPad (x :: xs) n).head? = some x := by
  simp [zeroPad]

theorem zeroPad_length {a : Bytes} {n : Nat} (h : a.length ≤ n) : (zeroPad a n).length = n := by
  simp [zeroPad]; omega

end Scion.Drkey
