import Scion.Model.Chain
/-! Helper lemmas about `Scion.Model.Chain` (unfolding of the Boolean validation functions into
propositions). Used by `Scion.Props.C34`, `C36`, `C37`. -/
namespace Scion.Chain

theorem isOk_iff (r : IARes) : r.isOk = true ↔ ∃ ia, r = .ok ia := by
  cases r <;> simp [IARes.isOk]

theorem digSig_true (c : Cert) : digSig c = true ↔ c.keyUsage % 2 = 1 := by simp [digSig]
theorem digSig_false (c : Cert) : digSig c = false ↔ c.keyUsage % 2 = 0 := by
  simp only [digSig]
  rcases Nat.mod_two_eq_zero_or_one c.keyUsage with h | h <;> simp [h]
theorem certSign_true (c : Cert) : certSign c = true ↔ c.keyUsage / 32 % 2 = 1 := by simp [certSign]
theorem certSign_false (c : Cert) : certSign c = false ↔ c.keyUsage / 32 % 2 = 0 := by
  simp only [certSign]
  rcases Nat.mod_two_eq_zero_or_one (c.keyUsage / 32) with h | h <;> simp [h]

theorem generalOk_iff (c : Cert) :
    generalOk c = true ↔ c.version = 3 ∧ c.hasSerial = true ∧
      (c.sigAlg = 10 ∨ c.sigAlg = 11 ∨ c.sigAlg = 12) ∧ c.skidEmpty = false ∧
      c.skidExt ≠ some true ∧ c.akidExt ≠ some true := by
  simp [generalOk, validSigAlgs, and_assoc]

theorem iaSetOk_iff (c : Cert) :
    iaSetOk c = true ↔ (∃ ia, c.issuerIA = .ok ia) ∧ (∃ ia, c.subjectIA = .ok ia) := by
  simp [iaSetOk, isOk_iff]

theorem asOk_iff (c : Cert) :
    asOk c = true ↔ generalOk c = true ∧ certSign c = false ∧ digSig c = true ∧
      ¬ (c.bcValid = true ∧ c.isCA = true) ∧ iaSetOk c = true ∧ c.akid ≠ 0 ∧ 8 ∈ c.eku := by
  cases hb : c.bcValid <;> cases hc : c.isCA <;> simp [asOk, ekuTimeStamping, and_assoc, hb, hc]

theorem caOk_iff (c : Cert) :
    caOk c = true ↔ generalOk c = true ∧ certSign c = true ∧ digSig c = false ∧
      2 ∉ c.eku ∧ 1 ∉ c.eku ∧ c.bcExt ≠ some false ∧ c.bcValid = true ∧ c.isCA = true ∧
      c.maxPathLen = 0 ∧ iaSetOk c = true ∧ c.akid ≠ 0 := by
  simp [caOk, commonCAOk, ekuClientAuth, ekuServerAuth, and_assoc]

theorem validateCert_some (c : Cert) :
    validateCert (some c) =
      match classify (some c) with
      | some .sensitive => (.sensitive, sensitiveOk c)
      | some .regular => (.regular, regularOk c)
      | some .root => (.root, rootOk c)
      | some .ca => (.ca, caOk c)
      | some .as => (.as, asOk c)
      | _ => (.invalid, false) := by
  unfold validateCert
  cases h : classify (some c) with
  | none => simp
  | some t => cases t <;> simp

theorem classifyUeku_ne (l : List Nat) : classifyUeku l ≠ some .ca ∧ classifyUeku l ≠ some .as ∧ classifyUeku l ≠ some .invalid := by
  induction l with
  | nil => simp [classifyUeku]
  | cons u r ih =>
    unfold classifyUeku
    split
    · simp
    · split
      · simp
      · split
        · simp
        · exact ih

theorem classify_as_iff (c : Cert) :
    classify (some c) = some .as ↔ classifyUeku c.ueku = none ∧ certSign c = false ∧ digSig c = true := by
  unfold classify
  have := classifyUeku_ne c.ueku
  cases hu : classifyUeku c.ueku with
  | some t => simp [hu] at this ⊢; exact this.2.1
  | none =>
    cases hc : certSign c <;> cases hd : digSig c <;> simp [hu, hc, hd]

theorem classify_ca_iff (c : Cert) :
    classify (some c) = some .ca ↔ classifyUeku c.ueku = none ∧ certSign c = true := by
  unfold classify
  have := classifyUeku_ne c.ueku
  cases hu : classifyUeku c.ueku with
  | some t => simp [hu] at this ⊢; exact this.1
  | none =>
    cases hc : certSign c <;> cases hd : digSig c <;> simp [hu, hc, hd]

theorem validateCert_as (c : Cert) :
    validateCert (some c) = (.as, true) ↔ classify (some c) = some .as ∧ asOk c = true := by
  rw [validateCert_some]
  cases h : classify (some c) with
  | none => simp
  | some t => cases t <;> simp

theorem validateCert_ca (c : Cert) :
    validateCert (some c) = (.ca, true) ↔ classify (some c) = some .ca ∧ caOk c = true := by
  rw [validateCert_some]
  cases h : classify (some c) with
  | none => simp
  | some t => cases t <;> simp

end Scion.Chain
