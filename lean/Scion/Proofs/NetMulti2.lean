import Scion.Proofs.NetMulti1
/-! Several border routers per AS: facts about packets (cursors) that hold whatever the path is,
and the stages of the router step rebuilt from what they checked.  Core Lean only. -/
namespace Scion.Net
open Scion.SegID (updateSegID)

/-- all segments carry the same Peer flag -/
def Uniform (c : Cursor) : Prop :=
  (∀ s ∈ c.before, s.info.peer = c.info.peer) ∧ (∀ s ∈ c.after, s.info.peer = c.info.peer)

/-- what holds for every packet a router sends to a neighbour AS: it is not on its first hop, and
    on the first hop of a later segment only across a peering link -/
def ArrOK (c : Cursor) : Prop :=
  c.isFirstHop = false ∧ (c.isFirstHopAfterXover = true → c.info.peer = true)

/-- hop fields from the current one to the end of the path -/
def remaining (c : Cursor) : Nat := 1 + c.todo.length + ((c.after.map (·.hops)).flatten).length

def setSeg (c : Cursor) (sid : Nat) : Cursor := { c with info := { c.info with segID := sid } }

theorem ingUpd_setSeg (c : Cursor) (arr : Arrival) (p : Bool) : ∃ sid, ingUpd c arr p = setSeg c sid := by
  unfold ingUpd
  split
  · exact ⟨_, rfl⟩
  · exact ⟨c.info.segID, rfl⟩

theorem egUpd_setSeg (c : Cursor) (p : Bool) : ∃ sid, egUpd c p = setSeg c sid := by
  unfold egUpd
  split
  · exact ⟨_, rfl⟩
  · exact ⟨c.info.segID, rfl⟩

theorem ingUpd_internal (c : Cursor) (arr : Arrival) (p : Bool) (h : arr.ifid = 0) : ingUpd c arr p = c := by
  simp [ingUpd, h]

theorem determinePeer_setSeg (c : Cursor) (sid : Nat) : determinePeer (setSeg c sid) = determinePeer c := rfl
theorem hasSingleton_setSeg (c : Cursor) (sid : Nat) : (setSeg c sid).hasSingleton = c.hasSingleton := rfl
theorem uniform_setSeg (c : Cursor) (sid : Nat) (h : Uniform c) : Uniform (setSeg c sid) := h
theorem remaining_setSeg (c : Cursor) (sid : Nat) : remaining (setSeg c sid) = remaining c := rfl

theorem incPath_cases (c c' : Cursor) (h : c.incPath = some c') :
    (∃ hd t, c.todo = hd :: t ∧ c' = { c with done := c.done ++ [c.cur], cur := hd, todo := t }) ∨
    (c.todo = [] ∧ ∃ s rest hd t, c.after = s :: rest ∧ s.hops = hd :: t ∧
       c' = ⟨c.before ++ [⟨c.info, c.done ++ [c.cur]⟩], s.info, [], hd, t, rest⟩) := by
  unfold Cursor.incPath at h
  split at h
  · cases h; exact Or.inl ⟨_, _, by assumption, rfl⟩
  · split at h
    · cases h
    · split at h
      · cases h
      · cases h; exact Or.inr ⟨by assumption, _, _, _, _, by assumption, by assumption, rfl⟩

theorem incPath_not_first (c c' : Cursor) (h : c.incPath = some c') : c'.isFirstHop = false := by
  rcases incPath_cases c c' h with ⟨hd, t, _, rfl⟩ | ⟨_, s, rest, hd, t, _, _, rfl⟩
  · simp [Cursor.isFirstHop]
  · simp [Cursor.isFirstHop]

theorem incPath_uniform (c c' : Cursor) (h : c.incPath = some c') (hU : Uniform c) : Uniform c' := by
  rcases incPath_cases c c' h with ⟨hd, t, _, rfl⟩ | ⟨_, s, rest, hd, t, ha, _, rfl⟩
  · exact hU
  · obtain ⟨hb, haf⟩ := hU
    rw [ha] at haf
    have hs := haf s (by simp)
    refine ⟨?_, ?_⟩
    · intro s' hs'
      simp only [List.mem_append, List.mem_singleton] at hs'
      rcases hs' with h1 | rfl
      · simp only; rw [hs]; exact hb s' h1
      · simp only; rw [hs]
    · intro s' hs'
      simp only; rw [hs]; exact haf s' (by simp [hs'])

theorem incPath_segLens (c c' : Cursor) (h : c.incPath = some c') : c'.segLens = c.segLens := by
  rcases incPath_cases c c' h with ⟨hd, t, ht, rfl⟩ | ⟨ht, s, rest, hd, t, ha, hh, rfl⟩
  · have : c.done.length + 1 + 1 + t.length = c.done.length + 1 + (t.length + 1) := by omega
    simp only [Cursor.segLens, Cursor.curSegLen, ht, List.length_append, List.length_cons, List.length_nil,
      this]
  · simp only [Cursor.segLens, Cursor.curSegLen, ht, ha, hh, List.map_append, List.map_cons, List.map_nil,
      List.length_append, List.length_cons, List.length_nil, List.append_assoc]
    simp
    omega

theorem incPath_hasSingleton (c c' : Cursor) (h : c.incPath = some c') :
    c'.hasSingleton = c.hasSingleton := by
  simp only [Cursor.hasSingleton, incPath_segLens c c' h]

theorem incPath_remaining (c c' : Cursor) (h : c.incPath = some c') : remaining c' + 1 = remaining c := by
  rcases incPath_cases c c' h with ⟨hd, t, ht, rfl⟩ | ⟨ht, s, rest, hd, t, ha, hh, rfl⟩
  · simp only [remaining, ht, List.length_cons]; omega
  · simp only [remaining, ht, ha, hh, List.map_cons, List.flatten_cons, List.length_append, List.length_cons,
      List.length_nil]; omega

/-- a segment change without peering happens only on paths without Peer flag -/
theorem peer_false_of_xover (c : Cursor) (hp : determinePeer c = some false) (hx : c.isXover = true) :
    c.info.peer = false := by
  cases hpe : c.info.peer with
  | false => rfl
  | true =>
    simp only [determinePeer, hpe, Bool.not_true, Bool.false_eq_true, if_false] at hp
    simp only [Cursor.isXover, Bool.and_eq_true, Bool.not_eq_true', List.isEmpty_iff] at hx
    split at hp
    · cases hp
    · rename_i hlen
      simp only [ne_eq, Decidable.not_not] at hlen
      cases hb : c.before with
      | nil => simp [hb, hx.1] at hp
      | cons b bs =>
        cases ha : c.after with
        | nil => simp [ha] at hx
        | cons a2 as => rw [hb, ha] at hlen; simp at hlen; omega

theorem peer_true_of_peering (c : Cursor) (hp : determinePeer c = some true) : c.info.peer = true := by
  cases hpe : c.info.peer with
  | true => rfl
  | false => simp [determinePeer, hpe] at hp

/-- on a Peer-flagged path the first hop of the second segment is a peering hop -/
theorem peering_of_fhax (c : Cursor) (p : Bool) (hp : determinePeer c = some p)
    (hf : c.isFirstHopAfterXover = true) (hpe : c.info.peer = true) : p = true := by
  simp only [determinePeer, hpe, Bool.not_true, Bool.false_eq_true, if_false] at hp
  split at hp
  · cases hp
  · simp only [Cursor.isFirstHopAfterXover] at hf
    simp only [Option.some.injEq] at hp
    rw [← hp, hf]; simp

theorem curSegLen_of_noSingleton (c : Cursor) (h : c.hasSingleton = false) : c.curSegLen ≠ 1 := by
  intro h1
  have : c.hasSingleton = true := by
    simp only [Cursor.hasSingleton, Cursor.segLens, List.any_append, List.any_cons, List.any_nil, h1]
    simp
  rw [h] at this; cases this

/-! ### The stages rebuilt -/

theorem routerStep_of_stages (mac : MacFn) (cfg : RCfg) (now : Nat) (arr : Arrival) (sl : Bool)
    (c : Cursor) (s : StIn) (x : StX)
    (hs : stIngress mac cfg now arr sl false c = .ok s) (hx : stXover mac cfg now s = .ok x) :
    routerStep mac cfg now arr sl false c = stEgress cfg arr x := by
  unfold routerStep
  rw [hs]
  simp only [Bool.false_eq_true, if_false]
  rw [hx]

theorem stEgress_not_deliver (cfg : RCfg) (arr : Arrival) (x : StX) (cf : Cursor) :
    stEgress cfg arr x ≠ .deliver cf := by
  intro h
  unfold stEgress at h
  dsimp only at h
  repeat' split at h
  all_goals (first | (cases h; done) | skip)

theorem routerStep_forward_inv (mac : MacFn) (cfg : RCfg) (now : Nat) (arr : Arrival) (sl dl : Bool)
    (c : Cursor) (e : Nat) (c' : Cursor)
    (h : routerStep mac cfg now arr sl dl c = .forward e c') :
    ∃ s x, stIngress mac cfg now arr sl dl c = .ok s ∧ dl = false ∧ stXover mac cfg now s = .ok x ∧
      stEgress cfg arr x = .forward e c' := by
  unfold routerStep at h
  split at h
  · rename_i o ho
    have := stIngress_err _ _ _ _ _ _ _ _ ho
    rw [h] at this; cases this
  · rename_i s hs
    split at h
    · cases h
    · rename_i hdl
      split at h
      · rename_i o ho
        have := stXover_err _ _ _ _ _ ho
        rw [h] at this; cases this
      · rename_i x hx
        exact ⟨s, x, hs, by simpa using hdl, hx, h⟩

theorem routerStep_deliver_inv (mac : MacFn) (cfg : RCfg) (now : Nat) (arr : Arrival) (sl dl : Bool)
    (c cf : Cursor) (h : routerStep mac cfg now arr sl dl c = .deliver cf) :
    ∃ s, stIngress mac cfg now arr sl dl c = .ok s ∧ dl = true ∧ cf = s.c := by
  unfold routerStep at h
  split at h
  · rename_i o ho
    have := stIngress_err _ _ _ _ _ _ _ _ ho
    rw [h] at this; cases this
  · rename_i s hs
    split at h
    · rename_i hdl
      cases h; exact ⟨s, hs, hdl, rfl⟩
    · split at h
      · rename_i o ho
        have := stXover_err _ _ _ _ _ ho
        rw [h] at this; cases this
      · exact absurd h (stEgress_not_deliver _ _ _ _)

theorem routerStep_deliver_of (mac : MacFn) (cfg : RCfg) (now : Nat) (arr : Arrival) (sl : Bool)
    (c : Cursor) (s : StIn) (hs : stIngress mac cfg now arr sl true c = .ok s) :
    routerStep mac cfg now arr sl true c = .deliver s.c := by
  unfold routerStep
  rw [hs]
  simp

/-- no segment change -/
theorem stXover_none (mac : MacFn) (cfg : RCfg) (now : Nat) (c : Cursor) (p : Bool)
    (h : (c.isXover && !p) = false) : stXover mac cfg now ⟨c, p⟩ = .ok ⟨c, p, false⟩ := by
  unfold stXover
  simp only [h, Bool.false_eq_true, if_false]

/-- the egress interface belongs to a sibling router: the packet is handed over as it is -/
theorem stEgress_handover (cfg : RCfg) (arr : Arrival) (x : StX) (eg : Iface)
    (heg : egressIface cfg (egressOf x.c) = some eg) (hown : (eg.owner == cfg.self) = false)
    (h1 : (arr.ifid == 0) = false)
    (h2 : (!x.xover && arr.ifid != 0 && !ltSame (ingressLT cfg arr.ifid) eg.lt) = false)
    (h3 : (x.xover && !ltXover (ingressLT cfg arr.ifid) eg.lt) = false) :
    stEgress cfg arr x = .forward (egressOf x.c) x.c := by
  unfold stEgress
  simp only [heg, hown, h1, h2, h3, Bool.false_and, Bool.and_false, Bool.false_eq_true, if_false]

/-- the egress interface belongs to this router: egress processing, the packet leaves the AS -/
theorem stEgress_own (cfg : RCfg) (arr : Arrival) (x : StX) (eg : Iface) (c' : Cursor)
    (heg : egressIface cfg (egressOf x.c) = some eg) (hown : (eg.owner == cfg.self) = true)
    (h2 : (!x.xover && arr.ifid != 0 && !ltSame (ingressLT cfg arr.ifid) eg.lt) = false)
    (h3 : (x.xover && !ltXover (ingressLT cfg arr.ifid) eg.lt) = false)
    (hal : (if x.c.info.consDir then x.c.cur.egAlert else x.c.cur.inAlert) = false)
    (hup : eg.up = true) (hinc : (egUpd x.c x.peering).incPath = some c') :
    stEgress cfg arr x = .forward (egressOf x.c) c' := by
  unfold stEgress
  simp only [heg, hown, h2, h3, hal, hup, hinc, Bool.not_true, Bool.and_false, Bool.false_and,
    Bool.false_eq_true, if_false, if_true]

/-- the ingress stage for a packet handed over by the sibling router `k` -/
theorem stIngress_pass_sibling (mac : MacFn) (cfg : RCfg) (now k : Nat) (sl : Bool)
    (c : Cursor) (p : Bool) (fi : Iface)
    (hsing : (!c.info.peer && c.hasSingleton) = false)
    (hp : determinePeer c = some p)
    (hexp : expired now c.info.ts c.cur.exp = false)
    (hnf : c.isFirstHop = false)
    (hfi : cfg.iface (ingressInterface c p) = some fi) (hk : fi.owner = k) (hks : k ≠ cfg.self)
    (hmac : macOk mac cfg.key c.info c.cur = true) :
    stIngress mac cfg now (.sibling k) sl false c = .ok ⟨c, p⟩ := by
  unfold stIngress
  rw [hsing, hp]
  simp only [Bool.false_eq_true, if_false]
  rw [ingUpd_internal c (.sibling k) p rfl]
  unfold stChecks
  rw [hexp, hmac]
  simp [Arrival.ifid, hnf, hfi, hk, hks]

end Scion.Net
