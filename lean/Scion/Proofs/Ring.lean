import Scion.Model.Ring
/-! Lemmas for C48: the slice operations of `Ring.write`/`Ring.read`, the representation
invariant and the refinement of the abstract bounded FIFO. Core Lean only. -/
namespace Scion.Ring

theorem length_copyAt (dst : List Cell) (off : Nat) (src : List Cell) :
    (copyAt dst off src).length = dst.length := by simp [copyAt]

theorem length_clearAt (buf : List Cell) (a k : Nat) : (clearAt buf a k).length = buf.length := by
  simp [clearAt]

theorem getElem?_copyAt (dst : List Cell) (off : Nat) (src : List Cell) (p : Nat) :
    (copyAt dst off src)[p]? = (dst[p]?).map (copyCell off src p) := by
  simp [copyAt, List.getElem?_mapIdx]

theorem getElem?_clearAt (buf : List Cell) (a k p : Nat) :
    (clearAt buf a k)[p]? = (buf[p]?).map (clearCell a k p) := by
  simp [clearAt, List.getElem?_mapIdx]

/-- inside the copied range -/
theorem copyAt_hit (dst : List Cell) (off : Nat) (src : List Cell) (p : Nat) (v : Cell)
    (hp : p < dst.length) (ho : off ≤ p) (hs : src[p - off]? = some v) :
    (copyAt dst off src)[p]? = some v := by
  rw [getElem?_copyAt, List.getElem?_eq_getElem hp]
  simp [copyCell, ho, hs]

/-- outside the copied range -/
theorem copyAt_miss (dst : List Cell) (off : Nat) (src : List Cell) (p : Nat)
    (h : p < off ∨ src.length ≤ p - off) : (copyAt dst off src)[p]? = dst[p]? := by
  rw [getElem?_copyAt]
  cases hd : dst[p]? with
  | none => rfl
  | some x =>
    simp only [Option.map_some, copyCell]
    rcases h with h | h
    · rw [if_neg (by omega)]
    · have : src[p - off]? = none := List.getElem?_eq_none h
      split
      · rw [this]
      · rfl

theorem clearAt_hit (buf : List Cell) (a k p : Nat) (hp : p < buf.length) (h : a ≤ p ∧ p < a + k) :
    (clearAt buf a k)[p]? = some none := by
  rw [getElem?_clearAt, List.getElem?_eq_getElem hp]
  simp [clearCell, h]

theorem clearAt_miss (buf : List Cell) (a k p : Nat) (h : p < a ∨ a + k ≤ p) :
    (clearAt buf a k)[p]? = buf[p]? := by
  rw [getElem?_clearAt]
  cases hd : buf[p]? with
  | none => rfl
  | some x =>
    simp only [Option.map_some, clearCell]
    rw [if_neg (by omega)]

theorem length_bufWrite (buf : List Cell) (w : Nat) (es : List Nat) :
    (bufWrite buf w es).1.length = buf.length := by
  unfold bufWrite
  dsimp only
  split <;> simp [length_copyAt]

/-- cells touched by `Ring.write` of `n` entries -/
def touched (cap w n p : Nat) : Prop :=
  (w ≤ p ∧ p < w + n ∧ p < cap) ∨ (cap - w < n ∧ p < n - (cap - w))

theorem bufWrite_miss (buf : List Cell) (w : Nat) (es : List Nat) (p : Nat)
    (h : ¬ touched buf.length w es.length p) : (bufWrite buf w es).1[p]? = buf[p]? := by
  unfold touched at h
  unfold bufWrite copyN
  dsimp only
  by_cases hp : p < buf.length
  · split
    · rw [copyAt_miss _ _ _ _ (by simp only [List.length_map, List.length_drop]; omega)]
      rw [copyAt_miss _ _ _ _ (by simp only [List.length_map]; omega)]
    · rw [copyAt_miss _ _ _ _ (by simp only [List.length_map]; omega)]
  · have hn : buf[p]? = none := List.getElem?_eq_none (by omega)
    split
    · rw [hn]; apply List.getElem?_eq_none; simp only [length_copyAt]; omega
    · rw [hn]; apply List.getElem?_eq_none; simp only [length_copyAt]; omega

theorem bufWrite_hit (buf : List Cell) (w : Nat) (es : List Nat) (j : Nat)
    (hw : w ≤ buf.length) (hl : es.length ≤ buf.length) (hj : j < es.length) :
    (bufWrite buf w es).1[phys buf.length w j]? = some (some es[j]) := by
  unfold bufWrite copyN phys
  dsimp only
  split
  · -- wrap-around
    split
    · -- first part: written by the first copy, not overwritten by the second
      rw [copyAt_miss _ _ _ _ (by simp only [List.length_map, List.length_drop]; omega)]
      apply copyAt_hit _ _ _ _ _ (by omega) (by omega)
      simp only [List.getElem?_map]
      have : w + j - w = j := by omega
      rw [this, List.getElem?_eq_getElem hj]; rfl
    · apply copyAt_hit _ _ _ _ _ (by simp only [length_copyAt]; omega) (by omega)
      simp only [List.getElem?_map, List.getElem?_drop]
      have : min (buf.length - w) es.length + (w + j - buf.length - 0) = j := by omega
      rw [this, List.getElem?_eq_getElem hj]; rfl
  · split
    · apply copyAt_hit _ _ _ _ _ (by omega) (by omega)
      simp only [List.getElem?_map]
      have : w + j - w = j := by omega
      rw [this, List.getElem?_eq_getElem hj]; rfl
    · omega

theorem bufWrite_idx (buf : List Cell) (w : Nat) (es : List Nat) (hl : es.length ≤ buf.length) :
    (bufWrite buf w es).2 =
      if buf.length - w < es.length then es.length - (buf.length - w) else w + es.length := by
  unfold bufWrite copyN
  dsimp only
  simp only [Nat.min_def]
  repeat' split
  all_goals omega

theorem length_bufRead (buf : List Cell) (r len : Nat) :
    (bufRead buf r len).1.length = buf.length := by
  unfold bufRead
  dsimp only
  split <;> simp [length_clearAt]

theorem bufRead_miss (buf : List Cell) (r len p : Nat)
    (h : ¬ touched buf.length r len p) : (bufRead buf r len).1[p]? = buf[p]? := by
  unfold touched at h
  unfold bufRead copyN
  dsimp only
  split
  · rw [clearAt_miss _ _ _ _ (by omega), clearAt_miss _ _ _ _ (by omega)]
  · rw [clearAt_miss _ _ _ _ (by omega)]

theorem bufRead_idx (buf : List Cell) (r len : Nat) (hl : len ≤ buf.length) :
    (bufRead buf r len).2.2 =
      if buf.length - r < len then len - (buf.length - r) else r + len := by
  unfold bufRead
  dsimp only
  by_cases h : buf.length - r < len
  · have e1 : copyN buf.length r len = buf.length - r := by
      unfold copyN; exact Nat.min_eq_left (by omega)
    rw [e1, if_pos h, if_pos h]
    show copyN buf.length 0 (len - (buf.length - r)) = _
    unfold copyN; rw [Nat.min_eq_right (by omega)]
  · have e1 : copyN buf.length r len = len := by
      unfold copyN; exact Nat.min_eq_right (by omega)
    rw [e1, if_neg (by omega), if_neg h]

theorem bufRead_out_length (buf : List Cell) (r len : Nat) (hr : r ≤ buf.length)
    (hl : len ≤ buf.length) : (bufRead buf r len).2.1.length = len := by
  unfold bufRead copyN
  dsimp only
  split
  · simp only [List.length_append, List.length_take, List.length_drop, length_clearAt]; omega
  · simp only [List.length_take, List.length_drop]; omega

theorem bufRead_out_get (buf : List Cell) (r len j : Nat) (hr : r ≤ buf.length)
    (hl : len ≤ buf.length) (hj : j < len) :
    (bufRead buf r len).2.1[j]? = some ((buf[phys buf.length r j]?).join) := by
  unfold bufRead copyN phys
  dsimp only
  split
  · -- wrap-around
    split
    · rw [List.getElem?_append_left (by simp only [List.length_take, List.length_drop]; omega)]
      rw [List.getElem?_take_of_lt hj, List.getElem?_drop]
      rw [List.getElem?_eq_getElem (by omega)]; rfl
    · rw [List.getElem?_append_right (by simp only [List.length_take, List.length_drop]; omega)]
      simp only [List.length_take, List.length_drop]
      have e1 : j - min len (buf.length - r) = r + j - buf.length := by omega
      rw [e1, List.getElem?_take_of_lt (by omega), clearAt_miss _ _ _ _ (by omega)]
      rw [List.getElem?_eq_getElem (by omega)]; rfl
  · split
    · rw [List.getElem?_take_of_lt hj, List.getElem?_drop]
      rw [List.getElem?_eq_getElem (by omega)]; rfl
    · omega

/-- the representation invariant of `Ring` -/
structure Inv (s : State) : Prop where
  cap_pos : 0 < s.cap
  w_le : s.w ≤ s.cap
  r_le : s.r ≤ s.cap
  sum : s.writable + s.readable = s.cap
  win : s.r + s.readable = s.w ∨ s.r + s.readable = s.w + s.cap

theorem length_abs (s : State) : (abs s).length = s.readable := by simp [abs]

theorem getElem?_abs (s : State) (j : Nat) (hj : j < s.readable) :
    (abs s)[j]? = some ((s.buf[phys s.cap s.r j]?).join) := by
  simp [abs, List.getElem?_map, List.getElem?_range hj]

theorem abs_write (s : State) (es : List Nat) (w' wr' : Nat) (hI : Inv s)
    (hn : es.length ≤ s.writable) :
    abs { s with buf := (bufWrite s.buf s.w es).1, w := w', writable := wr',
                 readable := s.readable + es.length } = abs s ++ es.map some := by
  obtain ⟨hc, hw, hr, hsum, hwin⟩ := hI
  unfold State.cap at hc hw hr hsum hwin
  apply List.ext_getElem?
  intro j
  by_cases h1 : j < s.readable
  · rw [getElem?_abs _ _ (by dsimp only; omega), List.getElem?_append_left (by rw [length_abs]; exact h1),
      getElem?_abs _ _ h1]
    dsimp only [State.cap]
    rw [length_bufWrite, bufWrite_miss]
    unfold touched phys
    split <;> omega
  · by_cases h2 : j < s.readable + es.length
    · rw [getElem?_abs _ _ (by dsimp only; omega),
        List.getElem?_append_right (by rw [length_abs]; omega), length_abs]
      dsimp only [State.cap]
      rw [length_bufWrite]
      have hp : phys s.buf.length s.r j = phys s.buf.length s.w (j - s.readable) := by
        unfold phys; split <;> split <;> omega
      rw [hp, bufWrite_hit _ _ _ _ hw (by omega) (by omega)]
      simp only [Option.join_some, List.getElem?_map]
      rw [List.getElem?_eq_getElem (by omega)]; rfl
    · rw [List.getElem?_eq_none (by rw [length_abs]; dsimp only; omega),
        List.getElem?_eq_none (by rw [List.length_append, length_abs, List.length_map]; omega)]

theorem abs_read (s : State) (len wr' : Nat) (hI : Inv s) (hn : len ≤ s.readable) :
    abs { s with buf := (bufRead s.buf s.r len).1, r := (bufRead s.buf s.r len).2.2,
                 writable := wr', readable := s.readable - len } = (abs s).drop len := by
  obtain ⟨hc, hw, hr, hsum, hwin⟩ := hI
  unfold State.cap at hc hw hr hsum hwin
  apply List.ext_getElem?
  intro j
  rw [List.getElem?_drop]
  by_cases h1 : j < s.readable - len
  · rw [getElem?_abs _ _ (by dsimp only; omega), getElem?_abs _ _ (by omega)]
    dsimp only [State.cap]
    rw [length_bufRead, bufRead_idx _ _ _ (by omega)]
    have hp : phys s.buf.length (if s.buf.length - s.r < len then len - (s.buf.length - s.r) else s.r + len) j
        = phys s.buf.length s.r (len + j) := by
      unfold phys; split <;> split <;> split <;> omega
    rw [hp, bufRead_miss]
    unfold touched phys
    split <;> omega
  · rw [List.getElem?_eq_none (by rw [length_abs]; dsimp only; omega),
      List.getElem?_eq_none (by rw [length_abs]; omega)]

theorem out_read (s : State) (len : Nat) (hI : Inv s) (hn : len ≤ s.readable) :
    (bufRead s.buf s.r len).2.1 = (abs s).take len := by
  obtain ⟨hc, hw, hr, hsum, hwin⟩ := hI
  unfold State.cap at hc hw hr hsum hwin
  apply List.ext_getElem?
  intro j
  by_cases h1 : j < len
  · rw [bufRead_out_get _ _ _ _ hr (by omega) h1, List.getElem?_take_of_lt h1,
      getElem?_abs _ _ (by omega)]
    rfl
  · rw [List.getElem?_eq_none (by rw [bufRead_out_length _ _ _ hr (by omega)]; omega),
      List.getElem?_eq_none (by rw [List.length_take, length_abs]; omega)]

theorem inv_newEmpty (count : Nat) (h : 0 < count) : Inv (newEmpty count) := by
  constructor <;> simp [newEmpty, State.cap] <;> omega

theorem inv_newFull (es : List Nat) (h : es ≠ []) : Inv (newFull es) := by
  have : 0 < es.length := List.length_pos_iff.mpr h
  constructor <;> simp [newFull, State.cap] <;> omega

theorem write_inv (s : State) (es : List Nat) (b : Bool) (s' : State) (n : Int)
    (h : write s es b = some (s', n)) (hI : Inv s) : Inv s' := by
  unfold write at h
  split at h
  · split at h
    · cases h
    · cases h; exact hI
  · split at h
    · cases h; exact hI
    · cases h
      obtain ⟨hc, hw, hr, hsum, hwin⟩ := hI
      unfold State.cap at hc hw hr hsum hwin
      have hl : (es.take (min s.writable es.length)).length = min s.writable es.length := by
        rw [List.length_take]; omega
      have hle : min s.writable es.length ≤ s.writable := Nat.min_le_left _ _
      constructor <;> dsimp only [State.cap] <;> rw [length_bufWrite]
      · exact hc
      · rw [bufWrite_idx _ _ _ (by omega), hl]; split <;> omega
      · exact hr
      · omega
      · rw [bufWrite_idx _ _ _ (by omega), hl]; split <;> omega

theorem read_inv (s : State) (len : Nat) (b : Bool) (s' : State) (n : Int) (out : List Cell)
    (h : read s len b = some (s', n, out)) (hI : Inv s) : Inv s' := by
  unfold read at h
  split at h
  · split at h
    · cases h
    · cases h; exact hI
  · split at h
    · cases h; exact hI
    · cases h
      obtain ⟨hc, hw, hr, hsum, hwin⟩ := hI
      unfold State.cap at hc hw hr hsum hwin
      have hle : min s.readable len ≤ s.readable := Nat.min_le_left _ _
      constructor <;> dsimp only [State.cap] <;> rw [length_bufRead]
      · exact hc
      · exact hw
      · rw [bufRead_idx _ _ _ (by omega)]; split <;> omega
      · omega
      · rw [bufRead_idx _ _ _ (by omega)]; split <;> omega

theorem close_inv (s : State) (hI : Inv s) : Inv (close s) := by
  obtain ⟨hc, hw, hr, hsum, hwin⟩ := hI
  exact ⟨hc, hw, hr, hsum, hwin⟩

theorem write_refines (s : State) (es : List Nat) (b : Bool) (hI : Inv s) :
    (write s es b).map (fun p => (absF p.1, p.2)) = (absF s).write es b := by
  have hsp : s.cap - (abs s).length = s.writable := by
    rw [length_abs]; have := hI.sum; omega
  unfold write Fifo.write absF
  dsimp only
  rw [hsp]
  by_cases c1 : 0 < es.length ∧ s.writable = 0 ∧ s.closed = false
  · rw [if_pos c1, if_pos c1]
    cases b <;> rfl
  · rw [if_neg c1, if_neg c1]
    by_cases c2 : s.closed = true
    · rw [if_pos c2, if_pos c2]; rfl
    · rw [if_neg c2, if_neg c2]
      simp only [Option.map_some]
      have hl : (es.take (min s.writable es.length)).length = min s.writable es.length := by
        rw [List.length_take]; omega
      have ha := abs_write s (es.take (min s.writable es.length))
        (bufWrite s.buf s.w (es.take (min s.writable es.length))).2
        (s.writable - min s.writable es.length) hI (by rw [hl]; exact Nat.min_le_left _ _)
      rw [hl] at ha
      rw [ha]
      congr 3
      dsimp only [State.cap]
      rw [length_bufWrite]

theorem read_refines (s : State) (len : Nat) (b : Bool) (hI : Inv s) :
    (read s len b).map (fun p => (absF p.1, p.2.1, p.2.2)) = (absF s).read len b := by
  unfold read Fifo.read absF
  dsimp only
  rw [length_abs]
  by_cases c1 : 0 < len ∧ s.readable = 0 ∧ s.closed = false
  · rw [if_pos c1, if_pos c1]
    cases b <;> rfl
  · rw [if_neg c1, if_neg c1]
    by_cases c2 : s.closed = true ∧ s.readable = 0
    · rw [if_pos c2, if_pos c2]; rfl
    · rw [if_neg c2, if_neg c2]
      simp only [Option.map_some]
      have hle : min s.readable len ≤ s.readable := Nat.min_le_left _ _
      rw [abs_read s _ (s.writable + min s.readable len) hI hle, out_read s _ hI hle]
      congr 3
      dsimp only [State.cap]
      rw [length_bufRead]

theorem close_refines (s : State) : absF (close s) = (absF s).close := rfl


/-! ### histories -/

theorem step_inv (s : State) (o : Op) (s' : State) (out : Out)
    (h : step s o = some (s', out)) (hI : Inv s) : Inv s' := by
  cases o with
  | write es b =>
    simp only [step] at h
    cases hw : write s es b with
    | none => rw [hw] at h; cases h
    | some p =>
      rw [hw] at h; cases h
      exact write_inv s es b p.1 p.2 hw hI
  | read len b =>
    simp only [step] at h
    cases hr : read s len b with
    | none => rw [hr] at h; cases h
    | some p =>
      rw [hr] at h; cases h
      exact read_inv s len b p.1 p.2.1 p.2.2 hr hI
  | close =>
    simp only [step] at h; cases h
    exact close_inv s hI

theorem step_refines (s : State) (o : Op) (hI : Inv s) :
    (step s o).map (fun p => (absF p.1, p.2)) = (absF s).step o := by
  cases o with
  | write es b =>
    simp only [step, Fifo.step]
    rw [← write_refines s es b hI]
    cases write s es b <;> rfl
  | read len b =>
    simp only [step, Fifo.step]
    rw [← read_refines s len b hI]
    cases read s len b <;> rfl
  | close => rfl

theorem run_inv (os : List Op) : ∀ (s s' : State) (outs : List Out),
    runOps s os = some (s', outs) → Inv s → Inv s' := by
  induction os with
  | nil => intro s s' outs h hI; unfold runOps at h; cases h; exact hI
  | cons o os ih =>
    intro s s' outs h hI
    unfold runOps at h
    cases hs : step s o with
    | none => rw [hs] at h; cases h
    | some p =>
      rw [hs] at h
      dsimp only at h
      cases hr : runOps p.1 os with
      | none => rw [hr] at h; cases h
      | some q =>
        rw [hr] at h; cases h
        exact ih p.1 q.1 q.2 hr (step_inv s o p.1 p.2 hs hI)

theorem run_refines (os : List Op) : ∀ (s : State), Inv s →
    (runOps s os).map (fun p => (absF p.1, p.2)) = (absF s).runOps os := by
  induction os with
  | nil => intro s _; rfl
  | cons o os ih =>
    intro s hI
    unfold runOps Fifo.runOps
    have hs := step_refines s o hI
    cases h1 : step s o with
    | none =>
      rw [h1] at hs
      simp only [Option.map_none] at hs
      rw [← hs]; rfl
    | some p =>
      rw [h1] at hs
      simp only [Option.map_some] at hs
      rw [← hs]
      dsimp only
      have hi := ih p.1 (step_inv s o p.1 p.2 h1 hI)
      rw [← hi]
      cases runOps p.1 os <;> rfl

/-! ### cells outside the live window are nil -/

/-- every cell that is not one of the `readable` live entries starting at `readIndex` is nil
(`Ring.read` removes the references it hands out) -/
def Clean (s : State) : Prop :=
  ∀ p, p < s.cap → ¬ touched s.cap s.r s.readable p → s.buf[p]? = some none

theorem bufRead_hit (buf : List Cell) (r len p : Nat) (hp : p < buf.length)
    (h : touched buf.length r len p) : (bufRead buf r len).1[p]? = some none := by
  unfold touched at h
  unfold bufRead copyN
  dsimp only
  split
  · -- wrap-around: cleared by the first or by the second loop
    by_cases h2 : p < min (buf.length - 0) (len - min (buf.length - r) len)
    · exact clearAt_hit _ _ _ _ (by rw [length_clearAt]; exact hp) ⟨by omega, by omega⟩
    · rw [clearAt_miss _ _ _ _ (by omega)]
      exact clearAt_hit _ _ _ _ hp (by omega)
  · exact clearAt_hit _ _ _ _ hp (by omega)

theorem clean_newEmpty (count : Nat) : Clean (newEmpty count) := by
  intro p hp _
  simp only [newEmpty, State.cap, List.length_replicate] at hp ⊢
  rw [List.getElem?_replicate]
  simp [hp]

theorem clean_newFull (es : List Nat) : Clean (newFull es) := by
  intro p hp hn
  exfalso
  simp only [newFull, State.cap, List.length_map] at hp hn
  apply hn
  unfold touched
  omega

theorem write_clean (s : State) (es : List Nat) (b : Bool) (s' : State) (n : Int)
    (h : write s es b = some (s', n)) (hI : Inv s) (hC : Clean s) : Clean s' := by
  unfold write at h
  split at h
  · split at h
    · cases h
    · cases h; exact hC
  · split at h
    · cases h; exact hC
    · cases h
      obtain ⟨hc, hw, hr, hsum, hwin⟩ := hI
      unfold State.cap at hc hw hr hsum hwin
      have hl : (es.take (min s.writable es.length)).length = min s.writable es.length := by
        rw [List.length_take]; omega
      have hle : min s.writable es.length ≤ s.writable := Nat.min_le_left _ _
      intro p hp hn
      dsimp only [State.cap] at hp hn ⊢
      rw [length_bufWrite] at hp hn
      generalize min s.writable es.length = m at *
      have h1 : ¬ touched s.buf.length s.w (es.take m).length p := by
        rw [hl]; unfold touched at hn ⊢; omega
      have h2 : ¬ touched s.buf.length s.r s.readable p := by
        unfold touched at hn ⊢; omega
      rw [bufWrite_miss _ _ _ _ h1]
      exact hC p hp h2

theorem read_clean (s : State) (len : Nat) (b : Bool) (s' : State) (n : Int) (out : List Cell)
    (h : read s len b = some (s', n, out)) (hI : Inv s) (hC : Clean s) : Clean s' := by
  unfold read at h
  split at h
  · split at h
    · cases h
    · cases h; exact hC
  · split at h
    · cases h; exact hC
    · cases h
      obtain ⟨hc, hw, hr, hsum, hwin⟩ := hI
      unfold State.cap at hc hw hr hsum hwin
      have hle : min s.readable len ≤ s.readable := Nat.min_le_left _ _
      intro p hp hn
      dsimp only [State.cap] at hp hn ⊢
      rw [length_bufRead] at hp hn
      rw [bufRead_idx _ _ _ (by omega)] at hn
      generalize min s.readable len = m at *
      by_cases ht : touched s.buf.length s.r m p
      · exact bufRead_hit _ _ _ _ hp ht
      · rw [bufRead_miss _ _ _ _ ht]
        apply hC p hp
        show ¬ touched s.buf.length s.r s.readable p
        unfold touched at hn ht ⊢
        split at hn <;> omega

theorem close_clean (s : State) (hC : Clean s) : Clean (close s) := hC

theorem step_clean (s : State) (o : Op) (s' : State) (out : Out)
    (h : step s o = some (s', out)) (hI : Inv s) (hC : Clean s) : Clean s' := by
  cases o with
  | write es b =>
    simp only [step] at h
    cases hw : write s es b with
    | none => rw [hw] at h; cases h
    | some p =>
      rw [hw] at h; cases h
      exact write_clean s es b p.1 p.2 hw hI hC
  | read len b =>
    simp only [step] at h
    cases hr : read s len b with
    | none => rw [hr] at h; cases h
    | some p =>
      rw [hr] at h; cases h
      exact read_clean s len b p.1 p.2.1 p.2.2 hr hI hC
  | close =>
    simp only [step] at h; cases h
    exact hC

end Scion.Ring
