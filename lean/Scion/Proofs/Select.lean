import Scion.Model.Select
/-! Lemmas about the loop of `selectMostDiverse` (fold invariant). -/
namespace Scion.Select

/-- `x` is strictly preferred to `y` w.r.t. `best`: more diverse, or equally diverse and shorter -/
def Better (best x y : Beacon) : Prop :=
  diversity best x > diversity best y ∨ (diversity best x = diversity best y ∧ x.len < y.len)

instance (best x y : Beacon) : Decidable (Better best x y) := by unfold Better; infer_instance

/-- `x` would replace the loop state `a` -/
def BetterAcc (best x : Beacon) (a : Acc) : Prop :=
  (diversity best x : Int) > a.maxDiv ∨ ((diversity best x : Int) = a.maxDiv ∧ a.minLen > x.len)

instance (best x : Beacon) (a : Acc) : Decidable (BetterAcc best x a) := by
  unfold BetterAcc; infer_instance

def accOf (best x : Beacon) : Acc := ⟨x, x.len, diversity best x⟩

theorem mdStep_eq (best : Beacon) (a : Acc) (b : Beacon) :
    mdStep best a b = if BetterAcc best b a then accOf best b else a := by
  unfold mdStep BetterAcc accOf
  rfl

theorem betterAcc_accOf (best x y : Beacon) : BetterAcc best x (accOf best y) ↔ Better best x y := by
  unfold BetterAcc accOf Better
  simp only
  omega

theorem better_trans_acc {best x b : Beacon} {a : Acc}
    (hx : Better best x b) (hb : BetterAcc best b a) : BetterAcc best x a := by
  unfold Better at hx
  unfold BetterAcc at *
  omega

theorem better_of_acc {best x b : Beacon} {a : Acc}
    (hx : BetterAcc best x a) (hb : ¬ BetterAcc best b a) : Better best x b := by
  unfold Better
  unfold BetterAcc at *
  omega

/-- The loop either keeps its state (no element beats it) or ends with the *first* element that
is preferred to the initial state, to everything before it, and is not beaten by anything after
it. -/
theorem fold_spec (best : Beacon) (bs : List Beacon) (a : Acc) :
    (bs.foldl (mdStep best) a = a ∧ ∀ b ∈ bs, ¬ BetterAcc best b a) ∨
    (∃ pre x post, bs = pre ++ x :: post ∧ bs.foldl (mdStep best) a = accOf best x ∧
      BetterAcc best x a ∧ (∀ p ∈ pre, Better best x p) ∧ (∀ q ∈ post, ¬ Better best q x)) := by
  induction bs generalizing a with
  | nil => left; simp
  | cons b bs ih =>
    rw [List.foldl_cons, mdStep_eq]
    by_cases hb : BetterAcc best b a
    · rw [if_pos hb]
      right
      rcases ih (accOf best b) with ⟨he, hall⟩ | ⟨pre, x, post, hsplit, he, hx, hpre, hpost⟩
      · refine ⟨[], b, bs, by simp, he, hb, by simp, ?_⟩
        intro q hq hbq
        exact hall q hq ((betterAcc_accOf best q b).2 hbq)
      · have hxb : Better best x b := (betterAcc_accOf best x b).1 hx
        refine ⟨b :: pre, x, post, by simp [hsplit], he, better_trans_acc hxb hb, ?_, hpost⟩
        intro p hp
        rcases List.mem_cons.1 hp with rfl | hp
        · exact hxb
        · exact hpre p hp
    · rw [if_neg hb]
      rcases ih a with ⟨he, hall⟩ | ⟨pre, x, post, hsplit, he, hx, hpre, hpost⟩
      · left
        refine ⟨he, ?_⟩
        intro c hc
        rcases List.mem_cons.1 hc with rfl | hc
        · exact hb
        · exact hall c hc
      · right
        refine ⟨b :: pre, x, post, by simp [hsplit], he, hx, ?_, hpost⟩
        intro p hp
        rcases List.mem_cons.1 hp with rfl | hp
        · exact better_of_acc hx hb
        · exact hpre p hp

theorem betterAcc_init (best x : Beacon) : BetterAcc best x Acc.init := by
  unfold BetterAcc Acc.init
  simp only
  omega

/-- `selectMostDiverse` on a non-empty list: the first maximum of the preference order. -/
theorem selectMostDiverse_spec (best : Beacon) (bs : List Beacon) (hne : bs ≠ []) :
    ∃ pre x post, bs = pre ++ x :: post ∧
      selectMostDiverse bs best = (x, (diversity best x : Int)) ∧
      (∀ p ∈ pre, Better best x p) ∧ (∀ q ∈ post, ¬ Better best q x) := by
  cases bs with
  | nil => exact absurd rfl hne
  | cons b rest =>
    unfold selectMostDiverse
    rcases fold_spec best (b :: rest) Acc.init with ⟨_, hall⟩ | ⟨pre, x, post, hsplit, he, _, hpre, hpost⟩
    · exact absurd (betterAcc_init best b) (hall b (by simp))
    · refine ⟨pre, x, post, hsplit, ?_, hpre, hpost⟩
      simp only [he, accOf]

theorem selectMostDiverse_nil (best : Beacon) : selectMostDiverse [] best = (Beacon.zero, -1) := rfl

end Scion.Select
