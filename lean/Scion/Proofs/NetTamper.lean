import Scion.Proofs.NetSpec
/-! Run of a packet along the first part of a segment, whatever the hop fields further on contain
(used by C04: a tampered hop field is reached exactly as the genuine one would be).  Core Lean only. -/
namespace Scion.Net
open Scion.SegID (updateSegID extractBeta xorAll)

theorem fl_take (mac : MacFn) (net : Net) (core cd : Bool) (ts : Nat) (l1 : List ASE) :
    ∀ (l2 : List ASE) (seg : Nat), l1 ≠ [] → FL mac net core cd ts seg (l1 ++ l2) →
      FL mac net core cd ts seg l1 := by
  induction l1 with
  | nil => intro _ _ h; exact absurd rfl h
  | cons x xs ih =>
    intro l2 seg _ hc
    cases xs with
    | nil =>
      cases l2 with
      | nil => simpa using hc
      | cons y ys => simp only [List.cons_append, List.nil_append, FL] at hc ⊢; exact hc.1
    | cons y ys =>
      simp only [List.cons_append, FL] at hc ⊢
      exact ⟨hc.1, hc.2.1, ih l2 _ (by simp) hc.2.2⟩

section
variable (mac : MacFn) (net : Net) (now src dst : Nat) (core cd : Bool) (ts : Nat)
variable (hUp : AllUp net) (hSR : SingleRouter net)
include hUp hSR

/-- from the host to the arrival at the AS of `ek`, the `(|m1|+1)`-th AS after the source; the
    hop field `h'` the packet carries for that AS and everything behind it (`tlh`) are arbitrary -/
theorem segment_prefix_run (seg0 : Nat) (e0 : ASE) (m1 : List ASE) (ek : ASE) (h' : Hop) (tlh : List Hop)
    (hFL : FL mac net core cd ts seg0 (e0 :: (m1 ++ [ek])))
    (hsrc : src = e0.ia) (hsd : src ≠ dst)
    (hmid : ∀ e ∈ m1, e.ia ≠ src ∧ e.ia ≠ dst ∧ expired now ts e.hop.exp = false)
    (hexp0 : expired now ts e0.hop.exp = false) (fuel : Nat) :
    run mac net now src dst (fuel + 1 + m1.length) src 0 .host
        ⟨[], ⟨cd, false, usedAt cd seg0 e0, ts⟩, [], hopOf e0.hop,
          (m1.map fun e => hopOf e.hop) ++ h' :: tlh, []⟩ [] =
      run mac net now src dst fuel ek.ia 0 (.ext (inF cd ek))
        ⟨[], ⟨cd, false, extractBeta (updateSegID seg0 (pfx e0.hop.mac)) (sig m1), ts⟩,
          hopOf e0.hop :: m1.map (fun e => hopOf e.hop), h', tlh, []⟩
        ((e0.ia, outF cd e0) :: ((firstOf m1 ek).ia, inF cd (firstOf m1 ek)) :: fTrace cd m1 ek) := by
  have hne : m1 ++ [ek] = firstOf m1 ek :: (m1 ++ [ek]).tail := by
    cases m1 <;> simp [firstOf]
  have hFL' := hFL
  rw [hne] at hFL'
  simp only [FL] at hFL'
  obtain ⟨hm, ⟨f, g, hf, hout, hfn, hfi, hg, _, _, _, _, _⟩, _⟩ := hFL'
  have hstep := first_step mac net now src dst cd false ts (usedAt cd seg0 e0) (hopOf e0.hop)
    ((m1.map fun e => hopOf e.hop) ++ h' :: tlh) [] f (by simp) (by simp) (by simp) hsd
    (by rw [hsrc]; exact macOk_of_macAt mac net ts _ e0 cd false hm)
    (by simpa [hopOf] using hexp0) rfl rfl
    (by rw [hsrc, outSide_hopOf]; exact hf) (by rw [outSide_hopOf]; exact hout)
    (hUp _ _ _ hf) (hSR _ _ _ hf)
  have hf' : (net src).iface (outSide cd (hopOf e0.hop)) = some f := by
    rw [hsrc, outSide_hopOf]; exact hf
  have hg' : (net f.nbr).iface f.nbrIf = some g := by rw [hfn, hfi]; exact hg
  have h1 : fuel + 1 + m1.length = (fuel + m1.length) + 1 := by omega
  rw [h1, run_forward_ext mac net now src dst _ src 0 .host _ _ [] (outSide cd (hopOf e0.hop)) f g
    hstep hf' (hSR _ _ _ hf) hg', hSR _ _ _ hg, hfn, hfi, egSeg_usedAt]
  have hT := fl_transits mac net now src dst false core cd ts hUp hSR m1 e0 ek seg0 hFL hmid
  have hrun := run_transits hT [] [] (by simp) (by simp) (by simp) [hopOf e0.hop] h' tlh fuel
    ([] ++ [(src, outSide cd (hopOf e0.hop)), ((firstOf m1 ek).ia, inF cd (firstOf m1 ek))])
    (by simp) (by simp)
  simp only [List.length_map] at hrun
  rw [hrun]
  simp [mkCur, outSide_hopOf, hsrc]

end

end Scion.Net
