import Scion.Model.PktclsSyntax
import Scion.Proofs.Pktcls
/-! C43 helper lemmas: the lexer inverts the rendering of printed token lists
(`lex (render (print e)) = print e` for well-formed `e`). -/
namespace Scion.Proofs.PktclsLex
open Scion.Pktcls

/-! ### characters -/

theorem digitChar_facts : ∀ d, d < 10 →
    isDec (digitChar d) = true ∧ isHexC (digitChar d) = true ∧ isLetter (digitChar d) = false ∧
    isWs (digitChar d) = false ∧ (digitChar d).toNat = 48 + d ∧ digitVal (digitChar d) = some d ∧
    (digitChar d = '0' ↔ d = 0) := by decide

theorem hexChar_facts : ∀ d, d < 16 →
    isHexC (hexChar d) = true ∧ isLetter (hexChar d) = decide (10 ≤ d) ∧
    isDec (hexChar d) = decide (d < 10) ∧ isWs (hexChar d) = false ∧
    digitVal (hexChar d) = some d ∧ hexChar d ≠ '=' ∧ hexChar d ≠ '(' ∧ hexChar d ≠ ')' ∧
    hexChar d ≠ ',' ∧ hexChar d ≠ '-' ∧ hexChar d ≠ '.' ∧ hexChar d ≠ 'l' ∧
    (hexChar d = '0' ↔ d = 0) := by decide

theorem isDec_hex (c : Char) (h : isDec c = true) : isHexC c = true := by
  simp only [isDec, Bool.and_eq_true, decide_eq_true_eq] at h
  simp [isHexC, digitVal, h.1, h.2]

theorem isDec_notLetter (c : Char) (h : isDec c = true) : isLetter c = false := by
  simp only [isDec, Bool.and_eq_true, decide_eq_true_eq] at h
  simp only [isLetter, Bool.or_eq_false_iff, Bool.and_eq_false_iff, decide_eq_false_iff_not]
  omega

/-- a decimal digit is none of the characters that start a literal token -/
theorem isDec_ne (c : Char) (h : isDec c = true) :
    c ≠ 'c' ∧ c ≠ '=' ∧ c ≠ '(' ∧ c ≠ ')' ∧ c ≠ ',' ∧ c ≠ '-' ∧ c ≠ '.' ∧ c ≠ '/' ∧ c ≠ ' ' := by
  refine ⟨?_, ?_, ?_, ?_, ?_, ?_, ?_, ?_, ?_⟩ <;> (intro hc; subst hc; revert h; decide)

theorem isLetter_ne (c : Char) (h : isLetter c = true) :
    c ≠ '=' ∧ c ≠ '(' ∧ c ≠ ')' ∧ c ≠ ',' ∧ c ≠ '-' ∧ c ≠ '.' ∧ c ≠ '0' ∧ isDec c = false ∧
      isWs c = false := by
  refine ⟨?_, ?_, ?_, ?_, ?_, ?_, ?_, ?_, ?_⟩
  iterate 7 (intro hc; subst hc; revert h; decide)
  · simp only [isLetter, Bool.or_eq_true, Bool.and_eq_true, decide_eq_true_eq] at h
    simp only [isDec, Bool.and_eq_false_iff, decide_eq_false_iff_not]
    omega
  · simp only [isWs, Bool.or_eq_false_iff, beq_eq_false_iff_ne, ne_eq]
    refine ⟨⟨⟨?_, ?_⟩, ?_⟩, ?_⟩ <;> (intro hc; subst hc; revert h; decide)

/-- what may follow a number, a name or a closing token: nothing, or `,` `)` `-` -/
def Sep : List Char → Prop
  | [] => True
  | c :: _ => c = ',' ∨ c = ')' ∨ c = '-'

theorem sep_head (c : Char) (t : List Char) (h : Sep (c :: t)) :
    isDec c = false ∧ isHexC c = false ∧ isLetter c = false ∧ c ≠ '.' ∧ c ≠ 'l' ∧ c ≠ '=' := by
  rcases h with rfl | rfl | rfl <;> decide

/-! ### `takeWhile` over a run that is followed by a stopper -/

def Stops (p : Char → Bool) : List Char → Prop
  | [] => True
  | c :: _ => p c = false

theorem takeWhile_run (p : Char → Bool) (xs r : List Char) (h : ∀ x ∈ xs, p x = true)
    (hr : Stops p r) : (xs ++ r).takeWhile p = xs ∧ (xs ++ r).dropWhile p = r := by
  induction xs with
  | nil =>
    cases r with
    | nil => simp
    | cons c t => simp only [Stops] at hr; simp [List.takeWhile, List.dropWhile, hr]
  | cons x xs ih =>
    have hx := h x (by simp)
    obtain ⟨i1, i2⟩ := ih (fun y hy => h y (by simp [hy]))
    simp [List.takeWhile, List.dropWhile, hx, i1, i2]

/-- if the run already ends inside `w`, what follows `w` does not matter -/
theorem takeWhile_inside (p : Char → Bool) (w r : List Char)
    (h : (w.takeWhile p).length < w.length) : (w ++ r).takeWhile p = w.takeWhile p := by
  induction w with
  | nil => simp at h
  | cons x xs ih =>
    by_cases hx : p x = true
    · simp only [List.cons_append, List.takeWhile, hx] at h ⊢
      rw [ih (by simpa using h)]
    · simp only [Bool.not_eq_true] at hx
      simp [List.takeWhile, hx]

theorem sep_stops (r : List Char) (h : Sep r) :
    Stops isDec r ∧ Stops isHexC r ∧ Stops isLetter r := by
  cases r with
  | nil => exact ⟨trivial, trivial, trivial⟩
  | cons c t =>
    obtain ⟨h1, h2, h3, _⟩ := sep_head c t h
    exact ⟨h1, h2, h3⟩

/-! ### decimal numerals -/

theorem decDigits_lt (n : Nat) (h : n < 10) : decDigits n = [digitChar n] := by
  rw [decDigits]; simp [h]

theorem decDigits_ge (n : Nat) (h : ¬ n < 10) :
    decDigits n = decDigits (n / 10) ++ [digitChar (n % 10)] := by
  rw [decDigits]; simp [h]

theorem decDigits_dec (n : Nat) : ∀ x ∈ decDigits n, isDec x = true := by
  induction n using Nat.strongRecOn with
  | _ n ih =>
    by_cases h : n < 10
    · rw [decDigits_lt n h]
      intro x hx
      simp only [List.mem_singleton] at hx
      subst hx
      exact (digitChar_facts n h).1
    · rw [decDigits_ge n h]
      intro x hx
      rcases List.mem_append.1 hx with hx | hx
      · exact ih (n / 10) (by omega) x hx
      · simp only [List.mem_singleton] at hx
        subst hx
        exact (digitChar_facts (n % 10) (by omega)).1

theorem decValue_append (xs : List Char) (c : Char) :
    decValue (xs ++ [c]) = decValue xs * 10 + (c.toNat - 48) := by
  simp [decValue, List.foldl_append]

theorem decValue_decDigits (n : Nat) : decValue (decDigits n) = n := by
  induction n using Nat.strongRecOn with
  | _ n ih =>
    by_cases h : n < 10
    · rw [decDigits_lt n h]
      have := (digitChar_facts n h).2.2.2.2.1
      simp [decValue, this]
    · rw [decDigits_ge n h, decValue_append, ih (n / 10) (by omega)]
      have := (digitChar_facts (n % 10) (by omega)).2.2.2.2.1
      rw [this]
      omega

/-- a numeral is `0` or starts with a non-zero decimal digit -/
theorem decDigits_head (n : Nat) :
    (n = 0 ∧ decDigits n = ['0']) ∨
    (∃ c cs, decDigits n = c :: cs ∧ c ≠ '0' ∧ isDec c = true ∧ ∀ x ∈ cs, isDec x = true) := by
  induction n using Nat.strongRecOn with
  | _ n ih =>
    by_cases h : n < 10
    · by_cases h0 : n = 0
      · left; subst h0; exact ⟨rfl, by rw [decDigits_lt 0 (by omega)]; rfl⟩
      · right
        refine ⟨digitChar n, [], decDigits_lt n h, ?_, (digitChar_facts n h).1, by simp⟩
        intro hc
        exact h0 ((digitChar_facts n h).2.2.2.2.2.2.1 hc)
    · right
      rcases ih (n / 10) (by omega) with ⟨h0, _⟩ | ⟨c, cs, hc, hne, hd, hall⟩
      · omega
      · refine ⟨c, cs ++ [digitChar (n % 10)], by rw [decDigits_ge n h, hc]; rfl, hne, hd, ?_⟩
        intro x hx
        rcases List.mem_append.1 hx with hx | hx
        · exact hall x hx
        · simp only [List.mem_singleton] at hx
          subst hx
          exact (digitChar_facts (n % 10) (by omega)).1

theorem takeDigits_decDigits (n : Nat) (r : List Char) (hr : Stops isDec r) :
    takeDigits (decDigits n ++ r) = some (decDigits n, r) := by
  rcases decDigits_head n with ⟨_, h⟩ | ⟨c, cs, hc, hne, hd, hall⟩
  · rw [h]; rfl
  · rw [hc]
    obtain ⟨t1, t2⟩ := takeWhile_run isDec cs r hall hr
    simp only [List.cons_append, takeDigits, hne, if_false, hd, if_true, t1, t2]

/-- the first character of a numeral, for the literal-token test -/
theorem decDigits_cons (n : Nat) : ∃ c cs, decDigits n = c :: cs ∧ isDec c = true := by
  rcases decDigits_head n with ⟨_, h⟩ | ⟨c, cs, hc, _, hd, _⟩
  · exact ⟨'0', [], h, by decide⟩
  · exact ⟨c, cs, hc, hd⟩


/-! ### the next token -/

theorem litTok_dec (c : Char) (x : List Char) (h : isDec c = true) : litTok (c :: x) = none := by
  obtain ⟨h1, h2, h3, h4, h5, h6, _⟩ := isDec_ne c h
  simp [litTok, h1, h2, h3, h4, h5, h6]

theorem expect_ne (ch c : Char) (t : List Char) (h : c ≠ ch) : expect ch (c :: t) = none := by
  simp [expect, h]

theorem expect_sep (r : List Char) (h : Sep r) : expect '.' r = none := by
  cases r with
  | nil => rfl
  | cons c t => exact expect_ne '.' c t (sep_head c t h).2.2.2.1

/-- a number followed by a separator lexes as `DIGITS` -/
theorem nextTok_digits (n : Nat) (r : List Char) (hr : Sep r) :
    nextTok (decDigits n ++ r) = some (.digits n, r) := by
  obtain ⟨sd, sh, sl⟩ := sep_stops r hr
  obtain ⟨c, cs, hc, hd⟩ := decDigits_cons n
  have hall := decDigits_dec n
  have htd := takeDigits_decDigits n r sd
  have hlit : litTok (decDigits n ++ r) = none := by rw [hc]; exact litTok_dec c _ hd
  have hnet : takeNet (decDigits n ++ r) = none := by
    unfold takeNet; rw [htd]; simp only; rw [expect_sep r hr]
  have hhex := (takeWhile_run isHexC (decDigits n) r (fun x hx => isDec_hex x (hall x hx)) sh).1
  have halpha : (decDigits n ++ r).takeWhile isLetter = [] := by
    rw [hc]; simp [List.takeWhile, isDec_notLetter c hd]
  have hlen : 0 < (decDigits n).length := by rw [hc]; simp
  unfold nextTok
  rw [hlit, hnet]
  simp only
  unfold wordTok
  simp only [hhex, halpha, htd, List.length_nil]
  rw [if_neg (by omega), if_neg (by omega), if_pos (by omega)]
  rw [decValue_decDigits]

theorem nextTok_net (a b c d m : Nat) (r : List Char) (hr : Sep r) :
    nextTok (renderTok (.net a b c d m) ++ r) = some (.net a b c d m, r) := by
  obtain ⟨sd, _, _⟩ := sep_stops r hr
  obtain ⟨c0, cs0, hc0, hd0⟩ := decDigits_cons a
  have dot : ∀ x : List Char, Stops isDec ('.' :: x) := fun _ => (by decide : isDec '.' = false)
  have slash : ∀ x : List Char, Stops isDec ('/' :: x) := fun _ => (by decide : isDec '/' = false)
  have hlit : litTok (renderTok (.net a b c d m) ++ r) = none := by
    simp only [renderTok, hc0, List.cons_append]; exact litTok_dec c0 _ hd0
  unfold nextTok
  rw [hlit]
  simp only [renderTok, List.append_assoc, List.cons_append]
  unfold takeNet
  rw [takeDigits_decDigits a _ (dot _)]
  simp only [expect, if_true]
  rw [takeDigits_decDigits b _ (dot _)]
  simp only [expect, if_true]
  rw [takeDigits_decDigits c _ (dot _)]
  simp only [expect, if_true]
  rw [takeDigits_decDigits d _ (slash _)]
  simp only [expect, if_true]
  rw [takeDigits_decDigits m r sd]
  simp only [decValue_decDigits]

/-- `=` not followed by `0x` is the token `=` -/
theorem nextTok_eq (x : List Char) (h : ∀ t, x ≠ '0' :: 'x' :: t) :
    nextTok ('=' :: x) = some (.eq, x) := by
  unfold nextTok litTok
  have h1 : ('=' : Char) ≠ 'c' := by decide
  simp only [h1, if_false, if_true]
  cases x with
  | nil => rfl
  | cons c1 t =>
    cases t with
    | nil => rfl
    | cons c2 t' =>
      by_cases hh : c1 = '0' ∧ c2 = 'x'
      · exact absurd (by rw [hh.1, hh.2]) (h t')
      · simp [hh]

theorem decDigits_not_0x (n : Nat) (c : Char) (y t : List Char) (hc : c ≠ 'x') :
    decDigits n ++ c :: y ≠ '0' :: 'x' :: t := by
  rcases decDigits_head n with ⟨_, h⟩ | ⟨c0, cs, hc0, hne, _, _⟩
  · rw [h]; intro he; simp only [List.cons_append, List.nil_append, List.cons.injEq] at he
    exact hc he.2.1
  · rw [hc0]; intro he; simp only [List.cons_append, List.cons.injEq] at he
    exact hne he.1

/-! ### names -/

/-- a protocol name that lexes as `STRING`: letters only, not starting with `c`, not a keyword,
not made of hex letters only -/
def nameOK (w : List Char) : Bool :=
  lettersOnly w && (w.head? != some 'c') && (keyword w).isNone &&
    decide ((w.takeWhile isHexC).length < w.length)

theorem proto_names_ok : ∀ e ∈ protoTable, lettersOnly e.2 = true →
    nameOK e.2 = true ∧ protoName e.1 = e.2 := by decide

theorem wfProto_name (p : Nat) (h : wfProto p = true) : nameOK (protoName p) = true := by
  simp only [wfProto, beq_iff_eq] at h
  unfold protoNum at h
  split at h
  · rename_i e he
    simp only [Option.some.injEq] at h
    have hm := List.mem_of_find?_eq_some he
    have hp := List.find?_some he
    simp only [Bool.and_eq_true] at hp
    obtain ⟨h1, h2⟩ := proto_names_ok e hm hp.1
    rw [← h, h2]; exact h1
  · cases h

theorem nextTok_name (w r : List Char) (hw : nameOK w = true) (hr : Sep r) :
    nextTok (w ++ r) = some (.str w, r) := by
  simp only [nameOK, Bool.and_eq_true, bne_iff_ne, ne_eq, Option.isNone_iff_eq_none,
    decide_eq_true_eq, lettersOnly, Bool.not_eq_true', List.isEmpty_eq_false_iff,
    List.all_eq_true] at hw
  obtain ⟨⟨⟨⟨hne, hlet⟩, hc⟩, hkw⟩, hhex⟩ := hw
  obtain ⟨_, sh, sl⟩ := sep_stops r hr
  cases w with
  | nil => exact absurd rfl hne
  | cons c cs =>
    have hcl := hlet c (by simp)
    obtain ⟨n1, n2, n3, n4, n5, _, n0, nd, _⟩ := isLetter_ne c hcl
    have hcc : c ≠ 'c' := by intro h; subst h; simp at hc
    have hlit : litTok ((c :: cs) ++ r) = none := by
      simp [litTok, hcc, n1, n2, n3, n4, n5]
    have hnet : takeNet ((c :: cs) ++ r) = none := by
      simp [takeNet, takeDigits, n0, nd]
    have halpha := (takeWhile_run isLetter (c :: cs) r hlet sl).1
    have hhexr := takeWhile_inside isHexC (c :: cs) r hhex
    have htd : takeDigits ((c :: cs) ++ r) = none := by simp [takeDigits, n0, nd]
    unfold nextTok
    rw [hlit, hnet]
    simp only
    unfold wordTok
    simp only [hhexr, halpha, htd, hkw]
    rw [if_neg (by simp), if_pos (Or.inl hhex)]
    simp


/-! ### hexadecimal operands of `dscp=0x` / `tos=0x` -/

theorem keyword_short (w : List Char) (h : w.length < 3) : keyword w = none := by
  have hk : ∀ e ∈ kwTable, 3 ≤ e.1.length := by decide
  unfold keyword
  have : kwTable.find? (fun e => e.1 == w) = none := by
    rw [List.find?_eq_none]
    intro e he hw
    simp only [beq_iff_eq] at hw
    have := hk e he
    rw [hw] at this
    omega
  rw [this]

theorem sep_not_cls (r : List Char) (hr : Sep r) :
    (match r with
      | c1 :: c2 :: c3 :: r' => if c1 = 'l' ∧ c2 = 's' ∧ c3 = '=' then some (Tok.clsEq, r') else none
      | _ => none) = none := by
  cases r with
  | nil => rfl
  | cons c1 t =>
    have := (sep_head c1 t hr).2.2.2.2.1
    cases t with
    | nil => rfl
    | cons c2 t =>
      cases t with
      | nil => rfl
      | cons c3 t => simp [this]

/-- one hex letter (`a`–`f`) followed by a separator -/
theorem nextTok_hex1 (v : Nat) (r : List Char) (h1 : 10 ≤ v) (h2 : v < 16) (hr : Sep r) :
    nextTok ([hexChar v] ++ r) = some (.hexd [v], r) := by
  obtain ⟨fh, fl, fd, _, fv, n1, n2, n3, n4, n5, _, _, f0⟩ := hexChar_facts v h2
  obtain ⟨_, sh, sl⟩ := sep_stops r hr
  have hlet : isLetter (hexChar v) = true := by rw [fl]; simp [h1]
  have hnd : isDec (hexChar v) = false := by rw [fd]; simp; omega
  have hn0 : hexChar v ≠ '0' := fun h => by have := f0.1 h; omega
  have hlit : litTok ([hexChar v] ++ r) = none := by
    simp only [List.singleton_append, litTok, n1, n2, n3, n4, n5, if_false]
    split
    · exact sep_not_cls r hr
    · rfl
  have htd : takeDigits ([hexChar v] ++ r) = none := by simp [takeDigits, hn0, hnd]
  have hnet : takeNet ([hexChar v] ++ r) = none := by unfold takeNet; rw [htd]
  have hhex := (takeWhile_run isHexC [hexChar v] r (by simp [fh]) sh).1
  have halpha := (takeWhile_run isLetter [hexChar v] r (by simp [hlet]) sl).1
  unfold nextTok
  rw [hlit, hnet]
  simp only
  unfold wordTok
  simp only [hhex, halpha, htd, keyword_short [hexChar v] (by simp)]
  simp [fv]

/-- two hex digits, not both decimal, the first not zero, followed by a separator -/
theorem nextTok_hex2 (a b : Nat) (r : List Char) (ha1 : 1 ≤ a) (ha : a < 16) (hb : b < 16)
    (hnd : ¬ (a < 10 ∧ b < 10)) (hr : Sep r) :
    nextTok ([hexChar a, hexChar b] ++ r) = some (.hexd [a, b], r) := by
  obtain ⟨ah, al, ad, _, av, a1, a2, a3, a4, a5, _, _, a0⟩ := hexChar_facts a ha
  obtain ⟨bh, bl, bd, _, bv, _, _, _, _, _, bdot, bll, _⟩ := hexChar_facts b hb
  obtain ⟨_, sh, sl⟩ := sep_stops r hr
  have hn0 : hexChar a ≠ '0' := fun h => by have := a0.1 h; omega
  have hlit : litTok ([hexChar a, hexChar b] ++ r) = none := by
    simp only [List.cons_append, List.nil_append, litTok, a1, a2, a3, a4, a5, if_false]
    split
    · cases r with
      | nil => rfl
      | cons c1 t =>
        cases t with
        | nil => rfl
        | cons c2 t => simp [bll]
    · rfl
  have hhex := (takeWhile_run isHexC [hexChar a, hexChar b] r (by simp [ah, bh]) sh).1
  by_cases hda : a < 10
  · -- decimal digit, then a letter
    have hbl : 10 ≤ b := by omega
    have hdA : isDec (hexChar a) = true := by rw [ad]; simp [hda]
    have hdB : isDec (hexChar b) = false := by rw [bd]; simp; omega
    have hlA : isLetter (hexChar a) = false := by rw [al]; simp; omega
    have htd : takeDigits ([hexChar a, hexChar b] ++ r) = some ([hexChar a], hexChar b :: r) := by
      simp [takeDigits, hn0, hdA, List.takeWhile, List.dropWhile, hdB]
    have hnet : takeNet ([hexChar a, hexChar b] ++ r) = none := by
      unfold takeNet; rw [htd]; simp only; rw [expect_ne '.' _ _ bdot]
    have halpha : ([hexChar a, hexChar b] ++ r).takeWhile isLetter = [] := by
      simp [List.takeWhile, hlA]
    unfold nextTok
    rw [hlit, hnet]
    simp only
    unfold wordTok
    simp only [hhex, halpha, htd]
    simp [av, bv]
  · -- a letter first
    have hdA : isDec (hexChar a) = false := by rw [ad]; simp; omega
    have hlA : isLetter (hexChar a) = true := by rw [al]; simp; omega
    have htd : takeDigits ([hexChar a, hexChar b] ++ r) = none := by simp [takeDigits, hn0, hdA]
    have hnet : takeNet ([hexChar a, hexChar b] ++ r) = none := by unfold takeNet; rw [htd]
    have halen : (([hexChar a, hexChar b] ++ r).takeWhile isLetter).length ≤ 2 := by
      by_cases hlb : isLetter (hexChar b) = true
      · rw [(takeWhile_run isLetter [hexChar a, hexChar b] r (by simp [hlA, hlb]) sl).1]; simp
      · simp only [Bool.not_eq_true] at hlb
        simp [List.takeWhile, hlA, hlb]
    have hkw : keyword (([hexChar a, hexChar b] ++ r).takeWhile isLetter) = none :=
      keyword_short _ (by omega)
    unfold nextTok
    rw [hlit, hnet]
    simp only
    unfold wordTok
    simp only [hhex, htd]
    generalize ([hexChar a, hexChar b] ++ r).takeWhile isLetter = alpha at halen hkw ⊢
    simp only [hkw]
    rw [if_neg (by simp), if_neg (by simp; omega), if_neg (by simp)]
    simp [av, bv]

theorem nextTok_hexTok (v : Nat) (r : List Char) (hv : v < 256) (hr : Sep r) :
    nextTok (renderTok (hexTok v) ++ r) = some (hexTok v, r) := by
  unfold hexTok
  by_cases h16 : v < 16
  · rw [if_pos h16]
    by_cases h10 : v < 10
    · rw [if_pos h10]; exact nextTok_digits v r hr
    · rw [if_neg h10]; exact nextTok_hex1 v r (by omega) h16 hr
  · rw [if_neg h16]
    by_cases hd : v / 16 < 10 ∧ v % 16 < 10
    · rw [if_pos hd]; exact nextTok_digits _ r hr
    · rw [if_neg hd]
      exact nextTok_hex2 (v / 16) (v % 16) r (by omega) (by omega) (by omega) hd hr


/-! ### one lexer step -/

theorem lexF_nil (f : Nat) : lexF f [] = [] := by
  cases f <;> rfl

theorem lexF_step (f : Nat) (c : Char) (x : List Char) (t : Tok) (rest : List Char)
    (hws : isWs c = false) (h : nextTok (c :: x) = some (t, rest)) :
    lexF (f + 1) (c :: x) = t :: lexF f rest := by
  simp only [lexF, hws, Bool.false_eq_true, if_false, h]

theorem render_cons (t : Tok) (ts : List Tok) : render (t :: ts) = renderTok t ++ render ts := by
  simp [render]

theorem render_append (a b : List Tok) : render (a ++ b) = render a ++ render b := by
  simp [render]

theorem render_nil : render [] = [] := rfl

/-- tokens with a fixed spelling, followed by a fixed character -/
theorem kw_paren (r : List Char) :
    nextTok (['a','l','l'] ++ '(' :: r) = some (.kAll, '(' :: r) ∧
    nextTok (['a','n','y'] ++ '(' :: r) = some (.kAny, '(' :: r) ∧
    nextTok (['n','o','t'] ++ '(' :: r) = some (.kNot, '(' :: r) := ⟨rfl, rfl, rfl⟩

theorem kw_eq (r : List Char) :
    nextTok (['B','O','O','L'] ++ '=' :: r) = some (.kBool, '=' :: r) ∧
    nextTok (['s','r','c'] ++ '=' :: r) = some (.kSrc, '=' :: r) ∧
    nextTok (['d','s','t'] ++ '=' :: r) = some (.kDst, '=' :: r) ∧
    nextTok (['d','s','c','p'] ++ '=' :: r) = some (.kDscp, '=' :: r) ∧
    nextTok (['t','o','s'] ++ '=' :: r) = some (.kTos, '=' :: r) ∧
    nextTok (['p','r','o','t','o','c','o','l'] ++ '=' :: r) = some (.kProtocol, '=' :: r) ∧
    nextTok (['s','r','c','p','o','r','t'] ++ '=' :: r) = some (.kSrcport, '=' :: r) ∧
    nextTok (['d','s','t','p','o','r','t'] ++ '=' :: r) = some (.kDstport, '=' :: r) :=
  ⟨rfl, rfl, rfl, rfl, rfl, rfl, rfl, rfl⟩

theorem lit_toks (r : List Char) :
    nextTok ('(' :: r) = some (.lpar, r) ∧ nextTok (')' :: r) = some (.rpar, r) ∧
    nextTok (',' :: r) = some (.comma, r) ∧ nextTok ('-' :: r) = some (.dash, r) ∧
    nextTok ('=' :: '0' :: 'x' :: r) = some (.eq0x, r) ∧
    nextTok ('c' :: 'l' :: 's' :: '=' :: r) = some (.clsEq, r) := ⟨rfl, rfl, rfl, rfl, rfl, rfl⟩

theorem nextTok_bool (b : Bool) (r : List Char) (hr : Sep r) :
    nextTok (renderTok (if b then Tok.tTrue else Tok.tFalse) ++ r) =
      some (if b then Tok.tTrue else Tok.tFalse, r) := by
  cases r with
  | nil => cases b <;> rfl
  | cons c t =>
    rcases hr with rfl | rfl | rfl <;> cases b <;> rfl

theorem eq_bool (b : Bool) (r : List Char) :
    nextTok ('=' :: (renderTok (if b then Tok.tTrue else Tok.tFalse) ++ r)) =
      some (.eq, renderTok (if b then Tok.tTrue else Tok.tFalse) ++ r) := by
  cases b <;> rfl

/-! ### the printed text of a well-formed tree lexes back to its tokens -/

theorem sep_paren (r : List Char) : Sep (')' :: r) := Or.inr (Or.inl rfl)
theorem sep_comma (r : List Char) : Sep (',' :: r) := Or.inl rfl
theorem sep_dash (r : List Char) : Sep ('-' :: r) := Or.inr (Or.inr rfl)

theorem ws_facts : isWs 'a' = false ∧ isWs 'n' = false ∧ isWs 'B' = false ∧ isWs 's' = false ∧
    isWs 'd' = false ∧ isWs 't' = false ∧ isWs 'p' = false ∧ isWs 'c' = false ∧ isWs '=' = false ∧
    isWs '(' = false ∧ isWs ')' = false ∧ isWs ',' = false ∧ isWs '-' = false ∧
    isWs 'f' = false := by decide

theorem isDec_notWs (c : Char) (h : isDec c = true) : isWs c = false := by
  simp only [isWs, Bool.or_eq_false_iff, beq_eq_false_iff_ne, ne_eq]
  refine ⟨⟨⟨?_, ?_⟩, ?_⟩, ?_⟩ <;> (intro hc; subst hc; revert h; decide)

/-- a number token, then the rest -/
theorem lexF_digits (f n : Nat) (r : List Char) (hr : Sep r) :
    lexF (f + 1) (decDigits n ++ r) = .digits n :: lexF f r := by
  obtain ⟨c, cs, hc, hd⟩ := decDigits_cons n
  have := nextTok_digits n r hr
  rw [hc] at this ⊢
  exact lexF_step f c _ _ r (isDec_notWs c hd) this

theorem lexF_hexTok (f v : Nat) (r : List Char) (hv : v < 256) (hr : Sep r) :
    lexF (f + 1) (renderTok (hexTok v) ++ r) = hexTok v :: lexF f r := by
  have h := nextTok_hexTok v r hv hr
  -- the first character is a hex digit, hence no white space
  have hne : ∃ c cs, renderTok (hexTok v) = c :: cs ∧ isWs c = false := by
    unfold hexTok
    by_cases h16 : v < 16
    · rw [if_pos h16]
      by_cases h10 : v < 10
      · rw [if_pos h10]
        obtain ⟨c, cs, hc, hd⟩ := decDigits_cons v
        exact ⟨c, cs, hc, isDec_notWs c hd⟩
      · rw [if_neg h10]
        exact ⟨hexChar v, [], rfl, (hexChar_facts v h16).2.2.2.1⟩
    · rw [if_neg h16]
      by_cases hd : v / 16 < 10 ∧ v % 16 < 10
      · rw [if_pos hd]
        obtain ⟨c, cs, hc, hdd⟩ := decDigits_cons (10 * (v / 16) + v % 16)
        exact ⟨c, cs, hc, isDec_notWs c hdd⟩
      · rw [if_neg hd]
        exact ⟨hexChar (v / 16), [hexChar (v % 16)], rfl, (hexChar_facts (v / 16) (by omega)).2.2.2.1⟩
  obtain ⟨c, cs, hc, hws⟩ := hne
  rw [hc] at h ⊢
  exact lexF_step f c _ _ r hws h

theorem lexF_net (f : Nat) (n : Net) (r : List Char) (hr : Sep r) :
    lexF (f + 1) (renderTok (.net (n.bits / 2^24 % 256) (n.bits / 2^16 % 256) (n.bits / 2^8 % 256)
        (n.bits % 256) n.len) ++ r) =
      .net (n.bits / 2^24 % 256) (n.bits / 2^16 % 256) (n.bits / 2^8 % 256) (n.bits % 256) n.len ::
        lexF f r := by
  have h := nextTok_net (n.bits / 2^24 % 256) (n.bits / 2^16 % 256) (n.bits / 2^8 % 256)
    (n.bits % 256) n.len r hr
  obtain ⟨c, cs, hc, hd⟩ := decDigits_cons (n.bits / 2^24 % 256)
  simp only [renderTok, hc, List.cons_append] at h ⊢
  exact lexF_step f c _ _ r (isDec_notWs c hd) h

theorem lexF_name (f : Nat) (w r : List Char) (hw : nameOK w = true) (hr : Sep r) :
    lexF (f + 1) (w ++ r) = .str w :: lexF f r := by
  have h := nextTok_name w r hw hr
  cases w with
  | nil => simp [nameOK, lettersOnly] at hw
  | cons c cs =>
    have hl : isLetter c = true := by
      simp only [nameOK, lettersOnly, Bool.and_eq_true, List.all_eq_true] at hw
      exact hw.1.1.1.2 c (by simp)
    exact lexF_step f c _ _ r (isLetter_ne c hl).2.2.2.2.2.2.2.2 h

theorem name_not_0x (w r t : List Char) (hw : nameOK w = true) : w ++ r ≠ '0' :: 'x' :: t := by
  cases w with
  | nil => simp [nameOK, lettersOnly] at hw
  | cons c cs =>
    have hl : isLetter c = true := by
      simp only [nameOK, lettersOnly, Bool.and_eq_true, List.all_eq_true] at hw
      exact hw.1.1.1.2 c (by simp)
    intro he
    simp only [List.cons_append, List.cons.injEq] at he
    exact (isLetter_ne c hl).2.2.2.2.2.2.1 he.1


/-- the rendered tokens `ts`, followed by `tail`, lex to `ts` and then to whatever `tail` lexes to -/
def L (ts : List Tok) (tail : List Char) : Prop :=
  ∀ f, lexF (f + ts.length) (render ts ++ tail) = ts ++ lexF f tail

theorem L_nil (tail : List Char) : L [] tail := by
  intro f; simp [render_nil]

theorem L_cons (t : Tok) (ts : List Tok) (tail : List Char)
    (hc : ∃ c cs, renderTok t = c :: cs ∧ isWs c = false)
    (h : nextTok (renderTok t ++ (render ts ++ tail)) = some (t, render ts ++ tail))
    (hrest : L ts tail) : L (t :: ts) tail := by
  intro f
  obtain ⟨c, cs, hcs, hws⟩ := hc
  rw [render_cons, List.append_assoc]
  rw [hcs] at h ⊢
  have : f + (t :: ts).length = (f + ts.length) + 1 := by simp only [List.length_cons]; omega
  rw [this, List.cons_append]
  rw [List.cons_append] at h
  rw [lexF_step (f + ts.length) c _ t _ hws h, hrest f]
  rfl

theorem L_append (a b : List Tok) (tail : List Char) (ha : L a (render b ++ tail)) (hb : L b tail) :
    L (a ++ b) tail := by
  intro f
  have : f + (a ++ b).length = (f + b.length) + a.length := by
    simp only [List.length_append]; omega
  rw [this, render_append, List.append_assoc, ha (f + b.length), hb f, List.append_assoc]

/-- a token whose lexing is a `lexF` equation already (numbers, names, hex operands, networks) -/
theorem L_cons' (t : Tok) (ts : List Tok) (tail : List Char)
    (h : ∀ f, lexF (f + 1) (renderTok t ++ (render ts ++ tail)) = t :: lexF f (render ts ++ tail))
    (hrest : L ts tail) : L (t :: ts) tail := by
  intro f
  have : f + (t :: ts).length = (f + ts.length) + 1 := by simp only [List.length_cons]; omega
  rw [this, render_cons, List.append_assoc, h (f + ts.length), hrest f]
  rfl

theorem hc_lit (c : Char) (cs : List Char) (h : isWs c = false) :
    ∃ c' cs', c :: cs = c' :: cs' ∧ isWs c' = false := ⟨c, cs, rfl, h⟩

theorem sep_render_rpar (ts : List Tok) (tail : List Char) :
    Sep (render (Tok.rpar :: ts) ++ tail) := by
  rw [render_cons]; exact sep_paren _

theorem sep_render_comma (ts : List Tok) (tail : List Char) :
    Sep (render (Tok.comma :: ts) ++ tail) := by
  rw [render_cons]; exact sep_comma _

theorem sep_render_dash (ts : List Tok) (tail : List Char) :
    Sep (render (Tok.dash :: ts) ++ tail) := by
  rw [render_cons]; exact sep_dash _

theorem sep_nil_tail (tail : List Char) (h : Sep tail) : Sep (render [] ++ tail) := by
  simpa [render_nil] using h

mutual
theorem L_print : (e : Cond) → e.wf = true → ∀ tail : List Char, Sep tail → L (print e) tail
  | .all cs, h, tail, _ => by
    simp only [Cond.wf, Bool.and_eq_true, Bool.not_eq_true', List.isEmpty_eq_false_iff] at h
    have ih := L_printArgs cs h.1 h.2 tail
    simp only [print]
    refine L_cons _ _ _ (hc_lit _ _ ws_facts.1) ?_ (L_cons _ _ _ (hc_lit _ _ ws_facts.2.2.2.2.2.2.2.2.2.1) ?_ ih)
    · rw [render_cons]; exact (kw_paren _).1
    · exact (lit_toks _).1
  | .any cs, h, tail, _ => by
    simp only [Cond.wf, Bool.and_eq_true, Bool.not_eq_true', List.isEmpty_eq_false_iff] at h
    have ih := L_printArgs cs h.1 h.2 tail
    simp only [print]
    refine L_cons _ _ _ (hc_lit _ _ ws_facts.1) ?_ (L_cons _ _ _ (hc_lit _ _ ws_facts.2.2.2.2.2.2.2.2.2.1) ?_ ih)
    · rw [render_cons]; exact (kw_paren _).2.1
    · exact (lit_toks _).1
  | .not c, h, tail, _ => by
    simp only [Cond.wf] at h
    simp only [print]
    have ih := L_print c h (render [Tok.rpar] ++ tail) (sep_render_rpar [] tail)
    have hr : L [Tok.rpar] tail :=
      L_cons _ _ _ (hc_lit _ _ ws_facts.2.2.2.2.2.2.2.2.2.2.1) (lit_toks _).2.1 (L_nil tail)
    refine L_cons _ _ _ (hc_lit _ _ ws_facts.2.1) ?_ (L_cons _ _ _ (hc_lit _ _ ws_facts.2.2.2.2.2.2.2.2.2.1) ?_ (L_append _ _ _ ih hr))
    · rw [render_cons]; exact (kw_paren _).2.2
    · exact (lit_toks _).1
  | .bool b, _, tail, ht => by
    simp only [print]
    refine L_cons _ _ _ (hc_lit _ _ ws_facts.2.2.1) ?_ (L_cons _ _ _ (hc_lit _ _ ws_facts.2.2.2.2.2.2.2.2.1) ?_
      (L_cons _ _ _ ?_ ?_ (L_nil tail)))
    · rw [render_cons]; exact (kw_eq _).1
    · rw [render_cons, render_nil, List.append_nil]; exact eq_bool b tail
    · cases b
      · exact hc_lit _ _ ws_facts.2.2.2.2.2.2.2.2.2.2.2.2.2
      · exact hc_lit _ _ ws_facts.2.2.2.2.2.1
    · rw [render_nil, List.nil_append]; exact nextTok_bool b tail ht
  | .src n, _, tail, ht => by
    simp only [print]
    refine L_cons _ _ _ (hc_lit _ _ ws_facts.2.2.2.1) ?_ (L_cons _ _ _ (hc_lit _ _ ws_facts.2.2.2.2.2.2.2.2.1) ?_
      (L_cons' _ _ _ (fun f => lexF_net f n _ (sep_nil_tail tail ht)) (L_nil tail)))
    · rw [render_cons]; exact (kw_eq _).2.1
    · rw [render_cons]
      apply nextTok_eq
      intro t
      simp only [renderTok, List.append_assoc, List.cons_append]
      exact decDigits_not_0x _ '.' _ t (by decide)
  | .dst n, _, tail, ht => by
    simp only [print]
    refine L_cons _ _ _ (hc_lit _ _ ws_facts.2.2.2.2.1) ?_ (L_cons _ _ _ (hc_lit _ _ ws_facts.2.2.2.2.2.2.2.2.1) ?_
      (L_cons' _ _ _ (fun f => lexF_net f n _ (sep_nil_tail tail ht)) (L_nil tail)))
    · rw [render_cons]; exact (kw_eq _).2.2.1
    · rw [render_cons]
      apply nextTok_eq
      intro t
      simp only [renderTok, List.append_assoc, List.cons_append]
      exact decDigits_not_0x _ '.' _ t (by decide)
  | .dscp v, h, tail, ht => by
    simp only [Cond.wf, decide_eq_true_eq] at h
    simp only [print]
    refine L_cons _ _ _ (hc_lit _ _ ws_facts.2.2.2.2.1) ?_ (L_cons _ _ _ (hc_lit _ _ ws_facts.2.2.2.2.2.2.2.2.1) ?_
      (L_cons' _ _ _ (fun f => lexF_hexTok f v _ h (sep_nil_tail tail ht)) (L_nil tail)))
    · rw [render_cons]; exact (kw_eq _).2.2.2.1
    · exact (lit_toks _).2.2.2.2.1
  | .tos v, h, tail, ht => by
    simp only [Cond.wf, decide_eq_true_eq] at h
    simp only [print]
    refine L_cons _ _ _ (hc_lit _ _ ws_facts.2.2.2.2.2.1) ?_ (L_cons _ _ _ (hc_lit _ _ ws_facts.2.2.2.2.2.2.2.2.1) ?_
      (L_cons' _ _ _ (fun f => lexF_hexTok f v _ h (sep_nil_tail tail ht)) (L_nil tail)))
    · rw [render_cons]; exact (kw_eq _).2.2.2.2.1
    · exact (lit_toks _).2.2.2.2.1
  | .proto p, h, tail, ht => by
    simp only [Cond.wf] at h
    have hn := wfProto_name p h
    simp only [print]
    refine L_cons _ _ _ (hc_lit _ _ ws_facts.2.2.2.2.2.2.1) ?_ (L_cons _ _ _ (hc_lit _ _ ws_facts.2.2.2.2.2.2.2.2.1) ?_
      (L_cons' _ _ _ (fun f => lexF_name f _ _ hn (sep_nil_tail tail ht)) (L_nil tail)))
    · rw [render_cons]; exact (kw_eq _).2.2.2.2.2.1
    · rw [render_cons]
      apply nextTok_eq
      intro t
      simp only [renderTok, List.append_assoc]
      exact name_not_0x (protoName p) _ t hn
  | .sport lo hi, _, tail, ht => by
    simp only [print]
    refine L_cons _ _ _ (hc_lit _ _ ws_facts.2.2.2.1) ?_ (L_cons _ _ _ (hc_lit _ _ ws_facts.2.2.2.2.2.2.2.2.1) ?_
      (L_cons' _ _ _ (fun f => lexF_digits f lo _ (sep_render_dash _ tail))
        (L_cons _ _ _ (hc_lit _ _ ws_facts.2.2.2.2.2.2.2.2.2.2.2.2.1) (lit_toks _).2.2.2.1
          (L_cons' _ _ _ (fun f => lexF_digits f hi _ (sep_nil_tail tail ht)) (L_nil tail)))))
    · rw [render_cons]; exact (kw_eq _).2.2.2.2.2.2.1
    · rw [render_cons, render_cons]
      apply nextTok_eq
      intro t
      simp only [renderTok, List.append_assoc, List.cons_append, List.nil_append]
      exact decDigits_not_0x _ '-' _ t (by decide)
  | .dport lo hi, _, tail, ht => by
    simp only [print]
    refine L_cons _ _ _ (hc_lit _ _ ws_facts.2.2.2.2.1) ?_ (L_cons _ _ _ (hc_lit _ _ ws_facts.2.2.2.2.2.2.2.2.1) ?_
      (L_cons' _ _ _ (fun f => lexF_digits f lo _ (sep_render_dash _ tail))
        (L_cons _ _ _ (hc_lit _ _ ws_facts.2.2.2.2.2.2.2.2.2.2.2.2.1) (lit_toks _).2.2.2.1
          (L_cons' _ _ _ (fun f => lexF_digits f hi _ (sep_nil_tail tail ht)) (L_nil tail)))))
    · rw [render_cons]; exact (kw_eq _).2.2.2.2.2.2.2
    · rw [render_cons, render_cons]
      apply nextTok_eq
      intro t
      simp only [renderTok, List.append_assoc, List.cons_append, List.nil_append]
      exact decDigits_not_0x _ '-' _ t (by decide)
  | .cls n, _, tail, ht => by
    simp only [print]
    exact L_cons _ _ _ (hc_lit _ _ ws_facts.2.2.2.2.2.2.2.1) (lit_toks _).2.2.2.2.2
      (L_cons' _ _ _ (fun f => lexF_digits f n _ (sep_nil_tail tail ht)) (L_nil tail))
theorem L_printArgs : (cs : List Cond) → cs ≠ [] → wfAll cs = true → ∀ tail : List Char,
    L (printArgs cs) tail
  | [], h, _, _ => absurd rfl h
  | [c], _, h, tail => by
    simp only [wfAll, Bool.and_true] at h
    rw [Proofs.Pktcls.printArgs_single]
    have hr : L [Tok.rpar] tail :=
      L_cons _ _ _ (hc_lit _ _ ws_facts.2.2.2.2.2.2.2.2.2.2.1) (lit_toks _).2.1 (L_nil tail)
    exact L_append _ _ _ (L_print c h _ (sep_render_rpar [] tail)) hr
  | c :: c' :: cs, _, h, tail => by
    simp only [wfAll, Bool.and_eq_true] at h
    rw [Proofs.Pktcls.printArgs_cons_cons]
    have ih := L_printArgs (c' :: cs) (by simp) (by simp only [wfAll, Bool.and_eq_true]; exact h.2) tail
    have hr : L (Tok.comma :: printArgs (c' :: cs)) tail :=
      L_cons _ _ _ (hc_lit _ _ ws_facts.2.2.2.2.2.2.2.2.2.2.2.1) (lit_toks _).2.2.1 ih
    exact L_append _ _ _ (L_print c h.1 _ (sep_render_comma _ tail)) hr
end

/-- every token of a printed well-formed tree renders to at least one character -/
theorem decDigits_ne_nil (n : Nat) : decDigits n ≠ [] := by
  obtain ⟨c, cs, hc, _⟩ := decDigits_cons n
  rw [hc]; simp

theorem hexTok_ne_nil (v : Nat) : renderTok (hexTok v) ≠ [] := by
  unfold hexTok
  split
  · split
    · exact decDigits_ne_nil _
    · simp [renderTok]
  · split
    · exact decDigits_ne_nil _
    · simp [renderTok]

mutual
theorem print_len : (e : Cond) → e.wf = true → (print e).length ≤ (render (print e)).length
  | .all cs, h => by
    simp only [Cond.wf, Bool.and_eq_true] at h
    have := printArgs_len cs h.2
    simp only [print, render_cons, renderTok, List.length_cons, List.length_append, List.length_nil]
    omega
  | .any cs, h => by
    simp only [Cond.wf, Bool.and_eq_true] at h
    have := printArgs_len cs h.2
    simp only [print, render_cons, renderTok, List.length_cons, List.length_append, List.length_nil]
    omega
  | .not c, h => by
    simp only [Cond.wf] at h
    have := print_len c h
    simp only [print, render_cons, render_append, render_nil, renderTok, List.length_cons,
      List.length_append, List.length_nil]
    omega
  | .bool b, _ => by cases b <;> simp [print, render, renderTok]
  | .src n, _ => by
    have := List.length_pos_iff.2 (decDigits_ne_nil (n.bits / 2^24 % 256))
    simp only [print, render_cons, render_nil, renderTok, List.length_cons, List.length_append,
      List.length_nil]
    omega
  | .dst n, _ => by
    have := List.length_pos_iff.2 (decDigits_ne_nil (n.bits / 2^24 % 256))
    simp only [print, render_cons, render_nil, renderTok, List.length_cons, List.length_append,
      List.length_nil]
    omega
  | .dscp v, _ => by
    have := List.length_pos_iff.2 (hexTok_ne_nil v)
    simp only [print, render_cons, render_nil, List.length_cons, List.length_append, List.length_nil]
    simp only [renderTok, List.length_cons, List.length_nil]
    omega
  | .tos v, _ => by
    have := List.length_pos_iff.2 (hexTok_ne_nil v)
    simp only [print, render_cons, render_nil, List.length_cons, List.length_append, List.length_nil]
    simp only [renderTok, List.length_cons, List.length_nil]
    omega
  | .proto p, h => by
    simp only [Cond.wf] at h
    have hn := wfProto_name p h
    have : 0 < (protoName p).length := by
      cases hp : protoName p with
      | nil => rw [hp] at hn; simp [nameOK, lettersOnly] at hn
      | cons c cs => simp
    simp only [print, render_cons, render_nil, renderTok, List.length_cons, List.length_append,
      List.length_nil]
    omega
  | .sport lo hi, _ => by
    have h1 := List.length_pos_iff.2 (decDigits_ne_nil lo)
    have h2 := List.length_pos_iff.2 (decDigits_ne_nil hi)
    simp only [print, render_cons, render_nil, renderTok, List.length_cons, List.length_append,
      List.length_nil]
    omega
  | .dport lo hi, _ => by
    have h1 := List.length_pos_iff.2 (decDigits_ne_nil lo)
    have h2 := List.length_pos_iff.2 (decDigits_ne_nil hi)
    simp only [print, render_cons, render_nil, renderTok, List.length_cons, List.length_append,
      List.length_nil]
    omega
  | .cls n, _ => by
    have h1 := List.length_pos_iff.2 (decDigits_ne_nil n)
    simp only [print, render_cons, render_nil, renderTok, List.length_cons, List.length_append,
      List.length_nil]
    omega
theorem printArgs_len : (cs : List Cond) → wfAll cs = true →
    (printArgs cs).length ≤ (render (printArgs cs)).length
  | [], _ => by simp [printArgs, render, renderTok]
  | [c], h => by
    simp only [wfAll, Bool.and_true] at h
    have := print_len c h
    rw [Proofs.Pktcls.printArgs_single]
    simp only [render_append, render_cons, render_nil, renderTok, List.length_append,
      List.length_cons, List.length_nil]
    omega
  | c :: c' :: cs, h => by
    simp only [wfAll, Bool.and_eq_true] at h
    have h1 := print_len c h.1
    have h2 := printArgs_len (c' :: cs) (by simp only [wfAll, Bool.and_eq_true]; exact h.2)
    rw [Proofs.Pktcls.printArgs_cons_cons]
    rw [show print c ++ Tok.comma :: printArgs (c' :: cs) = print c ++ ([Tok.comma] ++ printArgs (c' :: cs)) from rfl]
    simp only [render_append, render_cons, render_nil, renderTok, List.length_append,
      List.length_cons, List.length_nil]
    omega
end

/-- **the lexer inverts rendering on printed trees** -/
theorem lex_render_print (e : Cond) (h : e.wf = true) : lex (render (print e)) = print e := by
  have hl := print_len e h
  have key := L_print e h [] trivial ((render (print e)).length + 1 - (print e).length)
  rw [List.append_nil, lexF_nil, List.append_nil] at key
  unfold lex
  have hf : (render (print e)).length + 1 =
      ((render (print e)).length + 1 - (print e).length) + (print e).length := by omega
  rw [hf]
  exact key

end Scion.Proofs.PktclsLex
