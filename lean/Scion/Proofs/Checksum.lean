import Scion.Model.Checksum
/-! Helper lemmas for C20 (one's-complement sum, fold, bit flips). -/
namespace Scion.Checksum
open Scion.Util

theorem fold_le (c : Nat) : fold c ≤ 0xffff := by
  induction c using Nat.strongRecOn with
  | _ c ih =>
    unfold fold
    split
    · assumption
    · exact ih _ (by omega)

theorem fold_mod (c : Nat) : fold c % 65535 = c % 65535 := by
  induction c using Nat.strongRecOn with
  | _ c ih =>
    unfold fold
    split
    · rfl
    · rw [ih _ (by omega)]; omega

theorem fold_eq_zero (c : Nat) : fold c = 0 ↔ c = 0 := by
  induction c using Nat.strongRecOn with
  | _ c ih =>
    unfold fold
    split
    · rfl
    · rw [ih _ (by omega)]; omega

theorem pow_bounds (k : Nat) (hk : k < 16) : 1 ≤ 2 ^ k ∧ 2 ^ k ≤ 32768 := by
  have : k ≤ 15 := by omega
  constructor
  · exact Nat.one_le_two_pow
  · calc 2 ^ k ≤ 2 ^ 15 := Nat.pow_le_pow_right (by omega) this
      _ = 32768 := by decide

/-- two totals that differ by a power of two below 2^16 fold to different values -/
theorem fold_ne_of_diff (S T k : Nat) (hk : k < 16) (h : T = S + 2 ^ k ∨ T + 2 ^ k = S) :
    fold T ≠ fold S := by
  have hp := pow_bounds k hk
  have a := fold_mod T
  have c := fold_mod S
  intro e
  rw [e] at a
  rcases h with h | h <;> omega

/-! ### sum16 -/

theorem sum16_le (l : Bytes) : sum16 l ≤ 65535 * ((l.length + 1) / 2) := by
  induction l using sum16.induct with
  | case1 => simp [sum16]
  | case2 a => have := a.toNat_lt; simp [sum16]; omega
  | case3 a b rest ih =>
    have := a.toNat_lt; have := b.toNat_lt
    simp only [sum16, List.length_cons]
    omega

theorem sum16_append_even (l1 l2 : Bytes) (h : l1.length % 2 = 0) :
    sum16 (l1 ++ l2) = sum16 l1 + sum16 l2 := by
  induction l1 using sum16.induct with
  | case1 => simp [sum16]
  | case2 a => simp at h
  | case3 a b rest ih =>
    simp only [List.length_cons] at h
    simp only [List.cons_append, sum16]
    rw [ih (by omega)]
    omega

theorem xor_pow_fin : ∀ a : Fin 256, ∀ b : Fin 8,
    ((UInt8.ofNat a.val) ^^^ UInt8.ofNat (2^b.val % 256)).toNat =
      if a.val / 2^b.val % 2 = 1 then a.val - 2^b.val else a.val + 2^b.val := by
  decide +kernel

theorem xor_pow_byte (a : UInt8) (b : Nat) (hb : b < 8) :
    (a ^^^ UInt8.ofNat (2^b % 256)).toNat = a.toNat + 2^b ∨
    ((a ^^^ UInt8.ofNat (2^b % 256)).toNat + 2^b = a.toNat) := by
  have h := xor_pow_fin ⟨a.toNat, a.toNat_lt⟩ ⟨b, hb⟩
  simp only [UInt8.ofNat_toNat] at h
  rw [h]
  split
  · right
    have : 2^b ≤ a.toNat := by
      rcases Nat.lt_or_ge a.toNat (2^b) with hlt | hge
      · rw [Nat.div_eq_of_lt hlt] at *; omega
      · exact hge
    omega
  · left; rfl

theorem length_flipBit (l : Bytes) (i b : Nat) : (flipBit l i b).length = l.length := by
  induction l generalizing i with
  | nil => simp [flipBit]
  | cons a rest ih => cases i <;> simp [flipBit, ih]

/-- flipping bit `b` of byte `i` moves the word sum by exactly `2^b` (odd offset) or `2^(b+8)`
(even offset), up or down -/
theorem sum16_flipBit (l : Bytes) (i b : Nat) (hi : i < l.length) (hb : b < 8) :
    ∃ k, k < 16 ∧ (sum16 (flipBit l i b) = sum16 l + 2 ^ k ∨ sum16 (flipBit l i b) + 2 ^ k = sum16 l) := by
  induction l using sum16.induct generalizing i with
  | case1 => simp at hi
  | case2 a =>
    have hi0 : i = 0 := by simp at hi; omega
    subst hi0
    refine ⟨b + 8, by omega, ?_⟩
    have h := xor_pow_byte a b hb
    simp only [flipBit, sum16]
    have : 2 ^ (b + 8) = 2 ^ b * 256 := by rw [Nat.pow_add]
    rcases h with h | h
    · left; rw [h]; omega
    · right; omega
  | case3 a c rest ih =>
    match i with
    | 0 =>
      refine ⟨b + 8, by omega, ?_⟩
      have h := xor_pow_byte a b hb
      simp only [flipBit, sum16]
      have : 2 ^ (b + 8) = 2 ^ b * 256 := by rw [Nat.pow_add]
      rcases h with h | h
      · left; rw [h]; omega
      · right; omega
    | 1 =>
      refine ⟨b, by omega, ?_⟩
      have h := xor_pow_byte c b hb
      simp only [flipBit, sum16]
      rcases h with h | h
      · left; rw [h]; omega
      · right; omega
    | j + 2 =>
      simp only [List.length_cons] at hi
      obtain ⟨k, hk, h⟩ := ih j (by omega)
      refine ⟨k, hk, ?_⟩
      simp only [flipBit, sum16]
      rcases h with h | h
      · left; omega
      · right; omega

theorem flipBit_append_right (p l : Bytes) (i b : Nat) :
    flipBit (p ++ l) (p.length + i) b = p ++ flipBit l i b := by
  induction p with
  | nil => simp
  | cons a rest ih =>
    simp only [List.cons_append, List.length_cons]
    rw [show rest.length + 1 + i = (rest.length + i) + 1 by omega]
    simp [flipBit, ih]

/-! ### the checksum field -/

/-- big-endian word at byte offset `off` (0 if out of range) -/
def getWord : Bytes → Nat → Nat
  | a :: b :: _, 0 => a.toNat * 256 + b.toNat
  | _, 0 => 0
  | [], _ => 0
  | _ :: rest, n+1 => getWord rest n

theorem length_setWord (l : Bytes) (off c : Nat) : (setWord l off c).length = l.length := by
  induction l generalizing off with
  | nil => cases off <;> simp [setWord]
  | cons a rest ih =>
    cases off with
    | zero => cases rest <;> simp [setWord]
    | succ n => simp [setWord, ih]

theorem sum16_setWord (l : Bytes) (off c : Nat) (he : off % 2 = 0) (hl : off + 1 < l.length)
    (hc : c < 65536) : sum16 (setWord l off c) + getWord l off = sum16 l + c := by
  induction l using sum16.induct generalizing off with
  | case1 => simp at hl
  | case2 a => simp at hl
  | case3 a b rest ih =>
    match off with
    | 0 =>
      simp only [setWord, sum16, getWord, UInt8.toNat_ofNat']
      omega
    | 1 => simp at he
    | n + 2 =>
      simp only [List.length_cons] at hl
      have := ih n (by omega) (by omega)
      simp only [setWord, sum16, getWord]
      omega

/-! ### pseudo header as bytes -/

theorem length_natBE (k n : Nat) : (natBE k n).length = k := by
  induction k with
  | zero => simp [natBE]
  | succ k ih => simp [natBE, ih]

theorem sum16_natBE4 (n : Nat) : sum16 (natBE 4 n) = lenSum n := by
  simp only [natBE, sum16, lenSum, UInt8.toNat_ofNat']
  omega

theorem pseudoRaw_eq_sum16 (h : PHdr) (length protocol : Nat)
    (hs : h.src.length % 2 = 0) (hd : h.dst.length % 2 = 0) :
    pseudoRaw h length protocol = sum16 (pseudoBytes h length protocol) := by
  unfold pseudoBytes pseudoRaw iaSum
  rw [sum16_append_even, sum16_append_even, sum16_append_even, sum16_append_even,
    sum16_append_even, sum16_natBE4]
  · simp only [sum16, UInt8.toNat_ofNat']
    simp
    omega
  all_goals (simp [length_natBE]; try omega)

theorem length_pseudoBytes (h : PHdr) (length protocol : Nat) :
    (pseudoBytes h length protocol).length = 24 + h.dst.length + h.src.length := by
  simp [pseudoBytes, length_natBE]; omega

theorem totalRaw_eq_sum16 (h : PHdr) (length protocol : Nat) (upper : Bytes)
    (hs : h.src.length % 2 = 0) (hd : h.dst.length % 2 = 0) :
    totalRaw h length protocol upper = sum16 (pseudoBytes h length protocol ++ upper) := by
  unfold totalRaw
  rw [sum16_append_even, pseudoRaw_eq_sum16 h length protocol hs hd]
  rw [length_pseudoBytes]; omega

end Scion.Checksum
