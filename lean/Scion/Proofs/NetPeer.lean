import Scion.Proofs.NetSpec
/-! Peering paths: variants of the step lemmas for Peer-flagged segments (where segments of a single
hop are legal) and the run along a peering path.  Core Lean only. -/
namespace Scion.Net
open Scion.SegID (updateSegID extractBeta xorAll)

theorem transit_step_pr (mac : MacFn) (net : Net) (now src dst : Nat) (cd pr : Bool) (ts seg a i : Nat)
    (h : Hop) (before : List Seg) (done todo : List Hop) (after : List Seg) (fi f : Iface)
    (hprt : pr = true)
    (hpr : pr = true → before.length + 1 + after.length = 2 ∧ (before ≠ [] → done ≠ []))
    (htodo : todo ≠ [])
    (hi0 : i ≠ 0) (hi : i = inSide cd h) (hsrc : a ≠ src) (hdst : a ≠ dst)
    (hmac : macOk mac (net a).key ⟨cd, pr, usedSeg cd seg h, ts⟩ h = true)
    (hexp : expired now ts h.exp = false) (hia : h.inAlert = false) (hea : h.egAlert = false)
    (hfi : (net a).iface i = some fi)
    (hf : (net a).iface (outSide cd h) = some f) (ho0 : outSide cd h ≠ 0) (hup : f.up = true)
    (hown : f.owner = 0) (hlt : ltSame fi.lt f.lt = true) :
    routerStep mac (cfgOf net a) now (.ext i) (a == src) (a == dst)
        ⟨before, ⟨cd, pr, seg, ts⟩, done, h, todo, after⟩ =
      .forward (outSide cd h)
        (mkCur before ⟨cd, pr, nextSeg cd seg h, ts⟩ (done ++ [h]) todo after) := by
  have hsl : (a == src) = false := by simp [hsrc]
  have hdl : (a == dst) = false := by simp [hdst]
  rw [hsl, hdl]
  -- peering is false on a transit hop
  have hdp : determinePeer ⟨before, ⟨cd, pr, seg, ts⟩, done, h, todo, after⟩ = some false := by
    unfold determinePeer
    cases pr with
    | false => simp
    | true =>
      obtain ⟨h2, h3⟩ := hpr rfl
      have ht : todo.isEmpty = false := by cases todo <;> simp_all
      by_cases hbe : before = []
      · subst hbe; simp at h2; simp [h2, ht]
      · have hd : done.isEmpty = false := by
          have := h3 hbe; cases done <;> simp_all
        have hbb : before.isEmpty = false := by cases before <;> simp_all
        simp [h2, ht, hd, hbb]
  have hing : ingUpd ⟨before, ⟨cd, pr, seg, ts⟩, done, h, todo, after⟩ (.ext i) false =
      ⟨before, ⟨cd, pr, usedSeg cd seg h, ts⟩, done, h, todo, after⟩ := by
    cases cd <;> simp [ingUpd, usedSeg, Arrival.ifid, hi0]
  have hst : stIngress mac (cfgOf net a) now (.ext i) false false
      ⟨before, ⟨cd, pr, seg, ts⟩, done, h, todo, after⟩ =
      .ok ⟨ingUpd ⟨before, ⟨cd, pr, seg, ts⟩, done, h, todo, after⟩ (.ext i) false, false⟩ := by
    apply stIngress_pass
    · simp [hprt]
    · exact hdp
    · rw [hing]; exact hexp
    · intro _; rw [hing]; simp only [Arrival.ifid]; cases cd <;> simpa [inSide] using hi
    · simp [Arrival.ifid, hi0]
    · simp [Arrival.ifid, hi0]
    · rw [hing]
      have : (⟨before, ⟨cd, pr, usedSeg cd seg h, ts⟩, done, h, todo, after⟩ : Cursor).isLastHop = false := by
        cases todo <;> simp_all [Cursor.isLastHop]
      simp [Arrival.ifid, hi0, this]
    · rw [hing]; exact hmac
    · rw [hing]; cases cd <;> simp [hia, hea]
  rw [hing] at hst
  have := routerStep_forward mac (cfgOf net a) now (.ext i) false
    ⟨before, ⟨cd, pr, seg, ts⟩, done, h, todo, after⟩ false f
    (mkCur before ⟨cd, pr, nextSeg cd seg h, ts⟩ (done ++ [h]) todo after)
  rw [hing] at this
  have heo : egressOf ⟨before, ⟨cd, pr, usedSeg cd seg h, ts⟩, done, h, todo, after⟩ = outSide cd h := by
    cases cd <;> rfl
  rw [heo] at this
  apply this hst
  · have : (⟨before, ⟨cd, pr, usedSeg cd seg h, ts⟩, done, h, todo, after⟩ : Cursor).isXover = false := by
      cases todo <;> simp_all [Cursor.isXover]
    simp [this]
  · simp only [egressIface]
    have : (outSide cd h == 0) = false := by simp [ho0]
    rw [this]; simp only [Bool.false_eq_true, if_false]; exact hf
  · exact hown
  · right
    simp only [ingressLT, Arrival.ifid, cfgOf_iface, hfi]; exact hlt
  · cases cd <;> simp [hia, hea]
  · exact hup
  · have : egUpd ⟨before, ⟨cd, pr, usedSeg cd seg h, ts⟩, done, h, todo, after⟩ false =
        ⟨before, ⟨cd, pr, nextSeg cd seg h, ts⟩, done, h, todo, after⟩ := by
      cases cd <;> simp [egUpd, usedSeg, nextSeg]
    rw [this]
    exact incPath_mkCur before _ done h todo after htodo

theorem run_transits_pr {mac : MacFn} {net : Net} {now src dst : Nat} {cd pr : Bool} {ts : Nat}
    {seg a i : Nat} {hops : List Hop} {seg' a' i' : Nat} {tr : List (Nat × Nat)}
    (hT : Transits mac net now src dst cd pr ts seg a i hops seg' a' i' tr)
    (before after : List Seg)
    (hprt : pr = true) (hpr : pr = true → before.length + 1 + after.length = 2) :
    ∀ (done : List Hop) (t0 : Hop) (tl : List Hop) (fuel : Nat) (tr0 : List (Nat × Nat)),
      (pr = true → before ≠ [] → done ≠ []) →
      run mac net now src dst (fuel + hops.length) a 0 (.ext i)
          (mkCur before ⟨cd, pr, seg, ts⟩ done (hops ++ t0 :: tl) after) tr0 =
        run mac net now src dst fuel a' 0 (.ext i')
          (mkCur before ⟨cd, pr, seg', ts⟩ (done ++ hops) (t0 :: tl) after) (tr0 ++ tr) := by
  induction hT with
  | nil seg a i => intro done t0 tl fuel tr0 _; simp
  | cons seg a i h rest seg' a' i' tr fi f g hi0 hi hsrc hdst hmac hexp hia hea hfi hf ho0 hup hown
      hlt hg hgo _ ih =>
    intro done t0 tl fuel tr0 hd
    have hstep := transit_step_pr mac net now src dst cd pr ts seg a i h before done (rest ++ t0 :: tl)
      after fi f hprt
      (fun hp => ⟨hpr hp, hd hp⟩) (by simp) hi0 hi hsrc hdst hmac hexp hia hea hfi hf ho0 hup hown hlt
    have h1 : fuel + (h :: rest).length = (fuel + rest.length) + 1 := by simp; omega
    rw [h1]
    simp only [List.cons_append, mkCur]
    rw [run_forward_ext mac net now src dst (fuel + rest.length) a 0 (.ext i) _ _ tr0 (outSide cd h) f g
      hstep hf hown hg, hgo]
    have := ih (done ++ [h]) t0 tl fuel (tr0 ++ [(a, outSide cd h), (f.nbr, f.nbrIf)])
      (fun _ _ => by simp)
    rw [this]
    simp [List.append_assoc, mkCur]

theorem first_step_pr (mac : MacFn) (net : Net) (now src dst : Nat) (cd pr : Bool) (ts seg : Nat)
    (h : Hop) (todo : List Hop) (after : List Seg) (f : Iface)
    (hprt : pr = true) (htodo : todo ≠ [])
    (hpr : pr = true → after.length = 1)
    (hsd : src ≠ dst)
    (hmac : macOk mac (net src).key ⟨cd, pr, seg, ts⟩ h = true)
    (hexp : expired now ts h.exp = false) (hia : h.inAlert = false) (hea : h.egAlert = false)
    (hf : (net src).iface (outSide cd h) = some f) (ho0 : outSide cd h ≠ 0) (hup : f.up = true)
    (hown : f.owner = 0) :
    routerStep mac (cfgOf net src) now .host (src == src) (src == dst)
        ⟨[], ⟨cd, pr, seg, ts⟩, [], h, todo, after⟩ =
      .forward (outSide cd h) (mkCur [] ⟨cd, pr, egSeg cd seg h, ts⟩ [h] todo after) := by
  have hdl : (src == dst) = false := by simp [hsd]
  rw [hdl]
  simp only [beq_self_eq_true]
  have hte : todo.isEmpty = false := by cases todo <;> simp_all
  have hdp : determinePeer ⟨[], ⟨cd, pr, seg, ts⟩, [], h, todo, after⟩ = some false := by
    unfold determinePeer
    cases pr with
    | false => simp
    | true => simp [hpr rfl, hte]
  have hing : ingUpd ⟨[], ⟨cd, pr, seg, ts⟩, [], h, todo, after⟩ .host false =
      ⟨[], ⟨cd, pr, seg, ts⟩, [], h, todo, after⟩ := by
    simp [ingUpd, Arrival.ifid]
  have hst : stIngress mac (cfgOf net src) now .host true false
      ⟨[], ⟨cd, pr, seg, ts⟩, [], h, todo, after⟩ =
      .ok ⟨ingUpd ⟨[], ⟨cd, pr, seg, ts⟩, [], h, todo, after⟩ .host false, false⟩ := by
    apply stIngress_pass
    · simp [hprt]
    · exact hdp
    · rw [hing]; exact hexp
    · intro h0; simp [Arrival.ifid] at h0
    · rw [hing]; simp [Cursor.isFirstHop]
    · simp [Arrival.ifid]
    · simp [Arrival.ifid]
    · rw [hing]; exact hmac
    · simp [Arrival.ifid]
  have := routerStep_forward mac (cfgOf net src) now .host true
    ⟨[], ⟨cd, pr, seg, ts⟩, [], h, todo, after⟩ false f
    (mkCur [] ⟨cd, pr, egSeg cd seg h, ts⟩ [h] todo after)
  rw [hing] at this hst
  have heo : egressOf ⟨[], ⟨cd, pr, seg, ts⟩, [], h, todo, after⟩ = outSide cd h := by
    cases cd <;> rfl
  rw [heo] at this
  apply this hst
  · simp [Cursor.isXover, hte]
  · simp only [egressIface]
    have : (outSide cd h == 0) = false := by simp [ho0]
    rw [this]; simp only [Bool.false_eq_true, if_false]; exact hf
  · exact hown
  · left; rfl
  · cases cd <;> simp [hia, hea]
  · exact hup
  · have : egUpd ⟨[], ⟨cd, pr, seg, ts⟩, [], h, todo, after⟩ false =
        ⟨[], ⟨cd, pr, egSeg cd seg h, ts⟩, [], h, todo, after⟩ := by
      cases cd <;> simp [egUpd, egSeg]
    rw [this]
    exact incPath_mkCur [] _ [] h todo after htodo

theorem last_step_pr (mac : MacFn) (net : Net) (now src dst : Nat) (cd pr p : Bool) (ts seg i : Nat)
    (h : Hop) (before : List Seg) (done : List Hop)
    (hprt : pr = true)
    (hp : determinePeer ⟨before, ⟨cd, pr, seg, ts⟩, done, h, [], []⟩ = some p)
    (hsd : src ≠ dst) (hi0 : i ≠ 0) (hi : i = inSide cd h)
    (hmac : macOk mac (net dst).key ⟨cd, pr, lastSeg cd p seg h, ts⟩ h = true)
    (hexp : expired now ts h.exp = false) (hia : h.inAlert = false) (hea : h.egAlert = false) :
    routerStep mac (cfgOf net dst) now (.ext i) (dst == src) (dst == dst)
        ⟨before, ⟨cd, pr, seg, ts⟩, done, h, [], []⟩ =
      .deliver ⟨before, ⟨cd, pr, lastSeg cd p seg h, ts⟩, done, h, [], []⟩ := by
  have hsl : (dst == src) = false := by simp [Ne.symm hsd]
  rw [hsl]
  simp only [beq_self_eq_true]
  have hing : ingUpd ⟨before, ⟨cd, pr, seg, ts⟩, done, h, [], []⟩ (.ext i) p =
      ⟨before, ⟨cd, pr, lastSeg cd p seg h, ts⟩, done, h, [], []⟩ := by
    cases cd <;> cases p <;> simp [ingUpd, lastSeg, Arrival.ifid, hi0]
  have hst : stIngress mac (cfgOf net dst) now (.ext i) false true
      ⟨before, ⟨cd, pr, seg, ts⟩, done, h, [], []⟩ =
      .ok ⟨ingUpd ⟨before, ⟨cd, pr, seg, ts⟩, done, h, [], []⟩ (.ext i) p, p⟩ := by
    apply stIngress_pass
    · simp [hprt]
    · exact hp
    · rw [hing]; exact hexp
    · intro _; rw [hing]; simp only [Arrival.ifid]; cases cd <;> simpa [inSide] using hi
    · simp [Arrival.ifid, hi0]
    · simp [Arrival.ifid, hi0]
    · rw [hing]; simp [Arrival.ifid, hi0, Cursor.isLastHop]
    · rw [hing]; exact hmac
    · rw [hing]; cases cd <;> simp [hia, hea]
  have := routerStep_deliver mac (cfgOf net dst) now (.ext i) false
    ⟨before, ⟨cd, pr, seg, ts⟩, done, h, [], []⟩ p hst
  rw [hing] at this
  exact this

theorem ltSame_peer_child (a b : LinkType) (ha : a = LinkType.peer) (hb : EgLT false true b) :
    ltSame a b = true := by
  subst ha; cases b <;> simp_all [EgLT, beaconLink, ltSame]

theorem ltSame_child_peer (a b : LinkType) (ha : InLT false false a) (hb : b = LinkType.peer) :
    ltSame a b = true := by
  subst hb; cases a <;> simp_all [InLT, beaconLink, ltSame]

section
variable (mac : MacFn) (net : Net) (now src dst : Nat) (ts : Nat)
variable (hWF : WFNet net) (hUp : AllUp net) (hSR : SingleRouter net)
include hWF hUp hSR

/-- **down segment of a peering path, at least two ASes**: the packet arrives over the peering
    link at the AS of `xD` carrying the peer hop field `pD` and is delivered in the AS of `last` -/
theorem peer_down_multi_run (βD : Nat) (xD : ASE) (mid : List ASE) (last : ASE) (pD : PeerE)
    (hpD : pD ∈ xD.peers)
    (hFL : FL mac net false true ts βD (xD :: (mid ++ [last])))
    (hdst : dst = last.ia) (hsd : src ≠ dst) (hxs : xD.ia ≠ src) (hxd : xD.ia ≠ dst)
    (hmid : ∀ e ∈ mid, e.ia ≠ src ∧ e.ia ≠ dst ∧ expired now ts e.hop.exp = false)
    (hexpl : expired now ts last.hop.exp = false) (hexpp : expired now ts pD.hop.exp = false)
    (s0 : Seg) (fuel : Nat) (tr0 : List (Nat × Nat)) :
    run mac net now src dst (fuel + 2 + mid.length) xD.ia 0 (.ext pD.hop.cIn)
        ⟨[s0], ⟨true, true, updateSegID βD (pfx xD.hop.mac), ts⟩, [], hopOf pD.hop,
          (mid.map fun e => hopOf e.hop) ++ [hopOf last.hop], []⟩ tr0 =
      .delivered dst
        (tr0 ++ (xD.ia, xD.hop.cEg) :: ((firstOf mid last).ia, (firstOf mid last).hop.cIn) ::
          fTrace true mid last)
        ⟨[s0], ⟨true, true, extractBeta (updateSegID βD (pfx xD.hop.mac)) (sig mid), ts⟩,
          hopOf pD.hop :: mid.map (fun e => hopOf e.hop), hopOf last.hop, [], []⟩ := by
  have hne : mid ++ [last] = firstOf mid last :: (mid ++ [last]).tail := by
    cases mid <;> simp [firstOf]
  have hFL' := hFL
  rw [hne] at hFL'
  simp only [FL] at hFL'
  obtain ⟨hm, ⟨f, g, hf, hout, hfn, hfi, hg, _, _, _, hEg, _⟩, _⟩ := hFL'
  obtain ⟨fp, hfp, hfplt, _, _, hpeg, hpmac⟩ := hm.2 pD hpD
  simp only [usedAt, if_true, outF, inF] at hpmac hf hout hfi hg hEg
  have hi0 : pD.hop.cIn ≠ 0 := (hWF _ _ _ hfp).1
  obtain ⟨t0, tl, htl⟩ : ∃ t0 tl, (mid.map fun e => hopOf e.hop) ++ [hopOf last.hop] = t0 :: tl := by
    cases mid <;> simp
  have hstep := peer_in_forward mac net now src dst ts (updateSegID βD (pfx xD.hop.mac)) xD.ia
    pD.hop.cIn (hopOf pD.hop) s0 t0 tl fp f hi0 rfl hxs hxd
    (by simpa [macOk, hopOf] using hpmac.symm) (by simpa [hopOf] using hexpp) rfl rfl hfp
    (by simpa [hopOf, hpeg] using hf) (by simpa [hopOf, hpeg] using hout) (hUp _ _ _ hf) (hSR _ _ _ hf)
    (ltSame_peer_child _ _ hfplt hEg)
  have hf' : (net xD.ia).iface (hopOf pD.hop).cEg = some f := by simpa [hopOf, hpeg] using hf
  have hg' : (net f.nbr).iface f.nbrIf = some g := by rw [hfn, hfi]; exact hg
  have h1 : fuel + 2 + mid.length = (fuel + 1 + mid.length) + 1 := by omega
  rw [htl, h1, run_forward_ext mac net now src dst _ xD.ia 0 _ _ _ _ (hopOf pD.hop).cEg f g hstep hf'
    (hSR _ _ _ hf) hg', hSR _ _ _ hg, hfn, hfi]
  have hcur : (⟨[s0], ⟨true, true, updateSegID βD (pfx xD.hop.mac), ts⟩, [hopOf pD.hop], t0, tl, []⟩ : Cursor) =
      mkCur [s0] ⟨true, true, updateSegID βD (pfx xD.hop.mac), ts⟩ [hopOf pD.hop]
        ((mid.map fun e => hopOf e.hop) ++ hopOf last.hop :: []) [] := by
    rw [htl]; rfl
  rw [hcur]
  have hT := fl_transits mac net now src dst true false true ts hUp hSR mid xD last βD hFL hmid
  have hrun := run_transits_pr hT [s0] [] rfl (by simp) [hopOf pD.hop] (hopOf last.hop) [] (fuel + 1)
    (tr0 ++ [(xD.ia, (hopOf pD.hop).cEg), ((firstOf mid last).ia, (firstOf mid last).hop.cIn)])
    (by simp)
  simp only [List.length_map, inF, if_true] at hrun
  rw [hrun]
  obtain ⟨hml, hin0, _⟩ := fl_last mac net false true ts mid xD last βD hFL
  simp only [usedAt, if_true, inF] at hml hin0
  have hlstep := last_step_pr mac net now src dst true true false ts
    (extractBeta (updateSegID βD (pfx xD.hop.mac)) (sig mid)) last.hop.cIn (hopOf last.hop) [s0]
    ([hopOf pD.hop] ++ mid.map fun e => hopOf e.hop) rfl (by simp [determinePeer]) hsd hin0
    (by simp [inSide, hopOf])
    (by rw [hdst]; simpa [macOk, lastSeg, hopOf] using hml.1.symm)
    (by simpa [hopOf] using hexpl) rfl rfl
  rw [hdst] at hlstep ⊢
  simp only [mkCur]
  rw [run_deliver mac net now src last.ia fuel last.ia 0 _ _ _ _ hlstep]
  simp [lastSeg, hopOf, hpeg]

omit hWF hUp hSR in
/-- **down segment of a peering path consisting of the peering AS only** -/
theorem peer_down_single_run (segD : Nat) (xD : ASE) (pD : PeerE)
    (hmac : pD.hop.mac = mac (net xD.ia).key (macInput segD ts pD.hop.exp pD.hop.cIn pD.hop.cEg))
    (hi0 : pD.hop.cIn ≠ 0)
    (hdst : dst = xD.ia) (hsd : src ≠ dst) (hexpp : expired now ts pD.hop.exp = false)
    (s0 : Seg) (fuel : Nat) (tr0 : List (Nat × Nat)) :
    run mac net now src dst (fuel + 1) xD.ia 0 (.ext pD.hop.cIn)
        ⟨[s0], ⟨true, true, segD, ts⟩, [], hopOf pD.hop, [], []⟩ tr0 =
      .delivered dst tr0 ⟨[s0], ⟨true, true, segD, ts⟩, [], hopOf pD.hop, [], []⟩ := by
  have hstep := peer_in_deliver mac net now src dst ts segD pD.hop.cIn (hopOf pD.hop) s0 hsd hi0 rfl
    (by rw [hdst]; simpa [macOk, hopOf] using hmac.symm) (by simpa [hopOf] using hexpp) rfl
  rw [hdst] at hstep ⊢
  exact run_deliver mac net now src xD.ia fuel xD.ia 0 _ _ _ _ hstep

/-- **up segment of a peering path, at least two ASes**: from a host of the AS of `top` to the
    arrival, over the peering link, at the peering AS of the down segment -/
theorem peer_up_multi_run (bU : Nat) (top : ASE) (r : List ASE) (x : ASE) (pU : PeerE)
    (hpU : pU ∈ x.peers)
    (hFL : FL mac net false false ts bU (top :: (r ++ [x])))
    (hsrc : src = top.ia) (hsd : src ≠ dst) (hxs : x.ia ≠ src) (hxd : x.ia ≠ dst)
    (hmid : ∀ e ∈ r, e.ia ≠ src ∧ e.ia ≠ dst ∧ expired now ts e.hop.exp = false)
    (hexpt : expired now ts top.hop.exp = false) (hexpp : expired now ts pU.hop.exp = false)
    (i1 : Info) (h1 : Hop) (t1 : List Hop) (fuel : Nat) :
    ∃ g, (net pU.peerAS).iface pU.peerIf = some g ∧
      run mac net now src dst (fuel + 2 + r.length) src 0 .host
        ⟨[], ⟨false, true, updateSegID bU (pfx top.hop.mac), ts⟩, [], hopOf top.hop,
          (r.map fun e => hopOf e.hop) ++ [hopOf pU.hop], [⟨i1, h1 :: t1⟩]⟩ [] =
      run mac net now src dst fuel pU.peerAS 0 (.ext pU.peerIf)
        ⟨[⟨⟨false, true, extractBeta (updateSegID bU (pfx top.hop.mac)) (sig r), ts⟩,
            (hopOf top.hop :: r.map fun e => hopOf e.hop) ++ [hopOf pU.hop]⟩], i1, [], h1, t1, []⟩
        ((top.ia, top.hop.cIn) :: ((firstOf r x).ia, (firstOf r x).hop.cEg) :: fTrace false r x ++
          [(x.ia, pU.hop.cIn), (pU.peerAS, pU.peerIf)]) := by
  have hne : r ++ [x] = firstOf r x :: (r ++ [x]).tail := by
    cases r <;> simp [firstOf]
  have hFL' := hFL
  rw [hne] at hFL'
  simp only [FL] at hFL'
  obtain ⟨hm, ⟨f, g, hf, hout, hfn, hfi, hg, _, _, _, _, _⟩, _⟩ := hFL'
  simp only [usedAt, outF, inF, Bool.false_eq_true, if_false] at hm hf hout hfi hg
  -- first hop
  have hstep := first_step_pr mac net now src dst false true ts (updateSegID bU (pfx top.hop.mac))
    (hopOf top.hop) ((r.map fun e => hopOf e.hop) ++ [hopOf pU.hop]) [⟨i1, h1 :: t1⟩] f rfl (by simp)
    (by simp) hsd (by rw [hsrc]; simpa [macOk, hopOf] using hm.1.symm) (by simpa [hopOf] using hexpt)
    rfl rfl (by rw [hsrc]; simpa [outSide, hopOf] using hf) (by simpa [outSide, hopOf] using hout)
    (hUp _ _ _ hf) (hSR _ _ _ hf)
  have hf' : (net src).iface (outSide false (hopOf top.hop)) = some f := by
    rw [hsrc]; simpa [outSide, hopOf] using hf
  have hg' : (net f.nbr).iface f.nbrIf = some g := by rw [hfn, hfi]; exact hg
  have h1' : fuel + 2 + r.length = ((fuel + 1) + r.length) + 1 := by omega
  rw [h1', run_forward_ext mac net now src dst _ src 0 .host _ _ [] (outSide false (hopOf top.hop)) f g
    hstep hf' (hSR _ _ _ hf) hg', hSR _ _ _ hg, hfn, hfi]
  -- transit ASes
  have hT := fl_transits mac net now src dst true false false ts hUp hSR r top x bU hFL hmid
  have hrun := run_transits_pr hT [] [⟨i1, h1 :: t1⟩] rfl (by simp) [hopOf top.hop] (hopOf pU.hop) []
    (fuel + 1) ([] ++ [(src, outSide false (hopOf top.hop)), ((firstOf r x).ia, (firstOf r x).hop.cEg)])
    (by simp)
  simp only [List.length_map, egSeg, Bool.false_eq_true, if_false, inF] at hrun ⊢
  rw [hrun]
  simp only [mkCur]
  -- the peering AS
  obtain ⟨hml, hin0, gi, hgi, hgilt⟩ := fl_last mac net false false ts r top x bU hFL
  obtain ⟨fp, hfp, hfplt, hpas, hpif, hpeg, hpmac⟩ := hml.2 pU hpU
  simp only [usedAt, Bool.false_eq_true, if_false, inF] at hpmac hin0 hgi
  have hcancel : ∀ A σ : Nat, updateSegID (updateSegID A σ) σ = A := by
    intro A σ; simp only [updateSegID]; exact Scion.SegID.xor_cancel A σ
  rw [hcancel] at hpmac
  have hp0 : pU.hop.cIn ≠ 0 := (hWF _ _ _ hfp).1
  obtain ⟨_, _, gp, hgp, _, _, _⟩ := hWF _ _ _ hfp
  have hpstep := peer_out_ext mac net now src dst ts
    (extractBeta (updateSegID bU (pfx top.hop.mac)) (sig r)) x.ia x.hop.cEg (hopOf pU.hop)
    ([hopOf top.hop] ++ r.map fun e => hopOf e.hop) i1 h1 t1 gi fp hin0
    (by simp [hopOf, hpeg]) hxs hxd (by simpa [macOk, hopOf] using hpmac.symm)
    (by simpa [hopOf] using hexpp) rfl rfl hgi (by simpa [hopOf] using hfp) (by simpa [hopOf] using hp0)
    (hUp _ _ _ hfp) (hSR _ _ _ hfp) (ltSame_child_peer _ _ hgilt hfplt)
  have hfp' : (net x.ia).iface (hopOf pU.hop).cIn = some fp := by simpa [hopOf] using hfp
  rw [run_forward_ext mac net now src dst fuel x.ia 0 _ _ _ _ (hopOf pU.hop).cIn fp gp hpstep hfp'
    (hSR _ _ _ hfp) hgp, hSR _ _ _ hgp]
  refine ⟨gp, by rw [hpas, hpif]; exact hgp, ?_⟩
  rw [← hpas, ← hpif]
  simp [outSide, hopOf, hsrc, List.append_assoc]

/-- **up segment of a peering path consisting of the peering AS only** (the source AS peers) -/
theorem peer_up_single_run (segU : Nat) (x : ASE) (pU : PeerE) (f : Iface)
    (hmac : pU.hop.mac = mac (net x.ia).key (macInput segU ts pU.hop.exp pU.hop.cIn pU.hop.cEg))
    (hf : (net x.ia).iface pU.hop.cIn = some f) (hpas : pU.peerAS = f.nbr) (hpif : pU.peerIf = f.nbrIf)
    (hsrc : src = x.ia) (hsd : src ≠ dst) (hexpp : expired now ts pU.hop.exp = false)
    (i1 : Info) (h1 : Hop) (t1 : List Hop) (fuel : Nat) :
    ∃ g, (net pU.peerAS).iface pU.peerIf = some g ∧
      run mac net now src dst (fuel + 1) src 0 .host
        ⟨[], ⟨false, true, segU, ts⟩, [], hopOf pU.hop, [], [⟨i1, h1 :: t1⟩]⟩ [] =
      run mac net now src dst fuel pU.peerAS 0 (.ext pU.peerIf)
        ⟨[⟨⟨false, true, segU, ts⟩, [hopOf pU.hop]⟩], i1, [], h1, t1, []⟩
        [(x.ia, pU.hop.cIn), (pU.peerAS, pU.peerIf)] := by
  have hp0 : pU.hop.cIn ≠ 0 := (hWF _ _ _ hf).1
  obtain ⟨_, _, gp, hgp, _, _, _⟩ := hWF _ _ _ hf
  have hpstep := peer_out_host mac net now src dst ts segU (hopOf pU.hop) i1 h1 t1 f hsd
    (by rw [hsrc]; simpa [macOk, hopOf] using hmac.symm) (by simpa [hopOf] using hexpp) rfl
    (by rw [hsrc]; simpa [hopOf] using hf) (by simpa [hopOf] using hp0) (hUp _ _ _ hf) (hSR _ _ _ hf)
  have hf' : (net src).iface (hopOf pU.hop).cIn = some f := by rw [hsrc]; simpa [hopOf] using hf
  rw [run_forward_ext mac net now src dst fuel src 0 .host _ _ [] (hopOf pU.hop).cIn f gp hpstep hf'
    (hSR _ _ _ hf) hgp, hSR _ _ _ hgp]
  refine ⟨gp, by rw [hpas, hpif]; exact hgp, ?_⟩
  rw [hpas, hpif]
  simp [hopOf, hsrc]

end

end Scion.Net
