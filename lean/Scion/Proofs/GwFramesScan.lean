import Scion.Model.GwFrames
/-! C41 helper lemmas, part 1: what the receiver's packet scan (`ProcessCompletePkts`) does on
bytes that are a concatenation of valid packets followed by the head of a valid packet. -/
namespace Scion.Proofs.GwFrames
open Scion.GwFrames Scion.Util

theorem getElem?_append_take (p x : Bytes) (k i : Nat) (hi : i < k) (hk : i < p.length) :
    (p.take k ++ x)[i]? = p[i]? := by
  rw [List.getElem?_append_left (by simp [List.length_take]; omega)]
  rw [List.getElem?_take_of_lt hi]

/-- a valid packet has at least 20 bytes -/
theorem valid_length (p : Bytes) (h : validPkt p = true) : 20 ≤ p.length := by
  unfold validPkt at h
  split at h
  · cases h
  · split at h
    · split at h
      · cases h
      · omega
    · split at h
      · split at h
        · cases h
        · omega
      · cases h

/-- the receiver reads the length of a valid packet `p` from any byte string that starts with
at least `min 40 |p|` bytes of `p` -/
theorem declLen_of_head (p x : Bytes) (k : Nat) (hv : validPkt p = true)
    (hk : min 40 p.length ≤ k) : declLen (p.take k ++ x) = some p.length := by
  have hlen := valid_length p hv
  unfold validPkt at hv
  unfold declLen
  have h0 : (p.take k ++ x)[0]? = p[0]? := getElem?_append_take p x k 0 (by omega) (by omega)
  rw [h0]
  split at hv
  · cases hv
  · rename_i b0 hb0
    try simp only [hb0]
    have hl : min k p.length ≤ (p.take k ++ x).length := by simp [List.length_take]
    split at hv
    · -- IPv4
      rename_i h4
      rw [if_pos h4]
      rw [if_neg (by omega)] at hv
      rw [if_neg (by omega)]
      have h2 : (p.take k ++ x)[2]? = p[2]? := getElem?_append_take p x k 2 (by omega) (by omega)
      have h3 : (p.take k ++ x)[3]? = p[3]? := getElem?_append_take p x k 3 (by omega) (by omega)
      rw [h2, h3]
      split at hv
      · rename_i a b ha hb
        simp only [beq_iff_eq] at hv
        try simp only [ha, hb]
        rw [if_neg (by omega), hv]
      · cases hv
    · rename_i h4
      rw [if_neg h4]
      split at hv
      · rename_i h6
        rw [if_pos h6]
        split at hv
        · cases hv
        · rename_i hge
          rw [if_neg (by omega)]
          have h4' : (p.take k ++ x)[4]? = p[4]? := getElem?_append_take p x k 4 (by omega) (by omega)
          have h5' : (p.take k ++ x)[5]? = p[5]? := getElem?_append_take p x k 5 (by omega) (by omega)
          rw [h4', h5']
          split at hv
          · rename_i a b ha hb
            simp only [beq_iff_eq] at hv
            try simp only [ha, hb]
            congr 1
            omega
          · cases hv
      · cases hv

theorem declLen_valid (p x : Bytes) (hv : validPkt p = true) :
    declLen (p ++ x) = some p.length := by
  have := declLen_of_head p x p.length hv (by omega)
  rwa [List.take_length] at this

theorem scan_nil : scan [] = ⟨[], 0, none⟩ := by
  rw [scan]; simp

/-- a complete valid packet at the front is written out and the scan continues behind it -/
theorem scan_valid (p rest : Bytes) (hv : validPkt p = true) :
    scan (p ++ rest) =
      ⟨p :: (scan rest).out, p.length + (scan rest).consumed, (scan rest).frag⟩ := by
  have hlen := valid_length p hv
  rw [scan]
  have hne : ¬ (p ++ rest).length = 0 := by rw [List.length_append]; omega
  rw [dif_neg hne]
  have hd := declLen_valid p rest hv
  split
  · rename_i h; rw [hd] at h; cases h
  · rename_i l h
    rw [hd] at h
    cases h
    rw [dif_neg (by simp), dif_neg (by omega)]
    simp

/-- the head (at least 40 bytes, not all) of a valid packet ends the scan with a fragment -/
theorem scan_head (p : Bytes) (k : Nat) (hv : validPkt p = true) (hk : 40 ≤ k)
    (hlt : k < p.length) : scan (p.take k) = ⟨[], 0, some p.length⟩ := by
  rw [scan]
  have hl : (p.take k).length = k := by simp [List.length_take]; omega
  rw [dif_neg (by omega)]
  have hd := declLen_of_head p [] k hv (by omega)
  rw [List.append_nil] at hd
  split
  · rename_i h; rw [hd] at h; cases h
  · rename_i l h
    rw [hd] at h
    cases h
    rw [dif_pos (by omega)]

/-- `h` is nothing, or the head of valid packet `cur` of which at least 40 bytes but not all are
present -/
def HeadOK (h : Bytes) (cur : Option Bytes) : Prop :=
  match cur with
  | none => h = []
  | some p => validPkt p = true ∧ ∃ k, h = p.take k ∧ 40 ≤ k ∧ k < p.length

def curLen : Option Bytes → Option Nat
  | none => none
  | some p => some p.length

theorem scan_shape (qs : List Bytes) (h : Bytes) (cur : Option Bytes)
    (hq : ∀ q ∈ qs, validPkt q = true) (hh : HeadOK h cur) :
    scan (qs.flatten ++ h) = ⟨qs, qs.flatten.length, curLen cur⟩ := by
  induction qs with
  | nil =>
    simp only [List.flatten_nil, List.nil_append, List.length_nil]
    cases cur with
    | none => simp only [HeadOK] at hh; subst hh; exact scan_nil
    | some p =>
      obtain ⟨hv, k, rfl, hk, hlt⟩ := hh
      exact scan_head p k hv hk hlt
  | cons q qs ih =>
    simp only [List.flatten_cons, List.append_assoc]
    rw [scan_valid q _ (hq q (by simp))]
    rw [ih (fun x hx => hq x (by simp [hx]))]
    simp [List.length_append]

theorem headOK_length (h : Bytes) (cur : Option Bytes) (hh : HeadOK h cur) :
    (h = [] ↔ cur = none) := by
  cases cur with
  | none => simp only [HeadOK] at hh; simp [hh]
  | some p =>
    obtain ⟨_, k, rfl, hk, hlt⟩ := hh
    constructor
    · intro he
      have : (p.take k).length = k := by simp [List.length_take]; omega
      rw [he] at this; simp at this; omega
    · intro he; cases he

end Scion.Proofs.GwFrames
