import Scion.Model.SegID
/-! Helper lemmas for C22 (SegID accumulator synchronisation).  Core Lean only. -/
namespace Scion.SegID

theorem xor_cancel (a b : Nat) : a ^^^ b ^^^ b = a := by
  rw [Nat.xor_assoc, Nat.xor_self, Nat.xor_zero]

/-- XOR of all elements -/
def xorAll : List Nat → Nat
  | [] => 0
  | x :: xs => x ^^^ xorAll xs

theorem xorAll_append (a b : List Nat) : xorAll (a ++ b) = xorAll a ^^^ xorAll b := by
  induction a with
  | nil => simp [xorAll]
  | cons x xs ih => simp [xorAll, ih, Nat.xor_assoc]

theorem xorAll_reverse (a : List Nat) : xorAll a.reverse = xorAll a := by
  induction a with
  | nil => rfl
  | cons x xs ih => simp [xorAll, xorAll_append, ih, Nat.xor_comm]

theorem extractBeta_eq (s0 : Nat) (l : List Nat) : extractBeta s0 l = s0 ^^^ xorAll l := by
  induction l generalizing s0 with
  | nil => simp [extractBeta, xorAll]
  | cons x xs ih =>
    have : extractBeta s0 (x :: xs) = extractBeta (s0 ^^^ x) xs := by
      simp [extractBeta, updateSegID]
    rw [this, ih, xorAll, Nat.xor_assoc]

theorem extractBeta_append (s0 : Nat) (a b : List Nat) :
    extractBeta s0 (a ++ b) = extractBeta (extractBeta s0 a) b := by
  simp [extractBeta, List.foldl_append]

theorem betas_length (s0 : Nat) (σ : List Nat) : (betas s0 σ).length = σ.length := by
  induction σ generalizing s0 with
  | nil => rfl
  | cons x xs ih => simp [betas, ih]

theorem betas_getElem? (s0 : Nat) (σ : List Nat) (i : Nat) (h : i < σ.length) :
    (betas s0 σ)[i]? = some (beta s0 σ i) := by
  induction σ generalizing s0 i with
  | nil => cases h
  | cons x xs ih =>
    cases i with
    | zero => simp [betas, beta, extractBeta]
    | succ j =>
      simp only [betas, List.getElem?_cons_succ]
      rw [ih (updateSegID s0 x) j (by simpa using h)]
      simp [beta, extractBeta]

/-- dropping the first `pre.length` accumulators = restarting from β_{|pre|} -/
theorem betas_append (s0 : Nat) (pre l : List Nat) :
    betas s0 (pre ++ l) = betas s0 pre ++ betas (extractBeta s0 pre) l := by
  induction pre generalizing s0 with
  | nil => simp [betas, extractBeta]
  | cons x xs ih =>
    simp only [List.cons_append, betas, ih]
    simp [extractBeta]

theorem betas_drop (s0 : Nat) (pre l : List Nat) :
    (betas s0 (pre ++ l)).drop pre.length = betas (extractBeta s0 pre) l := by
  rw [betas_append]
  have : pre.length = (betas s0 pre).length := (betas_length _ _).symm
  rw [this, List.drop_left]

theorem take_len_add (pre l : List Nat) (k : Nat) :
    (pre ++ l).take (pre.length + k) = pre ++ l.take k := by
  rw [List.take_append]
  simp [List.take_of_length_le]

theorem runHops_append (c : Bool) (seg : Nat) (a b : List HopCtx) :
    runHops c seg (a ++ b) = runHops c seg a ++ runHops c (finalSeg c seg a) b := by
  induction a generalizing seg with
  | nil => simp [runHops, finalSeg]
  | cons h hs ih => simp [runHops, finalSeg, ih]

/-! ### construction direction -/

theorem run_tailCtx (seg : Nat) (l : List Nat) : runHops true seg (tailCtx l) = betas seg l := by
  induction l generalizing seg with
  | nil => rfl
  | cons x r ih =>
    cases r with
    | nil => simp [tailCtx, runHops, betas, ingressUpdate]
    | cons y r' =>
      have := ih (updateSegID seg x)
      simp only [tailCtx, runHops, betas, ingressUpdate, egressUpdate] at this ⊢
      simp [this]

theorem final_tailCtx (seg : Nat) (l : List Nat) :
    finalSeg true seg (tailCtx l) = extractBeta seg l.dropLast := by
  induction l generalizing seg with
  | nil => rfl
  | cons x r ih =>
    cases r with
    | nil => simp [tailCtx, finalSeg, ingressUpdate, egressUpdate, extractBeta]
    | cons y r' =>
      have := ih (updateSegID seg x)
      simp only [tailCtx, finalSeg, ingressUpdate, egressUpdate] at this ⊢
      simp [this, extractBeta, List.dropLast]

/-! ### against construction direction -/

theorem upBody_false_append (a b : List Nat) :
    upBody false (a ++ b) = upBody false a ++ upBody false b := by
  induction a with
  | nil => rfl
  | cons x xs ih => simp [upBody, ih]

theorem final_upBody_false (seg : Nat) (r : List Nat) :
    finalSeg false seg (upBody false r) = seg ^^^ xorAll r := by
  induction r generalizing seg with
  | nil => simp [upBody, finalSeg, xorAll]
  | cons x xs ih =>
    simp only [upBody, finalSeg, ingressUpdate, egressUpdate, updateSegID, xorAll]
    simp [ih, Nat.xor_assoc]

/-- every hop entered over an external link: starting from β_n the routers use
    β_{n-1}, …, β_0 (base = β of the first entry of `l`) -/
theorem run_upBody_all (base : Nat) (l : List Nat) :
    runHops false (base ^^^ xorAll l) (upBody false l.reverse) = (betas base l).reverse := by
  induction l generalizing base with
  | nil => rfl
  | cons x xs ih =>
    rw [List.reverse_cons, upBody_false_append, runHops_append, final_upBody_false]
    have h1 : base ^^^ xorAll (x :: xs) = (base ^^^ x) ^^^ xorAll xs := by
      simp [xorAll, Nat.xor_assoc]
    rw [h1, ih (base ^^^ x)]
    simp only [betas, List.reverse_cons, updateSegID]
    congr 1
    simp only [upBody, runHops, ingressUpdate, updateSegID, xorAll_reverse]
    simp only [Bool.not_false, Bool.and_self, if_true]
    rw [xor_cancel, xor_cancel]

theorem finalSeg_append (c : Bool) (seg : Nat) (a b : List HopCtx) :
    finalSeg c seg (a ++ b) = finalSeg c (finalSeg c seg a) b := by
  induction a generalizing seg with
  | nil => rfl
  | cons h hs ih => simp [finalSeg, ih]

/-! ### `calculateBeta` on a segment split as `pre ++ x :: rest` (entry/exit AS = `x`) -/

theorem calc_down (s0 : Nat) (pre : List Nat) (x : Nat) (rest : List Nat) (peer : Bool) :
    calculateBeta true pre.length peer s0 (pre ++ x :: rest) =
      some (if peer then updateSegID (extractBeta s0 pre) x else extractBeta s0 pre) := by
  have h1 : (pre ++ x :: rest).take (pre.length + 1) = pre ++ [x] := by
    rw [take_len_add]; simp
  cases peer <;> simp [calculateBeta, betaIndex, h1, extractBeta]

theorem calc_up_single (s0 : Nat) (pre : List Nat) (x : Nat) (peer : Bool) :
    calculateBeta false pre.length peer s0 (pre ++ [x]) =
      some (if peer then updateSegID (extractBeta s0 pre) x else extractBeta s0 pre) := by
  have h0 : (pre ++ [x]).take pre.length = pre := by
    have := take_len_add pre [x] 0; simpa using this
  have h1 : (pre ++ [x]).take (pre.length + 1) = pre ++ [x] := List.take_of_length_le (by simp)
  cases peer <;> simp [calculateBeta, betaIndex, h0, h1, extractBeta]

theorem calc_up_multi (s0 : Nat) (pre : List Nat) (x y : Nat) (mid : List Nat) (peer : Bool) :
    calculateBeta false pre.length peer s0 (pre ++ x :: (mid ++ [y])) =
      some (updateSegID (extractBeta s0 pre) x ^^^ xorAll mid) := by
  have hlen : (pre ++ x :: (mid ++ [y])).length - 1 = pre.length + (1 + mid.length) := by
    simp; omega
  have hne : ¬ (pre.length + (1 + mid.length) = pre.length ∧ peer = true) := by
    intro h; have := h.1; omega
  have hn0 : ¬ (pre ++ x :: (mid ++ [y])).length = 0 := by simp
  have h2 : (pre ++ x :: (mid ++ [y])).take (pre.length + (1 + mid.length)) = pre ++ x :: mid := by
    rw [take_len_add]
    have : (x :: (mid ++ [y])).take (1 + mid.length) = x :: mid := by
      rw [Nat.add_comm, List.take_succ_cons, List.take_left]
    rw [this]
  have hle : pre.length + (1 + mid.length) ≤ (pre ++ x :: (mid ++ [y])).length := by
    simp; omega
  unfold calculateBeta betaIndex
  simp only [Bool.false_eq_true, if_false, hn0, hlen, hne, hle, if_true, h2]
  have : pre ++ x :: mid = pre ++ [x] ++ mid := by simp
  rw [this, extractBeta_append, extractBeta_append, extractBeta_eq _ mid]
  simp [extractBeta]

end Scion.SegID
