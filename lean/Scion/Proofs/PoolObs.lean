import Scion.Proofs.Pool
/-! C14: what the scripted sockets can observe of a run of the ownership model is always
accepted by the acceptor `obsStep` (the acceptor never rejects a behaviour of the protocol).
Core Lean only. -/
namespace Scion.Pool

/-- the socket-level observations an event gives rise to -/
def Ev.obs : Ev → List ObsEv
  | .rxGet c b => [.hold c b]
  | .rxRead c bs => bs.map (ObsEv.fill c)
  | .rxStopPut c b => [.release c b]
  | .txTake l b => [.present l b]
  | .txPut l b => [.done l b]
  | _ => []

def obsRun (σ : ObsState) : List ObsEv → Except String ObsState
  | [] => .ok σ
  | e :: es => match obsStep σ e with
    | .ok σ' => obsRun σ' es
    | .error w => .error w

/-- what the sockets know about a buffer at a location -/
def Loc.seen : Loc → Seen
  | .rx c => .rx c
  | .tx l => .tx l
  | _ => .flight

/-- the acceptor's book-keeping agrees with the model state -/
def Agree (h : List (Loc × Buf)) (σ : ObsState) : Prop := ∀ p ∈ h, seen σ p.2 = p.1.seen

theorem seen_setSeen_same (σ : ObsState) (b : Buf) (v : Seen) : seen (setSeen σ b v) b = v := by
  simp [seen, setSeen]

theorem find_filter_ne (σ : ObsState) (b b' : Buf) (h : b' ≠ b) :
    (σ.filter (fun p => p.1 != b)).find? (fun p => p.1 == b') =
      σ.find? (fun p => p.1 == b') := by
  induction σ with
  | nil => rfl
  | cons x xs ih =>
    simp only [List.filter_cons]
    by_cases hx : x.1 = b
    · have h1 : (x.1 != b) = false := by simp [hx]
      have h2 : (x.1 == b') = false := by
        simp only [hx, beq_eq_false_iff_ne, ne_eq]; exact fun e => h e.symm
      simp only [h1, Bool.false_eq_true, if_false, List.find?_cons, h2]
      exact ih
    · have h1 : (x.1 != b) = true := by simp [hx]
      simp only [h1, if_true, List.find?_cons]
      cases hb : (x.1 == b')
      · exact ih
      · rfl

theorem seen_setSeen_other (σ : ObsState) (b b' : Buf) (v : Seen) (h : b' ≠ b) :
    seen (setSeen σ b v) b' = seen σ b' := by
  unfold seen setSeen
  have h1 : (b == b') = false := by
    simp only [beq_eq_false_iff_ne, ne_eq]; exact fun e => h e.symm
  simp only [List.find?_cons, h1]
  rw [find_filter_ne σ b b' h]

/-- after erasing the (only) holding of `b`, no holding of `b` is left -/
theorem snd_ne_of_mem_erase (h : List (Loc × Buf)) (hn : (bufs h).Nodup) (src : Loc) (b : Buf)
    (hin : (src, b) ∈ h) (p : Loc × Buf) (hp : p ∈ h.erase (src, b)) : p.2 ≠ b := by
  intro he
  have hperm : h.Perm ((src, b) :: h.erase (src, b)) := List.perm_cons_erase hin
  have hpm := hperm.map (fun p : Loc × Buf => p.2)
  have hn2 : (bufs ((src, b) :: h.erase (src, b))).Nodup := by
    unfold bufs at hn ⊢
    exact hpm.nodup_iff.mp hn
  simp only [bufs, List.map_cons, List.nodup_cons] at hn2
  exact hn2.1 (List.mem_map.mpr ⟨p, hp, he⟩)

/-- moving `b` and recording its new status keeps the agreement -/
theorem agree_move (h h' : List (Loc × Buf)) (σ : ObsState) (src dst : Loc) (b : Buf)
    (hn : (bufs h).Nodup) (ha : Agree h σ) (hm : moveOne h src dst b = some h') :
    Agree h' (setSeen σ b dst.seen) := by
  unfold moveOne at hm
  split at hm
  · rename_i hin
    cases hm
    intro p hp
    rcases List.mem_append.mp hp with h1 | h1
    · have hne := snd_ne_of_mem_erase h hn src b hin p h1
      rw [seen_setSeen_other _ _ _ _ hne]
      exact ha p (List.mem_of_mem_erase h1)
    · simp only [List.mem_cons, List.mem_nil_iff, or_false] at h1
      rw [h1]; exact seen_setSeen_same _ _ _
  · cases hm

/-- a move the sockets cannot see (both places look the same from outside) -/
theorem agree_move_silent (h h' : List (Loc × Buf)) (σ : ObsState) (src dst : Loc) (b : Buf)
    (ha : Agree h σ) (hm : moveOne h src dst b = some h') (hs : src.seen = dst.seen) :
    Agree h' σ := by
  unfold moveOne at hm
  split at hm
  · rename_i hin
    cases hm
    intro p hp
    rcases List.mem_append.mp hp with h1 | h1
    · exact ha p (List.mem_of_mem_erase h1)
    · simp only [List.mem_cons, List.mem_nil_iff, or_false] at h1
      rw [h1]
      have := ha (src, b) hin
      dsimp only at this ⊢
      rw [this, hs]
  · cases hm

theorem moveOne_src_mem (h h' : List (Loc × Buf)) (src dst : Loc) (b : Buf)
    (hm : moveOne h src dst b = some h') : (src, b) ∈ h := by
  unfold moveOne at hm
  split at hm
  · assumption
  · cases hm

theorem obsRun_append (xs ys : List ObsEv) : ∀ σ σ', obsRun σ xs = .ok σ' →
    obsRun σ (xs ++ ys) = obsRun σ' ys := by
  induction xs with
  | nil => intro σ σ' h; simp only [obsRun] at h; cases h; rfl
  | cons x xs ih =>
    intro σ σ' h
    simp only [obsRun, List.cons_append] at h ⊢
    cases hx : obsStep σ x with
    | error w => rw [hx] at h; cases h
    | ok σ1 =>
      rw [hx] at h
      have h' : obsRun σ1 xs = .ok σ' := h
      show obsRun σ1 (xs ++ ys) = obsRun σ' ys
      exact ih σ1 σ' h'

/-- `ReadBatch` fills a list of registered buffers -/
theorem fill_all (c : Nat) (bs : List Buf) : ∀ (h h' : List (Loc × Buf)) (σ : ObsState),
    (bufs h).Nodup → Agree h σ → moveAll h (.rx c) (.rxDeliver c) bs = some h' →
    ∃ σ', obsRun σ (bs.map (ObsEv.fill c)) = .ok σ' ∧ Agree h' σ' := by
  induction bs with
  | nil => intro h h' σ _ ha hm; simp only [moveAll] at hm; cases hm; exact ⟨σ, rfl, ha⟩
  | cons b bs ih =>
    intro h h' σ hn ha hm
    simp only [moveAll] at hm
    cases h1 : moveOne h (.rx c) (.rxDeliver c) b with
    | none => rw [h1] at hm; cases hm
    | some h2 =>
      rw [h1] at hm
      have hin := moveOne_src_mem _ _ _ _ _ h1
      have hs : seen σ b = .rx c := ha _ hin
      have ha2 := agree_move h h2 σ _ _ b hn ha h1
      have hn2 : (bufs h2).Nodup := (moveOne_perm h h2 _ _ b h1).nodup_iff.mpr hn
      obtain ⟨σ', hr, ha'⟩ := ih h2 h' _ hn2 ha2 hm
      refine ⟨σ', ?_, ha'⟩
      simp only [List.map_cons, obsRun, obsStep, hs, if_true]
      exact hr

/-- one event of the model: its observations are accepted and the agreement is kept -/
theorem step_obs (s s' : State) (e : Ev) (σ : ObsState) (hn : (bufs s.holdings).Nodup)
    (ha : Agree s.holdings σ) (hs : step s e = some s') :
    ∃ σ', obsRun σ e.obs = .ok σ' ∧ Agree s'.holdings σ' := by
  have hm := step_moveAll s s' e hs
  cases e with
  | rxRead c bs => exact fill_all c bs _ _ σ hn ha hm
  | rxGet c b =>
    simp only [Ev.move, moveAll] at hm
    cases h1 : moveOne s.holdings .pool (.rx c) b with
    | none => rw [h1] at hm; cases hm
    | some h2 =>
      rw [h1] at hm; cases hm
      have hsn : seen σ b = .flight := ha _ (moveOne_src_mem _ _ _ _ _ h1)
      refine ⟨setSeen σ b (.rx c), ?_, agree_move _ _ σ _ _ b hn ha h1⟩
      simp only [Ev.obs, obsRun, obsStep, hsn]
  | rxStopPut c b =>
    simp only [Ev.move, moveAll] at hm
    cases h1 : moveOne s.holdings (.rx c) .pool b with
    | none => rw [h1] at hm; cases hm
    | some h2 =>
      rw [h1] at hm; cases hm
      have hsn : seen σ b = .rx c := ha _ (moveOne_src_mem _ _ _ _ _ h1)
      refine ⟨setSeen σ b .flight, ?_, agree_move _ _ σ _ _ b hn ha h1⟩
      simp only [Ev.obs, obsRun, obsStep, hsn, true_or, if_true]
  | txTake l b =>
    simp only [Ev.move, moveAll] at hm
    cases h1 : moveOne s.holdings (.egressQ l) (.tx l) b with
    | none => rw [h1] at hm; cases hm
    | some h2 =>
      rw [h1] at hm; cases hm
      have hsn : seen σ b = .flight := ha _ (moveOne_src_mem _ _ _ _ _ h1)
      refine ⟨setSeen σ b (.tx l), ?_, agree_move _ _ σ _ _ b hn ha h1⟩
      simp only [Ev.obs, obsRun, obsStep, hsn]
  | txPut l b =>
    simp only [Ev.move, moveAll] at hm
    cases h1 : moveOne s.holdings (.tx l) .pool b with
    | none => rw [h1] at hm; cases hm
    | some h2 =>
      rw [h1] at hm; cases hm
      have hsn : seen σ b = .tx l := ha _ (moveOne_src_mem _ _ _ _ _ h1)
      refine ⟨setSeen σ b .flight, ?_, agree_move _ _ σ _ _ b hn ha h1⟩
      simp only [Ev.obs, obsRun, obsStep, hsn, if_true]
  | _ =>
    simp only [Ev.move, moveAll] at hm
    first
    | (cases h1 : moveOne s.holdings _ _ _ with
       | none => rw [h1] at hm; cases hm
       | some h2 =>
         rw [h1] at hm; cases hm
         exact ⟨σ, rfl, agree_move_silent _ _ σ _ _ _ ha h1 rfl⟩)

theorem run_obs (es : List Ev) : ∀ (s s' : State) (σ : ObsState), (bufs s.holdings).Nodup →
    Agree s.holdings σ → run s es = some s' →
    ∃ σ', obsRun σ (es.flatMap Ev.obs) = .ok σ' ∧ Agree s'.holdings σ' := by
  induction es with
  | nil => intro s s' σ _ ha h; simp only [run] at h; cases h; exact ⟨σ, rfl, ha⟩
  | cons e es ih =>
    intro s s' σ hn ha h
    simp only [run] at h
    cases hs : step s e with
    | none => rw [hs] at h; cases h
    | some s1 =>
      rw [hs] at h
      obtain ⟨σ1, hr1, ha1⟩ := step_obs s s1 e σ hn ha hs
      have hn1 : (bufs s1.holdings).Nodup := (step_perm s s1 e hs).nodup_iff.mpr hn
      obtain ⟨σ', hr', ha'⟩ := ih s1 s' σ1 hn1 ha1 h
      refine ⟨σ', ?_, ha'⟩
      simp only [List.flatMap_cons]
      rw [obsRun_append _ _ σ σ1 hr1]
      exact hr'

end Scion.Pool
