import Scion.Proofs.NetSpec
import Scion.Proofs.NetEdge
/-! From joinable edge lists (no peering) to segment descriptions, and C02 for all of them.
Core Lean only. -/
namespace Scion.Net
open Scion.SegID (updateSegID extractBeta xorAll)

/-- an edge without peering, described as a `SegSpec` -/
theorem edge_spec (mac : MacFn) (net : Net) (hWF : WFNet net) (e : Edge) (hpeer : e.peer = none)
    (hval : e.Valid mac net) :
    ∃ s : SegSpec, s.cd = e.down ∧ s.core = e.core ∧ s.ts = e.seg.ts ∧ edgeSeg e = some s.toSeg ∧
      FL mac net s.core s.cd s.ts s.seg0 s.l ∧ e.ases = s.l.map (·.ia) ∧ edgeIfaces e = s.trace := by
  cases hd : e.down with
  | true =>
    obtain ⟨pre, x, mid, last, hs, hc, ha, hi⟩ := down_edge_facts mac net e hd hpeer hval
    refine ⟨⟨true, e.core, e.seg.ts, extractBeta e.seg.s0 (sig pre), x, mid, last⟩, rfl, rfl, rfl, ?_,
      ?_, ?_, ?_⟩
    · rw [hs]; simp [SegSpec.toSeg, SegSpec.hops, SegSpec.l, usedAt]
    · exact chain_FL mac net e.core e.seg.ts hWF _ _ hc
    · rw [ha]; rfl
    · rw [hi]; simp [SegSpec.trace, downTrace_eq, outF, inF]
  | false =>
    obtain ⟨b, top, r, x, hs, hc, ha, hi⟩ := up_edge_facts mac net e hd hpeer hval
    refine ⟨⟨false, e.core, e.seg.ts, b, top, r, x⟩, rfl, rfl, rfl, ?_, ?_, ?_, ?_⟩
    · rw [hs]; simp [SegSpec.toSeg, SegSpec.hops, SegSpec.l, usedAt]
    · exact chainUp_FL mac net e.core e.seg.ts hWF _ _ hc
    · rw [ha]; rfl
    · rw [hi]; simp [SegSpec.trace, upTrace_eq, outF, inF]

/-- links and joints of a list of segment descriptions (no distinctness, no expiry) -/
def SpecsLink (mac : MacFn) (net : Net) : SegSpec → List SegSpec → Prop
  | s, [] => FL mac net s.core s.cd s.ts s.seg0 s.l
  | s, s2 :: r =>
    FL mac net s.core s.cd s.ts s.seg0 s.l ∧ s.last.ia = s2.e0.ia ∧ XLT s s2 ∧ SpecsLink mac net s2 r

def specASes : SegSpec → List SegSpec → List Nat
  | s, [] => s.l.map (·.ia)
  | s, s2 :: r => (s.e0 :: s.mid).map (·.ia) ++ specASes s2 r

def specIfaces (s : SegSpec) (rest : List SegSpec) : List (Nat × Nat) :=
  s.trace ++ (rest.map SegSpec.trace).flatten

def skind (s : SegSpec) : Nat := if s.core then 1 else if s.cd then 2 else 0

theorem xlt_of_kind (s s2 : SegSpec) (h : skind s < skind s2) : XLT s s2 := by
  intro a b ha hb
  obtain ⟨cd, core, _, _, _, _, _⟩ := s
  obtain ⟨cd2, core2, _, _, _, _, _⟩ := s2
  cases cd <;> cases core <;> cases cd2 <;> cases core2 <;> cases a <;> cases b <;>
    simp_all [skind, InLT, EgLT, opposite, beaconLink, ltXover]

theorem getLast?_l (s : SegSpec) : (s.l.map (·.ia)).getLast? = some s.last.ia := by
  simp only [SegSpec.l, List.map_cons, List.map_append, List.map_nil]
  exact getLast?_cons_snoc _ _ _

theorem dropLast_l (s : SegSpec) : (s.l.map (·.ia)).dropLast = (s.e0 :: s.mid).map (·.ia) := by
  simp only [SegSpec.l]
  rw [show s.e0 :: (s.mid ++ [s.last]) = (s.e0 :: s.mid) ++ [s.last] by simp, List.map_append]
  exact List.dropLast_concat

theorem edges_specs (mac : MacFn) (net : Net) (hWF : WFNet net) (es : List Edge) :
    ∀ (e : Edge), (∀ x ∈ e :: es, x.peer = none ∧ x.Valid mac net) → Joints (e :: es) →
      ∃ s rest, segsOf (e :: es) = some ((s :: rest).map SegSpec.toSeg) ∧ SpecsLink mac net s rest ∧
        pathASes (e :: es) = specASes s rest ∧ pathIfaces (e :: es) = specIfaces s rest ∧
        skind s = e.kind ∧ e.ases = s.l.map (·.ia) := by
  induction es with
  | nil =>
    intro e hall _
    obtain ⟨hp, hv⟩ := hall e (by simp)
    obtain ⟨s, h1, h2, _, h4, h5, h6, h7⟩ := edge_spec mac net hWF e hp hv
    refine ⟨s, [], ?_, h5, ?_, ?_, ?_, h6⟩
    · simp [segsOf, h4]
    · simp [pathASes, specASes, h6]
    · simp [pathIfaces, specIfaces, h7]
    · simp [skind, Edge.kind, h1, h2]
  | cons e2 es ih =>
    intro e hall hj
    obtain ⟨hp, hv⟩ := hall e (by simp)
    obtain ⟨s, h1, h2, _, h4, h5, h6, h7⟩ := edge_spec mac net hWF e hp hv
    obtain ⟨s2, rest, g1, g2, g3, g4, g5, g6⟩ := ih e2 (fun x hx => hall x (by simp [hx])) hj.2
    have hp2 := (hall e2 (by simp)).1
    have hjt := hj.1
    simp only [Joint, hp, hp2] at hjt
    have hks : skind s = e.kind := by simp [skind, Edge.kind, h1, h2]
    have he2 : e2.ases.head? = some s2.e0.ia := by rw [g6]; simp [SegSpec.l]
    refine ⟨s, s2 :: rest, ?_, ⟨h5, ?_, xlt_of_kind s s2 (by rw [hks, g5]; exact hjt.2), g2⟩, ?_, ?_, hks, h6⟩
    · have : segsOf (e :: e2 :: es) = (match edgeSeg e, segsOf (e2 :: es) with
          | some s, some r => some (s :: r)
          | _, _ => none) := rfl
      rw [this, h4, g1]; rfl
    · have := hjt.1
      rw [h6, getLast?_l, he2] at this
      simpa using this
    · simp only [pathASes, hp, Option.isSome_none, Bool.false_eq_true, if_false, h6, dropLast_l,
        specASes, g3]
    · simp only [pathIfaces, List.map_cons, List.flatten_cons, h7, specIfaces] at g4 ⊢
      rw [g4]

def tailAS : SegSpec → List SegSpec → List Nat
  | s, [] => (s.mid ++ [s.last]).map (·.ia)
  | s, s2 :: r => (s.mid ++ [s.last]).map (·.ia) ++ tailAS s2 r

theorem specASes_eq (mac : MacFn) (net : Net) (rest : List SegSpec) : ∀ s : SegSpec,
    SpecsLink mac net s rest → specASes s rest = s.e0.ia :: tailAS s rest := by
  induction rest with
  | nil => intro s _; simp [specASes, tailAS, SegSpec.l]
  | cons s2 r ih =>
    intro s h
    obtain ⟨_, hj, _, h2⟩ := h
    simp only [specASes, tailAS, ih s2 h2, ← hj]
    simp

theorem tailAS_getLast (rest : List SegSpec) : ∀ s : SegSpec, ∃ d, (tailAS s rest).getLast? = some d := by
  induction rest with
  | nil => intro s; exact ⟨s.last.ia, by simp [tailAS]⟩
  | cons s2 r ih =>
    intro s
    obtain ⟨d, hd⟩ := ih s2
    exact ⟨d, by rw [tailAS, List.getLast?_append, hd]; rfl⟩

/-- every hop field of the path is unexpired -/
def SpecsExp (now : Nat) (s : SegSpec) (rest : List SegSpec) : Prop :=
  ∀ sp ∈ s :: rest, ∀ e ∈ sp.l, expired now sp.ts e.hop.exp = false

theorem tailOK_of (mac : MacFn) (net : Net) (now src dst : Nat) (rest : List SegSpec) :
    ∀ s : SegSpec, SpecsLink mac net s rest → SpecsExp now s rest → src ∉ tailAS s rest →
      (tailAS s rest).Nodup → (tailAS s rest).getLast? = some dst →
      TailOK mac net now src dst s rest := by
  induction rest with
  | nil =>
    intro s hl hexp hsrc hnd hlast
    have hd : dst = s.last.ia := by
      simp [tailAS] at hlast; exact hlast.symm
    refine ⟨hl, ?_, hexp s (by simp) s.last (by simp [SegSpec.l]), hd⟩
    intro e he
    refine ⟨?_, ?_, hexp s (by simp) e (by simp [SegSpec.l, he])⟩
    · intro h; exact hsrc (by simp only [tailAS, List.map_append, List.mem_append, List.mem_map]
                              exact Or.inl ⟨e, he, h⟩)
    · simp only [tailAS, List.map_append, List.map_cons, List.map_nil, List.nodup_append] at hnd
      rw [hd]
      exact hnd.2.2 e.ia (List.mem_map.2 ⟨e, he, rfl⟩) s.last.ia (by simp)
  | cons s2 r ih =>
    intro s hl hexp hsrc hnd hlast
    obtain ⟨hfl, hj, hx, hl2⟩ := hl
    simp only [tailAS] at hsrc hnd hlast
    obtain ⟨d', hd'⟩ := tailAS_getLast r s2
    have hlastB : (tailAS s2 r).getLast? = some dst := by
      rw [List.getLast?_append, hd'] at hlast
      simp at hlast; rw [hd', hlast]
    have hdB : dst ∈ tailAS s2 r := List.mem_of_getLast? hlastB
    have hndA := (List.nodup_append.1 hnd)
    have hA : ∀ e ∈ s.mid ++ [s.last], e.ia ≠ src ∧ e.ia ≠ dst := by
      intro e he
      refine ⟨?_, ?_⟩
      · intro h; exact hsrc (List.mem_append.2 (Or.inl (List.mem_map.2 ⟨e, he, h⟩)))
      · exact hndA.2.2 e.ia (List.mem_map.2 ⟨e, he, rfl⟩) dst hdB
    refine ⟨hfl, ?_, hexp s (by simp) s.last (by simp [SegSpec.l]), (hA s.last (by simp)).1,
      (hA s.last (by simp)).2, hj, hexp s2 (by simp) s2.e0 (by simp [SegSpec.l]), hx, ?_⟩
    · intro e he
      exact ⟨(hA e (by simp [he])).1, (hA e (by simp [he])).2, hexp s (by simp) e (by simp [SegSpec.l, he])⟩
    · exact ih s2 hl2 (fun sp hsp => hexp sp (by simp at hsp ⊢; exact Or.inr hsp))
        (fun h => hsrc (List.mem_append.2 (Or.inr h))) hndA.2.1 hlastB

theorem tailTrace_eq (mac : MacFn) (net : Net) (rest : List SegSpec) : ∀ s : SegSpec,
    SpecsLink mac net s rest →
    tailTrace s rest = fTrace s.cd s.mid s.last ++ (rest.map SegSpec.trace).flatten := by
  induction rest with
  | nil => intro s _; simp [tailTrace]
  | cons s2 r ih =>
    intro s h
    obtain ⟨_, hj, _, h2⟩ := h
    simp only [tailTrace, ih s2 h2, List.map_cons, List.flatten_cons, SegSpec.trace, hj]
    simp

def restHops : List SegSpec → Nat
  | [] => 0
  | s :: r => s.mid.length + 2 + restHops r

theorem restHops_flat (rest : List SegSpec) :
    ((rest.map SegSpec.toSeg).map (·.hops)).flatten.length = restHops rest := by
  induction rest with
  | nil => rfl
  | cons s r ih =>
    simp only [List.map_cons, List.flatten_cons, List.length_append, ih, restHops]
    simp [SegSpec.toSeg, SegSpec.hops, SegSpec.l]
    try omega

theorem tailFuel_le (rest : List SegSpec) : ∀ s : SegSpec,
    tailFuel s rest + 1 ≤ s.mid.length + 2 + restHops rest := by
  induction rest with
  | nil => intro s; simp [tailFuel, restHops]
  | cons s2 r ih => intro s; have := ih s2; simp [tailFuel, restHops]; omega

theorem fuelFor_pathCur (s : SegSpec) (rest : List SegSpec) :
    fuelFor (pathCur s rest) = 2 * (s.mid.length + 2 + restHops rest) + 2 := by
  have := restHops_flat rest
  simp only [fuelFor, toFlat, Cursor.segs, Cursor.curSeg, pathCur, List.nil_append, List.map_append,
    List.map_cons, List.map_nil, List.flatten_append, List.flatten_cons, List.flatten_nil,
    List.length_append, List.length_cons, List.length_nil, List.length_map, this, List.append_nil,
    List.singleton_append]
  try omega

/-- **C02 for every path without peering**, any number of segments in any admissible combination
    (up, core, down, up+core, up+down, core+down, up+core+down and their mirror images), whole or
    cut at shortcut ASes; one border router per AS -/
theorem nonpeer_accepted (mac : MacFn) (net : Net) (now src dst : Nat)
    (hWF : WFNet net) (hUp : AllUp net) (hSR : SingleRouter net)
    (edges : List Edge) (c : Cursor) (hnp : ∀ e ∈ edges, e.peer = none)
    (hJ : Joinable mac net edges src dst) (hp : pathOf edges = some c) (hexp : Unexpired now c) :
    ∃ s rest, c = pathCur s rest ∧ PathOK mac net now src dst s rest ∧
      pathIfaces edges = pathTrace s rest ∧ SpecsLink mac net s rest ∧
      pathASes edges = specASes s rest ∧ SpecsExp now s rest ∧
      send mac net now src dst c = .delivered dst (pathIfaces edges) (finalCur rest [] s) := by
  obtain ⟨hne, _, hval, hjoints, _, hhead, hlast, hnd⟩ := hJ
  cases edges with
  | nil => exact absurd rfl hne
  | cons e es =>
    obtain ⟨s, rest, h1, h2, h3, h4, _, _⟩ := edges_specs mac net hWF es e
      (fun x hx => ⟨hnp x hx, hval x hx⟩) hjoints
    have hc : c = pathCur s rest := by
      simp only [pathOf, h1, pathCur_eq] at hp
      cases hp; rfl
    have h3' := h3
    rw [h3, specASes_eq mac net rest s h2] at hhead hlast hnd
    have hsrc : src = s.e0.ia := by simp at hhead; exact hhead.symm
    obtain ⟨d', hd'⟩ := tailAS_getLast rest s
    have hlastT : (tailAS s rest).getLast? = some dst := by
      rw [List.getLast?_cons, hd'] at hlast
      simp at hlast; rw [hd', hlast]
    have hnd' := List.nodup_cons.1 hnd
    have hsd : src ≠ dst := by
      intro h
      exact hnd'.1 (by rw [← hsrc, h]; exact List.mem_of_getLast? hlastT)
    have hexps : SpecsExp now s rest := by
      intro sp hsp e he
      have hmem : sp.toSeg ∈ c.segs := by
        rw [hc]
        simp only [List.mem_cons] at hsp
        rcases hsp with rfl | hsp
        · simp [Cursor.segs, Cursor.curSeg, pathCur, SegSpec.toSeg, SegSpec.hops, SegSpec.l]
        · simp only [Cursor.segs, pathCur, List.mem_append]
          exact Or.inr (List.mem_map.2 ⟨sp, hsp, rfl⟩)
      have := hexp sp.toSeg hmem (hopOf e.hop) (List.mem_map.2 ⟨e, he, rfl⟩)
      simpa [SegSpec.toSeg, hopOf] using this
    have htail := tailOK_of mac net now src dst rest s h2 hexps (by rw [hsrc]; exact hnd'.1) hnd'.2 hlastT
    have hok : PathOK mac net now src dst s rest :=
      ⟨hsd, hsrc, hexps s (by simp) s.e0 (by simp [SegSpec.l]), htail⟩
    have hif : pathIfaces (e :: es) = pathTrace s rest := by
      rw [h4, specIfaces, pathTrace, tailTrace_eq mac net rest s h2]
      simp [SegSpec.trace]
    refine ⟨s, rest, hc, hok, hif, h2, h3', hexps, ?_⟩
    -- entry router, fuel
    have hfl := tailOK_fl mac net now src dst s rest htail
    have hne' : s.mid ++ [s.last] = firstOf s.mid s.last :: (s.mid ++ [s.last]).tail := by
      cases s.mid <;> simp [firstOf]
    simp only [SegSpec.l] at hfl
    rw [hne'] at hfl
    simp only [FL] at hfl
    obtain ⟨_, ⟨f, g, hf, _, _, _, _, _, _, _, _, _⟩, _⟩ := hfl
    have hentry : entryRouter net src c = 0 := by
      rw [hc, hsrc]
      unfold entryRouter pathCur
      cases hcd : s.cd <;> rw [hcd] at hf <;> simp only [outF, Bool.false_eq_true, if_false, if_true] at hf <;>
        simp [hopOf, hf, hSR _ _ _ hf]
    obtain ⟨fuel, hfuel⟩ : ∃ fuel, fuelFor c = fuel + 1 + tailFuel s rest := by
      have h1 := fuelFor_pathCur s rest
      have h2 := tailFuel_le rest s
      refine ⟨fuelFor c - 1 - tailFuel s rest, ?_⟩
      rw [hc]; omega
    unfold send
    rw [hentry, hfuel, hif, hc]
    exact specs_run mac net now src dst hUp hSR s rest hok fuel

end Scion.Net
