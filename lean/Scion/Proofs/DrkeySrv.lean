import Scion.Model.DrkeySrv
/-! Specification vocabulary (host identity) and helper lemmas for C40. -/
namespace Scion.C40
open Scion.Util Scion.DrkeySrv

/-- a byte string that is an IP address (what a TCP connection's remote address carries) -/
def IsIP (b : Bytes) : Prop := b.length = 4 ∨ b.length = 16
/-- canonical form of an IP: an IPv4-mapped IPv6 address *is* the IPv4 host (this is also what
    `slayers.PackAddr` derives keys for, see C39) -/
def unmap (b : Bytes) : Bytes :=
  if b.length = 16 ∧ b.take 12 = v4InV6Prefix then b.drop 12 else b
/-- the requester `ip` is the host a request names by `x = net.ParseIP(text)` -/
def SameHost (ip x : Bytes) : Prop := IsIP ip ∧ IsIP x ∧ unmap ip = unmap x

private theorem take_drop_eq {a b : Bytes} (h1 : a.take 12 = b.take 12) (h2 : a.drop 12 = b.drop 12) :
    a = b := by
  rw [← List.take_append_drop 12 a, ← List.take_append_drop 12 b, h1, h2]

theorem unmap4 (b : Bytes) (h : b.length = 4) : unmap b = b := by
  simp [unmap, h]

theorem unmap16 (b : Bytes) (h : b.length = 16) :
    unmap b = if b.take 12 = v4InV6Prefix then b.drop 12 else b := by
  simp [unmap, h]

theorem ipEqual44 (a b : Bytes) (ha : a.length = 4) (hb : b.length = 4) : ipEqual a b = (a == b) := by
  simp [ipEqual, ha, hb]
theorem ipEqual1616 (a b : Bytes) (ha : a.length = 16) (hb : b.length = 16) : ipEqual a b = (a == b) := by
  simp [ipEqual, ha, hb]
theorem ipEqual416 (a b : Bytes) (ha : a.length = 4) (hb : b.length = 16) :
    ipEqual a b = (b.take 12 == v4InV6Prefix && a == b.drop 12) := by
  simp [ipEqual, ha, hb]
theorem ipEqual164 (a b : Bytes) (ha : a.length = 16) (hb : b.length = 4) :
    ipEqual a b = (a.take 12 == v4InV6Prefix && a.drop 12 == b) := by
  simp [ipEqual, ha, hb]

theorem ipEqual_isIP (ip x : Bytes) (hip : IsIP ip) (h : ipEqual ip x = true) : IsIP x := by
  unfold ipEqual at h
  unfold IsIP at *
  split at h
  · omega
  · split at h
    · omega
    · split at h
      · omega
      · cases h

theorem ipEqual_iff_sameHost (ip x : Bytes) (hip : IsIP ip) :
    ipEqual ip x = true ↔ SameHost ip x := by
  constructor
  · intro h
    have hx := ipEqual_isIP ip x hip h
    refine ⟨hip, hx, ?_⟩
    rcases hip with h4 | h16 <;> rcases hx with x4 | x16
    · rw [ipEqual44 _ _ h4 x4] at h; simp at h; rw [h]
    · rw [ipEqual416 _ _ h4 x16] at h; simp at h
      rw [unmap4 _ h4, unmap16 _ x16]; simp [h.1, h.2]
    · rw [ipEqual164 _ _ h16 x4] at h; simp at h
      rw [unmap4 _ x4, unmap16 _ h16]; simp [h.1, h.2]
    · rw [ipEqual1616 _ _ h16 x16] at h; simp at h; rw [h]
  · rintro ⟨_, hx, hu⟩
    rcases hip with h4 | h16 <;> rcases hx with x4 | x16
    · rw [ipEqual44 _ _ h4 x4]; rw [unmap4 _ h4, unmap4 _ x4] at hu; simp [hu]
    · rw [ipEqual416 _ _ h4 x16]; rw [unmap4 _ h4, unmap16 _ x16] at hu
      split at hu
      · rename_i hp; simp [hp, hu]
      · have := congrArg List.length hu; omega
    · rw [ipEqual164 _ _ h16 x4]; rw [unmap16 _ h16, unmap4 _ x4] at hu
      split at hu
      · rename_i hp; simp [hp, hu]
      · have := congrArg List.length hu; omega
    · rw [ipEqual1616 _ _ h16 x16]; rw [unmap16 _ h16, unmap16 _ x16] at hu
      have pl : v4InV6Prefix.length = 12 := rfl
      by_cases c1 : ip.take 12 = v4InV6Prefix <;> by_cases c2 : x.take 12 = v4InV6Prefix <;>
        simp only [c1, c2, if_true, if_false] at hu
      · simpa using take_drop_eq (c1.trans c2.symm) hu
      · have := congrArg List.length hu; simp at this; omega
      · have := congrArg List.length hu; simp at this; omega
      · simpa using hu

instance (b : Bytes) : Decidable (IsIP b) := by unfold IsIP; exact inferInstance
instance (a b : Bytes) : Decidable (SameHost a b) := by unfold SameHost; exact inferInstance

theorem validateASHost_iff (proto dstIA : Nat) (dstIP : Bytes) (localIA : Nat) (a : PeerAddr) :
    validateASHost proto dstIA dstIP localIA a = true ↔
      proto ≠ Scion.Drkey.genericProto ∧ ∃ ip, a = .tcp ip ∧ dstIA = localIA ∧ ipEqual ip dstIP = true := by
  unfold validateASHost hostAddrFromPeer
  cases a with
  | other => simp
  | tcp ip => by_cases hg : proto = Scion.Drkey.genericProto <;> by_cases hd : dstIA = localIA <;> simp [hg, hd]

theorem validateHostAS_iff (proto srcIA : Nat) (srcIP : Bytes) (localIA : Nat) (a : PeerAddr) :
    validateHostAS proto srcIA srcIP localIA a = true ↔
      proto ≠ Scion.Drkey.genericProto ∧ ∃ ip, a = .tcp ip ∧ srcIA = localIA ∧ ipEqual ip srcIP = true := by
  unfold validateHostAS hostAddrFromPeer
  cases a with
  | other => simp
  | tcp ip => by_cases hg : proto = Scion.Drkey.genericProto <;> by_cases hd : srcIA = localIA <;> simp [hg, hd]

theorem validateHostHost_iff (proto srcIA dstIA : Nat) (srcIP dstIP : Bytes) (localIA : Nat) (a : PeerAddr) :
    validateHostHost proto srcIA dstIA srcIP dstIP localIA a = true ↔
      proto ≠ Scion.Drkey.genericProto ∧ ∃ ip, a = .tcp ip ∧
        ((srcIA = localIA ∧ ipEqual ip srcIP = true) ∨ (dstIA = localIA ∧ ipEqual ip dstIP = true)) := by
  unfold validateHostHost hostAddrFromPeer
  cases a with
  | other => simp
  | tcp ip =>
    by_cases hg : proto = Scion.Drkey.genericProto
    · simp [hg]
    · by_cases hs : srcIA = localIA <;> by_cases hd : dstIA = localIA <;>
        cases h1 : ipEqual ip srcIP <;> cases h2 : ipEqual ip dstIP <;> simp [hg, hs, hd, h1, h2]

/-- shape shared by the three level-2/3 handlers -/
theorem hostHandler_iff (peer : Option Peer) (ts : Ts) (v : Peer → Bool) (mk : Int × Int → HostMeta)
    (m : HostMeta) :
    (match peer with
      | none => none
      | some p =>
        match ts with
        | none => none
        | some t => if tsValid (some t) = false then none else if v p = false then none else some (mk t))
      = some m ↔
    ∃ p t, peer = some p ∧ ts = some t ∧ tsValid ts = true ∧ v p = true ∧ m = mk t := by
  cases peer with
  | none => simp
  | some p =>
    cases ts with
    | none => simp
    | some t =>
      cases hv : tsValid (some t) <;> cases hp : v p <;> simp [hv, hp]
      exact eq_comm
end Scion.C40
