import Scion.Model.BeaconPolicy
/-! Lemmas about the loop filters and the policy usage of `Scion.Model.BeaconPolicy`. -/
namespace Scion.BeaconPolicy

/-! ### `filterAsLoop` finds a repeated ISD-AS iff there is one -/

theorem asDupFrom_zero_of_nodup (seen hops : List IA)
    (hd : hops.Nodup) (hdis : ∀ x ∈ hops, x ∉ seen) : asDupFrom seen hops = (0, 0) := by
  induction hops generalizing seen with
  | nil => rfl
  | cons a rest ih =>
    unfold asDupFrom
    have ha : a ∉ seen := hdis a (by simp)
    have : seen.contains a = false := by simpa using ha
    rw [this]
    simp only [Bool.false_eq_true, if_false]
    rw [List.nodup_cons] at hd
    apply ih (a :: seen) hd.2
    intro x hx
    simp only [List.mem_cons, not_or]
    refine ⟨?_, hdis x (by simp [hx])⟩
    intro hxa
    exact hd.1 (hxa ▸ hx)

/-- the value returned by `filterAsLoop` is a hop (or `0-0`) -/
theorem asDupFrom_mem (seen hops : List IA) :
    asDupFrom seen hops = (0, 0) ∨ asDupFrom seen hops ∈ hops := by
  induction hops generalizing seen with
  | nil => left; rfl
  | cons a rest ih =>
    unfold asDupFrom
    split
    · right; simp
    · rcases ih (a :: seen) with h | h
      · left; exact h
      · right; simp [h]

theorem nodup_of_asDupFrom_zero (seen hops : List IA) (hz : (0, 0) ∉ hops)
    (h : asDupFrom seen hops = (0, 0)) : hops.Nodup ∧ ∀ x ∈ hops, x ∉ seen := by
  induction hops generalizing seen with
  | nil => simp
  | cons a rest ih =>
    unfold asDupFrom at h
    by_cases hc : seen.contains a = true
    · rw [if_pos hc] at h
      exact absurd (h ▸ (by simp : a ∈ a :: rest)) hz
    · rw [if_neg hc] at h
      have hz' : (0, 0) ∉ rest := fun hm => hz (by simp [hm])
      obtain ⟨hnd, hdis⟩ := ih (a :: seen) hz' h
      have ha : a ∉ seen := by simpa using hc
      refine ⟨?_, ?_⟩
      · rw [List.nodup_cons]
        refine ⟨?_, hnd⟩
        intro hm
        have := hdis a hm
        simp at this
      · intro x hx
        rcases List.mem_cons.1 hx with rfl | hx
        · exact ha
        · have := hdis x hx
          simp only [List.mem_cons, not_or] at this
          exact this.2

/-- for hop lists without the wildcard `0-0`: `filterAsLoop` reports a loop iff some ISD-AS
occurs twice -/
theorem asLoop_false_iff_nodup (hops : List IA) (hz : (0, 0) ∉ hops) :
    asLoop hops = false ↔ hops.Nodup := by
  unfold asLoop
  constructor
  · intro h
    have h0 : asDupFrom [] hops = (0, 0) := by simpa using h
    exact (nodup_of_asDupFrom_zero [] hops hz h0).1
  · intro h
    have := asDupFrom_zero_of_nodup [] hops h (by simp)
    simp [this]

/-! ### `filterIsdLoop`: an ISD is re-entered after having been left -/

/-- the ISD sequence with consecutive repetitions merged (`last` = the ISD of the previous hop) -/
def runsFrom (last : Nat) : List Nat → List Nat
  | [] => []
  | a :: t => if a = last then runsFrom last t else a :: runsFrom a t

theorem isdDupFrom_zero_iff (seen : List Nat) (last : Nat) (hops : List IA)
    (h0 : ∀ ia ∈ hops, ia.isd ≠ 0) :
    isdDupFrom seen last hops = 0 ↔
      (runsFrom last (hops.map IA.isd)).Nodup ∧
      ∀ x ∈ runsFrom last (hops.map IA.isd), x ∉ seen := by
  induction hops generalizing seen last with
  | nil => simp [isdDupFrom, runsFrom]
  | cons ia t ih =>
    have h0t : ∀ ia ∈ t, ia.isd ≠ 0 := fun x hx => h0 x (by simp [hx])
    have hia : ia.isd ≠ 0 := h0 ia (by simp)
    unfold isdDupFrom
    simp only [List.map_cons, runsFrom]
    by_cases hl : last = ia.isd
    · rw [if_pos hl, if_pos hl.symm]
      exact ih seen last h0t
    · have hl' : ¬ ia.isd = last := fun e => hl e.symm
      rw [if_neg hl, if_neg hl']
      by_cases hs : seen.contains ia.isd = true
      · rw [if_pos hs]
        constructor
        · intro h; exact absurd h hia
        · rintro ⟨_, hdis⟩
          exact absurd (by simpa using hs) (hdis ia.isd (by simp))
      · rw [if_neg hs]
        have hns : ia.isd ∉ seen := by simpa using hs
        rw [ih (ia.isd :: seen) ia.isd h0t]
        simp only [List.nodup_cons, List.mem_cons, not_or, forall_eq_or_imp]
        constructor
        · rintro ⟨hnd, hdis⟩
          exact ⟨⟨fun hm => (hdis _ hm).1 rfl, hnd⟩, hns, fun x hx => (hdis x hx).2⟩
        · rintro ⟨⟨hni, hnd⟩, _, hdis⟩
          exact ⟨hnd, fun x hx => ⟨fun e => hni (e ▸ hx), hdis x hx⟩⟩

/-- for hop lists without ISD 0: `filterIsdLoop` reports a loop iff, after merging consecutive
hops of the same ISD, some ISD occurs twice — i.e. an ISD is re-entered after having been left -/
theorem isdLoop_false_iff (hops : List IA) (h0 : ∀ ia ∈ hops, ia.isd ≠ 0) :
    isdLoop hops = false ↔ (runsFrom 0 (hops.map IA.isd)).Nodup := by
  unfold isdLoop
  have := isdDupFrom_zero_iff [] 0 hops h0
  simp only [List.not_mem_nil, not_false_eq_true, implies_true, and_true] at this
  rw [← this]
  simp

/-! ### usage and pre-filter -/

theorem filter_not_length_eq_iff (ps : Policies) (hops : List IA) :
    (ps.filter fun p => !p.2.accepts hops).length = ps.length ↔
      (ps.filter fun p => p.2.accepts hops) = [] := by
  induction ps with
  | nil => simp
  | cons p rest ih =>
    by_cases hp : p.2.accepts hops = true
    · have hle := List.length_filter_le (fun p : PolicyTag × Filter => !p.2.accepts hops) rest
      simp [hp]
      omega
    · have hp' : p.2.accepts hops = false := by simpa using hp
      simp [hp', ih]

/-- `PreFilter` lets a beacon through iff `Usage` is not empty -/
theorem preFilterOk_iff_usage (ps : Policies) (hops : List IA) :
    preFilterOk ps hops = true ↔ usage ps hops ≠ [] := by
  unfold preFilterOk usage
  rw [bne_iff_ne, Ne, filter_not_length_eq_iff]
  simp

theorem mem_usage (ps : Policies) (hops : List IA) (t : PolicyTag) :
    t ∈ usage ps hops ↔ ∃ f, (t, f) ∈ ps ∧ f.accepts hops = true := by
  unfold usage
  simp only [List.mem_map, List.mem_filter]
  constructor
  · rintro ⟨⟨t', f⟩, ⟨hm, ha⟩, rfl⟩
    exact ⟨f, hm, ha⟩
  · rintro ⟨f, hm, ha⟩
    exact ⟨(t, f), ⟨hm, ha⟩, rfl⟩

/-- what acceptance by a filter means -/
theorem accepts_iff (f : Filter) (hops : List IA) :
    f.accepts hops = true ↔
      (hops.length : Int) ≤ f.maxHops ∧ hasLoop hops f.allowIsdLoop = false ∧
      ∀ ia ∈ hops, ia.as ∉ f.asBlack ∧ ia.isd ∉ f.isdBlack := by
  unfold Filter.accepts blocked
  by_cases h1 : (hops.length : Int) > f.maxHops
  · simp [h1]; omega
  · by_cases h2 : hasLoop hops f.allowIsdLoop = true
    · simp [h1, h2]
    · simp only [h1, h2, if_false, Bool.false_eq_true]
      have h2' : hasLoop hops f.allowIsdLoop = false := by simpa using h2
      simp only [true_and]
      constructor
      · intro h
        refine ⟨by omega, ?_⟩
        intro ia hia
        have := h
        simp only [Bool.not_eq_true', List.any_eq_false, Bool.or_eq_true, not_or,
          Bool.not_eq_true] at this
        have := this ia hia
        simpa using this
      · rintro ⟨_, h⟩
        simp only [Bool.not_eq_true', List.any_eq_false, Bool.or_eq_true, not_or,
          Bool.not_eq_true]
        intro ia hia
        have := h ia hia
        simpa using this

theorem hasLoop_false_iff (hops : List IA) (allow : Bool) :
    hasLoop hops allow = false ↔ asLoop hops = false ∧ (allow = false → isdLoop hops = false) := by
  unfold hasLoop
  cases h1 : asLoop hops <;> cases allow <;> simp

end Scion.BeaconPolicy
