import Scion.Proofs.NetMulti5
import Scion.Proofs.NetPeerEdge
/-! Several border routers per AS: the hypotheses of the end-to-end statements do not depend on which
router owns which interface, so they hold for the collapsed network; paths built by path
combination are uniform in the Peer flag.  Core Lean only. -/
namespace Scion.Net
open Scion.SegID (updateSegID)

theorem wf_collapse (net : Net) (h : WFNet net) : WFNet (collapse net) := by
  intro a e f0 hf0
  obtain ⟨f, hf, rfl⟩ := collapse_iface_inv net a e f0 hf0
  obtain ⟨h1, h2, g, hg, h3, h4, h5⟩ := h a e f hf
  exact ⟨h1, h2, collapseIf g, collapse_iface_some net _ _ g hg, h3, h4, h5⟩

theorem allUp_collapse (net : Net) (h : AllUp net) : AllUp (collapse net) := by
  intro a e f0 hf0
  obtain ⟨f, hf, rfl⟩ := collapse_iface_inv net a e f0 hf0
  exact h a e f hf

theorem singleRouter_collapse (net : Net) : SingleRouter (collapse net) := by
  intro a e f0 hf0
  obtain ⟨f, hf, rfl⟩ := collapse_iface_inv net a e f0 hf0
  rfl

theorem peerIfs_collapse (net : Net) (a : Nat) (peers : List Nat) (h : PeerIfs net a peers) :
    PeerIfs (collapse net) a peers := by
  intro p hp f0 hf0
  obtain ⟨f, hf, rfl⟩ := collapse_iface_inv net a p f0 hf0
  exact h p hp f hf

theorem extend_collapse (mac : MacFn) (net : Net) (s : PSeg) (a exp i e : Nat) (peers : List Nat) :
    extend mac (collapse net) s a exp i e peers = extend mac net s a exp i e peers := by
  simp only [extend, collapse_key, collapse_iface]
  congr 5
  funext p
  cases (net a).iface p <;> rfl

theorem beaconed_collapse (mac : MacFn) (net : Net) (core : Bool) (b : PSeg) (a i : Nat)
    (h : Beaconed mac net core b a i) : Beaconed mac (collapse net) core b a i := by
  induction h with
  | originate a s0 ts exp e peers f hf hlt he0 hpe =>
    have := Beaconed.originate (mac := mac) (net := collapse net) (coreSeg := core) a s0 ts exp e peers
      (collapseIf f) (collapse_iface_some net a e f hf) hlt he0 (peerIfs_collapse net a peers hpe)
    rw [extend_collapse] at this
    exact this
  | propagate b a i exp e peers f _ hf hlt he0 hpe ih =>
    have := Beaconed.propagate (mac := mac) (net := collapse net) (coreSeg := core) b a i exp e peers
      (collapseIf f) ih (collapse_iface_some net a e f hf) hlt he0 (peerIfs_collapse net a peers hpe)
    rw [extend_collapse] at this
    exact this

theorem registered_collapse (mac : MacFn) (net : Net) (core : Bool) (s : PSeg)
    (h : Registered mac net core s) : Registered mac (collapse net) core s := by
  cases h with
  | terminate b a i exp peers hb hpe =>
    have := Registered.terminate (mac := mac) (net := collapse net) (coreSeg := core) b a i exp peers
      (beaconed_collapse mac net core b a i hb) (peerIfs_collapse net a peers hpe)
    rw [extend_collapse] at this
    exact this

theorem joinable_collapse (mac : MacFn) (net : Net) (edges : List Edge) (src dst : Nat)
    (h : Joinable mac net edges src dst) : Joinable mac (collapse net) edges src dst := by
  obtain ⟨h1, h2, h3, h4⟩ := h
  refine ⟨h1, h2, ?_, h4⟩
  intro e he
  obtain ⟨v1, v2⟩ := h3 e he
  exact ⟨registered_collapse mac net e.core e.seg v1, v2⟩

/-! ### Paths from path combination are uniform -/

theorem edgeSeg_peer (e : Edge) (s : Seg) (h : edgeSeg e = some s) : s.info.peer = e.peer.isSome := by
  unfold edgeSeg at h
  split at h
  · cases h; rfl
  · cases h

theorem segsOf_peer : ∀ (edges : List Edge) (segs : List Seg), segsOf edges = some segs →
    ∀ s ∈ segs, ∃ e ∈ edges, s.info.peer = e.peer.isSome := by
  intro edges
  induction edges with
  | nil => intro segs h s hs; simp [segsOf] at h; subst h; cases hs
  | cons e es ih =>
    intro segs h s hs
    simp only [segsOf] at h
    split at h
    · rename_i s0 r hs0 hr
      cases h
      simp only [List.mem_cons] at hs
      rcases hs with rfl | hs
      · exact ⟨e, by simp, edgeSeg_peer e _ hs0⟩
      · obtain ⟨e', he', hp⟩ := ih r hr s hs
        exact ⟨e', by simp [he'], hp⟩
    · cases h

/-- the packet path combination builds sits on its first hop and all its segments carry the same
    Peer flag -/
theorem pathOf_uniform (mac : MacFn) (net : Net) (edges : List Edge) (src dst : Nat) (c : Cursor)
    (hJ : Joinable mac net edges src dst) (hp : pathOf edges = some c) :
    Uniform c ∧ c.isFirstHop = true := by
  unfold pathOf at hp
  split at hp
  · rename_i segs hsegs
    have hall : ∃ b, ∀ s ∈ segs, s.info.peer = b := by
      rcases joinable_cases mac net edges src dst hJ with hnp | ⟨e1, e2, k1, k2, rfl, h1, h2⟩
      · refine ⟨false, fun s hs => ?_⟩
        obtain ⟨e, he, hpe⟩ := segsOf_peer edges segs hsegs s hs
        rw [hpe, hnp e he]; rfl
      · refine ⟨true, fun s hs => ?_⟩
        obtain ⟨e, he, hpe⟩ := segsOf_peer _ segs hsegs s hs
        simp only [List.mem_cons, List.not_mem_nil, or_false] at he
        rcases he with rfl | rfl
        · rw [hpe, h1]; rfl
        · rw [hpe, h2]; rfl
    obtain ⟨b, hb⟩ := hall
    unfold startCursor at hp
    split at hp
    · rename_i i h t rest
      cases hp
      refine ⟨⟨(by intro s hs; cases hs), ?_⟩, rfl⟩
      intro s hs
      have h1 := hb s (by simp [hs])
      have h2 := hb ⟨i, h :: t⟩ (by simp)
      simp only at h2 ⊢
      rw [h1, h2]
    · cases hp
  · cases hp

end Scion.Net
