import Scion.Proofs.NetTamper
/-! Runs up to a hop in a later segment, whatever the hop fields from there on contain (used by C04
for hop fields of later segments).  Core Lean only. -/
namespace Scion.Net
open Scion.SegID (updateSegID extractBeta xorAll)

section
variable (mac : MacFn) (net : Net) (now src dst : Nat)
variable (hUp : AllUp net) (hSR : SingleRouter net)
include hUp hSR

/-- `segment_prefix_run` with further segments behind the first one -/
theorem segment_prefix_run_after (core cd : Bool) (ts : Nat) (seg0 : Nat) (e0 : ASE) (m1 : List ASE)
    (ek : ASE) (h' : Hop) (tlh : List Hop) (after : List Seg)
    (ha : ∀ s ∈ after, s.hops.length ≠ 1)
    (hFL : FL mac net core cd ts seg0 (e0 :: (m1 ++ [ek])))
    (hsrc : src = e0.ia) (hsd : src ≠ dst)
    (hmid : ∀ e ∈ m1, e.ia ≠ src ∧ e.ia ≠ dst ∧ expired now ts e.hop.exp = false)
    (hexp0 : expired now ts e0.hop.exp = false) (fuel : Nat) :
    run mac net now src dst (fuel + 1 + m1.length) src 0 .host
        ⟨[], ⟨cd, false, usedAt cd seg0 e0, ts⟩, [], hopOf e0.hop,
          (m1.map fun e => hopOf e.hop) ++ h' :: tlh, after⟩ [] =
      run mac net now src dst fuel ek.ia 0 (.ext (inF cd ek))
        ⟨[], ⟨cd, false, extractBeta (updateSegID seg0 (pfx e0.hop.mac)) (sig m1), ts⟩,
          hopOf e0.hop :: m1.map (fun e => hopOf e.hop), h', tlh, after⟩
        ((e0.ia, outF cd e0) :: ((firstOf m1 ek).ia, inF cd (firstOf m1 ek)) :: fTrace cd m1 ek) := by
  have hne : m1 ++ [ek] = firstOf m1 ek :: (m1 ++ [ek]).tail := by
    cases m1 <;> simp [firstOf]
  have hFL' := hFL
  rw [hne] at hFL'
  simp only [FL] at hFL'
  obtain ⟨hm, ⟨f, g, hf, hout, hfn, hfi, hg, _, _, _, _, _⟩, _⟩ := hFL'
  have hstep := first_step mac net now src dst cd false ts (usedAt cd seg0 e0) (hopOf e0.hop)
    ((m1.map fun e => hopOf e.hop) ++ h' :: tlh) after f ha (by simp) (by simp) hsd
    (by rw [hsrc]; exact macOk_of_macAt mac net ts _ e0 cd false hm)
    (by simpa [hopOf] using hexp0) rfl rfl
    (by rw [hsrc, outSide_hopOf]; exact hf) (by rw [outSide_hopOf]; exact hout)
    (hUp _ _ _ hf) (hSR _ _ _ hf)
  have hf' : (net src).iface (outSide cd (hopOf e0.hop)) = some f := by
    rw [hsrc, outSide_hopOf]; exact hf
  have hg' : (net f.nbr).iface f.nbrIf = some g := by rw [hfn, hfi]; exact hg
  have h1 : fuel + 1 + m1.length = (fuel + m1.length) + 1 := by omega
  rw [h1, run_forward_ext mac net now src dst _ src 0 .host _ _ [] (outSide cd (hopOf e0.hop)) f g
    hstep hf' (hSR _ _ _ hf) hg', hSR _ _ _ hg, hfn, hfi, egSeg_usedAt]
  have hT := fl_transits mac net now src dst false core cd ts hUp hSR m1 e0 ek seg0 hFL hmid
  have hrun := run_transits hT [] after (by simp) ha (by simp) [hopOf e0.hop] h' tlh fuel
    ([] ++ [(src, outSide cd (hopOf e0.hop)), ((firstOf m1 ek).ia, inF cd (firstOf m1 ek))])
    (by simp) (by simp)
  simp only [List.length_map] at hrun
  rw [hrun]
  simp [mkCur, outSide_hopOf, hsrc]

/-- across a segment change and along the first part of the next segment: from the arrival at the
    joint AS (last AS `last1` of the segment described by `hFL1` = first AS `e20` of the next one)
    to the arrival at the AS of `ek2`; the hop field `h'` carried for that AS, the hop fields
    behind it and the segments behind are arbitrary -/
theorem cross_prefix_run (core1 cd1 : Bool) (ts1 seg10 : Nat) (e10 : ASE) (mid1 : List ASE) (last1 : ASE)
    (core2 cd2 : Bool) (ts2 seg20 : Nat) (e20 : ASE) (m2 : List ASE) (ek2 : ASE) (h' : Hop)
    (tlh : List Hop) (before aft : List Seg) (done1 : List Hop)
    (hb : ∀ s ∈ before, s.hops.length ≠ 1) (ha : ∀ s ∈ aft, s.hops.length ≠ 1) (hdone : done1 ≠ [])
    (hFL1 : FL mac net core1 cd1 ts1 seg10 (e10 :: (mid1 ++ [last1])))
    (hFL2 : FL mac net core2 cd2 ts2 seg20 (e20 :: (m2 ++ [ek2])))
    (hjoint : last1.ia = e20.ia) (hls : last1.ia ≠ src) (hld : last1.ia ≠ dst)
    (hexpl : expired now ts1 last1.hop.exp = false) (hexp2 : expired now ts2 e20.hop.exp = false)
    (hxlt : ∀ a b, InLT core1 cd1 a → EgLT core2 cd2 b → ltXover a b = true)
    (hmid2 : ∀ e ∈ m2, e.ia ≠ src ∧ e.ia ≠ dst ∧ expired now ts2 e.hop.exp = false)
    (fuel : Nat) (tr0 : List (Nat × Nat)) :
    run mac net now src dst (fuel + 1 + m2.length) last1.ia 0 (.ext (inF cd1 last1))
        ⟨before, ⟨cd1, false, extractBeta (updateSegID seg10 (pfx e10.hop.mac)) (sig mid1), ts1⟩, done1,
          hopOf last1.hop, [],
          ⟨⟨cd2, false, usedAt cd2 seg20 e20, ts2⟩,
            hopOf e20.hop :: ((m2.map fun e => hopOf e.hop) ++ h' :: tlh)⟩ :: aft⟩ tr0 =
      run mac net now src dst fuel ek2.ia 0 (.ext (inF cd2 ek2))
        ⟨before ++ [⟨⟨cd1, false, usedSeg cd1 (extractBeta (updateSegID seg10 (pfx e10.hop.mac)) (sig mid1))
              (hopOf last1.hop), ts1⟩, done1 ++ [hopOf last1.hop]⟩],
          ⟨cd2, false, extractBeta (updateSegID seg20 (pfx e20.hop.mac)) (sig m2), ts2⟩,
          hopOf e20.hop :: m2.map (fun e => hopOf e.hop), h', tlh, aft⟩
        (tr0 ++ [(last1.ia, outF cd2 e20), ((firstOf m2 ek2).ia, inF cd2 (firstOf m2 ek2))] ++
          fTrace cd2 m2 ek2) := by
  obtain ⟨hml, hin0, g, hg, hglt⟩ := fl_last mac net core1 cd1 ts1 mid1 e10 last1 seg10 hFL1
  have hne2 : m2 ++ [ek2] = firstOf m2 ek2 :: (m2 ++ [ek2]).tail := by
    cases m2 <;> simp [firstOf]
  have hfl2' := hFL2
  rw [hne2] at hfl2'
  simp only [FL] at hfl2'
  obtain ⟨hm2, ⟨f2, g2, hf2, hout2, hf2n, hf2i, hg2, _, _, _, hf2lt, _⟩, _⟩ := hfl2'
  have hxstep := xover_step_gen mac net now src dst cd1 cd2 ts1
    (extractBeta (updateSegID seg10 (pfx e10.hop.mac)) (sig mid1)) ts2
    (usedAt cd2 seg20 e20) last1.ia (inF cd1 last1) (hopOf last1.hop) (hopOf e20.hop)
    ((m2.map fun e => hopOf e.hop) ++ h' :: tlh) before done1 aft g f2 hb ha hdone (by simp) hin0
    (inSide_hopOf cd1 last1).symm hls hld
    (by rw [usedSeg_hopOf]; exact macOk_of_macAt mac net ts1 _ last1 cd1 false hml)
    (by simpa [hopOf] using hexpl) rfl rfl
    (by rw [hjoint]; exact macOk_of_macAt mac net ts2 _ e20 cd2 false hm2)
    (by simpa [hopOf] using hexp2) rfl rfl hg
    (by rw [outSide_hopOf, hjoint]; exact hf2) (by rw [outSide_hopOf]; exact hout2)
    (hUp _ _ _ hf2) (hSR _ _ _ hf2) (hxlt _ _ hglt hf2lt)
  have hf2' : (net last1.ia).iface (outSide cd2 (hopOf e20.hop)) = some f2 := by
    rw [outSide_hopOf, hjoint]; exact hf2
  have hg2' : (net f2.nbr).iface f2.nbrIf = some g2 := by rw [hf2n, hf2i]; exact hg2
  have h1 : fuel + 1 + m2.length = (fuel + m2.length) + 1 := by omega
  rw [h1, run_forward_ext mac net now src dst (fuel + m2.length) last1.ia 0 _ _ _ _
    (outSide cd2 (hopOf e20.hop)) f2 g2 hxstep hf2' (hSR _ _ _ hf2) hg2', hSR _ _ _ hg2,
    hf2n, hf2i, egSeg_usedAt]
  have hT := fl_transits mac net now src dst false core2 cd2 ts2 hUp hSR m2 e20 ek2 seg20 hFL2 hmid2
  have hrun := run_transits hT
    (before ++ [⟨⟨cd1, false, usedSeg cd1 (extractBeta (updateSegID seg10 (pfx e10.hop.mac)) (sig mid1))
      (hopOf last1.hop), ts1⟩, done1 ++ [hopOf last1.hop]⟩]) aft
    (by
      intro sg hsg
      simp only [List.mem_append, List.mem_singleton] at hsg
      rcases hsg with h | rfl
      · exact hb sg h
      · have := List.length_pos_iff.mpr hdone
        simp only [List.length_append, List.length_cons, List.length_nil]; omega)
    ha (by simp) [hopOf e20.hop] h' tlh fuel
    (tr0 ++ [(last1.ia, outSide cd2 (hopOf e20.hop)), ((firstOf m2 ek2).ia, inF cd2 (firstOf m2 ek2))])
    (by simp) (by simp)
  simp only [List.length_map] at hrun
  rw [hrun]
  simp [mkCur, outSide_hopOf]

end

end Scion.Net
