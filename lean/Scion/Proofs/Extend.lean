import Scion.Model.Extend
/-! Inversion and helper lemmas for `Scion.Model.Extend`. -/
namespace Scion.Extend

/-- everything a successful `extend` went through -/
theorem extend_ok_inv (c : Cfg) (s : Seg) (ingress egress : Nat) (peers : List Nat)
    (signers : List Signer) (now : Int) (e : ASEntry) (s' : Seg) (sg : Signer)
    (h : extend c s ingress egress peers signers now = .ok e s' sg) :
    c.mtu ≠ 0 ∧ (ingress = 0 ↔ s.entries = []) ∧ ¬ (ingress = 0 ∧ egress = 0) ∧
    lastExpiring signers ((s.ts : Int) * nsPerSec) now = some sg ∧
    ∃ exp inMtu hop next,
      hopExpTime c.maxExp ((s.ts : Int) * nsPerSec) sg.notAfter = some exp ∧
      remoteMTU c ingress = some inMtu ∧
      createHopF c ingress egress exp s.ts (extractBeta s) = some hop ∧
      remoteIA c egress = some next ∧
      e = ⟨c.ia, next, c.mtu, inMtu, hop,
            createPeerEntries c egress peers exp s.ts (extractBeta s ^^^ sigma hop.mac)⟩ ∧
      s' = { s with entries := s.entries ++ [e] } ∧
      validate (egress != 0) s'.entries = true := by
  unfold extend at h
  dsimp only at h
  split at h
  · cases h
  rename_i hmtu
  split at h
  · cases h
  rename_i h1
  split at h
  · cases h
  rename_i h2
  split at h
  · cases h
  rename_i h3
  split at h
  · cases h
  rename_i sgn hsg
  split at h
  · cases h
  rename_i exp hexp
  split at h
  · cases h
  rename_i inMtu hin
  split at h
  · cases h
  rename_i hop hhop
  split at h
  · cases h
  rename_i next hnext
  split at h
  · rename_i hval
    cases h
    refine ⟨hmtu, ?_, h3, hsg, exp, inMtu, hop, next, hexp, hin, hhop, hnext, rfl, rfl, hval⟩
    cases hs : s.entries with
    | nil => simp_all
    | cons a l => simp_all
  · cases h

theorem lookup_mem {α} (l : List (Nat × α)) (k : Nat) (v : α) (h : l.lookup k = some v) :
    (k, v) ∈ l := by
  induction l with
  | nil => simp at h
  | cons p rest ih =>
    obtain ⟨k', v'⟩ := p
    simp only [List.lookup_cons] at h
    by_cases hk : k = k'
    · subst hk
      simp at h
      subst h
      simp
    · have : (k == k') = false := by simpa using hk
      rw [this] at h
      simp [ih h]

/-- `latest` returns the start value or a list element, and nothing expires later -/
theorem latest_spec (cur : Signer) (l : List Signer) :
    (latest cur l = cur ∨ latest cur l ∈ l) ∧
    cur.notAfter ≤ (latest cur l).notAfter ∧ ∀ x ∈ l, x.notAfter ≤ (latest cur l).notAfter := by
  induction l generalizing cur with
  | nil => simp [latest]
  | cons a rest ih =>
    unfold latest
    split
    · rename_i hgt
      obtain ⟨hm, hle, hall⟩ := ih a
      refine ⟨?_, by omega, ?_⟩
      · rcases hm with hm | hm
        · right; simp [hm]
        · right; simp [hm]
      · intro x hx
        rcases List.mem_cons.1 hx with rfl | hx
        · exact hle
        · exact hall x hx
    · rename_i hgt
      obtain ⟨hm, hle, hall⟩ := ih cur
      refine ⟨?_, hle, ?_⟩
      · rcases hm with hm | hm
        · left; exact hm
        · right; simp [hm]
      · intro x hx
        rcases List.mem_cons.1 hx with rfl | hx
        · omega
        · exact hall x hx

/-- `LastExpiring` returns a signer of the list that covers the period, and no covering signer
expires later -/
theorem lastExpiring_spec (signers : List Signer) (nb na : Int) (sg : Signer)
    (h : lastExpiring signers nb na = some sg) :
    sg ∈ signers ∧ sg.covers nb na = true ∧
    ∀ x ∈ signers, x.covers nb na = true → x.notAfter ≤ sg.notAfter := by
  unfold lastExpiring at h
  split at h
  · cases h
  · rename_i c cs hf
    cases h
    obtain ⟨hm, hle, hall⟩ := latest_spec c cs
    have hmem : latest c cs ∈ signers.filter (fun s => s.covers nb na) := by
      rw [hf]
      rcases hm with hm | hm
      · rw [hm]; simp
      · simp [hm]
    rw [List.mem_filter] at hmem
    refine ⟨hmem.1, hmem.2, ?_⟩
    intro x hx hc
    have : x ∈ signers.filter (fun s => s.covers nb na) := List.mem_filter.2 ⟨hx, hc⟩
    rw [hf] at this
    rcases List.mem_cons.1 this with rfl | hx'
    · exact hle
    · exact hall x hx'

theorem createHopF_spec (c : Cfg) (i e x t b : Nat) (h : HopF)
    (hh : createHopF c i e x t b = some h) :
    h.expTime = x ∧ h.inIf = i ∧ h.egIf = e ∧ h.mac = (c.mac (macInput b t x i e)).take 6 := by
  unfold createHopF at hh
  dsimp only at hh
  split at hh
  · cases hh
  · cases hh; exact ⟨rfl, rfl, rfl, rfl⟩

theorem extractBeta_append (s : Seg) (e : ASEntry) :
    extractBeta { s with entries := s.entries ++ [e] } = extractBeta s ^^^ sigma e.hop.mac := by
  unfold extractBeta
  simp [List.foldl_append]

end Scion.Extend
