import Scion.Model.TrustStore
/-! Lemmas about the trust-store model. -/
namespace Scion.TrustStore

/-! ### the TRC table -/

theorem insert_cases (db : DB) (r : Rec) :
    (r ∈ db ∧ insert db r = (db, .exists)) ∨
    ((∃ x ∈ db, x.isd = r.isd ∧ x.base = r.base ∧ x.serial = r.serial ∧ x.fp ≠ r.fp) ∧
      insert db r = (db, .conflict)) ∨
    (insert db r = (db ++ [r], .inserted)) := by
  unfold insert
  by_cases h1 : db.any (fun x => sameID r x && x.fp == r.fp) = true
  · left
    rw [List.any_eq_true] at h1
    obtain ⟨x, hx, hp⟩ := h1
    have : x = r := by
      cases x; cases r
      simp [sameID] at hp
      simp [hp]
    subst this
    refine ⟨hx, ?_⟩
    have : db.any (fun y => sameID x y && y.fp == x.fp) = true := by
      rw [List.any_eq_true]; exact ⟨x, hx, hp⟩
    simp [this]
  · by_cases h2 : db.any (sameID r) = true
    · right; left
      refine ⟨?_, by simp [h1, h2]⟩
      rw [List.any_eq_true] at h2
      obtain ⟨x, hx, hp⟩ := h2
      simp only [sameID, Bool.and_eq_true, beq_iff_eq] at hp
      refine ⟨x, hx, hp.1.1, hp.1.2, hp.2, ?_⟩
      intro hfp
      apply h1
      rw [List.any_eq_true]
      exact ⟨x, hx, by simp [sameID, hp, hfp]⟩
    · right; right
      simp [h1, h2]

theorem insert_sub (db : DB) (r : Rec) : ∀ x ∈ db, x ∈ (insert db r).1 := by
  intro x hx
  rcases insert_cases db r with ⟨_, h⟩ | ⟨_, h⟩ | h <;> rw [h]
  · exact hx
  · exact hx
  · exact List.mem_append_left _ hx

theorem mem_insert {db : DB} {r x : Rec} (h : x ∈ (insert db r).1) : x ∈ db ∨ x = r := by
  rcases insert_cases db r with ⟨_, h'⟩ | ⟨_, h'⟩ | h' <;> rw [h'] at h
  · exact Or.inl h
  · exact Or.inl h
  · rcases List.mem_append.mp h with h | h
    · exact Or.inl h
    · exact Or.inr (by simpa using h)

/-- unless the primary key conflicts, the TRC is in the table afterwards -/
theorem insert_mem {db : DB} {r : Rec} (h : (insert db r).2 ≠ .conflict) : r ∈ (insert db r).1 := by
  rcases insert_cases db r with ⟨hr, h'⟩ | ⟨_, h'⟩ | h' <;> rw [h'] at h ⊢
  · exact hr
  · exact absurd rfl h
  · exact List.mem_append_right _ (List.mem_singleton.mpr rfl)

/-- `exists`: the very same TRC was already stored and the table is unchanged -/
theorem insert_exists {db : DB} {r : Rec} (h : (insert db r).2 = .exists) :
    (insert db r).1 = db ∧ r ∈ db := by
  rcases insert_cases db r with ⟨hr, h'⟩ | ⟨_, h'⟩ | h' <;> rw [h'] at h ⊢
  · exact ⟨rfl, hr⟩
  · cases h
  · cases h

theorem insert_conflict_witness {db : DB} {r : Rec} (h : (insert db r).2 = .conflict) :
    ∃ x ∈ db, x.isd = r.isd ∧ x.base = r.base ∧ x.serial = r.serial ∧ x.fp ≠ r.fp := by
  rcases insert_cases db r with ⟨hr, h'⟩ | ⟨hw, h'⟩ | h' <;> rw [h'] at h
  · cases h
  · exact hw
  · cases h

/-! ### latest -/

theorem newer_irrefl (a : Rec) : newer a a = false := by simp [newer]

theorem newer_trans {a b c : Rec} (h1 : newer a b = false) (h2 : newer b c = false) :
    newer a c = false := by
  simp only [newer, Bool.or_eq_false_iff, Bool.and_eq_false_iff, decide_eq_false_iff_not,
    beq_eq_false_iff_ne] at *
  constructor
  · omega
  · rcases h1 with ⟨_, h1 | h1⟩ <;> rcases h2 with ⟨_, h2 | h2⟩ <;> first | (left; omega) | (right; omega) | omega

theorem foldl_pickLatest (l : List Rec) (acc : Option Rec) :
    ∃ m, l.foldl pickLatest acc = m ∧
      (acc = none → l = [] → m = none) ∧
      ((acc ≠ none ∨ l ≠ []) → ∃ r, m = some r ∧ (acc = some r ∨ r ∈ l) ∧
        (∀ a, acc = some a → newer a r = false) ∧ (∀ x ∈ l, newer x r = false)) := by
  induction l generalizing acc with
  | nil =>
    refine ⟨acc, rfl, fun h _ => h, ?_⟩
    intro h
    cases acc with
    | none => simp at h
    | some a => exact ⟨a, rfl, Or.inl rfl, fun b hb => by cases hb; exact newer_irrefl _, by simp⟩
  | cons x xs ih =>
    obtain ⟨m, hm, _, h2⟩ := ih (pickLatest acc x)
    refine ⟨m, by simpa [List.foldl] using hm, (fun _ h => by cases h), ?_⟩
    intro _
    have hne : pickLatest acc x ≠ none := by
      cases acc with
      | none => simp [pickLatest]
      | some a => simp only [pickLatest]; split <;> simp
    obtain ⟨r, hr, hin, hacc, hall⟩ := h2 (Or.inl hne)
    refine ⟨r, hr, ?_, ?_, ?_⟩
    · rcases hin with hin | hin
      · cases acc with
        | none => simp only [pickLatest, Option.some.injEq] at hin; exact Or.inr (hin ▸ List.mem_cons_self)
        | some a =>
          simp only [pickLatest] at hin
          split at hin
          · simp only [Option.some.injEq] at hin; exact Or.inr (hin ▸ List.mem_cons_self)
          · exact Or.inl hin
      · exact Or.inr (List.mem_cons_of_mem _ hin)
    · intro a ha
      subst ha
      simp only [pickLatest] at hacc
      split at hacc
      · rename_i hn
        have := hacc x rfl
        -- a is older than x, x not newer than r
        have hax : newer a x = false := by
          simp only [newer, Bool.or_eq_true, decide_eq_true_eq, Bool.and_eq_true, beq_iff_eq] at hn
          simp only [newer, Bool.or_eq_false_iff, Bool.and_eq_false_iff, decide_eq_false_iff_not,
            beq_eq_false_iff_ne]
          omega
        exact newer_trans hax this
      · exact hacc a rfl
    · intro y hy
      rcases List.mem_cons.mp hy with rfl | hy
      · cases acc with
        | none => simp only [pickLatest] at hacc; exact hacc y rfl
        | some a =>
          simp only [pickLatest] at hacc
          split at hacc
          · exact hacc y rfl
          · rename_i hn
            have h1 : newer y a = false := by simpa using hn
            exact newer_trans h1 (hacc a rfl)
      · exact hall y hy

theorem latest_some {db : DB} {isd : Nat} {m : Rec} (h : latest db isd = some m) :
    m ∈ db ∧ m.isd = isd ∧ ∀ x ∈ db, x.isd = isd → newer x m = false := by
  unfold latest at h
  obtain ⟨m', hm', h1, h2⟩ := foldl_pickLatest (db.filter (fun r => r.isd = isd)) none
  rw [hm'] at h
  subst h
  by_cases hl : db.filter (fun r => r.isd = isd) = []
  · have := h1 rfl hl; cases this
  · obtain ⟨r, hr, hin, _, hall⟩ := h2 (Or.inr hl)
    cases hr
    rcases hin with hin | hin
    · cases hin
    · have := List.mem_filter.mp hin
      refine ⟨this.1, by simpa using this.2, ?_⟩
      intro x hx hxi
      exact hall x (List.mem_filter.mpr ⟨hx, by simpa using hxi⟩)

theorem latest_none {db : DB} {isd : Nat} (h : latest db isd = none) : ∀ x ∈ db, x.isd ≠ isd := by
  unfold latest at h
  obtain ⟨m', hm', _, h2⟩ := foldl_pickLatest (db.filter (fun r => r.isd = isd)) none
  rw [hm'] at h
  subst h
  intro x hx hxi
  have hl : db.filter (fun r => r.isd = isd) ≠ [] := by
    intro he
    have : x ∈ db.filter (fun r => r.isd = isd) := List.mem_filter.mpr ⟨hx, by simpa using hxi⟩
    rw [he] at this; cases this
  obtain ⟨r, hr, _⟩ := h2 (Or.inr hl)
  cases hr

/-- growing the table can only move `latest` forward -/
theorem latest_mono {db db' : DB} (hsub : ∀ x ∈ db, x ∈ db') {isd : Nat} {a : Rec}
    (ha : latest db isd = some a) : ∃ b, latest db' isd = some b ∧ newer a b = false := by
  have ⟨ham, hai, _⟩ := latest_some ha
  cases hb : latest db' isd with
  | none => exact absurd hai (latest_none hb a (hsub a ham))
  | some b => exact ⟨b, rfl, (latest_some hb).2.2 a (hsub a ham) hai⟩

/-! ### the fetch loop -/

/-- each TRC of the list verified against the one before it, the first against `c` -/
def Chain (Ver : Rec → Rec → Bool) : Rec → List Rec → Prop
  | _, [] => True
  | c, f :: fs => Ver c f = true ∧ Chain Ver f fs

/-- the TRC the next fetched one is compared with -/
def lastOf : Rec → List Rec → Rec
  | c, [] => c
  | _, f :: fs => lastOf f fs

structure LoopSpec (Ver : Rec → Rec → Bool) (n : Nat) (db : DB) (cur : Rec) (script : List Fetch)
    (res : LoopRes) : Prop where
  chain : Chain Ver cur res.chain
  sub : ∀ x ∈ db, x ∈ res.db
  added : ∀ x ∈ res.db, x ∈ db ∨ x ∈ res.chain
  stored : ∀ x ∈ res.chain, x ∈ res.db
  /-- the stored TRCs are exactly the first responses of the fetcher, in order -/
  prefix_ : script.take res.chain.length = res.chain.map Fetch.trc
  len : res.chain.length ≤ n
  done : res.stop = .done → res.chain.length = n ∧ res.fetches = n
  /-- on failure exactly one more request was made than TRCs were stored … -/
  failFetches : res.stop ≠ .done → res.stop ≠ .scriptEnd → res.fetches = res.chain.length + 1
  /-- … and the response to it was unusable -/
  fetchErr : res.stop = .fetchErr → script[res.chain.length]? = some .err
  verifyErr : res.stop = .verifyErr →
    ∃ r, script[res.chain.length]? = some (.trc r) ∧ Ver (lastOf cur res.chain) r = false
  insertErr : res.stop = .insertErr →
    ∃ r, script[res.chain.length]? = some (.trc r) ∧ Ver (lastOf cur res.chain) r = true ∧
      ∃ x ∈ res.db, x.isd = r.isd ∧ x.base = r.base ∧ x.serial = r.serial ∧ x.fp ≠ r.fp
  scriptEnd : res.stop = .scriptEnd → script.length = res.chain.length ∧ res.fetches = res.chain.length

theorem loop_spec (Ver : Rec → Rec → Bool) (n : Nat) (db : DB) (cur : Rec) (script : List Fetch) :
    LoopSpec Ver n db cur script (loop Ver n db cur script) := by
  induction n generalizing db cur script with
  | zero =>
    unfold loop
    exact { chain := trivial, sub := fun x h => h, added := fun x h => Or.inl h, stored := by simp,
            prefix_ := by simp, len := by simp, done := by simp, failFetches := by simp,
            fetchErr := by simp, verifyErr := by simp, insertErr := by simp, scriptEnd := by simp }
  | succ n ih =>
    cases script with
    | nil =>
      unfold loop
      exact { chain := trivial, sub := fun x h => h, added := fun x h => Or.inl h, stored := by simp,
              prefix_ := by simp, len := by simp, done := by simp, failFetches := by simp,
              fetchErr := by simp, verifyErr := by simp, insertErr := by simp, scriptEnd := by simp }
    | cons f script =>
      cases f with
      | err =>
        simp only [loop]
        exact { chain := trivial, sub := fun x h => h, added := fun x h => Or.inl h, stored := by simp,
                prefix_ := by simp, len := by simp, done := by simp, failFetches := by simp,
                fetchErr := by simp, verifyErr := by simp, insertErr := by simp, scriptEnd := by simp }
      | trc r =>
        simp only [loop]
        by_cases hv : Ver cur r = false
        · simp only [hv, if_true]
          exact { chain := trivial, sub := fun x h => h, added := fun x h => Or.inl h, stored := by simp,
                  prefix_ := by simp, len := by simp, done := by simp, failFetches := by simp,
                  fetchErr := by simp, verifyErr := by intro _; exact ⟨r, by simp, by simpa [lastOf] using hv⟩,
                  insertErr := by simp, scriptEnd := by simp }
        · have hv' : Ver cur r = true := by simpa using hv
          simp only [hv, if_false]
          cases hi : insert db r with
          | mk db' st =>
            cases st with
            | conflict =>
              simp only
              have hw := insert_conflict_witness (by rw [hi])
              exact { chain := trivial, sub := fun x h => h, added := fun x h => Or.inl h, stored := by simp,
                      prefix_ := by simp, len := by simp, done := by simp, failFetches := by simp,
                      fetchErr := by simp, verifyErr := by simp,
                      insertErr := by intro _; exact ⟨r, by simp, by simpa [lastOf] using hv', hw⟩,
                      scriptEnd := by simp }
            | inserted =>
              simp only
              have s := ih db' r script
              have hdb : db' = (insert db r).1 := by rw [hi]
              have hrm : r ∈ db' := by rw [hdb]; exact insert_mem (by rw [hi]; simp)
              exact
                { chain := ⟨hv', s.chain⟩
                  sub := fun x h => s.sub x (by rw [hdb]; exact insert_sub db r x h)
                  added := by
                    intro x hx
                    rcases s.added x hx with h | h
                    · rcases mem_insert (by rw [← hdb]; exact h) with h | h
                      · exact Or.inl h
                      · exact Or.inr (h ▸ List.mem_cons_self)
                    · exact Or.inr (List.mem_cons_of_mem _ h)
                  stored := by
                    intro x hx
                    rcases List.mem_cons.mp hx with rfl | hx
                    · exact s.sub x hrm
                    · exact s.stored x hx
                  prefix_ := by simp [s.prefix_]
                  len := by simp; exact s.len
                  done := by intro h; have := s.done h; simp; omega
                  failFetches := by intro h1 h2; have := s.failFetches h1 h2; simp; omega
                  fetchErr := by intro h; simpa using s.fetchErr h
                  verifyErr := by intro h; simpa [lastOf] using s.verifyErr h
                  insertErr := by intro h; simpa [lastOf] using s.insertErr h
                  scriptEnd := by intro h; have := s.scriptEnd h; simp; omega }
            | «exists» =>
              simp only
              have s := ih db' r script
              have hdb : db' = (insert db r).1 := by rw [hi]
              have hrm : r ∈ db' := by rw [hdb]; exact insert_mem (by rw [hi]; simp)
              exact
                { chain := ⟨hv', s.chain⟩
                  sub := fun x h => s.sub x (by rw [hdb]; exact insert_sub db r x h)
                  added := by
                    intro x hx
                    rcases s.added x hx with h | h
                    · rcases mem_insert (by rw [← hdb]; exact h) with h | h
                      · exact Or.inl h
                      · exact Or.inr (h ▸ List.mem_cons_self)
                    · exact Or.inr (List.mem_cons_of_mem _ h)
                  stored := by
                    intro x hx
                    rcases List.mem_cons.mp hx with rfl | hx
                    · exact s.sub x hrm
                    · exact s.stored x hx
                  prefix_ := by simp [s.prefix_]
                  len := by simp; exact s.len
                  done := by intro h; have := s.done h; simp; omega
                  failFetches := by intro h1 h2; have := s.failFetches h1 h2; simp; omega
                  fetchErr := by intro h; simpa using s.fetchErr h
                  verifyErr := by intro h; simpa [lastOf] using s.verifyErr h
                  insertErr := by intro h; simpa [lastOf] using s.insertErr h
                  scriptEnd := by intro h; have := s.scriptEnd h; simp; omega }

/-- what a successful `Verify` guarantees about the IDs (theorems `update_accept_imp_link`,
`base_accept_iff` of C32) -/
def VerLinks (Ver : Rec → Rec → Bool) : Prop :=
  ∀ p f, Ver p f = true → f.isd = p.isd ∧ f.base = p.base ∧ f.serial = p.serial + 1

theorem chain_ids {Ver : Rec → Rec → Bool} (hV : VerLinks Ver) {cur : Rec} {chain : List Rec}
    (h : Chain Ver cur chain) :
    ∀ i (hi : i < chain.length), chain[i].isd = cur.isd ∧ chain[i].base = cur.base ∧
      chain[i].serial = cur.serial + i + 1 := by
  induction chain generalizing cur with
  | nil => intro i hi; cases hi
  | cons f fs ih =>
    intro i hi
    obtain ⟨h1, h2⟩ := h
    have l := hV cur f h1
    cases i with
    | zero => simpa using l
    | succ i =>
      have := ih h2 i (by simpa using hi)
      simp only [List.getElem_cons_succ]
      refine ⟨by rw [this.1, l.1], by rw [this.2.1, l.2.1], by rw [this.2.2, l.2.2]; omega⟩

/-! ### loading -/

theorem load_spec (db : DB) (fs : List File) :
    (∀ x ∈ db, x ∈ (load db fs).db) ∧
    (∀ x ∈ (load db fs).db, x ∈ db ∨ x ∈ (load db fs).loaded) ∧
    (∀ x ∈ (load db fs).loaded, File.trc x false ∈ fs) := by
  induction fs generalizing db with
  | nil => simp [load]
  | cons f fs ih =>
    cases f with
    | bad => simp [load]
    | trc r future =>
      cases future with
      | true =>
        simp only [load, if_true]
        obtain ⟨h1, h2, h3⟩ := ih db
        exact ⟨h1, h2, fun x hx => List.mem_cons_of_mem _ (h3 x hx)⟩
      | false =>
        simp only [load, Bool.false_eq_true, if_false]
        cases hi : insert db r with
        | mk db' st =>
          have hdb : db' = (insert db r).1 := by rw [hi]
          obtain ⟨h1, h2, h3⟩ := ih db'
          cases st with
          | conflict => simp
          | inserted =>
            simp only
            refine ⟨fun x hx => h1 x (hdb ▸ insert_sub db r x hx), ?_, ?_⟩
            · intro x hx
              rcases h2 x hx with h | h
              · rcases mem_insert (hdb ▸ h) with h | h
                · exact Or.inl h
                · exact Or.inr (h ▸ List.mem_cons_self)
              · exact Or.inr (List.mem_cons_of_mem _ h)
            · intro x hx
              rcases List.mem_cons.mp hx with rfl | hx
              · exact List.mem_cons_self
              · exact List.mem_cons_of_mem _ (h3 x hx)
          | «exists» =>
            simp only
            refine ⟨fun x hx => h1 x (hdb ▸ insert_sub db r x hx), ?_, ?_⟩
            · intro x hx
              rcases h2 x hx with h | h
              · rcases mem_insert (hdb ▸ h) with h | h
                · exact Or.inl h
                · have hr : r ∈ db := (insert_exists (by rw [hi])).2
                  exact Or.inl (h ▸ hr)
              · exact Or.inr h
            · intro x hx
              exact List.mem_cons_of_mem _ (h3 x hx)

end Scion.TrustStore
