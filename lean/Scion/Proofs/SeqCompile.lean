import Scion.Proofs.RxSubst
import Scion.Proofs.AddrRoundTrip
import Scion.Proofs.AddrParse
/-! Correctness of the listener's compilation: the compiled regular expression accepts the
textual hop list iff the sequence expression accepts the hop list. -/
namespace Scion.Seq
open Rx Scion.Addr

/-- language of a character-level expression -/
abbrev L (r : Re) (s : Str) : Prop := Lang CC.ok r s

/-! ### basic languages -/

theorem L_lit : ∀ (t s : Str), L (lit t) s ↔ s = t
  | [], s => by simp [L, lit, Lang]
  | c :: cs, s => by
    have ih := L_lit cs
    simp only [L, lit, Lang, CC.ok, beq_iff_eq] at ih ⊢
    constructor
    · rintro ⟨u, v, rfl, ⟨x, rfl, hx⟩, hv⟩
      rw [(ih v).1 hv, hx]; rfl
    · rintro rfl
      exact ⟨[c], cs, rfl, ⟨c, rfl, rfl⟩, (ih cs).2 rfl⟩

theorem L_plus_atom (p : CC) (s : Str) :
    L (.plus (.atom p)) s ↔ s ≠ [] ∧ ∀ c ∈ s, CC.ok p c = true := by
  simp only [L, Lang]
  constructor
  · rintro ⟨ws, hne, rfl, hall⟩
    constructor
    · cases ws with
      | nil => exact absurd rfl hne
      | cons u us =>
        obtain ⟨x, rfl, _⟩ := hall u (by simp)
        simp
    · intro c hc
      obtain ⟨u, hu, hcu⟩ := List.mem_flatten.1 hc
      obtain ⟨x, rfl, hx⟩ := hall u hu
      simp only [List.mem_singleton] at hcu
      rw [hcu]; exact hx
  · rintro ⟨hne, hall⟩
    refine ⟨s.map (fun c => [c]), by simpa using hne, ?_, ?_⟩
    · clear hne hall
      induction s with
      | nil => rfl
      | cons x xs ih => simp [← ih]
    · intro u hu
      simp only [List.mem_map] at hu
      obtain ⟨c, hc, rfl⟩ := hu
      exact ⟨c, rfl, hall c hc⟩

/-! ### splitting at a delimiter that the first factor cannot contain -/

theorem append_cons_inj (c : Char) : ∀ (u f v rest : Str), c ∉ u → c ∉ f →
    u ++ c :: v = f ++ c :: rest → u = f ∧ v = rest := by
  intro u
  induction u with
  | nil =>
    intro f v rest _ hf h
    cases f with
    | nil => simp at h; exact ⟨rfl, h⟩
    | cons y ys =>
      simp only [List.nil_append, List.cons_append, List.cons.injEq] at h
      exact absurd (by simp [h.1]) hf
  | cons x xs ih =>
    intro f v rest hu hf h
    cases f with
    | nil =>
      simp only [List.nil_append, List.cons_append, List.cons.injEq] at h
      exact absurd (by simp [h.1]) hu
    | cons y ys =>
      simp only [List.cons_append, List.cons.injEq] at h
      simp only [List.mem_cons, not_or] at hu hf
      obtain ⟨h1, h2⟩ := ih ys v rest hu.2 hf.2 h.2
      exact ⟨by rw [h.1, h1], h2⟩

theorem L_delim (r1 r2 : Re) (c : Char) (f rest : Str)
    (hr1 : ∀ u, L r1 u → c ∉ u) (hf : c ∉ f) :
    L (.cat r1 (.cat (.atom (.chr c)) r2)) (f ++ c :: rest) ↔ L r1 f ∧ L r2 rest := by
  simp only [L, Lang, CC.ok, beq_iff_eq]
  constructor
  · rintro ⟨u, v, huv, hu, x, v', rfl, ⟨y, rfl, hy⟩, hv'⟩
    subst hy
    have := append_cons_inj c u f v' rest (hr1 u hu) hf (by simpa using huv.symm)
    rw [← this.1, ← this.2]
    exact ⟨hu, hv'⟩
  · rintro ⟨h1, h2⟩
    exact ⟨f, c :: rest, rfl, h1, [c], rest, rfl, ⟨c, rfl, rfl⟩, h2⟩

def spaces : Re := .plus (.atom (.chr ' '))

theorem L_spaces (s : Str) : L spaces s ↔ s ≠ [] ∧ ∀ c ∈ s, c = ' ' := by
  simp only [spaces, L_plus_atom, CC.ok, beq_iff_eq]
  constructor
  · rintro ⟨h1, h2⟩; exact ⟨h1, fun c hc => (h2 c hc).symm⟩
  · rintro ⟨h1, h2⟩; exact ⟨h1, fun c hc => (h2 c hc).symm⟩

theorem L_end (r1 : Re) (f : Str) (hr1 : ∀ u, L r1 u → ' ' ∉ u) (hf : ' ' ∉ f) :
    L (.cat r1 spaces) (f ++ [' ']) ↔ L r1 f := by
  constructor
  · intro h
    obtain ⟨u, v, huv, hu, hv⟩ := h
    obtain ⟨hne, hall⟩ := (L_spaces v).1 hv
    cases v with
    | nil => exact absurd rfl hne
    | cons x xs =>
      have hx : x = ' ' := hall x (by simp)
      subst hx
      have := append_cons_inj ' ' u f xs [] (hr1 u hu) hf huv.symm
      rw [← this.1]; exact hu
  · intro h
    exact ⟨f, [' '], rfl, h, (L_spaces _).2 ⟨by simp, by simp⟩⟩

theorem L_cat_assoc (a b c : Re) (s : Str) : L (.cat (.cat a b) c) s ↔ L (.cat a (.cat b c)) s := by
  simp only [L, Lang]
  constructor
  · rintro ⟨uv, w, rfl, ⟨u, v, rfl, hu, hv⟩, hw⟩
    exact ⟨u, v ++ w, by simp, hu, v, w, rfl, hv, hw⟩
  · rintro ⟨u, vw, rfl, hu, v, w, rfl, hv, hw⟩
    exact ⟨u ++ v, w, by simp, ⟨u, v, rfl, hu, hv⟩, hw⟩

theorem L_cat_congr_right (a b b' : Re) (h : ∀ s, L b s ↔ L b' s) (s : Str) :
    L (.cat a b) s ↔ L (.cat a b') s := by
  constructor
  · rintro ⟨u, v, h1, hu, hv⟩; exact ⟨u, v, h1, hu, (h v).1 hv⟩
  · rintro ⟨u, v, h1, hu, hv⟩; exact ⟨u, v, h1, hu, (h v).2 hv⟩

theorem L_alt_cat (a b c : Re) (s : Str) :
    L (.cat (.alt a b) c) s ↔ L (.cat a c) s ∨ L (.cat b c) s := by
  simp only [L, Lang]
  constructor
  · rintro ⟨u, v, rfl, hu | hu, hv⟩
    · exact Or.inl ⟨u, v, rfl, hu, hv⟩
    · exact Or.inr ⟨u, v, rfl, hu, hv⟩
  · rintro (⟨u, v, rfl, hu, hv⟩ | ⟨u, v, rfl, hu, hv⟩)
    · exact ⟨u, v, rfl, Or.inl hu, hv⟩
    · exact ⟨u, v, rfl, Or.inr hu, hv⟩

/-- every character of a word is accepted by an atom; so a property of all characters accepted by
    the atoms holds of all characters of the word -/
theorem L_chars (r : Re) (Good : Char → Prop)
    (hg : ∀ p ∈ atoms r, ∀ c, CC.ok p c = true → Good c) (u : Str) (h : L r u) :
    ∀ c ∈ u, Good c := by
  intro c hc
  obtain ⟨p, hp, hs⟩ := Lang_letters CC.ok r u h c hc
  exact hg p hp c hs

theorem atoms_lit : ∀ t : Str, atoms (lit t) = t.map CC.chr
  | [] => rfl
  | c :: cs => by simp [lit, atoms, atoms_lit cs]


/-! ### the fields of a hop -/

theorem digitChar_dec : ∀ d, d < 10 → CC.ok .digit (digitChar d) = true := by decide
theorem digitChar_hex : ∀ d, d < 16 → CC.ok .hex (digitChar d) = true := by decide

/-- field characters: never a blank or one of the delimiters that follow a field -/
def FieldCh (c : Char) : Prop := c ≠ ' ' ∧ c ≠ '#'
/-- decimal digits are in addition different from '-' and ',' -/
def DecCh (c : Char) : Prop := c ≠ ' ' ∧ c ≠ '#' ∧ c ≠ '-' ∧ c ≠ ','

theorem decCh_of_digit (c : Char) (h : CC.ok .digit c = true) : DecCh c := by
  simp only [CC.ok, Bool.and_eq_true, decide_eq_true_eq] at h
  refine ⟨?_, ?_, ?_, ?_⟩ <;> (intro e; subst e; revert h; decide)

theorem fieldCh_of_hex (c : Char) (h : CC.ok .hex c = true) : FieldCh c := by
  simp only [CC.ok, Bool.or_eq_true, Bool.and_eq_true, decide_eq_true_eq] at h
  refine ⟨?_, ?_⟩ <;> (intro e; subst e; revert h; decide)

theorem toDigits10_digit (n : Nat) : ∀ c ∈ toDigits 10 n, CC.ok .digit c = true := by
  intro c hc
  obtain ⟨d, hd, rfl⟩ := mem_toDigits 10 (by omega) n c hc
  exact digitChar_dec d hd

theorem toDigits16_hex (n : Nat) : ∀ c ∈ toDigits 16 n, CC.ok .hex c = true := by
  intro c hc
  obtain ⟨d, hd, rfl⟩ := mem_toDigits 16 (by omega) n c hc
  exact digitChar_hex d hd

theorem toDigits10_decCh (n : Nat) : ∀ c ∈ toDigits 10 n, DecCh c :=
  fun c hc => decCh_of_digit c (toDigits10_digit n c hc)

theorem numRe_wild : numRe .wild = digits1 := rfl

/-- a number position accepts the decimal text of `n` iff the predicate holds of `n` -/
theorem L_numRe (q : NumPred) (n : Nat) : L (numRe q) (toDigits 10 n) ↔ q.ok n = true := by
  cases q with
  | wild =>
    simp only [numRe, digits1, L_plus_atom, NumPred.ok, iff_true]
    exact ⟨toDigits_ne_nil 10 n, toDigits10_digit n⟩
  | lit m =>
    simp only [numRe, L_lit, NumPred.ok, beq_iff_eq]
    constructor
    · intro h; exact (toDigits_inj 10 (by omega) (by omega) n m h).symm
    · rintro rfl; rfl

theorem numRe_chars (q : NumPred) (u : Str) (h : L (numRe q) u) : ∀ c ∈ u, DecCh c := by
  cases q with
  | wild =>
    simp only [numRe, digits1, L_plus_atom] at h
    exact fun c hc => decCh_of_digit c (h.2 c hc)
  | lit m =>
    simp only [numRe, L_lit] at h
    subst h
    exact toDigits10_decCh m

def ASPred.WF : ASPred → Prop
  | .lit m => m < 2 ^ 48
  | _ => True

theorem fmtAS_fieldCh (m : Nat) (hm : m < 2 ^ 48) : ∀ c ∈ fmtAS [':'] m, FieldCh c := by
  intro c hc
  rcases mem_fmtAS_colon m hm c hc with ⟨d, hd, rfl⟩ | rfl | rfl
  · exact fieldCh_of_hex _ (digitChar_hex d hd)
  · exact ⟨by decide, by decide⟩
  · exact ⟨by decide, by decide⟩

theorem L_hex3 (A B C : Str) (hA : L hex1 A) (hB : L hex1 B) (hC : L hex1 C) :
    L asWildRe (A ++ [':'] ++ B ++ [':'] ++ C) :=
  Or.inr ⟨A, [':'] ++ B ++ [':'] ++ C, by simp, hA, [':'], B ++ [':'] ++ C, by simp,
    ⟨':', rfl, rfl⟩, B, [':'] ++ C, by simp, hB, [':'], C, rfl, ⟨':', rfl, rfl⟩, hC⟩

theorem L_asWild_fmtAS (v : Nat) (hv : v < 2 ^ 48) : L asWildRe (fmtAS [':'] v) := by
  have h1 : ¬ maxAS < v := by simp only [maxAS]; omega
  have hx : ∀ n, L hex1 (toDigits 16 n) :=
    fun n => (L_plus_atom .hex (toDigits 16 n)).2 ⟨toDigits_ne_nil 16 n, toDigits16_hex n⟩
  unfold fmtAS
  rw [if_neg h1]
  split
  · exact Or.inl ((L_plus_atom .digit _).2 ⟨toDigits_ne_nil 10 v, toDigits10_digit v⟩)
  · exact L_hex3 _ _ _ (hx _) (hx _) (hx _)

theorem L_asRe (a : ASPred) (ha : a.WF) (v : Nat) (hv : v < 2 ^ 48) :
    L (asRe a) (fmtAS [':'] v) ↔ a.ok v = true := by
  cases a with
  | wild => simp only [asRe, ASPred.ok, iff_true]; exact L_asWild_fmtAS v hv
  | lit m =>
    simp only [asRe, L_lit, ASPred.ok, beq_iff_eq]
    constructor
    · intro h; exact (fmtAS_inj v m hv ha h).symm
    · rintro rfl; rfl
  | bad => simp [asRe, ASPred.ok, L, Lang]

theorem asRe_chars (a : ASPred) (ha : a.WF) (u : Str) (h : L (asRe a) u) : ∀ c ∈ u, FieldCh c := by
  cases a with
  | wild =>
    refine L_chars asWildRe FieldCh ?_ u h
    intro p hp c hc
    simp only [asWildRe, digits1, hex1, colon, atoms, List.cons_append, List.nil_append,
      List.mem_cons, List.not_mem_nil, or_false] at hp
    rcases hp with rfl | rfl | rfl | rfl | rfl | rfl
    · have := decCh_of_digit c hc; exact ⟨this.1, this.2.1⟩
    · exact fieldCh_of_hex c hc
    · simp only [CC.ok, beq_iff_eq] at hc; subst hc; exact ⟨by decide, by decide⟩
    · exact fieldCh_of_hex c hc
    · simp only [CC.ok, beq_iff_eq] at hc; subst hc; exact ⟨by decide, by decide⟩
    · exact fieldCh_of_hex c hc
  | lit m =>
    simp only [asRe, L_lit] at h
    subst h
    exact fmtAS_fieldCh m ha
  | bad => exact absurd h (by simp [asRe, L, Lang])

/-- `a,b` followed by blanks against `in,out ` -/
theorem L_pair (a b : NumPred) (i o : Nat) :
    L (.cat (.cat (numRe a) (.cat (.atom (.chr ',')) (numRe b))) spaces)
        (toDigits 10 i ++ ',' :: (toDigits 10 o ++ [' '])) ↔
      a.ok i = true ∧ b.ok o = true := by
  rw [L_cat_assoc]
  have e : L (.cat (numRe a) (.cat (.cat (.atom (.chr ',')) (numRe b)) spaces))
        (toDigits 10 i ++ ',' :: (toDigits 10 o ++ [' '])) ↔
      L (.cat (numRe a) (.cat (.atom (.chr ',')) (.cat (numRe b) spaces)))
        (toDigits 10 i ++ ',' :: (toDigits 10 o ++ [' '])) := by
    exact L_cat_congr_right _ _ _ (fun s => L_cat_assoc _ _ _ s) _
  rw [e, L_delim (numRe a) _ ',' _ _ (fun u hu hm => (numRe_chars a u hu _ hm).2.2.2 rfl)
    (fun hm => (toDigits10_decCh i _ hm).2.2.2 rfl),
    L_end (numRe b) _ (fun u hu hm => (numRe_chars b u hu _ hm).1 rfl)
      (fun hm => (toDigits10_decCh o _ hm).1 rfl), L_numRe, L_numRe]

theorem L_ifs (p : IfPred) (i o : Nat) :
    L (.cat (ifsRe p) spaces) (toDigits 10 i ++ ',' :: (toDigits 10 o ++ [' '])) ↔
      p.ok i o = true := by
  cases p with
  | any =>
    have := L_pair .wild .wild i o
    simp only [numRe_wild] at this
    simp only [ifsRe, this, NumPred.ok, IfPred.ok, and_self]
  | either q =>
    have h1 := L_pair .wild q i o
    have h2 := L_pair q .wild i o
    simp only [numRe_wild] at h1 h2
    simp only [ifsRe, L_alt_cat, h1, h2, NumPred.ok, IfPred.ok, true_and, and_true,
      Bool.or_eq_true]
  | both a b =>
    simp only [ifsRe, L_pair, IfPred.ok, Bool.and_eq_true]

def HopPred.WF (p : HopPred) : Prop := p.as.WF

theorem hopText_block (h : Hop) :
    hopText h ++ [' '] = toDigits 10 h.isd ++ '-' :: (fmtAS [':'] h.as ++ '#' ::
      (toDigits 10 h.inIf ++ ',' :: (toDigits 10 h.outIf ++ [' ']))) := by
  simp [hopText]

/-- **one hop**: the compiled hop predicate accepts the hop's text (followed by one blank) iff
    the predicate holds of the hop -/
theorem L_hopRe (p : HopPred) (hp : p.WF) (h : Hop) (hh : h.as < 2 ^ 48) :
    L (hopRe p) (hopText h ++ [' ']) ↔ p.ok h = true := by
  rw [hopText_block]
  unfold hopRe
  rw [L_delim (numRe p.isd) _ '-' _ _ (fun u hu hm => (numRe_chars _ u hu _ hm).2.2.1 rfl)
      (fun hm => (toDigits10_decCh _ _ hm).2.2.1 rfl),
    L_delim (asRe p.as) _ '#' _ _ (fun u hu hm => (asRe_chars _ hp u hu _ hm).2 rfl)
      (fun hm => (fmtAS_fieldCh _ hh _ hm).2 rfl)]
  have := L_ifs p.ifs h.inIf h.outIf
  simp only [spaces] at this
  rw [this, L_numRe, L_asRe _ hp _ hh]
  simp [HopPred.ok, and_assoc]


/-! ### shape of the accepted words, unique decomposition into blocks -/

/-- a token followed by at least one blank -/
def IsTok (u : Str) : Prop :=
  ∃ t sp, u = t ++ sp ∧ ' ' ∉ t ∧ t ≠ [] ∧ sp ≠ [] ∧ ∀ c ∈ sp, c = ' '

theorem atoms_numRe_good (q : NumPred) : ∀ a ∈ atoms (numRe q), ∀ c, CC.ok a c = true → c ≠ ' ' := by
  intro a ha c hc
  cases q with
  | wild =>
    simp only [numRe, digits1, atoms, List.mem_singleton] at ha
    subst ha
    exact (decCh_of_digit c hc).1
  | lit n =>
    simp only [numRe, atoms_lit, List.mem_map] at ha
    obtain ⟨x, hx, rfl⟩ := ha
    simp only [CC.ok, beq_iff_eq] at hc
    subst hc
    exact (toDigits10_decCh n x hx).1

theorem ifsRe_chars (p : IfPred) (u : Str) (h : L (ifsRe p) u) : ∀ c ∈ u, c ≠ ' ' := by
  refine L_chars (ifsRe p) (fun c => c ≠ ' ') ?_ u h
  have hcomma : ∀ c, CC.ok (.chr ',') c = true → c ≠ ' ' := by
    intro c hc; simp only [CC.ok, beq_iff_eq] at hc; subst hc; decide
  have hw := atoms_numRe_good .wild
  simp only [numRe_wild] at hw
  intro a ha c hc
  cases p with
  | any =>
    simp only [ifsRe, atoms, List.mem_append, List.mem_singleton] at ha
    rcases ha with ha | ha | ha
    · exact hw a ha c hc
    · subst ha; exact hcomma c hc
    · exact hw a ha c hc
  | either q =>
    simp only [ifsRe, atoms, List.mem_append, List.mem_singleton] at ha
    rcases ha with (ha | ha | ha) | (ha | ha | ha)
    · exact hw a ha c hc
    · subst ha; exact hcomma c hc
    · exact atoms_numRe_good q a ha c hc
    · exact atoms_numRe_good q a ha c hc
    · subst ha; exact hcomma c hc
    · exact hw a ha c hc
  | both i o =>
    simp only [ifsRe, atoms, List.mem_append, List.mem_singleton] at ha
    rcases ha with ha | ha | ha
    · exact atoms_numRe_good i a ha c hc
    · subst ha; exact hcomma c hc
    · exact atoms_numRe_good o a ha c hc

theorem hopRe_shape (p : HopPred) (hp : p.WF) (u : Str) (h : L (hopRe p) u) : IsTok u := by
  obtain ⟨u1, r1, rfl, h1, x, r2, rfl, ⟨c1, rfl, hc1⟩, u2, r3, rfl, h2, y, r4, rfl, ⟨c2, rfl, hc2⟩,
    u3, sp, rfl, h3, hsp⟩ := h
  simp only [CC.ok, beq_iff_eq] at hc1 hc2
  subst hc1 hc2
  obtain ⟨hne, hall⟩ := (L_spaces sp).1 hsp
  refine ⟨u1 ++ '-' :: (u2 ++ '#' :: u3), sp, by simp, ?_, by simp, hne, hall⟩
  simp only [List.mem_append, List.mem_cons, not_or]
  exact ⟨fun hm => (numRe_chars _ u1 h1 _ hm).1 rfl, by decide,
    fun hm => (asRe_chars _ hp u2 h2 _ hm).1 rfl, by decide, fun hm => ifsRe_chars _ u3 h3 _ hm rfl⟩

/-- a list of tokens-with-blanks and a list of tokens-with-one-blank with the same
    concatenation are equal -/
theorem blocks_unique : ∀ (ws bs : List Str),
    (∀ u ∈ ws, IsTok u) → (∀ b ∈ bs, ∃ t, b = t ++ [' '] ∧ ' ' ∉ t ∧ t ≠ []) →
    ws.flatten = bs.flatten → ws = bs := by
  intro ws
  induction ws with
  | nil =>
    intro bs _ hb h
    cases bs with
    | nil => rfl
    | cons b bs' =>
      obtain ⟨t, rfl, _, _⟩ := hb b (by simp)
      simp at h
  | cons u ws ih =>
    intro bs hw hb h
    obtain ⟨t, sp, rfl, hts, htne, hspne, hsp⟩ := hw u (by simp)
    cases bs with
    | nil =>
      cases t with
      | nil => exact absurd rfl htne
      | cons x xs => simp at h
    | cons b bs' =>
      obtain ⟨t', rfl, hts', htne'⟩ := hb b (by simp)
      cases sp with
      | nil => exact absurd rfl hspne
      | cons s0 sp' =>
        have hs0 : s0 = ' ' := hsp s0 (by simp)
        subst hs0
        have h' : t ++ ' ' :: (sp' ++ ws.flatten) = t' ++ ' ' :: bs'.flatten := by
          simpa using h
        obtain ⟨e1, e2⟩ := append_cons_inj ' ' t t' _ _ hts hts' h'
        subst e1
        -- no further blank: the next block would have to start with one
        have hsp' : sp' = [] := by
          cases sp' with
          | nil => rfl
          | cons s1 sp'' =>
            have hs1 : s1 = ' ' := hsp s1 (by simp)
            subst hs1
            cases bs' with
            | nil => simp at e2
            | cons b2 bs'' =>
              obtain ⟨t2, rfl, hts2, htne2⟩ := hb b2 (by simp)
              cases t2 with
              | nil => exact absurd rfl htne2
              | cons z zs =>
                simp only [List.cons_append, List.flatten_cons, List.cons.injEq] at e2
                exact absurd (by simp [← e2.1]) hts2
        subst hsp'
        simp only [List.nil_append] at e2
        have := ih bs' (fun v hv => hw v (by simp [hv])) (fun v hv => hb v (by simp [hv])) e2
        rw [this]

/-! ### assembling -/

/-- the text of one hop as `Eval` lays it out: the hop followed by one blank -/
def block (h : Hop) : Str := hopText h ++ [' ']

theorem render_eq : ∀ hs : List Hop, render hs = (hs.map block).flatten
  | [] => rfl
  | h :: hs => by simp [render, block, render_eq hs]

theorem compile_eq_subst : ∀ e : Expr, compile e = subst hopRe e
  | .zero => rfl
  | .eps => rfl
  | .atom _ => rfl
  | .cat a b => by simp [compile, subst, compile_eq_subst a, compile_eq_subst b]
  | .alt a b => by simp [compile, subst, compile_eq_subst a, compile_eq_subst b]
  | .opt a => by simp [compile, subst, compile_eq_subst a]
  | .plus a => by simp [compile, subst, compile_eq_subst a]
  | .star a => by simp [compile, subst, compile_eq_subst a]

theorem hopText_tok (h : Hop) (hh : h.as < 2 ^ 48) : ' ' ∉ hopText h ∧ hopText h ≠ [] := by
  constructor
  · simp only [hopText, List.mem_append, List.mem_singleton, not_or]
    exact ⟨⟨⟨⟨⟨⟨fun hm => (toDigits10_decCh _ _ hm).1 rfl, by decide⟩,
      fun hm => (fmtAS_fieldCh _ hh _ hm).1 rfl⟩, by decide⟩,
      fun hm => (toDigits10_decCh _ _ hm).1 rfl⟩, by decide⟩,
      fun hm => (toDigits10_decCh _ _ hm).1 rfl⟩
  · simp [hopText]

/-- all AS literals of the expression are AS numbers (what `asPredOfText` produces) -/
def ExprWF (e : Expr) : Prop := ∀ p ∈ atoms e, HopPred.WF p

theorem compile_correct_lang (e : Expr) (he : ExprWF e) (hs : List Hop)
    (hh : ∀ h ∈ hs, h.as < 2 ^ 48) :
    L (compile e) (render hs) ↔ Lang HopPred.ok e hs := by
  have key : Lang (fun p u => Rx.accepts CC.ok (hopRe p) u) e (hs.map block) ↔
      Lang HopPred.ok e hs :=
    Lang_map (fun p u => Rx.accepts CC.ok (hopRe p) u) HopPred.ok block HopPred.WF
      (fun h => h.as < 2 ^ 48)
      (fun p x hp hx => by
        apply Bool.eq_iff_iff.2
        rw [Rx.accepts_iff_lang]
        exact L_hopRe p hp x hx) e he hs hh
  unfold L
  rw [compile_eq_subst, Lang_subst, render_eq]
  constructor
  · rintro ⟨ws, hfl, hl⟩
    have hw : ∀ u ∈ ws, IsTok u := by
      intro u hu
      obtain ⟨p, hp, hsat⟩ := Lang_letters _ e ws hl u hu
      exact hopRe_shape p (he p hp) u ((Rx.accepts_iff_lang CC.ok _ u).1 hsat)
    have hb : ∀ b ∈ hs.map block, ∃ t, b = t ++ [' '] ∧ ' ' ∉ t ∧ t ≠ [] := by
      intro b hb
      simp only [List.mem_map] at hb
      obtain ⟨h, hm, rfl⟩ := hb
      exact ⟨hopText h, rfl, (hopText_tok h (hh h hm)).1, (hopText_tok h (hh h hm)).2⟩
    have := blocks_unique ws (hs.map block) hw hb hfl.symm
    rw [this] at hl
    exact key.1 hl
  · intro h
    exact ⟨hs.map block, rfl, key.2 h⟩

end Scion.Seq
