import Scion.Proofs.Scmp
import Scion.Model.ScmpBytes
import Scion.Proofs.Wire
import Scion.Proofs.Spao
/-! Lemmas for the byte-level part of C09: shape of the reply's path (lengths, field widths) so that
the checksum (C20) and authenticator-input (C21) theorems can be instantiated on it. -/
namespace Scion.Scmp
open Scion.Util Scion.PathMeta Scion.C19

/-- segment lengths fit their 6-bit fields -/
def SegsLt (m : Hdr) : Prop := m.s0 < 64 ∧ m.s1 < 64 ∧ m.s2 < 64

theorem incPath_segs (b b' : Base) (h : incPath b = .ok b') (hs : SegsLt b.pm) : SegsLt b'.pm := by
  unfold incPath at h
  split at h
  · cases h
  · split at h
    · cases h
    · injection h with h; subst h; exact hs

theorem reverseMeta_segs (b rb : Base) (h : reverseMeta b = some rb) (hs : SegsLt b.pm) : SegsLt rb.pm := by
  unfold reverseMeta at h
  split at h
  · cases h
  · injection h with h; subst h
    obtain ⟨h0, h1, h2⟩ := hs
    unfold SegsLt
    dsimp only
    split
    · exact ⟨h1, h0, h2⟩
    · split
      · exact ⟨h2, h1, h0⟩
      · exact ⟨h0, h1, h2⟩

theorem reversePath_segs (o : Offender) (rp : RevPath) (peering : Bool)
    (h : reversePath o = .ok (rp, peering)) : SegsLt rp.b.pm := by
  unfold reversePath at h
  split at h
  · cases h
  · rename_i b hb
    have hpm : b.pm = decode o.pmWord := (Scion.C19.accept_values _ b hb).1
    have hin := Scion.C19.decode_inRange o.pmWord
    have hs0 : SegsLt b.pm := by rw [hpm]; exact ⟨hin.2.2.1, hin.2.2.2.1, hin.2.2.2.2⟩
    split at h
    · cases h
    · rename_i rb hr
      have hs1 := reverseMeta_segs b rb hr hs0
      dsimp only at h
      split at h
      · cases h
      · split at h
        · cases h
        · split at h
          · split at h
            · cases h
            · rename_i rb' hi
              injection h with h; injection h with h1 h2; subst h1
              exact incPath_segs rb rb' hi hs1
          · injection h with h; injection h with h1 h2; subst h1
            exact hs1

theorem updSegID_len (rp : RevPath) (inf : InfoF) (peering : Bool) (infos' : List InfoF)
    (h : updSegID rp inf peering = .ok infos') : infos'.length = rp.infos.length := by
  unfold updSegID at h
  split at h
  · split at h
    · cases h
    · split at h
      · cases h
      · injection h with h; subst h; simp
  · injection h with h; subst h; rfl

theorem externalStep_shape (scope : Scope) (rp rp' : RevPath) (peering : Bool)
    (h : externalStep scope rp peering = .ok rp') (hs : SegsLt rp.b.pm) :
    rp'.infos.length = rp.infos.length ∧ rp'.hops = rp.hops ∧ SegsLt rp'.b.pm := by
  unfold externalStep at h
  split at h
  · injection h with h; subst h; exact ⟨rfl, rfl, hs⟩
  · split at h
    · cases h
    · split at h
      · cases h
      · cases h
      · rename_i infos' hu
        split at h
        · cases h
        · rename_i b' hi
          injection h with h; subst h
          exact ⟨updSegID_len _ _ _ _ hu, rfl, incPath_segs _ _ hi hs⟩

theorem length_flatten12 (l : List Bytes) (h : ∀ x ∈ l, x.length = 12) : l.flatten.length = 12 * l.length := by
  induction l with
  | nil => rfl
  | cons a t ih =>
    have ha := h a (by simp)
    have ht := ih (fun x hx => h x (by simp [hx]))
    simp only [List.flatten_cons, List.length_append, List.length_cons, ha, ht]; omega

theorem length_encInfos (l : List Wire.Info) : (Wire.encInfos l).length = 8 * l.length := by
  unfold Wire.encInfos
  induction l with
  | nil => rfl
  | cons a t ih =>
    simp only [List.map_cons, List.flatten_cons, List.length_append, List.length_cons,
      Wire.length_encInfo, ih]; omega

theorem infoBytes_len (t : Nat) (info : List Nat) :
    4 ≤ (infoBytes t info).length ∧ (infoBytes t info).length ≤ 24 := by
  unfold infoBytes
  split <;> simp [Wire.length_natBE]

theorem finish_emit2 (cfg : Cfg) (o : Offender) (rq : Request) (rp : RevPath) (typ code : Nat)
    (isErr na : Bool) (trIf : Nat) (sz : Sizes) (r : Reply)
    (h : finish cfg o rq rp typ code isErr na trIf sz = .emit r) :
    r.infos = rp.infos ∧ r.hops = rp.hops ∧ r.tc = o.tc ∧ r.flowID = o.flowID := by
  unfold finish at h
  split at h
  · cases h
  · split at h
    · cases h
    · split at h
      · cases h
      · injection h with h; subst h; exact ⟨rfl, rfl, rfl, rfl⟩

/-- everything about an emitted reply that the byte-level theorems need -/
def EmitShape (cfg : Cfg) (o : Offender) (r : Reply) : Prop :=
  Consistent ⟨r.pm, r.numINF, r.numHops⟩ ∧ SegsLt r.pm ∧ r.infos.length = r.numINF ∧
  r.hops.length = r.numHops ∧ (∀ x ∈ r.hops, x.length = 12) ∧
  cmnHdrLen + addrHdrLen r.dstType r.srcType + pathLen r.numINF r.numHops ≤ maxHdrLen ∧
  r.quote.length ≤ maxSCMPPacketLen ∧ r.pathType = 1 ∧
  r.dstIA = o.srcIA ∧ r.dstType = o.srcType ∧ r.rawDst = o.rawSrc ∧
  r.srcIA = cfg.localIA ∧ r.srcType = cfg.hostType ∧ r.rawSrc = cfg.rawHost ∧
  r.tc = o.tc ∧ r.flowID = o.flowID

theorem emit_shape (cfg : Cfg) (scope : Scope) (headroom : Nat) (o : Offender) (rq : Request)
    (b : Base) (hw : WellFormed o b) (hc : Consistent b)
    (r : Reply) (h : processPacket cfg scope headroom o rq = .emit r) : EmitShape cfg o r := by
  have key : ∀ t code e i, prepareSCMP cfg scope headroom o rq t code e i = .emit r →
      EmitShape cfg o r := by
    intro t code e i hp
    obtain ⟨rp0, peering, rp, sz, hrev, hext, hpl, hfin⟩ := prepare_emit _ _ _ _ _ _ _ _ _ _ hp
    have hsg0 := reversePath_segs o rp0 peering hrev
    rcases reversePath_ok o b hw hc with ⟨w, hd⟩ | ⟨rp0', peering', hrev', hc0, hn0, hh0, hil0, hhl0, h12⟩
    · rw [hd] at hrev; cases hrev
    · rw [hrev'] at hrev
      injection hrev with hrev; injection hrev with e1 e2; subst e1; subst e2
      obtain ⟨hl1, hl2, hsg1⟩ := externalStep_shape scope rp0' rp peering' hext hsg0
      rcases externalStep_ok scope rp0' peering' hc0 (by omega) (by omega) h12 with ⟨w, hd⟩ | ⟨rp', hext', hc1, hn1, hh1⟩
      · rw [hd] at hext; cases hext
      · rw [hext'] at hext; injection hext with hext; subst hext
        obtain ⟨hoff, hE, hN⟩ := placement_ok _ _ _ _ _ _ _ _ _ _ _ hpl
        obtain ⟨f1, f2, f3, f4, f5, f6, f7, f8, f9, f10, f11, f12, f13, f14, f15, f16, f17, f18, f19, f20, f21, f22, f23⟩ :=
          finish_emit _ _ _ _ _ _ _ _ _ _ _ hfin
        obtain ⟨g1, g2, g3, g4⟩ := finish_emit2 _ _ _ _ _ _ _ _ _ _ _ hfin
        have hquote : sz.quote.length ≤ maxSCMPPacketLen := by
          cases e
          · obtain ⟨_, q2, _⟩ := hN rfl; rw [q2]; simp
          · obtain ⟨q0, _, q2, _⟩ := hE rfl
            have hq := quoteLen_le o.raw.length (hdrLen o.srcType cfg.hostType rp'.b.numINF rp'.b.numHops t (needsAuth cfg o t true))
            rw [q2, List.length_take]; omega
        unfold EmitShape
        rw [f14, f15, f16, g1, g2, f10, f13, f5]
        exact ⟨hc1, hsg1, by omega, by rw [hl2]; omega, by rw [hl2]; exact h12, f1, hquote, f21,
          f8, rfl, f9, f11, rfl, f12, g3, g4⟩
  rcases processPacket_emit cfg scope headroom o rq r h with ⟨t, _, _, _, hp⟩ | ⟨trIf, p, _, _, hp⟩
  · exact key _ _ _ _ hp
  · exact key _ _ _ _ hp

end Scion.Scmp
