import Scion.Proofs.Ring
/-! Lemmas for C48: the monitor (no lost wake-up) and conservation of entries in the abstract
FIFO. Core Lean only. -/
namespace Scion.Ring

def allWake : Cfg := ⟨true, true, true, true⟩

/-- a caller is parked on a condition variable only while its wait condition holds -/
def NoLost (m : Mon) : Prop :=
  (m.rWait ≠ [] → m.ring.readable = 0 ∧ m.ring.closed = false) ∧
  (m.wWait ≠ [] → m.ring.writable = 0 ∧ m.ring.closed = false)

theorem mstep_noLost (m : Mon) (st : MStep) (m' : Mon) (h : mstep allWake m st = some m')
    (hn : NoLost m) : NoLost m' := by
  obtain ⟨hr, hw⟩ := hn
  cases st with
  | parkR t len =>
    simp only [mstep] at h
    split at h
    · cases h
      rename_i hc
      exact ⟨fun _ => ⟨hc.2.1, hc.2.2⟩, hw⟩
    · cases h
  | parkW t es =>
    simp only [mstep] at h
    split at h
    · cases h
      rename_i hc
      exact ⟨hr, fun _ => ⟨hc.2.1, hc.2.2⟩⟩
    · cases h
  | doWrite es block =>
    simp only [mstep] at h
    cases hwr : write m.ring es block with
    | none => rw [hwr] at h; cases h
    | some p =>
      rw [hwr] at h
      cases h
      unfold write at hwr
      split at hwr
      · -- early return 0: nothing changes, nobody woken
        rename_i hc
        split at hwr
        · cases hwr
        · cases hwr
          have : writeMutates m.ring es = false := by
            simp [writeMutates, hc.1, hc.2.1, hc.2.2]
          simp only [this, Bool.false_and]
          exact ⟨hr, hw⟩
      · rename_i hc
        split at hwr
        · -- closed: -1
          rename_i hcl
          cases hwr
          have : writeMutates m.ring es = false := by simp [writeMutates, hcl]
          simp only [this, Bool.false_and]
          exact ⟨hr, hw⟩
        · rename_i hcl
          cases hwr
          have hcl' : m.ring.closed = false := by simpa using hcl
          have : writeMutates m.ring es = true := by
            simp only [writeMutates, hcl', Bool.not_false, Bool.and_true]
            simp only [hcl', and_true] at hc
            by_cases h0 : 0 < es.length
            · have : ¬ m.ring.writable = 0 := fun hz => hc ⟨h0, hz⟩
              simp [h0, this]
            · simp [h0]
          simp only [this, allWake, Bool.and_self, if_true]
          refine ⟨fun hne => absurd rfl hne, fun hne => ?_⟩
          obtain ⟨hz, hcf⟩ := hw hne
          dsimp only
          refine ⟨by omega, hcf⟩
  | doRead len block =>
    simp only [mstep] at h
    cases hrd : read m.ring len block with
    | none => rw [hrd] at h; cases h
    | some p =>
      rw [hrd] at h
      cases h
      unfold read at hrd
      split at hrd
      · rename_i hc
        split at hrd
        · cases hrd
        · cases hrd
          have : readMutates m.ring len = false := by
            simp [readMutates, hc.1, hc.2.1, hc.2.2]
          simp only [this, Bool.false_and]
          exact ⟨hr, hw⟩
      · rename_i hc
        split at hrd
        · rename_i hcl
          cases hrd
          have : readMutates m.ring len = false := by simp [readMutates, hcl.1, hcl.2]
          simp only [this, Bool.false_and]
          exact ⟨hr, hw⟩
        · rename_i hcl
          cases hrd
          have : readMutates m.ring len = true := by
            simp only [readMutates]
            by_cases hcf : m.ring.closed = true
            · have hz : ¬ m.ring.readable = 0 := fun hz => hcl ⟨hcf, hz⟩
              simp [hcf, hz]
            · have hcf' : m.ring.closed = false := by simpa using hcf
              simp only [hcf', and_true] at hc
              by_cases h0 : 0 < len
              · have : ¬ m.ring.readable = 0 := fun hz => hc ⟨h0, hz⟩
                simp [h0, this, hcf']
              · simp [h0, hcf']
          simp only [this, allWake, Bool.and_self, if_true]
          refine ⟨fun hne => ?_, fun hne => absurd rfl hne⟩
          obtain ⟨hz, hcf⟩ := hr hne
          dsimp only
          refine ⟨by omega, hcf⟩
  | doClose =>
    simp only [mstep, allWake, if_true] at h
    cases h
    exact ⟨fun hne => absurd rfl hne, fun hne => absurd rfl hne⟩

theorem mrun_noLost (steps : List MStep) : ∀ (m m' : Mon), mrun allWake m steps = some m' →
    NoLost m → NoLost m' := by
  induction steps with
  | nil => intro m m' h hn; simp only [mrun] at h; cases h; exact hn
  | cons st rest ih =>
    intro m m' h hn
    simp only [mrun] at h
    cases hs : mstep allWake m st with
    | none => rw [hs] at h; cases h
    | some m1 =>
      rw [hs] at h
      exact ih m1 m' h (mstep_noLost m st m1 hs hn)

/-- the operation a monitor step performs on the ring (parking performs none) -/
def MStep.op? : MStep → Option Op
  | .parkR _ _ => none
  | .parkW _ _ => none
  | .doWrite es b => some (.write es b)
  | .doRead len b => some (.read len b)
  | .doClose => some .close

theorem mrun_is_history (c : Cfg) (steps : List MStep) : ∀ (m m' : Mon),
    mrun c m steps = some m' →
    ∃ outs, runOps m.ring (steps.filterMap MStep.op?) = some (m'.ring, outs) := by
  induction steps with
  | nil => intro m m' h; simp only [mrun] at h; cases h; exact ⟨[], rfl⟩
  | cons st rest ih =>
    intro m m' h
    simp only [mrun] at h
    cases hs : mstep c m st with
    | none => rw [hs] at h; cases h
    | some m1 =>
      rw [hs] at h
      obtain ⟨outs, ho⟩ := ih m1 m' h
      cases st with
      | parkR t len =>
        simp only [mstep] at hs
        split at hs
        · cases hs; exact ⟨outs, ho⟩
        · cases hs
      | parkW t es =>
        simp only [mstep] at hs
        split at hs
        · cases hs; exact ⟨outs, ho⟩
        · cases hs
      | doWrite es b =>
        simp only [mstep] at hs
        cases hw : write m.ring es b with
        | none => rw [hw] at hs; cases hs
        | some p =>
          rw [hw] at hs; cases hs
          refine ⟨.wrote p.2 :: outs, ?_⟩
          simp only [List.filterMap_cons, MStep.op?, runOps, step, hw, Option.map_some]
          dsimp only at ho
          rw [ho]
      | doRead len b =>
        simp only [mstep] at hs
        cases hr : read m.ring len b with
        | none => rw [hr] at hs; cases hs
        | some p =>
          rw [hr] at hs; cases hs
          refine ⟨.got p.2.1 p.2.2 :: outs, ?_⟩
          simp only [List.filterMap_cons, MStep.op?, runOps, step, hr, Option.map_some]
          dsimp only at ho
          rw [ho]
      | doClose =>
        simp only [mstep] at hs; cases hs
        refine ⟨.closed :: outs, ?_⟩
        simp only [List.filterMap_cons, MStep.op?, runOps, step]
        dsimp only at ho
        rw [ho]

/-! ### conservation of entries in the abstract FIFO -/

/-- the cells a write operation that returned `n` put into the queue -/
def accepted (es : List Nat) (n : Int) : List Cell :=
  if 0 ≤ n then (es.take n.toNat).map some else []

/-- cells accepted by the write operations of a history, in order -/
def writtenCells : List Op → List Out → List Cell
  | .write es _ :: os, .wrote n :: outs => accepted es n ++ writtenCells os outs
  | _ :: os, _ :: outs => writtenCells os outs
  | _, _ => []

/-- cells handed out by the read operations of a history, in order -/
def readCells : List Out → List Cell
  | .got _ c :: outs => c ++ readCells outs
  | _ :: outs => readCells outs
  | [] => []

theorem Fifo.write_q (f : Fifo) (es : List Nat) (b : Bool) (f' : Fifo) (n : Int)
    (h : f.write es b = some (f', n)) : f'.q = f.q ++ accepted es n := by
  unfold Fifo.write at h
  split at h
  · split at h
    · cases h
    · cases h; simp [accepted]
  · split at h
    · cases h; simp [accepted]
    · cases h; simp [accepted]

theorem Fifo.read_q (f : Fifo) (len : Nat) (b : Bool) (f' : Fifo) (n : Int) (c : List Cell)
    (h : f.read len b = some (f', n, c)) : f.q = c ++ f'.q := by
  unfold Fifo.read at h
  split at h
  · split at h
    · cases h
    · cases h; simp
  · split at h
    · cases h; simp
    · cases h; simp

theorem fifo_conservation_aux (os : List Op) : ∀ (f f' : Fifo) (outs : List Out),
    Fifo.runOps f os = some (f', outs) →
    f.q ++ writtenCells os outs = readCells outs ++ f'.q := by
  induction os with
  | nil => intro f f' outs h; simp only [Fifo.runOps] at h; cases h; simp [writtenCells, readCells]
  | cons o os ih =>
    intro f f' outs h
    simp only [Fifo.runOps] at h
    cases hs : f.step o with
    | none => rw [hs] at h; cases h
    | some p =>
      rw [hs] at h
      dsimp only at h
      cases hr : Fifo.runOps p.1 os with
      | none => rw [hr] at h; cases h
      | some q =>
        rw [hr] at h; cases h
        have hi := ih p.1 q.1 q.2 hr
        cases o with
        | write es b =>
          simp only [Fifo.step] at hs
          cases hw : f.write es b with
          | none => rw [hw] at hs; cases hs
          | some w =>
            rw [hw] at hs; cases hs
            have := Fifo.write_q f es b w.1 w.2 hw
            simp only [writtenCells, readCells]
            rw [← hi, this, List.append_assoc]
        | read len b =>
          simp only [Fifo.step] at hs
          cases hw : f.read len b with
          | none => rw [hw] at hs; cases hs
          | some w =>
            rw [hw] at hs; cases hs
            have := Fifo.read_q f len b w.1 w.2.1 w.2.2 hw
            simp only [writtenCells, readCells]
            rw [List.append_assoc, ← hi, this, List.append_assoc]
        | close =>
          simp only [Fifo.step] at hs; cases hs
          simp only [writtenCells, readCells]
          exact hi

end Scion.Ring
