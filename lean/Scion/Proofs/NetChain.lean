import Scion.Model.Net
import Scion.Proofs.SegID
/-! Control-plane facts: what every registered segment looks like (`Chain`), by induction over
origination / propagation / termination.  Core Lean only. -/
namespace Scion.Net
open Scion.SegID (updateSegID extractBeta xorAll)

/-- `e'` was appended by the AS that received the beacon from `e` over `e`'s egress interface -/
def Linked (net : Net) (core : Bool) (e e' : ASE) : Prop :=
  ∃ f, (net e.ia).iface e.hop.cEg = some f ∧ f.lt = beaconLink core ∧ f.nbr = e'.ia ∧
    f.nbrIf = e'.hop.cIn ∧ e.hop.cEg ≠ 0

/-- a peer entry of `e`: a peering interface of the AS, MAC under the accumulator `β'` -/
def PeerOK (mac : MacFn) (net : Net) (ts β' : Nat) (e : ASE) (p : PeerE) : Prop :=
  ∃ f, (net e.ia).iface p.hop.cIn = some f ∧ f.lt = LinkType.peer ∧ p.peerAS = f.nbr ∧
    p.peerIf = f.nbrIf ∧ p.hop.cEg = e.hop.cEg ∧
    p.hop.mac = mac (net e.ia).key (macInput β' ts p.hop.exp p.hop.cIn p.hop.cEg)

/-- the hop entry of `e` carries the MAC of its AS under accumulator `β`; its peer entries under
    `β ⊕ MAC[:2]` -/
def MacAt (mac : MacFn) (net : Net) (ts β : Nat) (e : ASE) : Prop :=
  e.hop.mac = mac (net e.ia).key (macInput β ts e.hop.exp e.hop.cIn e.hop.cEg) ∧
  ∀ p ∈ e.peers, PeerOK mac net ts (updateSegID β (pfx e.hop.mac)) e p

def Chain (mac : MacFn) (net : Net) (core : Bool) (ts : Nat) : Nat → List ASE → Prop
  | _, [] => True
  | β, [e] => MacAt mac net ts β e
  | β, e :: e' :: rest =>
    MacAt mac net ts β e ∧ Linked net core e e' ∧
      Chain mac net core ts (updateSegID β (pfx e.hop.mac)) (e' :: rest)

def sig (l : List ASE) : List Nat := l.map fun e => pfx e.hop.mac

theorem chain_snoc (mac : MacFn) (net : Net) (core : Bool) (ts : Nat) (β : Nat) (l : List ASE)
    (last e : ASE) (hl : l.getLast? = some last)
    (hc : Chain mac net core ts β l) (hlink : Linked net core last e)
    (hm : MacAt mac net ts (extractBeta β (sig l)) e) :
    Chain mac net core ts β (l ++ [e]) := by
  induction l generalizing β with
  | nil => simp at hl
  | cons x xs ih =>
    cases xs with
    | nil =>
      simp at hl
      subst hl
      simp only [List.cons_append, List.nil_append, Chain]
      refine ⟨hc, hlink, ?_⟩
      simpa [sig, extractBeta] using hm
    | cons y ys =>
      obtain ⟨h1, h2, h3⟩ := hc
      simp only [List.cons_append, Chain]
      refine ⟨h1, h2, ?_⟩
      apply ih _ (by simpa using hl) h3
      simpa [sig, extractBeta] using hm

/-- the entry `extend` appends satisfies `MacAt` for the accumulator `extractBeta` yields -/
theorem extend_macAt (mac : MacFn) (net : Net) (s : PSeg) (a exp ingress egress : Nat)
    (peers : List Nat) (hpe : PeerIfs net a peers) :
    ∃ e, (extend mac net s a exp ingress egress peers).entries = s.entries ++ [e] ∧
      e.ia = a ∧ e.hop.cIn = ingress ∧ e.hop.cEg = egress ∧
      MacAt mac net s.ts (extractBeta s.s0 (sig s.entries)) e := by
  refine ⟨_, rfl, rfl, rfl, rfl, ?_, ?_⟩
  · rfl
  · intro p hp
    simp only [List.mem_filterMap] at hp
    obtain ⟨q, hqm, hq⟩ := hp
    split at hq
    · rename_i f hf
      cases hq
      exact ⟨f, hf, hpe q hqm f hf, rfl, rfl, rfl, rfl⟩
    · cases hq

/-- invariant of beaconing -/
theorem beaconed_chain (mac : MacFn) (net : Net) (core : Bool) (b : PSeg) (a i : Nat)
    (h : Beaconed mac net core b a i) :
    Chain mac net core b.ts b.s0 b.entries ∧
    (∃ first, b.entries.head? = some first ∧ first.hop.cIn = 0) ∧
    (∃ last f, b.entries.getLast? = some last ∧ (net last.ia).iface last.hop.cEg = some f ∧
      f.lt = beaconLink core ∧ f.nbr = a ∧ f.nbrIf = i ∧ last.hop.cEg ≠ 0) := by
  induction h with
  | originate a s0 ts exp e peers f hf hlt he hpe =>
    obtain ⟨x, hx, hia, hin, heg, hm⟩ := extend_macAt mac net ⟨s0, ts, []⟩ a exp 0 e peers hpe
    simp only [List.nil_append] at hx
    have hts : (extend mac net ⟨s0, ts, []⟩ a exp 0 e peers).ts = ts := rfl
    have hs0 : (extend mac net ⟨s0, ts, []⟩ a exp 0 e peers).s0 = s0 := rfl
    rw [hx, hts, hs0]
    refine ⟨?_, ⟨x, rfl, hin⟩, ⟨x, f, rfl, ?_, hlt, rfl, rfl, ?_⟩⟩
    · simpa [Chain, sig, extractBeta] using hm
    · rw [hia, heg]; exact hf
    · rw [heg]; exact he
  | propagate b a i exp e peers f _ hf hlt he hpe ih =>
    obtain ⟨hc, ⟨first, hfirst, hfin⟩, ⟨last, fl, hlast, hfl, hfllt, hnbr, hnif, hne⟩⟩ := ih
    obtain ⟨x, hx, hia, hin, heg, hm⟩ := extend_macAt mac net b a exp i e peers hpe
    have hts : (extend mac net b a exp i e peers).ts = b.ts := rfl
    have hs0 : (extend mac net b a exp i e peers).s0 = b.s0 := rfl
    rw [hx, hts, hs0]
    refine ⟨?_, ⟨first, ?_, hfin⟩, ⟨x, f, by simp, ?_, hlt, rfl, rfl, ?_⟩⟩
    · apply chain_snoc mac net core b.ts b.s0 b.entries last x hlast hc ?_ hm
      exact ⟨fl, hfl, hfllt, by rw [hnbr, hia], by rw [hnif, hin], hne⟩
    · cases hb : b.entries with
      | nil => simp [hb] at hfirst
      | cons y ys => simp [hb] at hfirst ⊢; exact hfirst
    · rw [hia, heg]; exact hf
    · rw [heg]; exact he

/-- every registered segment is a chain that starts with ingress 0 and ends with egress 0 -/
theorem registered_chain (mac : MacFn) (net : Net) (core : Bool) (s : PSeg)
    (h : Registered mac net core s) :
    Chain mac net core s.ts s.s0 s.entries ∧
    (∃ first, s.entries.head? = some first ∧ first.hop.cIn = 0) ∧
    (∃ last, s.entries.getLast? = some last ∧ last.hop.cEg = 0) ∧
    2 ≤ s.entries.length := by
  cases h with
  | terminate b a i exp peers hb hpe =>
    obtain ⟨hc, ⟨first, hfirst, hfin⟩, ⟨last, fl, hlast, hfl, hfllt, hnbr, hnif, hne⟩⟩ :=
      beaconed_chain mac net core b a i hb
    obtain ⟨x, hx, hia, hin, heg, hm⟩ := extend_macAt mac net b a exp i 0 peers hpe
    have hts : (extend mac net b a exp i 0 peers).ts = b.ts := rfl
    have hs0 : (extend mac net b a exp i 0 peers).s0 = b.s0 := rfl
    rw [hx, hts, hs0]
    refine ⟨?_, ⟨first, ?_, hfin⟩, ⟨x, by simp, heg⟩, ?_⟩
    · apply chain_snoc mac net core b.ts b.s0 b.entries last x hlast hc ?_ hm
      exact ⟨fl, hfl, hfllt, by rw [hnbr, hia], by rw [hnif, hin], hne⟩
    · cases hb' : b.entries with
      | nil => simp [hb'] at hfirst
      | cons y ys => simp [hb'] at hfirst ⊢; exact hfirst
    · cases hb' : b.entries with
      | nil => simp [hb'] at hfirst
      | cons y ys => simp

/-- the same chain read from the far end: `b` is the accumulator *after* the head entry -/
def ChainUp (mac : MacFn) (net : Net) (core : Bool) (ts : Nat) : Nat → List ASE → Prop
  | _, [] => True
  | b, [e] => MacAt mac net ts (updateSegID b (pfx e.hop.mac)) e
  | b, e :: e' :: rest =>
    MacAt mac net ts (updateSegID b (pfx e.hop.mac)) e ∧ Linked net core e' e ∧
      ChainUp mac net core ts (updateSegID b (pfx e.hop.mac)) (e' :: rest)

theorem sig_reverse (l : List ASE) : sig l.reverse = (sig l).reverse := by
  simp [sig, List.map_reverse]

theorem sig_append (a b : List ASE) : sig (a ++ b) = sig a ++ sig b := by simp [sig]

theorem chainUp_snoc (mac : MacFn) (net : Net) (core : Bool) (ts : Nat) (b : Nat) (r : List ASE)
    (lastR x : ASE) (hl : r.getLast? = some lastR)
    (hc : ChainUp mac net core ts b r) (hlink : Linked net core x lastR)
    (hm : MacAt mac net ts (updateSegID (b ^^^ xorAll (sig r)) (pfx x.hop.mac)) x) :
    ChainUp mac net core ts b (r ++ [x]) := by
  induction r generalizing b with
  | nil => simp at hl
  | cons y ys ih =>
    cases ys with
    | nil =>
      simp at hl
      subst hl
      simp only [List.cons_append, List.nil_append, ChainUp]
      refine ⟨hc, hlink, ?_⟩
      simpa [sig, xorAll, updateSegID] using hm
    | cons z zs =>
      obtain ⟨h1, h2, h3⟩ := hc
      simp only [List.cons_append, ChainUp]
      refine ⟨h1, h2, ?_⟩
      apply ih _ (by simpa using hl) h3
      simpa [sig, xorAll, updateSegID, Nat.xor_assoc] using hm

theorem chain_to_up (mac : MacFn) (net : Net) (core : Bool) (ts : Nat) (β : Nat) (l : List ASE)
    (hc : Chain mac net core ts β l) :
    ChainUp mac net core ts (extractBeta β (sig l)) l.reverse := by
  induction l generalizing β with
  | nil => simp [ChainUp]
  | cons x xs ih =>
    cases xs with
    | nil =>
      simp only [List.reverse_cons, List.reverse_nil, List.nil_append, ChainUp, sig, List.map,
        extractBeta, List.foldl, updateSegID]
      rw [Scion.SegID.xor_cancel]
      exact hc
    | cons y ys =>
      obtain ⟨h1, h2, h3⟩ := hc
      have ih' := ih _ h3
      have hb : extractBeta β (sig (x :: y :: ys)) =
          extractBeta (updateSegID β (pfx x.hop.mac)) (sig (y :: ys)) := by
        simp [sig, extractBeta]
      rw [hb, List.reverse_cons]
      apply chainUp_snoc mac net core ts _ _ y x (by simp) ih' h2
      rw [sig_reverse, Scion.SegID.xorAll_reverse, Scion.SegID.extractBeta_eq]
      simp only [updateSegID]
      rw [Scion.SegID.xor_cancel, Scion.SegID.xor_cancel]
      exact h1

/-- a chain continues after any prefix, with the accumulator advanced over the prefix -/
theorem chain_drop (mac : MacFn) (net : Net) (core : Bool) (ts : Nat) (β : Nat) (pre l : List ASE)
    (hc : Chain mac net core ts β (pre ++ l)) :
    Chain mac net core ts (extractBeta β (sig pre)) l := by
  induction pre generalizing β with
  | nil => simpa [sig, extractBeta] using hc
  | cons x xs ih =>
    cases hxl : xs ++ l with
    | nil =>
      have : l = [] := by
        cases xs <;> simp_all
      subst this; simp [Chain]
    | cons y ys =>
      simp only [List.cons_append, hxl, Chain] at hc
      have := ih (updateSegID β (pfx x.hop.mac)) (by rw [hxl]; exact hc.2.2)
      simpa [sig, extractBeta] using this

end Scion.Net
