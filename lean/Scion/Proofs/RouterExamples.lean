import Scion.Model.Router
/-! Concrete configurations and packets for the non-vacuity examples of C01, C05, C06, C07.
The toy MAC returns its input, so a hop's MAC bytes are `[0, 0, SegID_hi, SegID_lo, ts_0, ts_1]`. -/
namespace Scion.Router.Ex
open Scion.Util Scion.Router

def localIA : Nat := 0x0001ff0000000110

/-- interface 1: external, child; 2: external, child; 3: owned by sibling link 1, parent; 0: internal -/
def cfg : Cfg :=
  { localIA := localIA, key := [1, 2, 3, 4, 5, 6, 7, 8, 9, 10, 11, 12, 13, 14, 15, 16],
    ifaces := fun id =>
      if id = 0 then some ⟨.internal, true, 0⟩
      else if id = 1 then some ⟨.external, true, 10⟩
      else if id = 2 then some ⟨.external, true, 11⟩
      else if id = 3 then some ⟨.sibling, true, 1⟩
      else none,
    ltype := fun id => if id = 1 then .child else if id = 2 then .child else if id = 3 then .parent else .unset,
    svcs := [2] }

def idMac : Mac := fun _ inp => inp

def now : Nat := 200000000000

/-- first hop, from a local host over the internal link, leaves by interface 2 -/
def firstHop : Bytes :=
  [0, 0, 0, 1, 17, 18, 0, 8, 1, 0, 0, 0,
   0, 1, 0xff, 0, 0, 0, 1, 0x11, 0, 1, 0xff, 0, 0, 0, 1, 0x10, 10, 0, 0, 2, 10, 0, 0, 1,
   0, 0, 0x20, 0,
   1, 0, 0x12, 0x34, 0, 0, 0, 100,
   0, 63, 0, 0, 0, 2, 0, 0, 0x12, 0x34, 0, 0,
   0, 63, 0, 5, 0, 0, 1, 2, 3, 4, 5, 6,
   0, 1, 0, 2, 0, 8, 0, 0]

/-- a shortcut: arrives on child interface 1 at the last hop of an up segment, crosses over to a
down segment and leaves by child interface 2 -/
def xover : Bytes :=
  [0, 0, 0, 1, 17, 26, 0, 8, 1, 0, 0, 0,
   0, 1, 0xff, 0, 0, 0, 1, 0x11, 0, 1, 0xff, 0, 0, 0, 1, 0x12, 10, 0, 0, 2, 10, 0, 0, 1,
   1, 0, 0x20, 0x80,
   0, 0, 0x11, 0x11, 0, 0, 0, 100,
   1, 0, 0x22, 0x22, 0, 0, 0, 100,
   0, 63, 0, 7, 0, 0, 9, 9, 9, 9, 9, 9,
   0, 63, 0, 0, 0, 1, 0, 0, 0x11, 0x11, 0, 0,
   0, 63, 0, 0, 0, 2, 0, 0, 0x22, 0x22, 0, 0,
   0, 63, 0, 3, 0, 0, 1, 1, 1, 1, 1, 1,
   0, 1, 0, 2, 0, 8, 0, 0]

/-- last hop of a down segment, destination a host of the local AS -/
def lastHop : Bytes :=
  [0, 0, 0, 1, 17, 18, 0, 8, 1, 0, 0, 0,
   0, 1, 0xff, 0, 0, 0, 1, 0x10, 0, 1, 0xff, 0, 0, 0, 1, 0x12, 10, 0, 0, 2, 10, 0, 0, 1,
   1, 0, 0x20, 0,
   1, 0, 0x12, 0x34, 0, 0, 0, 100,
   0, 63, 0, 0, 0, 9, 7, 7, 7, 7, 7, 7,
   0, 63, 0, 1, 0, 0, 0, 0, 0x12, 0x34, 0, 0,
   0, 1, 0, 80, 0, 8, 0, 0]

/-- the same packet as `firstHop` but with reserved bits set in the meta header and the info field -/
def firstHopRsv : Bytes :=
  [0, 0, 0, 1, 17, 18, 0, 8, 1, 0, 0, 0,
   0, 1, 0xff, 0, 0, 0, 1, 0x11, 0, 1, 0xff, 0, 0, 0, 1, 0x10, 10, 0, 0, 2, 10, 0, 0, 1,
   0, 0xfc, 0x20, 0,
   0xfd, 0xff, 0x12, 0x34, 0, 0, 0, 100,
   0, 63, 0, 0, 0, 2, 0, 0, 0x12, 0x34, 0, 0,
   0, 63, 0, 5, 0, 0, 1, 2, 3, 4, 5, 6,
   0, 1, 0, 2, 0, 8, 0, 0]

end Scion.Router.Ex
