import Scion.Model.GwRouting
/-! Helper lemmas for C42 (routing table fold invariant, first-match characterisations). -/
namespace Scion.Proofs.GwRouting
open Scion.GwRouting

variable {C P : Type} {α β : Type}

/-- value of the first element satisfying `d` -/
def firstOf (d : α → Bool) (v : α → β) : List α → Option β
  | [] => none
  | r :: rs => if d r then some (v r) else firstOf d v rs

theorem firstOf_some_iff (d : α → Bool) (v : α → β) (rs : List α) (b : β) :
    firstOf d v rs = some b ↔
      ∃ pre r post, rs = pre ++ r :: post ∧ (∀ x ∈ pre, d x = false) ∧ d r = true ∧ b = v r := by
  induction rs with
  | nil => simp [firstOf]
  | cons r rs ih =>
    unfold firstOf
    cases h : d r
    · simp only [Bool.false_eq_true, if_false]
      rw [ih]
      constructor
      · rintro ⟨pre, r', post, rfl, hp, hr, hb⟩
        refine ⟨r :: pre, r', post, rfl, ?_, hr, hb⟩
        intro x hx
        rcases List.mem_cons.1 hx with rfl | hx
        · exact h
        · exact hp x hx
      · rintro ⟨pre, r', post, he, hp, hr, hb⟩
        cases pre with
        | nil =>
          simp only [List.nil_append, List.cons.injEq] at he
          rw [he.1, hr] at h
          cases h
        | cons x pre =>
          simp only [List.cons_append, List.cons.injEq] at he
          refine ⟨pre, r', post, he.2, ?_, hr, hb⟩
          intro y hy
          exact hp y (List.mem_cons_of_mem _ hy)
    · simp only [if_true, Option.some.injEq]
      constructor
      · intro hb
        exact ⟨[], r, rs, rfl, by simp, h, hb.symm⟩
      · rintro ⟨pre, r', post, he, hp, hr, hb⟩
        cases pre with
        | nil =>
          simp only [List.nil_append, List.cons.injEq] at he
          rw [hb, he.1]
        | cons x pre =>
          simp only [List.cons_append, List.cons.injEq] at he
          have := hp x (by simp)
          rw [← he.1, h] at this
          cases this

theorem entryRoute_find (ev : C → Bool) (t : List (SubEntry C)) :
    entryRoute ev t =
      match t.find? (fun s => ev s.cls) with
      | some s => s.sess
      | none => none := by
  induction t with
  | nil => rfl
  | cons s ss ih =>
    simp only [entryRoute, List.find?_cons]
    cases h : ev s.cls
    · simpa using ih
    · simp

theorem entryRoute_eq_firstOf (ev : C → Bool) (t : List (SubEntry C)) :
    entryRoute ev t = (firstOf (fun s => ev s.cls) (fun s => s.sess) t).join := by
  induction t with
  | nil => rfl
  | cons s ss ih =>
    simp only [entryRoute, firstOf]
    cases h : ev s.cls
    · simpa using ih
    · simp

theorem entryRoute_some_iff (ev : C → Bool) (t : List (SubEntry C)) (s : Nat) :
    entryRoute ev t = some s ↔
      ∃ pre se post, t = pre ++ se :: post ∧ (∀ x ∈ pre, ev x.cls = false) ∧
        ev se.cls = true ∧ se.sess = some s := by
  rw [entryRoute_eq_firstOf]
  constructor
  · intro h
    cases h' : firstOf (fun s => ev s.cls) (fun s => s.sess) t with
    | none => rw [h'] at h; cases h
    | some o =>
      rw [h'] at h
      simp only [Option.join] at h
      obtain ⟨pre, se, post, e1, e2, e3, e4⟩ := (firstOf_some_iff _ _ t o).1 h'
      exact ⟨pre, se, post, e1, e2, e3, by rw [← e4]; exact h⟩
  · rintro ⟨pre, se, post, e1, e2, e3, e4⟩
    have := (firstOf_some_iff (fun s => ev s.cls) (fun s => s.sess) t (some s)).2
      ⟨pre, se, post, e1, e2, e3, e4.symm⟩
    rw [this]
    rfl

/-- invariant of the loop of `RoutingTable.route` -/
theorem foldl_route_inv (ev : C → Bool) (dst : Addr) (tbl : List (Entry C))
    (st : Nat × Option Nat) :
    st.1 ≤ (tbl.foldl (routeStep ev dst) st).1 ∧
    (∀ e ∈ tbl, e.pfx.contains dst = true → e.pfx.len ≤ (tbl.foldl (routeStep ev dst) st).1) ∧
    ((tbl.foldl (routeStep ev dst) st = st ∧
        ∀ e ∈ tbl, e.pfx.contains dst = true → e.pfx.len < st.1) ∨
     (∃ e ∈ tbl, e.pfx.contains dst = true ∧
        e.pfx.len = (tbl.foldl (routeStep ev dst) st).1 ∧
        (tbl.foldl (routeStep ev dst) st).2 = entryRoute ev e.table)) := by
  induction tbl generalizing st with
  | nil => exact ⟨Nat.le_refl _, by simp, Or.inl ⟨rfl, by simp⟩⟩
  | cons e l ih =>
    simp only [List.foldl_cons]
    cases hc : e.pfx.contains dst
    · -- prefix does not contain dst
      have hs : routeStep ev dst st e = st := by simp [routeStep, hc]
      rw [hs]
      obtain ⟨h1, h2, h3⟩ := ih st
      refine ⟨h1, ?_, ?_⟩
      · intro e' he' hc'
        rcases List.mem_cons.1 he' with rfl | he'
        · rw [hc] at hc'; cases hc'
        · exact h2 e' he' hc'
      · rcases h3 with ⟨h3a, h3b⟩ | ⟨e0, he0, h3⟩
        · refine Or.inl ⟨h3a, ?_⟩
          intro e' he' hc'
          rcases List.mem_cons.1 he' with rfl | he'
          · rw [hc] at hc'; cases hc'
          · exact h3b e' he' hc'
        · exact Or.inr ⟨e0, List.mem_cons_of_mem _ he0, h3⟩
    · by_cases hl : e.pfx.len < st.1
      · have hs : routeStep ev dst st e = st := by simp [routeStep, hc, hl]
        rw [hs]
        obtain ⟨h1, h2, h3⟩ := ih st
        refine ⟨h1, ?_, ?_⟩
        · intro e' he' hc'
          rcases List.mem_cons.1 he' with rfl | he'
          · omega
          · exact h2 e' he' hc'
        · rcases h3 with ⟨h3a, h3b⟩ | ⟨e0, he0, h3⟩
          · refine Or.inl ⟨h3a, ?_⟩
            intro e' he' hc'
            rcases List.mem_cons.1 he' with rfl | he'
            · exact hl
            · exact h3b e' he' hc'
          · exact Or.inr ⟨e0, List.mem_cons_of_mem _ he0, h3⟩
      · have hs : routeStep ev dst st e = (e.pfx.len, entryRoute ev e.table) := by
          simp [routeStep, hc, hl]
        rw [hs]
        obtain ⟨h1, h2, h3⟩ := ih (e.pfx.len, entryRoute ev e.table)
        simp only at h1 h3
        refine ⟨by omega, ?_, ?_⟩
        · intro e' he' hc'
          rcases List.mem_cons.1 he' with rfl | he'
          · exact h1
          · exact h2 e' he' hc'
        · rcases h3 with ⟨h3a, _⟩ | ⟨e0, he0, h3⟩
          · refine Or.inr ⟨e, List.mem_cons_self, hc, ?_, ?_⟩
            · rw [h3a]
            · rw [h3a]
          · exact Or.inr ⟨e0, List.mem_cons_of_mem _ he0, h3⟩

theorem route_no_prefix (ev : C → Bool) (tbl : List (Entry C)) (dst : Addr)
    (h : ∀ e ∈ tbl, e.pfx.contains dst = false) : route ev tbl dst = none := by
  unfold route
  obtain ⟨_, _, h3⟩ := foldl_route_inv ev dst tbl (0, none)
  rcases h3 with ⟨h3a, _⟩ | ⟨e0, he0, hc, _⟩
  · rw [h3a]
  · rw [h e0 he0] at hc; cases hc

theorem same_of_contains (p q : Prefix) (a : Addr) (hp : p.contains a = true)
    (hq : q.contains a = true) (hl : p.len = q.len) : p.same q = true := by
  unfold Prefix.contains at hp hq
  unfold Prefix.same
  simp only [Bool.and_eq_true, beq_iff_eq] at hp hq ⊢
  obtain ⟨hp1, hp2⟩ := hp
  obtain ⟨hq1, hq2⟩ := hq
  have hf : p.fam = q.fam := by rw [hp1, hq1]
  refine ⟨⟨hf, hl⟩, ?_⟩
  rw [← hp2, ← hq2, hf, hl]

theorem route_most_specific (ev : C → Bool) (tbl : List (Entry C)) (dst : Addr) (e : Entry C)
    (hd : ∀ e₁ ∈ tbl, ∀ e₂ ∈ tbl, e₁.pfx.same e₂.pfx = true → e₁ = e₂)
    (he : e ∈ tbl) (hc : e.pfx.contains dst = true)
    (hm : ∀ e' ∈ tbl, e'.pfx.contains dst = true → e'.pfx.len ≤ e.pfx.len) :
    route ev tbl dst = entryRoute ev e.table := by
  unfold route
  obtain ⟨_, h2, h3⟩ := foldl_route_inv ev dst tbl (0, none)
  rcases h3 with ⟨_, h3b⟩ | ⟨e0, he0, hc0, hl0, hr0⟩
  · have := h3b e he hc
    simp at this
  · have h1 := h2 e he hc
    have h2' := hm e0 he0 hc0
    have hlen : e0.pfx.len = e.pfx.len := by omega
    have := hd e0 he0 e he (same_of_contains _ _ dst hc0 hc hlen)
    rw [hr0, this]

theorem mostSpecific_exists (tbl : List (Entry C)) (dst : Addr)
    (h : ∃ e ∈ tbl, e.pfx.contains dst = true) :
    ∃ e, e ∈ tbl ∧ e.pfx.contains dst = true ∧
      ∀ e' ∈ tbl, e'.pfx.contains dst = true → e'.pfx.len ≤ e.pfx.len := by
  obtain ⟨_, h2, h3⟩ := foldl_route_inv (fun _ : C => true) dst tbl (0, none)
  rcases h3 with ⟨_, h3b⟩ | ⟨e0, he0, hc0, hl0, _⟩
  · obtain ⟨e, he, hc⟩ := h
    have := h3b e he hc
    simp at this
  · refine ⟨e0, he0, hc0, ?_⟩
    intro e' he' hc'
    rw [hl0]
    exact h2 e' he' hc'

theorem forward_spec (ev : C → P → Bool) (tbl : List (Entry C)) (i : Input P) (s : Nat) :
    forward ev tbl i = .session s ↔
      (∃ dst pkt, i = .v4 dst false pkt ∧ route (fun c => ev c pkt) tbl ⟨.v4, dst⟩ = some s) ∨
      (∃ dst pkt, i = .v6 dst pkt ∧ route (fun c => ev c pkt) tbl ⟨.v6, dst⟩ = some s) := by
  constructor
  · intro h
    cases i with
    | invalid => simp [forward] at h
    | v4 dst frag pkt =>
      cases frag
      · simp only [forward, Bool.false_eq_true, if_false] at h
        cases hr : route (fun c => ev c pkt) tbl ⟨.v4, dst⟩ with
        | none => rw [hr] at h; cases h
        | some v =>
          rw [hr] at h
          cases h
          exact Or.inl ⟨dst, pkt, rfl, hr⟩
      · simp [forward] at h
    | v6 dst pkt =>
      simp only [forward] at h
      cases hr : route (fun c => ev c pkt) tbl ⟨.v6, dst⟩ with
      | none => rw [hr] at h; cases h
      | some v =>
        rw [hr] at h
        cases h
        exact Or.inr ⟨dst, pkt, rfl, hr⟩
  · rintro (⟨dst, pkt, rfl, hr⟩ | ⟨dst, pkt, rfl, hr⟩)
    · simp only [forward, Bool.false_eq_true, if_false]
      rw [hr]
    · simp only [forward]
      rw [hr]

end Scion.Proofs.GwRouting
