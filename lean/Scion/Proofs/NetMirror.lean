import Scion.Proofs.NetSpecEdge
import Scion.Proofs.NetPeerEdge
/-! The mirror image of a path (what the destination sends back after `Decoded.Reverse`) is again a
well-formed path; C03 for paths of any number of segments (no peering).  Core Lean only. -/
namespace Scion.Net
open Scion.SegID (updateSegID extractBeta xorAll)

theorem usedAt_mirror (cd : Bool) (seg : Nat) (e : ASE) :
    usedAt (!cd) (updateSegID seg (pfx e.hop.mac)) e = usedAt cd seg e := by
  cases cd <;> simp [usedAt, updateSegID, Scion.SegID.xor_cancel]

theorem fl_snoc (mac : MacFn) (net : Net) (core cd : Bool) (ts : Nat) (r : List ASE) :
    ∀ (b : Nat) (lastR x : ASE), r.getLast? = some lastR → FL mac net core cd ts b r →
      LinkF net core cd lastR x → MacAt mac net ts (usedAt cd (extractBeta b (sig r)) x) x →
      FL mac net core cd ts b (r ++ [x]) := by
  induction r with
  | nil => intro b lastR x hl; simp at hl
  | cons y ys ih =>
    intro b lastR x hl hc hlink hm
    cases ys with
    | nil =>
      simp at hl
      subst hl
      simp only [List.cons_append, List.nil_append, FL]
      refine ⟨hc, hlink, ?_⟩
      simpa [sig, extractBeta, FL] using hm
    | cons z zs =>
      obtain ⟨h1, h2, h3⟩ := hc
      simp only [List.cons_append, FL]
      refine ⟨h1, h2, ?_⟩
      apply ih _ lastR x (by simpa using hl) h3 hlink
      simpa [sig, extractBeta] using hm

/-- a segment read from the other end is a segment of the opposite direction -/
theorem fl_mirror (mac : MacFn) (net : Net) (core cd : Bool) (ts : Nat) (l : List ASE) :
    ∀ seg, FL mac net core cd ts seg l →
      FL mac net core (!cd) ts (extractBeta seg (sig l)) l.reverse := by
  induction l with
  | nil => intro _ _; trivial
  | cons x xs ih =>
    intro seg hc
    cases xs with
    | nil =>
      simp only [List.reverse_cons, List.reverse_nil, List.nil_append, FL, sig, List.map, extractBeta,
        List.foldl]
      rw [usedAt_mirror]
      exact hc
    | cons y ys =>
      obtain ⟨h1, h2, h3⟩ := hc
      have ih' := ih _ h3
      have hb : extractBeta seg (sig (x :: y :: ys)) =
          extractBeta (updateSegID seg (pfx x.hop.mac)) (sig (y :: ys)) := by
        simp [sig, extractBeta]
      rw [hb, List.reverse_cons]
      apply fl_snoc mac net core (!cd) ts _ _ y x (by simp) ih' (linkF_symm net core cd x y h2)
      rw [sig_reverse, Scion.SegID.extractBeta_eq _ (sig (y :: ys)).reverse,
        Scion.SegID.xorAll_reverse, Scion.SegID.extractBeta_eq _ (sig (y :: ys))]
      have : updateSegID seg (pfx x.hop.mac) ^^^ xorAll (sig (y :: ys)) ^^^ xorAll (sig (y :: ys)) =
          updateSegID seg (pfx x.hop.mac) := Scion.SegID.xor_cancel _ _
      rw [this, usedAt_mirror]
      exact h1

/-- the mirror image of a segment description -/
def SegSpec.mirror (s : SegSpec) : SegSpec :=
  ⟨!s.cd, s.core, s.ts, extractBeta s.seg0 (sig s.l), s.last, s.mid.reverse, s.e0⟩

theorem mirror_l (s : SegSpec) : s.mirror.l = s.l.reverse := by
  simp [SegSpec.mirror, SegSpec.l]

theorem mirror_fl (mac : MacFn) (net : Net) (s : SegSpec)
    (h : FL mac net s.core s.cd s.ts s.seg0 s.l) :
    FL mac net s.mirror.core s.mirror.cd s.mirror.ts s.mirror.seg0 s.mirror.l := by
  rw [mirror_l]
  exact fl_mirror mac net s.core s.cd s.ts s.l s.seg0 h

theorem ltXover_symm (a b : LinkType) : ltXover a b = ltXover b a := by
  cases a <;> cases b <;> rfl

theorem xlt_mirror (s s2 : SegSpec) (h : XLT s s2) : XLT s2.mirror s.mirror := by
  intro a b ha hb
  rw [ltXover_symm]
  apply h b a
  · cases hcd : s.cd <;> simp_all [SegSpec.mirror, InLT, EgLT]
  · cases hcd : s2.cd <;> simp_all [SegSpec.mirror, InLT, EgLT]

/-- the segment descriptions of the way back: reverse the list, mirror every segment -/
def revM : List SegSpec → SegSpec → List SegSpec → SegSpec × List SegSpec
  | [], s, acc => (s.mirror, acc)
  | s2 :: r, s, acc => revM r s2 (s.mirror :: acc)

theorem specsLink_rev (mac : MacFn) (net : Net) (rest : List SegSpec) : ∀ (s : SegSpec) (acc : List SegSpec),
    SpecsLink mac net s rest → SpecsLink mac net s.mirror acc →
    SpecsLink mac net (revM rest s acc).1 (revM rest s acc).2 := by
  induction rest with
  | nil => intro s acc _ h; exact h
  | cons s2 r ih =>
    intro s acc hl hacc
    obtain ⟨_, hj, hx, hl2⟩ := hl
    have hfl2 : FL mac net s2.core s2.cd s2.ts s2.seg0 s2.l := by
      cases r with
      | nil => exact hl2
      | cons _ _ => exact hl2.1
    exact ih s2 (s.mirror :: acc) hl2
      ⟨mirror_fl mac net s2 hfl2, by simpa [SegSpec.mirror] using hj.symm, xlt_mirror s s2 hx, hacc⟩

/-! ### ASes, interfaces and the packet of the way back -/

def restTail : List SegSpec → List Nat
  | [] => []
  | s2 :: r => (s2.mid ++ [s2.last]).map (·.ia) ++ restTail r

theorem tailAS_restTail (rest : List SegSpec) (s : SegSpec) :
    tailAS s rest = (s.mid ++ [s.last]).map (·.ia) ++ restTail rest := by
  induction rest generalizing s with
  | nil => simp [tailAS, restTail]
  | cons s2 r ih => simp [tailAS, restTail, ih s2]

theorem specASes_mirror_acc (s : SegSpec) (acc : List SegSpec) :
    specASes s.mirror acc =
      match acc with
      | [] => (s.l.map (·.ia)).reverse
      | t :: a => ((s.mid ++ [s.last]).map (·.ia)).reverse ++ specASes t a := by
  cases acc with
  | nil => simp [specASes, mirror_l, List.map_reverse]
  | cons t a => simp [specASes, SegSpec.mirror, List.map_reverse]

theorem specASes_revM (rest : List SegSpec) : ∀ (s : SegSpec) (acc : List SegSpec),
    specASes (revM rest s acc).1 (revM rest s acc).2 = (restTail rest).reverse ++ specASes s.mirror acc := by
  induction rest with
  | nil => intro s acc; simp [revM, restTail]
  | cons s2 r ih =>
    intro s acc
    simp only [revM, ih s2 (s.mirror :: acc), restTail, List.reverse_append]
    rw [specASes_mirror_acc s2 (s.mirror :: acc)]
    simp

/-- the ASes of the way back are those of the way there, reversed -/
theorem specASes_rev (mac : MacFn) (net : Net) (s : SegSpec) (rest : List SegSpec)
    (h : SpecsLink mac net s rest) :
    specASes (revM rest s []).1 (revM rest s []).2 = (specASes s rest).reverse := by
  rw [specASes_revM, specASes_mirror_acc, specASes_eq mac net rest s h, tailAS_restTail]
  simp [SegSpec.l]

/-- links crossed along a list of consecutive ASes -/
def linkTrace (cd : Bool) : List ASE → List (Nat × Nat)
  | e :: e' :: r => (e.ia, outF cd e) :: (e'.ia, inF cd e') :: linkTrace cd (e' :: r)
  | _ => []

theorem fTrace_link (cd : Bool) (l : List ASE) (last : ASE) :
    linkTrace cd (l ++ [last]) = fTrace cd l last := by
  induction l with
  | nil => simp [linkTrace, fTrace]
  | cons e r ih =>
    cases r with
    | nil => simp [linkTrace, fTrace, firstOf]
    | cons y ys =>
      have := ih
      simp only [List.cons_append] at this ⊢
      simp [linkTrace, fTrace, firstOf, this]

theorem trace_link (s : SegSpec) : s.trace = linkTrace s.cd s.l := by
  cases hm : s.mid with
  | nil => simp [SegSpec.trace, SegSpec.l, hm, linkTrace, fTrace, firstOf]
  | cons y ys =>
    have := fTrace_link s.cd (y :: ys) s.last
    simp only [SegSpec.trace, SegSpec.l, hm, firstOf, List.cons_append] at this ⊢
    simp [linkTrace, this]

theorem linkTrace_snoc (cd : Bool) (l : List ASE) (y x : ASE) :
    linkTrace cd (l ++ [y, x]) = linkTrace cd (l ++ [y]) ++ [(y.ia, outF cd y), (x.ia, inF cd x)] := by
  induction l with
  | nil => simp [linkTrace]
  | cons e r ih =>
    cases r with
    | nil => simp [linkTrace]
    | cons z zs =>
      have := ih
      simp only [List.cons_append] at this ⊢
      simp [linkTrace, this]

theorem linkTrace_reverse (cd : Bool) (l : List ASE) :
    linkTrace (!cd) l.reverse = (linkTrace cd l).reverse := by
  induction l with
  | nil => rfl
  | cons x xs ih =>
    cases xs with
    | nil => simp [linkTrace]
    | cons y ys =>
      have h1 : (x :: y :: ys).reverse = ys.reverse ++ [y, x] := by simp
      rw [h1, linkTrace_snoc]
      have h2 : ys.reverse ++ [y] = (y :: ys).reverse := by simp
      rw [h2, ih]
      cases cd <;> simp [linkTrace, outF, inF]

theorem trace_mirror (s : SegSpec) : s.mirror.trace = s.trace.reverse := by
  rw [trace_link, trace_link, mirror_l]
  exact linkTrace_reverse s.cd s.l

theorem specIfaces_revM (rest : List SegSpec) : ∀ (s : SegSpec) (acc : List SegSpec),
    specIfaces (revM rest s acc).1 (revM rest s acc).2 =
      ((rest.map SegSpec.trace).flatten).reverse ++ specIfaces s.mirror acc := by
  induction rest with
  | nil => intro s acc; simp [revM]
  | cons s2 r ih =>
    intro s acc
    simp only [revM, ih s2 (s.mirror :: acc), List.map_cons, List.flatten_cons, List.reverse_append]
    simp [specIfaces, trace_mirror]

theorem specIfaces_rev (s : SegSpec) (rest : List SegSpec) :
    specIfaces (revM rest s []).1 (revM rest s []).2 = (specIfaces s rest).reverse := by
  rw [specIfaces_revM]
  simp [specIfaces, trace_mirror]

theorem mirror_seg (cd : Bool) (seg0 : Nat) (e0 : ASE) (mid : List ASE) (last : ASE) :
    usedAt (!cd) (extractBeta seg0 (sig (e0 :: (mid ++ [last])))) last =
      usedAt cd (extractBeta (updateSegID seg0 (pfx e0.hop.mac)) (sig mid)) last := by
  have h : extractBeta seg0 (sig (e0 :: (mid ++ [last]))) =
      updateSegID (extractBeta (updateSegID seg0 (pfx e0.hop.mac)) (sig mid)) (pfx last.hop.mac) := by
    simp [sig, extractBeta, List.foldl_append]
  rw [h, usedAt_mirror]

theorem revSeg_doneSeg (s : SegSpec) : revSeg s.doneSeg = s.mirror.toSeg := by
  simp only [revSeg, SegSpec.doneSeg, SegSpec.toSeg, flipInfo, SegSpec.hops, mirror_l, List.map_reverse]
  simp only [SegSpec.mirror, SegSpec.arrSeg, SegSpec.l, mirror_seg]

/-- the delivered packet, reversed, is the packet path combination would build for the way back -/
theorem reverse_finalCur (rest : List SegSpec) : ∀ (s : SegSpec) (before : List Seg) (acc : List SegSpec),
    acc.map SegSpec.toSeg = before.reverse.map revSeg →
    reverseCursor (finalCur rest before s) = pathCur (revM rest s acc).1 (revM rest s acc).2 := by
  induction rest with
  | nil =>
    intro s before acc hacc
    simp only [finalCur, revM, reverseCursor, pathCur, hacc, flipInfo, List.reverse_nil, List.map_nil]
    simp [SegSpec.mirror, SegSpec.arrSeg, SegSpec.l, mirror_seg, List.map_reverse]
  | cons s2 r ih =>
    intro s before acc hacc
    simp only [finalCur, revM]
    apply ih s2 (before ++ [s.doneSeg]) (s.mirror :: acc)
    simp [hacc, revSeg_doneSeg]

theorem revM_mem (rest : List SegSpec) : ∀ (s : SegSpec) (acc : List SegSpec) (sp : SegSpec),
    sp ∈ (revM rest s acc).1 :: (revM rest s acc).2 →
      (∃ t ∈ s :: rest, sp = t.mirror) ∨ sp ∈ acc := by
  induction rest with
  | nil =>
    intro s acc sp h
    simp only [revM, List.mem_cons] at h
    rcases h with rfl | h
    · exact Or.inl ⟨s, by simp, rfl⟩
    · exact Or.inr h
  | cons s2 r ih =>
    intro s acc sp h
    rcases ih s2 (s.mirror :: acc) sp h with ⟨t, ht, rfl⟩ | h'
    · exact Or.inl ⟨t, by simp at ht ⊢; exact Or.inr ht, rfl⟩
    · simp only [List.mem_cons] at h'
      rcases h' with rfl | h'
      · exact Or.inl ⟨s, by simp, rfl⟩
      · exact Or.inr h'

theorem specsExp_rev (now : Nat) (s : SegSpec) (rest : List SegSpec) (h : SpecsExp now s rest) :
    SpecsExp now (revM rest s []).1 (revM rest s []).2 := by
  intro sp hsp e he
  rcases revM_mem rest s [] sp hsp with ⟨t, ht, rfl⟩ | h'
  · rw [mirror_l] at he
    exact h t ht e (List.mem_reverse.1 he)
  · cases h'

theorem pathTrace_specIfaces (mac : MacFn) (net : Net) (s : SegSpec) (rest : List SegSpec)
    (h : SpecsLink mac net s rest) : pathTrace s rest = specIfaces s rest := by
  rw [specIfaces, pathTrace, tailTrace_eq mac net rest s h]
  simp [SegSpec.trace]

theorem tailOK_specsLink (mac : MacFn) (net : Net) (now src dst : Nat) (rest : List SegSpec) :
    ∀ s : SegSpec, TailOK mac net now src dst s rest → SpecsLink mac net s rest := by
  induction rest with
  | nil => intro s h; exact h.1
  | cons s2 r ih =>
    intro s h
    obtain ⟨h1, _, _, _, _, hj, _, hx, h2⟩ := h
    exact ⟨h1, hj, hx, ih s2 h2⟩

/-- **C03 for every path without peering** (any number of segments; one border router per AS):
    the delivered packet with its path reversed goes back to the source AS over the same
    interfaces in reverse order -/
theorem reverse_run_nonpeer (mac : MacFn) (net : Net) (now src dst : Nat)
    (hWF : WFNet net) (hUp : AllUp net) (hSR : SingleRouter net)
    (edges : List Edge) (c cf : Cursor) (tr : List (Nat × Nat)) (hnp : ∀ e ∈ edges, e.peer = none)
    (hJ : Joinable mac net edges src dst) (hp : pathOf edges = some c) (hexp : Unexpired now c)
    (hsend : send mac net now src dst c = .delivered dst tr cf) :
    ∃ cr, send mac net now dst src (reverseCursor cf) = .delivered src tr.reverse cr := by
  obtain ⟨s, rest, hc, hok, hif, hlink, hA, hexps, hfw⟩ :=
    nonpeer_accepted mac net now src dst hWF hUp hSR edges c hnp hJ hp hexp
  rw [hfw] at hsend
  cases hsend
  obtain ⟨hsd, hsrc, hexp0, htail⟩ := hok
  -- the description of the way back
  have hlink' := specsLink_rev mac net rest s [] hlink
    (mirror_fl mac net s (tailOK_fl mac net now src dst s rest htail))
  have hcur := reverse_finalCur rest s [] [] (by simp)
  have hexps' := specsExp_rev now s rest hexps
  -- ASes of the way back: those of the way there, reversed
  obtain ⟨_, _, _, _, _, hhead, hlast, hnd⟩ := hJ
  rw [hA] at hhead hlast hnd
  have hA' := specASes_rev mac net s rest hlink
  have hE := specASes_eq mac net _ _ hlink'
  rw [hA'] at hE
  -- hE : (specASes s rest).reverse = e0'.ia :: tailAS'
  have hnd' : ((revM rest s []).1.e0.ia :: tailAS (revM rest s []).1 (revM rest s []).2).Nodup := by
    rw [← hE]; exact nodup_rev _ hnd
  have hhead' : (revM rest s []).1.e0.ia = dst := by
    have := congrArg List.head? hE
    rw [List.head?_reverse, hlast] at this
    simpa using this.symm
  have hlast' : (tailAS (revM rest s []).1 (revM rest s []).2).getLast? = some src := by
    obtain ⟨d, hd⟩ := tailAS_getLast (revM rest s []).2 (revM rest s []).1
    have := congrArg List.getLast? hE
    rw [List.getLast?_reverse, hhead, List.getLast?_cons, hd] at this
    simp at this
    rw [hd, this]
  have hnc := List.nodup_cons.1 hnd'
  have htail' := tailOK_of mac net now dst src (revM rest s []).2 (revM rest s []).1 hlink' hexps'
    (by rw [← hhead']; exact hnc.1) hnc.2 hlast'
  have hok' : PathOK mac net now dst src (revM rest s []).1 (revM rest s []).2 :=
    ⟨Ne.symm hsd, hhead'.symm,
      hexps' _ (by simp) _ (by simp [SegSpec.l]), htail'⟩
  -- run it
  obtain ⟨fuel, hfuel⟩ : ∃ fuel, fuelFor (pathCur (revM rest s []).1 (revM rest s []).2) =
      fuel + 1 + tailFuel (revM rest s []).1 (revM rest s []).2 := by
    have h1 := fuelFor_pathCur (revM rest s []).1 (revM rest s []).2
    have h2 := tailFuel_le (revM rest s []).2 (revM rest s []).1
    exact ⟨fuelFor (pathCur (revM rest s []).1 (revM rest s []).2) - 1 -
      tailFuel (revM rest s []).1 (revM rest s []).2, by omega⟩
  have hrun := specs_run mac net now dst src hUp hSR _ _ hok' fuel
  have hfin : send mac net now dst src (reverseCursor (finalCur rest [] s)) =
      .delivered src (pathIfaces edges).reverse
        (finalCur (revM rest s []).2 [] (revM rest s []).1) := by
    unfold send
    rw [entryRouter_zero net hSR, hcur, hfuel, hrun, hif,
      pathTrace_specIfaces mac net _ _ hlink', specIfaces_rev, pathTrace_specIfaces mac net s rest hlink]
  exact ⟨_, hfin⟩

end Scion.Net
