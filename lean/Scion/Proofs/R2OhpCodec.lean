import Scion.Model.Ohp
/-! Helper lemmas for C12: `onehop.Path` decode ∘ serialize = id on well-formed paths. Core Lean only. -/
namespace Scion.R2OhpCodec
open Scion.Util Scion.Ohp

structure HopWF (h : Hop) : Prop where
  exp : h.exp < 256
  ci : h.consIngress < 65536
  ce : h.consEgress < 65536
  mac : h.mac.length = 6

structure InfoWF (i : Info) : Prop where
  seg : i.segID < 65536
  ts : i.ts < 4294967296

theorem u8 (v : Nat) : (UInt8.ofNat v).toNat = v % 256 := by simp

theorem decodeInfo_encodeInfo (i : Info) (h : InfoWF i) (rest : Bytes) :
    decodeInfo (encodeInfo i ++ rest) = i := by
  obtain ⟨hs, ht⟩ := h
  cases i with
  | mk peer consDir segID ts =>
    simp only [encodeInfo, natBE, decodeInfo, beAt, bit, beNat, b2n] at *
    cases peer <;> cases consDir <;> simp <;> omega

theorem encodeInfo_length (i : Info) : (encodeInfo i).length = 8 := by
  simp [encodeInfo, natBE]

theorem encodeHop_length (h : Hop) : (encodeHop h).length = 12 := by
  simp [encodeHop, natBE]

theorem decodeHop_encodeHop (h : Hop) (hw : HopWF h) (rest : Bytes) :
    decodeHop (encodeHop h ++ rest) = h := by
  obtain ⟨he, hci, hce, hm⟩ := hw
  cases h with
  | mk ia ea exp ci ce mac =>
    match mac, hm with
    | [m0, m1, m2, m3, m4, m5], _ =>
      simp only [encodeHop, natBE, decodeHop, beAt, bit, beNat, b2n] at *
      cases ia <;> cases ea <;> simp <;> omega

/-- `onehop.Path.DecodeFromBytes ∘ SerializeTo = id` on paths whose fields fit their wire width -/
theorem decodePath_encodePath (p : Path) (hi : InfoWF p.info) (h1 : HopWF p.first) (h2 : HopWF p.second) :
    decodePath (encodePath p) = some p := by
  have hl : (encodePath p).length = 32 := by
    simp [encodePath, encodeInfo_length, encodeHop_length]
  unfold decodePath
  rw [if_neg (by simp [hl, PathLen])]
  have e1 : decodeInfo (encodePath p) = p.info := by
    unfold encodePath; rw [List.append_assoc]; exact decodeInfo_encodeInfo _ hi _
  have e2 : decodeHop ((encodePath p).drop 8) = p.first := by
    unfold encodePath
    have : (encodeInfo p.info).length = 8 := encodeInfo_length _
    rw [List.append_assoc, ← this, List.drop_left]
    exact decodeHop_encodeHop _ h1 _
  have e3 : decodeHop ((encodePath p).drop 20) = p.second := by
    unfold encodePath
    have : (encodeInfo p.info ++ encodeHop p.first).length = 20 := by simp [encodeInfo_length, encodeHop_length]
    rw [← this, List.drop_left]
    have := decodeHop_encodeHop _ h2 []
    simpa using this
  rw [e1, e2, e3]

theorem foldl_lt (l : Bytes) (acc : Nat) :
    l.foldl (fun a b => a * 256 + b.toNat) acc < (acc + 1) * 256 ^ l.length := by
  induction l generalizing acc with
  | nil => simp
  | cons b t ih =>
    simp only [List.foldl_cons, List.length_cons]
    have hb : b.toNat < 256 := by
      have := b.toNat_lt
      simpa using this
    calc List.foldl (fun a b => a * 256 + b.toNat) (acc * 256 + b.toNat) t
        < (acc * 256 + b.toNat + 1) * 256 ^ t.length := ih _
      _ ≤ ((acc + 1) * 256) * 256 ^ t.length := Nat.mul_le_mul_right _ (by omega)
      _ = (acc + 1) * 256 ^ (t.length + 1) := by rw [Nat.pow_succ, Nat.mul_assoc, Nat.mul_comm 256]

theorem beNat_lt (l : Bytes) : beNat l < 256 ^ l.length := by
  have := foldl_lt l 0
  simpa [beNat] using this

theorem beAt_lt (b : Bytes) (i n : Nat) : beAt b i n < 256 ^ n := by
  unfold beAt
  have h1 := beNat_lt ((b.drop i).take n)
  have h2 : ((b.drop i).take n).length ≤ n := by simp [List.length_take]; omega
  exact Nat.lt_of_lt_of_le h1 (Nat.pow_le_pow_right (by decide) h2)

theorem decodeInfo_wf (b : Bytes) : InfoWF (decodeInfo b) :=
  ⟨by have := beAt_lt b 2 2; simpa [decodeInfo] using this, by have := beAt_lt b 4 4; simpa [decodeInfo] using this⟩

theorem decodeHop_wf (b : Bytes) (hl : 12 ≤ b.length) : HopWF (decodeHop b) := by
  refine ⟨?_, ?_, ?_, ?_⟩
  · have := beAt_lt b 1 1; simpa [decodeHop] using this
  · have := beAt_lt b 2 2; simpa [decodeHop] using this
  · have := beAt_lt b 4 2; simpa [decodeHop] using this
  · simp [decodeHop, List.length_take, List.length_drop]; omega

/-- everything the decoder produces fits its wire width -/
theorem decodePath_wf (b : Bytes) (p : Path) (h : decodePath b = some p) :
    InfoWF p.info ∧ HopWF p.first ∧ HopWF p.second := by
  unfold decodePath at h
  split at h
  · cases h
  · rename_i hl
    simp only [PathLen, Nat.not_lt] at hl
    injection h with h
    subst h
    exact ⟨decodeInfo_wf _, decodeHop_wf _ (by simp [List.length_drop]; omega),
      decodeHop_wf _ (by simp [List.length_drop]; omega)⟩

/-- the SegID stays a 16-bit value under `UpdateSegID` -/
theorem updateSegID_wf (i : Info) (m : Bytes) (h : InfoWF i) : InfoWF (updateSegID i m) := by
  refine ⟨?_, h.ts⟩
  have h2 : beNat (m.take 2) < 2 ^ 16 := by
    have h1 := beNat_lt (m.take 2)
    have : (m.take 2).length ≤ 2 := by simp [List.length_take]; omega
    exact Nat.lt_of_lt_of_le h1 (Nat.pow_le_pow_right (by decide) this)
  have h1 : i.segID < 2 ^ 16 := h.seg
  exact Nat.xor_lt_two_pow h1 h2

end Scion.R2OhpCodec
