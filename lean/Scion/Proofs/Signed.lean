import Scion.Model.Signed
/-!
Helper lemmas for C38 / C24: prefix-freeness of the protobuf varint and of length-delimited
fields (the facts behind "the `HeaderAndBody` ‖ associated-data boundary cannot move").
-/
namespace Scion.Signed
open Scion.Util (Bytes)

/-- two lists one of which is a prefix of the other -/
def PR {α : Type} (l₁ l₂ : List α) : Prop := l₁ <+: l₂ ∨ l₂ <+: l₁

theorem PR.symm {α : Type} {l₁ l₂ : List α} (h : PR l₁ l₂) : PR l₂ l₁ := Or.symm h

theorem PR.cons {α : Type} {x y : α} {l₁ l₂ : List α} (h : PR (x :: l₁) (y :: l₂)) :
    x = y ∧ PR l₁ l₂ := by
  rcases h with h | h
  · obtain ⟨a, b⟩ := List.cons_prefix_cons.mp h; exact ⟨a, Or.inl b⟩
  · obtain ⟨a, b⟩ := List.cons_prefix_cons.mp h; exact ⟨a.symm, Or.inr b⟩

theorem PR.of_append_eq {α : Type} {a b c d : List α} (h : a ++ b = c ++ d) : PR a c := by
  rcases List.append_eq_append_iff.mp h with ⟨x, hx, _⟩ | ⟨x, hx, _⟩
  · exact Or.inl ⟨x, hx.symm⟩
  · exact Or.inr ⟨x, hx.symm⟩

/-- equally long heads of prefix-related lists are equal -/
theorem PR.append_left {α : Type} {a c b d : List α} (h : PR (a ++ b) (c ++ d))
    (hl : a.length = c.length) : a = c ∧ PR b d := by
  rcases h with ⟨t, ht⟩ | ⟨t, ht⟩
  · rw [List.append_assoc] at ht
    obtain ⟨e1, e2⟩ := List.append_inj ht hl
    exact ⟨e1, Or.inl ⟨t, e2⟩⟩
  · rw [List.append_assoc] at ht
    obtain ⟨e1, e2⟩ := List.append_inj ht hl.symm
    exact ⟨e1.symm, Or.inr ⟨t, e2⟩⟩

theorem PR.length_eq {α : Type} {a c : List α} (h : PR a c) (hl : a.length = c.length) : a = c := by
  rcases h with h | h
  · exact h.eq_of_length hl
  · exact (h.eq_of_length hl.symm).symm

theorem ofNat_inj_of_lt {a b : Nat} (ha : a < 256) (hb : b < 256)
    (h : UInt8.ofNat a = UInt8.ofNat b) : a = b := by
  have := congrArg UInt8.toNat h
  simp only [UInt8.toNat_ofNat'] at this
  omega

/-- the varint encoding is prefix-free -/
theorem varint_PR (a : Nat) : ∀ (b : Nat) (s t : Bytes),
    PR (varint a ++ s) (varint b ++ t) → a = b ∧ PR s t := by
  induction a using Nat.strongRecOn with
  | _ a ih =>
    intro b s t h
    rw [varint.eq_1 a, varint.eq_1 b] at h
    by_cases ha : a < 128 <;> by_cases hb : b < 128
    · simp only [ha, hb, if_true, List.cons_append, List.nil_append] at h
      obtain ⟨h1, h2⟩ := h.cons
      exact ⟨ofNat_inj_of_lt (by omega) (by omega) h1, h2⟩
    · simp only [ha, hb, if_true, if_false, List.cons_append, List.nil_append] at h
      obtain ⟨h1, _⟩ := h.cons
      have := ofNat_inj_of_lt (by omega) (by omega) h1
      omega
    · simp only [ha, hb, if_true, if_false, List.cons_append, List.nil_append] at h
      obtain ⟨h1, _⟩ := h.cons
      have := ofNat_inj_of_lt (by omega) (by omega) h1
      omega
    · simp only [ha, hb, if_false, List.cons_append] at h
      obtain ⟨h1, h2⟩ := h.cons
      have e1 := ofNat_inj_of_lt (by omega) (by omega) h1
      obtain ⟨e2, h3⟩ := ih (a / 128) (by omega) (b / 128) s t h2
      exact ⟨by omega, h3⟩

theorem lenDelim_of_ne_nil (tag : UInt8) {x : Bytes} (h : x ≠ []) :
    lenDelim tag x = tag :: (varint x.length ++ x) := by
  cases x with
  | nil => exact absurd rfl h
  | cons a t => simp [lenDelim]

theorem lenDelim_nil (tag : UInt8) : lenDelim tag [] = [] := by simp [lenDelim]

/-- a header of a known algorithm never marshals to the empty string (field 1 is present) -/
theorem encHeader_ne_nil (h : Header) (hk : algoKnown h.algo = true) : encHeader h ≠ [] := by
  have h3 : h.algo = 1 ∨ h.algo = 2 ∨ h.algo = 3 := by
    simp [algoKnown] at hk; omega
  have : algoToPB h.algo ≠ 0 := by
    unfold algoToPB; rw [if_pos h3]; omega
  simp [encHeader, varField, this]

/-- **Two length-delimited field-1 frames in prefix relation carry the same header bytes.**
`r`, `r'` are whatever follows (body field, unknown fields, associated data). -/
theorem frame_PR {e e' r r' : Bytes} (he : e ≠ []) (he' : e' ≠ [])
    (h : PR (lenDelim 0x0a e ++ r) (lenDelim 0x0a e' ++ r')) : e = e' ∧ PR r r' := by
  rw [lenDelim_of_ne_nil _ he, lenDelim_of_ne_nil _ he'] at h
  simp only [List.cons_append, List.append_assoc] at h
  obtain ⟨_, h2⟩ := h.cons
  obtain ⟨hl, h3⟩ := varint_PR _ _ _ _ h2
  exact h3.append_left hl

end Scion.Signed
