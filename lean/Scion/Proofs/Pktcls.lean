import Scion.Model.PktclsSyntax
/-! Helper lemmas for C43: the token-level parser inverts the printer on well-formed trees, and
everything the parser returns is well-formed. -/
namespace Scion.Proofs.Pktcls
open Scion.Pktcls

/-! ### fuel measure -/

mutual
def sz : Cond → Nat
  | .all cs => 1 + szl cs
  | .any cs => 1 + szl cs
  | .not c => 1 + sz c
  | _ => 1
def szl : List Cond → Nat
  | [] => 0
  | c :: cs => 1 + max (sz c) (szl cs)
end

/-! ### leaves -/

set_option maxRecDepth 8192 in
theorem hexTok_value : ∀ v, v < 256 → hexTokValue (hexTok v) = some v := by
  decide

theorem proto_table_wf : ∀ e ∈ protoTable, lettersOnly e.2 = true → wfProto e.1 = true := by
  decide

theorem parseNet_octets (n : Net) (h : n.wf = true) :
    parseNet (n.bits / 2^24 % 256) (n.bits / 2^16 % 256) (n.bits / 2^8 % 256) (n.bits % 256) n.len
      = some n := by
  obtain ⟨bits, len⟩ := n
  simp only [Net.wf, Bool.and_eq_true, decide_eq_true_eq, beq_iff_eq] at h
  obtain ⟨⟨h1, h2⟩, h3⟩ := h
  unfold parseNet
  have hv : bits / 2^24 % 256 * 2^24 + bits / 2^16 % 256 * 2^16 + bits / 2^8 % 256 * 2^8 + bits % 256
      = bits := by omega
  have hr : (bits / 2^24 % 256 ≤ 255 ∧ bits / 2^16 % 256 ≤ 255 ∧ bits / 2^8 % 256 ≤ 255 ∧
      bits % 256 ≤ 255 ∧ len ≤ 32) := by omega
  rw [if_pos hr]
  simp only [hv]
  rw [Nat.div_mul_cancel (Nat.dvd_of_mod_eq_zero h3)]

theorem parseNet_wf (a b c d m : Nat) (n : Net) (h : parseNet a b c d m = some n) :
    n.wf = true := by
  unfold parseNet at h
  split at h
  · rename_i hr
    simp only [Option.some.injEq] at h
    subst h
    simp only [Net.wf, Bool.and_eq_true, decide_eq_true_eq, beq_iff_eq]
    refine ⟨⟨hr.2.2.2.2, ?_⟩, Nat.mul_mod_left _ _⟩
    have hv : a * 2^24 + b * 2^16 + c * 2^8 + d < 2^32 := by omega
    exact Nat.lt_of_le_of_lt (Nat.div_mul_le_self _ _) hv
  · cases h


/-! ### the parser inverts the printer -/

theorem pLeaf_print_bool (b : Bool) (rest : List Tok) :
    pLeaf (print (.bool b) ++ rest) = some (.bool b, rest) := by
  cases b <;> rfl

theorem printArgs_single (c : Cond) : printArgs [c] = print c ++ [.rpar] := by
  rw [printArgs]

theorem printArgs_cons_cons (c c' : Cond) (cs : List Cond) :
    printArgs (c :: c' :: cs) = print c ++ .comma :: printArgs (c' :: cs) := by
  rw [printArgs]

mutual
theorem pCond_print : (e : Cond) → e.wf = true → ∀ (f : Nat) (rest : List Tok), sz e ≤ f →
    pCond f (print e ++ rest) = some (e, rest)
  | .all cs, h, f, rest, hf => by
    cases f with
    | zero => simp [sz] at hf
    | succ f =>
      simp only [Cond.wf, Bool.and_eq_true, Bool.not_eq_true', List.isEmpty_eq_false_iff] at h
      simp only [print, List.cons_append, pCond]
      rw [pArgs_print cs h.1 h.2 f rest (by simp [sz] at hf; omega)]
  | .any cs, h, f, rest, hf => by
    cases f with
    | zero => simp [sz] at hf
    | succ f =>
      simp only [Cond.wf, Bool.and_eq_true, Bool.not_eq_true', List.isEmpty_eq_false_iff] at h
      simp only [print, List.cons_append, pCond]
      rw [pArgs_print cs h.1 h.2 f rest (by simp [sz] at hf; omega)]
  | .not c, h, f, rest, hf => by
    cases f with
    | zero => simp [sz] at hf
    | succ f =>
      simp only [Cond.wf] at h
      simp only [print, List.cons_append, List.append_assoc, List.nil_append, pCond]
      rw [pCond_print c h f (.rpar :: rest) (by simp [sz] at hf; omega)]
  | .bool b, _, f, rest, hf => by
    cases f with
    | zero => simp [sz] at hf
    | succ f => cases b <;> rfl
  | .src n, h, f, rest, hf => by
    cases f with
    | zero => simp [sz] at hf
    | succ f =>
      simp only [Cond.wf] at h
      simp only [print, List.cons_append, List.nil_append, pCond, pLeaf, parseNet_octets n h]
  | .dst n, h, f, rest, hf => by
    cases f with
    | zero => simp [sz] at hf
    | succ f =>
      simp only [Cond.wf] at h
      simp only [print, List.cons_append, List.nil_append, pCond, pLeaf, parseNet_octets n h]
  | .dscp v, h, f, rest, hf => by
    cases f with
    | zero => simp [sz] at hf
    | succ f =>
      simp only [Cond.wf, decide_eq_true_eq] at h
      simp only [print, List.cons_append, List.nil_append, pCond, pLeaf, hexTok_value v h]
  | .tos v, h, f, rest, hf => by
    cases f with
    | zero => simp [sz] at hf
    | succ f =>
      simp only [Cond.wf, decide_eq_true_eq] at h
      simp only [print, List.cons_append, List.nil_append, pCond, pLeaf, hexTok_value v h]
  | .proto p, h, f, rest, hf => by
    cases f with
    | zero => simp [sz] at hf
    | succ f =>
      simp only [Cond.wf, wfProto, beq_iff_eq] at h
      simp only [print, List.cons_append, List.nil_append, pCond, pLeaf, h]
  | .sport lo hi, h, f, rest, hf => by
    cases f with
    | zero => simp [sz] at hf
    | succ f =>
      simp only [Cond.wf, Bool.and_eq_true, decide_eq_true_eq] at h
      simp only [print, List.cons_append, List.nil_append, pCond, pLeaf, h, and_self, if_true]
  | .dport lo hi, h, f, rest, hf => by
    cases f with
    | zero => simp [sz] at hf
    | succ f =>
      simp only [Cond.wf, Bool.and_eq_true, decide_eq_true_eq] at h
      simp only [print, List.cons_append, List.nil_append, pCond, pLeaf, h, and_self, if_true]
  | .cls n, _, f, rest, hf => by
    cases f with
    | zero => simp [sz] at hf
    | succ f => rfl
theorem pArgs_print : (cs : List Cond) → cs ≠ [] → wfAll cs = true →
    ∀ (f : Nat) (rest : List Tok), szl cs ≤ f → pArgs f (printArgs cs ++ rest) = some (cs, rest)
  | [], h, _, _, _, _ => absurd rfl h
  | c :: cs, _, h, f, rest, hf => by
    cases f with
    | zero => simp [szl] at hf
    | succ f =>
      simp only [wfAll, Bool.and_eq_true] at h
      simp only [szl] at hf
      cases cs with
      | nil =>
        rw [printArgs_single]
        simp only [List.append_assoc, List.cons_append, List.nil_append, pArgs]
        rw [pCond_print c h.1 f (Tok.rpar :: rest) (by omega)]
      | cons c' cs' =>
        rw [printArgs_cons_cons]
        simp only [List.append_assoc, List.cons_append, pArgs]
        rw [pCond_print c h.1 f (Tok.comma :: (printArgs (c' :: cs') ++ rest)) (by omega)]
        simp only
        rw [pArgs_print (c' :: cs') (by simp) h.2 f rest (by omega)]
end


/-! ### fuel adequacy -/

mutual
theorem sz_le_print : (e : Cond) → sz e ≤ (print e).length
  | .all cs => by
    have := szl_le_printArgs cs
    simp only [sz, print, List.length_cons]; omega
  | .any cs => by
    have := szl_le_printArgs cs
    simp only [sz, print, List.length_cons]; omega
  | .not c => by
    have := sz_le_print c
    simp only [sz, print, List.length_cons, List.length_append, List.length_nil]; omega
  | .bool _ => by simp [sz, print]
  | .src _ => by simp [sz, print]
  | .dst _ => by simp [sz, print]
  | .dscp _ => by simp [sz, print]
  | .tos _ => by simp [sz, print]
  | .proto _ => by simp [sz, print]
  | .sport _ _ => by simp [sz, print]
  | .dport _ _ => by simp [sz, print]
  | .cls _ => by simp [sz, print]
theorem szl_le_printArgs : (cs : List Cond) → szl cs ≤ (printArgs cs).length
  | [] => by simp [szl]
  | [c] => by
    have := sz_le_print c
    rw [printArgs_single]
    simp only [szl, List.length_append, List.length_cons, List.length_nil]; omega
  | c :: c' :: cs => by
    have h1 := sz_le_print c
    have h2 := szl_le_printArgs (c' :: cs)
    rw [printArgs_cons_cons]
    simp only [List.length_append, List.length_cons]
    rw [szl]
    omega
end

theorem parse_print (e : Cond) (h : e.wf = true) : parse (print e) = some e := by
  unfold parse
  have := pCond_print e h ((print e).length + 1) [] (by have := sz_le_print e; omega)
  rw [List.append_nil] at this
  rw [this]

/-! ### everything the parser returns is well-formed -/

theorem protoNum_wf (s : List Char) (p : Nat) (h : protoNum s = some p) : wfProto p = true := by
  unfold protoNum at h
  split at h
  · rename_i e he
    simp only [Option.some.injEq] at h
    subst h
    have hm := List.mem_of_find?_eq_some he
    have hp := List.find?_some he
    simp only [Bool.and_eq_true] at hp
    exact proto_table_wf e hm hp.1
  · cases h

theorem hexTokValue_lt (t : Tok) (v : Nat) (h : hexTokValue t = some v) : v < 256 := by
  unfold hexTokValue at h
  split at h
  · split at h
    · cases h; assumption
    · cases h
  · split at h
    · cases h; assumption
    · cases h
  · cases h

theorem pLeaf_wf (ts : List Tok) (e : Cond) (r : List Tok) (h : pLeaf ts = some (e, r)) :
    e.wf = true := by
  unfold pLeaf at h
  split at h
  all_goals first
    | (cases h; rfl)
    | (split at h
       · rename_i n hn
         cases h
         first
           | exact parseNet_wf _ _ _ _ _ _ hn
           | (simp only [Cond.wf, decide_eq_true_eq]; exact hexTokValue_lt _ _ hn)
           | (simp only [Cond.wf]; exact protoNum_wf _ _ hn)
       · cases h)
    | (split at h
       · rename_i hc
         cases h
         simp only [Cond.wf, Bool.and_eq_true, decide_eq_true_eq]
         first | exact hc | exact ⟨hc, hc⟩
       · cases h)
    | cases h

theorem parse_sound_aux (f : Nat) :
    (∀ ts e r, pCond f ts = some (e, r) → e.wf = true) ∧
    (∀ ts cs r, pArgs f ts = some (cs, r) → cs ≠ [] ∧ wfAll cs = true) := by
  induction f with
  | zero => exact ⟨by intro ts e r h; simp [pCond] at h, by intro ts cs r h; simp [pArgs] at h⟩
  | succ f ih =>
    obtain ⟨ihc, iha⟩ := ih
    constructor
    · intro ts e r h
      unfold pCond at h
      split at h
      · split at h
        · rename_i cs r' hh
          cases h
          obtain ⟨h1, h2⟩ := iha _ _ _ hh
          simp only [Cond.wf, Bool.and_eq_true, Bool.not_eq_true', List.isEmpty_eq_false_iff]
          exact ⟨h1, h2⟩
        · cases h
      · split at h
        · rename_i cs r' hh
          cases h
          obtain ⟨h1, h2⟩ := iha _ _ _ hh
          simp only [Cond.wf, Bool.and_eq_true, Bool.not_eq_true', List.isEmpty_eq_false_iff]
          exact ⟨h1, h2⟩
        · cases h
      · split at h
        · rename_i c r' hh
          cases h
          simp only [Cond.wf]
          exact ihc _ _ _ hh
        · cases h
      · exact pLeaf_wf _ _ _ h
    · intro ts cs r h
      unfold pArgs at h
      split at h
      · rename_i c r' hh
        cases h
        exact ⟨by simp, by simp only [wfAll, Bool.and_true]; exact ihc _ _ _ hh⟩
      · rename_i c r' hh
        split at h
        · rename_i cs' r'' hh'
          cases h
          obtain ⟨_, h2⟩ := iha _ _ _ hh'
          exact ⟨by simp, by simp only [wfAll, Bool.and_eq_true]; exact ⟨ihc _ _ _ hh, h2⟩⟩
        · cases h
      · cases h

theorem parse_wf (ts : List Tok) (e : Cond) (h : parse ts = some e) : e.wf = true := by
  unfold parse at h
  split at h
  · rename_i c hh
    cases h
    exact (parse_sound_aux _).1 _ _ _ hh
  · cases h

/-! ### evaluation is the boolean fold -/

theorem evalAll_eq (cs : List Cond) (p : Pkt) : evalAll cs p = cs.all (fun c => eval c p) := by
  induction cs with
  | nil => simp [evalAll]
  | cons c cs ih => simp [evalAll, ih]

theorem evalAny_eq (cs : List Cond) (p : Pkt) : evalAny cs p = cs.any (fun c => eval c p) := by
  induction cs with
  | nil => simp [evalAny]
  | cons c cs ih => simp [evalAny, ih]

end Scion.Proofs.Pktcls
