import Scion.Model.Stores
/-! Helper lemmas for C27/C45: set-lists, lookups in the record lists, the well-formedness
invariant of every reachable store. -/
namespace Scion.Stores

/-! ### set-lists -/

theorem mem_addOne (l : List Nat) (x y : Nat) : y ∈ addOne l x ↔ y ∈ l ∨ y = x := by
  unfold addOne
  by_cases h : x ∈ l
  · simp only [h, if_true]
    constructor
    · exact Or.inl
    · rintro (h' | rfl)
      · exact h'
      · exact h
  · simp [h]

theorem mem_addAll (xs l : List Nat) (y : Nat) : y ∈ addAll l xs ↔ y ∈ l ∨ y ∈ xs := by
  unfold addAll
  induction xs generalizing l with
  | nil => simp
  | cons x rest ih =>
    simp only [List.foldl_cons, ih, mem_addOne, List.mem_cons]
    constructor
    · rintro ((h | h) | h)
      · exact Or.inl h
      · exact Or.inr (Or.inl h)
      · exact Or.inr (Or.inr h)
    · rintro (h | h | h)
      · exact Or.inl (Or.inl h)
      · exact Or.inl (Or.inr h)
      · exact Or.inr h

theorem addOne_ne_nil (l : List Nat) (x : Nat) : addOne l x ≠ [] := by
  unfold addOne
  split
  · rename_i h; intro e; rw [e] at h; cases h
  · simp

theorem addAll_ne_nil_of_left (xs l : List Nat) (h : l ≠ []) : addAll l xs ≠ [] := by
  unfold addAll
  induction xs generalizing l with
  | nil => exact h
  | cons x rest ih => exact ih _ (addOne_ne_nil l x)

theorem addAll_ne_nil_of_right (xs l : List Nat) (h : xs ≠ []) : addAll l xs ≠ [] := by
  cases xs with
  | nil => exact absurd rfl h
  | cons x rest =>
    unfold addAll
    simp only [List.foldl_cons]
    exact addAll_ne_nil_of_left rest _ (addOne_ne_nil l x)

/-! ### path-segment records -/

theorem findSeg_mem (s : List SegRec) (id : ID) (r : SegRec) (h : findSeg s id = some r) :
    r ∈ s ∧ r.id = id := by
  induction s with
  | nil => simp [findSeg] at h
  | cons a rest ih =>
    by_cases ha : a.id = id
    · simp [findSeg, ha] at h; subst h; exact ⟨by simp, ha⟩
    · simp [findSeg, ha] at h
      exact ⟨List.mem_cons_of_mem _ (ih h).1, (ih h).2⟩

theorem findSeg_none (s : List SegRec) (id : ID) : findSeg s id = none ↔ ∀ r ∈ s, r.id ≠ id := by
  induction s with
  | nil => simp [findSeg]
  | cons a rest ih =>
    by_cases ha : a.id = id
    · simp [findSeg, ha]
    · simp [findSeg, ha, ih]

theorem findSeg_append (s t : List SegRec) (id : ID) :
    findSeg (s ++ t) id = (findSeg s id).or (findSeg t id) := by
  induction s with
  | nil => simp [findSeg]
  | cons a rest ih =>
    by_cases ha : a.id = id
    · simp [findSeg, ha]
    · simp [findSeg, ha, ih]

/-- mapping an id-preserving function over the rows commutes with lookup -/
theorem findSeg_map (s : List SegRec) (f : SegRec → SegRec) (hf : ∀ r, (f r).id = r.id) (id : ID) :
    findSeg (s.map f) id = (findSeg s id).map f := by
  induction s with
  | nil => rfl
  | cons a rest ih =>
    by_cases ha : a.id = id
    · simp [findSeg, ha, hf]
    · simp [findSeg, ha, hf, ih]

def DistinctIds (s : List SegRec) : Prop := s.Pairwise (fun a b => a.id ≠ b.id)

theorem findSeg_of_mem (s : List SegRec) (r : SegRec) (hs : DistinctIds s) (h : r ∈ s) :
    findSeg s r.id = some r := by
  induction s with
  | nil => cases h
  | cons a rest ih =>
    have hrest := (List.pairwise_cons.mp hs).2
    have hhead := (List.pairwise_cons.mp hs).1
    rcases List.mem_cons.mp h with rfl | h'
    · simp [findSeg]
    · have : a.id ≠ r.id := hhead r h'
      simp [findSeg, this, ih hrest h']

/-- invariant of every reachable path store -/
def PWF (s : List SegRec) : Prop :=
  DistinctIds s ∧ ∀ r ∈ s, r.types ≠ [] ∧ r.groups ≠ []

theorem newRec_groups_ne (x : SegIn) (t : Nat) (g : List Nat) (k : Nat) :
    (newRec x t g k).groups ≠ [] := by
  unfold newRec
  simp only
  apply addAll_ne_nil_of_right
  cases g <;> simp

theorem pwf_insert (s : List SegRec) (x : SegIn) (t : Nat) (g : List Nat) (k : Nat) (h : PWF s) :
    PWF (insertSeg s x t g k).1 := by
  unfold insertSeg
  cases hf : findSeg s x.id with
  | none =>
    simp only
    refine ⟨?_, ?_⟩
    · refine List.pairwise_append.mpr ⟨h.1, List.pairwise_singleton _ _, ?_⟩
      intro a ha b hb
      simp only [List.mem_singleton] at hb
      subst hb
      exact (findSeg_none s x.id).mp hf a ha
    · intro r hr
      rcases List.mem_append.mp hr with hr | hr
      · exact h.2 r hr
      · simp only [List.mem_singleton] at hr
        subst hr
        exact ⟨by simp [newRec], newRec_groups_ne x t g k⟩
  | some old =>
    simp only
    split
    · exact h
    · refine ⟨?_, ?_⟩
      · refine List.Pairwise.map _ ?_ h.1
        intro a b hab
        by_cases ha : a.id = x.id <;> by_cases hb : b.id = x.id <;> simp [ha, hb, updRec] <;>
          first | exact hab | exact hab (ha.trans hb.symm) | (intro e; apply hab; simp_all)
      · intro r hr
        obtain ⟨a, ha, rfl⟩ := List.mem_map.mp hr
        by_cases hid : a.id = x.id
        · simp only [hid, if_true, updRec]
          exact ⟨addOne_ne_nil _ _, addAll_ne_nil_of_left _ _ (h.2 a ha).2⟩
        · simp only [hid, if_false]
          exact h.2 a ha

theorem pwf_filter (s : List SegRec) (q : SegRec → Bool) (h : PWF s) : PWF (s.filter q) :=
  ⟨List.Pairwise.filter q h.1, fun r hr => h.2 r (List.mem_filter.mp hr).1⟩

/-! ### next-query map -/

theorem findNQ_filter_ne (nq : List (NQKey × Nat)) (k k' : NQKey) (h : k' ≠ k) :
    findNQ (nq.filter (fun p => !decide (p.1 = k))) k' = findNQ nq k' := by
  induction nq with
  | nil => rfl
  | cons p rest ih =>
    obtain ⟨a, t⟩ := p
    by_cases hak : a = k
    · subst hak
      have : a ≠ k' := fun e => h e.symm
      simp [List.filter, findNQ, this, ih]
    · by_cases hak' : a = k'
      · subst hak'
        simp [List.filter, findNQ, hak]
      · simp [List.filter, findNQ, hak, hak', ih]

/-! ### beacon records -/

theorem findB_mem (s : BeaconStore) (id : ID) (r : BRec) (h : findB s id = some r) :
    r ∈ s ∧ r.id = id := by
  induction s with
  | nil => simp [findB] at h
  | cons a rest ih =>
    by_cases ha : a.id = id
    · simp [findB, ha] at h; subst h; exact ⟨by simp, ha⟩
    · simp [findB, ha] at h
      exact ⟨List.mem_cons_of_mem _ (ih h).1, (ih h).2⟩

theorem findB_none (s : BeaconStore) (id : ID) : findB s id = none ↔ ∀ r ∈ s, r.id ≠ id := by
  induction s with
  | nil => simp [findB]
  | cons a rest ih =>
    by_cases ha : a.id = id
    · simp [findB, ha]
    · simp [findB, ha, ih]

theorem findB_append (s t : BeaconStore) (id : ID) :
    findB (s ++ t) id = (findB s id).or (findB t id) := by
  induction s with
  | nil => simp [findB]
  | cons a rest ih =>
    by_cases ha : a.id = id
    · simp [findB, ha]
    · simp [findB, ha, ih]

theorem findB_map (s : BeaconStore) (f : BRec → BRec) (hf : ∀ r, (f r).id = r.id) (id : ID) :
    findB (s.map f) id = (findB s id).map f := by
  induction s with
  | nil => rfl
  | cons a rest ih =>
    by_cases ha : a.id = id
    · simp [findB, ha, hf]
    · simp [findB, ha, hf, ih]

def BDistinct (s : BeaconStore) : Prop := s.Pairwise (fun a b => a.id ≠ b.id)

theorem bdistinct_insert (s : BeaconStore) (b : BIn) (i u k : Nat) (h : BDistinct s) :
    BDistinct (insertBeacon s b i u k).1 := by
  unfold insertBeacon
  cases hf : findB s b.id with
  | none =>
    simp only
    refine List.pairwise_append.mpr ⟨h, List.pairwise_singleton _ _, ?_⟩
    intro a ha c hc
    simp only [List.mem_singleton] at hc
    subst hc
    exact (findB_none s b.id).mp hf a ha
  | some old =>
    simp only
    split
    · refine List.Pairwise.map _ ?_ h
      intro a c hac
      by_cases ha : a.id = b.id <;> by_cases hc : c.id = b.id <;> simp [ha, hc, mkB] <;>
        first | exact hac | exact hac (ha.trans hc.symm) | (intro e; apply hac; simp_all)
    · exact h

theorem hopsLe_trans (a b c : BRec) : hopsLe a b = true → hopsLe b c = true → hopsLe a c = true := by
  simp only [hopsLe, decide_eq_true_eq]; omega

theorem hopsLe_total (a b : BRec) : (hopsLe a b || hopsLe b a) = true := by
  simp only [hopsLe, Bool.or_eq_true, decide_eq_true_eq]; omega

end Scion.Stores
