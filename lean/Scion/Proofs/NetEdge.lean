import Scion.Proofs.NetPaths
/-! Glue between the combinator side (`Edge`, `pathOf`, `pathIfaces`, `Joinable`) and the run
lemmas of `NetPaths`.  Core Lean only. -/
namespace Scion.Net
open Scion.SegID (updateSegID extractBeta xorAll calculateBeta)

theorem sigmas_eq (s : PSeg) : sigmas s = sig s.entries := rfl

/-- every entry but the last one of a chain has a non-zero egress interface -/
theorem chain_ceg_ne (mac : MacFn) (net : Net) (core : Bool) (ts : Nat) (l : List ASE) :
    ∀ (β : Nat) (last : ASE), Chain mac net core ts β (l ++ [last]) → ∀ y ∈ l, y.hop.cEg ≠ 0 := by
  induction l with
  | nil => intro β last _ y hy; simp at hy
  | cons x xs ih =>
    intro β last hc y hy
    have hne : xs ++ [last] = firstOf xs last :: (xs ++ [last]).tail := by
      cases xs <;> simp [firstOf]
    simp only [List.cons_append] at hc
    rw [hne] at hc
    simp only [Chain] at hc
    obtain ⟨_, ⟨f, _, _, _, _, h0⟩, hrest⟩ := hc
    rw [← hne] at hrest
    simp only [List.mem_cons] at hy
    rcases hy with rfl | hy
    · exact h0
    · exact ih _ last hrest y hy

theorem getLast?_cons_snoc {α} (x : α) (mid : List α) (last : α) :
    (x :: (mid ++ [last])).getLast? = some last := by
  have : x :: (mid ++ [last]) = (x :: mid) ++ [last] := by simp
  rw [this, List.getLast?_append]
  simp

theorem getLast?_pre_cons_snoc {α} (pre : List α) (x : α) (mid : List α) (last : α) :
    (pre ++ x :: (mid ++ [last])).getLast? = some last := by
  rw [List.getLast?_append, getLast?_cons_snoc]; simp

/-- splitting the entries of an edge at its shortcut index -/
theorem edge_split (e : Edge) (h1 : e.shortcut + 1 < e.seg.entries.length) :
    ∃ pre x mid last, e.seg.entries = pre ++ x :: (mid ++ [last]) ∧ pre.length = e.shortcut := by
  have hlen : e.shortcut < e.seg.entries.length := by omega
  obtain ⟨x, rest, hd⟩ : ∃ x rest, e.seg.entries.drop e.shortcut = x :: rest := by
    cases h : e.seg.entries.drop e.shortcut with
    | nil => simp at h; omega
    | cons x rest => exact ⟨x, rest, rfl⟩
  have hrl : rest ≠ [] := by
    intro h
    have := congrArg List.length hd
    simp [h] at this
    omega
  refine ⟨e.seg.entries.take e.shortcut, x, rest.dropLast, rest.getLast hrl, ?_, ?_⟩
  · rw [List.dropLast_concat_getLast hrl, ← hd, List.take_append_drop]
  · simp; omega

theorem firstOf_snoc (l : List ASE) (m x : ASE) : firstOf (l ++ [m]) x = firstOf l m := by
  cases l <;> rfl

theorem upTrace_snoc (l : List ASE) (m x : ASE) :
    upTrace (l ++ [m]) x = upTrace l m ++ [(m.ia, m.hop.cIn), (x.ia, x.hop.cEg)] := by
  induction l with
  | nil => simp [upTrace, firstOf]
  | cons y rest ih => simp [upTrace, ih, firstOf_snoc]

/-- the interfaces of a traversal against construction direction are those of the traversal in
    construction direction, reversed -/
theorem downTrace_reverse (mid : List ASE) : ∀ (x last : ASE),
    (downTrace (x :: mid) last).reverse = upTrace (last :: mid.reverse) x := by
  induction mid with
  | nil => intro x last; simp [downTrace, upTrace, firstOf]
  | cons m ms ih =>
    intro x last
    have h1 : downTrace (x :: m :: ms) last =
        (x.ia, x.hop.cEg) :: (m.ia, m.hop.cIn) :: downTrace (m :: ms) last := by
      simp [downTrace, firstOf]
    rw [h1, List.reverse_cons, List.reverse_cons, ih m last]
    have h2 : last :: (m :: ms).reverse = (last :: ms.reverse) ++ [m] := by simp
    rw [h2, upTrace_snoc]
    simp

section
variable (mac : MacFn) (net : Net) (now src dst : Nat)
variable (hWF : WFNet net) (hUp : AllUp net) (hSR : SingleRouter net)
include hWF hUp hSR

/-- C02 for a path that consists of (part of) one down segment; moreover the delivered packet,
    reversed, carries exactly the path the combinator would build from the same segment used in the
    other direction (this is what C03 needs) -/
theorem single_down_full (e : Edge) (c : Cursor) (hdown : e.down = true) (hpeer : e.peer = none)
    (hJ : Joinable mac net [e] src dst) (hp : pathOf [e] = some c) (hexp : Unexpired now c) :
    ∃ cf, send mac net now src dst c = .delivered dst (pathIfaces [e]) cf ∧
      pathOf [{ e with down := false }] = some (reverseCursor cf) ∧
      Unexpired now (reverseCursor cf) := by
  obtain ⟨_, _, hval, _, _, hhead, hlast, hnd⟩ := hJ
  obtain ⟨hreg, _, _, hlen, _⟩ := hval e (by simp)
  obtain ⟨pre, x, mid, last, hent, hpl⟩ := edge_split e (hlen hpeer)
  obtain ⟨hchain, _, ⟨last', hlast', hlast0⟩, _⟩ := registered_chain mac net e.core e.seg hreg
  rw [hent] at hchain
  have hl' : last' = last := by
    rw [hent] at hlast'
    rw [getLast?_pre_cons_snoc] at hlast'; cases hlast'; rfl
  subst hl'
  have hdrop : e.seg.entries.drop e.shortcut = x :: (mid ++ [last']) := by
    rw [hent, ← hpl]; simp
  have hcalc : calculateBeta true e.shortcut false e.seg.s0 (sigmas e.seg) =
      some (extractBeta e.seg.s0 (sig pre)) := by
    rw [sigmas_eq, hent, ← hpl]
    have := Scion.SegID.calc_down e.seg.s0 (sig pre) (pfx x.hop.mac) (sig (mid ++ [last'])) false
    simpa [sig] using this
  -- the path
  have hc : c = ⟨[], ⟨true, false, extractBeta e.seg.s0 (sig pre), e.seg.ts⟩, [], hopOf x.hop,
      (mid ++ [last']).map (fun e => hopOf e.hop), []⟩ := by
    simp [pathOf, segsOf, edgeSeg, edgeHops, hdown, hpeer, hdrop, hcalc, startCursor] at hp
    rw [← hp]; simp
  -- source, destination, distinct ASes
  have hases : pathASes [e] = (x :: (mid ++ [last'])).map (·.ia) := by
    simp [pathASes, Edge.ases, Edge.used, hdown, hdrop]
  rw [hases] at hhead hlast hnd
  have hsrc : src = x.ia := by simp at hhead; exact hhead.symm
  have hdst : dst = last'.ia := by
    rw [List.map_cons, List.map_append, List.map_cons, List.map_nil, getLast?_cons_snoc] at hlast
    cases hlast; rfl
  have hexp' : ∀ y ∈ x :: (mid ++ [last']), expired now e.seg.ts y.hop.exp = false := by
    intro y hy
    have := hexp ⟨⟨true, false, extractBeta e.seg.s0 (sig pre), e.seg.ts⟩,
      hopOf x.hop :: (mid ++ [last']).map (fun e => hopOf e.hop)⟩
      (by rw [hc]; simp [Cursor.segs, Cursor.curSeg]) (hopOf y.hop)
      (by
        simp only [List.mem_cons] at hy ⊢
        rcases hy with rfl | hy
        · left; rfl
        · right; exact List.mem_map.2 ⟨y, hy, rfl⟩)
    simpa [hopOf] using this
  have hrun := down_segment_run mac net now src dst e.core e.seg.ts hWF hUp hSR e.seg.s0 pre x mid
    last' hchain hsrc hdst hnd hexp' (mid.length + 4)
  -- the first egress interface exists and belongs to the only router
  have hc1 := chain_drop mac net e.core e.seg.ts e.seg.s0 pre _ hchain
  have hne : mid ++ [last'] = firstOf mid last' :: (mid ++ [last']).tail := by
    cases mid <;> simp [firstOf]
  have hc1' := hc1
  rw [hne] at hc1'
  simp only [Chain] at hc1'
  obtain ⟨_, ⟨fx, hfx, _, _, _, _⟩, _⟩ := hc1'
  have hentry : entryRouter net src c = 0 := by
    rw [hc, hsrc]
    simp [entryRouter, hopOf, hfx, hSR _ _ _ hfx]
  have hfuel : fuelFor c = mid.length + 4 + 2 + mid.length := by
    rw [hc]
    simp [fuelFor, toFlat, Cursor.segs, Cursor.curSeg]
    omega
  -- metadata interfaces
  have hif : pathIfaces [e] = (x.ia, x.hop.cEg) ::
      ((firstOf mid last').ia, (firstOf mid last').hop.cIn) :: downTrace mid last' := by
    have hce := chain_ceg_ne mac net e.core e.seg.ts (x :: mid) (extractBeta e.seg.s0 (sig pre)) last'
      (by simpa using hc1)
    have hx0 : x.hop.cEg ≠ 0 := hce x (by simp)
    have := ifaces_down_tail mid last' (fun y hy => hce y (by simp [hy])) hlast0
    simp only [pathIfaces, List.map_cons, List.map_nil, List.flatten_cons, List.flatten_nil,
      List.append_nil, edgeIfaces, hdrop, hpeer, hdown, if_true, hx0, ne_eq, not_false_eq_true,
      this]
    simp
  rw [hif]
  unfold send
  rw [hentry, hfuel, hc]
  refine ⟨_, hrun, ?_, ?_⟩
  · -- the mirrored edge yields the reversed packet
    have hcalc' : calculateBeta false e.shortcut false e.seg.s0 (sigmas e.seg) =
        some (updateSegID (extractBeta e.seg.s0 (sig pre)) (pfx x.hop.mac) ^^^ xorAll (sig mid)) := by
      rw [sigmas_eq, hent, ← hpl]
      have := Scion.SegID.calc_up_multi e.seg.s0 (sig pre) (pfx x.hop.mac) (pfx last'.hop.mac) (sig mid) false
      simpa [sig] using this
    simp [pathOf, segsOf, edgeSeg, edgeHops, hpeer, hdrop, hcalc', startCursor, reverseCursor,
      flipInfo, List.map_reverse, Scion.SegID.extractBeta_eq, revSeg]
  · intro s hs h hh
    simp only [reverseCursor, Cursor.segs, Cursor.curSeg, List.reverse_nil, List.map_nil,
      List.nil_append, List.append_nil, List.mem_singleton, flipInfo] at hs
    subst hs
    simp only [List.mem_append, List.mem_reverse, List.mem_cons, List.mem_map, List.not_mem_nil,
      or_false, List.mem_singleton] at hh
    have hx := hexp' x (by simp)
    rcases hh with rfl | (rfl | ⟨y, hy, rfl⟩)
    · simpa [hopOf] using hexp' last' (by simp)
    · simpa [hopOf] using hx
    · simpa [hopOf] using hexp' y (by simp [hy])

/-- C02 for a path that consists of (part of) one up or core segment, with the same addition -/
theorem single_up_full (e : Edge) (c : Cursor) (hdown : e.down = false) (hpeer : e.peer = none)
    (hJ : Joinable mac net [e] src dst) (hp : pathOf [e] = some c) (hexp : Unexpired now c) :
    ∃ cf, send mac net now src dst c = .delivered dst (pathIfaces [e]) cf ∧
      pathOf [{ e with down := true }] = some (reverseCursor cf) ∧
      Unexpired now (reverseCursor cf) := by
  obtain ⟨_, _, hval, _, _, hhead, hlast, hnd⟩ := hJ
  obtain ⟨hreg, _, _, hlen, _⟩ := hval e (by simp)
  obtain ⟨pre, x, mid, last, hent, hpl⟩ := edge_split e (hlen hpeer)
  obtain ⟨hchain, _, ⟨last', hlast', hlast0⟩, _⟩ := registered_chain mac net e.core e.seg hreg
  rw [hent] at hchain
  have hl' : last' = last := by
    rw [hent, getLast?_pre_cons_snoc] at hlast'; cases hlast'; rfl
  subst hl'
  have hdrop : e.seg.entries.drop e.shortcut = x :: (mid ++ [last']) := by
    rw [hent, ← hpl]; simp
  have hcalc : calculateBeta false e.shortcut false e.seg.s0 (sigmas e.seg) =
      some (updateSegID (extractBeta e.seg.s0 (sig pre)) (pfx x.hop.mac) ^^^ xorAll (sig mid)) := by
    rw [sigmas_eq, hent, ← hpl]
    have := Scion.SegID.calc_up_multi e.seg.s0 (sig pre) (pfx x.hop.mac) (pfx last'.hop.mac) (sig mid) false
    simpa [sig] using this
  have hc1 := chain_drop mac net e.core e.seg.ts e.seg.s0 pre _ hchain
  -- the same chain seen from the far end
  have hup := chain_to_up mac net e.core e.seg.ts _ _ hc1
  have hrev : (x :: (mid ++ [last'])).reverse = last' :: (mid.reverse ++ [x]) := by simp
  rw [hrev] at hup
  have hseg : updateSegID (extractBeta (extractBeta e.seg.s0 (sig pre)) (sig (x :: (mid ++ [last']))))
        (pfx last'.hop.mac) =
      updateSegID (extractBeta e.seg.s0 (sig pre)) (pfx x.hop.mac) ^^^ xorAll (sig mid) := by
    rw [Scion.SegID.extractBeta_eq _ (sig (x :: (mid ++ [last'])))]
    simp only [sig, List.map_cons, List.map_append, List.map_nil, Scion.SegID.xorAll,
      Scion.SegID.xorAll_append, updateSegID, Nat.xor_zero]
    rw [← Nat.xor_assoc, ← Nat.xor_assoc, Scion.SegID.xor_cancel]
  -- the path
  have hc : c = ⟨[], ⟨false, false, updateSegID (extractBeta (extractBeta e.seg.s0 (sig pre))
        (sig (x :: (mid ++ [last'])))) (pfx last'.hop.mac), e.seg.ts⟩, [], hopOf last'.hop,
      (mid.reverse ++ [x]).map (fun e => hopOf e.hop), []⟩ := by
    rw [hseg]
    simp [pathOf, segsOf, edgeSeg, edgeHops, hdown, hpeer, hdrop, hcalc, startCursor] at hp
    rw [← hp]; simp [List.map_reverse]
  have hases : pathASes [e] = (last' :: (mid.reverse ++ [x])).map (·.ia) := by
    simp [pathASes, Edge.ases, Edge.used, hdown, hdrop, List.map_reverse]
  rw [hases] at hhead hlast hnd
  have hsrc : src = last'.ia := by simp at hhead; exact hhead.symm
  have hdst : dst = x.ia := by
    rw [List.map_cons, List.map_append, List.map_cons, List.map_nil, getLast?_cons_snoc] at hlast
    cases hlast; rfl
  have hexp' : ∀ y ∈ last' :: (mid.reverse ++ [x]), expired now e.seg.ts y.hop.exp = false := by
    intro y hy
    have := hexp ⟨⟨false, false, updateSegID (extractBeta (extractBeta e.seg.s0 (sig pre))
        (sig (x :: (mid ++ [last'])))) (pfx last'.hop.mac), e.seg.ts⟩,
      hopOf last'.hop :: (mid.reverse ++ [x]).map (fun e => hopOf e.hop)⟩
      (by rw [hc]; simp [Cursor.segs, Cursor.curSeg]) (hopOf y.hop)
      (by
        simp only [List.mem_cons] at hy ⊢
        rcases hy with rfl | hy
        · left; rfl
        · right; exact List.mem_map.2 ⟨y, hy, rfl⟩)
    simpa [hopOf] using this
  have hrun := up_segment_run mac net now src dst e.core e.seg.ts hWF hUp hSR _ last' mid.reverse x
    hup hsrc hdst hnd hexp' (mid.length + 4)
  -- the first egress interface (the construction ingress of the last entry)
  have hne : mid.reverse ++ [x] = firstOf mid.reverse x :: (mid.reverse ++ [x]).tail := by
    cases mid.reverse <;> simp [firstOf]
  have hup' := hup
  rw [hne] at hup'
  simp only [ChainUp] at hup'
  obtain ⟨_, ⟨f1, hf1, _, hf1n, hf1i, _⟩, _⟩ := hup'
  obtain ⟨_, _, g1, hg1, _, _, _⟩ := hWF _ _ _ hf1
  rw [hf1n, hf1i] at hg1
  have hentry : entryRouter net src c = 0 := by
    rw [hc, hsrc]
    simp [entryRouter, hopOf, hg1, hSR _ _ _ hg1]
  have hfuel : fuelFor c = mid.length + 4 + 2 + mid.reverse.length := by
    rw [hc]
    simp [fuelFor, toFlat, Cursor.segs, Cursor.curSeg]
    omega
  have hif : pathIfaces [e] = (last'.ia, last'.hop.cIn) ::
      ((firstOf mid.reverse x).ia, (firstOf mid.reverse x).hop.cEg) :: upTrace mid.reverse x := by
    have hce := chain_ceg_ne mac net e.core e.seg.ts (x :: mid) (extractBeta e.seg.s0 (sig pre)) last'
      (by simpa using hc1)
    have hx0 : x.hop.cEg ≠ 0 := hce x (by simp)
    have h1 := ifaces_down_tail mid last' (fun y hy => hce y (by simp [hy])) hlast0
    have h2 := downTrace_reverse mid x last'
    simp only [pathIfaces, List.map_cons, List.map_nil, List.flatten_cons, List.flatten_nil,
      List.append_nil, edgeIfaces, hdrop, hpeer, hdown, hx0, ne_eq, not_false_eq_true, if_true,
      h1, Bool.false_eq_true, if_false]
    have h3 : [(x.ia, x.hop.cEg)] ++ ((firstOf mid last').ia, (firstOf mid last').hop.cIn) ::
        downTrace mid last' = downTrace (x :: mid) last' := by simp [downTrace]
    rw [h3, h2]
    simp [upTrace]
  rw [hif]
  unfold send
  rw [hentry, hfuel, hc]
  refine ⟨_, hrun, ?_, ?_⟩
  · have hcalc' : calculateBeta true e.shortcut false e.seg.s0 (sigmas e.seg) =
        some (extractBeta e.seg.s0 (sig pre)) := by
      rw [sigmas_eq, hent, ← hpl]
      have := Scion.SegID.calc_down e.seg.s0 (sig pre) (pfx x.hop.mac) (sig (mid ++ [last'])) false
      simpa [sig] using this
    have hsegback : updateSegID (extractBeta (updateSegID (extractBeta (extractBeta e.seg.s0 (sig pre))
        (sig (x :: (mid ++ [last'])))) (pfx last'.hop.mac)) (sig mid.reverse)) (pfx x.hop.mac) =
        extractBeta e.seg.s0 (sig pre) := by
      rw [hseg, sig_reverse, Scion.SegID.extractBeta_eq _ (sig mid).reverse,
        Scion.SegID.xorAll_reverse]
      simp only [updateSegID]
      rw [Scion.SegID.xor_cancel, Scion.SegID.xor_cancel]
    simp [pathOf, segsOf, edgeSeg, edgeHops, hpeer, hdrop, hcalc', startCursor, reverseCursor,
      flipInfo, hsegback]
  · intro s hs h hh
    simp only [reverseCursor, Cursor.segs, Cursor.curSeg, List.reverse_nil, List.map_nil,
      List.nil_append, List.append_nil, List.mem_singleton, flipInfo] at hs
    subst hs
    simp only [List.mem_append, List.mem_reverse, List.mem_cons, List.mem_map, List.not_mem_nil,
      or_false, List.mem_singleton] at hh
    rcases hh with rfl | (rfl | ⟨y, hy, rfl⟩)
    · simpa [hopOf] using hexp' x (by simp)
    · simpa [hopOf] using hexp' last' (by simp)
    · simpa [hopOf] using hexp' y (by simp [hy])

end

end Scion.Net

namespace Scion.Net
open Scion.SegID (updateSegID extractBeta xorAll calculateBeta)

/-- everything the run lemmas need to know about an edge used in construction direction -/
theorem down_edge_facts (mac : MacFn) (net : Net) (e : Edge) (hdown : e.down = true)
    (hpeer : e.peer = none) (hval : e.Valid mac net) :
    ∃ pre x mid last,
      edgeSeg e = some ⟨⟨true, false, extractBeta e.seg.s0 (sig pre), e.seg.ts⟩,
        (x :: (mid ++ [last])).map (fun y => hopOf y.hop)⟩ ∧
      Chain mac net e.core e.seg.ts (extractBeta e.seg.s0 (sig pre)) (x :: (mid ++ [last])) ∧
      e.ases = (x :: (mid ++ [last])).map (·.ia) ∧
      edgeIfaces e = (x.ia, x.hop.cEg) ::
        ((firstOf mid last).ia, (firstOf mid last).hop.cIn) :: downTrace mid last := by
  obtain ⟨hreg, _, _, hlen, _⟩ := hval
  obtain ⟨pre, x, mid, last, hent, hpl⟩ := edge_split e (hlen hpeer)
  obtain ⟨hchain, _, ⟨last', hlast', hlast0⟩, _⟩ := registered_chain mac net e.core e.seg hreg
  rw [hent] at hchain
  have hl' : last' = last := by
    rw [hent, getLast?_pre_cons_snoc] at hlast'; cases hlast'; rfl
  subst hl'
  have hdrop : e.seg.entries.drop e.shortcut = x :: (mid ++ [last']) := by
    rw [hent, ← hpl]; simp
  have hcalc : calculateBeta true e.shortcut false e.seg.s0 (sigmas e.seg) =
      some (extractBeta e.seg.s0 (sig pre)) := by
    rw [sigmas_eq, hent, ← hpl]
    have := Scion.SegID.calc_down e.seg.s0 (sig pre) (pfx x.hop.mac) (sig (mid ++ [last'])) false
    simpa [sig] using this
  have hc1 := chain_drop mac net e.core e.seg.ts e.seg.s0 pre _ hchain
  refine ⟨pre, x, mid, last', ?_, hc1, ?_, ?_⟩
  · simp [edgeSeg, edgeHops, hdown, hpeer, hdrop, hcalc]
  · simp [Edge.ases, Edge.used, hdown, hdrop]
  · have hce := chain_ceg_ne mac net e.core e.seg.ts (x :: mid) (extractBeta e.seg.s0 (sig pre)) last'
      (by simpa using hc1)
    have hx0 : x.hop.cEg ≠ 0 := hce x (by simp)
    have := ifaces_down_tail mid last' (fun y hy => hce y (by simp [hy])) hlast0
    simp only [edgeIfaces, hdrop, hpeer, hdown, if_true, hx0, ne_eq, not_false_eq_true, this]
    simp

/-- … and about an edge used against construction direction -/
theorem up_edge_facts (mac : MacFn) (net : Net) (e : Edge) (hdown : e.down = false)
    (hpeer : e.peer = none) (hval : e.Valid mac net) :
    ∃ b top r x,
      edgeSeg e = some ⟨⟨false, false, updateSegID b (pfx top.hop.mac), e.seg.ts⟩,
        (top :: (r ++ [x])).map (fun y => hopOf y.hop)⟩ ∧
      ChainUp mac net e.core e.seg.ts b (top :: (r ++ [x])) ∧
      e.ases = (top :: (r ++ [x])).map (·.ia) ∧
      edgeIfaces e = (top.ia, top.hop.cIn) ::
        ((firstOf r x).ia, (firstOf r x).hop.cEg) :: upTrace r x := by
  obtain ⟨hreg, _, _, hlen, _⟩ := hval
  obtain ⟨pre, x, mid, last, hent, hpl⟩ := edge_split e (hlen hpeer)
  obtain ⟨hchain, _, ⟨last', hlast', hlast0⟩, _⟩ := registered_chain mac net e.core e.seg hreg
  rw [hent] at hchain
  have hl' : last' = last := by
    rw [hent, getLast?_pre_cons_snoc] at hlast'; cases hlast'; rfl
  subst hl'
  have hdrop : e.seg.entries.drop e.shortcut = x :: (mid ++ [last']) := by
    rw [hent, ← hpl]; simp
  have hcalc : calculateBeta false e.shortcut false e.seg.s0 (sigmas e.seg) =
      some (updateSegID (extractBeta e.seg.s0 (sig pre)) (pfx x.hop.mac) ^^^ xorAll (sig mid)) := by
    rw [sigmas_eq, hent, ← hpl]
    have := Scion.SegID.calc_up_multi e.seg.s0 (sig pre) (pfx x.hop.mac) (pfx last'.hop.mac) (sig mid) false
    simpa [sig] using this
  have hc1 := chain_drop mac net e.core e.seg.ts e.seg.s0 pre _ hchain
  have hup := chain_to_up mac net e.core e.seg.ts _ _ hc1
  have hrev : (x :: (mid ++ [last'])).reverse = last' :: (mid.reverse ++ [x]) := by simp
  rw [hrev] at hup
  have hseg : updateSegID (extractBeta (extractBeta e.seg.s0 (sig pre)) (sig (x :: (mid ++ [last']))))
        (pfx last'.hop.mac) =
      updateSegID (extractBeta e.seg.s0 (sig pre)) (pfx x.hop.mac) ^^^ xorAll (sig mid) := by
    rw [Scion.SegID.extractBeta_eq _ (sig (x :: (mid ++ [last'])))]
    simp only [sig, List.map_cons, List.map_append, List.map_nil, Scion.SegID.xorAll,
      Scion.SegID.xorAll_append, updateSegID, Nat.xor_zero]
    rw [← Nat.xor_assoc, ← Nat.xor_assoc, Scion.SegID.xor_cancel]
  refine ⟨_, last', mid.reverse, x, ?_, hup, ?_, ?_⟩
  · rw [hseg]
    simp [edgeSeg, edgeHops, hdown, hpeer, hdrop, hcalc, List.map_reverse]
  · simp [Edge.ases, Edge.used, hdown, hdrop, List.map_reverse]
  · have hce := chain_ceg_ne mac net e.core e.seg.ts (x :: mid) (extractBeta e.seg.s0 (sig pre)) last'
      (by simpa using hc1)
    have hx0 : x.hop.cEg ≠ 0 := hce x (by simp)
    have h1 := ifaces_down_tail mid last' (fun y hy => hce y (by simp [hy])) hlast0
    have h2 := downTrace_reverse mid x last'
    simp only [edgeIfaces, hdrop, hpeer, hdown, hx0, ne_eq, not_false_eq_true, if_true,
      h1, Bool.false_eq_true, if_false]
    have h3 : [(x.ia, x.hop.cEg)] ++ ((firstOf mid last').ia, (firstOf mid last').hop.cIn) ::
        downTrace mid last' = downTrace (x :: mid) last' := by simp [downTrace]
    rw [h3, h2]
    simp [upTrace]

/-- **C02, up segment + down segment joined at a common AS** (no peering): includes the
    child–child shortcut, where both segments are cut at an AS below the core -/
theorem xover_up_down (mac : MacFn) (net : Net) (now src dst : Nat)
    (hWF : WFNet net) (hUp : AllUp net) (hSR : SingleRouter net)
    (eu ed : Edge) (c : Cursor)
    (hud : eu.down = false) (huc : eu.core = false) (hup : eu.peer = none)
    (hdd : ed.down = true) (hdc : ed.core = false) (hdp : ed.peer = none)
    (hJ : Joinable mac net [eu, ed] src dst) (hp : pathOf [eu, ed] = some c)
    (hexp : Unexpired now c) :
    ∃ cf, send mac net now src dst c = .delivered dst (pathIfaces [eu, ed]) cf := by
  obtain ⟨_, _, hval, hjoints, _, hhead, hlast, hnd⟩ := hJ
  obtain ⟨b, top, r, xU, hsU, hcU, haU, hiU⟩ := up_edge_facts mac net eu hud hup (hval eu (by simp))
  obtain ⟨pre, xD, mid, last, hsD, hcD, haD, hiD⟩ := down_edge_facts mac net ed hdd hdp (hval ed (by simp))
  rw [huc] at hcU
  -- the joint
  have hjoint : xU.ia = xD.ia := by
    have hj := hjoints.1
    simp only [Joint, hup, hdp] at hj
    rw [haU, haD] at hj
    rw [List.map_cons, List.map_append, List.map_cons, List.map_nil, getLast?_cons_snoc] at hj
    simpa using hj.1
  -- ASes on the path
  have hases : pathASes [eu, ed] = (top :: r).map (·.ia) ++ (xD :: (mid ++ [last])).map (·.ia) := by
    simp only [pathASes, hup, Option.isSome_none, Bool.false_eq_true, if_false, haU, haD]
    have : (List.map (fun x => x.ia) (top :: (r ++ [xU]))).dropLast = (top :: r).map (·.ia) := by
      rw [show top :: (r ++ [xU]) = (top :: r) ++ [xU] by simp, List.map_append]
      exact List.dropLast_concat
    rw [this]
  rw [hases] at hhead hlast hnd
  have hsrc : src = top.ia := by simp at hhead; exact hhead.symm
  have hdst : dst = last.ia := by
    rw [List.getLast?_append, List.map_cons, List.map_append, List.map_cons, List.map_nil,
      getLast?_cons_snoc] at hlast
    simp at hlast; exact hlast.symm
  have hnd' : ((top :: (r ++ [xU])).map (·.ia) ++ (mid ++ [last]).map (·.ia)).Nodup := by
    have : (top :: (r ++ [xU])).map (·.ia) ++ (mid ++ [last]).map (·.ia) =
        (top :: r).map (·.ia) ++ (xD :: (mid ++ [last])).map (·.ia) := by
      simp [hjoint]
    rw [this]; exact hnd
  -- the packet
  have hc : c = ⟨[], ⟨false, false, updateSegID b (pfx top.hop.mac), eu.seg.ts⟩, [], hopOf top.hop,
      (r ++ [xU]).map (fun e => hopOf e.hop),
      [⟨⟨true, false, extractBeta ed.seg.s0 (sig pre), ed.seg.ts⟩,
        (xD :: (mid ++ [last])).map (fun e => hopOf e.hop)⟩]⟩ := by
    simp [pathOf, segsOf, hsU, hsD, startCursor] at hp
    rw [← hp]; simp
  have hexpU : ∀ e ∈ top :: (r ++ [xU]), expired now eu.seg.ts e.hop.exp = false := by
    intro y hy
    have := hexp ⟨⟨false, false, updateSegID b (pfx top.hop.mac), eu.seg.ts⟩,
      hopOf top.hop :: (r ++ [xU]).map (fun e => hopOf e.hop)⟩
      (by rw [hc]; simp [Cursor.segs, Cursor.curSeg]) (hopOf y.hop)
      (by
        simp only [List.mem_cons] at hy ⊢
        rcases hy with rfl | hy
        · left; rfl
        · right; exact List.mem_map.2 ⟨y, hy, rfl⟩)
    simpa [hopOf] using this
  have hexpD : ∀ e ∈ xD :: (mid ++ [last]), expired now ed.seg.ts e.hop.exp = false := by
    intro y hy
    have := hexp ⟨⟨true, false, extractBeta ed.seg.s0 (sig pre), ed.seg.ts⟩,
      (xD :: (mid ++ [last])).map (fun e => hopOf e.hop)⟩
      (by rw [hc]; simp [Cursor.segs, Cursor.curSeg]) (hopOf y.hop)
      (List.mem_map.2 ⟨y, hy, rfl⟩)
    simpa [hopOf] using this
  obtain ⟨cf, hrun⟩ := up_down_run mac net now src dst eu.seg.ts hWF hUp hSR ed.core ed.seg.ts b top r xU hcU
    (extractBeta ed.seg.s0 (sig pre)) xD mid last hcD hdc hjoint hsrc hdst hnd' hexpU hexpD
    (r.length + mid.length + 7)
  refine ⟨cf, ?_⟩
  -- entry router and fuel
  have hne : r ++ [xU] = firstOf r xU :: (r ++ [xU]).tail := by
    cases r <;> simp [firstOf]
  have hcU' := hcU
  rw [hne] at hcU'
  simp only [ChainUp] at hcU'
  obtain ⟨_, ⟨f1, hf1, _, hf1n, hf1i, _⟩, _⟩ := hcU'
  obtain ⟨_, _, g1, hg1, _, _, _⟩ := hWF _ _ _ hf1
  rw [hf1n, hf1i] at hg1
  have hentry : entryRouter net src c = 0 := by
    rw [hc, hsrc]
    simp [entryRouter, hopOf, hg1, hSR _ _ _ hg1]
  have hfuel : fuelFor c = r.length + mid.length + 7 + 3 + r.length + mid.length := by
    rw [hc]
    simp [fuelFor, toFlat, Cursor.segs, Cursor.curSeg]
    omega
  have hif : pathIfaces [eu, ed] =
      ((top.ia, top.hop.cIn) :: ((firstOf r xU).ia, (firstOf r xU).hop.cEg) :: upTrace r xU) ++
      ((xD.ia, xD.hop.cEg) :: ((firstOf mid last).ia, (firstOf mid last).hop.cIn) ::
        downTrace mid last) := by
    simp [pathIfaces, hiU, hiD]
  rw [hif]
  unfold send
  rw [hentry, hfuel, hc]
  exact hrun

theorem nodup_rev {α} (l : List α) (h : l.Nodup) : l.reverse.Nodup := by
  simpa [List.Nodup, List.pairwise_reverse] using h.imp (fun hab => Ne.symm hab)

/-- the mirror image of a single-edge path is joinable the other way round -/
theorem joinable_flip (mac : MacFn) (net : Net) (e : Edge) (src dst : Nat)
    (hJ : Joinable mac net [e] src dst) :
    Joinable mac net [{ e with down := !e.down }] dst src := by
  obtain ⟨_, _, hval, _, hpeer, hhead, hlast, hnd⟩ := hJ
  have hv := hval e (by simp)
  have hases : pathASes [{ e with down := !e.down }] = (pathASes [e]).reverse := by
    simp only [pathASes, Edge.ases, Edge.used]
    cases e.down <;> simp
  refine ⟨by simp, by simp, ?_, by simp [Joints], ?_, ?_, ?_, ?_⟩
  · intro e' he'
    simp only [List.mem_singleton] at he'
    subst he'
    exact hv
  · intro e' he' hp
    simp only [List.mem_singleton] at he'
    subst he'
    exact hpeer e (by simp) hp
  · rw [hases, List.head?_reverse]; exact hlast
  · rw [hases, List.getLast?_reverse]; exact hhead
  · rw [hases]; exact nodup_rev _ hnd

theorem pathIfaces_flip (e : Edge) :
    pathIfaces [{ e with down := !e.down }] = (pathIfaces [e]).reverse := by
  simp only [pathIfaces, List.map_cons, List.map_nil, List.flatten_cons, List.flatten_nil,
    List.append_nil, edgeIfaces]
  cases e.down <;> (split <;> simp)

end Scion.Net
