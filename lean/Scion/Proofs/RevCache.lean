import Scion.Model.RevCache
/-! Helper lemmas for C31: association-list facts, the well-formedness invariant of reachable
cache states and the refinement relation with the abstract store. -/
namespace Scion.RevCache

theorem lookup_filter_ne (s : State) (k k' : Key) (h : k' ≠ k) :
    lookup (s.filter (fun p => !decide (p.1 = k))) k' = lookup s k' := by
  induction s with
  | nil => rfl
  | cons p rest ih =>
    obtain ⟨a, it⟩ := p
    by_cases hak : a = k
    · subst hak
      have : a ≠ k' := fun e => h e.symm
      simp [List.filter, lookup, this, ih]
    · by_cases hak' : a = k'
      · subst hak'
        simp [List.filter, lookup, hak]
      · simp [List.filter, lookup, hak, hak', ih]

theorem lookup_filter_self (s : State) (k : Key) :
    lookup (s.filter (fun p => !decide (p.1 = k))) k = none := by
  induction s with
  | nil => rfl
  | cons p rest ih =>
    obtain ⟨a, it⟩ := p
    by_cases hak : a = k
    · simp [List.filter, hak, ih]
    · simp [List.filter, lookup, hak, ih]

theorem lookup_set (s : State) (k k' : Key) (it : Item) :
    lookup (set s k it) k' = if k = k' then some it else lookup s k' := by
  unfold set
  by_cases h : k = k'
  · simp [lookup, h]
  · have h' : k' ≠ k := fun e => h e.symm
    simp [lookup, h, lookup_filter_ne s k k' h']

/-- all keys distinct -/
def NoDup (s : State) : Prop := s.Pairwise (fun a b => a.1 ≠ b.1)

theorem lookup_none_of_forall_ne (s : State) (k : Key) (h : ∀ p ∈ s, p.1 ≠ k) :
    lookup s k = none := by
  induction s with
  | nil => rfl
  | cons p rest ih =>
    obtain ⟨a, it⟩ := p
    have ha : a ≠ k := h (a, it) (by simp)
    simp only [lookup, ha, if_false]
    exact ih (fun p hp => h p (by simp [hp]))

theorem lookup_mem (s : State) (k : Key) (it : Item) (h : lookup s k = some it) :
    (k, it) ∈ s := by
  induction s with
  | nil => simp [lookup] at h
  | cons p rest ih =>
    obtain ⟨a, it'⟩ := p
    by_cases ha : a = k
    · simp [lookup, ha] at h; subst h; subst ha; simp
    · simp [lookup, ha] at h; simp [ih h]

/-- filtering on the item commutes with lookup when keys are distinct -/
theorem lookup_filter_item (s : State) (q : Item → Bool) (k : Key) (hs : NoDup s) :
    lookup (s.filter (fun p => q p.2)) k =
      (lookup s k).bind (fun it => if q it then some it else none) := by
  induction s with
  | nil => rfl
  | cons p rest ih =>
    obtain ⟨a, it⟩ := p
    have hrest : NoDup rest := (List.pairwise_cons.mp hs).2
    have hhead := (List.pairwise_cons.mp hs).1
    by_cases ha : a = k
    · subst ha
      have hnone : lookup rest a = none :=
        lookup_none_of_forall_ne rest a (fun p hp => fun e => hhead p hp e.symm)
      cases hq : q it
      · simp [List.filter, hq, lookup, ih hrest, hnone]
      · simp [List.filter, hq, lookup]
    · cases hq : q it
      · simp [List.filter, hq, lookup, ha, ih hrest]
      · simp [List.filter, hq, lookup, ha, ih hrest]

theorem noDup_filter (s : State) (q : Key × Item → Bool) (hs : NoDup s) : NoDup (s.filter q) :=
  List.Pairwise.filter q hs

theorem noDup_set (s : State) (k : Key) (it : Item) (hs : NoDup s) : NoDup (set s k it) := by
  unfold set NoDup
  refine List.pairwise_cons.mpr ⟨?_, noDup_filter s _ hs⟩
  intro p hp
  have := (List.mem_filter.mp hp).2
  simp at this
  exact fun e => this e.symm

/-- invariant of every reachable cache state: distinct keys, every item is filed under its own
    key and the cache-level expiry equals the revocation's own expiry -/
def WF (s : State) : Prop :=
  NoDup s ∧ ∀ p ∈ s, p.1 = p.2.rev.key ∧ p.2.expiration = expMs p.2.rev

theorem wf_empty : WF empty := by
  refine ⟨List.Pairwise.nil, ?_⟩
  intro p hp; cases hp

theorem wf_set (s : State) (now : Nat) (r : Rev) (hs : WF s) (h : ¬ expMs r ≤ now) :
    WF (set s r.key ⟨r, now + (expMs r - now)⟩) := by
  refine ⟨noDup_set s _ _ hs.1, ?_⟩
  intro p hp
  unfold set at hp
  rcases List.mem_cons.mp hp with rfl | hp
  · refine ⟨rfl, ?_⟩
    show now + (expMs r - now) = expMs r
    omega
  · exact hs.2 p (List.mem_filter.mp hp).1

theorem wf_insert (s : State) (now : Nat) (r : Rev) (hs : WF s) : WF (insert s now r).1 := by
  unfold insert
  split
  · exact hs
  · rename_i h
    dsimp only
    split
    · exact wf_set s now r hs h
    · split
      · exact wf_set s now r hs h
      · exact hs

theorem wf_deleteExpired (s : State) (now : Nat) (hs : WF s) : WF (deleteExpired s now).1 := by
  refine ⟨noDup_filter s _ hs.1, ?_⟩
  intro p hp
  exact hs.2 p (List.mem_filter.mp hp).1

theorem wf_step (s : State) (op : Op) (hs : WF s) : WF (step s op).1 := by
  cases op with
  | insert now r => exact wf_insert s now r hs
  | get now k => exact hs
  | delExp now => exact wf_deleteExpired s now hs
  | getAll now => exact hs

theorem wf_run (ops : List Op) (s : State) (hs : WF s) : WF (run s ops).1 := by
  induction ops generalizing s with
  | nil => exact hs
  | cons op rest ih => exact ih _ (wf_step s op hs)

/-- what a lookup of a well-formed state returns is filed under the key asked for and expires
    when the revocation says -/
theorem wf_lookup (s : State) (k : Key) (it : Item) (hs : WF s) (h : lookup s k = some it) :
    it.rev.key = k ∧ it.expiration = expMs it.rev := by
  have := hs.2 (k, it) (lookup_mem s k it h)
  exact ⟨this.1.symm, this.2⟩

theorem getLive_set (s : State) (k k' : Key) (it : Item) (t : Nat) :
    getLive (set s k it) t k' =
      if k = k' then (if it.expired t then none else some it.rev) else getLive s t k' := by
  unfold getLive
  rw [lookup_set]
  by_cases h : k = k' <;> simp [h]

theorem getLive_deleteExpired (s : State) (now t : Nat) (k : Key) (hs : WF s) (h : now ≤ t) :
    getLive (deleteExpired s now).1 t k = getLive s t k := by
  unfold getLive deleteExpired
  rw [lookup_filter_item s (fun it => !it.expired now) k hs.1]
  cases hl : lookup s k with
  | none => rfl
  | some it =>
    simp only [Option.bind]
    by_cases he : it.expired now = true
    · have : it.expired t = true := by
        simp only [Item.expired, decide_eq_true_eq] at *
        omega
      simp [he, this]
    · simp [he]

/-- refinement relation between the cache and the abstract store from time `lo` on -/
def Refines (lo : Nat) (s : State) (σ : Spec) : Prop :=
  WF s ∧ ∀ k t, lo ≤ t → getLive s t k = σ.get t k

theorem refines_empty : Refines 0 empty (fun _ => none) := by
  refine ⟨wf_empty, ?_⟩
  intro k t _
  rfl

theorem refines_weaken {lo lo' : Nat} {s : State} {σ : Spec} (h : Refines lo s σ)
    (hlo : lo ≤ lo') : Refines lo' s σ :=
  ⟨h.1, fun k t ht => h.2 k t (Nat.le_trans hlo ht)⟩

theorem refines_put (lo now : Nat) (s : State) (σ : Spec) (r : Rev) (h : Refines lo s σ)
    (hlo : lo ≤ now) (hx : ¬ expMs r ≤ now) :
    Refines now (set s r.key ⟨r, now + (expMs r - now)⟩) (σ.put r) := by
  refine ⟨wf_set s now r h.1 hx, ?_⟩
  intro k t ht
  rw [getLive_set]
  unfold Spec.get Spec.put
  by_cases hk : r.key = k
  · subst hk
    simp only [if_true, Option.bind, liveAt, Item.expired]
    by_cases hexp : t ≤ expMs r
    · have : ¬ (t > now + (expMs r - now)) := by omega
      simp [this, hexp]
    · have : t > now + (expMs r - now) := by omega
      simp [this, hexp]
  · have hk' : ¬ k = r.key := fun e => hk e.symm
    simp only [hk, hk', if_false]
    exact h.2 k t (Nat.le_trans hlo ht)

theorem accepts_eq (σ : Spec) (now : Nat) (r : Rev) :
    σ.accepts now r = true ↔
      now < expMs r ∧ (σ.get now r.key = none ∨ ∃ v, σ.get now r.key = some v ∧ v.ts < r.ts) := by
  unfold Spec.accepts
  cases h : σ.get now r.key with
  | none => simp
  | some v => simp

/-- one step preserves the refinement and the observable answers agree -/
theorem refines_step (lo : Nat) (s : State) (σ : Spec) (op : Op) (h : Refines lo s σ)
    (hlo : lo ≤ op.time) :
    Refines op.time (step s op).1 (σ.step op).1 ∧
      ∀ o, (σ.step op).2 = some o → (step s op).2 = o := by
  cases op with
  | get now k =>
    refine ⟨refines_weaken h hlo, ?_⟩
    intro o ho
    simp only [Spec.step, Option.some.injEq] at ho
    subst ho
    simp only [step]
    rw [h.2 k now hlo]
  | delExp now =>
    refine ⟨⟨wf_deleteExpired s now h.1, ?_⟩, ?_⟩
    · intro k t ht
      simp only [step, Spec.step]
      rw [getLive_deleteExpired s now t k h.1 ht]
      exact h.2 k t (Nat.le_trans hlo ht)
    · intro o ho; simp [Spec.step] at ho
  | getAll now =>
    refine ⟨refines_weaken h hlo, ?_⟩
    intro o ho; simp [Spec.step] at ho
  | insert now r =>
    have hg : getLive s now r.key = σ.get now r.key := h.2 r.key now hlo
    simp only [Op.time] at hlo ⊢
    simp only [step, Spec.step, insert, Spec.accepts]
    by_cases hx : expMs r ≤ now
    · have hx' : ¬ now < expMs r := by omega
      simp only [hx, hx', if_true, decide_false, Bool.false_and, Bool.false_eq_true, if_false]
      exact ⟨refines_weaken h hlo, by intro o ho; cases ho; rfl⟩
    · have hx' : now < expMs r := by omega
      simp only [hx, hx', if_false, decide_true, Bool.true_and]
      rw [hg]
      cases hv : σ.get now r.key with
      | none =>
        simp only [if_true]
        exact ⟨refines_put lo now s σ r h hlo hx, by intro o ho; cases ho; rfl⟩
      | some v =>
        simp only [tsMs]
        by_cases hts : v.ts < r.ts
        · have : v.ts * 1000 < r.ts * 1000 := by omega
          simp only [hts, this, decide_true, if_true]
          exact ⟨refines_put lo now s σ r h hlo hx, by intro o ho; cases ho; rfl⟩
        · have : ¬ v.ts * 1000 < r.ts * 1000 := by omega
          simp only [hts, this, decide_false, if_false, Bool.false_eq_true]
          exact ⟨refines_weaken h hlo, by intro o ho; cases ho; rfl⟩

/-- answers agree position by position wherever the abstract store has an observable answer -/
def Agree : List Out → List (Option Out) → Prop
  | [], [] => True
  | _ :: os, none :: ps => Agree os ps
  | o :: os, some p :: ps => o = p ∧ Agree os ps
  | _, _ => False

theorem refines_run (ops : List Op) (lo : Nat) (s : State) (σ : Spec) (h : Refines lo s σ)
    (hm : Mono lo ops) :
    Agree (run s ops).2 (σ.run ops).2 ∧
      ∃ hi, lo ≤ hi ∧ Refines hi (run s ops).1 (σ.run ops).1 ∧
        (∀ t, Mono hi t → Mono lo (ops ++ t)) := by
  induction ops generalizing lo s σ with
  | nil =>
    exact ⟨trivial, lo, Nat.le_refl _, h, fun t ht => ht⟩
  | cons op rest ih =>
    obtain ⟨hlo, hrest⟩ := hm
    obtain ⟨hr, hout⟩ := refines_step lo s σ op h hlo
    obtain ⟨hag, hi, hhi, hR, hM⟩ := ih op.time _ _ hr hrest
    refine ⟨?_, hi, Nat.le_trans hlo hhi, hR, ?_⟩
    · simp only [run, Spec.run]
      cases hp : (σ.step op).2 with
      | none => exact hag
      | some p => exact ⟨hout p hp, hag⟩
    · intro t ht
      exact ⟨hlo, hM t ht⟩

/-- with distinct keys, every stored pair is what a lookup of its key finds -/
theorem lookup_of_mem (s : State) (p : Key × Item) (hs : NoDup s) (hp : p ∈ s) :
    lookup s p.1 = some p.2 := by
  induction s with
  | nil => cases hp
  | cons q rest ih =>
    obtain ⟨a, it⟩ := q
    have hs' := List.pairwise_cons.mp hs
    rcases List.mem_cons.mp hp with rfl | hp'
    · simp [lookup]
    · have hne : a ≠ p.1 := hs'.1 p hp'
      simp only [lookup, hne, if_false]
      exact ih hs'.2 hp'

end Scion.RevCache
