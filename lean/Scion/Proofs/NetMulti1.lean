import Scion.Proofs.NetSibling
/-! Several border routers per AS, router level, arbitrary packets: the step of the single router of
the *collapsed* network (all interfaces owned by router 0) is reproduced by the router owning the
ingress interface, followed — when another router owns the egress interface — by that router
processing the packet handed over the sibling link.  Core Lean only. -/
namespace Scion.Net
open Scion.SegID (updateSegID)

/-- the same interface, owned by router 0 -/
def collapseIf (f : Iface) : Iface := { f with owner := 0 }

/-- the network with every AS's interfaces moved to a single border router -/
def collapse (net : Net) : Net := fun a => { net a with ifaces := (net a).ifaces.map collapseIf }

theorem find_collapse (l : List Iface) (e : Nat) :
    (l.map collapseIf).find? (·.id == e) = (l.find? (·.id == e)).map collapseIf := by
  induction l with
  | nil => rfl
  | cons x xs ih =>
    simp only [List.map_cons, List.find?_cons]
    have : (collapseIf x).id = x.id := rfl
    rw [this]
    cases x.id == e <;> simp [ih]

theorem collapse_iface (net : Net) (a e : Nat) :
    (collapse net a).iface e = ((net a).iface e).map collapseIf := by
  simp only [collapse, ASCfg.iface]
  exact find_collapse _ _

theorem collapse_iface_some (net : Net) (a e : Nat) (f : Iface) (h : (net a).iface e = some f) :
    (collapse net a).iface e = some (collapseIf f) := by
  rw [collapse_iface, h]; rfl

theorem collapse_iface_inv (net : Net) (a e : Nat) (f0 : Iface)
    (h : (collapse net a).iface e = some f0) :
    ∃ f, (net a).iface e = some f ∧ f0 = collapseIf f := by
  rw [collapse_iface] at h
  cases hf : (net a).iface e with
  | none => rw [hf] at h; cases h
  | some f => rw [hf] at h; cases h; exact ⟨f, rfl, rfl⟩

theorem collapse_key (net : Net) (a : Nat) : (collapse net a).key = (net a).key := rfl

/-- the router of the collapsed network -/
theorem cfgOf_collapse (net : Net) (a : Nat) :
    cfgOf (collapse net) a = ⟨(net a).key, 0, (net a).ifaces.map collapseIf⟩ := rfl

theorem cfg0_iface (net : Net) (a e : Nat) :
    (cfgOf (collapse net) a).iface e = ((net a).iface e).map collapseIf := by
  simp only [cfgOf_collapse, RCfg.iface, ASCfg.iface]
  exact find_collapse _ _

theorem cfgR_iface (net : Net) (a r e : Nat) : (cfgR net a r).iface e = (net a).iface e := rfl

theorem ingressLT_collapse (net : Net) (a r i : Nat) :
    ingressLT (cfgOf (collapse net) a) i = ingressLT (cfgR net a r) i := by
  simp only [ingressLT, cfg0_iface, cfgR_iface]
  cases (net a).iface i <;> rfl

/-! ### Ingress stage -/

/-- for a packet from an external link or from a host the ingress stage does not look at the
    interface table -/
theorem stIngress_cfg (mac : MacFn) (cfg1 cfg2 : RCfg) (now : Nat) (arr : Arrival) (sl dl : Bool)
    (c : Cursor) (hk : cfg1.key = cfg2.key) (harr : ∀ k, arr ≠ .sibling k) :
    stIngress mac cfg1 now arr sl dl c = stIngress mac cfg2 now arr sl dl c := by
  unfold stIngress
  split
  · rfl
  · split
    · rfl
    · unfold stChecks
      rw [hk]
      cases arr with
      | sibling k => exact absurd rfl (harr k)
      | host => rfl
      | ext i => rfl

theorem stXover_cfg (mac : MacFn) (cfg1 cfg2 : RCfg) (now : Nat) (s : StIn) (hk : cfg1.key = cfg2.key) :
    stXover mac cfg1 now s = stXover mac cfg2 now s := by
  unfold stXover
  rw [hk]

/-! ### Egress stage -/

/-- the egress stage looks at the egress interface's link type and state and at whether this
    router owns it, at nothing else -/
theorem stEgress_congr (cfg1 cfg2 : RCfg) (arr : Arrival) (x : StX) (eg1 eg2 : Iface)
    (h1 : egressIface cfg1 (egressOf x.c) = some eg1) (h2 : egressIface cfg2 (egressOf x.c) = some eg2)
    (hlt : eg1.lt = eg2.lt) (hup : eg1.up = eg2.up)
    (hown : (eg1.owner == cfg1.self) = (eg2.owner == cfg2.self))
    (hin : ingressLT cfg1 arr.ifid = ingressLT cfg2 arr.ifid) :
    stEgress cfg1 arr x = stEgress cfg2 arr x := by
  unfold stEgress
  simp only [h1, h2, hlt, hup, hown, hin]

/-- everything a forwarding decision of the egress stage rests on -/
theorem stEgress_forward_inv (cfg : RCfg) (arr : Arrival) (x : StX) (e : Nat) (c' : Cursor)
    (h : stEgress cfg arr x = .forward e c') :
    e = egressOf x.c ∧ ∃ eg, egressIface cfg e = some eg ∧
      (arr.ifid == 0 && !(eg.owner == cfg.self)) = false ∧
      (!x.xover && arr.ifid != 0 && !ltSame (ingressLT cfg arr.ifid) eg.lt) = false ∧
      (x.xover && !ltXover (ingressLT cfg arr.ifid) eg.lt) = false ∧
      ((if x.c.info.consDir then x.c.cur.egAlert else x.c.cur.inAlert) && eg.owner == cfg.self) = false ∧
      (eg.owner == cfg.self && !eg.up) = false ∧
      ((eg.owner == cfg.self) = true → (egUpd x.c x.peering).incPath = some c') ∧
      ((eg.owner == cfg.self) = false → c' = x.c) := by
  unfold stEgress at h
  dsimp only at h
  repeat' split at h
  all_goals (first | (cases h; done) | skip)
  all_goals (cases h)
  all_goals (refine ⟨rfl, _, by assumption, ?_, ?_, ?_, ?_, ?_, ?_, ?_⟩ <;> simp_all)

end Scion.Net
