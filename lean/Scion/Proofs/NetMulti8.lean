import Scion.Proofs.NetMulti7
import Scion.Proofs.NetScmp
/-! Several border routers per AS, stopped packets: an SCMP "expired hop" (4/52) or "bad MAC" (4/51)
decision is taken before the egress stage, hence identically by the router owning the ingress
interface, whichever router owns the egress interface; runs ending that way transfer from the
collapsed network to the network as it is.  Core Lean only. -/
namespace Scion.Net
open Scion.SegID (updateSegID)

theorem routerStep_ingress_err' (mac : MacFn) (cfg : RCfg) (now : Nat) (arr : Arrival) (sl dl : Bool)
    (c : Cursor) (o : Out) (h : stIngress mac cfg now arr sl dl c = .error o) :
    routerStep mac cfg now arr sl dl c = o := by
  unfold routerStep; rw [h]

theorem routerStep_xover_err (mac : MacFn) (cfg : RCfg) (now : Nat) (arr : Arrival) (sl : Bool)
    (c : Cursor) (s : StIn) (o : Out) (hs : stIngress mac cfg now arr sl false c = .ok s)
    (hx : stXover mac cfg now s = .error o) :
    routerStep mac cfg now arr sl false c = o := by
  unfold routerStep
  rw [hs]
  simp only [Bool.false_eq_true, if_false]
  rw [hx]

/-- the egress stage never answers "bad MAC" or "expired hop" -/
theorem stEgress_not_mac_exp (cfg : RCfg) (arr : Arrival) (x : StX) (k e : Nat) (c1 : Cursor)
    (hk : k = 51 ∨ k = 52) : stEgress cfg arr x ≠ .slow 4 k e c1 := by
  intro h
  unfold stEgress at h
  dsimp only at h
  repeat' split at h
  all_goals (first | (cases h; done) | skip)
  all_goals (simp only [Out.slow.injEq] at h)
  all_goals (first | omega | (rcases hk with rfl | rfl <;> omega))

/-- **SCMP 4/51 and 4/52 with several border routers per AS**: the decision of the collapsed
    network's router is the decision of whichever real router receives the packet from outside
    (or from a host) -/
theorem step_sim_stopped (mac : MacFn) (net : Net) (now a r : Nat) (arr : Arrival) (sl dl : Bool)
    (c : Cursor) (k e : Nat) (c1 : Cursor) (harr : ∀ k', arr ≠ .sibling k') (hk : k = 51 ∨ k = 52)
    (h : routerStep mac (cfgOf (collapse net) a) now arr sl dl c = .slow 4 k e c1) :
    routerStep mac (cfgR net a r) now arr sl dl c = .slow 4 k e c1 := by
  have hcfg := stIngress_cfg mac (cfgR net a r) (cfgOf (collapse net) a) now arr sl dl c rfl harr
  cases hsi : stIngress mac (cfgOf (collapse net) a) now arr sl dl c with
  | error o =>
    rw [routerStep_ingress_err' _ _ _ _ _ _ _ _ hsi] at h
    rw [hsi] at hcfg
    rw [routerStep_ingress_err' _ _ _ _ _ _ _ _ hcfg]; exact h
  | ok s =>
    rw [hsi] at hcfg
    cases dl with
    | true =>
      rw [routerStep_deliver_of _ _ _ _ _ _ _ hsi] at h; cases h
    | false =>
      have hxc := stXover_cfg mac (cfgR net a r) (cfgOf (collapse net) a) now s rfl
      cases hx : stXover mac (cfgOf (collapse net) a) now s with
      | error o =>
        rw [routerStep_xover_err _ _ _ _ _ _ _ _ hsi hx] at h
        rw [hx] at hxc
        rw [routerStep_xover_err _ _ _ _ _ _ _ _ hcfg hxc]; exact h
      | ok x =>
        rw [routerStep_of_stages _ _ _ _ _ _ _ _ hsi hx] at h
        exact absurd h (stEgress_not_mac_exp _ _ _ _ _ _ hk)

section
variable (mac : MacFn) (net : Net) (now src dst : Nat)

/-- what a run that ended with an SCMP error did with its fuel -/
theorem run_slow_inv (fuel a r : Nat) (arr : Arrival) (c : Cursor) (tr : List (Nat × Nat))
    (a' r' : Nat) (arr' : Arrival) (t k e0 : Nat) (c1 : Cursor) (tr' : List (Nat × Nat))
    (h : run mac net now src dst (fuel + 1) a r arr c tr = .stopped a' r' arr' (.slow t k e0 c1) tr') :
    (routerStep mac ⟨(net a).key, r, (net a).ifaces⟩ now arr (a == src) (a == dst) c = .slow t k e0 c1 ∧
      a' = a ∧ r' = r ∧ arr' = arr ∧ tr' = tr) ∨
    (∃ e c' f, routerStep mac ⟨(net a).key, r, (net a).ifaces⟩ now arr (a == src) (a == dst) c = .forward e c' ∧
      (net a).iface e = some f ∧
      ((f.owner = r ∧ ∃ g, (net f.nbr).iface f.nbrIf = some g ∧
          run mac net now src dst fuel f.nbr g.owner (.ext f.nbrIf) c' (tr ++ [(a, e), (f.nbr, f.nbrIf)]) =
            .stopped a' r' arr' (.slow t k e0 c1) tr') ∨
       (f.owner ≠ r ∧ run mac net now src dst fuel a f.owner (.sibling r) c' tr =
            .stopped a' r' arr' (.slow t k e0 c1) tr'))) := by
  simp only [run] at h
  cases hstep : routerStep mac ⟨(net a).key, r, (net a).ifaces⟩ now arr (a == src) (a == dst) c with
  | deliver c' => rw [hstep] at h; cases h
  | forward e c' =>
    rw [hstep] at h
    simp only at h
    cases hf : (net a).iface e with
    | none => rw [hf] at h; cases h
    | some f =>
      rw [hf] at h
      simp only at h
      by_cases ho : f.owner = r
      · simp only [ho, beq_self_eq_true, if_true] at h
        cases hg : (net f.nbr).iface f.nbrIf with
        | none => rw [hg] at h; cases h
        | some g =>
          rw [hg] at h
          exact Or.inr ⟨e, c', f, rfl, hf, Or.inl ⟨ho, g, hg, h⟩⟩
      · have : (f.owner == r) = false := by simp [ho]
        simp only [this, Bool.false_eq_true, if_false] at h
        exact Or.inr ⟨e, c', f, rfl, hf, Or.inr ⟨ho, h⟩⟩
  | slow t2 k2 e2 c2 =>
    rw [hstep] at h
    simp only [Result.stopped.injEq, Out.slow.injEq] at h
    obtain ⟨h1, h2, h3, ⟨h4, h5, h6, h7⟩, h8⟩ := h
    subst h4 h5 h6 h7
    exact Or.inl ⟨rfl, h1.symm, h2.symm, h3.symm, h8.symm⟩
  | alert b e c' => rw [hstep] at h; cases h
  | drop => rw [hstep] at h; cases h

/-- more fuel does not change a run that ended with an SCMP error -/
theorem run_mono_slow : ∀ (n a r : Nat) (arr : Arrival) (c : Cursor) (tr : List (Nat × Nat))
    (a' r' : Nat) (arr' : Arrival) (t k e0 : Nat) (c1 : Cursor) (tr' : List (Nat × Nat)),
    run mac net now src dst n a r arr c tr = .stopped a' r' arr' (.slow t k e0 c1) tr' →
    ∀ j, run mac net now src dst (n + j) a r arr c tr = .stopped a' r' arr' (.slow t k e0 c1) tr' := by
  intro n
  induction n with
  | zero => intro a r arr c tr a' r' arr' t k e0 c1 tr' h; simp [run] at h
  | succ n ih =>
    intro a r arr c tr a' r' arr' t k e0 c1 tr' h j
    rw [show n + 1 + j = (n + j) + 1 by omega]
    rcases run_slow_inv mac net now src dst n a r arr c tr a' r' arr' t k e0 c1 tr' h with
      ⟨hst, h1, h2, h3, h4⟩ | ⟨e, c', f, hst, hf, ⟨ho, g, hg, hrun⟩ | ⟨ho, hrun⟩⟩
    · rw [h1, h2, h3, h4]
      exact run_stopped_slow mac net now src dst (n + j) a r arr c c1 tr t k e0 hst
    · rw [run_forward_ext mac net now src dst (n + j) a r arr c c' tr e f g hst hf ho hg]
      exact ih _ _ _ _ _ _ _ _ _ _ _ _ _ hrun j
    · rw [run_forward_sib mac net now src dst (n + j) a r arr c c' tr e f hst hf ho]
      exact ih _ _ _ _ _ _ _ _ _ _ _ _ _ hrun j

/-- **a run ending with SCMP 4/51 or 4/52, several border routers per AS**: the network as it is
    stops the packet at the same AS, on arrival over the same link, with the same SCMP error on the
    same packet and the same trace as the network with one router per AS -/
theorem run_sim_slow (hWF : WFNet net) (k : Nat) (hk : k = 51 ∨ k = 52) :
    ∀ (n a i : Nat) (c : Cursor) (tr : List (Nat × Nat)) (fi : Iface)
      (a' : Nat) (arr' : Arrival) (e0 : Nat) (c1 : Cursor) (tr' : List (Nat × Nat)),
    (net a).iface i = some fi → i ≠ 0 → Uniform c → ArrOK c →
    run mac (collapse net) now src dst n a 0 (.ext i) c tr = .stopped a' 0 arr' (.slow 4 k e0 c1) tr' →
    ∃ r', run mac net now src dst (2 * remaining c) a fi.owner (.ext i) c tr =
      .stopped a' r' arr' (.slow 4 k e0 c1) tr' := by
  intro n
  induction n with
  | zero => intro a i c tr fi a' arr' e0 c1 tr' _ _ _ _ h; simp [run] at h
  | succ n ih =>
    intro a i c tr fi a' arr' e0 c1 tr' hfi hi0 hU hA h
    have hpos := remaining_pos c
    rcases run_slow_inv mac (collapse net) now src dst n a 0 (.ext i) c tr a' 0 arr' 4 k e0 c1 tr' h with
      ⟨hst, h1, _, h3, h4⟩ | ⟨e, c', f0, hst, hf0, ⟨_, g0, hg0, hrun⟩ | ⟨ho, _⟩⟩
    · have := step_sim_stopped mac net now a fi.owner (.ext i) (a == src) (a == dst) c k e0 c1
        (by intro k' hk'; cases hk') hk hst
      rw [show 2 * remaining c = (2 * remaining c - 1) + 1 by omega, h1, h3, h4]
      exact ⟨fi.owner, run_stopped_slow mac net now src dst _ a fi.owner (.ext i) c c1 tr 4 k e0 this⟩
    · obtain ⟨hdl, f, hf, he0, hcase, hU', hA', hrem⟩ := step_sim_ext mac net now a i (a == src) (a == dst)
        c e c' fi hfi hi0 hU hA hst
      have hf0' := collapse_iface_some net a e f hf
      rw [hf0'] at hf0
      cases hf0
      obtain ⟨_, _, g, hg, _, _, _⟩ := hWF a e f hf
      have hg0' := collapse_iface_some net f.nbr f.nbrIf g hg
      have hnb : (collapseIf f).nbr = f.nbr := rfl
      have hni : (collapseIf f).nbrIf = f.nbrIf := rfl
      rw [hnb, hni] at hg0 hrun
      rw [hg0'] at hg0
      cases hg0
      have hn0 : f.nbrIf ≠ 0 := (hWF f.nbr f.nbrIf g hg).1
      have hgo : (collapseIf g).owner = 0 := rfl
      rw [hgo] at hrun
      obtain ⟨r', hih⟩ := ih f.nbr f.nbrIf c' _ g a' arr' e0 c1 tr' hg hn0 hU' hA' hrun
      refine ⟨r', ?_⟩
      rcases hcase with ⟨hown, hstep⟩ | ⟨hown, cm, hstep1, hstep2⟩
      · rw [← hdl] at hstep
        obtain ⟨j, hj⟩ : ∃ j, 2 * remaining c = (2 * remaining c' + j) + 1 := ⟨2 * remaining c - 2 * remaining c' - 1, by omega⟩
        rw [hj, run_forward_ext mac net now src dst _ a fi.owner (.ext i) c c' tr e f g hstep hf hown hg]
        exact run_mono_slow mac net now src dst _ _ _ _ _ _ _ _ _ _ _ _ _ _ hih j
      · rw [← hdl] at hstep1 hstep2
        obtain ⟨j, hj⟩ : ∃ j, 2 * remaining c = ((2 * remaining c' + j) + 1) + 1 := ⟨2 * remaining c - 2 * remaining c' - 2, by omega⟩
        rw [hj, run_forward_sib mac net now src dst _ a fi.owner (.ext i) c cm tr e f hstep1 hf hown,
          run_forward_ext mac net now src dst _ a f.owner (.sibling fi.owner) cm c' tr e f g hstep2 hf rfl hg]
        exact run_mono_slow mac net now src dst _ _ _ _ _ _ _ _ _ _ _ _ _ _ hih j
    · exfalso
      obtain ⟨f, _, rfl⟩ := collapse_iface_inv net a e f0 hf0
      exact ho rfl

end

end Scion.Net
