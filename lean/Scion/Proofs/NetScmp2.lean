import Scion.Proofs.NetTamper
import Scion.Proofs.NetMirror
import Scion.Proofs.NetScmp
/-! C10, run level, direction-generic: an expired hop field at any transit AS of a single-segment
path; the SCMP reply travels back to the sender.  Core Lean only. -/
namespace Scion.Net
open Scion.SegID (updateSegID extractBeta xorAll)

section
variable (mac : MacFn) (net : Net) (now src dst : Nat) (core cd : Bool) (ts : Nat)
variable (hUp : AllUp net) (hSR : SingleRouter net)
include hUp hSR

/-- the rest of a single (last) segment with an arbitrary record of hops already passed -/
theorem fl_tail_run (prevE : ASE) (mid : List ASE) (last : ASE) (seg : Nat)
    (hFL : FL mac net core cd ts seg (prevE :: (mid ++ [last])))
    (hdst : dst = last.ia) (hsd : src ≠ dst)
    (hmid : ∀ e ∈ mid, e.ia ≠ src ∧ e.ia ≠ dst ∧ expired now ts e.hop.exp = false)
    (hexpl : expired now ts last.hop.exp = false)
    (done : List Hop) (hdone : done ≠ []) (fuel : Nat) (tr0 : List (Nat × Nat)) :
    ∃ cf, run mac net now src dst (fuel + 1 + mid.length) (firstOf mid last).ia 0
        (.ext (inF cd (firstOf mid last)))
        (mkCur [] ⟨cd, false, updateSegID seg (pfx prevE.hop.mac), ts⟩ done
          ((mid.map fun e => hopOf e.hop) ++ [hopOf last.hop]) []) tr0 =
      .delivered dst (tr0 ++ fTrace cd mid last) cf := by
  have hT := fl_transits mac net now src dst false core cd ts hUp hSR mid prevE last seg hFL hmid
  have hrun := run_transits hT [] [] (by simp) (by simp) (by simp) done (hopOf last.hop) [] (fuel + 1) tr0
    (by simp) (by have := List.length_pos_iff.mpr hdone; simp; omega)
  simp only [List.length_map] at hrun
  rw [hrun]
  obtain ⟨hml, hin0, _⟩ := fl_last mac net core cd ts mid prevE last seg hFL
  have hstep := last_step mac net now src dst cd false false ts
    (extractBeta (updateSegID seg (pfx prevE.hop.mac)) (sig mid)) (inF cd last) (hopOf last.hop) []
    (done ++ mid.map fun e => hopOf e.hop) (by simp) (by intro _; cases done <;> simp_all)
    (by simp [determinePeer]) hsd hin0 (inSide_hopOf cd last).symm
    (by rw [lastSeg_hopOf, hdst]; exact macOk_of_macAt mac net ts _ last cd false hml)
    (by simpa [hopOf] using hexpl) rfl rfl
  rw [hdst] at hstep ⊢
  simp only [mkCur]
  rw [run_deliver mac net now src last.ia fuel last.ia 0 _ _ _ _ hstep]
  exact ⟨_, rfl⟩

end

section
variable (mac : MacFn) (net : Net) (now src dst : Nat) (core cd : Bool) (ts : Nat)
variable (hUp : AllUp net) (hSR : SingleRouter net)
include hUp hSR

/-- **C10, an SCMP error raised by the ingress checks at any transit or final AS of a
    single-segment path, either direction.**  Forwarding order: `e0` (source), `m1`, `ek`, then
    whatever follows (`tlh`); `h'` is the hop field the packet carries for `ek`.  If the router of
    `ek` answers with an SCMP error `t/k` built on the packet as updated at ingress, the reply is
    delivered in the source AS. -/
theorem slow_reply_run (seg0 : Nat) (e0 : ASE) (m1 : List ASE) (ek : ASE) (h' : Hop) (t k : Nat)
    (tlh : List Hop)
    (hFL : FL mac net core cd ts seg0 (e0 :: (m1 ++ [ek])))
    (hsrc : src = e0.ia) (hsd : src ≠ dst)
    (hnd : ((e0 :: (m1 ++ [ek])).map (·.ia)).Nodup)
    (hmidd : ∀ e ∈ m1, e.ia ≠ dst)
    (hexpU : ∀ e ∈ e0 :: m1, expired now ts e.hop.exp = false)
    (hstop : routerStep mac (cfgOf net ek.ia) now (.ext (inF cd ek)) (ek.ia == src) (ek.ia == dst)
        ⟨[], ⟨cd, false, extractBeta (updateSegID seg0 (pfx e0.hop.mac)) (sig m1), ts⟩,
          hopOf e0.hop :: m1.map (fun e => hopOf e.hop), h', tlh, []⟩ =
      .slow t k 0 ⟨[], ⟨cd, false, usedSeg cd (extractBeta (updateSegID seg0 (pfx e0.hop.mac)) (sig m1)) h', ts⟩,
          hopOf e0.hop :: m1.map (fun e => hopOf e.hop), h', tlh, []⟩) (fuel : Nat) :
    ∃ tr c1 rc trr cr,
      run mac net now src dst (fuel + 2 + m1.length) src 0 .host
        ⟨[], ⟨cd, false, usedAt cd seg0 e0, ts⟩, [], hopOf e0.hop,
          (m1.map fun e => hopOf e.hop) ++ h' :: tlh, []⟩ [] =
        .stopped ek.ia 0 (.ext (inF cd ek)) (.slow t k 0 c1) tr ∧
      replyOf (.slow t k 0 c1) (.ext (inF cd ek)) = some rc ∧
      followReply mac net now src ek.ia 0 (.ext (inF cd ek)) rc = .delivered src trr cr := by
  obtain ⟨h0k, hmid1⟩ := nd_facts e0 m1 ek hnd
  -- forward to the AS of ek
  have hpre := segment_prefix_run mac net now src dst core cd ts hUp hSR seg0 e0 m1 ek
    h' tlh hFL hsrc hsd
    (fun e he => ⟨by rw [hsrc]; exact (hmid1 e he).1, hmidd e he, hexpU e (by simp [he])⟩)
    (hexpU e0 (by simp)) (fuel + 1)
  rw [show fuel + 2 + m1.length = fuel + 1 + 1 + m1.length by omega, hpre]
  obtain ⟨_, hin0, _⟩ := fl_last mac net core cd ts m1 e0 ek seg0 hFL
  rw [run_stopped_slow mac net now src dst fuel ek.ia 0 _ _ _ _ t k 0 hstop]
  -- the reply
  have hrl : (m1.map fun e => hopOf e.hop).reverse ++ [hopOf e0.hop] ≠ [] := by simp
  have hR : (if (!cd) = true then
        updateSegID (usedSeg cd (extractBeta (updateSegID seg0 (pfx e0.hop.mac)) (sig m1))
          h') (pfx h'.mac)
      else usedSeg cd (extractBeta (updateSegID seg0 (pfx e0.hop.mac)) (sig m1))
          h') =
      extractBeta (updateSegID seg0 (pfx e0.hop.mac)) (sig m1) := by
    cases cd <;> simp [usedSeg, updateSegID, Scion.SegID.xor_cancel]
  have hreply : replyOf (.slow t k 0 ⟨[], ⟨cd, false,
          usedSeg cd (extractBeta (updateSegID seg0 (pfx e0.hop.mac)) (sig m1))
            h', ts⟩,
        hopOf e0.hop :: m1.map (fun e => hopOf e.hop), h', tlh, []⟩)
        (.ext (inF cd ek)) =
      some (mkCur [] ⟨!cd, false, extractBeta (updateSegID seg0 (pfx e0.hop.mac)) (sig m1), ts⟩
        (tlh.reverse ++ [h'])
        ((m1.reverse.map fun e => hopOf e.hop) ++ [hopOf e0.hop]) []) := by
    have hinc := incPath_mkCur [] ⟨!cd, false, extractBeta (updateSegID seg0 (pfx e0.hop.mac)) (sig m1), ts⟩
      tlh.reverse h'
      ((m1.map fun e => hopOf e.hop).reverse ++ [hopOf e0.hop]) [] hrl
    rw [← List.map_reverse] at hinc
    rw [← hinc]
    simp only [replyOf, scmpPrepare, reverseCursor, determinePeer, flipInfo, Cursor.isXover,
      List.reverse_nil, List.map_nil, List.isEmpty_nil, Bool.not_true, Bool.and_false,
      Bool.false_eq_true, if_false, Bool.not_false, if_true, egUpd, Bool.and_self, Arrival.ifid,
      List.reverse_cons, hin0, bne_iff_ne, ne_eq, not_false_eq_true, decide_true, Bool.and_true]
    cases cd <;> simp [usedSeg, updateSegID, Scion.SegID.xor_cancel, List.map_reverse]
  -- the way back: the same segment read from ek, in the opposite direction
  have hFLm := fl_mirror mac net core cd ts _ seg0 hFL
  have hrev : (e0 :: (m1 ++ [ek])).reverse = ek :: (m1.reverse ++ [e0]) := by simp
  rw [hrev] at hFLm
  have hsegm : updateSegID (extractBeta seg0 (sig (e0 :: (m1 ++ [ek])))) (pfx ek.hop.mac) =
      extractBeta (updateSegID seg0 (pfx e0.hop.mac)) (sig m1) := by
    have : extractBeta seg0 (sig (e0 :: (m1 ++ [ek]))) =
        updateSegID (extractBeta (updateSegID seg0 (pfx e0.hop.mac)) (sig m1)) (pfx ek.hop.mac) := by
      simp [sig, extractBeta, List.foldl_append]
    rw [this]; simp [updateSegID, Scion.SegID.xor_cancel]
  have hne : m1.reverse ++ [e0] = firstOf m1.reverse e0 :: (m1.reverse ++ [e0]).tail := by
    cases m1.reverse <;> simp [firstOf]
  have hFLm' := hFLm
  rw [hne] at hFLm'
  simp only [FL] at hFLm'
  obtain ⟨_, ⟨f, g, hf, _, hfn, hfi, hg, _, _, _, _, _⟩, _⟩ := hFLm'
  have hout : outF (!cd) ek = inF cd ek := by cases cd <;> rfl
  rw [hout] at hf
  obtain ⟨cf, htail⟩ := fl_tail_run mac net now ek.ia src core (!cd) ts hUp hSR ek m1.reverse e0 _ hFLm
    hsrc (by rw [hsrc]; exact Ne.symm h0k)
    (fun e he => ⟨(hmid1 e (by simpa using he)).2, by rw [hsrc]; exact (hmid1 e (by simpa using he)).1,
      hexpU e (by simp at he; simp [he])⟩)
    (hexpU e0 (by simp)) (tlh.reverse ++ [h']) (by simp)
    (m1.length + 2 * tlh.length + 5) [(ek.ia, inF cd ek), (f.nbr, f.nbrIf)]
  rw [hsegm] at htail
  have hfuel : fuelFor (mkCur [] ⟨!cd, false, extractBeta (updateSegID seg0 (pfx e0.hop.mac)) (sig m1), ts⟩
        (tlh.reverse ++ [h'])
        ((m1.reverse.map fun e => hopOf e.hop) ++ [hopOf e0.hop]) []) =
      m1.length + 2 * tlh.length + 5 + 1 + m1.reverse.length := by
    cases hr : m1.reverse.map (fun e => hopOf e.hop) with
    | nil =>
      have : m1.length = 0 := by
        have := congrArg List.length hr; simpa using this
      simp [mkCur, fuelFor, toFlat, Cursor.segs, Cursor.curSeg, this]; omega
    | cons y ys =>
      have hl : m1.length = ys.length + 1 := by
        have := congrArg List.length hr; simpa using this
      simp [mkCur, fuelFor, toFlat, Cursor.segs, Cursor.curSeg, hl]; omega
  have hfollow : followReply mac net now src ek.ia 0 (.ext (inF cd ek))
      (mkCur [] ⟨!cd, false, extractBeta (updateSegID seg0 (pfx e0.hop.mac)) (sig m1), ts⟩
        (tlh.reverse ++ [h'])
        ((m1.reverse.map fun e => hopOf e.hop) ++ [hopOf e0.hop]) []) =
      .delivered src ([(ek.ia, inF cd ek), (f.nbr, f.nbrIf)] ++ fTrace (!cd) m1.reverse e0) cf := by
    unfold followReply
    simp only [hf, hg, hfn, hfi, hSR _ _ _ hg, hfuel]
    rw [hfn, hfi] at htail
    exact htail
  exact ⟨_, _, _, _, _, rfl, hreply, hfollow⟩

/-- … instance: the hop field of `ek` has expired (SCMP 4/52) -/
theorem expired_reply_run (seg0 : Nat) (e0 : ASE) (m1 : List ASE) (ek : ASE) (exp' : Nat)
    (tlh : List Hop)
    (hFL : FL mac net core cd ts seg0 (e0 :: (m1 ++ [ek])))
    (hsrc : src = e0.ia) (hsd : src ≠ dst)
    (hnd : ((e0 :: (m1 ++ [ek])).map (·.ia)).Nodup)
    (hmidd : ∀ e ∈ m1, e.ia ≠ dst)
    (hexpU : ∀ e ∈ e0 :: m1, expired now ts e.hop.exp = false)
    (hexp' : expired now ts exp' = true) (fuel : Nat) :
    ∃ tr c1 rc trr cr,
      run mac net now src dst (fuel + 2 + m1.length) src 0 .host
        ⟨[], ⟨cd, false, usedAt cd seg0 e0, ts⟩, [], hopOf e0.hop,
          (m1.map fun e => hopOf e.hop) ++ { hopOf ek.hop with exp := exp' } :: tlh, []⟩ [] =
        .stopped ek.ia 0 (.ext (inF cd ek)) (.slow 4 52 0 c1) tr ∧
      replyOf (.slow 4 52 0 c1) (.ext (inF cd ek)) = some rc ∧
      followReply mac net now src ek.ia 0 (.ext (inF cd ek)) rc = .delivered src trr cr := by
  obtain ⟨_, hin0, _⟩ := fl_last mac net core cd ts m1 e0 ek seg0 hFL
  have hes := expired_step mac net now src dst cd ts
    (extractBeta (updateSegID seg0 (pfx e0.hop.mac)) (sig m1)) ek.ia (inF cd ek)
    { hopOf ek.hop with exp := exp' } [] (hopOf e0.hop :: m1.map fun e => hopOf e.hop) tlh []
    (by simp) (by simp) (by simp; omega) hin0 (by simpa using hexp')
  exact slow_reply_run mac net now src dst core cd ts hUp hSR seg0 e0 m1 ek _ 4 52 tlh hFL hsrc hsd hnd
    hmidd hexpU hes fuel

omit hUp hSR in
/-- an AS finds that the MAC of the current hop field does not verify: SCMP 4/51 on the packet as
    updated at ingress -/
theorem badmac_step (seg a i : Nat) (h : Hop) (before : List Seg) (done todo : List Hop)
    (after : List Seg)
    (hb : ∀ s ∈ before, s.hops.length ≠ 1) (ha : ∀ s ∈ after, s.hops.length ≠ 1)
    (hlen : done.length + 1 + todo.length ≠ 1) (hi0 : i ≠ 0) (hi : i = inSide cd h)
    (hsrc : a ≠ src) (hdl : (todo.isEmpty && after.isEmpty) = (a == dst))
    (hexp : expired now ts h.exp = false)
    (hmac : macOk mac (net a).key ⟨cd, false, usedSeg cd seg h, ts⟩ h = false) :
    routerStep mac (cfgOf net a) now (.ext i) (a == src) (a == dst)
        ⟨before, ⟨cd, false, seg, ts⟩, done, h, todo, after⟩ =
      .slow 4 51 0 ⟨before, ⟨cd, false, usedSeg cd seg h, ts⟩, done, h, todo, after⟩ := by
  have hing : ingUpd ⟨before, ⟨cd, false, seg, ts⟩, done, h, todo, after⟩ (.ext i) false =
      ⟨before, ⟨cd, false, usedSeg cd seg h, ts⟩, done, h, todo, after⟩ := by
    cases cd <;> simp [ingUpd, usedSeg, Arrival.ifid, hi0]
  have hs := hasSingleton_false before ⟨cd, false, seg, ts⟩ done h todo after hb ha hlen
  have hsl : (a == src) = false := by simp [hsrc]
  have hin : (i != if cd = true then h.cIn else h.cEg) = false := by
    cases cd <;> simp [inSide] at hi <;> simp [hi]
  unfold routerStep stIngress
  simp only [hs, Bool.and_false, Bool.false_eq_true, if_false, determinePeer, Bool.not_false,
    if_true, hing]
  unfold stChecks
  simp [hexp, Arrival.ifid, hi0, hsl, hin, Cursor.isLastHop, hdl, cfgOf, hmac]

/-- … instance: the MAC of the hop field of `ek` was damaged (SCMP 4/51) -/
theorem badmac_reply_run (seg0 : Nat) (e0 : ASE) (m1 : List ASE) (ek : ASE) (mac' : Nat)
    (tlh : List Hop)
    (hFL : FL mac net core cd ts seg0 (e0 :: (m1 ++ [ek])))
    (hsrc : src = e0.ia) (hsd : src ≠ dst)
    (hnd : ((e0 :: (m1 ++ [ek])).map (·.ia)).Nodup)
    (hmidd : ∀ e ∈ m1, e.ia ≠ dst)
    (hexpU : ∀ e ∈ e0 :: (m1 ++ [ek]), expired now ts e.hop.exp = false)
    (hdl : tlh.isEmpty = (ek.ia == dst))
    (hbad : macOk mac (net ek.ia).key
      ⟨cd, false, usedSeg cd (extractBeta (updateSegID seg0 (pfx e0.hop.mac)) (sig m1))
        { hopOf ek.hop with mac := mac' }, ts⟩ { hopOf ek.hop with mac := mac' } = false)
    (fuel : Nat) :
    ∃ tr c1 rc trr cr,
      run mac net now src dst (fuel + 2 + m1.length) src 0 .host
        ⟨[], ⟨cd, false, usedAt cd seg0 e0, ts⟩, [], hopOf e0.hop,
          (m1.map fun e => hopOf e.hop) ++ { hopOf ek.hop with mac := mac' } :: tlh, []⟩ [] =
        .stopped ek.ia 0 (.ext (inF cd ek)) (.slow 4 51 0 c1) tr ∧
      replyOf (.slow 4 51 0 c1) (.ext (inF cd ek)) = some rc ∧
      followReply mac net now src ek.ia 0 (.ext (inF cd ek)) rc = .delivered src trr cr := by
  obtain ⟨_, hin0, _⟩ := fl_last mac net core cd ts m1 e0 ek seg0 hFL
  obtain ⟨h0k, _⟩ := nd_facts e0 m1 ek hnd
  have hbs := badmac_step mac net now src dst cd ts
    (extractBeta (updateSegID seg0 (pfx e0.hop.mac)) (sig m1)) ek.ia (inF cd ek)
    { hopOf ek.hop with mac := mac' } [] (hopOf e0.hop :: m1.map fun e => hopOf e.hop) tlh []
    (by simp) (by simp) (by simp; omega) hin0 (by cases cd <;> rfl)
    (by rw [hsrc]; exact Ne.symm h0k) (by simpa using hdl)
    (by simpa [hopOf] using hexpU ek (by simp)) hbad
  exact slow_reply_run mac net now src dst core cd ts hUp hSR seg0 e0 m1 ek _ 4 51 tlh hFL hsrc hsd hnd
    hmidd (fun e he => hexpU e (by simp at he ⊢; rcases he with rfl | he; exact Or.inl rfl; exact Or.inr (Or.inl he)))
    hbs fuel

end

end Scion.Net
