import Scion.Proofs.Rx
/-! Generic facts about `Rx.Lang`: the letters of a word are accepted by atoms of the expression,
substitution of expressions for atoms, change of alphabet along a map. -/
namespace Scion.Seq.Rx
variable {π ρ α β : Type}

/-- the atoms occurring in an expression -/
def atoms : Rx π → List π
  | zero => []
  | eps => []
  | atom p => [p]
  | cat a b => atoms a ++ atoms b
  | alt a b => atoms a ++ atoms b
  | opt a => atoms a
  | plus a => atoms a
  | star a => atoms a

theorem mem_flatten_of {w : List α} {ws : List (List α)} {x : α} (hw : w = ws.flatten) (hx : x ∈ w) :
    ∃ u ∈ ws, x ∈ u := by
  subst hw
  simpa [List.mem_flatten] using hx

/-- every letter of a word of the language is accepted by some atom of the expression -/
theorem Lang_letters (sat : π → α → Bool) (e : Rx π) :
    ∀ w, Lang sat e w → ∀ x ∈ w, ∃ p ∈ atoms e, sat p x = true := by
  induction e with
  | zero => intro w h; exact absurd h (by simp [Lang])
  | eps => intro w h x hx; simp only [Lang] at h; subst h; simp at hx
  | atom p =>
    intro w h x hx
    obtain ⟨y, rfl, hy⟩ := h
    simp only [List.mem_singleton] at hx
    subst hx
    exact ⟨p, by simp [atoms], hy⟩
  | cat a b iha ihb =>
    intro w h x hx
    obtain ⟨u, v, rfl, hu, hv⟩ := h
    simp only [List.mem_append] at hx
    rcases hx with hx | hx
    · obtain ⟨p, hp, hs⟩ := iha u hu x hx; exact ⟨p, by simp [atoms, hp], hs⟩
    · obtain ⟨p, hp, hs⟩ := ihb v hv x hx; exact ⟨p, by simp [atoms, hp], hs⟩
  | alt a b iha ihb =>
    intro w h x hx
    rcases h with h | h
    · obtain ⟨p, hp, hs⟩ := iha w h x hx; exact ⟨p, by simp [atoms, hp], hs⟩
    · obtain ⟨p, hp, hs⟩ := ihb w h x hx; exact ⟨p, by simp [atoms, hp], hs⟩
  | opt a iha =>
    intro w h x hx
    rcases h with h | h
    · subst h; simp at hx
    · exact iha w h x hx
  | plus a iha =>
    intro w h x hx
    obtain ⟨ws, _, hw, hall⟩ := h
    obtain ⟨u, hu, hxu⟩ := mem_flatten_of hw hx
    exact iha u (hall u hu) x hxu
  | star a iha =>
    intro w h x hx
    obtain ⟨ws, hw, hall⟩ := h
    obtain ⟨u, hu, hxu⟩ := mem_flatten_of hw hx
    exact iha u (hall u hu) x hxu

/-- replace every atom by an expression over another alphabet -/
def subst (f : π → Rx ρ) : Rx π → Rx ρ
  | zero => zero
  | eps => eps
  | atom p => f p
  | cat a b => cat (subst f a) (subst f b)
  | alt a b => alt (subst f a) (subst f b)
  | opt a => opt (subst f a)
  | plus a => plus (subst f a)
  | star a => star (subst f a)

/-- choose, for every part, a decomposition -/
theorem choose_parts {P : List β → List (List β) → Prop} :
    ∀ parts : List (List β), (∀ u ∈ parts, ∃ ws, u = ws.flatten ∧ P u ws) →
      ∃ wss : List (List (List β)), parts = wss.map List.flatten ∧
        wss.length = parts.length ∧ ∀ ws ∈ wss, P ws.flatten ws
  | [], _ => ⟨[], rfl, rfl, by simp⟩
  | u :: ps, h => by
    obtain ⟨ws, hu, hp⟩ := h u (by simp)
    obtain ⟨wss, hps, hl, hall⟩ := choose_parts ps (fun v hv => h v (by simp [hv]))
    refine ⟨ws :: wss, by simp [hu, hps], by simp [hl], ?_⟩
    intro x hx
    simp only [List.mem_cons] at hx
    rcases hx with rfl | hx
    · rw [← hu]; exact hp
    · exact hall x hx

/-- **substitution lemma**: the language of the substituted expression consists of the
    concatenations of word lists of the original language, a word standing for an atom when the
    atom's expression accepts it -/
theorem Lang_subst (sat : ρ → β → Bool) (f : π → Rx ρ) (e : Rx π) :
    ∀ w : List β, Lang sat (subst f e) w ↔
      ∃ ws : List (List β), w = ws.flatten ∧ Lang (fun p u => accepts sat (f p) u) e ws := by
  induction e with
  | zero => intro w; simp [subst, Lang]
  | eps =>
    intro w
    simp only [subst, Lang]
    constructor
    · intro h; exact ⟨[], by simp [h], rfl⟩
    · rintro ⟨ws, rfl, rfl⟩; rfl
  | atom p =>
    intro w
    simp only [subst, Lang]
    rw [← accepts_iff_lang]
    constructor
    · intro h; exact ⟨[w], by simp, w, rfl, h⟩
    · rintro ⟨ws, rfl, u, rfl, hu⟩; simpa using hu
  | cat a b iha ihb =>
    intro w
    simp only [subst, Lang]
    constructor
    · rintro ⟨u, v, rfl, hu, hv⟩
      obtain ⟨us, rfl, hus⟩ := (iha u).1 hu
      obtain ⟨vs, rfl, hvs⟩ := (ihb v).1 hv
      exact ⟨us ++ vs, by simp, us, vs, rfl, hus, hvs⟩
    · rintro ⟨ws, rfl, us, vs, rfl, hus, hvs⟩
      exact ⟨us.flatten, vs.flatten, by simp, (iha _).2 ⟨us, rfl, hus⟩, (ihb _).2 ⟨vs, rfl, hvs⟩⟩
  | alt a b iha ihb =>
    intro w
    simp only [subst, Lang, iha w, ihb w]
    constructor
    · rintro (⟨ws, h1, h2⟩ | ⟨ws, h1, h2⟩)
      · exact ⟨ws, h1, Or.inl h2⟩
      · exact ⟨ws, h1, Or.inr h2⟩
    · rintro ⟨ws, h1, h2 | h2⟩
      · exact Or.inl ⟨ws, h1, h2⟩
      · exact Or.inr ⟨ws, h1, h2⟩
  | opt a iha =>
    intro w
    simp only [subst, Lang, iha w]
    constructor
    · rintro (h | ⟨ws, h1, h2⟩)
      · exact ⟨[], by simp [h], Or.inl rfl⟩
      · exact ⟨ws, h1, Or.inr h2⟩
    · rintro ⟨ws, h1, h2 | h2⟩
      · left; subst h2; simpa using h1
      · exact Or.inr ⟨ws, h1, h2⟩
  | plus a iha =>
    intro w
    simp only [subst, Lang]
    constructor
    · rintro ⟨parts, hne, rfl, hall⟩
      obtain ⟨wss, hps, hl, hwss⟩ := choose_parts (P := fun _ ws =>
          Lang (fun p u => accepts sat (f p) u) a ws) parts
        (fun u hu => (iha u).1 (hall u hu))
      refine ⟨wss.flatten, ?_, wss, ?_, rfl, hwss⟩
      · rw [hps]; simp [List.flatten_flatten]
      · intro h; subst h; simp at hl; exact hne (List.length_eq_zero_iff.1 hl.symm)
    · rintro ⟨ws, rfl, wss, hne, rfl, hall⟩
      refine ⟨wss.map List.flatten, by simpa using hne, by simp [List.flatten_flatten], ?_⟩
      intro u hu
      simp only [List.mem_map] at hu
      obtain ⟨x, hx, rfl⟩ := hu
      exact (iha _).2 ⟨x, rfl, hall x hx⟩
  | star a iha =>
    intro w
    simp only [subst, Lang]
    constructor
    · rintro ⟨parts, rfl, hall⟩
      obtain ⟨wss, hps, _, hwss⟩ := choose_parts (P := fun _ ws =>
          Lang (fun p u => accepts sat (f p) u) a ws) parts
        (fun u hu => (iha u).1 (hall u hu))
      refine ⟨wss.flatten, ?_, wss, rfl, hwss⟩
      rw [hps]; simp [List.flatten_flatten]
    · rintro ⟨ws, rfl, wss, rfl, hall⟩
      refine ⟨wss.map List.flatten, by simp [List.flatten_flatten], ?_⟩
      intro u hu
      simp only [List.mem_map] at hu
      obtain ⟨x, hx, rfl⟩ := hu
      exact (iha _).2 ⟨x, rfl, hall x hx⟩

theorem map_eq_flatten (f : α → β) : ∀ (parts : List (List β)) (w : List α),
    w.map f = parts.flatten → ∃ ps : List (List α), w = ps.flatten ∧ parts = ps.map (List.map f)
  | [], w, h => by
    have : w = [] := by simpa using h
    exact ⟨[], by simp [this], rfl⟩
  | u :: ps, w, h => by
    simp only [List.flatten_cons] at h
    obtain ⟨w1, w2, rfl, h1, h2⟩ := List.map_eq_append_iff.1 h
    obtain ⟨qs, rfl, hq⟩ := map_eq_flatten f ps w2 h2
    exact ⟨w1 :: qs, by simp, by simp [h1, hq]⟩

/-- change of alphabet: if `sat₁ p (f x) = sat₂ p x` for the atoms `p` of the expression and the
    letters `x` of the word, the mapped word is in the language over the target alphabet iff the
    word is in the language over the source alphabet -/
theorem Lang_map (sat₁ : π → β → Bool) (sat₂ : π → α → Bool) (f : α → β)
    (P : π → Prop) (Q : α → Prop)
    (h : ∀ p x, P p → Q x → sat₁ p (f x) = sat₂ p x) (e : Rx π) :
    (∀ p ∈ atoms e, P p) → ∀ w : List α, (∀ x ∈ w, Q x) →
      (Lang sat₁ e (w.map f) ↔ Lang sat₂ e w) := by
  induction e with
  | zero => intro _ w _; simp [Lang]
  | eps => intro _ w _; simp [Lang]
  | atom p =>
    intro hp w hw
    have hp' : P p := hp p (by simp [atoms])
    simp only [Lang]
    constructor
    · rintro ⟨y, hy, hs⟩
      cases w with
      | nil => simp at hy
      | cons x xs =>
        cases xs with
        | nil =>
          simp only [List.map_cons, List.map_nil, List.cons.injEq, and_true] at hy
          subst hy; exact ⟨x, rfl, by rw [← h p x hp' (hw x (by simp))]; exact hs⟩
        | cons z zs => simp at hy
    · rintro ⟨x, rfl, hs⟩; exact ⟨f x, rfl, by rw [h p x hp' (hw x (by simp))]; exact hs⟩
  | cat a b iha ihb =>
    intro hp w hw
    have hpa : ∀ p ∈ atoms a, P p := fun p hm => hp p (by simp [atoms, hm])
    have hpb : ∀ p ∈ atoms b, P p := fun p hm => hp p (by simp [atoms, hm])
    simp only [Lang]
    constructor
    · rintro ⟨u, v, huv, hu, hv⟩
      obtain ⟨w1, w2, rfl, rfl, rfl⟩ := List.map_eq_append_iff.1 huv
      exact ⟨w1, w2, rfl, (iha hpa w1 (fun x hx => hw x (by simp [hx]))).1 hu,
        (ihb hpb w2 (fun x hx => hw x (by simp [hx]))).1 hv⟩
    · rintro ⟨u, v, rfl, hu, hv⟩
      exact ⟨u.map f, v.map f, by simp, (iha hpa u (fun x hx => hw x (by simp [hx]))).2 hu,
        (ihb hpb v (fun x hx => hw x (by simp [hx]))).2 hv⟩
  | alt a b iha ihb =>
    intro hp w hw
    have hpa : ∀ p ∈ atoms a, P p := fun p hm => hp p (by simp [atoms, hm])
    have hpb : ∀ p ∈ atoms b, P p := fun p hm => hp p (by simp [atoms, hm])
    simp only [Lang, iha hpa w hw, ihb hpb w hw]
  | opt a iha =>
    intro hp w hw
    simp only [Lang, iha hp w hw, List.map_eq_nil_iff]
  | plus a iha =>
    intro hp w hw
    simp only [Lang]
    constructor
    · rintro ⟨parts, hne, hw', hall⟩
      obtain ⟨ps, rfl, rfl⟩ := map_eq_flatten f parts w hw'
      refine ⟨ps, by simpa using hne, rfl, ?_⟩
      intro u hu
      exact (iha hp u (fun x hx => hw x (List.mem_flatten.2 ⟨u, hu, hx⟩))).1
        (hall _ (List.mem_map_of_mem hu))
    · rintro ⟨ps, hne, rfl, hall⟩
      refine ⟨ps.map (List.map f), by simpa using hne, by simp [List.map_flatten], ?_⟩
      intro u hu
      simp only [List.mem_map] at hu
      obtain ⟨x, hx, rfl⟩ := hu
      exact (iha hp x (fun y hy => hw y (List.mem_flatten.2 ⟨x, hx, hy⟩))).2 (hall x hx)
  | star a iha =>
    intro hp w hw
    simp only [Lang]
    constructor
    · rintro ⟨parts, hw', hall⟩
      obtain ⟨ps, rfl, rfl⟩ := map_eq_flatten f parts w hw'
      refine ⟨ps, rfl, ?_⟩
      intro u hu
      exact (iha hp u (fun x hx => hw x (List.mem_flatten.2 ⟨u, hu, hx⟩))).1
        (hall _ (List.mem_map_of_mem hu))
    · rintro ⟨ps, rfl, hall⟩
      refine ⟨ps.map (List.map f), by simp [List.map_flatten], ?_⟩
      intro u hu
      simp only [List.mem_map] at hu
      obtain ⟨x, hx, rfl⟩ := hu
      exact (iha hp x (fun y hy => hw y (List.mem_flatten.2 ⟨x, hx, hy⟩))).2 (hall x hx)

end Scion.Seq.Rx
