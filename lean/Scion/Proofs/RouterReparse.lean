import Scion.Proofs.RouterTotal
/-! Re-decoding the packet the router emits: `parse` depends on the buffer only through its length,
the bytes before the path header, the segment lengths in the meta line and the bytes after the
info fields; so a buffer that differs from a decodable one only in the pointers and in the info
fields decodes again, to the same header with the new pointers. -/
namespace Scion.Router
open Scion.Util
open Scion.PathMeta hiding Info

theorem slice_congr {a b : Bytes} (off n : Nat) (h : ∀ i, off ≤ i → i < off + n → a[i]? = b[i]?) :
    slice a off n = slice b off n := by
  apply List.ext_getElem?
  intro i
  rw [slice_getElem?, slice_getElem?]
  split
  · exact h _ (by omega) (by omega)
  · rfl

theorem drop_congr {a b : Bytes} (k : Nat) (h : ∀ i, k ≤ i → a[i]? = b[i]?) : a.drop k = b.drop k := by
  apply List.ext_getElem?
  intro i
  rw [List.getElem?_drop, List.getElem?_drop]
  exact h _ (by omega)

theorem list12_of_length {l : Bytes} (h : 12 ≤ l.length) :
    ∃ a0 a1 a2 a3 a4 a5 a6 a7 a8 a9 a10 a11 r,
      l = a0 :: a1 :: a2 :: a3 :: a4 :: a5 :: a6 :: a7 :: a8 :: a9 :: a10 :: a11 :: r := by
  match l, h with
  | a0 :: a1 :: a2 :: a3 :: a4 :: a5 :: a6 :: a7 :: a8 :: a9 :: a10 :: a11 :: r, _ =>
    exact ⟨a0, a1, a2, a3, a4, a5, a6, a7, a8, a9, a10, a11, r, rfl⟩

theorem baseStep_congr {m m' : Hdr} (h0 : m'.s0 = m.s0) (h1 : m'.s1 = m.s1) (h2 : m'.s2 = m.s2) :
    baseStep m' = baseStep m := by
  funext st i
  have : segLen m' i = segLen m i := by
    unfold segLen; split <;> simp [*]
  unfold baseStep
  rw [this]

theorem baseDecode_congr {m m' : Hdr} {b : Base} (e : baseDecode m = some b)
    (h0 : m'.s0 = m.s0) (h1 : m'.s1 = m.s1) (h2 : m'.s2 = m.s2) :
    baseDecode m' = some ⟨m', b.numINF, b.numHops⟩ := by
  unfold baseDecode at e ⊢
  rw [baseStep_congr h0 h1 h2]
  split at e
  · cases e
  · rename_i ninf nh hf
    split at e
    · cases e
    · rename_i hc
      cases e
      simp [hc]

theorem infIdx_congr {m m' : Hdr} (h0 : m'.s0 = m.s0) (h1 : m'.s1 = m.s1) (x : Nat) :
    infIdx m' x = infIdx m x := by
  unfold infIdx; rw [h0, h1]

theorem baseDecode_numHops_le {m : Hdr} {b : Base} (e : baseDecode m = some b) : b.numHops ≤ 64 := by
  unfold baseDecode at e
  split at e
  · cases e
  · split at e
    · cases e
    · rename_i hc; cases e; simp [maxHops] at hc ⊢; omega

/-- **re-decoding.** If `raw` decodes to `(h, pm)` and `out` has the same length, the same bytes
before the path header and after the info fields, and a meta line with the same segment
lengths, then `out` decodes to the same header with the pointers of its own meta line. -/
theorem parse_congr {raw out : Bytes} {h : Hd} {pm : Hdr} (hp : parse raw = .ok h pm)
    (hlen : out.length = raw.length)
    (hout : ∀ i, (i < h.pathOff ∨ h.pathOff + 4 + 8 * h.numINF ≤ i) → out[i]? = raw[i]?)
    (hs0 : (decode (beNat (slice out h.pathOff 4))).s0 = pm.s0)
    (hs1 : (decode (beNat (slice out h.pathOff 4))).s1 = pm.s1)
    (hs2 : (decode (beNat (slice out h.pathOff 4))).s2 = pm.s2) :
    parse out = .ok h (decode (beNat (slice out h.pathOff 4))) := by
  unfold parse at hp
  split at hp
  · rename_i x0 x1 x2 x3 nh hl pl0 pl1 pt ty x10 x11 rest
    dsimp only at hp
    split at hp
    · cases hp
    · rename_i c0
      split at hp
      · cases hp
      · rename_i c1
        split at hp
        · cases hp
        · rename_i c2
          split at hp
          · cases hp
          · rename_i c3
            split at hp
            · cases hp
            · rename_i c4
              split at hp
              · cases hp
              · rename_i b hb
                split at hp
                · cases hp
                · rename_i c5
                  split at hp
                  · cases hp
                  · rename_i c6
                    split at hp
                    · cases hp
                    · rename_i n1 p1 he1
                      split at hp
                      · cases hp
                      · rename_i n2 p2 he2
                        cases hp
                        simp only at hout hs0 hs1 hs2 ⊢
                        -- shape of `out`
                        have hl12 : 12 ≤ out.length := by rw [hlen]; simp
                        obtain ⟨y0, y1, y2, y3, y4, y5, y6, y7, y8, y9, y10, y11, rest', rfl⟩ :=
                          list12_of_length hl12
                        have hal := Nat.zero_le (addrLen (ty.toNat / 16))
                        have g : ∀ i, i < 12 → (y0 :: y1 :: y2 :: y3 :: y4 :: y5 :: y6 :: y7 :: y8 :: y9 :: y10 :: y11 :: rest')[i]? =
                            (x0 :: x1 :: x2 :: x3 :: nh :: hl :: pl0 :: pl1 :: pt :: ty :: x10 :: x11 :: rest)[i]? :=
                          fun i hi => hout i (Or.inl (by omega))
                        have e4 : nh = y4 := by have := g 4 (by omega); simp at this; exact this.symm
                        have e5 : hl = y5 := by have := g 5 (by omega); simp at this; exact this.symm
                        have e6 : pl0 = y6 := by have := g 6 (by omega); simp at this; exact this.symm
                        have e7 : pl1 = y7 := by have := g 7 (by omega); simp at this; exact this.symm
                        have e8 : pt = y8 := by have := g 8 (by omega); simp at this; exact this.symm
                        have e9 : ty = y9 := by have := g 9 (by omega); simp at this; exact this.symm
                        subst e4 e5 e6 e7 e8 e9
                        have hr : rest'.length = rest.length := by
                          simp only [List.length_cons] at hlen; omega
                        have hbnd : hl.toNat * 4 =
                            28 + addrLen (ty.toNat / 16) + addrLen (ty.toNat % 16) + 4 + 8 * b.numINF + 12 * b.numHops := by
                          omega
                        have f1 : ∀ off n, off + n ≤ 28 + addrLen (ty.toNat / 16) + addrLen (ty.toNat % 16) →
                            slice (y0 :: y1 :: y2 :: y3 :: nh :: hl :: pl0 :: pl1 :: pt :: ty :: y10 :: y11 :: rest') off n =
                            slice (x0 :: x1 :: x2 :: x3 :: nh :: hl :: pl0 :: pl1 :: pt :: ty :: x10 :: x11 :: rest) off n :=
                          fun off n hle => slice_congr off n (fun i _ hi => hout i (Or.inl (by omega)))
                        have f2 : (y0 :: y1 :: y2 :: y3 :: nh :: hl :: pl0 :: pl1 :: pt :: ty :: y10 :: y11 :: rest').drop (hl.toNat * 4) =
                            (x0 :: x1 :: x2 :: x3 :: nh :: hl :: pl0 :: pl1 :: pt :: ty :: x10 :: x11 :: rest).drop (hl.toNat * 4) :=
                          drop_congr _ (fun i hi => hout i (Or.inr (by omega)))
                        have f4 := baseDecode_congr hb hs0 hs1 hs2
                        unfold parse
                        dsimp only
                        rw [if_neg c0, hr, if_neg c1, if_neg c2, hlen, if_neg c3, if_neg c4, f4]
                        dsimp only
                        rw [if_neg c5, if_neg c6, f2, he1]
                        dsimp only
                        rw [he2]
                        dsimp only
                        rw [f1 20 8 (by unfold addrLen; omega), f1 12 8 (by unfold addrLen; omega),
                          f1 28 _ (by omega), f1 (28 + addrLen (ty.toNat / 16)) _ (by omega)]
  · cases hp

/-! ### the meta line of the emitted packet -/

/-- the meta line in the buffer decodes to `p` -/
def MetaDec (h : Hd) (buf : Bytes) (p : Hdr) : Prop := decode (beNat (slice buf h.pathOff 4)) = p

theorem beNat_natBE4 (n : Nat) (h : n < 2 ^ 32) : beNat (natBE 4 n) = n := by
  simp only [natBE, beNat, List.foldl, UInt8.toNat_ofNat']
  omega

theorem decode_encode (m : Hdr) (h : m.InRange) : decode (encode m) = m := by
  obtain ⟨h1, h2, h3, h4, h5⟩ := h
  cases m
  simp only [encode, decode, Hdr.mk.injEq] at *
  refine ⟨?_, ?_, ?_, ?_, ?_⟩ <;> omega

theorem encode_lt (m : Hdr) : encode m < 2 ^ 32 := by
  unfold encode; omega

theorem metaDec_setMeta (h : Hd) (buf : Bytes) (p : Hdr) (hb : h.pathOff + 4 ≤ buf.length)
    (hr : p.InRange) : MetaDec h (setMeta h buf p) p := by
  unfold MetaDec setMeta
  have := slice_writeAt_same buf h.pathOff (natBE 4 (encode p)) (by rw [length_natBE]; exact hb)
  rw [length_natBE] at this
  rw [this, beNat_natBE4 _ (encode_lt p), decode_encode p hr]

theorem metaDec_setInfo {h : Hd} {buf : Bytes} {p : Hdr} (hd : MetaDec h buf p) (j : Nat) (i : Info)
    (hb : infoOff h j + 8 ≤ buf.length) : MetaDec h (setInfo h buf j i) p := by
  unfold MetaDec setInfo at *
  rw [slice_writeAt_disj _ _ _ (by rw [length_encodeInfo]; exact hb)]
  · exact hd
  · left; exact pathOff_le_infoOff h j

theorem infIdx_le_two (m : Hdr) (x : Nat) : infIdx m x ≤ 2 := by
  unfold infIdx; split <;> (try split) <;> omega

/-- the pointers of the packet an accepting `process` emits -/
structure FinalMeta (h : Hd) (pm pmF : Hdr) : Prop where
  s0 : pmF.s0 = pm.s0
  s1 : pmF.s1 = pm.s1
  s2 : pmF.s2 = pm.s2
  hop : pmF.currHF < h.numHops
  inf : pmF.currINF = infIdx pmF pmF.currHF
  lo : pm.currHF ≤ pmF.currHF
  hi : pmF.currHF ≤ pm.currHF + 2

theorem accept_meta (cfg : Cfg) (mac : Mac) (resolve : Cfg → Hd → ResolveOut) (now : Nat)
    (ing : Ingress) (h : Hd) (pm : Hdr) (raw : Bytes)
    (hdec : MetaDec h raw pm) (hin : pm.InRange) (hnh : h.numHops ≤ 64)
    (hacc : (process cfg mac resolve now ing h pm raw).1.accepting = true) :
    ∃ pmF, MetaDec h (process cfg mac resolve now ing h pm raw).2 pmF ∧ FinalMeta h pm pmF := by
  obtain ⟨s0, s1, p⟩ := process_accepting_inv hacc
  have a := stParse_ok p.parse
  have b := stSegID_ok p.segid
  have bi := getInfo_some_bound a.inf
  have bh := getHop_some_bound a.hop
  obtain ⟨hpm1, _, hlen1, _⟩ := segid_state a b
  have hd1 : MetaDec h s1.buf pm := by
    rw [b.buf, a.buf]; split
    · rw [a.hpm]; exact metaDec_setInfo hdec _ _ bi.2
    · exact hdec
  have fin0 : FinalMeta h pm pm := ⟨rfl, rfl, rfl, bh.1, a.idx, Nat.le_refl _, by omega⟩
  rw [process_of_passed p] at hacc ⊢
  unfold tail at hacc ⊢
  by_cases hd : h.dstIA = cfg.localIA
  · simp only [hd, beq_self_eq_true, if_true]
    rw [inbound_buf]
    exact ⟨pm, hd1, fin0⟩
  · have hb : (h.dstIA == cfg.localIA) = false := by simpa using hd
    simp only [hb, Bool.false_eq_true, if_false] at hacc ⊢
    obtain ⟨s5, l, o⟩ := outbound_accepting_inv hacc
    have x := stXover_ok o.xo
    obtain ⟨_, e0, e1, e2, ⟨inf0, hg, _⟩, _⟩ := xover_state a b x
    have hmeta1 : h.pathOff + 4 ≤ s1.buf.length := by
      have := pathOff_le_infoOff h pm.currINF; omega
    -- state after the cross-over stage
    have h5 : MetaDec h s5.buf s5.pm ∧ FinalMeta h pm s5.pm ∧ s5.pm.currHF ≤ pm.currHF + 1 ∧
        s5.buf.length = raw.length := by
      cases hdx : doesXover h s1
      · have := x.no hdx; subst this
        rw [hpm1]; exact ⟨hd1, fin0, by omega, hlen1⟩
      · obtain ⟨b', hinc, hpm', hbuf, _, _, _, _, _⟩ := x.yes hdx
        have hlt := incPath_inv hinc
        rw [hpm1] at hinc
        obtain ⟨f1, f2, f3, f4, f5⟩ := incPath_ok' hinc
        simp only [base] at f1 f2 f3 f4 f5
        have hr : b'.pm.InRange := by
          have := infIdx_le_two pm (pm.currHF + 1)
          obtain ⟨_, _, r3, r4, r5⟩ := hin
          exact ⟨by omega, by omega, by omega, by omega, by omega⟩
        refine ⟨by rw [hbuf, hpm']; exact metaDec_setMeta h s1.buf b'.pm hmeta1 hr, ?_, by rw [hpm']; omega,
          by rw [hbuf, length_setMeta h s1.buf b'.pm hmeta1, hlen1]⟩
        rw [hpm']
        exact ⟨f3, f4, f5, hlt, by rw [f2, f1]; exact (infIdx_congr f3 f4 _).symm, by omega, by omega⟩
    obtain ⟨hd5, fin5, hhi5, hlen5⟩ := h5
    rcases o.buf with ⟨_, s7, hpe, hbuf⟩ | ⟨_, hbuf⟩
    · rw [hbuf]
      obtain ⟨b', hinc, _, hb7⟩ := stProcessEgress_ok hpe
      have hlt := incPath_inv hinc
      obtain ⟨f1, f2, f3, f4, f5⟩ := incPath_ok' hinc
      simp only [base] at f1 f2 f3 f4 f5
      have hr : b'.pm.InRange := by
        have := infIdx_le_two s5.pm (s5.pm.currHF + 1)
        obtain ⟨_, _, r3, r4, r5⟩ := hin
        have := fin5.s0; have := fin5.s1; have := fin5.s2
        exact ⟨by omega, by omega, by omega, by omega, by omega⟩
      have hi5 : infoOff h s5.pm.currINF + 8 ≤ s5.buf.length := by
        rw [hlen5]; exact (getInfo_some_bound hg).2
      have hm5 : h.pathOff + 4 ≤ s5.buf.length := by
        have := pathOff_le_infoOff h s5.pm.currINF; omega
      refine ⟨b'.pm, ?_, ?_⟩
      · rw [hb7]
        apply metaDec_setMeta _ _ _ _ hr
        split
        · rw [length_setInfo h s5.buf _ _ hi5]; exact hm5
        · exact hm5
      · exact ⟨by rw [f3, fin5.s0], by rw [f4, fin5.s1], by rw [f5, fin5.s2], hlt,
          by rw [f2, f1]; exact (infIdx_congr f3 f4 _).symm, by have := fin5.lo; omega, by omega⟩
    · rw [hbuf]
      exact ⟨s5.pm, hd5, ⟨fin5.s0, fin5.s1, fin5.s2, fin5.hop, fin5.inf, fin5.lo, by omega⟩⟩

end Scion.Router
