import Scion.Proofs.NetScmpPeer
/-! C10 on peering paths: the expired-hop instance of `peer_slow_reply_run`.  Core Lean only. -/
namespace Scion.Net
open Scion.SegID (updateSegID extractBeta xorAll)

/-- a packet rejected by the ingress stage: the router's answer is the ingress stage's -/
theorem routerStep_of_ingress_err (mac : MacFn) (cfg : RCfg) (now : Nat) (arr : Arrival) (sl dl : Bool)
    (c : Cursor) (o : Out) (h : stIngress mac cfg now arr sl dl c = .error o) :
    routerStep mac cfg now arr sl dl c = o := by
  unfold routerStep; rw [h]

theorem ingUpd_pr_ext (cd : Bool) (ts seg i : Nat) (h : Hop) (done : List Hop) (t0 : Hop)
    (todo : List Hop) (sD : Seg) (hi0 : i ≠ 0) :
    ingUpd ⟨[], ⟨cd, true, seg, ts⟩, done, h, t0 :: todo, [sD]⟩ (.ext i) false =
      ⟨[], ⟨cd, true, usedSeg cd seg h, ts⟩, done, h, t0 :: todo, [sD]⟩ := by
  cases cd <;> simp [ingUpd, usedSeg, Arrival.ifid, hi0]

theorem determinePeer_pr_first (cd : Bool) (ts seg : Nat) (h : Hop) (done : List Hop) (t0 : Hop)
    (todo : List Hop) (sD : Seg) :
    determinePeer ⟨[], ⟨cd, true, seg, ts⟩, done, h, t0 :: todo, [sD]⟩ = some false := by
  simp [determinePeer]

theorem stIngress_expired_pr (mac : MacFn) (net : Net) (now src dst : Nat) (cd : Bool) (ts : Nat)
    (seg a i : Nat) (h : Hop) (done : List Hop) (t0 : Hop) (todo : List Hop)
    (sD : Seg) (hi0 : i ≠ 0) (hexp : expired now ts h.exp = true) :
    stIngress mac (cfgOf net a) now (.ext i) (a == src) (a == dst)
        ⟨[], ⟨cd, true, seg, ts⟩, done, h, t0 :: todo, [sD]⟩ =
      .error (.slow 4 52 0 ⟨[], ⟨cd, true, usedSeg cd seg h, ts⟩, done, h, t0 :: todo, [sD]⟩) := by
  unfold stIngress
  rw [determinePeer_pr_first]
  simp only [Bool.not_true, Bool.false_and, Bool.false_eq_true, if_false,
    ingUpd_pr_ext _ _ _ _ _ _ _ _ _ hi0]
  unfold stChecks
  rw [if_pos (by exact hexp)]

/-- an expired hop field at an AS of the first segment of a peering path that is not the peering
    AS: SCMP 4/52 on the packet as updated at ingress -/
theorem expired_step_pr (mac : MacFn) (net : Net) (now src dst : Nat) (cd : Bool) (ts : Nat)
    (seg a i : Nat) (h : Hop) (done : List Hop) (t0 : Hop) (todo : List Hop)
    (sD : Seg) (hi0 : i ≠ 0) (hexp : expired now ts h.exp = true) :
    routerStep mac (cfgOf net a) now (.ext i) (a == src) (a == dst)
        ⟨[], ⟨cd, true, seg, ts⟩, done, h, t0 :: todo, [sD]⟩ =
      .slow 4 52 0 ⟨[], ⟨cd, true, usedSeg cd seg h, ts⟩, done, h, t0 :: todo, [sD]⟩ :=
  routerStep_of_ingress_err _ _ _ _ _ _ _ _
    (stIngress_expired_pr mac net now src dst cd ts seg a i h done t0 todo sD hi0 hexp)

section
variable (mac : MacFn) (net : Net) (now src dst : Nat) (core cd : Bool) (ts : Nat)
variable (hUp : AllUp net) (hSR : SingleRouter net)
include hUp hSR

/-- instance of `peer_slow_reply_run`: the hop field of `ek` has expired (SCMP 4/52) -/
theorem peer_expired_reply_run (seg0 : Nat) (e0 : ASE) (m1 : List ASE) (ek : ASE) (exp' : Nat)
    (t0 : Hop) (tlh : List Hop) (sD : Seg)
    (hFL : FL mac net core cd ts seg0 (e0 :: (m1 ++ [ek])))
    (hsrc : src = e0.ia) (hsd : src ≠ dst)
    (hnd : ((e0 :: (m1 ++ [ek])).map (·.ia)).Nodup)
    (hmidd : ∀ e ∈ m1, e.ia ≠ dst)
    (hexpU : ∀ e ∈ e0 :: m1, expired now ts e.hop.exp = false)
    (hexp' : expired now ts exp' = true) (fuel : Nat) :
    ∃ tr c1 rc trr cr,
      run mac net now src dst (fuel + 2 + m1.length) src 0 .host
        ⟨[], ⟨cd, true, usedAt cd seg0 e0, ts⟩, [], hopOf e0.hop,
          (m1.map fun e => hopOf e.hop) ++ { hopOf ek.hop with exp := exp' } :: t0 :: tlh, [sD]⟩ [] =
        .stopped ek.ia 0 (.ext (inF cd ek)) (.slow 4 52 0 c1) tr ∧
      replyOf (.slow 4 52 0 c1) (.ext (inF cd ek)) = some rc ∧
      followReply mac net now src ek.ia 0 (.ext (inF cd ek)) rc = .delivered src trr cr := by
  obtain ⟨_, hin0, _⟩ := fl_last mac net core cd ts m1 e0 ek seg0 hFL
  have hes := expired_step_pr mac net now src dst cd ts
    (extractBeta (updateSegID seg0 (pfx e0.hop.mac)) (sig m1)) ek.ia (inF cd ek)
    { hopOf ek.hop with exp := exp' } (hopOf e0.hop :: m1.map fun e => hopOf e.hop) t0 tlh sD
    hin0 (by simpa using hexp')
  exact peer_slow_reply_run mac net now src dst core cd ts hUp hSR seg0 e0 m1 ek _ 4 52 t0 tlh sD hFL
    hsrc hsd hnd hmidd hexpU hes fuel

end

end Scion.Net
