import Scion.Model.Resolve
/-! Helper lemmas for `Scion/Props/C11.lean` (core Lean only). -/
namespace Scion.C11.Proofs
open Scion.Resolve Scion.Util

/-! ### bytes -/

theorem be16_val (v : Nat) (h : v < 65536) :
    (UInt8.ofNat (v / 256)).toNat * 256 + (UInt8.ofNat (v % 256)).toNat = v := by
  simp only [UInt8.toNat_ofNat']
  omega

theorem u16At_isSome (bs : Bytes) (off : Nat) (h : off + 2 ≤ bs.length) :
    (u16At bs off).isSome = true := by
  have hl : 2 ≤ (bs.drop off).length := by simp; omega
  unfold u16At
  cases hd : bs.drop off with
  | nil => simp [hd] at hl
  | cons a t =>
    cases t with
    | nil => simp [hd] at hl
    | cons b t' => simp

@[simp] theorem be16_length (v : Nat) : (be16 v).length = 2 := rfl

theorem u16At_be16 (v : Nat) (rest : Bytes) (h : v < 65536) :
    u16At (be16 v ++ rest) 0 = some v := by
  simp [u16At, be16]; omega

theorem u16At_be16_2 (a v : Nat) (rest : Bytes) (h : v < 65536) :
    u16At (be16 a ++ be16 v ++ rest) 2 = some v := by
  simp [u16At, be16]; omega

theorem udp_port (src dst : Nat) (rest : Bytes) (q : Quote) (hd : dst < 65536)
    (hl : 4 ≤ rest.length) :
    dstScionPort l4UDP (be16 src ++ be16 dst ++ rest) q = .ok dst := by
  have hlen : ¬ (be16 src ++ be16 dst ++ rest).length < 8 := by
    simp; omega
  simp only [dstScionPort, if_true, if_neg hlen, u16At_be16_2 src dst rest hd]

theorem tcp_port (src dst : Nat) (rest : Bytes) (q : Quote) (hd : dst < 65536)
    (hl : 16 ≤ rest.length) :
    dstScionPort l4TCP (be16 src ++ be16 dst ++ rest) q = .ok dst := by
  have hlen : ¬ (be16 src ++ be16 dst ++ rest).length < 20 := by
    simp; omega
  have h1 : ¬ (l4TCP = l4UDP) := by decide
  simp only [dstScionPort, if_neg h1, if_true, if_neg hlen, u16At_be16_2 src dst rest hd]

theorem scmp_dispatch (pld : Bytes) (q : Quote) :
    dstScionPort l4SCMP pld q = scmpPort pld q := by
  have h1 : ¬ (l4SCMP = l4UDP) := by decide
  have h2 : ¬ (l4SCMP = l4TCP) := by decide
  simp only [dstScionPort, if_neg h1, if_neg h2, if_true]

theorem echo_reply_port (code c1 c2 : UInt8) (id : Nat) (rest : Bytes) (q : Quote)
    (hd : id < 65536) (hl : 2 ≤ rest.length) :
    dstScionPort l4SCMP ([129, code, c1, c2] ++ be16 id ++ rest) q = .ok id := by
  rw [scmp_dispatch]
  have hlen : ¬ (be16 id ++ rest).length < 4 := by simp; omega
  have hu := u16At_be16 id rest hd
  simp only [List.cons_append, List.nil_append, scmpPort]
  have e1 : ¬ ((129 : UInt8).toNat = 128 ∨ (129 : UInt8).toNat = 130) := by decide
  simp only [if_neg e1, if_neg hlen, hu]
  rfl

theorem traceroute_reply_port (code c1 c2 : UInt8) (id : Nat) (rest : Bytes) (q : Quote)
    (hd : id < 65536) (hl : 18 ≤ rest.length) :
    dstScionPort l4SCMP ([131, code, c1, c2] ++ be16 id ++ rest) q = .ok id := by
  rw [scmp_dispatch]
  have hlen : ¬ (be16 id ++ rest).length < 20 := by simp; omega
  have hu := u16At_be16 id rest hd
  simp only [List.cons_append, List.nil_append, scmpPort]
  have e1 : ¬ ((131 : UInt8).toNat = 128 ∨ (131 : UInt8).toNat = 130) := by decide
  have e2 : ¬ ((131 : UInt8).toNat = 129) := by decide
  simp only [if_neg e1, if_neg e2, if_neg hlen, hu]
  rfl

theorem errHdrLen_types (t : Nat) (h : Nat) (ht : scmpErrHdrLen t = some h) :
    t ≠ 128 ∧ t ≠ 129 ∧ t ≠ 130 ∧ t ≠ 131 := by
  refine ⟨?_, ?_, ?_, ?_⟩ <;> (rintro rfl; simp [scmpErrHdrLen] at ht)

theorem scmp_error_port (t code c1 c2 : UInt8) (hdr quote : Bytes) (q : Quote)
    (ht : scmpErrHdrLen t.toNat = some hdr.length) (hq : quote ≠ []) :
    dstScionPort l4SCMP ([t, code, c1, c2] ++ hdr ++ quote) q = quotePort q := by
  rw [scmp_dispatch]
  obtain ⟨h1, h2, h3, h4⟩ := errHdrLen_types _ _ ht
  have hpos : 0 < quote.length := List.length_pos_iff.mpr hq
  have hl1 : ¬ (hdr ++ quote).length < hdr.length := by simp
  have hl2 : ¬ (hdr ++ quote).length = hdr.length := by simp; omega
  have hl3 : ¬ (hdr.length + quote.length < hdr.length) := by omega
  simp only [List.cons_append, List.nil_append, scmpPort]
  simp [h1, h2, h3, h4, ht, hl3, hq]

/-! ### services -/

theorem mem_instances (svcs : List SvcEntry) (k : Nat) (a : UAddr) :
    a ∈ instances svcs k ↔ (k, a.1, a.2) ∈ svcs := by
  simp only [instances, List.mem_map, List.mem_filter]
  constructor
  · rintro ⟨e, ⟨he, hk⟩, rfl⟩
    have : e.1 = k := by simpa using hk
    obtain ⟨e1, e2, e3⟩ := e
    simp at this; subst this; exact he
  · intro h
    exact ⟨(k, a.1, a.2), ⟨h, by simp⟩, rfl⟩

theorem svc_resolve (c : Cfg) (r : Range) (v proto : Nat) (pld : Bytes) (q : Quote)
    (hlink : c.link = some r) :
    resolveLocalDst c (.svc v) proto pld q =
      match instances c.svcs (svcBase v) with
      | [] => .error .noSvc
      | i :: is => .ok ((i :: is).map (fun a => (a.1, r.apply a.2))) := by
  cases h : instances c.svcs (svcBase v) <;> simp [resolveLocalDst, hlink, linkResolve, h]

theorem svc_spec (c : Cfg) (r : Range) (v proto : Nat) (pld : Bytes) (q : Quote)
    (hlink : c.link = some r) :
    (∀ as, resolveLocalDst c (.svc v) proto pld q = .ok as →
       as ≠ [] ∧ ∀ a ∈ as, ∃ ip port, (svcBase v, ip, port) ∈ c.svcs ∧ a = (ip, r.apply port)) ∧
    ((∀ ip port, (svcBase v, ip, port) ∉ c.svcs) →
       resolveLocalDst c (.svc v) proto pld q = .error .noSvc) ∧
    (∀ proto' pld' q', resolveLocalDst c (.svc v) proto' pld' q' =
       resolveLocalDst c (.svc v) proto pld q) := by
  refine ⟨?_, ?_, ?_⟩
  · intro as h
    rw [svc_resolve c r v proto pld q hlink] at h
    cases hi : instances c.svcs (svcBase v) with
    | nil => rw [hi] at h; cases h
    | cons i is =>
      rw [hi] at h
      injection h with h
      subst h
      refine ⟨by simp, ?_⟩
      intro a ha
      simp only [List.mem_map] at ha
      obtain ⟨b, hb, rfl⟩ := ha
      have hb' : b ∈ instances c.svcs (svcBase v) := by rw [hi]; exact hb
      exact ⟨b.1, b.2, (mem_instances _ _ _).mp hb', rfl⟩
  · intro hnone
    rw [svc_resolve c r v proto pld q hlink]
    cases hi : instances c.svcs (svcBase v) with
    | nil => rfl
    | cons i is =>
      have : i ∈ instances c.svcs (svcBase v) := by rw [hi]; simp
      exact absurd ((mem_instances _ _ _).mp this) (hnone _ _)
  · intro proto' pld' q'
    rw [svc_resolve c r v proto pld q hlink, svc_resolve c r v proto' pld' q' hlink]

theorem svc_complete (c : Cfg) (r : Range) (v proto : Nat) (pld : Bytes) (q : Quote)
    (ip : Bytes) (port : Nat) (hlink : c.link = some r) (hm : (svcBase v, ip, port) ∈ c.svcs) :
    ∃ as, resolveLocalDst c (.svc v) proto pld q = .ok as ∧ (ip, r.apply port) ∈ as := by
  rw [svc_resolve c r v proto pld q hlink]
  have hmem : (ip, port) ∈ instances c.svcs (svcBase v) := (mem_instances _ _ (ip, port)).mpr hm
  cases hi : instances c.svcs (svcBase v) with
  | nil => rw [hi] at hmem; cases hmem
  | cons i is =>
    refine ⟨_, rfl, ?_⟩
    rw [hi] at hmem
    exact List.mem_map.mpr ⟨(ip, port), hmem, rfl⟩

theorem step_addSvc_svcs (c : Cfg) (svc : Nat) (ip : Bytes) (port : Nat)
    (hv : validSvcAddr ip = true) :
    (step c (.addSvc svc ip port)).svcs =
      if (svc, ip, port) ∈ c.svcs then c.svcs else c.svcs ++ [(svc, ip, port)] := by
  by_cases hc : (svc, ip, port) ∈ c.svcs
  · have hc' : c.svcs.contains (svc, ip, port) = true := by simpa using hc
    simp only [step, hv, hc', if_true, if_pos hc]
  · have hc' : c.svcs.contains (svc, ip, port) = false := by simpa using hc
    simp [step, hv, hc]

theorem step_delSvc_svcs (c : Cfg) (svc : Nat) (ip : Bytes) (port : Nat)
    (hv : validSvcAddr ip = true) :
    (step c (.delSvc svc ip port)).svcs = c.svcs.erase (svc, ip, port) := by
  simp only [step, hv, if_true]

theorem svc_table (c : Cfg) (svc : Nat) (ip : Bytes) (port : Nat) (hv : validSvcAddr ip = true)
    (hnd : c.svcs.Nodup) :
    (svc, ip, port) ∈ (step c (.addSvc svc ip port)).svcs ∧
    (svc, ip, port) ∉ (step c (.delSvc svc ip port)).svcs ∧
    (∀ x, x ≠ (svc, ip, port) →
      ((x ∈ (step c (.addSvc svc ip port)).svcs ↔ x ∈ c.svcs) ∧
       (x ∈ (step c (.delSvc svc ip port)).svcs ↔ x ∈ c.svcs))) ∧
    (step c (.addSvc svc ip port)).svcs.Nodup ∧ (step c (.delSvc svc ip port)).svcs.Nodup := by
  rw [step_addSvc_svcs c svc ip port hv, step_delSvc_svcs c svc ip port hv]
  refine ⟨?_, ?_, ?_, ?_, hnd.erase _⟩
  · by_cases hc : (svc, ip, port) ∈ c.svcs
    · rw [if_pos hc]; exact hc
    · rw [if_neg hc]; simp
  · rw [hnd.mem_erase_iff]; simp
  · intro x hx
    refine ⟨?_, List.mem_erase_of_ne hx⟩
    by_cases hc : (svc, ip, port) ∈ c.svcs
    · rw [if_pos hc]
    · rw [if_neg hc]; simp [hx]
  · by_cases hc : (svc, ip, port) ∈ c.svcs
    · rw [if_pos hc]; exact hnd
    · rw [if_neg hc, List.nodup_append]
      refine ⟨hnd, by simp, ?_⟩
      intro a ha b hb
      simp at hb; subst hb
      rintro rfl; exact hc ha

/-! ### configuration order -/

theorem step_ov (c : Cfg) (x : Call) :
    (step c x).ovStart = c.ovStart ∧ (step c x).ovStop = c.ovStop := by
  cases x <;> simp [step] <;> (try split) <;> (try split) <;> simp

theorem step_prov (c : Cfg) (x : Call) :
    (step c x).prov = match x with
      | .setPortRange s e => wanted c.ovStart c.ovStop s e
      | _ => c.prov := by
  cases x <;> simp [step, wanted] <;> (try split) <;> (try split) <;> simp

/-- the provider's range after a call list: what the last `SetPortRange` asked for -/
theorem run_prov (c : Cfg) (cs : List Call) :
    (run c cs).prov = match lastSet cs with
      | some (s, e) => wanted c.ovStart c.ovStop s e
      | none => c.prov := by
  induction cs generalizing c with
  | nil => simp [run, lastSet]
  | cons x xs ih =>
    have hrun : run c (x :: xs) = run (step c x) xs := by simp [run]
    rw [hrun, ih (step c x), (step_ov c x).1, (step_ov c x).2]
    cases hl : lastSet xs with
    | some p => simp [lastSet, hl]
    | none =>
      rw [step_prov]
      cases x <;> simp [lastSet, hl]

/-- the internal link, once it exists, always carries the provider's current range -/
def LinkInv (c : Cfg) : Prop := ∀ r, c.link = some r → r = c.prov

theorem step_inv (c : Cfg) (x : Call) (h : LinkInv c) : LinkInv (step c x) := by
  cases x with
  | setPortRange s e =>
    intro r hr
    cases hl : c.link with
    | none => simp [step, hl] at hr
    | some l => simp [step, hl] at hr; simp [step, ← hr]
  | addInternal =>
    intro r hr
    cases hl : c.link with
    | none => simp [step, hl] at hr; simp [step, hl, ← hr]
    | some l => simp [step, hl] at hr ⊢; exact h r (by rw [hl, hr])
  | addExternal => exact h
  | addSibling => exact h
  | setKey => exact h
  | addSvc svc ip port =>
    intro r hr
    have : (step c (.addSvc svc ip port)).link = c.link ∧ (step c (.addSvc svc ip port)).prov = c.prov := by
      simp only [step]; split <;> (try split) <;> simp
    rw [this.1] at hr; rw [this.2]; exact h r hr
  | delSvc svc ip port =>
    intro r hr
    have : (step c (.delSvc svc ip port)).link = c.link ∧ (step c (.delSvc svc ip port)).prov = c.prov := by
      simp only [step]; split <;> simp
    rw [this.1] at hr; rw [this.2]; exact h r hr

theorem run_inv (c : Cfg) (cs : List Call) (h : LinkInv c) : LinkInv (run c cs) := by
  induction cs generalizing c with
  | nil => exact h
  | cons x xs ih =>
    have hrun : run c (x :: xs) = run (step c x) xs := by simp [run]
    rw [hrun]; exact ih _ (step_inv c x h)

theorem step_link_some (c : Cfg) (x : Call) (h : c.link.isSome = true) :
    (step c x).link.isSome = true := by
  cases hl : c.link with
  | none => simp [hl] at h
  | some l =>
    cases x <;> simp [step, hl] <;> (try split) <;> (try split) <;> simp [hl]

theorem run_link_some (c : Cfg) (cs : List Call)
    (h : c.link.isSome = true ∨ Call.addInternal ∈ cs) : (run c cs).link.isSome = true := by
  induction cs generalizing c with
  | nil =>
    rcases h with h | h
    · exact h
    · cases h
  | cons x xs ih =>
    have hrun : run c (x :: xs) = run (step c x) xs := by simp [run]
    rw [hrun]
    apply ih
    rcases h with h | h
    · exact Or.inl (step_link_some c x h)
    · rcases List.mem_cons.mp h with h | h
      · subst h
        left
        cases hl : c.link <;> simp [step, hl]
      · exact Or.inr h

theorem effective_range (ovStart ovStop : Option Nat) (cs : List Call) (s e : Nat)
    (hI : Call.addInternal ∈ cs) (hP : lastSet cs = some (s, e)) :
    (run (Cfg.init ovStart ovStop) cs).link = some (wanted ovStart ovStop s e) := by
  have hinv : LinkInv (run (Cfg.init ovStart ovStop) cs) :=
    run_inv _ cs (by intro r hr; simp [Cfg.init] at hr)
  have hsome := run_link_some (Cfg.init ovStart ovStop) cs (Or.inr hI)
  have hprov := run_prov (Cfg.init ovStart ovStop) cs
  rw [hP] at hprov
  cases hl : (run (Cfg.init ovStart ovStop) cs).link with
  | none => rw [hl] at hsome; simp at hsome
  | some r =>
    have := hinv r hl
    rw [this, hprov]; simp [Cfg.init]

theorem filter_cons_other (x : Call) (xs : List Call) (h : x.isSetPortRange = false) :
    (x :: xs).filter Call.isSetPortRange = xs.filter Call.isSetPortRange := by
  simp [List.filter, h]

theorem lastSet_cons_other (x : Call) (xs : List Call) (h : x.isSetPortRange = false) :
    lastSet (x :: xs) = lastSet xs := by
  cases x <;> first
    | (simp [Call.isSetPortRange] at h; done)
    | (simp only [lastSet]; cases lastSet xs <;> rfl)

theorem isSet_cases (x : Call) :
    (∃ a b, x = .setPortRange a b) ∨ x.isSetPortRange = false := by
  cases x <;> simp [Call.isSetPortRange]

theorem lastSet_none_of_filter (cs : List Call) (h : cs.filter Call.isSetPortRange = []) :
    lastSet cs = none := by
  induction cs with
  | nil => rfl
  | cons x xs ih =>
    rcases isSet_cases x with ⟨a, b, rfl⟩ | hx
    · simp [List.filter, Call.isSetPortRange] at h
    · rw [filter_cons_other x xs hx] at h
      rw [lastSet_cons_other x xs hx]; exact ih h

theorem lastSet_of_filter (cs : List Call) (s e : Nat)
    (h : cs.filter Call.isSetPortRange = [.setPortRange s e]) : lastSet cs = some (s, e) := by
  induction cs with
  | nil => simp at h
  | cons x xs ih =>
    rcases isSet_cases x with ⟨a, b, rfl⟩ | hx
    · have h' : Call.setPortRange a b :: xs.filter Call.isSetPortRange = [.setPortRange s e] := by
        simpa [List.filter, Call.isSetPortRange] using h
      injection h' with h1 h2
      injection h1 with ha hb
      subst ha; subst hb
      simp [lastSet, lastSet_none_of_filter xs h2]
    · rw [filter_cons_other x xs hx] at h
      rw [lastSet_cons_other x xs hx]; exact ih h

theorem config_order_irrelevant (ovStart ovStop : Option Nat) (cs cs' : List Call) (s e : Nat)
    (hperm : cs.Perm cs') (hI : Call.addInternal ∈ cs)
    (hP : cs.filter Call.isSetPortRange = [.setPortRange s e]) :
    (run (Cfg.init ovStart ovStop) cs').link = some (wanted ovStart ovStop s e) := by
  have hf : cs'.filter Call.isSetPortRange = [.setPortRange s e] := by
    have := (hperm.filter Call.isSetPortRange).symm
    rw [hP] at this
    exact List.perm_singleton.mp this
  exact effective_range ovStart ovStop cs' s e (hperm.mem_iff.mp hI) (lastSet_of_filter cs' s e hf)

/-! ### the text form of the range -/

theorem isDigit_ne_dash (c : Char) (h : isDigit c = true) : c ≠ '-' := by
  rintro rfl; exact absurd h (by decide)

theorem splitDash_ne_nil (l : List Char) : splitDash l ≠ [] := by
  induction l with
  | nil => simp [splitDash]
  | cons c cs ih =>
    simp only [splitDash]
    split
    · simp
    · split
      · exact absurd ‹_› ih
      · simp

theorem splitDash_digits (l : List Char) (h : l.all isDigit = true) : splitDash l = [l] := by
  induction l with
  | nil => rfl
  | cons c cs ih =>
    simp only [List.all_cons, Bool.and_eq_true] at h
    have hc := isDigit_ne_dash c h.1
    simp [splitDash, hc, ih h.2]

theorem splitDash_append (a b : List Char) (h : a.all isDigit = true) :
    splitDash (a ++ '-' :: b) = a :: splitDash b := by
  induction a with
  | nil => simp [splitDash]
  | cons c cs ih =>
    simp only [List.all_cons, Bool.and_eq_true] at h
    have hc := isDigit_ne_dash c h.1
    simp [splitDash, hc, ih h.2]

theorem parseU16_digits (l : List Char) (hne : l ≠ []) (h : l.all isDigit = true) :
    parseU16 l = if decVal l < 65536 then some (decVal l) else none := by
  have : l.isEmpty = false := by cases l <;> simp_all
  simp [parseU16, this, h]

theorem range_text_spec (da db : List Char) (ha : da ≠ []) (hb : db ≠ [])
    (hda : da.all isDigit = true) (hdb : db.all isDigit = true) :
    validatePortRange (da ++ '-' :: db) =
      if 1 ≤ decVal da ∧ decVal da ≤ decVal db ∧ decVal db ≤ 65535
      then some (decVal da, decVal db) else none := by
  obtain ⟨d, da', rfl⟩ := List.exists_cons_of_ne_nil ha
  have hd : isDigit d = true := by simp [List.all_cons] at hda; exact hda.1
  have h1 : ¬ ((d :: da') ++ '-' :: db = [] ∨ (d :: da') ++ '-' :: db = ['-']) := by
    simp
  have h2 : ¬ ((d :: da') ++ '-' :: db = ['a', 'l', 'l'] ∨ (d :: da') ++ '-' :: db = ['A', 'L', 'L']) := by
    simp; constructor <;> (rintro rfl; exact absurd hd (by decide))
  have hs : splitDash ((d :: da') ++ '-' :: db) = [d :: da', db] := by
    rw [splitDash_append _ _ hda, splitDash_digits _ hdb]
  unfold validatePortRange
  rw [if_neg h1, if_neg h2, hs]
  simp only [parseU16_digits _ ha hda, parseU16_digits _ hb hdb]
  by_cases hx : decVal (d :: da') < 65536 <;> by_cases hy : decVal db < 65536 <;>
    simp only [hx, hy, if_true, if_false]
  · by_cases c1 : decVal (d :: da') < 1
    · have : ¬ (1 ≤ decVal (d :: da') ∧ decVal (d :: da') ≤ decVal db ∧ decVal db ≤ 65535) := by omega
      simp [c1, this]
    · by_cases c2 : decVal db < 1
      · have : ¬ (1 ≤ decVal (d :: da') ∧ decVal (d :: da') ≤ decVal db ∧ decVal db ≤ 65535) := by omega
        simp [c1, c2, this]
      · by_cases c3 : decVal (d :: da') > decVal db
        · have : ¬ (1 ≤ decVal (d :: da') ∧ decVal (d :: da') ≤ decVal db ∧ decVal db ≤ 65535) := by omega
          simp [c1, c2, c3, this]
        · have : 1 ≤ decVal (d :: da') ∧ decVal (d :: da') ≤ decVal db ∧ decVal db ≤ 65535 := by omega
          simp [c1, c2, c3, this]
  · have : ¬ (1 ≤ decVal (d :: da') ∧ decVal (d :: da') ≤ decVal db ∧ decVal db ≤ 65535) := by omega
    simp [this]
  · have : ¬ (1 ≤ decVal (d :: da') ∧ decVal (d :: da') ≤ decVal db ∧ decVal db ≤ 65535) := by omega
    simp [this]
  · have : ¬ (1 ≤ decVal (d :: da') ∧ decVal (d :: da') ≤ decVal db ∧ decVal db ≤ 65535) := by omega
    simp [this]

end Scion.C11.Proofs
