import Scion.Proofs.AddrDigits
/-! What the parsers of `Scion.Model.Addr` accept: exact characterisations against an independent
denotation of digit strings (`ofDigits`). -/
namespace Scion.Addr

/-- `c` is a digit of base `b` for `strconv.ParseUint` -/
def IsDigit (b : Nat) (c : Char) : Prop := ∃ d, digitVal c = some d ∧ d < b

/-- value of a digit string read in base `b` (characters that are no digits count 0; only used
    under `∀ c ∈ s, IsDigit b c`) -/
def ofDigitsAcc (b : Nat) : Nat → Str → Nat
  | acc, [] => acc
  | acc, c :: cs =>
    match digitVal c with
    | some d => ofDigitsAcc b (acc * b + d) cs
    | none => ofDigitsAcc b (acc * b) cs

def ofDigits (b : Nat) (s : Str) : Nat := ofDigitsAcc b 0 s

theorem le_ofDigitsAcc (b : Nat) (hb : 1 ≤ b) : ∀ s acc, acc ≤ ofDigitsAcc b acc s := by
  intro s
  induction s with
  | nil => intro acc; exact Nat.le_refl _
  | cons c cs ih =>
    intro acc
    have h1 : acc ≤ acc * b := Nat.le_mul_of_pos_right acc hb
    simp only [ofDigitsAcc]
    split
    · rename_i d _
      exact Nat.le_trans (by omega) (ih (acc * b + d))
    · exact Nat.le_trans h1 (ih (acc * b))

theorem parseUintGo_ok_iff (b M : Nat) (hb : 1 ≤ b) : ∀ s acc v,
    parseUintGo b M acc s = .ok v ↔
      (∀ c ∈ s, IsDigit b c) ∧ ofDigitsAcc b acc s = v ∧ (s ≠ [] → v ≤ M) := by
  intro s
  induction s with
  | nil => intro acc v; simp [parseUintGo, ofDigitsAcc]
  | cons c cs ih =>
    intro acc v
    simp only [parseUintGo, ofDigitsAcc, List.mem_cons, forall_eq_or_imp, ne_eq, reduceCtorEq,
      not_false_eq_true, forall_const]
    cases hd : digitVal c with
    | none =>
      simp only [reduceCtorEq, false_iff, not_and]
      intro h; obtain ⟨d, hd', _⟩ := h.1; rw [hd] at hd'; cases hd'
    | some d =>
      simp only
      by_cases h1 : b ≤ d
      · simp only [h1, if_true, reduceCtorEq, false_iff, not_and]
        intro h; obtain ⟨d', hd', hlt⟩ := h.1
        rw [hd] at hd'; cases hd'; omega
      · simp only [h1, if_false]
        by_cases h2 : M < acc * b + d
        · simp only [h2, if_true, reduceCtorEq, false_iff, not_and]
          intro _ hv
          have := le_ofDigitsAcc b hb cs (acc * b + d)
          omega
        · simp only [h2, if_false, ih]
          constructor
          · rintro ⟨hall, hv, hM⟩
            refine ⟨⟨⟨d, hd, by omega⟩, hall⟩, hv, ?_⟩
            cases cs with
            | nil => simp only [ofDigitsAcc] at hv; omega
            | cons x xs => exact hM (by simp)
          · rintro ⟨⟨_, hall⟩, hv, hM⟩
            exact ⟨hall, hv, fun _ => hM⟩

/-- **`strconv.ParseUint` accepts exactly the non-empty digit strings whose value fits**, and
    returns that value -/
theorem parseUint_ok_iff (b bits : Nat) (hb : 1 ≤ b) (s : Str) (v : Nat) :
    parseUint b bits s = .ok v ↔
      s ≠ [] ∧ (∀ c ∈ s, IsDigit b c) ∧ ofDigits b s = v ∧ v < 2 ^ bits := by
  have hpos : 0 < 2 ^ bits := Nat.two_pow_pos bits
  cases s with
  | nil => simp [parseUint]
  | cons c cs =>
    simp only [parseUint, parseUintGo_ok_iff b _ hb, ofDigits, ne_eq, reduceCtorEq,
      not_false_eq_true, forall_const, true_and]
    constructor
    · rintro ⟨h1, h2, h3⟩; exact ⟨h1, h2, by omega⟩
    · rintro ⟨h1, h2, h3⟩; exact ⟨h1, h2, by omega⟩

theorem parseUint_error_of_not_ok (b bits : Nat) (s : Str) (h : ∀ v, parseUint b bits s ≠ .ok v) :
    ∃ e, parseUint b bits s = .error e := by
  cases hr : parseUint b bits s with
  | ok v => exact absurd hr (h v)
  | error e => exact ⟨e, rfl⟩

/-! ### `strings.Split` at a single character: the parts contain no separator and joining them
with the separator gives the string back -/

def joinWith (c : Char) : List Str → Str
  | [] => []
  | [p] => p
  | p :: q :: ps => p ++ c :: joinWith c (q :: ps)

theorem splitGo_single_spec (c : Char) : ∀ s : Str,
    splitGo [c] 0 s ≠ [] ∧ joinWith c (splitGo [c] 0 s) = s ∧ ∀ p ∈ splitGo [c] 0 s, c ∉ p := by
  intro s
  induction s with
  | nil => simp [splitGo, joinWith]
  | cons x xs ih =>
    obtain ⟨hne, hj, hall⟩ := ih
    by_cases hx : c = x
    · subst hx
      have e : splitGo [c] 0 (c :: xs) = [] :: splitGo [c] 0 xs := by
        simp [splitGo, List.isPrefixOf]
      rw [e]
      refine ⟨by simp, ?_, ?_⟩
      · cases hs : splitGo [c] 0 xs with
        | nil => exact absurd hs hne
        | cons q qs => rw [hs] at hj; simp [joinWith, hj]
      · intro p hp
        simp only [List.mem_cons] at hp
        rcases hp with rfl | hp
        · simp
        · exact hall p hp
    · have e : splitGo [c] 0 (x :: xs) = consHead x (splitGo [c] 0 xs) := by
        simp [splitGo, List.isPrefixOf, hx]
      rw [e]
      cases hs : splitGo [c] 0 xs with
      | nil => exact absurd hs hne
      | cons q qs =>
        rw [hs] at hj hall
        refine ⟨by simp [consHead], ?_, ?_⟩
        · cases qs with
          | nil => simp only [joinWith] at hj; simp [consHead, joinWith, hj]
          | cons r rs => simp only [joinWith] at hj; simp [consHead, joinWith, hj]
        · intro p hp
          simp only [consHead, List.mem_cons] at hp
          rcases hp with rfl | hp
          · have := hall q (by simp)
            simp only [List.mem_cons, not_or]
            exact ⟨hx, this⟩
          · exact hall p (by simp [hp])

theorem split_single_spec (c : Char) (s : Str) :
    joinWith c (split [c] s) = s ∧ ∀ p ∈ split [c] s, c ∉ p := by
  have := splitGo_single_spec c s
  simp only [split]
  exact ⟨this.2.1, this.2.2⟩

/-! ### service names -/

theorem trimSuffix?_some (suf s t : Str) (h : trimSuffix? suf s = some t) : s = t ++ suf := by
  unfold trimSuffix? at h
  split at h
  · rename_i hs
    cases h
    rw [List.isSuffixOf_iff_suffix] at hs
    obtain ⟨t', rfl⟩ := hs
    simp
  · cases h

theorem parseSVCBase_ok (m : Nat) (s : Str) (v : Nat) (h : parseSVCBase m s = .ok v) :
    s = nameDS ∧ v = svcDS + m ∨ s = nameCS ∧ v = svcCS + m ∨ s = nameWildcard ∧ v = svcWildcard + m := by
  unfold parseSVCBase at h
  split at h
  · cases h; exact Or.inl ⟨‹_›, rfl⟩
  · split at h
    · cases h; exact Or.inr (Or.inl ⟨‹_›, rfl⟩)
    · split at h
      · cases h; exact Or.inr (Or.inr ⟨‹_›, rfl⟩)
      · cases h

/-- `ParseSVC` accepts exactly `NAME`, `NAME_A` (anycast) and `NAME_M` (multicast) -/
theorem parseSVC_ok_iff (s : Str) (v : Nat) :
    parseSVC s = .ok v ↔
      ∃ n base, (n = nameDS ∧ base = svcDS ∨ n = nameCS ∧ base = svcCS ∨
                 n = nameWildcard ∧ base = svcWildcard) ∧
        (s = n ∧ v = base ∨ s = n ++ sufA ∧ v = base ∨ s = n ++ sufM ∧ v = base + svcMcast) := by
  constructor
  · intro h
    unfold parseSVC at h
    split at h
    · rename_i t ht
      have hs := trimSuffix?_some _ _ _ ht
      rcases parseSVCBase_ok 0 t v h with ⟨h1, h2⟩ | ⟨h1, h2⟩ | ⟨h1, h2⟩
      · exact ⟨nameDS, svcDS, Or.inl ⟨rfl, rfl⟩, Or.inr (Or.inl ⟨by rw [hs, h1], by simpa using h2⟩)⟩
      · exact ⟨nameCS, svcCS, Or.inr (Or.inl ⟨rfl, rfl⟩), Or.inr (Or.inl ⟨by rw [hs, h1], by simpa using h2⟩)⟩
      · exact ⟨nameWildcard, svcWildcard, Or.inr (Or.inr ⟨rfl, rfl⟩),
          Or.inr (Or.inl ⟨by rw [hs, h1], by simpa using h2⟩)⟩
    · split at h
      · rename_i t ht
        have hs := trimSuffix?_some _ _ _ ht
        rcases parseSVCBase_ok svcMcast t v h with ⟨h1, h2⟩ | ⟨h1, h2⟩ | ⟨h1, h2⟩
        · exact ⟨nameDS, svcDS, Or.inl ⟨rfl, rfl⟩, Or.inr (Or.inr ⟨by rw [hs, h1], h2⟩)⟩
        · exact ⟨nameCS, svcCS, Or.inr (Or.inl ⟨rfl, rfl⟩), Or.inr (Or.inr ⟨by rw [hs, h1], h2⟩)⟩
        · exact ⟨nameWildcard, svcWildcard, Or.inr (Or.inr ⟨rfl, rfl⟩), Or.inr (Or.inr ⟨by rw [hs, h1], h2⟩)⟩
      · rcases parseSVCBase_ok 0 s v h with ⟨h1, h2⟩ | ⟨h1, h2⟩ | ⟨h1, h2⟩
        · exact ⟨nameDS, svcDS, Or.inl ⟨rfl, rfl⟩, Or.inl ⟨h1, by simpa using h2⟩⟩
        · exact ⟨nameCS, svcCS, Or.inr (Or.inl ⟨rfl, rfl⟩), Or.inl ⟨h1, by simpa using h2⟩⟩
        · exact ⟨nameWildcard, svcWildcard, Or.inr (Or.inr ⟨rfl, rfl⟩), Or.inl ⟨h1, by simpa using h2⟩⟩
  · rintro ⟨n, base, (⟨rfl, rfl⟩ | ⟨rfl, rfl⟩ | ⟨rfl, rfl⟩), (⟨rfl, rfl⟩ | ⟨rfl, rfl⟩ | ⟨rfl, rfl⟩)⟩ <;> decide



/-! characters of the printed texts -/
def IAChar (c : Char) : Prop := (∃ d, d < 16 ∧ c = digitChar d) ∨ c = '-' ∨ c = ':'

theorem mem_fmtAS_colon (as : Nat) (h : as < 2 ^ 48) (c : Char) (hc : c ∈ fmtAS [':'] as) : IAChar c := by
  have h1 : ¬ maxAS < as := by simp only [maxAS]; omega
  unfold fmtAS at hc
  simp only [h1, if_false] at hc
  split at hc
  · obtain ⟨d, hd, rfl⟩ := mem_toDigits 10 (by omega) _ c hc
    exact Or.inl ⟨d, by omega, rfl⟩
  · simp only [List.mem_append, List.mem_singleton] at hc
    rcases hc with (((hc | hc) | hc) | hc) | hc
    · obtain ⟨d, hd, rfl⟩ := mem_toDigits 16 (by omega) _ c hc; exact Or.inl ⟨d, hd, rfl⟩
    · exact Or.inr (Or.inr hc)
    · obtain ⟨d, hd, rfl⟩ := mem_toDigits 16 (by omega) _ c hc; exact Or.inl ⟨d, hd, rfl⟩
    · exact Or.inr (Or.inr hc)
    · obtain ⟨d, hd, rfl⟩ := mem_toDigits 16 (by omega) _ c hc; exact Or.inl ⟨d, hd, rfl⟩

theorem mem_fmtIA (ia : Nat) (c : Char) (hc : c ∈ fmtIA ia) : IAChar c := by
  unfold fmtIA fmtISD at hc
  simp only [List.mem_append, List.mem_singleton] at hc
  rcases hc with (hc | hc) | hc
  · obtain ⟨d, hd, rfl⟩ := mem_toDigits 10 (by omega) _ c hc
    exact Or.inl ⟨d, by omega, rfl⟩
  · exact Or.inr (Or.inl hc)
  · exact mem_fmtAS_colon _ (by simp only [iaAS]; omega) c hc

theorem not_IAChar_comma : ¬ IAChar ',' := by
  rintro (⟨d, hd, h⟩ | h | h)
  · revert d; decide
  · cases h
  · cases h
theorem not_IAChar_lbr : ¬ IAChar '[' := by
  rintro (⟨d, hd, h⟩ | h | h)
  · revert d; decide
  · cases h
  · cases h
theorem not_IAChar_rbr : ¬ IAChar ']' := by
  rintro (⟨d, hd, h⟩ | h | h)
  · revert d; decide
  · cases h
  · cases h

theorem splitFirst_append (c : Char) : ∀ (a b : Str), c ∉ a → splitFirst c (a ++ c :: b) = some (a, b) := by
  intro a
  induction a with
  | nil => intro b _; simp [splitFirst]
  | cons x xs ih =>
    intro b h
    simp only [List.mem_cons, not_or] at h
    have hx : ¬ x = c := fun e => h.1 e.symm
    simp [splitFirst, hx, ih b h.2]

theorem firstIndex_append (c : Char) : ∀ (a b : Str), c ∉ a → firstIndex c (a ++ c :: b) = some a.length := by
  intro a
  induction a with
  | nil => intro b _; simp [firstIndex]
  | cons x xs ih =>
    intro b h
    simp only [List.mem_cons, not_or] at h
    have hx : ¬ x = c := fun e => h.1 e.symm
    simp [firstIndex, hx, ih b h.2]

theorem lastIndex_none (c : Char) : ∀ s : Str, c ∉ s → lastIndex c s = none := by
  intro s
  induction s with
  | nil => intro _; rfl
  | cons x xs ih =>
    intro h
    simp only [List.mem_cons, not_or] at h
    have hx : ¬ x = c := fun e => h.1 e.symm
    simp [lastIndex, ih h.2, hx]

theorem lastIndex_append (c : Char) : ∀ (a b : Str), c ∉ b → lastIndex c (a ++ c :: b) = some a.length := by
  intro a
  induction a with
  | nil => intro b h; simp [lastIndex, lastIndex_none c b h]
  | cons x xs ih =>
    intro b h
    simp [lastIndex, ih b h]


end Scion.Addr

namespace Scion.Addr
/-- whatever `parseAS` accepts is an AS number -/
theorem parseAS_lt (sep s : Str) (v : Nat) (h : parseAS sep s = .ok v) : v < 2 ^ 48 := by
  unfold parseAS at h
  split at h
  · have := ((parseUint_ok_iff 10 bgpASBits (by omega) s v).1 h).2.2.2
    simp only [bgpASBits] at this
    omega
  · split at h
    · cases h
    · split at h
      · cases h
      · split at h
        · cases h
        · dsimp only at h
          split at h
          · cases h
          · rename_i hlt
            cases h
            simp only [maxAS] at hlt
            omega
  · cases h
end Scion.Addr
