import Scion.Proofs.AddrRoundTrip
/-! `strings.Split` with a separator of any length that contains a character the digit groups
cannot contain: the separator cannot start inside a group. -/
namespace Scion.Addr

/-- a string that is a prefix of `t ++ itself` for a non-empty `t` all of whose characters have
    property `P` consists of such characters only (it is a power of `t`, cut off) -/
theorem all_of_prefix_shift (P : Char → Prop) (t : Str) (ht : t ≠ []) (hP : ∀ c ∈ t, P c) :
    ∀ (n : Nat) (s : Str), s.length ≤ n → s <+: t ++ s → ∀ c ∈ s, P c := by
  intro n
  induction n with
  | zero =>
    intro s hl _ c hc
    have : s = [] := List.length_eq_zero_iff.1 (by omega)
    subst this; simp at hc
  | succ n ih =>
    intro s hl hpre
    by_cases hle : s.length ≤ t.length
    · have : s <+: t := List.prefix_of_prefix_length_le hpre (List.prefix_append t s) hle
      intro c hc
      exact hP c (this.subset hc)
    · have htp : t <+: s :=
        List.prefix_of_prefix_length_le (List.prefix_append t s) hpre (by omega)
      obtain ⟨s', rfl⟩ := htp
      have hpre' : s' <+: t ++ s' := by
        exact (List.prefix_append_right_inj t).1 hpre
      have hlen : 0 < t.length := List.length_pos_iff.2 ht
      have hl' : s'.length ≤ n := by
        simp only [List.length_append] at hl
        omega
      have := ih s' hl' hpre'
      intro c hc
      simp only [List.mem_append] at hc
      rcases hc with hc | hc
      · exact hP c hc
      · exact this c hc

/-- the separator does not occur at a position inside a digit group -/
theorem no_occurrence (P : Char → Prop) (sep t rest : Str) (ht : t ≠ []) (hP : ∀ c ∈ t, P c)
    (hX : ∃ c ∈ sep, ¬ P c) : ¬ sep <+: t ++ (sep ++ rest) := by
  intro h
  have h2 : t ++ sep <+: t ++ (sep ++ rest) := by
    rw [← List.append_assoc]; exact List.prefix_append _ _
  have h3 : sep <+: t ++ sep :=
    List.prefix_of_prefix_length_le h h2 (by simp)
  obtain ⟨c, hc, hn⟩ := hX
  exact hn (all_of_prefix_shift P t ht hP sep.length sep (Nat.le_refl _) h3 c hc)

theorem splitGo_skip (sep : Str) : ∀ (pre rest : Str),
    splitGo sep pre.length (pre ++ rest) = splitGo sep 0 rest := by
  intro pre
  induction pre with
  | nil => intro rest; rfl
  | cons x xs ih =>
    intro rest
    simp only [List.length_cons, List.cons_append, splitGo]
    exact ih rest

theorem splitGo_multi_notin (P : Char → Prop) (sep : Str) (hX : ∃ c ∈ sep, ¬ P c) :
    ∀ g : Str, (∀ c ∈ g, P c) → splitGo sep 0 g = [g] := by
  intro g
  induction g with
  | nil => intro _; rfl
  | cons x xs ih =>
    intro hg
    have hnp : sep.isPrefixOf (x :: xs) = false := by
      cases hp : sep.isPrefixOf (x :: xs) with
      | false => rfl
      | true =>
        have hp' := List.isPrefixOf_iff_prefix.1 hp
        obtain ⟨c, hc, hn⟩ := hX
        exact absurd (hg c (hp'.subset hc)) hn
    simp only [splitGo, hnp, Bool.false_eq_true, if_false,
      ih (fun c hc => hg c (by simp [hc])), consHead]

theorem splitGo_multi_append (P : Char → Prop) (sep : Str) (hX : ∃ c ∈ sep, ¬ P c) :
    ∀ (g rest : Str), (∀ c ∈ g, P c) →
      splitGo sep 0 (g ++ (sep ++ rest)) = g :: splitGo sep 0 rest := by
  intro g
  induction g with
  | nil =>
    intro rest _
    cases sep with
    | nil => obtain ⟨c, hc, _⟩ := hX; simp at hc
    | cons s0 sep' =>
      have hp : (s0 :: sep').isPrefixOf (s0 :: (sep' ++ rest)) = true := by
        rw [List.isPrefixOf_iff_prefix]
        exact ⟨rest, by simp⟩
      simp only [List.nil_append, List.cons_append, splitGo, hp, if_true, List.length_cons,
        Nat.add_sub_cancel]
      rw [splitGo_skip]
  | cons x xs ih =>
    intro rest hg
    have hnp : sep.isPrefixOf (x :: (xs ++ (sep ++ rest))) = false := by
      cases hp : sep.isPrefixOf (x :: (xs ++ (sep ++ rest))) with
      | false => rfl
      | true =>
        have hp' := List.isPrefixOf_iff_prefix.1 hp
        exact absurd hp' (no_occurrence P sep (x :: xs) rest (by simp) hg hX)
    simp only [List.cons_append, splitGo, hnp, Bool.false_eq_true, if_false,
      ih rest (fun c hc => hg c (by simp [hc])), consHead]

/-- digit-group characters -/
def IsDigitChar (c : Char) : Prop := ∃ d, d < 16 ∧ c = digitChar d

theorem toDigits_isDigitChar (b : Nat) (hb : 2 ≤ b) (hb' : b ≤ 16) (n : Nat) :
    ∀ c ∈ toDigits b n, IsDigitChar c := by
  intro c hc
  obtain ⟨d, hd, rfl⟩ := mem_toDigits b hb n c hc
  exact ⟨d, by omega, rfl⟩

/-- AS round trip for a separator string of any length containing a character that is not one of
    the sixteen digit characters -/
theorem parseAS_fmtAS_str (sep : Str) (hX : ∃ c ∈ sep, ¬ IsDigitChar c) (as : Nat)
    (h : as < 2 ^ 48) : parseAS sep (fmtAS sep as) = .ok as := by
  have h1 : ¬ maxAS < as := by simp only [maxAS]; omega
  have hne : sep ≠ [] := by
    intro e; subst e; obtain ⟨c, hc, _⟩ := hX; simp at hc
  have hsplit : ∀ s, split sep s = splitGo sep 0 s := by
    intro s
    cases sep with
    | nil => exact absurd rfl hne
    | cons _ _ => rfl
  unfold fmtAS
  simp only [h1, if_false]
  split
  · rename_i hle
    have hlt : as < 2 ^ 32 := by simp only [maxBGPAS] at hle; omega
    unfold parseAS
    rw [hsplit, splitGo_multi_notin IsDigitChar sep hX _ (toDigits_isDigitChar 10 (by omega) (by omega) as)]
    exact parseUint_toDigits 10 32 as (by omega) (by omega) hlt
  · have e : toDigits 16 (as / 2 ^ 32 % 2 ^ 16) ++ sep ++ toDigits 16 (as / 2 ^ 16 % 2 ^ 16) ++ sep ++
        toDigits 16 (as % 2 ^ 16) =
        toDigits 16 (as / 2 ^ 32 % 2 ^ 16) ++ (sep ++ (toDigits 16 (as / 2 ^ 16 % 2 ^ 16) ++ (sep ++
        toDigits 16 (as % 2 ^ 16)))) := by simp
    unfold parseAS
    rw [hsplit, e, splitGo_multi_append IsDigitChar sep hX _ _ (toDigits_isDigitChar 16 (by omega) (by omega) _),
      splitGo_multi_append IsDigitChar sep hX _ _ (toDigits_isDigitChar 16 (by omega) (by omega) _),
      splitGo_multi_notin IsDigitChar sep hX _ (toDigits_isDigitChar 16 (by omega) (by omega) _)]
    simp only [asPartBase, asPartBits]
    rw [parseUint_toDigits 16 16 _ (by omega) (by omega) (Nat.mod_lt _ (by omega)),
      parseUint_toDigits 16 16 _ (by omega) (by omega) (Nat.mod_lt _ (by omega)),
      parseUint_toDigits 16 16 _ (by omega) (by omega) (Nat.mod_lt _ (by omega))]
    have hv : (as / 2 ^ 32 % 2 ^ 16 * 2 ^ 16 + as / 2 ^ 16 % 2 ^ 16) * 2 ^ 16 + as % 2 ^ 16 = as := by
      omega
    simp only [hv, h1, if_false]

end Scion.Addr
