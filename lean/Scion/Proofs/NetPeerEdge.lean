import Scion.Proofs.NetPeer
import Scion.Proofs.NetSpecEdge
/-! Peering paths, from chains and edges to runs.  Core Lean only. -/
namespace Scion.Net
open Scion.SegID (updateSegID extractBeta xorAll calculateBeta)

/-- interfaces crossed along consecutive entries, construction order -/
def chainTrace : ASE → List ASE → List (Nat × Nat)
  | _, [] => []
  | x, y :: r => (x.ia, x.hop.cEg) :: (y.ia, y.hop.cIn) :: chainTrace y r

def lastOf : ASE → List ASE → ASE
  | x, [] => x
  | _, y :: r => lastOf y r

theorem lastOf_snoc (x : ASE) (mid : List ASE) (last : ASE) : lastOf x (mid ++ [last]) = last := by
  induction mid generalizing x with
  | nil => rfl
  | cons y r ih => simp [lastOf, ih]

theorem chainTrace_snoc (x : ASE) (mid : List ASE) (last : ASE) :
    chainTrace x (mid ++ [last]) = downTrace (x :: mid) last := by
  induction mid generalizing x with
  | nil => simp [chainTrace, downTrace, firstOf]
  | cons y r ih => simp [chainTrace, downTrace, firstOf, ih]

theorem exists_snoc (y : ASE) (r : List ASE) : ∃ mid last, y :: r = mid ++ [last] :=
  ⟨(y :: r).dropLast, (y :: r).getLast (by simp), (List.dropLast_concat_getLast (by simp)).symm⟩

/-- metadata interfaces of the entries from `x` on -/
theorem consIfaces_chain (mac : MacFn) (net : Net) (core : Bool) (ts : Nat) (rest : List ASE) :
    ∀ (x : ASE) (β : Nat), Chain mac net core ts β (x :: rest) → (lastOf x rest).hop.cEg = 0 →
      (if x.hop.cEg ≠ 0 then [(x.ia, x.hop.cEg)] else []) ++
        (rest.map fun y => [(y.ia, y.hop.cIn)] ++ (if y.hop.cEg ≠ 0 then [(y.ia, y.hop.cEg)] else [])).flatten
      = chainTrace x rest := by
  induction rest with
  | nil => intro x β _ h0; simp [lastOf] at h0; simp [chainTrace, h0]
  | cons y r ih =>
    intro x β hc h0
    simp only [Chain] at hc
    obtain ⟨_, ⟨f, _, _, _, _, hx0⟩, hrest⟩ := hc
    have := ih y _ hrest (by simpa [lastOf] using h0)
    simp only [List.map_cons, List.flatten_cons, chainTrace, hx0, ne_eq, not_false_eq_true, if_true]
    rw [← this]
    simp

theorem edge_split' (e : Edge) (h : e.shortcut < e.seg.entries.length) :
    ∃ pre x rest, e.seg.entries = pre ++ x :: rest ∧ pre.length = e.shortcut := by
  obtain ⟨x, rest, hd⟩ : ∃ x rest, e.seg.entries.drop e.shortcut = x :: rest := by
    cases hh : e.seg.entries.drop e.shortcut with
    | nil => simp at hh; omega
    | cons x rest => exact ⟨x, rest, rfl⟩
  exact ⟨e.seg.entries.take e.shortcut, x, rest, by rw [← hd, List.take_append_drop], by simp; omega⟩

theorem lastOf_getLast (x : ASE) (rest : List ASE) : (x :: rest).getLast? = some (lastOf x rest) := by
  induction rest generalizing x with
  | nil => rfl
  | cons y r ih => rw [List.getLast?_cons_cons, ih]; rfl

/-- what every peering edge provides -/
theorem peer_edge_common (mac : MacFn) (net : Net) (e : Edge) (k : Nat) (hpeer : e.peer = some k)
    (hval : e.Valid mac net) :
    ∃ pre x rest p, e.seg.entries = pre ++ x :: rest ∧ pre.length = e.shortcut ∧
      x.peers[k]? = some p ∧
      Chain mac net e.core e.seg.ts (extractBeta e.seg.s0 (sig pre)) (x :: rest) ∧
      (lastOf x rest).hop.cEg = 0 := by
  obtain ⟨hreg, hlt, _, _, hpk⟩ := hval
  obtain ⟨pre, x, rest, hent, hpl⟩ := edge_split' e hlt
  obtain ⟨x', p, hx', hp⟩ := hpk k hpeer
  have hxx : x' = x := by
    rw [hent, ← hpl] at hx'
    simp at hx'; exact hx'.symm
  subst hxx
  obtain ⟨hchain, _, ⟨last', hlast', hlast0⟩, _⟩ := registered_chain mac net e.core e.seg hreg
  rw [hent] at hchain hlast'
  refine ⟨pre, x', rest, p, hent, hpl, hp, chain_drop mac net e.core e.seg.ts e.seg.s0 pre _ hchain, ?_⟩
  rw [List.getLast?_append, lastOf_getLast] at hlast'
  simp at hlast'
  rw [hlast']; exact hlast0

/-- SegID path combination gives an up segment that ends in a peering hop -/
def upStart (β : Nat) (x : ASE) (rest : List ASE) : Nat :=
  match rest with
  | [] => updateSegID β (pfx x.hop.mac)
  | _ :: _ => extractBeta β (sig ((x :: rest).dropLast))

theorem upStart_snoc (β : Nat) (x : ASE) (mid : List ASE) (last : ASE) :
    upStart β x (mid ++ [last]) = extractBeta β (sig (x :: mid)) := by
  have h : x :: (mid ++ [last]) = (x :: mid) ++ [last] := by simp
  cases mid with
  | nil => simp [upStart, sig, extractBeta]
  | cons y ys =>
    simp only [upStart, List.cons_append]
    rw [show x :: y :: (ys ++ [last]) = (x :: y :: ys) ++ [last] by simp, List.dropLast_concat]

section
variable (mac : MacFn) (net : Net) (now src dst : Nat) (ts : Nat)
variable (hWF : WFNet net) (hUp : AllUp net) (hSR : SingleRouter net)
include hWF hUp hSR

/-- the down segment of a peering path, any length: from the arrival over the peering link at the
    AS of `xD` to the delivery in the last AS -/
theorem peer_down_run (β : Nat) (xD : ASE) (rest : List ASE) (pD : PeerE) (hpD : pD ∈ xD.peers)
    (hc : Chain mac net false ts β (xD :: rest))
    (hdst : dst = (lastOf xD rest).ia) (hsd : src ≠ dst)
    (hns : ∀ e ∈ xD :: rest, e.ia ≠ src) (hnd : ((xD :: rest).map (·.ia)).Nodup)
    (hexp : ∀ e ∈ rest, expired now ts e.hop.exp = false) (hexpp : expired now ts pD.hop.exp = false)
    (s0 : Seg) (fuel : Nat) (tr0 : List (Nat × Nat)) :
    ∃ cf, run mac net now src dst (fuel + 1 + rest.length) xD.ia 0 (.ext pD.hop.cIn)
        ⟨[s0], ⟨true, true, updateSegID β (pfx xD.hop.mac), ts⟩, [], hopOf pD.hop,
          rest.map (fun e => hopOf e.hop), []⟩ tr0 =
      .delivered dst (tr0 ++ chainTrace xD rest) cf ∧
      reverseCursor cf = mkCur [] ⟨false, true, upStart β xD rest, ts⟩ []
        (rest.reverse.map (fun e => hopOf e.hop) ++ [hopOf pD.hop]) [revSeg s0] := by
  cases rest with
  | nil =>
    simp only [Chain] at hc
    obtain ⟨fp, hfp, _, _, _, _, hpmac⟩ := hc.2 pD hpD
    have := peer_down_single_run mac net now src dst ts (updateSegID β (pfx xD.hop.mac)) xD pD hpmac
      (hWF _ _ _ hfp).1 (by simpa [lastOf] using hdst) hsd hexpp s0 fuel tr0
    exact ⟨_, by simpa [chainTrace] using this,
      by simp [reverseCursor, mkCur, upStart, flipInfo]⟩
  | cons y r =>
    obtain ⟨mid, last, hml⟩ := exists_snoc y r
    rw [hml] at hc hdst hns hnd hexp ⊢
    rw [lastOf_snoc] at hdst
    have hFL := chain_FL mac net false ts hWF _ _ hc
    obtain ⟨hxl, hmidn⟩ := nd_facts xD mid last hnd
    have := peer_down_multi_run mac net now src dst ts hWF hUp hSR β xD mid last pD hpD hFL hdst hsd
      (hns xD (by simp)) (by rw [hdst]; exact hxl)
      (fun e he => ⟨hns e (by simp [he]), by rw [hdst]; exact (hmidn e he).2, hexp e (by simp [he])⟩)
      (hexp last (by simp)) hexpp s0 fuel tr0
    have hl : (mid ++ [last]).length = mid.length + 1 := by simp
    rw [hl, show fuel + 1 + (mid.length + 1) = fuel + 2 + mid.length by omega, List.map_append]
    simp only [List.map_cons, List.map_nil]
    have htr : chainTrace xD (mid ++ [last]) = (xD.ia, xD.hop.cEg) ::
        ((firstOf mid last).ia, (firstOf mid last).hop.cIn) :: fTrace true mid last := by
      rw [chainTrace_snoc]; simp [downTrace, downTrace_eq]
    rw [this, htr]
    refine ⟨_, rfl, ?_⟩
    rw [upStart_snoc]
    simp [reverseCursor, mkCur, flipInfo, List.map_reverse, sig, extractBeta]

/-- the up segment of a peering path, any length: from a host of the last AS of the used part to
    the arrival, over the peering link, at the peering AS of the down segment -/
theorem peer_up_run (β : Nat) (x : ASE) (rest : List ASE) (pU : PeerE) (hpU : pU ∈ x.peers)
    (hc : Chain mac net false ts β (x :: rest))
    (hsrc : src = (lastOf x rest).ia) (hsd : src ≠ dst)
    (hnd' : ∀ e ∈ x :: rest, e.ia ≠ dst) (hnd : ((x :: rest).map (·.ia)).Nodup)
    (hexp : ∀ e ∈ rest, expired now ts e.hop.exp = false) (hexpp : expired now ts pU.hop.exp = false)
    (i1 : Info) (h1 : Hop) (t1 : List Hop) (fuel : Nat) :
    ∃ g sU, (net pU.peerAS).iface pU.peerIf = some g ∧
      run mac net now src dst (fuel + 1 + rest.length) src 0 .host
        (mkCur [] ⟨false, true, upStart β x rest, ts⟩ []
          (rest.reverse.map (fun e => hopOf e.hop) ++ [hopOf pU.hop]) [⟨i1, h1 :: t1⟩]) [] =
      run mac net now src dst fuel pU.peerAS 0 (.ext pU.peerIf) ⟨[sU], i1, [], h1, t1, []⟩
        ((chainTrace x rest).reverse ++ [(x.ia, pU.hop.cIn), (pU.peerAS, pU.peerIf)]) ∧
      revSeg sU = ⟨⟨true, true, updateSegID β (pfx x.hop.mac), ts⟩,
        hopOf pU.hop :: rest.map (fun e => hopOf e.hop)⟩ := by
  cases rest with
  | nil =>
    simp only [Chain] at hc
    obtain ⟨fp, hfp, _, hpas, hpif, _, hpmac⟩ := hc.2 pU hpU
    obtain ⟨g, hg, hrun⟩ := peer_up_single_run mac net now src dst ts hWF hUp hSR
      (updateSegID β (pfx x.hop.mac)) x pU fp hpmac hfp hpas hpif (by simpa [lastOf] using hsrc) hsd
      hexpp i1 h1 t1 fuel
    exact ⟨g, _, hg, by simpa [mkCur, upStart, chainTrace] using hrun, by simp [revSeg, flipInfo]⟩
  | cons y r =>
    obtain ⟨mid, last, hml⟩ := exists_snoc y r
    have hus : upStart β x (y :: r) = extractBeta β (sig (x :: mid)) := by
      simp only [upStart, hml]
      rw [show x :: (mid ++ [last]) = (x :: mid) ++ [last] by simp, List.dropLast_concat]
    rw [hus]
    rw [hml] at hc hsrc hnd' hnd hexp ⊢
    clear hus
    rw [lastOf_snoc] at hsrc
    have hup := chain_to_up mac net false ts _ _ hc
    have hrev : (x :: (mid ++ [last])).reverse = last :: (mid.reverse ++ [x]) := by simp
    rw [hrev] at hup
    have hFL := chainUp_FL mac net false ts hWF _ _ hup
    have hndr : ((last :: (mid.reverse ++ [x])).map (·.ia)).Nodup := by
      have := nodup_rev _ hnd
      rw [← List.map_reverse, hrev] at this
      exact this
    obtain ⟨hlx, hmidn⟩ := nd_facts last mid.reverse x hndr
    obtain ⟨g, hg, hrun⟩ := peer_up_multi_run mac net now src dst ts hWF hUp hSR _ last mid.reverse x pU hpU
      hFL hsrc hsd (by rw [hsrc]; exact Ne.symm hlx) (hnd' x (by simp))
      (fun e he => ⟨by rw [hsrc]; exact (hmidn e he).1,
        hnd' e (by simp at he; simp [he]), hexp e (by simp at he; simp [he])⟩)
      (hexp last (by simp)) hexpp i1 h1 t1 fuel
    have hseg : updateSegID (extractBeta β (sig (x :: (mid ++ [last])))) (pfx last.hop.mac) =
        extractBeta β (sig (x :: mid)) := by
      rw [Scion.SegID.extractBeta_eq _ (sig (x :: (mid ++ [last]))),
        Scion.SegID.extractBeta_eq _ (sig (x :: mid))]
      simp only [sig, List.map_cons, List.map_append, List.map_nil, Scion.SegID.xorAll,
        Scion.SegID.xorAll_append, updateSegID, Nat.xor_zero]
      rw [← Nat.xor_assoc, ← Nat.xor_assoc, Scion.SegID.xor_cancel, Nat.xor_assoc]
    rw [hseg] at hrun
    have hl : (mid ++ [last]).length = mid.reverse.length + 1 := by simp
    rw [hl, show fuel + 1 + (mid.reverse.length + 1) = fuel + 2 + mid.reverse.length by omega]
    have hcur : mkCur [] ⟨false, true, extractBeta β (sig (x :: mid)), ts⟩ []
        ((mid ++ [last]).reverse.map (fun e => hopOf e.hop) ++ [hopOf pU.hop]) [⟨i1, h1 :: t1⟩] =
        ⟨[], ⟨false, true, extractBeta β (sig (x :: mid)), ts⟩, [], hopOf last.hop,
          (mid.reverse.map fun e => hopOf e.hop) ++ [hopOf pU.hop], [⟨i1, h1 :: t1⟩]⟩ := by
      simp [mkCur]
    have htr : (chainTrace x (mid ++ [last])).reverse ++ [(x.ia, pU.hop.cIn), (pU.peerAS, pU.peerIf)] =
        (last.ia, last.hop.cIn) :: ((firstOf mid.reverse x).ia, (firstOf mid.reverse x).hop.cEg) ::
          fTrace false mid.reverse x ++ [(x.ia, pU.hop.cIn), (pU.peerAS, pU.peerIf)] := by
      rw [chainTrace_snoc, downTrace_reverse]
      simp [upTrace, upTrace_eq]
    rw [hcur, htr]
    refine ⟨g, _, hg, hrun, ?_⟩
    have hsU : extractBeta (extractBeta β (sig (x :: mid))) (sig mid.reverse) =
        updateSegID β (pfx x.hop.mac) := by
      rw [sig_reverse, Scion.SegID.extractBeta_eq _ (sig mid).reverse, Scion.SegID.xorAll_reverse,
        Scion.SegID.extractBeta_eq _ (sig (x :: mid))]
      simp only [sig, List.map_cons, Scion.SegID.xorAll, updateSegID]
      rw [← Nat.xor_assoc, Scion.SegID.xor_cancel]
    simp [revSeg, flipInfo, hsU, List.map_reverse]

end

theorem startCursor_mkCur (i : Info) (l : List Hop) (rest : List Seg) (hl : l ≠ []) :
    startCursor (⟨i, l⟩ :: rest) = some (mkCur [] i [] l rest) := by
  cases l with
  | nil => exact absurd rfl hl
  | cons h t => rfl

theorem entryRouter_zero (net : Net) (hSR : SingleRouter net) (a : Nat) (c : Cursor) :
    entryRouter net a c = 0 := by
  unfold entryRouter
  split
  · rename_i f hf; exact hSR _ _ _ hf
  · rfl

theorem kind_zero (e : Edge) (h : e.kind = 0) : e.core = false ∧ e.down = false := by
  unfold Edge.kind at h
  cases hc : e.core <;> cases hd : e.down <;> simp_all

theorem kind_two (e : Edge) (h : e.kind = 2) : e.core = false ∧ e.down = true := by
  unfold Edge.kind at h
  cases hc : e.core <;> cases hd : e.down <;> simp_all

/-- the up edge of a peering path as path combination renders it -/
theorem peer_up_edgeSeg (e : Edge) (k : Nat) (hpeer : e.peer = some k) (hdown : e.down = false)
    (pre : List ASE) (x : ASE) (rest : List ASE) (p : PeerE)
    (hent : e.seg.entries = pre ++ x :: rest) (hpl : pre.length = e.shortcut)
    (hp : x.peers[k]? = some p) :
    edgeSeg e = some ⟨⟨false, true, upStart (extractBeta e.seg.s0 (sig pre)) x rest, e.seg.ts⟩,
      rest.reverse.map (fun y => hopOf y.hop) ++ [hopOf p.hop]⟩ := by
  have hdrop : e.seg.entries.drop e.shortcut = x :: rest := by rw [hent, ← hpl]; simp
  have hcalc : calculateBeta false e.shortcut true e.seg.s0 (sigmas e.seg) =
      some (upStart (extractBeta e.seg.s0 (sig pre)) x rest) := by
    rw [sigmas_eq, hent, ← hpl]
    cases rest with
    | nil =>
      have := Scion.SegID.calc_up_single e.seg.s0 (sig pre) (pfx x.hop.mac) true
      simpa [sig, upStart] using this
    | cons y r =>
      obtain ⟨mid, last, hml⟩ := exists_snoc y r
      have hus : upStart (extractBeta e.seg.s0 (sig pre)) x (y :: r) =
          extractBeta (extractBeta e.seg.s0 (sig pre)) (sig (x :: mid)) := by
        simp only [upStart, hml]
        rw [show x :: (mid ++ [last]) = (x :: mid) ++ [last] by simp, List.dropLast_concat]
      rw [hus, hml]
      have := Scion.SegID.calc_up_multi e.seg.s0 (sig pre) (pfx x.hop.mac) (pfx last.hop.mac) (sig mid) true
      rw [Scion.SegID.extractBeta_eq _ (sig (x :: mid))]
      simpa [sig, Scion.SegID.xorAll, updateSegID, Nat.xor_assoc] using this
  simp [edgeSeg, edgeHops, hdown, hpeer, hdrop, hcalc, hp, List.map_reverse]

theorem peer_down_edgeSeg (e : Edge) (k : Nat) (hpeer : e.peer = some k) (hdown : e.down = true)
    (pre : List ASE) (x : ASE) (rest : List ASE) (p : PeerE)
    (hent : e.seg.entries = pre ++ x :: rest) (hpl : pre.length = e.shortcut)
    (hp : x.peers[k]? = some p) :
    edgeSeg e = some ⟨⟨true, true, updateSegID (extractBeta e.seg.s0 (sig pre)) (pfx x.hop.mac), e.seg.ts⟩,
      hopOf p.hop :: rest.map (fun y => hopOf y.hop)⟩ := by
  have hdrop : e.seg.entries.drop e.shortcut = x :: rest := by rw [hent, ← hpl]; simp
  have hcalc : calculateBeta true e.shortcut true e.seg.s0 (sigmas e.seg) =
      some (updateSegID (extractBeta e.seg.s0 (sig pre)) (pfx x.hop.mac)) := by
    rw [sigmas_eq, hent, ← hpl]
    have := Scion.SegID.calc_down e.seg.s0 (sig pre) (pfx x.hop.mac) (sig rest) true
    simpa [sig] using this
  simp [edgeSeg, edgeHops, hdown, hpeer, hdrop, hcalc, hp]

theorem lastOf_mem (x : ASE) (rest : List ASE) : lastOf x rest ∈ x :: rest := by
  induction rest generalizing x with
  | nil => simp [lastOf]
  | cons y r ih => have := ih y; simp only [lastOf, List.mem_cons] at this ⊢; exact Or.inr this

/-- **C02, peering paths**: up segment (any number of hops ≥ 1) ending in a peer entry, peering
    link, down segment starting with the matching peer entry; one border router per AS -/
theorem segs_mkCur (i : Info) (l : List Hop) (rest : List Seg) (hl : l ≠ []) :
    (mkCur [] i [] l rest).segs = ⟨i, l⟩ :: rest := by
  cases l with
  | nil => exact absurd rfl hl
  | cons h t => simp [mkCur, Cursor.segs, Cursor.curSeg]

/-- C02 over peering paths, with what C03 needs about the delivered packet: reversed, it carries
    the path that path combination builds from the same two segments used the other way round -/
theorem peering_accepted_full (mac : MacFn) (net : Net) (now src dst : Nat)
    (hWF : WFNet net) (hUp : AllUp net) (hSR : SingleRouter net)
    (eu ed : Edge) (c : Cursor) (ku kd : Nat) (hup : eu.peer = some ku) (hdp : ed.peer = some kd)
    (hJ : Joinable mac net [eu, ed] src dst) (hp : pathOf [eu, ed] = some c)
    (hexp : Unexpired now c) :
    ∃ cf, send mac net now src dst c = .delivered dst (pathIfaces [eu, ed]) cf ∧
      pathOf [{ ed with down := false }, { eu with down := true }] = some (reverseCursor cf) ∧
      Unexpired now (reverseCursor cf) := by
  obtain ⟨_, _, hval, hjoints, _, hhead, hlast, hnd⟩ := hJ
  have hj := hjoints.1
  simp only [Joint, hup, hdp] at hj
  obtain ⟨hk0, hk2, x1, x2, p1, p2, hx1, hx2, hp1, hp2, hpa1, hpa2, hpi1, hpi2⟩ := hj
  obtain ⟨huc, hud⟩ := kind_zero eu hk0
  obtain ⟨hdc, hdd⟩ := kind_two ed hk2
  obtain ⟨preU, xU, restU, pU, hentU, hplU, hpU, hcU, hl0U⟩ :=
    peer_edge_common mac net eu ku hup (hval eu (by simp))
  obtain ⟨preD, xD, restD, pD, hentD, hplD, hpD, hcD, hl0D⟩ :=
    peer_edge_common mac net ed kd hdp (hval ed (by simp))
  rw [huc] at hcU
  rw [hdc] at hcD
  -- the entries and peer entries named by the joint are the ones of the decomposition
  have e1 : x1 = xU := by
    rw [hentU, ← hplU] at hx1; simp at hx1; exact hx1.symm
  have e2 : x2 = xD := by
    rw [hentD, ← hplD] at hx2; simp at hx2; exact hx2.symm
  subst e1 e2
  have e3 : p1 = pU := by rw [hpU] at hp1; cases hp1; rfl
  have e4 : p2 = pD := by rw [hpD] at hp2; cases hp2; rfl
  subst e3 e4
  have hmU : p1 ∈ x1.peers := List.mem_of_getElem? hpU
  have hmD : p2 ∈ x2.peers := List.mem_of_getElem? hpD
  -- the packet
  have hsU := peer_up_edgeSeg eu ku hup hud preU x1 restU p1 hentU hplU hpU
  have hsD := peer_down_edgeSeg ed kd hdp hdd preD x2 restD p2 hentD hplD hpD
  have hc : c = mkCur [] ⟨false, true, upStart (extractBeta eu.seg.s0 (sig preU)) x1 restU, eu.seg.ts⟩ []
      (restU.reverse.map (fun y => hopOf y.hop) ++ [hopOf p1.hop])
      [⟨⟨true, true, updateSegID (extractBeta ed.seg.s0 (sig preD)) (pfx x2.hop.mac), ed.seg.ts⟩,
        hopOf p2.hop :: restD.map (fun y => hopOf y.hop)⟩] := by
    simp only [pathOf, segsOf, hsU, hsD] at hp
    rw [startCursor_mkCur _ _ _ (by simp)] at hp
    cases hp; rfl
  -- ASes
  have hdropU : eu.seg.entries.drop eu.shortcut = x1 :: restU := by rw [hentU, ← hplU]; simp
  have hdropD : ed.seg.entries.drop ed.shortcut = x2 :: restD := by rw [hentD, ← hplD]; simp
  have hases : pathASes [eu, ed] = ((x1 :: restU).map (·.ia)).reverse ++ (x2 :: restD).map (·.ia) := by
    simp [pathASes, hup, Edge.ases, Edge.used, hud, hdd, hdropU, hdropD]
  rw [hases] at hhead hlast hnd
  have hsrc : src = (lastOf x1 restU).ia := by
    have h1 := lastOf_getLast x1 restU
    rw [List.head?_append, List.head?_reverse, List.getLast?_map, h1] at hhead
    simp at hhead; exact hhead.symm
  have hdst : dst = (lastOf x2 restD).ia := by
    have h1 := lastOf_getLast x2 restD
    rw [List.getLast?_append, List.getLast?_map, h1] at hlast
    simp at hlast; exact hlast.symm
  have hndU : ((x1 :: restU).map (·.ia)).Nodup := by
    have := (List.nodup_append.1 hnd).1
    have h2 := nodup_rev _ this
    simpa using h2
  have hndD := (List.nodup_append.1 hnd).2.1
  have hdisj := (List.nodup_append.1 hnd).2.2
  have hUD : ∀ e ∈ x1 :: restU, ∀ e' ∈ x2 :: restD, e.ia ≠ e'.ia := by
    intro e he e' he'
    exact hdisj e.ia (by rw [List.mem_reverse]; exact List.mem_map.2 ⟨e, he, rfl⟩) e'.ia
      (List.mem_map.2 ⟨e', he', rfl⟩)
  have hsd : src ≠ dst := by
    rw [hsrc, hdst]; exact hUD _ (lastOf_mem x1 restU) _ (lastOf_mem x2 restD)
  -- expiry
  have hexpU : ∀ h ∈ restU.reverse.map (fun y => hopOf y.hop) ++ [hopOf p1.hop],
      expired now eu.seg.ts h.exp = false := by
    intro h hh
    have hcs : (⟨⟨false, true, upStart (extractBeta eu.seg.s0 (sig preU)) x1 restU, eu.seg.ts⟩,
        restU.reverse.map (fun y => hopOf y.hop) ++ [hopOf p1.hop]⟩ : Seg) ∈ c.segs := by
      rw [hc]
      cases hl : restU.reverse.map (fun y => hopOf y.hop) ++ [hopOf p1.hop] with
      | nil => simp at hl
      | cons a b => simp [mkCur, Cursor.segs, Cursor.curSeg]
    exact hexp _ hcs h hh
  have hexpD : ∀ h ∈ hopOf p2.hop :: restD.map (fun y => hopOf y.hop),
      expired now ed.seg.ts h.exp = false := by
    intro h hh
    have hcs : (⟨⟨true, true, updateSegID (extractBeta ed.seg.s0 (sig preD)) (pfx x2.hop.mac), ed.seg.ts⟩,
        hopOf p2.hop :: restD.map (fun y => hopOf y.hop)⟩ : Seg) ∈ c.segs := by
      rw [hc]
      cases hl : restU.reverse.map (fun y => hopOf y.hop) ++ [hopOf p1.hop] with
      | nil => simp at hl
      | cons a b => simp [mkCur, Cursor.segs]
    exact hexp _ hcs h hh
  -- up part
  obtain ⟨g, sU, hg, hrunU, hrevU⟩ := peer_up_run mac net now src dst eu.seg.ts hWF hUp hSR
    (extractBeta eu.seg.s0 (sig preU)) x1 restU p1 hmU hcU hsrc hsd
    (fun e he => by rw [hdst]; exact hUD e he _ (lastOf_mem x2 restD)) hndU
    (fun e he => by
      have := hexpU (hopOf e.hop) (by simp; exact Or.inl ⟨e, he, rfl⟩)
      simpa [hopOf] using this)
    (by have := hexpU (hopOf p1.hop) (by simp); simpa [hopOf] using this)
    ⟨true, true, updateSegID (extractBeta ed.seg.s0 (sig preD)) (pfx x2.hop.mac), ed.seg.ts⟩
    (hopOf p2.hop) (restD.map fun y => hopOf y.hop) (restD.length + 1 + restU.length + restD.length + 4)
  -- down part
  obtain ⟨cf, hrunD, hrevD⟩ := peer_down_run mac net now src dst ed.seg.ts hWF hUp hSR
    (extractBeta ed.seg.s0 (sig preD)) x2 restD p2 hmD hcD hdst hsd
    (fun e he => by rw [hsrc]; exact Ne.symm (hUD _ (lastOf_mem x1 restU) e he)) hndD
    (fun e he => by
      have := hexpD (hopOf e.hop) (by simp; exact Or.inr ⟨e, he, rfl⟩)
      simpa [hopOf] using this)
    (by have := hexpD (hopOf p2.hop) (by simp); simpa [hopOf] using this)
    sU (restU.length + restD.length + 4)
    ((chainTrace x1 restU).reverse ++ [(x1.ia, p1.hop.cIn), (p1.peerAS, p1.peerIf)])
  rw [hrevU] at hrevD
  refine ⟨cf, ?_, ?_, ?_⟩
  rotate_left
  · have hsD' := peer_up_edgeSeg { ed with down := false } kd hdp rfl preD x2 restD p2 hentD hplD hpD
    have hsU' := peer_down_edgeSeg { eu with down := true } ku hup rfl preU x1 restU p1 hentU hplU hpU
    simp only [pathOf, segsOf, hsD', hsU']
    rw [startCursor_mkCur _ _ _ (by simp), hrevD]
  · rw [hrevD]
    intro s hs h hh
    rw [segs_mkCur _ _ _ (by simp)] at hs
    simp only [List.mem_cons, List.not_mem_nil, or_false] at hs
    rcases hs with rfl | rfl
    · simp only [List.mem_append, List.mem_map, List.mem_reverse, List.mem_singleton] at hh
      rcases hh with ⟨y, hy, rfl⟩ | rfl
      · exact hexpD _ (by simp; exact Or.inr ⟨y, hy, rfl⟩)
      · exact hexpD _ (by simp)
    · simp only [List.mem_cons, List.mem_map] at hh
      rcases hh with rfl | ⟨y, hy, rfl⟩
      · exact hexpU _ (by simp)
      · exact hexpU _ (by simp; exact Or.inl ⟨y, hy, rfl⟩)
  have hfuel : fuelFor c = (restD.length + 1 + restU.length + restD.length + 4) + 1 + restU.length := by
    rw [hc]
    cases hl : restU.reverse.map (fun y => hopOf y.hop) ++ [hopOf p1.hop] with
    | nil => simp at hl
    | cons a b =>
      have hlen : b.length = restU.length := by
        have := congrArg List.length hl
        simp only [List.length_append, List.length_map, List.length_reverse, List.length_cons,
          List.length_nil] at this
        omega
      simp only [mkCur, fuelFor, toFlat, Cursor.segs, Cursor.curSeg, List.nil_append, List.map_append,
        List.map_cons, List.map_nil, List.flatten_append, List.flatten_cons, List.flatten_nil,
        List.length_append, List.length_cons, List.length_nil, List.length_map, List.append_nil,
        List.singleton_append]
      omega
  have hif : pathIfaces [eu, ed] = (chainTrace x1 restU).reverse ++
      [(x1.ia, p1.hop.cIn), (p1.peerAS, p1.peerIf)] ++ chainTrace x2 restD := by
    have h1 := consIfaces_chain mac net false eu.seg.ts restU x1 _ hcU hl0U
    have h2 := consIfaces_chain mac net false ed.seg.ts restD x2 _ hcD hl0D
    simp only [pathIfaces, List.map_cons, List.map_nil, List.flatten_cons, List.flatten_nil,
      List.append_nil, edgeIfaces, hdropU, hdropD, hup, hdp, hpU, hpD, hud, hdd, Bool.false_eq_true,
      if_false, if_true, List.append_assoc, h1, h2]
    simp [hpa1, hpi1]
  unfold send
  rw [entryRouter_zero net hSR, hfuel, hc, hrunU, hif]
  have e5 : p1.peerAS = x2.ia := hpa1
  have e6 : p1.peerIf = p2.hop.cIn := hpi1
  rw [e5, e6] at hrunD ⊢
  have h3 : restD.length + 1 + restU.length + restD.length + 4 =
      (restU.length + restD.length + 4) + 1 + restD.length := by omega
  rw [h3]
  exact hrunD

theorem peering_accepted (mac : MacFn) (net : Net) (now src dst : Nat)
    (hWF : WFNet net) (hUp : AllUp net) (hSR : SingleRouter net)
    (eu ed : Edge) (c : Cursor) (ku kd : Nat) (hup : eu.peer = some ku) (hdp : ed.peer = some kd)
    (hJ : Joinable mac net [eu, ed] src dst) (hp : pathOf [eu, ed] = some c)
    (hexp : Unexpired now c) :
    ∃ cf, send mac net now src dst c = .delivered dst (pathIfaces [eu, ed]) cf := by
  obtain ⟨cf, h, _⟩ := peering_accepted_full mac net now src dst hWF hUp hSR eu ed c ku kd hup hdp hJ hp hexp
  exact ⟨cf, h⟩

/-- the two edges of a peering path used the other way round are again what path combination
    may join (`Joinable` is symmetric) -/
theorem joinable_flip_peering (mac : MacFn) (net : Net) (eu ed : Edge) (src dst ku kd : Nat)
    (hup : eu.peer = some ku) (hdp : ed.peer = some kd)
    (hJ : Joinable mac net [eu, ed] src dst) :
    Joinable mac net [{ ed with down := false }, { eu with down := true }] dst src := by
  obtain ⟨_, _, hval, hjoints, _, hhead, hlast, hnd⟩ := hJ
  have hj := hjoints.1
  simp only [Joint, hup, hdp] at hj
  obtain ⟨hk0, hk2, x1, x2, p1, p2, hx1, hx2, hp1, hp2, hpa1, hpa2, hpi1, hpi2⟩ := hj
  obtain ⟨huc, hud⟩ := kind_zero eu hk0
  obtain ⟨hdc, hdd⟩ := kind_two ed hk2
  have hases : pathASes [{ ed with down := false }, { eu with down := true }] =
      (pathASes [eu, ed]).reverse := by
    simp [pathASes, hup, hdp, Edge.ases, Edge.used, hud, hdd]
  refine ⟨by simp, by simp, ?_, ?_, by simp, ?_, ?_, ?_⟩
  · intro e he
    simp only [List.mem_cons, List.not_mem_nil, or_false] at he
    rcases he with rfl | rfl
    · exact hval ed (by simp)
    · exact hval eu (by simp)
  · refine ⟨?_, trivial⟩
    simp only [Joint, hup, hdp]
    exact ⟨by simp [Edge.kind, hdc], by simp [Edge.kind, huc],
      x2, x1, p2, p1, hx2, hx1, hp2, hp1, hpa2, hpa1, hpi2, hpi1⟩
  · rw [hases, List.head?_reverse]; exact hlast
  · rw [hases, List.getLast?_reverse]; exact hhead
  · rw [hases]; exact nodup_rev _ hnd

theorem edgeIfaces_flip (e : Edge) :
    edgeIfaces { e with down := !e.down } = (edgeIfaces e).reverse := by
  have := pathIfaces_flip e
  simpa [pathIfaces] using this

theorem pathIfaces_flip_peering (eu ed : Edge) (hud : eu.down = false) (hdd : ed.down = true) :
    pathIfaces [{ ed with down := false }, { eu with down := true }] =
      (pathIfaces [eu, ed]).reverse := by
  have h1 := edgeIfaces_flip eu
  have h2 := edgeIfaces_flip ed
  rw [hud] at h1
  rw [hdd] at h2
  simp only [Bool.not_false, Bool.not_true] at h1 h2
  simp [pathIfaces, h1, h2]

/-- **C03 over peering paths** (one border router per AS): the delivered packet, with its path
    reversed, goes back to the source AS over the same interfaces in reverse order -/
theorem reverse_run_peering (mac : MacFn) (net : Net) (now src dst : Nat)
    (hWF : WFNet net) (hUp : AllUp net) (hSR : SingleRouter net)
    (eu ed : Edge) (c cf : Cursor) (tr : List (Nat × Nat)) (ku kd : Nat)
    (hup : eu.peer = some ku) (hdp : ed.peer = some kd)
    (hJ : Joinable mac net [eu, ed] src dst) (hp : pathOf [eu, ed] = some c)
    (hexp : Unexpired now c)
    (hsend : send mac net now src dst c = .delivered dst tr cf) :
    ∃ cr, send mac net now dst src (reverseCursor cf) = .delivered src tr.reverse cr := by
  obtain ⟨cf', h1, h2, h3⟩ :=
    peering_accepted_full mac net now src dst hWF hUp hSR eu ed c ku kd hup hdp hJ hp hexp
  rw [h1] at hsend
  cases hsend
  have hJ' := joinable_flip_peering mac net eu ed src dst ku kd hup hdp hJ
  have hj := hJ.2.2.2.1.1
  simp only [Joint, hup, hdp] at hj
  obtain ⟨huc, hud⟩ := kind_zero eu hj.1
  obtain ⟨hdc, hdd⟩ := kind_two ed hj.2.1
  obtain ⟨cr, h4⟩ := peering_accepted mac net now dst src hWF hUp hSR
    { ed with down := false } { eu with down := true } (reverseCursor cf) kd ku hdp hup hJ' h2 h3
  exact ⟨cr, by rw [h4, pathIfaces_flip_peering eu ed hud hdd]⟩

/-- the edge lists path combination joins: no edge peers, or exactly two edges which both peer -/
theorem joinable_cases (mac : MacFn) (net : Net) (edges : List Edge) (src dst : Nat)
    (hJ : Joinable mac net edges src dst) :
    (∀ e ∈ edges, e.peer = none) ∨
    ∃ e1 e2 k1 k2, edges = [e1, e2] ∧ e1.peer = some k1 ∧ e2.peer = some k2 := by
  by_cases hnp : ∀ e ∈ edges, e.peer = none
  · exact Or.inl hnp
  · right
    obtain ⟨_, _, _, hjoints, hpl, _, _, _⟩ := hJ
    have hex : ∃ e ∈ edges, e.peer.isSome = true := by
      apply Classical.byContradiction
      intro hno
      apply hnp
      intro e he
      cases hpe : e.peer with
      | none => rfl
      | some k => exact absurd ⟨e, he, by simp [hpe]⟩ hno
    obtain ⟨e, he, hpe⟩ := hex
    have hlen := hpl e he hpe
    match edges, hlen with
    | [e1, e2], _ =>
      have hj := hjoints.1
      cases h1 : e1.peer with
      | none =>
        cases h2 : e2.peer with
        | none =>
          simp only [List.mem_cons, List.not_mem_nil, or_false] at he
          rcases he with rfl | rfl
          · simp [h1] at hpe
          · simp [h2] at hpe
        | some k2 => simp [Joint, h1, h2] at hj
      | some k1 =>
        cases h2 : e2.peer with
        | none => simp [Joint, h1, h2] at hj
        | some k2 => exact ⟨e1, e2, k1, k2, rfl, h1, h2⟩

end Scion.Net
