import Scion.Proofs.RouterProcess
/-! Frame lemmas for C07: which bytes of the packet buffer the router's in-place edits can
change, and what they write there. -/
namespace Scion.Router
open Scion.Util
open Scion.PathMeta hiding Info

/-! ### what the serialisers write, byte by byte -/

theorem ofNat_toNat_of_eq (x : UInt8) (n : Nat) (h : n = x.toNat) : UInt8.ofNat n = x := by
  subst h; simp

/-- `MetaHdr.SerializeTo` of a header with the segment lengths of the received line: only the
first byte carries the pointers, the reserved bits of the second byte come out as zero, the rest
is as received -/
theorem natBE_encode_bytes (m0 m1 m2 m3 : UInt8) (pm' : Hdr)
    (h0 : pm'.s0 = (decode (beNat [m0, m1, m2, m3])).s0)
    (h1 : pm'.s1 = (decode (beNat [m0, m1, m2, m3])).s1)
    (h2 : pm'.s2 = (decode (beNat [m0, m1, m2, m3])).s2) :
    natBE 4 (encode pm') =
      [UInt8.ofNat (pm'.currINF % 4 * 64 + pm'.currHF % 64), UInt8.ofNat (m1.toNat % 4), m2, m3] := by
  have b0 := m0.toNat_lt; have b1 := m1.toNat_lt; have b2 := m2.toNat_lt; have b3 := m3.toNat_lt
  simp only [decode, beNat, List.foldl] at h0 h1 h2
  simp only [natBE, encode, h0, h1, h2]
  refine List.cons_eq_cons.mpr ⟨?_, List.cons_eq_cons.mpr ⟨?_, List.cons_eq_cons.mpr ⟨?_, List.cons_eq_cons.mpr ⟨?_, rfl⟩⟩⟩⟩
  · congr 1; omega
  · congr 1; omega
  · apply ofNat_toNat_of_eq; omega
  · apply ofNat_toNat_of_eq; omega

/-- two info fields that differ at most in the SegID -/
structure SameButSegID (a b : Info) : Prop where
  peer : a.peer = b.peer
  consDir : a.consDir = b.consDir
  ts : a.ts = b.ts

theorem SameButSegID.refl (a : Info) : SameButSegID a a := ⟨rfl, rfl, rfl⟩
theorem SameButSegID.upd (a b : Info) (x : Hop) (h : SameButSegID a b) : SameButSegID (updSegID a x) b :=
  ⟨h.peer, h.consDir, h.ts⟩

theorem flags_byte (b0 : UInt8) :
    b2n (b0.toNat / 2 % 2 == 1) * 2 + b2n (b0.toNat % 2 == 1) = b0.toNat % 4 := by
  have h : b0.toNat % 4 = 0 ∨ b0.toNat % 4 = 1 ∨ b0.toNat % 4 = 2 ∨ b0.toNat % 4 = 3 := by omega
  rcases h with h | h | h | h
  · have h1 : b0.toNat / 2 % 2 = 0 := by omega
    have h2 : b0.toNat % 2 = 0 := by omega
    simp [h, h1, h2, b2n]
  · have h1 : b0.toNat / 2 % 2 = 0 := by omega
    have h2 : b0.toNat % 2 = 1 := by omega
    simp [h, h1, h2, b2n]
  · have h1 : b0.toNat / 2 % 2 = 1 := by omega
    have h2 : b0.toNat % 2 = 0 := by omega
    simp [h, h1, h2, b2n]
  · have h1 : b0.toNat / 2 % 2 = 1 := by omega
    have h2 : b0.toNat % 2 = 1 := by omega
    simp [h, h1, h2, b2n]

/-- `InfoField.SerializeTo` of a field that differs from the received one at most in the SegID:
flags without the reserved bits, a zero reserved byte, some SegID, the received timestamp -/
theorem encodeInfo_bytes (b0 b1 s0 s1 t0 t1 t2 t3 : UInt8) (inf0 inf : Info)
    (hd : decodeInfo [b0, b1, s0, s1, t0, t1, t2, t3] = some inf0) (hs : SameButSegID inf inf0) :
    ∃ x y, encodeInfo inf = [UInt8.ofNat (b0.toNat % 4), 0, x, y, t0, t1, t2, t3] := by
  have c0 := t0.toNat_lt; have c1 := t1.toNat_lt; have c2 := t2.toNat_lt; have c3 := t3.toNat_lt
  simp only [decodeInfo, Option.some.injEq] at hd
  subst hd
  obtain ⟨hp, hc, ht⟩ := hs
  simp only at hp hc ht
  refine ⟨UInt8.ofNat (inf.segID / 256 ^ 1 % 256), UInt8.ofNat (inf.segID / 256 ^ 0 % 256), ?_⟩
  simp only [encodeInfo, natBE, hp, hc, ht, flags_byte, List.cons_append, List.nil_append]
  refine List.cons_eq_cons.mpr ⟨rfl, List.cons_eq_cons.mpr ⟨rfl, List.cons_eq_cons.mpr ⟨rfl,
    List.cons_eq_cons.mpr ⟨rfl, List.cons_eq_cons.mpr ⟨?_, List.cons_eq_cons.mpr ⟨?_,
    List.cons_eq_cons.mpr ⟨?_, List.cons_eq_cons.mpr ⟨?_, rfl⟩⟩⟩⟩⟩⟩⟩⟩
  · apply ofNat_toNat_of_eq; omega
  · apply ofNat_toNat_of_eq; omega
  · apply ofNat_toNat_of_eq; omega
  · apply ofNat_toNat_of_eq; omega

/-! ### the mutable fields and the reserved bits -/

/-- the two SegID bytes of info field `j` -/
def segIDPos (h : Hd) (j i : Nat) : Prop := infoOff h j + 2 ≤ i ∧ i < infoOff h j + 4

/-- the bytes the property allows a forwarding router to change: the byte that holds
CurrINF/CurrHF, the SegID of the current segment and — at a segment change — of the next one -/
def Mutable (h : Hd) (pm : Hdr) (i : Nat) : Prop :=
  i = h.pathOff ∨ segIDPos h pm.currINF i ∨ segIDPos h (infIdx pm (pm.currHF + 1)) i

/-- a byte with the reserved bits of its position cleared: the six RSV bits of the path meta
header (second byte of the line), the six reserved flag bits and the reserved byte of an info
field; every other position is left alone -/
def clr (h : Hd) (i : Nat) (x : UInt8) : UInt8 :=
  if i = h.pathOff + 1 then UInt8.ofNat (x.toNat % 4)
  else if h.pathOff + 4 ≤ i ∧ i < h.pathOff + 4 + 8 * h.numINF then
    (if (i - (h.pathOff + 4)) % 8 = 0 then UInt8.ofNat (x.toNat % 4)
     else if (i - (h.pathOff + 4)) % 8 = 1 then 0 else x)
  else x

/-- `b` equals `raw` except in the mutable fields and for reserved bits that were cleared -/
def Near (h : Hd) (pm : Hdr) (raw b : Bytes) : Prop :=
  b.length = raw.length ∧
  ∀ i, ¬ Mutable h pm i → (b[i]? = raw[i]? ∨ b[i]? = (raw[i]?).map (clr h i))

theorem Near.refl (h : Hd) (pm : Hdr) (raw : Bytes) : Near h pm raw raw := ⟨rfl, fun _ _ => Or.inl rfl⟩

theorem raw_at_of_slice {raw : Bytes} {off n : Nat} {l : Bytes} (hs : slice raw off n = l) (t : Nat)
    (ht : t < n) : raw[off + t]? = l[t]? := by
  have := slice_getElem? raw off n t
  rw [hs] at this
  simp [ht] at this
  exact this.symm

/-- rewriting the meta line keeps `Near` -/
theorem near_setMeta {h : Hd} {pm : Hdr} {raw b : Bytes} (hn : Near h pm raw b) (pm' : Hdr)
    (m0 m1 m2 m3 : UInt8) (hm : slice raw h.pathOff 4 = [m0, m1, m2, m3])
    (h0 : pm'.s0 = (decode (beNat [m0, m1, m2, m3])).s0)
    (h1 : pm'.s1 = (decode (beNat [m0, m1, m2, m3])).s1)
    (h2 : pm'.s2 = (decode (beNat [m0, m1, m2, m3])).s2) :
    Near h pm raw (setMeta h b pm') := by
  have hlen : h.pathOff + 4 ≤ raw.length := by
    have := congrArg List.length hm
    rw [length_slice] at this
    simp at this; omega
  have hb : h.pathOff + 4 ≤ b.length := by rw [hn.1]; exact hlen
  refine ⟨by rw [length_setMeta h b pm' hb, hn.1], ?_⟩
  intro i hi
  by_cases hr : i < h.pathOff ∨ h.pathOff + 4 ≤ i
  · rw [setMeta_getElem?_out h b pm' hb i hr]; exact hn.2 i hi
  · have hin : h.pathOff ≤ i ∧ i < h.pathOff + 4 := by omega
    obtain ⟨t, rfl⟩ : ∃ t, i = h.pathOff + t := ⟨i - h.pathOff, by omega⟩
    have ht : t < 4 := by omega
    have hw : (setMeta h b pm')[h.pathOff + t]? = (natBE 4 (encode pm'))[t]? := by
      unfold setMeta
      rw [writeAt_getElem? _ _ _ (by rw [length_natBE]; exact hb)]
      rw [length_natBE]
      have : ¬ h.pathOff + t < h.pathOff := by omega
      simp [this, ht]
    rw [hw, natBE_encode_bytes m0 m1 m2 m3 pm' h0 h1 h2, raw_at_of_slice hm t ht]
    have hne : t ≠ 0 := by
      intro h0; apply hi; left; omega
    have hcases : t = 1 ∨ t = 2 ∨ t = 3 := by omega
    rcases hcases with rfl | rfl | rfl
    · right; simp [clr]
    · left; rfl
    · left; rfl

/-- rewriting an info field with one that differs from the received one at most in the SegID
keeps `Near`, provided its SegID is among the mutable fields -/
theorem near_setInfo {h : Hd} {pm : Hdr} {raw b : Bytes} (hn : Near h pm raw b) (j : Nat)
    (inf0 inf : Info) (hg : getInfo h raw j = some inf0) (hs : SameButSegID inf inf0)
    (hj : j = pm.currINF ∨ j = infIdx pm (pm.currHF + 1)) :
    Near h pm raw (setInfo h b j inf) := by
  obtain ⟨hjn, hlen⟩ := getInfo_some_bound hg
  have hb : infoOff h j + 8 ≤ b.length := by rw [hn.1]; exact hlen
  refine ⟨by rw [length_setInfo h b j inf hb, hn.1], ?_⟩
  intro i hi
  by_cases hr : i < infoOff h j ∨ infoOff h j + 8 ≤ i
  · rw [setInfo_getElem?_out h b j inf hb i hr]; exact hn.2 i hi
  · obtain ⟨t, rfl⟩ : ∃ t, i = infoOff h j + t := ⟨i - infoOff h j, by omega⟩
    have ht : t < 8 := by omega
    -- the received bytes of the field
    unfold getInfo at hg
    simp only [hjn, if_true] at hg
    have hsl : (slice raw (infoOff h j) 8).length = 8 := decodeInfo_some_length hg
    obtain ⟨b0, b1, s0, s1, t0, t1, t2, t3, hbytes⟩ :
        ∃ b0 b1 s0 s1 t0 t1 t2 t3, slice raw (infoOff h j) 8 = [b0, b1, s0, s1, t0, t1, t2, t3] := by
      match hx : slice raw (infoOff h j) 8, hsl with
      | [b0, b1, s0, s1, t0, t1, t2, t3], _ => exact ⟨b0, b1, s0, s1, t0, t1, t2, t3, rfl⟩
    rw [hbytes] at hg
    obtain ⟨x, y, henc⟩ := encodeInfo_bytes b0 b1 s0 s1 t0 t1 t2 t3 inf0 inf hg hs
    have hw : (setInfo h b j inf)[infoOff h j + t]? = (encodeInfo inf)[t]? := by
      unfold setInfo
      rw [writeAt_getElem? _ _ _ (by rw [length_encodeInfo]; exact hb)]
      rw [length_encodeInfo]
      have : ¬ infoOff h j + t < infoOff h j := by omega
      simp [this, ht]
    rw [hw, henc, raw_at_of_slice hbytes t ht]
    have hnm : ¬ (2 ≤ t ∧ t < 4) := by
      intro hc; apply hi
      rcases hj with rfl | rfl
      · right; left; unfold segIDPos; omega
      · right; right; unfold segIDPos; omega
    have hoff : infoOff h j = h.pathOff + 4 + 8 * j := by unfold infoOff MetaLen InfoLen; omega
    have hrng : h.pathOff + 4 ≤ infoOff h j + t ∧ infoOff h j + t < h.pathOff + 4 + 8 * h.numINF := by
      have : 8 * (j + 1) ≤ 8 * h.numINF := Nat.mul_le_mul_left 8 hjn
      omega
    have hne1 : infoOff h j + t ≠ h.pathOff + 1 := by omega
    have hmod : (infoOff h j + t - (h.pathOff + 4)) % 8 = t := by omega
    have hcases : t = 0 ∨ t = 1 ∨ t = 4 ∨ t = 5 ∨ t = 6 ∨ t = 7 := by omega
    rcases hcases with rfl | rfl | rfl | rfl | rfl | rfl
    · right; simp [clr, hne1, hrng, hmod]
    · right; simp [clr, hne1, hrng, hmod]
    · left; rfl
    · left; rfl
    · left; rfl
    · left; rfl

end Scion.Router
